import FitModel.F64
import Mathlib.Tactic.Linarith
import Mathlib.Tactic.Ring
import Mathlib.Tactic.NormNum
import Mathlib.Tactic.GCongr
import Mathlib.Tactic.Positivity
import Mathlib.Tactic.FieldSimp
import Mathlib.Algebra.Order.Field.Power
import Mathlib.Data.Rat.Cast.Order
/-!
Lemmas about the binary64 model `FitModel/F64.lean`.

Part A (naturals): normalisation to a `t+1`-bit integer part, nearest-even rounding error.
-/
namespace Fit.F64

/-! ### A. normalisation and rounding over the naturals -/

theorem normalize_range (t a b : Nat) (ha : 0 < a) (hb : 0 < b) :
    0 < (normalize t a b).2.1 ∧ 2 ^ t * (normalize t a b).2.1 ≤ (normalize t a b).1 ∧
      (normalize t a b).1 < 2 ^ (t + 1) * (normalize t a b).2.1 := by
  have ha1 : 2 ^ a.log2 ≤ a := Nat.log2_self_le (Nat.pos_iff_ne_zero.mp ha)
  have ha2 : a < 2 ^ (a.log2 + 1) := Nat.lt_log2_self
  have hb1 : 2 ^ b.log2 ≤ b := Nat.log2_self_le (Nat.pos_iff_ne_zero.mp hb)
  have hb2 : b < 2 ^ (b.log2 + 1) := Nat.lt_log2_self
  simp only [normalize]
  generalize a.log2 = la at *
  generalize b.log2 = lb at *
  by_cases hcase : lb + t ≤ la
  · simp only [hcase, if_true]
    obtain ⟨k, hk⟩ : ∃ k, la = lb + t + k := ⟨la - lb - t, by omega⟩
    have hk' : la - lb - t = k := by omega
    rw [hk'] at *
    subst hk
    have hDpos : 0 < b * 2 ^ k := by positivity
    have up : a < 2 ^ (t + 1) * (b * 2 ^ k) := by
      calc a < 2 ^ (lb + t + k + 1) := ha2
        _ = 2 ^ (t + 1) * (2 ^ lb * 2 ^ k) := by ring
        _ ≤ 2 ^ (t + 1) * (b * 2 ^ k) := by gcongr
    have lo2 : 2 ^ t * (b * 2 ^ k) < 2 * a := by
      calc 2 ^ t * (b * 2 ^ k) < 2 ^ t * (2 ^ (lb + 1) * 2 ^ k) := by gcongr
        _ = 2 * 2 ^ (lb + t + k) := by ring
        _ ≤ 2 * a := by gcongr
    by_cases hlt : a / (b * 2 ^ k) < 2 ^ t
    · simp only [hlt, if_true]
      refine ⟨hDpos, le_of_lt lo2, ?_⟩
      have : a < 2 ^ t * (b * 2 ^ k) := by
        have := (Nat.div_lt_iff_lt_mul hDpos).mp hlt; linarith
      have e : 2 ^ (t + 1) * (b * 2 ^ k) = 2 * (2 ^ t * (b * 2 ^ k)) := by ring
      rw [e]; linarith
    · simp only [hlt, if_false]
      refine ⟨hDpos, ?_, up⟩
      have := (Nat.le_div_iff_mul_le hDpos).mp (Nat.le_of_not_lt hlt); linarith
  · simp only [hcase, if_false]
    obtain ⟨k, hk⟩ : ∃ k, lb + t = la + k := ⟨lb + t - la, by omega⟩
    have hk' : lb + t - la = k := by omega
    rw [hk'] at *
    have up : a * 2 ^ k < 2 ^ (t + 1) * b := by
      calc a * 2 ^ k < 2 ^ (la + 1) * 2 ^ k := by gcongr
        _ = 2 * 2 ^ (la + k) := by ring
        _ = 2 * 2 ^ (lb + t) := by rw [hk]
        _ = 2 ^ (t + 1) * 2 ^ lb := by ring
        _ ≤ 2 ^ (t + 1) * b := by gcongr
    have lo2 : 2 ^ t * b < 2 * (a * 2 ^ k) := by
      calc 2 ^ t * b < 2 ^ t * 2 ^ (lb + 1) := by gcongr
        _ = 2 * 2 ^ (lb + t) := by ring
        _ = 2 * 2 ^ (la + k) := by rw [hk]
        _ = 2 * (2 ^ la * 2 ^ k) := by ring
        _ ≤ 2 * (a * 2 ^ k) := by gcongr
    by_cases hlt : a * 2 ^ k / b < 2 ^ t
    · simp only [hlt, if_true]
      refine ⟨hb, le_of_lt lo2, ?_⟩
      have : a * 2 ^ k < 2 ^ t * b := by
        have := (Nat.div_lt_iff_lt_mul hb).mp hlt; linarith
      have e : 2 ^ (t + 1) * b = 2 * (2 ^ t * b) := by ring
      rw [e]; linarith
    · simp only [hlt, if_false]
      refine ⟨hb, ?_, up⟩
      have := (Nat.le_div_iff_mul_le hb).mp (Nat.le_of_not_lt hlt); linarith

theorem rnd_err (N D : Nat) (hD : 0 < D) :
    (2 * (rnd N D * D) ≤ 2 * N + D) ∧ (2 * N ≤ 2 * (rnd N D * D) + D) := by
  have h1 := Nat.div_add_mod N D
  have h2 := Nat.mod_lt N hD
  unfold rnd
  simp only
  split
  · rename_i h
    have : 2 * (N % D) ≥ D := by
      simp only [Bool.or_eq_true, decide_eq_true_eq, Bool.and_eq_true, beq_iff_eq] at h
      rcases h with h | ⟨h, _⟩ <;> omega
    have e : (N / D + 1) * D = D * (N / D) + D := by ring
    rw [e]; omega
  · rename_i h
    have : 2 * (N % D) ≤ D := by
      simp only [Bool.or_eq_true, decide_eq_true_eq, Bool.and_eq_true, beq_iff_eq, not_or] at h
      omega
    have e : N / D * D = D * (N / D) := by ring
    rw [e]; omega

theorem rnd_range (t N D : Nat) (hD : 0 < D) (hlo : 2 ^ t * D ≤ N) (hhi : N < 2 ^ (t + 1) * D) :
    2 ^ t ≤ rnd N D ∧ rnd N D ≤ 2 ^ (t + 1) := by
  have ht : 2 ^ t ≤ N / D := (Nat.le_div_iff_mul_le hD).mpr (by linarith)
  have ht' : N / D < 2 ^ (t + 1) := (Nat.div_lt_iff_lt_mul hD).mpr (by linarith)
  unfold rnd; simp only; split <;> omega

/-- a multiple of `D` rounds to the quotient -/
theorem rnd_exact (n D : Nat) (hD : 0 < D) : rnd (n * D) D = n := by
  unfold rnd
  simp [Nat.mul_div_cancel _ hD, Nat.mul_mod_left]
  omega

/-! ### B. decoding the bit patterns that rounding produces -/

/-- exact rational value of a decoded datum (0 for NaN / Inf, which the theorems exclude) -/
def Fl.toQ : Fl → ℚ
  | .fin s m e => (if s then -1 else 1) * (m : ℚ) * (2 : ℚ) ^ e
  | _ => 0

theorem decode_normal (be frac : Nat) (h1 : 1 ≤ be) (h2 : be ≤ 2046) (hf : frac < 2 ^ 52) :
    decode (be * 2 ^ 52 + frac) = .fin false (2 ^ 52 + frac) (-1074 + (be : Int) - 1) := by
  have e1 : (be * 2 ^ 52 + frac) / 2 ^ (52 + 11) % 2 = 0 := by omega
  have e2 : (be * 2 ^ 52 + frac) / 2 ^ 52 % 2 ^ 11 = be := by omega
  have e3 : (be * 2 ^ 52 + frac) % 2 ^ 52 = frac := by omega
  simp only [decode, Fmt.decode, b64, e1, e2, e3]
  have h3 : be ≠ 0 := by omega
  have h4 : be ≠ 2047 := by omega
  simp [h3, h4]

theorem decode_subnormal (frac : Nat) (hf : frac < 2 ^ 52) :
    decode frac = .fin false frac (-1074) := by
  have e1 : frac / 2 ^ (52 + 11) % 2 = 0 := by omega
  have e2 : frac / 2 ^ 52 % 2 ^ 11 = 0 := by omega
  have e3 : frac % 2 ^ 52 = frac := by omega
  simp only [decode, Fmt.decode, b64, e1, e2, e3]
  simp

/-- the layout trick: `qn·2^52 + m` with `m ∈ [2^52, 2^53]` (or `qn = 0`, `m ≤ 2^53`) denotes `m·2^(qn−1074)` -/
theorem decode_layout (qn m : Nat) (hq : qn ≤ 2044) (hm : m ≤ 2 ^ 53) (hn : qn = 0 ∨ 2 ^ 52 ≤ m) :
    ∃ m' q', decode (qn * 2 ^ 52 + m) = .fin false m' q' ∧
      (m' : ℚ) * (2 : ℚ) ^ q' = (m : ℚ) * (2 : ℚ) ^ ((qn : Int) - 1074) := by
  by_cases h53 : m = 2 ^ 53
  · -- carry into the next binade
    refine ⟨2 ^ 52, -1074 + ((qn + 2 : Nat) : Int) - 1, ?_, ?_⟩
    · have := decode_normal (qn + 2) 0 (by omega) (by omega) (by norm_num)
      have e : (qn + 2) * 2 ^ 52 + 0 = qn * 2 ^ 52 + m := by rw [h53]; ring
      rw [e] at this; simpa using this
    · rw [h53]
      have : (-1074 + ((qn + 2 : Nat) : Int) - 1) = ((qn : Int) - 1074) + 1 := by push_cast; ring
      rw [this, zpow_add₀ (by norm_num : (2 : ℚ) ≠ 0)]
      push_cast; ring
  · by_cases hlo : 2 ^ 52 ≤ m
    · refine ⟨m, -1074 + ((qn + 1 : Nat) : Int) - 1, ?_, ?_⟩
      · have := decode_normal (qn + 1) (m - 2 ^ 52) (by omega) (by omega) (by omega)
        have e : (qn + 1) * 2 ^ 52 + (m - 2 ^ 52) = qn * 2 ^ 52 + m := by omega
        have e' : 2 ^ 52 + (m - 2 ^ 52) = m := by omega
        rw [e, e'] at this; exact this
      · have : (-1074 + ((qn + 1 : Nat) : Int) - 1) = ((qn : Int) - 1074) := by push_cast; ring
        rw [this]
    · have hq0 : qn = 0 := by rcases hn with h | h; exact h; omega
      subst hq0
      refine ⟨m, -1074, ?_, ?_⟩
      · have := decode_subnormal m (by omega)
        simpa using this
      · simp

/-! ### C. one rounding: error bound and exactness -/

theorem normalize_value (t a b : Nat) (hb : 0 < b) :
    ((normalize t a b).1 : ℚ) / ((normalize t a b).2.1 : ℚ) * (2 : ℚ) ^ (normalize t a b).2.2 = (a : ℚ) / b := by
  have hb' : (b : ℚ) ≠ 0 := by exact_mod_cast hb.ne'
  have h2 : (2 : ℚ) ≠ 0 := by norm_num
  simp only [normalize]
  split_ifs with h1 h2' h3
  · simp only
    rw [zpow_sub_one₀ h2, zpow_natCast]
    push_cast
    field_simp
  · simp only
    rw [zpow_natCast]
    push_cast
    field_simp
  · simp only
    rw [zpow_sub_one₀ h2, zpow_neg, zpow_natCast]
    push_cast
    field_simp
  · simp only
    rw [zpow_neg, zpow_natCast]
    push_cast
    field_simp

/-- `roundPos` of binary64 on an already normalised fraction -/
def encodePos (N D : Nat) (q : Int) : Nat :=
  if q < -1074 then rnd N (D * 2 ^ (-1074 - q).toNat)
  else
    let bits := (q + 1074).toNat * 2 ^ 52 + rnd N D
    if bits ≥ 2047 * 2 ^ 52 then 2047 * 2 ^ 52 else bits

theorem roundPos_eq (a b : Nat) (e0 : Int) :
    roundPos b64 a b e0 =
      encodePos (normalize 52 a b).1 (normalize 52 a b).2.1 ((normalize 52 a b).2.2 + e0) := by
  simp only [roundPos, encodePos, b64, Fmt.inf]
  have e : ∀ q : Int, q - -1074 = q + 1074 := by intro q; ring
  simp only [e]

/-- |m − N/D| ≤ 1/2 for the rounded quotient -/
theorem rnd_abs (N D : Nat) (hD : 0 < D) : |(rnd N D : ℚ) - (N : ℚ) / D| ≤ 1 / 2 := by
  obtain ⟨h1, h2⟩ := rnd_err N D hD
  have hDq : (0 : ℚ) < D := by exact_mod_cast hD
  have h1' : (2 : ℚ) * (rnd N D * D) ≤ 2 * N + D := by exact_mod_cast h1
  have h2' : (2 : ℚ) * N ≤ 2 * (rnd N D * D) + D := by exact_mod_cast h2
  set x : ℚ := (N : ℚ) / D with hx
  have hN : (N : ℚ) = x * D := by rw [hx]; field_simp
  rw [hN] at h1' h2'
  rw [abs_le]
  constructor
  · have : (x - 1 / 2) * D ≤ (rnd N D : ℚ) * D := by nlinarith
    have := le_of_mul_le_mul_right this hDq
    linarith
  · have : (rnd N D : ℚ) * D ≤ (x + 1 / 2) * D := by nlinarith
    have := le_of_mul_le_mul_right this hDq
    linarith

/-- what one rounding guarantees about a positive value `v = N/D·2^q` below the overflow threshold:
a finite positive result whose value is within `v/2^53 + 2^-1075` of `v`, and equal to `v` whenever `v` is
representable (`M·2^E`, `M < 2^53`, `E ≥ −1074`). -/
def RoundOK (bits : Nat) (v : ℚ) : Prop :=
  bits < 2 ^ 63 ∧ ∃ m q, decode bits = .fin false m q ∧
    |(m : ℚ) * (2 : ℚ) ^ q - v| ≤ v / 2 ^ 53 + (2 : ℚ) ^ (-1075 : Int) ∧
    (∀ (M : Nat) (E : Int), M < 2 ^ 53 → -1074 ≤ E → v = (M : ℚ) * (2 : ℚ) ^ E → (m : ℚ) * (2 : ℚ) ^ q = v)

theorem encodePos_sub (N D : Nat) (q : Int) (hD : 0 < D) (hhi : N < 2 ^ 53 * D) (hq : q < -1074) :
    RoundOK (encodePos N D q) ((N : ℚ) / D * (2 : ℚ) ^ q) := by
  have h2 : (2 : ℚ) ≠ 0 := by norm_num
  obtain ⟨j, hj⟩ : ∃ j : Nat, (j : Int) = -1074 - q := ⟨(-1074 - q).toNat, by omega⟩
  have hj1 : 1 ≤ j := by omega
  have hjn : (-1074 - q).toNat = j := by omega
  simp only [encodePos, hq, if_true, hjn]
  set D' := D * 2 ^ j with hD'
  have hD'pos : 0 < D' := by positivity
  have hDq : (0 : ℚ) < D := by exact_mod_cast hD
  have hD'q : (0 : ℚ) < D' := by exact_mod_cast hD'pos
  -- the value in terms of D'
  have hval : (N : ℚ) / D * (2 : ℚ) ^ q = (N : ℚ) / D' * (2 : ℚ) ^ (-1074 : Int) := by
    have hq' : q = -1074 - (j : Int) := by omega
    rw [hq', zpow_sub₀ h2, zpow_natCast, hD']
    push_cast
    field_simp
  -- m ≤ 2^52
  have hm : rnd N D' ≤ 2 ^ 52 := by
    obtain ⟨e1, _⟩ := rnd_err N D' hD'pos
    have hpow : 2 * D ≤ D' := by
      rw [hD']
      calc 2 * D = D * 2 ^ 1 := by ring
        _ ≤ D * 2 ^ j := by gcongr; norm_num
    have : N < 2 ^ 52 * D' := by
      calc N < 2 ^ 53 * D := hhi
        _ = 2 ^ 52 * (2 * D) := by ring
        _ ≤ 2 ^ 52 * D' := by gcongr
    by_contra hcon
    have hge : 2 ^ 52 + 1 ≤ rnd N D' := by omega
    have : (2 ^ 52 + 1) * D' ≤ rnd N D' * D' := Nat.mul_le_mul_right _ hge
    nlinarith
  obtain ⟨m', q', hdec, hv⟩ := decode_layout 0 (rnd N D') (by norm_num) (by omega) (Or.inl rfl)
  simp only [Nat.zero_mul, Nat.zero_add, Nat.cast_zero, zero_sub] at hdec hv
  refine ⟨by omega, m', q', hdec, ?_, ?_⟩
  · rw [hv, hval]
    have habs := rnd_abs N D' hD'pos
    have hp : (0 : ℚ) < (2 : ℚ) ^ (-1074 : Int) := by positivity
    have e : (rnd N D' : ℚ) * (2 : ℚ) ^ (-1074 : Int) - (N : ℚ) / D' * (2 : ℚ) ^ (-1074 : Int)
        = ((rnd N D' : ℚ) - (N : ℚ) / D') * (2 : ℚ) ^ (-1074 : Int) := by ring
    rw [e, abs_mul, abs_of_pos hp]
    have h1075 : (2 : ℚ) ^ (-1075 : Int) = 1 / 2 * (2 : ℚ) ^ (-1074 : Int) := by
      rw [show (-1075 : Int) = -1074 - 1 by norm_num, zpow_sub_one₀ h2]; ring
    have hnn : (0 : ℚ) ≤ (N : ℚ) / D' * (2 : ℚ) ^ (-1074 : Int) / 2 ^ 53 := by positivity
    rw [h1075]
    nlinarith
  · intro M E _ hE hME
    rw [hv, hval]
    -- N/D' = M·2^(E+1074) is a natural number c, so N = c·D' and rounding is exact
    obtain ⟨k, hk⟩ : ∃ k : Nat, (k : Int) = E + 1074 := ⟨(E + 1074).toNat, by omega⟩
    have hc : (N : ℚ) / D' = ((M * 2 ^ k : Nat) : ℚ) := by
      rw [hval] at hME
      have hE' : E = (k : Int) + (-1074) := by omega
      rw [hE', zpow_add₀ h2, zpow_natCast] at hME
      have hp : ((2 : ℚ) ^ (-1074 : Int)) ≠ 0 := by positivity
      have := mul_right_cancel₀ hp (by rw [hME]; ring : (N : ℚ) / D' * (2 : ℚ) ^ (-1074 : Int) = ((M : ℚ) * 2 ^ k) * (2 : ℚ) ^ (-1074 : Int))
      rw [this]; push_cast; ring
    have hN : N = (M * 2 ^ k) * D' := by
      have : (N : ℚ) = ((M * 2 ^ k : Nat) : ℚ) * D' := by
        rw [← hc]; field_simp
      exact_mod_cast this
    rw [hN, rnd_exact _ _ hD'pos]
    push_cast
    field_simp

theorem encodePos_normal (N D : Nat) (q : Int) (hD : 0 < D) (hlo : 2 ^ 52 * D ≤ N) (hhi : N < 2 ^ 53 * D)
    (hq : ¬ q < -1074) (hv : (N : ℚ) / D * (2 : ℚ) ^ q < (2 : ℚ) ^ (1023 : Int)) :
    RoundOK (encodePos N D q) ((N : ℚ) / D * (2 : ℚ) ^ q) := by
  have h2 : (2 : ℚ) ≠ 0 := by norm_num
  have hDq : (0 : ℚ) < D := by exact_mod_cast hD
  have hxlo : (2 : ℚ) ^ 52 ≤ (N : ℚ) / D := by
    rw [le_div_iff₀ hDq]; exact_mod_cast hlo
  have hxhi : (N : ℚ) / D < (2 : ℚ) ^ 53 := by
    rw [div_lt_iff₀ hDq]; exact_mod_cast hhi
  obtain ⟨qn, hqn⟩ : ∃ qn : Nat, (qn : Int) = q + 1074 := ⟨(q + 1074).toNat, by omega⟩
  have hqn' : (q + 1074).toNat = qn := by omega
  -- no overflow: 2^52·2^q ≤ v < 2^1023
  have hq970 : q ≤ 970 := by
    by_contra hcon
    have hq971 : (971 : Int) ≤ q := by omega
    have hp : (2 : ℚ) ^ (971 : Int) ≤ (2 : ℚ) ^ q := zpow_le_zpow_right₀ (by norm_num) hq971
    have hpos : (0 : ℚ) < (2 : ℚ) ^ q := by positivity
    have : (2 : ℚ) ^ 52 * (2 : ℚ) ^ (971 : Int) ≤ (N : ℚ) / D * (2 : ℚ) ^ q := by
      calc (2 : ℚ) ^ 52 * (2 : ℚ) ^ (971 : Int) ≤ (2 : ℚ) ^ 52 * (2 : ℚ) ^ q := by gcongr
        _ ≤ (N : ℚ) / D * (2 : ℚ) ^ q := by gcongr
    have e : (2 : ℚ) ^ 52 * (2 : ℚ) ^ (971 : Int) = (2 : ℚ) ^ (1023 : Int) := by
      rw [← zpow_natCast, ← zpow_add₀ h2]; norm_num
    rw [e] at this
    exact absurd hv (not_lt.mpr this)
  have hqn2044 : qn ≤ 2044 := by omega
  obtain ⟨hm1, hm2⟩ := rnd_range 52 N D hD hlo (by simpa using hhi)
  have hm2' : rnd N D ≤ 2 ^ 53 := by simpa using hm2
  have hbits : ¬ (qn * 2 ^ 52 + rnd N D ≥ 2047 * 2 ^ 52) := by
    have : qn * 2 ^ 52 ≤ 2044 * 2 ^ 52 := Nat.mul_le_mul_right _ hqn2044
    omega
  simp only [encodePos, hq, if_false, hqn', hbits]
  obtain ⟨m', q', hdec, hval⟩ := decode_layout qn (rnd N D) hqn2044 hm2' (Or.inr hm1)
  have hqq : (qn : Int) - 1074 = q := by omega
  rw [hqq] at hval
  refine ⟨by omega, m', q', hdec, ?_, ?_⟩
  · rw [hval]
    have habs := rnd_abs N D hD
    have hp : (0 : ℚ) < (2 : ℚ) ^ q := by positivity
    have e : (rnd N D : ℚ) * (2 : ℚ) ^ q - (N : ℚ) / D * (2 : ℚ) ^ q = ((rnd N D : ℚ) - (N : ℚ) / D) * (2 : ℚ) ^ q := by ring
    rw [e, abs_mul, abs_of_pos hp]
    have hpp : (0 : ℚ) < (2 : ℚ) ^ (-1075 : Int) := by positivity
    have h53 : (2 : ℚ) ^ 53 = 2 * (2 : ℚ) ^ 52 := by norm_num
    have hle : (1 / 2 : ℚ) * (2 : ℚ) ^ q ≤ (N : ℚ) / D * (2 : ℚ) ^ q / 2 ^ 53 := by
      rw [le_div_iff₀ (by positivity)]
      have : (2 : ℚ) ^ 52 * (2 : ℚ) ^ q ≤ (N : ℚ) / D * (2 : ℚ) ^ q := by gcongr
      rw [h53]; nlinarith
    nlinarith
  · intro M E hM hE hME
    rw [hval]
    have hMq : (M : ℚ) < (2 : ℚ) ^ 53 := by exact_mod_cast hM
    have hp : ((2 : ℚ) ^ q) ≠ 0 := by positivity
    by_cases hEq : q ≤ E
    · obtain ⟨k, hk⟩ : ∃ k : Nat, (k : Int) = E - q := ⟨(E - q).toNat, by omega⟩
      have hc : (N : ℚ) / D = ((M * 2 ^ k : Nat) : ℚ) := by
        have hE' : E = (k : Int) + q := by omega
        rw [hE', zpow_add₀ h2, zpow_natCast] at hME
        have := mul_right_cancel₀ hp (by rw [hME]; ring : (N : ℚ) / D * (2 : ℚ) ^ q = ((M : ℚ) * 2 ^ k) * (2 : ℚ) ^ q)
        rw [this]; push_cast; ring
      have hN : N = (M * 2 ^ k) * D := by
        have : (N : ℚ) = ((M * 2 ^ k : Nat) : ℚ) * D := by rw [← hc]; field_simp
        exact_mod_cast this
      rw [hN, rnd_exact _ _ hD]
      push_cast
      field_simp
    · -- E < q: then N/D = M / 2^(q−E) < 2^52, impossible
      exfalso
      obtain ⟨k, hk⟩ : ∃ k : Nat, (k : Int) = q - E := ⟨(q - E).toNat, by omega⟩
      have hk1 : 1 ≤ k := by omega
      have hq' : q = E + (k : Int) := by omega
      have hpE : ((2 : ℚ) ^ E) ≠ 0 := by positivity
      have : (N : ℚ) / D * 2 ^ k = M := by
        rw [hq', zpow_add₀ h2, zpow_natCast] at hME
        have := mul_right_cancel₀ hpE (by rw [← hME]; ring : ((N : ℚ) / D * 2 ^ k) * (2 : ℚ) ^ E = (M : ℚ) * (2 : ℚ) ^ E)
        exact this
      have h2k : (2 : ℚ) ≤ 2 ^ k := by
        calc (2 : ℚ) = 2 ^ 1 := by norm_num
          _ ≤ 2 ^ k := pow_le_pow_right₀ (by norm_num) hk1
      have : (2 : ℚ) ^ 52 * 2 ≤ M := by
        rw [← this]
        have h0 : (0 : ℚ) ≤ (N : ℚ) / D := le_trans (by norm_num) hxlo
        exact mul_le_mul hxlo h2k (by norm_num) h0
      have h53 : (2 : ℚ) ^ 53 = (2 : ℚ) ^ 52 * 2 := by norm_num
      linarith

/-- one rounding of a positive rational below the overflow threshold -/
theorem roundPos_spec (a b : Nat) (e0 : Int) (ha : 0 < a) (hb : 0 < b)
    (hv : (a : ℚ) / b * (2 : ℚ) ^ e0 < (2 : ℚ) ^ (1023 : Int)) :
    RoundOK (roundPos b64 a b e0) ((a : ℚ) / b * (2 : ℚ) ^ e0) := by
  obtain ⟨hD, hlo, hhi⟩ := normalize_range 52 a b ha hb
  have hval := normalize_value 52 a b hb
  rw [roundPos_eq]
  have h2 : (2 : ℚ) ≠ 0 := by norm_num
  have hv' : (a : ℚ) / b * (2 : ℚ) ^ e0 =
      ((normalize 52 a b).1 : ℚ) / ((normalize 52 a b).2.1 : ℚ) * (2 : ℚ) ^ ((normalize 52 a b).2.2 + e0) := by
    rw [zpow_add₀ h2, ← mul_assoc, hval]
  rw [hv'] at hv ⊢
  by_cases hq : (normalize 52 a b).2.2 + e0 < -1074
  · exact encodePos_sub _ _ _ hD (by simpa using hhi) hq
  · exact encodePos_normal _ _ _ hD hlo (by simpa using hhi) hq hv

/-! ### D. the operations: each is one rounding of the exact result -/

theorem decode_signbit (bits m : Nat) (q : Int) (hb : bits < 2 ^ 63) (h : decode bits = .fin false m q) :
    decode (2 ^ 63 + bits) = .fin true m q := by
  have e1 : (2 ^ 63 + bits) / 2 ^ (52 + 11) % 2 = 1 := by omega
  have e1' : bits / 2 ^ (52 + 11) % 2 = 0 := by omega
  have e2 : (2 ^ 63 + bits) / 2 ^ 52 % 2 ^ 11 = bits / 2 ^ 52 % 2 ^ 11 := by omega
  have e3 : (2 ^ 63 + bits) % 2 ^ 52 = bits % 2 ^ 52 := by omega
  simp only [decode, Fmt.decode, b64, e1, e1', e2, e3] at h ⊢
  split_ifs at h ⊢ <;> simp_all

/-- a finite result that approximates the exact value `z` the way one rounding does -/
def Approx (r : Nat) (z : ℚ) : Prop :=
  ∃ s m q, decode r = .fin s m q ∧
    |Fl.toQ (.fin s m q) - z| ≤ |z| / 2 ^ 53 + (2 : ℚ) ^ (-1075 : Int) ∧
    (∀ (M : Nat) (E : Int), M < 2 ^ 53 → -1074 ≤ E → |z| = (M : ℚ) * (2 : ℚ) ^ E → Fl.toQ (.fin s m q) = z)

theorem decode_zero (neg : Bool) : decode (b64.signBit neg) = .fin neg 0 (-1074) := by
  cases neg <;> decide +kernel

theorem ofRat_spec (neg : Bool) (a b : Nat) (e0 : Int) (hb : 0 < b)
    (hv : (a : ℚ) / b * (2 : ℚ) ^ e0 < (2 : ℚ) ^ (1023 : Int)) :
    Approx (b64.ofRat neg a b e0) ((if neg then -1 else 1) * ((a : ℚ) / b * (2 : ℚ) ^ e0)) := by
  by_cases ha : a = 0
  · subst ha
    refine ⟨neg, 0, -1074, ?_, ?_, ?_⟩
    · simp [Fmt.ofRat, decode_zero]
    · simp [Fl.toQ]
    · intro _ _ _ _ _; simp [Fl.toQ]
  · have hapos : 0 < a := Nat.pos_of_ne_zero ha
    have hbn : b ≠ 0 := hb.ne'
    obtain ⟨hlt, m, q, hdec, herr, hex⟩ := roundPos_spec a b e0 hapos hb hv
    have hvpos : (0 : ℚ) < (a : ℚ) / b * (2 : ℚ) ^ e0 := by positivity
    simp only [Fmt.ofRat, ha, hbn, or_self, if_false]
    cases neg with
    | false =>
      refine ⟨false, m, q, ?_, ?_, ?_⟩
      · simpa [Fmt.signBit] using hdec
      · simpa [Fl.toQ, abs_of_pos hvpos] using herr
      · intro M E hM hE hz
        simp only [Fl.toQ, Bool.false_eq_true, if_false, one_mul] at hz ⊢
        rw [abs_of_pos hvpos] at hz
        exact hex M E hM hE hz
    | true =>
      refine ⟨true, m, q, ?_, ?_, ?_⟩
      · have := decode_signbit _ m q hlt hdec
        simpa [Fmt.signBit, b64] using this
      · simp only [Fl.toQ, if_true]
        have e : (-1 : ℚ) * (m : ℚ) * (2 : ℚ) ^ q - -1 * ((a : ℚ) / b * (2 : ℚ) ^ e0)
            = -((m : ℚ) * (2 : ℚ) ^ q - (a : ℚ) / b * (2 : ℚ) ^ e0) := by ring
        rw [e, abs_neg, abs_mul, abs_of_pos hvpos]
        simpa using herr
      · intro M E hM hE hz
        simp only [Fl.toQ, if_true] at hz ⊢
        rw [abs_mul, abs_of_pos hvpos] at hz
        simp only [abs_neg, abs_one, one_mul] at hz
        have := hex M E hM hE hz
        rw [mul_assoc, this]

abbrev sgn (s : Bool) : ℚ := if s then -1 else 1

theorem toQ_fin (s : Bool) (m : Nat) (e : Int) : Fl.toQ (.fin s m e) = sgn s * (m : ℚ) * (2 : ℚ) ^ e := rfl

theorem sgn_xor (s s' : Bool) : sgn (s != s') = sgn s * sgn s' := by
  cases s <;> cases s' <;> simp [sgn]

theorem abs_sgn (s : Bool) : |sgn s| = 1 := by cases s <;> simp [sgn]

/-- `x * y` -/
theorem mul_spec (x y : Nat) (s s' : Bool) (m m' : Nat) (e e' : Int)
    (hx : decode x = .fin s m e) (hy : decode y = .fin s' m' e')
    (hz : (m : ℚ) * (2 : ℚ) ^ e * ((m' : ℚ) * (2 : ℚ) ^ e') < (2 : ℚ) ^ (1023 : Int)) :
    Approx (mul x y) (Fl.toQ (.fin s m e) * Fl.toQ (.fin s' m' e')) := by
  have h2 : (2 : ℚ) ≠ 0 := by norm_num
  simp only [mul, hx, hy]
  have key := ofRat_spec (s != s') (m * m') 1 (e + e') (by norm_num) (by
    rw [zpow_add₀ h2]; push_cast
    calc ((m : ℚ) * m') / 1 * ((2 : ℚ) ^ e * (2 : ℚ) ^ e') = (m : ℚ) * (2 : ℚ) ^ e * ((m' : ℚ) * (2 : ℚ) ^ e') := by ring
      _ < _ := hz)
  have e1 : (if (s != s') = true then (-1 : ℚ) else 1) * (((m * m' : Nat) : ℚ) / (1 : Nat) * (2 : ℚ) ^ (e + e'))
      = Fl.toQ (.fin s m e) * Fl.toQ (.fin s' m' e') := by
    rw [toQ_fin, toQ_fin, zpow_add₀ h2]
    have := sgn_xor s s'
    simp only [sgn] at this ⊢
    rw [this]; push_cast; ring
  rw [e1] at key
  exact key

/-- `x / y` for a non-zero divisor -/
theorem div_spec (x y : Nat) (s s' : Bool) (m m' : Nat) (e e' : Int)
    (hx : decode x = .fin s m e) (hy : decode y = .fin s' m' e') (hm' : m' ≠ 0)
    (hz : (m : ℚ) * (2 : ℚ) ^ e / ((m' : ℚ) * (2 : ℚ) ^ e') < (2 : ℚ) ^ (1023 : Int)) :
    Approx (div x y) (Fl.toQ (.fin s m e) / Fl.toQ (.fin s' m' e')) := by
  have h2 : (2 : ℚ) ≠ 0 := by norm_num
  have hm'q : (m' : ℚ) ≠ 0 := by exact_mod_cast hm'
  have hp' : ((2 : ℚ) ^ e') ≠ 0 := by positivity
  simp only [div, hx, hy, hm', if_false]
  have hval : (m : ℚ) / m' * (2 : ℚ) ^ (e - e') = (m : ℚ) * (2 : ℚ) ^ e / ((m' : ℚ) * (2 : ℚ) ^ e') := by
    rw [zpow_sub₀ h2]; field_simp
  have key := ofRat_spec (s != s') m m' (e - e') (Nat.pos_of_ne_zero hm') (by rw [hval]; exact hz)
  have e1 : (if (s != s') = true then (-1 : ℚ) else 1) * ((m : ℚ) / m' * (2 : ℚ) ^ (e - e'))
      = Fl.toQ (.fin s m e) / Fl.toQ (.fin s' m' e') := by
    rw [toQ_fin, toQ_fin, hval]
    cases s <;> cases s' <;> simp [sgn] <;> field_simp
  rw [e1] at key
  exact key

theorem approx_zero (neg : Bool) : Approx (zeroBits neg) 0 := by
  refine ⟨neg, 0, -1074, ?_, ?_, ?_⟩
  · simpa [zeroBits] using decode_zero neg
  · simp [Fl.toQ]
  · intro _ _ _ _ _; simp [Fl.toQ]

/-- `x + y` -/
theorem add_spec (x y : Nat) (s s' : Bool) (m m' : Nat) (e e' : Int)
    (hx : decode x = .fin s m e) (hy : decode y = .fin s' m' e')
    (hz : |Fl.toQ (.fin s m e) + Fl.toQ (.fin s' m' e')| < (2 : ℚ) ^ (1023 : Int)) :
    Approx (add x y) (Fl.toQ (.fin s m e) + Fl.toQ (.fin s' m' e')) := by
  have h2 : (2 : ℚ) ≠ 0 := by norm_num
  simp only [add, hx, hy, addFin]
  set e0 := min e e' with he0
  obtain ⟨k, hk⟩ : ∃ k : Nat, (k : Int) = e - e0 := ⟨(e - e0).toNat, by have := min_le_left e e'; omega⟩
  obtain ⟨k', hk'⟩ : ∃ k' : Nat, (k' : Int) = e' - e0 := ⟨(e' - e0).toNat, by have := min_le_right e e'; omega⟩
  have hkn : (e - e0).toNat = k := by omega
  have hkn' : (e' - e0).toNat = k' := by omega
  rw [hkn, hkn']
  set c : Int := (if s then -1 else 1) * (m : Int) * 2 ^ k + (if s' then -1 else 1) * (m' : Int) * 2 ^ k' with hc
  -- the exact sum is c·2^e0
  have hsum : Fl.toQ (.fin s m e) + Fl.toQ (.fin s' m' e') = (c : ℚ) * (2 : ℚ) ^ e0 := by
    rw [toQ_fin, toQ_fin, hc]
    have he : e = (k : Int) + e0 := by omega
    have he' : e' = (k' : Int) + e0 := by omega
    rw [he, he', zpow_add₀ h2, zpow_add₀ h2, zpow_natCast, zpow_natCast]
    have : (k : Int) + e0 - e0 = k := by ring
    push_cast
    cases s <;> cases s' <;> simp [sgn] <;> ring
  by_cases hc0 : c = 0
  · simp only [hc0, if_true]
    rw [hsum, hc0]
    simp only [Int.cast_zero, zero_mul]
    split_ifs <;> exact approx_zero _
  · simp only [hc0, if_false]
    rw [hsum] at hz ⊢
    have hp : (0 : ℚ) < (2 : ℚ) ^ e0 := by positivity
    have habs : ((c.natAbs : Nat) : ℚ) = |(c : ℚ)| := by
      rw [Nat.cast_natAbs, Int.cast_abs]
    have key := ofRat_spec (decide (c < 0)) c.natAbs 1 e0 (by norm_num) (by
      rw [habs]
      rw [abs_mul, abs_of_pos hp] at hz
      simpa using hz)
    have e1 : (if decide (c < 0) = true then (-1 : ℚ) else 1) * ((c.natAbs : ℚ) / (1 : Nat) * (2 : ℚ) ^ e0)
        = (c : ℚ) * (2 : ℚ) ^ e0 := by
      rw [habs]
      by_cases hneg : c < 0
      · have : (c : ℚ) < 0 := by exact_mod_cast hneg
        simp [hneg, abs_of_neg this]
      · have : (0 : ℚ) ≤ (c : ℚ) := by exact_mod_cast (not_lt.mp hneg)
        simp [hneg, abs_of_nonneg this]
    rw [e1] at key
    exact key

theorem decode_negate (y : Nat) (hy64 : y < 2 ^ 64) (s : Bool) (m : Nat) (e : Int) (hy : decode y = .fin s m e) :
    decode (negate y) = .fin (!s) m e := by
  unfold negate
  split_ifs with h
  · have e1 : (y - 2 ^ 63) / 2 ^ (52 + 11) % 2 = 0 := by omega
    have e1' : y / 2 ^ (52 + 11) % 2 = 1 := by omega
    have e2 : (y - 2 ^ 63) / 2 ^ 52 % 2 ^ 11 = y / 2 ^ 52 % 2 ^ 11 := by omega
    have e3 : (y - 2 ^ 63) % 2 ^ 52 = y % 2 ^ 52 := by omega
    simp only [decode, Fmt.decode, b64, e1, e1', e2, e3] at hy ⊢
    split_ifs at hy ⊢ <;> simp_all
  · have e1 : (y + 2 ^ 63) / 2 ^ (52 + 11) % 2 = 1 := by omega
    have e1' : y / 2 ^ (52 + 11) % 2 = 0 := by omega
    have e2 : (y + 2 ^ 63) / 2 ^ 52 % 2 ^ 11 = y / 2 ^ 52 % 2 ^ 11 := by omega
    have e3 : (y + 2 ^ 63) % 2 ^ 52 = y % 2 ^ 52 := by omega
    simp only [decode, Fmt.decode, b64, e1, e1', e2, e3] at hy ⊢
    split_ifs at hy ⊢ <;> simp_all

/-- `x - y` -/
theorem sub_spec (x y : Nat) (hy64 : y < 2 ^ 64) (s s' : Bool) (m m' : Nat) (e e' : Int)
    (hx : decode x = .fin s m e) (hy : decode y = .fin s' m' e')
    (hz : |Fl.toQ (.fin s m e) - Fl.toQ (.fin s' m' e')| < (2 : ℚ) ^ (1023 : Int)) :
    Approx (sub x y) (Fl.toQ (.fin s m e) - Fl.toQ (.fin s' m' e')) := by
  have hn := decode_negate y hy64 s' m' e' hy
  have hneg : Fl.toQ (.fin (!s') m' e') = -Fl.toQ (.fin s' m' e') := by
    rw [toQ_fin, toQ_fin]; cases s' <;> simp [sgn]
  have : sub x y = add x (negate y) := by
    simp only [sub, hx, hy]
  rw [this, sub_eq_add_neg, ← hneg]
  apply add_spec x (negate y) s (!s') m m' e e' hx hn
  rw [hneg, ← sub_eq_add_neg]; exact hz

/-- `float64(i)` is exact below 2^53 -/
theorem ofInt_exact (i : Int) (hi : i.natAbs < 2 ^ 53) :
    ∃ s m q, decode (ofInt i) = .fin s m q ∧ Fl.toQ (.fin s m q) = (i : ℚ) := by
  have key := ofRat_spec (decide (i < 0)) i.natAbs 1 0 (by norm_num) (by
    have : ((i.natAbs : Nat) : ℚ) < 2 ^ 53 := by exact_mod_cast hi
    have h : (2 : ℚ) ^ 53 < (2 : ℚ) ^ (1023 : Int) := by
      rw [← zpow_natCast]; exact zpow_lt_zpow_right₀ (by norm_num) (by norm_num)
    have e : ((i.natAbs : Nat) : ℚ) / ((1 : Nat) : ℚ) * (2 : ℚ) ^ (0 : Int) = (i.natAbs : ℚ) := by simp
    rw [e]; exact lt_trans this h)
  have habs : ((i.natAbs : Nat) : ℚ) = |(i : ℚ)| := by rw [Nat.cast_natAbs, Int.cast_abs]
  have e1 : (if decide (i < 0) = true then (-1 : ℚ) else 1) * ((i.natAbs : ℚ) / (1 : Nat) * (2 : ℚ) ^ (0 : Int)) = (i : ℚ) := by
    rw [habs]
    by_cases hneg : i < 0
    · have : (i : ℚ) < 0 := by exact_mod_cast hneg
      simp [hneg, abs_of_neg this]
    · have : (0 : ℚ) ≤ (i : ℚ) := by exact_mod_cast (not_lt.mp hneg)
      simp [hneg, abs_of_nonneg this]
  rw [e1] at key
  obtain ⟨s, m, q, hdec, _, hex⟩ := key
  refine ⟨s, m, q, hdec, ?_⟩
  apply hex i.natAbs 0 hi (by norm_num)
  rw [← habs]; simp

/-! ### E. interface over values -/

/-- `x` is a finite datum with exact value `q` -/
def IsFin (x : Nat) (q : ℚ) : Prop := ∃ s m e, decode x = .fin s m e ∧ Fl.toQ (.fin s m e) = q

def eta : ℚ := (2 : ℚ) ^ (-1075 : Int)

/-- `q` is what one rounding makes of the exact value `z` -/
def Near (q z : ℚ) : Prop :=
  |q - z| ≤ |z| / 2 ^ 53 + eta ∧
    (∀ (M : Nat) (E : Int), M < 2 ^ 53 → -1074 ≤ E → |z| = (M : ℚ) * (2 : ℚ) ^ E → q = z)

theorem approx_iff (r : Nat) (z : ℚ) (h : Approx r z) : ∃ q, IsFin r q ∧ Near q z := by
  obtain ⟨s, m, q, hd, he, hx⟩ := h
  exact ⟨_, ⟨s, m, q, hd, rfl⟩, he, hx⟩

theorem abs_toQ (s : Bool) (m : Nat) (e : Int) : |Fl.toQ (.fin s m e)| = (m : ℚ) * (2 : ℚ) ^ e := by
  rw [toQ_fin, abs_mul, abs_mul, abs_sgn, one_mul]
  rw [abs_of_nonneg (by positivity : (0 : ℚ) ≤ (m : ℚ)), abs_of_pos (by positivity)]

theorem div_fin (x y : Nat) (qx qy : ℚ) (hx : IsFin x qx) (hy : IsFin y qy) (hy0 : qy ≠ 0)
    (hz : |qx / qy| < (2 : ℚ) ^ (1023 : Int)) : ∃ q, IsFin (div x y) q ∧ Near q (qx / qy) := by
  obtain ⟨s, m, e, hdx, rfl⟩ := hx
  obtain ⟨s', m', e', hdy, rfl⟩ := hy
  have hm' : m' ≠ 0 := by
    intro h; apply hy0; rw [toQ_fin, h]; simp
  apply approx_iff
  apply div_spec x y s s' m m' e e' hdx hdy hm'
  rw [abs_div, abs_toQ, abs_toQ] at hz
  exact hz

theorem mul_fin (x y : Nat) (qx qy : ℚ) (hx : IsFin x qx) (hy : IsFin y qy)
    (hz : |qx * qy| < (2 : ℚ) ^ (1023 : Int)) : ∃ q, IsFin (mul x y) q ∧ Near q (qx * qy) := by
  obtain ⟨s, m, e, hdx, rfl⟩ := hx
  obtain ⟨s', m', e', hdy, rfl⟩ := hy
  apply approx_iff
  apply mul_spec x y s s' m m' e e' hdx hdy
  rw [abs_mul, abs_toQ, abs_toQ] at hz
  exact hz

theorem add_fin (x y : Nat) (qx qy : ℚ) (hx : IsFin x qx) (hy : IsFin y qy)
    (hz : |qx + qy| < (2 : ℚ) ^ (1023 : Int)) : ∃ q, IsFin (add x y) q ∧ Near q (qx + qy) := by
  obtain ⟨s, m, e, hdx, rfl⟩ := hx
  obtain ⟨s', m', e', hdy, rfl⟩ := hy
  exact approx_iff _ _ (add_spec x y s s' m m' e e' hdx hdy hz)

theorem sub_fin (x y : Nat) (hy64 : y < 2 ^ 64) (qx qy : ℚ) (hx : IsFin x qx) (hy : IsFin y qy)
    (hz : |qx - qy| < (2 : ℚ) ^ (1023 : Int)) : ∃ q, IsFin (sub x y) q ∧ Near q (qx - qy) := by
  obtain ⟨s, m, e, hdx, rfl⟩ := hx
  obtain ⟨s', m', e', hdy, rfl⟩ := hy
  exact approx_iff _ _ (sub_spec x y hy64 s s' m m' e e' hdx hdy hz)

theorem ofInt_fin (i : Int) (hi : i.natAbs < 2 ^ 53) : IsFin (ofInt i) (i : ℚ) := by
  obtain ⟨s, m, q, hd, hv⟩ := ofInt_exact i hi
  exact ⟨s, m, q, hd, hv⟩

/-! ### F. integer-valued data: truncation, `math.Round`, conversion -/

theorem truncInt_of_int (s : Bool) (m : Nat) (e : Int) (i : Int)
    (h : Fl.toQ (.fin s m e) = (i : ℚ)) : truncInt s m e = i := by
  have h2 : (2 : ℚ) ≠ 0 := by norm_num
  rw [toQ_fin] at h
  unfold truncInt
  by_cases he : e ≥ 0
  · obtain ⟨k, hk⟩ : ∃ k : Nat, (k : Int) = e := ⟨e.toNat, by omega⟩
    have hkn : e.toNat = k := by omega
    simp only [he, if_true, hkn]
    rw [← hk, zpow_natCast] at h
    cases s with
    | false =>
      simp only [sgn, Bool.false_eq_true, if_false, one_mul] at h ⊢
      have : ((m * 2 ^ k : Nat) : ℚ) = (i : ℚ) := by push_cast; exact h
      exact_mod_cast this
    | true =>
      simp only [sgn, if_true] at h ⊢
      have : (-((m * 2 ^ k : Nat) : Int) : ℚ) = (i : ℚ) := by push_cast; linarith
      exact_mod_cast this
  · obtain ⟨k, hk⟩ : ∃ k : Nat, (k : Int) = -e := ⟨(-e).toNat, by omega⟩
    have hkn : (-e).toNat = k := by omega
    simp only [he, if_false, hkn]
    have he' : e = -(k : Int) := by omega
    rw [he', zpow_neg, zpow_natCast] at h
    have hp : ((2 : ℚ) ^ k) ≠ 0 := by positivity
    cases s with
    | false =>
      simp only [sgn, Bool.false_eq_true, if_false, one_mul] at h ⊢
      have hm : ((m : Int) : ℚ) = ((i * 2 ^ k : Int) : ℚ) := by
        push_cast; field_simp at h; linarith
      have hm' : (m : Int) = i * 2 ^ k := by exact_mod_cast hm
      have : ((m / 2 ^ k : Nat) : Int) = i := by
        rw [Int.natCast_div, hm']; push_cast
        exact Int.mul_ediv_cancel _ (by positivity)
      exact this
    | true =>
      simp only [sgn, if_true] at h ⊢
      have hm : ((m : Int) : ℚ) = ((-i * 2 ^ k : Int) : ℚ) := by
        push_cast; field_simp at h; linarith
      have hm' : (m : Int) = -i * 2 ^ k := by exact_mod_cast hm
      have : ((m / 2 ^ k : Nat) : Int) = -i := by
        rw [Int.natCast_div, hm']; push_cast
        exact Int.mul_ediv_cancel _ (by positivity)
      omega

theorem cvtt_int (w : Nat) (y : Nat) (r : Int) (hy : IsFin y (r : ℚ))
    (hr : -(2 ^ (w - 1) : Int) ≤ r ∧ r < 2 ^ (w - 1)) : cvtt w y = wrap w r := by
  obtain ⟨s, m, e, hd, hv⟩ := hy
  have := truncInt_of_int s m e r hv
  simp only [cvtt, hd, this, hr, and_self, if_true]

/-- the types of at most 32 bits: `r` lies in the range of the type -/
def InRange (ty : IntTy) (r : Int) : Prop :=
  if ty.signed then -(2 ^ (ty.bits - 1) : Int) ≤ r ∧ r < 2 ^ (ty.bits - 1) else 0 ≤ r ∧ r < 2 ^ ty.bits

theorem wrap_mod (w b : Nat) (hb : b ≤ w) (r : Int) : wrap w r % 2 ^ b = wrap b r := by
  unfold wrap
  have hd : ((2 : Int) ^ b) ∣ (2 : Int) ^ w := pow_dvd_pow 2 hb
  have h1 : (0 : Int) ≤ r % 2 ^ w := Int.emod_nonneg _ (by positivity)
  have h2 : (0 : Int) ≤ r % 2 ^ b := Int.emod_nonneg _ (by positivity)
  apply Int.ofNat.inj
  simp only [Int.ofNat_eq_natCast]
  push_cast
  rw [Int.toNat_of_nonneg h1, Int.toNat_of_nonneg h2]
  exact Int.emod_emod_of_dvd r hd

theorem cvt_int (ty : IntTy) (hty : ty.bits ≤ 32) (y : Nat) (r : Int) (hy : IsFin y (r : ℚ))
    (hr : InRange ty r) : cvt ty y = wrap ty.bits r := by
  cases ty <;> simp only [IntTy.bits, IntTy.signed, InRange, if_true, Bool.false_eq_true, if_false] at hty hr ⊢
  all_goals first
    | (simp only [cvt, IntTy.bits]
       rw [cvtt_int 32 y r hy (by constructor <;> norm_num <;> omega)]
       exact wrap_mod 32 _ (by norm_num) r)
    | (simp only [cvt, IntTy.bits]
       rw [cvtt_int 64 y r hy (by constructor <;> norm_num <;> omega)]
       exact wrap_mod 64 _ (by norm_num) r)
    | omega

/-- `math.Round` of a value within 1/2 of the integer `r` is `r` -/
theorem round_fin (x : Nat) (q : ℚ) (r : Int) (hx : IsFin x q) (hq : |q - r| < 1 / 2) (hr : r.natAbs < 2 ^ 53) :
    IsFin (round x) (r : ℚ) := by
  have h2 : (2 : ℚ) ≠ 0 := by norm_num
  obtain ⟨s, m, e, hd, hv⟩ := hx
  rw [toQ_fin] at hv
  by_cases he : e ≥ 0
  · -- already an integer
    simp only [round, hd, he, if_true]
    refine ⟨s, m, e, hd, ?_⟩
    obtain ⟨k, hk⟩ : ∃ k : Nat, (k : Int) = e := ⟨e.toNat, by omega⟩
    rw [toQ_fin]
    rw [← hk, zpow_natCast] at hv ⊢
    -- q is the integer j
    obtain ⟨j, hj⟩ : ∃ j : Int, (j : ℚ) = q := by
      refine ⟨(if s then -1 else 1) * (m : Int) * 2 ^ k, ?_⟩
      rw [← hv]; cases s <;> simp [sgn]
    rw [hv]
    rw [← hj] at hq ⊢
    have : |((j - r : Int) : ℚ)| < 1 / 2 := by push_cast; exact hq
    rw [← Int.cast_abs] at this
    have hlt : |j - r| < 1 := by
      have : ((|j - r| : Int) : ℚ) < 1 := by linarith
      exact_mod_cast this
    have : j = r := by
      have := abs_lt.mp hlt; omega
    rw [this]
  · obtain ⟨k, hk⟩ : ∃ k : Nat, (k : Int) = -e := ⟨(-e).toNat, by omega⟩
    have hkn : (-e).toNat = k := by omega
    have hk1 : 1 ≤ k := by omega
    simp only [round, hd, he, if_false, hkn]
    have he' : e = -(k : Int) := by omega
    rw [he', zpow_neg, zpow_natCast] at hv
    have hp : (0 : ℚ) < (2 : ℚ) ^ k := by positivity
    set a := r.natAbs with ha
    -- |m/2^k − a| < 1/2 and the sign agrees with r unless r = 0
    have haq : (a : ℚ) = |(r : ℚ)| := by rw [ha, Nat.cast_natAbs, Int.cast_abs]
    have hmag : |(m : ℚ) * ((2 : ℚ) ^ k)⁻¹ - a| < 1 / 2 ∧ (r ≠ 0 → s = decide (r < 0)) := by
      have hmn : (0 : ℚ) ≤ (m : ℚ) * ((2 : ℚ) ^ k)⁻¹ := by positivity
      rcases lt_trichotomy r 0 with hneg | hz | hpos
      · have hrq : (r : ℚ) ≤ -1 := by exact_mod_cast (by omega : r ≤ -1)
        have : (a : ℚ) = -(r : ℚ) := by rw [haq, abs_of_neg (by linarith)]
        cases s with
        | false =>
          simp only [sgn, Bool.false_eq_true, if_false, one_mul] at hv
          rw [← hv] at hq; have := abs_lt.mp hq; linarith
        | true =>
          simp only [sgn, if_true] at hv
          refine ⟨?_, fun _ => by simp [hneg]⟩
          rw [this]
          have e : (m : ℚ) * ((2 : ℚ) ^ k)⁻¹ - -(r : ℚ) = -(q - r) := by rw [← hv]; ring
          rw [e, abs_neg]; exact hq
      · subst hz
        have ha0 : a = 0 := by simp [ha]
        refine ⟨?_, fun h => absurd rfl h⟩
        rw [ha0]; simp only [Nat.cast_zero, sub_zero, Int.cast_zero] at hq ⊢
        rw [← hv, abs_mul, abs_mul, abs_sgn, one_mul] at hq
        rw [abs_of_nonneg hmn]
        rwa [abs_of_nonneg (by positivity), abs_of_pos (by positivity)] at hq
      · have hrq : (1 : ℚ) ≤ (r : ℚ) := by exact_mod_cast (by omega : 1 ≤ r)
        have : (a : ℚ) = (r : ℚ) := by rw [haq, abs_of_pos (by linarith)]
        cases s with
        | true =>
          simp only [sgn, if_true] at hv
          rw [← hv] at hq; have := abs_lt.mp hq; nlinarith
        | false =>
          simp only [sgn, Bool.false_eq_true, if_false, one_mul] at hv
          refine ⟨?_, fun _ => by simp [not_lt.mpr hpos.le]⟩
          rw [this, hv]; exact hq
    obtain ⟨hmag, hsign⟩ := hmag
    -- the rounded magnitude is a
    have hn : (m + 2 ^ (k - 1)) / 2 ^ k = a := by
      have hlt := abs_lt.mp hmag
      have hpk : (2 : ℚ) ^ k = 2 * 2 ^ (k - 1) := by
        rw [← pow_succ']; congr 1; omega
      have hpk' : 2 ^ k = 2 * 2 ^ (k - 1) := by
        rw [← pow_succ']; congr 1; omega
      have h1 : (a : ℚ) * 2 ^ k < (m : ℚ) + 2 ^ (k - 1) := by
        have := hlt.1
        have : (a : ℚ) - 1 / 2 < (m : ℚ) * ((2 : ℚ) ^ k)⁻¹ := by linarith
        rw [← div_eq_mul_inv, lt_div_iff₀ hp] at this
        rw [hpk] at this ⊢; nlinarith
      have h2' : (m : ℚ) + 2 ^ (k - 1) < ((a : ℚ) + 1) * 2 ^ k := by
        have : (m : ℚ) * ((2 : ℚ) ^ k)⁻¹ < (a : ℚ) + 1 / 2 := by linarith [hlt.2]
        rw [← div_eq_mul_inv, div_lt_iff₀ hp] at this
        rw [hpk] at this ⊢; nlinarith
      have h1n : a * 2 ^ k < m + 2 ^ (k - 1) := by exact_mod_cast h1
      have h2n : m + 2 ^ (k - 1) < (a + 1) * 2 ^ k := by exact_mod_cast h2'
      exact Nat.div_eq_of_lt_le (le_of_lt h1n) h2n
    rw [hn]
    -- ofRat s a 1 0 has value r
    have key := ofRat_spec s a 1 0 (by norm_num) (by
      have : ((a : Nat) : ℚ) < 2 ^ 53 := by exact_mod_cast hr
      have h : (2 : ℚ) ^ 53 < (2 : ℚ) ^ (1023 : Int) := by
        rw [← zpow_natCast]; exact zpow_lt_zpow_right₀ (by norm_num) (by norm_num)
      have e : ((a : Nat) : ℚ) / ((1 : Nat) : ℚ) * (2 : ℚ) ^ (0 : Int) = (a : ℚ) := by simp
      rw [e]; exact lt_trans this h)
    have e1 : (if s = true then (-1 : ℚ) else 1) * ((a : ℚ) / (1 : Nat) * (2 : ℚ) ^ (0 : Int)) = (r : ℚ) := by
      by_cases hr0 : r = 0
      · have : a = 0 := by simp [ha, hr0]
        rw [this, hr0]; simp
      · have hs := hsign hr0
        rw [haq, hs]
        by_cases hneg : r < 0
        · have : (r : ℚ) < 0 := by exact_mod_cast hneg
          simp [hneg, abs_of_neg this]
        · have : (0 : ℚ) ≤ (r : ℚ) := by exact_mod_cast (not_lt.mp hneg)
          simp [hneg, abs_of_nonneg this]
    rw [e1] at key
    obtain ⟨s', m', q', hdec, _, hex⟩ := key
    refine ⟨s', m', q', hdec, ?_⟩
    apply hex a 0 hr (by norm_num)
    rw [haq]; simp

/-! ### G. error analysis of `((r/S − O) + O)·S` -/

theorem eta_le : eta ≤ 1 / 2 ^ 80 := by
  unfold eta
  have : (2 : ℚ) ^ (-1075 : Int) ≤ (2 : ℚ) ^ (-80 : Int) := zpow_le_zpow_right₀ (by norm_num) (by norm_num)
  have e : (2 : ℚ) ^ (-80 : Int) = 1 / 2 ^ 80 := by
    rw [zpow_neg, show ((80 : Int)) = ((80 : Nat) : Int) by norm_num, zpow_natCast]; simp
  exact le_trans this (le_of_eq e)

/-- a rounding does not enlarge a bounded value by much -/
theorem near_bound (q z Z : ℚ) (h : Near q z) (hz : |z| ≤ Z) : |q| ≤ Z + Z / 2 ^ 53 + 1 / 2 ^ 80 := by
  have h1 := h.1
  have he := eta_le
  have : |q| ≤ |q - z| + |z| := by
    have := abs_add_le (q - z) z; simpa using this
  have hzz : |z| / 2 ^ 53 ≤ Z / 2 ^ 53 := by gcongr
  linarith

/-- the error analysis of `((r/S − O) + O)·S` with four roundings, scaled by `S` -/
theorem chain_bound (r S O q1 q2 q3 q4 : ℚ) (hr : |r| ≤ 2 ^ 49) (hS : 1 / 2 ≤ S) (hS' : S ≤ 2 ^ 17)
    (hO : |O| ≤ 2 ^ 10)
    (h1 : Near q1 (r / S)) (h2 : Near q2 (q1 - O)) (h3 : Near q3 (q2 + O)) (h4 : Near q4 (q3 * S)) :
    |q4 - r| < 1 / 2 := by
  have hSpos : 0 < S := by linarith
  have he := eta_le
  have heS : eta * S ≤ 1 / 2 ^ 63 := by
    have : eta * S ≤ 1 / 2 ^ 80 * 2 ^ 17 := by
      have h0 : 0 ≤ eta := by unfold eta; positivity
      exact mul_le_mul he hS' (by linarith) (by norm_num)
    have e : (1 : ℚ) / 2 ^ 80 * 2 ^ 17 = 1 / 2 ^ 63 := by norm_num
    linarith
  set c := O * S with hc
  have hcb : |c| ≤ 2 ^ 27 := by
    rw [hc, abs_mul, abs_of_pos hSpos]
    calc |O| * S ≤ 2 ^ 10 * 2 ^ 17 := mul_le_mul hO hS' (by linarith) (by norm_num)
      _ = 2 ^ 27 := by norm_num
  -- scaled errors
  have d1 : |q1 * S - r| ≤ |r| / 2 ^ 53 + 1 / 2 ^ 63 := by
    have := h1.1
    have e : q1 * S - r = (q1 - r / S) * S := by field_simp
    rw [e, abs_mul, abs_of_pos hSpos]
    have e2 : |r / S| * S = |r| := by rw [abs_div, abs_of_pos hSpos]; field_simp
    calc |q1 - r / S| * S ≤ (|r / S| / 2 ^ 53 + eta) * S := by gcongr
      _ = |r / S| * S / 2 ^ 53 + eta * S := by ring
      _ ≤ |r| / 2 ^ 53 + 1 / 2 ^ 63 := by rw [e2]; linarith
  have d2 : |q2 * S - (q1 * S - c)| ≤ |q1 * S - c| / 2 ^ 53 + 1 / 2 ^ 63 := by
    have := h2.1
    have e : q2 * S - (q1 * S - c) = (q2 - (q1 - O)) * S := by rw [hc]; ring
    rw [e, abs_mul, abs_of_pos hSpos]
    have e2 : |q1 - O| * S = |q1 * S - c| := by
      rw [hc, ← abs_of_pos hSpos, ← abs_mul, abs_of_pos hSpos]; congr 1; ring
    calc |q2 - (q1 - O)| * S ≤ (|q1 - O| / 2 ^ 53 + eta) * S := by gcongr
      _ = |q1 - O| * S / 2 ^ 53 + eta * S := by ring
      _ ≤ |q1 * S - c| / 2 ^ 53 + 1 / 2 ^ 63 := by rw [e2]; linarith
  have d3 : |q3 * S - (q2 * S + c)| ≤ |q2 * S + c| / 2 ^ 53 + 1 / 2 ^ 63 := by
    have := h3.1
    have e : q3 * S - (q2 * S + c) = (q3 - (q2 + O)) * S := by rw [hc]; ring
    rw [e, abs_mul, abs_of_pos hSpos]
    have e2 : |q2 + O| * S = |q2 * S + c| := by
      rw [hc, ← abs_of_pos hSpos, ← abs_mul, abs_of_pos hSpos]; congr 1; ring
    calc |q3 - (q2 + O)| * S ≤ (|q2 + O| / 2 ^ 53 + eta) * S := by gcongr
      _ = |q2 + O| * S / 2 ^ 53 + eta * S := by ring
      _ ≤ |q2 * S + c| / 2 ^ 53 + 1 / 2 ^ 63 := by rw [e2]; linarith
  have d4 : |q4 - q3 * S| ≤ |q3 * S| / 2 ^ 53 + 1 / 2 ^ 63 := by
    have := h4.1
    have : eta ≤ 1 / 2 ^ 63 := by
      have : (1 : ℚ) / 2 ^ 80 ≤ 1 / 2 ^ 63 := by norm_num
      linarith
    linarith
  -- triangle inequalities
  set y1 := q1 * S
  set y2 := q2 * S
  set y3 := q3 * S
  have t2 : |y1 - c| ≤ |y1 - r| + |r| + |c| := by
    have := abs_add_three (y1 - r) r (-c)
    rw [abs_neg] at this
    calc |y1 - c| = |y1 - r + r + -c| := by congr 1; ring
      _ ≤ _ := this
  have t3 : |y2 + c| ≤ |y2 - (y1 - c)| + |y1 - r| + |r| := by
    have := abs_add_three (y2 - (y1 - c)) (y1 - r) r
    calc |y2 + c| = |y2 - (y1 - c) + (y1 - r) + r| := by congr 1; ring
      _ ≤ _ := this
  have t4 : |y3| ≤ |y3 - (y2 + c)| + |y2 + c| := by
    have := abs_add_le (y3 - (y2 + c)) (y2 + c); simpa using this
  have t5 : |q4 - r| ≤ |q4 - y3| + |y3 - (y2 + c)| + |y2 - (y1 - c)| + |y1 - r| := by
    have a := abs_add_three (q4 - y3) (y3 - (y2 + c)) (y2 - (y1 - c) + (y1 - r))
    have b := abs_add_le (y2 - (y1 - c)) (y1 - r)
    calc |q4 - r| = |q4 - y3 + (y3 - (y2 + c)) + (y2 - (y1 - c) + (y1 - r))| := by congr 1; ring
      _ ≤ |q4 - y3| + |y3 - (y2 + c)| + |y2 - (y1 - c) + (y1 - r)| := a
      _ ≤ _ := by linarith
  have n1 : (0 : ℚ) ≤ |r| := abs_nonneg _
  have hp53 : (0 : ℚ) < 2 ^ 53 := by norm_num
  -- everything is linear from here
  have e1 : |y1 - r| ≤ 2 ^ 49 / 2 ^ 53 + 1 / 2 ^ 63 := by
    have : |r| / 2 ^ 53 ≤ 2 ^ 49 / 2 ^ 53 := by gcongr
    linarith
  have A2 : |y1 - c| ≤ 2 ^ 49 + 2 ^ 27 + 1 := by
    have : (2 : ℚ) ^ 49 / 2 ^ 53 + 1 / 2 ^ 63 ≤ 1 := by norm_num
    linarith
  have e2 : |y2 - (y1 - c)| ≤ (2 ^ 49 + 2 ^ 27 + 1) / 2 ^ 53 + 1 / 2 ^ 63 := by
    have : |y1 - c| / 2 ^ 53 ≤ (2 ^ 49 + 2 ^ 27 + 1) / 2 ^ 53 := by gcongr
    linarith
  have A3 : |y2 + c| ≤ 2 ^ 49 + 2 := by
    have : ((2 : ℚ) ^ 49 + 2 ^ 27 + 1) / 2 ^ 53 + 1 / 2 ^ 63 ≤ 1 := by norm_num
    have : (2 : ℚ) ^ 49 / 2 ^ 53 + 1 / 2 ^ 63 ≤ 1 := by norm_num
    linarith
  have e3 : |y3 - (y2 + c)| ≤ (2 ^ 49 + 2) / 2 ^ 53 + 1 / 2 ^ 63 := by
    have : |y2 + c| / 2 ^ 53 ≤ (2 ^ 49 + 2) / 2 ^ 53 := by gcongr
    linarith
  have A4 : |y3| ≤ 2 ^ 49 + 3 := by
    have : ((2 : ℚ) ^ 49 + 2) / 2 ^ 53 + 1 / 2 ^ 63 ≤ 1 := by norm_num
    linarith
  have e4 : |q4 - y3| ≤ (2 ^ 49 + 3) / 2 ^ 53 + 1 / 2 ^ 63 := by
    have : |y3| / 2 ^ 53 ≤ (2 ^ 49 + 3) / 2 ^ 53 := by gcongr
    linarith
  have fin : (2 ^ 49 + 3) / 2 ^ 53 + 1 / 2 ^ 63 + ((2 ^ 49 + 2) / 2 ^ 53 + 1 / 2 ^ 63)
      + ((2 ^ 49 + 2 ^ 27 + 1) / 2 ^ 53 + 1 / 2 ^ 63) + ((2 : ℚ) ^ 49 / 2 ^ 53 + 1 / 2 ^ 63) < 1 / 2 := by norm_num
  linarith

end Fit.F64
