import FitProps.ValueLemmas
import FitProps.Utf8Lemmas
/-! Helper lemmas: strings and string arrays through `marshal` / `unmarshal` (terminators, NUL-separated
pieces, `utf8String` on clean pieces). -/
namespace Fit.Value
open Fit.Gen Fit.Utf8

/-- a marshalled string always ends with its terminator -/
theorem strBytes_endsNul (s : List Nat) : ∃ a, strBytes s = a ++ [0] := by
  unfold strBytes
  split
  · exact ⟨s, rfl⟩
  · rename_i h
    simp only [Bool.or_eq_true, List.isEmpty_iff, bne_iff_ne, ne_eq, not_or, Decidable.not_not] at h
    exact List.getLast?_eq_some_iff.mp h.2

theorem takeWhile_nz_append_zero (s : List Nat) :
    (s ++ [0]).takeWhile (· != 0) = s.takeWhile (· != 0) := by
  induction s with
  | nil => simp [List.takeWhile]
  | cons x xs ih =>
    by_cases hx : x = 0
    · subst hx; simp [List.takeWhile]
    · have hx' : (x != 0) = true := by simpa using hx
      simp only [List.cons_append, List.takeWhile, hx', ih]

theorem cutNul_strBytes (s : List Nat) : cutNul (strBytes s) = cutNul s := by
  unfold cutNul strBytes
  split
  · exact takeWhile_nz_append_zero s
  · rfl

theorem bytes_strBytes (s : List Nat) (h : Bytes s) : Bytes (strBytes s) := by
  unfold strBytes
  split
  · intro b hb
    rcases List.mem_append.mp hb with h' | h'
    · exact h b h'
    · simp only [List.mem_cons, List.not_mem_nil, or_false] at h'; omega
  · exact h

theorem bytes_of_allLt (s : List Nat) (h : allLt 256 s = true) : Bytes s := by
  intro b hb
  simp only [allLt, List.all_eq_true, decide_eq_true_eq] at h
  exact h b hb

/-- the string scalar round trip: marshal, then `utf8String` -/
theorem utf8String_strBytes (s : List Nat) (hb : Bytes s) (hc : cleanStr (cutNul s) = true) :
    utf8String (strBytes s) = cutNul s := by
  simp only [cleanStr, Bool.and_eq_true, Bool.not_eq_true'] at hc
  have h := utf8String_clean (strBytes s) (bytes_strBytes s hb)
    (by have := cutNul_strBytes s; unfold cutNul at this; rw [this]; exact hc.1)
    (by have := cutNul_strBytes s; unfold cutNul at this; rw [this]; exact hc.2)
  rw [h]
  exact cutNul_strBytes s

/-! ### NUL-separated pieces -/

theorem splitNul_append_zero (a b cur : List Nat) :
    splitNul cur (a ++ 0 :: b) = splitNul cur (a ++ [0]) ++ splitNul [] b := by
  induction a generalizing cur with
  | nil => simp [splitNul]
  | cons x xs ih =>
    by_cases hx : x = 0
    · subst hx; simp [splitNul, ih]
    · simp [splitNul, hx, ih]

theorem splitNul_flatMap_strBytes (vs : List (List Nat)) :
    splitNul [] (vs.flatMap strBytes) = vs.flatMap (fun s => splitNul [] (strBytes s)) := by
  induction vs with
  | nil => rfl
  | cons s vs ih =>
    obtain ⟨a, ha⟩ := strBytes_endsNul s
    simp only [List.flatMap_cons, ha]
    rw [List.append_assoc, List.singleton_append, splitNul_append_zero, ih]

/-- every piece is NUL-free and made of bytes -/
theorem splitNul_pieces (bs : List Nat) : ∀ (cur : List Nat), (∀ b ∈ cur, b ≠ 0) → Bytes cur → Bytes bs →
    ∀ p ∈ splitNul cur bs, (∀ b ∈ p, b ≠ 0) ∧ Bytes p := by
  induction bs with
  | nil => intro cur _ _ _ p hp; cases hp
  | cons x xs ih =>
    intro cur hcur hbc hbs p hp
    have hxs : Bytes xs := fun b hb => hbs b (List.mem_cons_of_mem _ hb)
    by_cases hx : x = 0
    · subst hx
      simp only [splitNul, ↓reduceIte, List.mem_cons] at hp
      rcases hp with h | h
      · subst h; exact ⟨hcur, hbc⟩
      · exact ih [] (by intro b hb; cases hb) (by intro b hb; cases hb) hxs p h
    · simp only [splitNul, hx, ↓reduceIte] at hp
      refine ih (cur ++ [x]) ?_ ?_ hxs p hp
      · intro b hb
        rcases List.mem_append.mp hb with h | h
        · exact hcur b h
        · simp only [List.mem_cons, List.not_mem_nil, or_false] at h; rw [h]; exact hx
      · intro b hb
        rcases List.mem_append.mp hb with h | h
        · exact hbc b h
        · simp only [List.mem_cons, List.not_mem_nil, or_false] at h; rw [h]; exact hbs x (by simp)

theorem pieces_spec (vs : List (List Nat)) (hb : ∀ s ∈ vs, Bytes s) :
    ∀ p ∈ pieces vs, (∀ b ∈ p, b ≠ 0) ∧ Bytes p ∧ p ≠ [] := by
  intro p hp
  simp only [pieces, List.mem_filter, List.mem_flatMap, Bool.not_eq_true', List.isEmpty_eq_false_iff] at hp
  obtain ⟨⟨s, hs, hps⟩, hne⟩ := hp
  have := splitNul_pieces (strBytes s) [] (by intro b hb; cases hb) (by intro b hb; cases hb)
    (bytes_strBytes s (hb s hs)) p hps
  exact ⟨this.1, this.2, hne⟩

theorem takeWhile_nz_of_nulFree (p : List Nat) (h : ∀ b ∈ p, b ≠ 0) : p.takeWhile (· != 0) = p := by
  induction p with
  | nil => rfl
  | cons x xs ih =>
    have hx : (x != 0) = true := by simpa using h x (by simp)
    simp only [List.takeWhile, hx]
    rw [ih (fun b hb => h b (List.mem_cons_of_mem _ hb))]

/-- the string array round trip -/
theorem unmarshalStrings_marshal (vs : List (List Nat)) (hb : ∀ s ∈ vs, Bytes s)
    (hc : (pieces vs).all cleanStr = true) :
    unmarshalStrings (if vs.isEmpty then [0] else vs.flatMap strBytes) = pieces vs := by
  have hsplit : (splitNul [] (if vs.isEmpty then [0] else vs.flatMap strBytes)).filter (fun s => !s.isEmpty)
      = pieces vs := by
    split
    · rename_i h
      have : vs = [] := by simpa [List.isEmpty_iff] using h
      subst this
      simp [splitNul, pieces]
    · rw [splitNul_flatMap_strBytes]; rfl
  unfold unmarshalStrings
  rw [hsplit]
  have hmap : (pieces vs).map utf8String = pieces vs := by
    have : ∀ p ∈ pieces vs, utf8String p = id p := by
      intro p hp
      obtain ⟨hnz, hbp, _⟩ := pieces_spec vs hb p hp
      have hcl := (List.all_eq_true.mp hc) p hp
      simp only [cleanStr, Bool.and_eq_true, Bool.not_eq_true'] at hcl
      have htw := takeWhile_nz_of_nulFree p hnz
      have := utf8String_clean p hbp (by rw [htw]; exact hcl.1) (by rw [htw]; exact hcl.2)
      rw [this, htw]; rfl
    rw [List.map_congr_left this, List.map_id]
  rw [hmap]
  apply List.filter_eq_self.mpr
  intro p hp
  have := (pieces_spec vs hb p hp).2.2
  simpa [List.isEmpty_iff] using this

/-! ### scalars through `unmarshal` -/

theorem dec_single (a x : Nat) : dec a [x] = x := by
  unfold dec; split <;> simp [ofLE]

theorem decScalar_enc (w a n : Nat) (mk : Nat → Value) :
    decScalar w a (enc w a n) mk = .ok (mk (n % 256 ^ w)) := by
  unfold decScalar
  rw [if_neg (by simp), List.take_of_length_le (by simp), dec_enc]

theorem decScalar_single (a x : Nat) (mk : Nat → Value) : decScalar 1 a [x] mk = .ok (mk x) := by
  simp [decScalar, dec_single]

theorem boolByte_cases (b : Nat) : boolByte b = 0 ∨ boolByte b = 1 ∨ boolByte b = 255 := by
  unfold boolByte; split <;> omega

theorem mkBool_boolByte (b : Nat) : mkBool (boolByte b) = .bool (boolByte b) := by
  unfold mkBool
  rcases boolByte_cases b with h | h | h <;> simp [h, boolInvalid]

/-- clamping a byte `MarshalAppend` wrote for a `typedef.Bool` changes nothing: it is 0, 1 or 255 already -/
@[simp] theorem clampBool_boolByte (b : Nat) : clampBool (boolByte b) = boolByte b := by
  unfold clampBool
  rcases boolByte_cases b with h | h | h <;> simp [h, boolInvalid]

theorem clampBool_cases (b : Nat) : clampBool b = 0 ∨ clampBool b = 1 ∨ clampBool b = 255 := by
  unfold clampBool
  split
  · right; right; rfl
  · omega

/-- clamped bytes are in the domain of `typedef.Bool`, where `boolByte` (what `MarshalAppend` writes) is the identity -/
@[simp] theorem boolByte_clampBool (b : Nat) : boolByte (clampBool b) = clampBool b := by
  rcases clampBool_cases b with h | h | h <;> rw [h] <;> decide

@[simp] theorem clampBool_clampBool (b : Nat) : clampBool (clampBool b) = clampBool b := by
  rcases clampBool_cases b with h | h | h <;> rw [h] <;> decide

theorem map_clampBool_boolByte (vs : List Nat) : (vs.map boolByte).map clampBool = vs.map boolByte := by
  simp [List.map_map, Function.comp_def]

theorem map_mod256 (vs : List Nat) (h : allLt (2 ^ 8) vs = true) : vs.map (· % 256) = vs :=
  map_mod_of_allLt 256 vs (by simpa using h)


/-- the regenerated `sizes` table of value.go gives every scalar type the width the marshaller writes -/
theorem protoSize_table :
    protoSize typeInvalid = 0 ∧ protoSize typeBool = 1 ∧ protoSize typeInt8 = 1 ∧ protoSize typeUint8 = 1 ∧
    protoSize typeInt16 = 2 ∧ protoSize typeUint16 = 2 ∧ protoSize typeInt32 = 4 ∧ protoSize typeUint32 = 4 ∧
    protoSize typeInt64 = 8 ∧ protoSize typeUint64 = 8 ∧ protoSize typeFloat32 = 4 ∧ protoSize typeFloat64 = 8 ∧
    protoSize typeString = 1 := by decide

/-- a base type is valid exactly when it is one of the 17 listed ones (regenerated table of 256 sizes) -/
theorem btValid_lt : ∀ t, t < 256 → (btValid t = true ↔ t ∈ baseTypeList) := by decide +kernel

theorem btValid_iff (t : Nat) : btValid t = true ↔ t ∈ baseTypeList := by
  by_cases h : t < 256
  · exact btValid_lt t h
  · constructor
    · intro hv
      have : btSize t = 0 := by
        unfold btSize
        have h256 : baseTypeSizes.length = 256 := by decide +kernel
        have hl : baseTypeSizes.length ≤ t := by omega
        simp [List.getD_eq_getElem?_getD, List.getElem?_eq_none hl]
      simp [btValid, this] at hv
    · intro hm
      simp [baseTypeList] at hm
      omega

theorem sliceNum_type (t n : Nat) (h : n < 2 ^ vshift) : sliceNum t n >>> vshift = t := by
  unfold sliceNum
  rw [Nat.shiftRight_or_distrib, Nat.shiftLeft_shiftRight, Nat.shiftRight_eq_div_pow, Nat.div_eq_of_lt h]; simp

theorem vmask_eq : vmask = 2 ^ vshift - 1 := by decide

theorem sliceNum_len (t n : Nat) (h : n < 2 ^ vshift) : sliceNum t n &&& vmask = n := by
  unfold sliceNum
  rw [vmask_eq, Nat.and_two_pow_sub_one_eq_mod, Nat.or_mod_two_pow, Nat.shiftLeft_eq, Nat.mul_mod_left,
    Nat.mod_eq_of_lt h]
  simp

end Fit.Value
