import FitModel.Generated.Go_readbuffercap
import FitProps.Go2LeanReadBuffer
/-!
`oldsize := cap(b.buf) - reservedbuf` of `readBuffer.Reset`, translated as a unit of its own (`Go.readbuffercap`): the
capacity of `b.buf` is hidden state — what the backing array holds between length and capacity is a parameter of the
translated block (notes/go2lean.md "Capacity") — and the theorem quantifies over it.
-/
namespace Fit.Go2Lean
open Fit.ReadBuffer Fit.Gen.Reader Go.readbuffer

/-- `oldsize := cap(b.buf) - reservedbuf`, with the hidden part of `b.buf` (between its length and its capacity) as a
parameter: whatever it holds, `oldsize` is the capacity less the reserved section, and the grow decision taken on it is the
model's `b.arr.length < reservedbuf + size` for the backing array `arr = buf ++ tail` -/
theorem rb_oldsize (buf tail : List Nat) (size : Nat) (hc : buf.length + tail.length < 2^62) (hs : size < 2^62) :
    (Go.readbuffercap.Reset_oldsize buf tail).oldsize = ((buf ++ tail).length : Int) - (Go.readbuffer.reservedbuf : Int) ∧
    Reset_grow (Go.readbuffercap.Reset_oldsize buf tail).oldsize size = decide ((buf ++ tail).length < Fit.Gen.Reader.reservedbuf + size) := by
  have e : (Go.readbuffercap.Reset_oldsize buf tail).oldsize = ((buf ++ tail).length : Int) - (Go.readbuffer.reservedbuf : Int) := by
    simp only [Go.readbuffercap.Reset_oldsize, id_run, id_pure, id_bind, Go.capOf, Go.readbuffer.reservedbuf, List.length_append]
    unfold Go.wrapI
    omega
  refine ⟨e, ?_⟩
  rw [e]
  exact (rb_reset (buf ++ tail).length size hs).1

end Fit.Go2Lean
