import FitModel.Accum
import Mathlib.Tactic.Ring
import Mathlib.Tactic.Linarith
import Mathlib.Tactic.SplitIfs
/-!
Lemmas about decoder/accumulator.go (`FitModel/Accum.lean`): the table behaves as a map from (message, field) to
(last, value); `Accumulate` on a present key adds the distance travelled by a counter of the given width.
-/
namespace Fit.Accum

/-- first entry for the key -/
def lookup (a : Acc) (m f : Nat) : Option Entry := a.find? fun e => e.mesgNum = m ∧ e.fieldNum = f

theorem accumulate_absent (a : Acc) (m f v bits : Nat) (h : lookup a m f = none) :
    (accumulate a m f v bits).1 = v ∧ lookup (accumulate a m f v bits).2 m f = some ⟨m, f, v, v⟩ := by
  induction a with
  | nil => simp [accumulate, lookup]
  | cons e es ih =>
    unfold lookup at h
    simp only [List.find?_cons] at h
    by_cases hk : e.mesgNum = m ∧ e.fieldNum = f
    · simp [hk] at h
    · simp only [hk, decide_false] at h
      have ih' := ih (by unfold lookup; simpa using h)
      simp only [accumulate, hk, if_false]
      refine ⟨ih'.1, ?_⟩
      unfold lookup
      simp only [List.find?_cons, hk, decide_false]
      exact ih'.2

theorem accumulate_present (a : Acc) (m f v bits : Nat) (e : Entry) (h : lookup a m f = some e) :
    (accumulate a m f v bits).1 = (e.value + ((v + U32 - e.last) % U32 &&& mask bits)) % U32 ∧
      lookup (accumulate a m f v bits).2 m f =
        some { e with last := v, value := (e.value + ((v + U32 - e.last) % U32 &&& mask bits)) % U32 } := by
  induction a with
  | nil => simp [lookup] at h
  | cons x xs ih =>
    unfold lookup at h
    simp only [List.find?_cons] at h
    by_cases hk : x.mesgNum = m ∧ x.fieldNum = f
    · simp only [hk, and_self, decide_true] at h
      have hx : x = e := by simpa using h
      subst hx
      simp only [accumulate, hk, and_self, if_true]
      refine ⟨by simp, ?_⟩
      unfold lookup
      simp [hk]
    · simp only [hk, decide_false] at h
      have ih' := ih (by unfold lookup; simpa using h)
      simp only [accumulate, hk, if_false]
      refine ⟨ih'.1, ?_⟩
      unfold lookup
      simp only [List.find?_cons, hk, decide_false]
      exact ih'.2

/-- the distance travelled by a wrapping counter of width `w ≤ 32`: from `t` to `t' ≥ t` with `t' − t < 2^w`, seen
only modulo 2^w -/
theorem wrap_step (w t t' : Nat) (hw : w ≤ 32) (hle : t ≤ t') (hstep : t' - t < 2 ^ w) :
    ((t' % 2 ^ w + U32 - t % 2 ^ w) % U32 &&& mask w) = t' - t := by
  have hmask : ∀ x, x &&& mask w = x % 2 ^ w ∨ (w = 32 ∧ x &&& mask w = x % 2 ^ 32) := by
    intro x
    unfold mask
    split_ifs with h
    · right; refine ⟨by omega, ?_⟩
      have : U32 - 1 = 2 ^ 32 - 1 := rfl
      rw [this, Nat.and_two_pow_sub_one_eq_mod]
    · left; exact Nat.and_two_pow_sub_one_eq_mod x w
  have key : (t' % 2 ^ w + U32 - t % 2 ^ w) % U32 % 2 ^ w = t' - t := by
    have hdvd : 2 ^ w ∣ U32 := by unfold U32; exact Nat.pow_dvd_pow 2 hw
    rw [Nat.mod_mod_of_dvd _ hdvd]
    obtain ⟨c, hc⟩ := hdvd
    have hpos : 0 < 2 ^ w := by positivity
    have h1 := Nat.div_add_mod t (2 ^ w)
    have h2 := Nat.div_add_mod t' (2 ^ w)
    have hm1 := Nat.mod_lt t hpos
    have hm2 := Nat.mod_lt t' hpos
    -- t' % P + U32 - t % P ≡ t' - t (mod P)
    have : t' % 2 ^ w + U32 - t % 2 ^ w = (t' - t) + 2 ^ w * (c + t / 2 ^ w - t' / 2 ^ w) := by
      have hdiv : t / 2 ^ w ≤ t' / 2 ^ w := Nat.div_le_div_right hle
      have hc1 : 1 ≤ c := by
        rcases c with _ | c
        · simp [U32] at hc
        · omega
      rw [hc]
      generalize 2 ^ w = P at *
      generalize t / P = a at *
      generalize t' / P = b at *
      generalize t % P = r at *
      generalize t' % P = r' at *
      subst h1 h2
      -- the quotient advances by at most one
      have hb : b ≤ a + 1 := by
        by_contra hcon
        have h2 : a + 2 ≤ b := by omega
        have : P * (a + 2) ≤ P * b := Nat.mul_le_mul_left _ h2
        have e : P * (a + 2) = P * a + 2 * P := by ring
        omega
      have hbc : b ≤ c + a := by omega
      have e1 : P * (c + a - b) = P * c + P * a - P * b := by
        rw [Nat.mul_sub, Nat.mul_add]
      have e2 : P * a ≤ P * b := Nat.mul_le_mul_left _ hdiv
      have e3 : P * b ≤ P * c + P * a := by
        have := Nat.mul_le_mul_left P hbc
        rw [Nat.mul_add] at this; exact this
      rw [e1]
      generalize P * a = x at *
      generalize P * b = y at *
      generalize P * c = z at *
      omega
    rw [this, Nat.add_mul_mod_self_left, Nat.mod_eq_of_lt hstep]
  rcases hmask ((t' % 2 ^ w + U32 - t % 2 ^ w) % U32) with h | ⟨hw32, h⟩
  · rw [h, key]
  · subst hw32; rw [h]; exact key

/-- feeding a list of observed values of one key through `Accumulate` -/
def runAcc (a : Acc) (m f w : Nat) : List Nat → List Nat × Acc
  | [] => ([], a)
  | v :: vs =>
    let r := accumulate a m f v w
    let rs := runAcc r.2 m f w vs
    (r.1 :: rs.1, rs.2)

/-- the true totals after `t`: non-decreasing, each step shorter than the counter's period -/
def Steps (w : Nat) : Nat → List Nat → Prop
  | _, [] => True
  | t, t' :: rest => t ≤ t' ∧ t' - t < 2 ^ w ∧ Steps w t' rest

theorem runAcc_present (w : Nat) (hw : w ≤ 32) (m f v0 t0 : Nat) :
    ∀ (ts : List Nat) (t : Nat) (a : Acc) (e : Entry), t0 ≤ t → Steps w t ts → lookup a m f = some e →
      e.last = t % 2 ^ w → e.value = (v0 + (t - t0)) % U32 →
      (runAcc a m f w (ts.map (· % 2 ^ w))).1 = ts.map fun t' => (v0 + (t' - t0)) % U32 := by
  intro ts
  induction ts with
  | nil => intros; rfl
  | cons t' rest ih =>
    intro t a e ht0 hsteps hl hlast hval
    obtain ⟨hle, hstep, hrest⟩ := hsteps
    obtain ⟨h1, h2⟩ := accumulate_present a m f (t' % 2 ^ w) w e hl
    have hd : ((t' % 2 ^ w + U32 - e.last) % U32 &&& mask w) = t' - t := by
      rw [hlast]; exact wrap_step w t t' hw hle hstep
    have hnew : (e.value + (t' - t)) % U32 = (v0 + (t' - t0)) % U32 := by
      rw [hval, Nat.mod_add_mod]; congr 1; omega
    simp only [List.map_cons, runAcc]
    rw [h1, hd, hnew]
    congr 1
    apply ih t' _ _ (le_trans ht0 hle) hrest h2
    · rfl
    · simp only; rw [hd, hnew]

/-- **accumulate_total.** A counter of `w ≤ 32` bits whose true totals are `t₀ ≤ t₁ ≤ …` (each step shorter than
2^w) is seen modulo 2^w. From a table that does not know the key, `Accumulate` returns for the i-th observation
`(t₀ mod 2^w) + (tᵢ − t₀)` in uint32 arithmetic: the first observation as it is, then the running total the
wrapping counter represents. -/
theorem accumulate_total (w : Nat) (hw : w ≤ 32) (a : Acc) (m f t0 : Nat) (ts : List Nat)
    (habs : lookup a m f = none) (hsteps : Steps w t0 ts) :
    (runAcc a m f w ((t0 :: ts).map (· % 2 ^ w))).1 =
      (t0 :: ts).map fun t => (t0 % 2 ^ w + (t - t0)) % U32 := by
  obtain ⟨h1, h2⟩ := accumulate_absent a m f (t0 % 2 ^ w) w habs
  simp only [List.map_cons, runAcc]
  rw [h1]
  have hv0 : t0 % 2 ^ w < U32 :=
    lt_of_lt_of_le (Nat.mod_lt _ (by positivity)) (by unfold U32; exact Nat.pow_le_pow_right (by norm_num) hw)
  congr 1
  · simp [Nat.mod_eq_of_lt hv0]
  · exact runAcc_present w hw m f (t0 % 2 ^ w) t0 ts t0 _ _ (le_refl _) hsteps h2 rfl
      (by simp [Nat.mod_eq_of_lt hv0])

/-- `Collect` restarts the key: afterwards the table holds (val, val) for it -/
theorem collect_lookup (a : Acc) (m f v : Nat) :
    ∃ e, lookup (collect a m f v) m f = some e ∧ e.last = v ∧ e.value = v := by
  induction a with
  | nil => exact ⟨⟨m, f, v, v⟩, by simp [collect, lookup], rfl, rfl⟩
  | cons x xs ih =>
    by_cases hk : x.mesgNum = m ∧ x.fieldNum = f
    · refine ⟨{ x with last := v, value := v }, ?_, rfl, rfl⟩
      simp only [collect, hk, and_self, if_true]
      unfold lookup; simp [hk]
    · obtain ⟨e, he, h1, h2⟩ := ih
      refine ⟨e, ?_, h1, h2⟩
      simp only [collect, hk, if_false]
      unfold lookup at he ⊢
      simp only [List.find?_cons, hk, decide_false]
      exact he

theorem lookup_collect_ne (a : Acc) (m f v m' f' : Nat) (h : ¬ (m' = m ∧ f' = f)) :
    lookup (collect a m f v) m' f' = lookup a m' f' := by
  induction a with
  | nil =>
    simp only [collect, lookup, List.find?_cons, List.find?_nil]
    have : ¬ (m = m' ∧ f = f') := fun ⟨h1, h2⟩ => h ⟨h1.symm, h2.symm⟩
    simp [this]
  | cons e es ih =>
    simp only [collect]
    split_ifs with hk
    · obtain ⟨h1, h2⟩ := hk
      have hne : ¬ (e.mesgNum = m' ∧ e.fieldNum = f') := fun ⟨g1, g2⟩ => h ⟨by rw [← g1, h1], by rw [← g2, h2]⟩
      simp only [lookup, List.find?_cons, hne, decide_false]
    · unfold lookup at ih ⊢
      simp only [List.find?_cons]
      rw [ih]

theorem lookup_accumulate_ne (a : Acc) (m f v bits m' f' : Nat) (h : ¬ (m' = m ∧ f' = f)) :
    lookup (accumulate a m f v bits).2 m' f' = lookup a m' f' := by
  induction a with
  | nil =>
    simp only [accumulate, lookup, List.find?_cons, List.find?_nil]
    have : ¬ (m = m' ∧ f = f') := fun ⟨h1, h2⟩ => h ⟨h1.symm, h2.symm⟩
    simp [this]
  | cons e es ih =>
    simp only [accumulate]
    split_ifs with hk
    · obtain ⟨h1, h2⟩ := hk
      have hne : ¬ (e.mesgNum = m' ∧ e.fieldNum = f') := fun ⟨g1, g2⟩ => h ⟨by rw [← g1, h1], by rw [← g2, h2]⟩
      simp only [lookup, List.find?_cons, hne, decide_false]
    · unfold lookup at ih ⊢
      simp only [List.find?_cons]
      rw [ih]

end Fit.Accum
