import FitModel.ProfileSpec
/-! Soundness of the kernel-friendly distinctness / multiset tests of `FitModel/ProfileSpec.lean` (general lemmas). -/
namespace Fit.ProfileSpec

theorem mergeF_perm (f : Nat) (a b : List Nat) : (mergeF f a b).Perm (a ++ b) := by
  induction f generalizing a b with
  | zero => simp [mergeF]
  | succ f ih =>
    cases a with
    | nil => simp [mergeF]
    | cons x xs =>
      cases b with
      | nil => simp [mergeF]
      | cons y ys =>
        simp only [mergeF]
        cases Nat.ble x y with
        | true =>
          simp only [List.cons_append]
          exact (ih xs (y :: ys)).cons x
        | false =>
          simp only
          refine ((ih (x :: xs) ys).cons y).trans ?_
          exact (List.perm_middle (a := y) (l₁ := x :: xs) (l₂ := ys)).symm

theorem mergePairs_perm (ls : List (List Nat)) : (mergePairs ls).flatten.Perm ls.flatten := by
  induction ls using mergePairs.induct with
  | case1 => simp [mergePairs]
  | case2 l => simp [mergePairs]
  | case3 a b rest ih =>
    simp only [mergePairs, List.flatten_cons]
    rw [← List.append_assoc]
    exact (mergeF_perm _ a b).append ih

theorem mergeAll_perm (f : Nat) (ls : List (List Nat)) : (mergeAll f ls).Perm ls.flatten := by
  induction f generalizing ls with
  | zero =>
    match ls with
    | [] => simp [mergeAll]
    | [l] => simp [mergeAll]
    | a :: b :: rest => simp [mergeAll]
  | succ f ih =>
    match ls with
    | [] => simp [mergeAll]
    | [l] => simp [mergeAll]
    | a :: b :: rest =>
      simp only [mergeAll]
      exact (ih _).trans (mergePairs_perm _)

theorem msortF_perm (f : Nat) (l : List Nat) : (msortF f l).Perm l := by
  unfold msortF
  refine (mergeAll_perm f _).trans ?_
  have : (l.map fun a => [a]).flatten = l := by
    induction l with
    | nil => rfl
    | cons a l ih => simp [ih]
  rw [this]

theorem strictInc_pairwise (l : List Nat) (h : strictInc l = true) : l.Pairwise (· < ·) := by
  induction l using strictInc.induct with
  | case1 => exact List.Pairwise.nil
  | case2 a => exact List.pairwise_singleton _ _
  | case3 a b rest hlt ih =>
    simp only [strictInc, hlt] at h
    have hp := ih h
    have hab : a < b := by simpa [Nat.blt_eq] using hlt
    refine List.Pairwise.cons ?_ hp
    intro x hx
    rcases List.mem_cons.mp hx with rfl | hx
    · exact hab
    · exact Nat.lt_trans hab ((List.pairwise_cons.mp hp).1 x hx)
  | case4 a b rest hlt =>
    simp [strictInc, hlt] at h

/-- `nodupNat` is sound: if the merge-sorted list is strictly increasing then no number occurs twice in the list -/
theorem nodupNat_sound (l : List Nat) (h : nodupNat l = true) : l.Nodup := by
  unfold nodupNat at h
  have hp := strictInc_pairwise _ h
  have hn : (msortF l.length l).Nodup := hp.imp (fun hlt => Nat.ne_of_lt hlt)
  exact (msortF_perm _ l).nodup hn

/-- sorting is a permutation: two lists with the same sorted form are permutations of each other -/
theorem perm_of_sorted_eq (a b : List Nat) (h : msortF a.length a = msortF b.length b) : a.Perm b :=
  (msortF_perm _ a).symm.trans (h ▸ msortF_perm _ b)

end Fit.ProfileSpec
