import FitModel.Typed
import FitModel.TypedFactory
import FitModel.Generated.Mesgdef
import FitProps.TypedLemmas
import FitProps.TypedNormalLemmas
/-!
# C13 — Typed message structs round-trip with protocol messages for every message type

The 119 generated files of profile/mesgdef are instances of one template; the model (`FitModel/Typed.lean`) is one
pair of functions `ofMesg T` (= `NewXxx(&m)` / `Reset`) and `toMesg T fac o` (= `ToMesg(options)`) generic in a
per-message table `T`. The theorems below are proved **once, for every table** that satisfies the decidable
predicate `MesgTable.wf`, for every message / struct (any number of fields, any field numbers, any value types),
every factory and both settings of IncludeExpandedFields. The 119 tables themselves are regenerated on every run
from the compiled code (reflection + probing, `Generated/Mesgdef.lean`) and `wf` is re-checked on them by the kernel
(`C13_tables_wf`); the family `typed` runs the real `NewXxx`/`ToMesg` of every message type against the model.

Formalisation choices (fixed here, see also `typedNormal` / `inRange` in the model):
* "the same known fields with the same values": one field per profile field, in the generated emission order; the
  `FieldBase` is the factory's; the value of the **last** occurrence counts (Reset stores by number); a value of
  another type than the field's, or the base type's invalid value, is "read as invalid" and the field is absent;
  an array field is kept whatever its elements (only a nil slice is invalid), a string unless empty;
* expanded marks and fields the struct has no slot for: `typedNormal` is what the generated code does (marks kept for the
  numbers it declares eligible = component targets; a named field whose number the message lacks, below the bound, is
  dropped). The PROPERTY says "keeps the expanded-field marks" and "the same unknown fields / kept as unknown fields"
  without qualification: `typedNormalFull` is the normal form it demands, `C13_mesg_struct_mesg_partial` proves the code
  meets it outside two classes, `C13_KF_witnesses` / `C13_full_is_false` show it does not inside them (open findings
  KF-C13-1, KF-C13-2; neither class can come out of the decoder with the standard factory). A marked field is dropped by
  ToMesg unless IncludeExpandedFields — that is what the option is for;
* struct → message → struct: `inRange` — slots hold valid contents or *the* invalid content of their kind
  (e.g. `typedef.Bool` 0, 1 or 255; a time is `time.Time{}` or a whole second in `[epoch, epoch + 2^32 − 2]`),
  marks only on eligible slots that are emitted, UnknownFields hold fields that are unknown to the message.
-/
namespace Fit.C13
open Fit.Typed Fit.Value Fit.Msg Fit.Gen

/-- Every regenerated per-message table (one per generated file of profile/mesgdef) is well-formed: no field number
on which Reset panics; slot numbers distinct, read from and emitted under the same number, below the guard; each
slot's accessor type fits its kind and is aligned with the field's base type; the value a mismatched type reads as,
and the value ToMesg omits, are the base type's invalid value; eligible numbers lie inside the expanded bitmap. -/
theorem C13_tables_wf : ∀ T ∈ Mesgdef.tables, T.wf = true := by
  decide +kernel

/-- The probing translator met no behaviour of the compiled code that a table cannot express (a validity rule of
another shape, a mark that is not copied, a number stored beyond the guard, …). -/
theorem C13_tables_expressible : Mesgdef.anomalies = [] := by
  decide +kernel

/-- The tables cover the profile: every message of the compiled factory has a typed struct (and vice versa), whose
slots are exactly the factory's fields of that message, with the factory's base types. -/
theorem C13_tables_match_factory :
    Mesgdef.tables.map (·.num) = Prof.mesgs.map (·.num) ∧ ∀ T ∈ Mesgdef.tables, matchesFactory T = true := by
  decide +kernel

/-- The standard factory knows every slot of every table under its number and by name, and returns unmarked fields
(the hypothesis `facOk` of `C13_struct_mesg_struct`, for `factory.StandardFactory()`). -/
theorem C13_std_factory_ok : ∀ T ∈ Mesgdef.tables, facOk T (stdField T.num) = true := by
  decide +kernel

/-- the compiled `time.Time{}` is where the model puts it -/
theorem C13_zero_time : Mesgdef.zeroTimeProbe = zeroTime := by decide

/-- **Message → struct → message.** For every well-formed table, every message on which `NewXxx` does not panic
(`C13_no_panic`: every message whose fields have a FieldBase), every factory and both option settings:
`NewXxx(&m).ToMesg(options)` is `typedNormal m` — the known fields (last occurrence, value of the field's type and
not the base type's invalid; fixed-length arrays padded with invalid or cut to the declared length) in emission
order with their expanded marks, then all unknown fields unchanged and in order; developer fields unchanged. -/
theorem C13_mesg_struct_mesg (T : MesgTable) (hw : T.wf = true) (fac : Nat → Field) (o : Options) (m : Message)
    (st : Struct) (h : ofMesg T m = .ok st) : toMesg T fac o st = typedNormal T fac o m :=
  toMesg_ofMesg T hw fac o m st h

/-- **Struct → message → struct** is the identity: for every well-formed table, every factory that knows the
message (`facOk`), every struct in range, `NewXxx(&s.ToMesg({Factory, IncludeExpandedFields: true}))` is `s`:
every slot, every expanded mark, UnknownFields and DeveloperFields. -/
theorem C13_struct_mesg_struct (T : MesgTable) (hw : T.wf = true) (fac : Nat → Field) (hf : facOk T fac = true)
    (st : Struct) (hr : inRange T st = true) : ofMesg T (toMesg T fac { includeExpanded := true } st) = .ok st :=
  ofMesg_toMesg T hw fac hf st hr

/-- **No panic.** For every well-formed table, `NewXxx(&m)` does not panic on any message whose fields have a
FieldBase — whatever the field numbers (0..255, known to the message or not), names, value types, duplicates and
marks: the `vals[num]` store is guarded, and a value of another type is read through an accessor that checks the type. -/
theorem C13_no_panic (T : MesgTable) (hw : T.wf = true) (m : Message) (h : ∀ f ∈ m.fields, f.base ≠ none) :
    ofMesg T m ≠ .panic :=
  ofMesg_no_panic T hw m h

/-- …and then it keeps every field that is unknown to the message (number at or above the guard, or named
"unknown") in `UnknownFields`, unchanged and in order, and every other field is stored under its number. -/
theorem C13_unknown_kept (T : MesgTable) (hw : T.wf = true) (m : Message) (st : Struct) (h : ofMesg T m = .ok st) :
    st.unknown = m.fields.filter (fun f => !stored T f) ∧ st.dev = (if T.hasDev then m.devFields else []) ∧
    st.vals = T.slots.map (fun s => read s (lastStored T m.fields s.readNum)) := by
  obtain ⟨_, hst⟩ := ofMesg_ok T (wf_panics T hw) m st h
  rw [hst]
  exact ⟨rfl, rfl, rfl⟩

/-- a nil FieldBase is the one input on which Reset panics (outside the property's quantifier: no factory and no
decoder produces one) -/
theorem C13_nil_fieldbase_panics (T : MesgTable) (m : Message) (h : ∃ f ∈ m.fields, f.base = none) :
    ofMesg T m = .panic := by
  unfold ofMesg
  rw [run_panic_of_nil T m.fields Acc.init h]

/-- **Expanded marks through the API.** `MarkAsExpandedField(k, flag)` is accepted exactly for the eligible numbers, then
sets bit `k` of the bitmap to `flag` and nothing else; a refused call changes nothing. (With `C13_mesg_struct_mesg` /
`C13_struct_mesg_struct`: the marks a struct carries are the marks its message carries.) -/
theorem C13_mark_as_expanded (T : MesgTable) (st : Struct) (k : Nat) (flag : Bool) (j : Nat) :
    (markAsExpanded T st k flag).2 = eligible T k ∧
    (markAsExpanded T st k flag).1.state.testBit j = (if eligible T k = true ∧ k = j then flag else st.state.testBit j) ∧
    (markAsExpanded T st k flag).1.vals = st.vals ∧ (markAsExpanded T st k flag).1.unknown = st.unknown ∧
    (markAsExpanded T st k flag).1.dev = st.dev :=
  markAsExpanded_spec T st k flag j

/-- the slot-level core of the round trip: reading a value with the generated accessor and testing it as ToMesg does
yields exactly the protocol-level worth of the value -/
theorem C13_slot_read_emit (s : Slot) (hw : s.wf = true) (v : Value) : emit s (read s v) = specVal s v :=
  emit_read s hw v

/-- **The specification's notion of "valid" is the protocol's.** For the scalar kinds (numbers incl. typed enums and
floats, `typedef.Bool`, times) and a value of the field's type whose number fits its width, `specVal` keeps the value
exactly when `proto.Value.Valid(baseType)` (the C06 model, `Fit.Value.valid`) holds. A string the protocol calls valid is
kept (the typed layer also keeps `"\x00"`); an array value of the field's type is always kept (the typed layer treats
only a nil slice as invalid; fixed-length arrays: `specFixed`). -/
theorem C13_spec_valid_is_protocol_valid (s : Slot) (hw : s.wf = true) (v : Value) (hv : Value.wf v = true)
    (ht : typeOf v = s.ptype) :
    (s.kind = .scalar ∨ s.kind = .bool ∨ s.kind = .time → specVal s v = if valid v s.baseType then some v else none) ∧
    (s.kind = .str → valid v s.baseType = true → specVal s v = some v) ∧
    (s.kind = .slice → specVal s v = some v) := by
  refine ⟨?_, fun hk hval => specVal_str_of_valid s hk v ht hval, fun hk => specVal_slice s hk v ht⟩
  rintro (hk | hk | hk)
  · exact specVal_scalar_eq_valid s hk hw v hv ht
  · exact specVal_bool_eq_valid s hk hw v ht
  · exact specVal_time_eq_valid s hk hw v hv ht

/-! ### the theorems apply to every message type of the profile, and their hypotheses are met -/

/-- instantiation: all 119 regenerated tables, standard factory -/
theorem C13_all_messages (T : MesgTable) (hT : T ∈ Mesgdef.tables) :
    (∀ o m st, ofMesg T m = .ok st → toMesg T (stdField T.num) o st = typedNormal T (stdField T.num) o m) ∧
    (∀ st, inRange T st = true → ofMesg T (toMesg T (stdField T.num) { includeExpanded := true } st) = .ok st) ∧
    (∀ m : Message, (∀ f ∈ m.fields, f.base ≠ none) → ofMesg T m ≠ .panic) :=
  ⟨fun o m st h => C13_mesg_struct_mesg T (C13_tables_wf T hT) _ o m st h,
   fun st hr => C13_struct_mesg_struct T (C13_tables_wf T hT) _ (C13_std_factory_ok T hT) st hr,
   fun m h => C13_no_panic T (C13_tables_wf T hT) m h⟩

/-- non-vacuity: a `record` message with a duplicate field, a mismatched type, an invalid value, a marked expanded
field, an over-long fixed array, an unknown field and a developer field converts without panic, and the round trip
drops / normalises exactly what `typedNormal` says -/
def exMesg : Message :=
  { num := 20
    fields := [
      { base := some (stdBase 20 3), value := .uint8 70 },                                  -- heart_rate 70 …
      { base := some (stdBase 20 3), value := .uint8 71 },                                  -- … overridden by 71
      { base := some (stdBase 20 4), value := .uint16 5 },                                  -- cadence with a uint16: read as invalid
      { base := some (stdBase 20 7), value := .uint16 65535 },                              -- power invalid
      { base := some (stdBase 20 5), value := .uint32 1000, isExpanded := true },          -- distance, expanded
      { base := some (stdBase 20 8), value := .sliceUint8 [1, 2, 3, 4] },                   -- compressed_speed_distance [3]byte, 4 given
      { base := some (unknownBase 200), value := .uint8 9 },                                -- unknown field
      { base := some (stdBase 20 253), value := .uint32 1000000000 }],
    devFields := [{ devIdx := 0, num := 1, value := .uint8 3 }] }

def printable (m : Message) : List (Nat × Value × Bool) :=
  m.fields.map fun f => ((f.base.map (·.num)).getD 999, f.value, f.isExpanded)

example : (match ofMesg Mesgdef.tRecord exMesg with
    | .ok st => printable (toMesg Mesgdef.tRecord (stdField 20) { includeExpanded := true } st)
    | .panic => []) =
    [(253, Value.uint32 1000000000, false), (3, .uint8 71, false), (5, .uint32 1000, true),
     (8, .sliceUint8 [1, 2, 3], false), (200, .uint8 9, false)] := by
  decide +kernel

/-- non-vacuity of `inRange`: a record struct with a time, scalars, a fixed array, a marked expanded slot, an unknown field -/
def exStruct : Struct :=
  match ofMesg Mesgdef.tRecord exMesg with
  | .ok st => st
  | .panic => default

example : inRange Mesgdef.tRecord exStruct = true ∧ exStruct.state ≠ 0 ∧ exStruct.unknown ≠ [] := by
  decide +kernel

/-! ### second wave: fixed points, fixed-length arrays, and what the property demands where the code does less -/

/-- **Normal forms are fixed points.** `typedNormal` is idempotent: for every well-formed table, every factory that
knows the message, both option settings and every message, normalising a normal form changes nothing… -/
theorem C13_normal_idempotent (T : MesgTable) (hw : T.wf = true) (fac : Nat → Field) (hf : facOk T fac = true)
    (o : Options) (m : Message) : typedNormal T fac o (typedNormal T fac o m) = typedNormal T fac o m :=
  typedNormal_idem T hw fac hf o m

/-- …so a message that came out of `ToMesg` goes through `NewXxx(&m).ToMesg(options)` unchanged (no panic, same
message): message → struct → message is a projection onto its normal forms. -/
theorem C13_normal_is_fixed_point (T : MesgTable) (hw : T.wf = true) (fac : Nat → Field) (hf : facOk T fac = true)
    (o : Options) (m : Message) (hb : ∀ f ∈ m.fields, f.base ≠ none) :
    ∃ st, ofMesg T (typedNormal T fac o m) = .ok st ∧ toMesg T fac o st = typedNormal T fac o m := by
  have hbase : ∀ f ∈ (typedNormal T fac o m).fields, f.base ≠ none := by
    intro f hfm
    rw [typedNormal_fields, List.mem_append] at hfm
    rcases hfm with h | h
    · obtain ⟨s, hs, hfs⟩ := List.mem_filterMap.mp h
      have hst := (normField_slotFields T hw fac hf o m.fields s hs f hfs).1
      intro e; simp [stored, e] at hst
    · exact hb f (List.mem_filter.mp h).1
  cases h : ofMesg T (typedNormal T fac o m) with
  | panic => exact absurd h (ofMesg_no_panic T hw _ hbase)
  | ok st => exact ⟨st, rfl, by rw [toMesg_ofMesg T hw fac o _ st h, typedNormal_idem T hw fac hf o m]⟩

/-- **Fixed-length arrays: the specification's "valid" against the protocol's.** For a slot `[n]T` and a value of the
slot's type: a numeric array is kept exactly when `proto.Value.Valid(baseType)` holds of the part of the value that fits
the array (`fitPart n v` — the first `n` elements; it is `v` itself when `v` has at most `n` elements: that is the exact
side condition for "kept ⇔ `v.Valid()`"); a string array is kept exactly when one of its first `n` strings is not
empty, in particular whenever the fitting part is `Valid` (the converse fails only for `"\x00"`, as for scalar strings). -/
theorem C13_spec_valid_fixed_arrays (s : Slot) (n : Nat) (hk : s.kind = .fixed n) (hw : s.wf = true) :
    (∀ v, typeOf v = s.ptype → s.ptype ≠ typeSliceString → (specVal s v).isSome = valid (fitPart n v) s.baseType) ∧
    (∀ v, typeOf v = s.ptype → s.ptype ≠ typeSliceString → (elems v).length ≤ n → (specVal s v).isSome = valid v s.baseType) ∧
    (∀ vs, s.ptype = typeSliceString → (specVal s (.sliceString vs)).isSome = (vs.take n).any (· != []) ∧
      (valid (fitPart n (.sliceString vs)) s.baseType = true → (specVal s (.sliceString vs)).isSome = true)) := by
  refine ⟨fun v ht hns => specVal_fixed_num_eq_valid s n hk hw v ht hns, ?_, fun vs hs => specVal_fixed_str s n hk hs vs⟩
  intro v ht hns hlen
  rw [specVal_fixed_num_eq_valid s n hk hw v ht hns]
  have : fitPart n v = v := by
    have hnotstr : ∀ vs, v ≠ .sliceString vs := by
      intro vs e; subst e; exact hns (by simpa [typeOf] using ht.symm)
    have : fitPart n v = withElems v ((elems v).take n) := by
      cases v <;> first | rfl | exact absurd rfl (hnotstr _)
    rw [this, List.take_of_length_le hlen]
    cases v <;> rfl
  rw [this]

/-- **What the property demands** (`typedNormalFull`: every field the struct has no slot for is kept with the unknown
fields; the expanded mark of every known field is kept) — the full statement of message → struct → message. It is FALSE
of the generated code: `C13_KF_witnesses`, known findings KF-C13-1 and KF-C13-2. -/
def C13_mesg_struct_mesg_full : Prop :=
  ∀ (T : MesgTable), T.wf = true → ∀ (fac : Nat → Field) (o : Options) (m : Message) (st : Struct),
    ofMesg T m = .ok st → toMesg T fac o st = typedNormalFull T fac o m

/-- **Message → struct → message, against the property's own normal form (partial).** Outside the two classes — no
field with a name and a number below the struct's bound that the message type does not define (`hasForeign`, KF-C13-1),
no expanded mark on a known field that is not a component target (`hasStrayMark`, KF-C13-2) — the code returns exactly
what the property demands. Both hypotheses hold of every message the decoder produces with the standard factory
(named ⇔ defined by the profile; marks only on component targets: `C17_mesgdef_matches_xlsx`). -/
theorem C13_mesg_struct_mesg_partial (T : MesgTable) (hw : T.wf = true) (fac : Nat → Field) (o : Options) (m : Message)
    (st : Struct) (h : ofMesg T m = .ok st) (h1 : hasForeign T m = false) (h2 : hasStrayMark T m = false) :
    toMesg T fac o st = typedNormalFull T fac o m := by
  rw [typedNormalFull_eq T fac o m h1 h2]; exact toMesg_ofMesg T hw fac o m st h

/-- a pinned literal table shaped like today's file_id struct (one slot — `type`, number 0 — bound `Num > 8`), so that
the witnesses keep checking whatever happens to /repo -/
def pinnedFileId : MesgTable :=
  { name := 0, num := 0, guard := 9, panics := [], markBound := 0, hasDev := false
    slots := [{ num := 0, readNum := 0, kind := .scalar, ptype := typeUint8, dflt := .uint8 255, sentinel := .uint8 255,
                canExpand := false, baseType := btEnum }] }

def pinnedFac (num : Nat) : Field :=
  { base := some { num := num, baseType := btEnum, nameKnown := true }, value := .invalid }

/-- KF-C13-1: file_id with `type` and a NAMED field 6 (a number file_id does not define, below the bound) -/
def kf1Mesg : Message :=
  { num := 0, devFields := []
    fields := [{ base := some { num := 0, baseType := btEnum, nameKnown := true }, value := .uint8 4 },
               { base := some { num := 6, baseType := btUint8, nameKnown := true }, value := .uint8 70 }] }

/-- KF-C13-2: file_id whose `type` field (not a component target) is flagged as an expanded field -/
def kf2Mesg : Message :=
  { num := 0, devFields := []
    fields := [{ base := some { num := 0, baseType := btEnum, nameKnown := true }, value := .uint8 4, isExpanded := true }] }

def roundTrip (T : MesgTable) (fac : Nat → Field) (o : Options) (m : Message) : Option Message :=
  match ofMesg T m with
  | .ok st => some (toMesg T fac o st)
  | .panic => none

/-- **The witnesses.** On a well-formed table shaped like file_id: (1) the named field 6 is gone after the round trip
(the property's normal form keeps it, and the code itself keeps the same field when it is called "unknown");
(2) the mark of `type` is recorded by the struct (`IsExpandedField(0)`… here the bitmap bound is 0, on record it answers
true) but the emitted field is unmarked, and it is emitted even when expanded fields are to be left out. -/
theorem C13_KF_witnesses :
    pinnedFileId.wf = true ∧
    roundTrip pinnedFileId pinnedFac { includeExpanded := true } kf1Mesg ≠
      some (typedNormalFull pinnedFileId pinnedFac { includeExpanded := true } kf1Mesg) ∧
    (roundTrip pinnedFileId pinnedFac { includeExpanded := true } kf1Mesg).map (·.fields.length) = some 1 ∧
    (typedNormalFull pinnedFileId pinnedFac { includeExpanded := true } kf1Mesg).fields.length = 2 ∧
    roundTrip pinnedFileId pinnedFac { includeExpanded := true } { kf1Mesg with fields := kf1Mesg.fields.map fun f =>
        { f with base := f.base.map fun b => { b with nameKnown := b.num != 6 } } } =
      some { kf1Mesg with fields := kf1Mesg.fields.map fun f =>
        { f with base := f.base.map fun b => { b with nameKnown := b.num != 6 } } } ∧
    roundTrip pinnedFileId pinnedFac { includeExpanded := true } kf2Mesg ≠
      some (typedNormalFull pinnedFileId pinnedFac { includeExpanded := true } kf2Mesg) ∧
    roundTrip pinnedFileId pinnedFac { includeExpanded := false } kf2Mesg ≠
      some (typedNormalFull pinnedFileId pinnedFac { includeExpanded := false } kf2Mesg) ∧
    hasForeign pinnedFileId kf1Mesg = true ∧ hasStrayMark pinnedFileId kf2Mesg = true := by
  decide

/-- hence the full statement is false -/
theorem C13_full_is_false : ¬ C13_mesg_struct_mesg_full := by
  intro h
  have hw : pinnedFileId.wf = true := by decide
  cases hst : ofMesg pinnedFileId kf1Mesg with
  | panic => revert hst; decide
  | ok st =>
    have := h pinnedFileId hw pinnedFac { includeExpanded := true } kf1Mesg st hst
    have hne := C13_KF_witnesses.2.1
    apply hne
    simp only [roundTrip, hst, this]

/-- non-vacuity of the hypotheses of `C13_mesg_struct_mesg_partial`: the example message of this file is in neither class -/
example : hasForeign Mesgdef.tRecord exMesg = false ∧ hasStrayMark Mesgdef.tRecord exMesg = false := by
  decide +kernel

/-- non-vacuity of `C13_spec_valid_fixed_arrays`: record.compressed_speed_distance is a `[3]byte` slot of a regenerated table -/
example : ∃ s ∈ Mesgdef.tRecord.slots, s.kind = .fixed 3 ∧ s.wf = true := by
  decide +kernel

end Fit.C13
