import FitModel.Typed
import FitModel.Generated.Mesgdef
/-!
# C13 — Typed message structs round-trip with protocol messages for every message type
(first step: the regenerated tables are well-formed; the generic theorems follow)
-/
namespace Fit.C13
open Fit.Typed Fit.Gen

/-- Every regenerated per-message table (one per generated file of profile/mesgdef, obtained by reflection and
probing of the compiled code) is well-formed: no field number on which Reset panics; slot numbers distinct, read
from and emitted under the same number, below the guard; each slot's accessor type fits its kind and the field's
base type; the value a mismatched type reads as, and the value ToMesg omits, are the base type's invalid value;
eligible numbers lie inside the expanded-field bitmap. -/
theorem C13_tables_wf : ∀ T ∈ Mesgdef.tables, T.wf = true := by
  decide +kernel

/-- the compiled `time.Time{}` is where the model puts it -/
theorem C13_zero_time : Mesgdef.zeroTimeProbe = zeroTime := by decide

end Fit.C13
