import FitModel.Typed
import FitModel.TypedFactory
import FitModel.Generated.Mesgdef
import FitProps.TypedLemmas
import FitProps.TypedStructLemmas
import FitProps.TypedNormalLemmas
/-!
# C13 — Typed message structs round-trip with protocol messages for every message type

The 119 generated files of profile/mesgdef are instances of one template; the model (`FitModel/Typed.lean`) is one
pair of functions `ofMesg T` (= `NewXxx(&m)` / `Reset`) and `toMesg T fac o` (= `ToMesg(options)`) generic in a
per-message table `T`. The theorems below are proved **once, for every table** that satisfies the decidable
predicate `MesgTable.wf`, for every message / struct (any number of fields, any field numbers, any value types),
every factory and both settings of IncludeExpandedFields. The 119 tables themselves are regenerated on every run
from the compiled code (reflection + probing, `Generated/Mesgdef.lean`) and `wf` is re-checked on them by the kernel
(`C13_tables_wf`); the family `typed` runs the real `NewXxx`/`ToMesg` of every message type against the model.

Formalisation choices (fixed here, see also `typedNormal` / `inRange` in the model):
* "the same known fields with the same values": one field per profile field, in the generated emission order; the
  `FieldBase` is the factory's; the value of the **last** occurrence counts (Reset stores by number); a value of
  another type than the field's, or the base type's invalid value, is "read as invalid" and the field is absent;
  an array field is kept whatever its elements (only a nil slice is invalid), a string unless empty;
* expanded marks and fields the struct has no slot for: `typedNormal` is what the generated code does (marks kept for the
  numbers it declares eligible = component targets; a named field whose number the message lacks, below the bound, is
  dropped). The PROPERTY says "keeps the expanded-field marks" and "the same unknown fields / kept as unknown fields"
  without qualification: `typedNormalFull` is the normal form it demands, `C13_mesg_struct_mesg_partial` proves the code
  meets it outside two classes, `C13_KF_witnesses` / `C13_full_is_false` show it does not inside them (open findings
  KF-C13-1, KF-C13-2; neither class can come out of the decoder with the standard factory). A marked field is dropped by
  ToMesg unless IncludeExpandedFields — that is what the option is for;
* struct → message → struct: what comes back is stated for EVERY Go-typed struct (`C13_struct_mesg_struct_norm`,
  `normStruct`); the classes of structs on which that is not the struct itself are named predicates (`FitModel/Typed.lean`,
  table in front of `shapeOk`), each decided by running the real code: three are the typed layer's documented
  normalisation (`hasBoolOther`: a `typedef.Bool` other than 0/1/255 comes back 255; `hasPreEpoch`: a time before the FIT
  epoch comes back `time.Time{}`; `hasMarkOnInvalid`: the mark of a slot that is not emitted is gone) — `normDoc`; two are
  outside the property's quantifier (`hasTimeBeyond`: a time the protocol's date_time cannot hold; `¬ unknownsOk`:
  UnknownFields holding a field the message type defines); one is a defect (`hasStrayBit`: the struct-level face of
  KF-C13-2). `inRange` is a Go-typed struct in none of them. Sub-second times are outside the property by its own words
  ("times at whole-second resolution") and outside the model's struct.
* developer fields, message → struct → message: the property says "the same … developer fields" for every message type, so
  `typedNormalFull` keeps them. Until /repo 72c2963 the structs of file_id, developer_data_id and field_description had no
  `DeveloperFields` (class `hasLostDev`, KF-C13-3, reported by this check and repaired); `MesgTable.wf` now demands
  `hasDev` and `C13_dev_fields_kept` is the clause for every message type (`C13_KF3_fixed_witness`: the pinned old shape).
-/
namespace Fit.C13
open Fit.Typed Fit.Value Fit.Msg Fit.Gen

/-- Every regenerated per-message table (one per generated file of profile/mesgdef) is well-formed: no field number
on which Reset panics; slot numbers distinct, read from and emitted under the same number, below the guard; each
slot's accessor type fits its kind and is aligned with the field's base type; the value a mismatched type reads as,
and the value ToMesg omits, are the base type's invalid value; eligible numbers lie inside the expanded bitmap; the struct has
`DeveloperFields` (every message type, since /repo 72c2963). -/
theorem C13_tables_wf : ∀ T ∈ Mesgdef.tables, T.wf = true := by
  decide +kernel

/-- The probing translator met no behaviour of the compiled code that a table cannot express (a validity rule of
another shape, a mark that is not copied, a number stored beyond the guard, …). -/
theorem C13_tables_expressible : Mesgdef.anomalies = [] := by
  decide +kernel

/-- The tables cover the profile: every message of the compiled factory has a typed struct (and vice versa), whose
slots are exactly the factory's fields of that message, with the factory's base types. -/
theorem C13_tables_match_factory :
    Mesgdef.tables.map (·.num) = Prof.mesgs.map (·.num) ∧ ∀ T ∈ Mesgdef.tables, matchesFactory T = true := by
  decide +kernel

/-- The standard factory knows every slot of every table under its number and by name, and returns unmarked fields
(the hypothesis `facOk` of `C13_struct_mesg_struct`, for `factory.StandardFactory()`). -/
theorem C13_std_factory_ok : ∀ T ∈ Mesgdef.tables, facOk T (stdField T.num) = true := by
  decide +kernel

/-- the compiled `time.Time{}` is where the model puts it -/
theorem C13_zero_time : Mesgdef.zeroTimeProbe = zeroTime := by decide

/-- **Message → struct → message.** For every well-formed table, every message on which `NewXxx` does not panic
(`C13_no_panic`: every message whose fields have a FieldBase), every factory and both option settings:
`NewXxx(&m).ToMesg(options)` is `typedNormal m` — the known fields (last occurrence, value of the field's type and
not the base type's invalid; fixed-length arrays padded with invalid or cut to the declared length) in emission
order with their expanded marks, then all unknown fields unchanged and in order; developer fields unchanged. -/
theorem C13_mesg_struct_mesg (T : MesgTable) (hw : T.wf = true) (fac : Nat → Field) (o : Options) (m : Message)
    (st : Struct) (h : ofMesg T m = .ok st) : toMesg T fac o st = typedNormal T fac o m :=
  toMesg_ofMesg T hw fac o m st h

/-- **Struct → message → struct, what comes back — for EVERY struct** that is a Go value (`wellTyped`: one content of
the slot's Go type per slot, …) and whose UnknownFields are unknown to the message type: for every well-formed table and
every factory that knows the message, `NewXxx(&s.ToMesg({Factory, IncludeExpandedFields: true}))` is `normStruct s` —
every slot as it was, except: a `typedef.Bool` other than 0/1 reads 255, a time before the FIT epoch reads `time.Time{}`,
a time from epoch + 0xFFFFFFFF s on reads as amd64 converts it (0xFFFFFFFF → `time.Time{}`, later ones modulo 2^32);
every expanded mark of an eligible slot that is emitted, and no other; UnknownFields and DeveloperFields as they were. -/
theorem C13_struct_mesg_struct_norm (T : MesgTable) (hw : T.wf = true) (fac : Nat → Field) (hf : facOk T fac = true)
    (st : Struct) (hty : wellTyped T st = true) (hun : unknownsOk T st = true) :
    ofMesg T (toMesg T fac { includeExpanded := true } st) = .ok (normStruct T st) :=
  ofMesg_toMesg_norm T hw fac hf st hty hun

/-- **What the property demands of struct → message → struct**: the struct comes back up to the typed layer's documented
normalisation `normDoc` (invalid Bool → 255, time before the epoch → `time.Time{}`, the mark of an omitted field dropped),
for every Go-typed struct whose times the protocol can hold and whose UnknownFields are unknown. It is FALSE of the
generated code (`C13_struct_full_is_false`): a mark recorded by `Reset` on a non-eligible number is lost (KF-C13-2). -/
def C13_struct_mesg_struct_full : Prop :=
  ∀ (T : MesgTable), T.wf = true → ∀ (fac : Nat → Field), facOk T fac = true → ∀ (st : Struct),
    wellTyped T st = true → unknownsOk T st = true → hasTimeBeyond T st = false →
    ofMesg T (toMesg T fac { includeExpanded := true } st) = .ok (normDoc T st)

/-- **Struct → message → struct against the documented normal form (partial).** The hypotheses are exactly the classes
that are NOT normalisations: `hasTimeBeyond` and `¬ unknownsOk` (outside the property's quantifier), `hasStrayBit` (defect,
KF-C13-2) — besides `wellTyped`, which every Go value satisfies. Inside the three normalising classes (`hasBoolOther`,
`hasPreEpoch`, `hasMarkOnInvalid`) the theorem applies and says what comes back. -/
theorem C13_struct_mesg_struct_partial (T : MesgTable) (hw : T.wf = true) (fac : Nat → Field) (hf : facOk T fac = true)
    (st : Struct) (hty : wellTyped T st = true) (hun : unknownsOk T st = true) (hb : hasTimeBeyond T st = false)
    (hs : hasStrayBit T st = false) :
    ofMesg T (toMesg T fac { includeExpanded := true } st) = .ok (normDoc T st) := by
  rw [ofMesg_toMesg_norm T hw fac hf st hty hun, normStruct_eq_normDoc T st hb hs]

/-- **Struct → message → struct** is the identity: for every well-formed table, every factory that knows the
message (`facOk`), every struct in range (a Go value in none of the seven classes: `C13_inRange_iff`),
`NewXxx(&s.ToMesg({Factory, IncludeExpandedFields: true}))` is `s`: every slot, every expanded mark, UnknownFields and
DeveloperFields. -/
theorem C13_struct_mesg_struct (T : MesgTable) (hw : T.wf = true) (fac : Nat → Field) (hf : facOk T fac = true)
    (st : Struct) (hr : inRange T st = true) : ofMesg T (toMesg T fac { includeExpanded := true } st) = .ok st :=
  ofMesg_toMesg T hw fac hf st hr

/-- `inRange` is exactly: a Go value, UnknownFields unknown, and none of the five named classes -/
theorem C13_inRange_iff (T : MesgTable) (st : Struct) :
    inRange T st = true ↔ (wellTyped T st = true ∧ unknownsOk T st = true ∧ hasBoolOther T st = false ∧
      hasPreEpoch T st = false ∧ hasTimeBeyond T st = false ∧ hasMarkOnInvalid T st = false ∧ hasStrayBit T st = false) := by
  simp only [inRange, Bool.and_eq_true, Bool.not_eq_true']
  constructor
  · rintro ⟨⟨⟨⟨⟨⟨a, b⟩, c⟩, d⟩, e⟩, f⟩, g⟩; exact ⟨a, b, c, d, e, f, g⟩
  · rintro ⟨a, b, c, d, e, f, g⟩; exact ⟨⟨⟨⟨⟨⟨a, b⟩, c⟩, d⟩, e⟩, f⟩, g⟩

/-- the documented normal form is the struct itself outside the three normalising classes -/
theorem C13_normDoc_fixes (T : MesgTable) (hw : T.wf = true) (st : Struct) (hty : wellTyped T st = true)
    (h1 : hasBoolOther T st = false) (h2 : hasPreEpoch T st = false) (h3 : hasMarkOnInvalid T st = false) :
    normDoc T st = st :=
  normDoc_eq_self T hw st hty h1 h2 h3

/-- **No panic.** For every well-formed table, `NewXxx(&m)` does not panic on any message whose fields have a
FieldBase — whatever the field numbers (0..255, known to the message or not), names, value types, duplicates and
marks: the `vals[num]` store is guarded, and a value of another type is read through an accessor that checks the type. -/
theorem C13_no_panic (T : MesgTable) (hw : T.wf = true) (m : Message) (h : ∀ f ∈ m.fields, f.base ≠ none) :
    ofMesg T m ≠ .panic :=
  ofMesg_no_panic T hw m h

/-- …and then it keeps every field that is unknown to the message (number at or above the guard, or named
"unknown") in `UnknownFields`, unchanged and in order, and every other field is stored under its number. -/
theorem C13_unknown_kept (T : MesgTable) (hw : T.wf = true) (m : Message) (st : Struct) (h : ofMesg T m = .ok st) :
    st.unknown = m.fields.filter (fun f => !stored T f) ∧ st.dev = (if T.hasDev then m.devFields else []) ∧
    st.vals = T.slots.map (fun s => read s (lastStored T m.fields s.readNum)) := by
  obtain ⟨_, hst⟩ := ofMesg_ok T (wf_panics T hw) m st h
  rw [hst]
  exact ⟨rfl, rfl, rfl⟩

/-- a nil FieldBase is the one input on which Reset panics (outside the property's quantifier: no factory and no
decoder produces one) -/
theorem C13_nil_fieldbase_panics (T : MesgTable) (m : Message) (h : ∃ f ∈ m.fields, f.base = none) :
    ofMesg T m = .panic := by
  unfold ofMesg
  rw [run_panic_of_nil T m.fields Acc.init h]

/-- **Expanded marks through the API.** `MarkAsExpandedField(k, flag)` is accepted exactly for the eligible numbers, then
sets bit `k` of the bitmap to `flag` and nothing else; a refused call changes nothing. (With `C13_mesg_struct_mesg` /
`C13_struct_mesg_struct`: the marks a struct carries are the marks its message carries.) -/
theorem C13_mark_as_expanded (T : MesgTable) (st : Struct) (k : Nat) (flag : Bool) (j : Nat) :
    (markAsExpanded T st k flag).2 = eligible T k ∧
    (markAsExpanded T st k flag).1.state.testBit j = (if eligible T k = true ∧ k = j then flag else st.state.testBit j) ∧
    (markAsExpanded T st k flag).1.vals = st.vals ∧ (markAsExpanded T st k flag).1.unknown = st.unknown ∧
    (markAsExpanded T st k flag).1.dev = st.dev :=
  markAsExpanded_spec T st k flag j

/-- the slot-level core of the round trip: reading a value with the generated accessor and testing it as ToMesg does
yields exactly the protocol-level worth of the value -/
theorem C13_slot_read_emit (s : Slot) (hw : s.wf = true) (v : Value) : emit s (read s v) = specVal s v :=
  emit_read s hw v

/-- **The specification's notion of "valid" is the protocol's.** For the scalar kinds (numbers incl. typed enums and
floats, `typedef.Bool`, times) and a value of the field's type whose number fits its width, `specVal` keeps the value
exactly when `proto.Value.Valid(baseType)` (the C06 model, `Fit.Value.valid`) holds. A string the protocol calls valid is
kept (the typed layer also keeps `"\x00"`); an array value of the field's type is always kept (the typed layer treats
only a nil slice as invalid; fixed-length arrays: `specFixed`). -/
theorem C13_spec_valid_is_protocol_valid (s : Slot) (hw : s.wf = true) (v : Value) (hv : Value.wf v = true)
    (ht : typeOf v = s.ptype) :
    (s.kind = .scalar ∨ s.kind = .bool ∨ s.kind = .time → specVal s v = if valid v s.baseType then some v else none) ∧
    (s.kind = .str → valid v s.baseType = true → specVal s v = some v) ∧
    (s.kind = .slice → specVal s v = some v) := by
  refine ⟨?_, fun hk hval => specVal_str_of_valid s hk v ht hval, fun hk => specVal_slice s hk v ht⟩
  rintro (hk | hk | hk)
  · exact specVal_scalar_eq_valid s hk hw v hv ht
  · exact specVal_bool_eq_valid s hk hw v ht
  · exact specVal_time_eq_valid s hk hw v hv ht

/-! ### the theorems apply to every message type of the profile, and their hypotheses are met -/

/-- instantiation: all 119 regenerated tables, standard factory -/
theorem C13_all_messages (T : MesgTable) (hT : T ∈ Mesgdef.tables) :
    (∀ o m st, ofMesg T m = .ok st → toMesg T (stdField T.num) o st = typedNormal T (stdField T.num) o m) ∧
    (∀ st, inRange T st = true → ofMesg T (toMesg T (stdField T.num) { includeExpanded := true } st) = .ok st) ∧
    (∀ m : Message, (∀ f ∈ m.fields, f.base ≠ none) → ofMesg T m ≠ .panic) :=
  ⟨fun o m st h => C13_mesg_struct_mesg T (C13_tables_wf T hT) _ o m st h,
   fun st hr => C13_struct_mesg_struct T (C13_tables_wf T hT) _ (C13_std_factory_ok T hT) st hr,
   fun m h => C13_no_panic T (C13_tables_wf T hT) m h⟩

/-- non-vacuity: a `record` message with a duplicate field, a mismatched type, an invalid value, a marked expanded
field, an over-long fixed array, an unknown field and a developer field converts without panic, and the round trip
drops / normalises exactly what `typedNormal` says -/
def exMesg : Message :=
  { num := 20
    fields := [
      { base := some (stdBase 20 3), value := .uint8 70 },                                  -- heart_rate 70 …
      { base := some (stdBase 20 3), value := .uint8 71 },                                  -- … overridden by 71
      { base := some (stdBase 20 4), value := .uint16 5 },                                  -- cadence with a uint16: read as invalid
      { base := some (stdBase 20 7), value := .uint16 65535 },                              -- power invalid
      { base := some (stdBase 20 5), value := .uint32 1000, isExpanded := true },          -- distance, expanded
      { base := some (stdBase 20 8), value := .sliceUint8 [1, 2, 3, 4] },                   -- compressed_speed_distance [3]byte, 4 given
      { base := some (unknownBase 200), value := .uint8 9 },                                -- unknown field
      { base := some (stdBase 20 253), value := .uint32 1000000000 }],
    devFields := [{ devIdx := 0, num := 1, value := .uint8 3 }] }

def printable (m : Message) : List (Nat × Value × Bool) :=
  m.fields.map fun f => ((f.base.map (·.num)).getD 999, f.value, f.isExpanded)

example : (match ofMesg Mesgdef.tRecord exMesg with
    | .ok st => printable (toMesg Mesgdef.tRecord (stdField 20) { includeExpanded := true } st)
    | .panic => []) =
    [(253, Value.uint32 1000000000, false), (3, .uint8 71, false), (5, .uint32 1000, true),
     (8, .sliceUint8 [1, 2, 3], false), (200, .uint8 9, false)] := by
  decide +kernel

/-- non-vacuity of `inRange`: a record struct with a time, scalars, a fixed array, a marked expanded slot, an unknown field -/
def exStruct : Struct :=
  match ofMesg Mesgdef.tRecord exMesg with
  | .ok st => st
  | .panic => default

example : inRange Mesgdef.tRecord exStruct = true ∧ exStruct.state ≠ 0 ∧ exStruct.unknown ≠ [] := by
  decide +kernel

/-! ### second wave: fixed points, fixed-length arrays, and what the property demands where the code does less -/

/-- **Normal forms are fixed points.** `typedNormal` is idempotent: for every well-formed table, every factory that
knows the message, both option settings and every message, normalising a normal form changes nothing… -/
theorem C13_normal_idempotent (T : MesgTable) (hw : T.wf = true) (fac : Nat → Field) (hf : facOk T fac = true)
    (o : Options) (m : Message) : typedNormal T fac o (typedNormal T fac o m) = typedNormal T fac o m :=
  typedNormal_idem T hw fac hf o m

/-- …so a message that came out of `ToMesg` goes through `NewXxx(&m).ToMesg(options)` unchanged (no panic, same
message): message → struct → message is a projection onto its normal forms. -/
theorem C13_normal_is_fixed_point (T : MesgTable) (hw : T.wf = true) (fac : Nat → Field) (hf : facOk T fac = true)
    (o : Options) (m : Message) (hb : ∀ f ∈ m.fields, f.base ≠ none) :
    ∃ st, ofMesg T (typedNormal T fac o m) = .ok st ∧ toMesg T fac o st = typedNormal T fac o m := by
  have hbase : ∀ f ∈ (typedNormal T fac o m).fields, f.base ≠ none := by
    intro f hfm
    rw [typedNormal_fields, List.mem_append] at hfm
    rcases hfm with h | h
    · obtain ⟨s, hs, hfs⟩ := List.mem_filterMap.mp h
      have hst := (normField_slotFields T hw fac hf o m.fields s hs f hfs).1
      intro e; simp [stored, e] at hst
    · exact hb f (List.mem_filter.mp h).1
  cases h : ofMesg T (typedNormal T fac o m) with
  | panic => exact absurd h (ofMesg_no_panic T hw _ hbase)
  | ok st => exact ⟨st, rfl, by rw [toMesg_ofMesg T hw fac o _ st h, typedNormal_idem T hw fac hf o m]⟩

/-- **Fixed-length arrays: the specification's "valid" against the protocol's.** For a slot `[n]T` and a value of the
slot's type: a numeric array is kept exactly when `proto.Value.Valid(baseType)` holds of the part of the value that fits
the array (`fitPart n v` — the first `n` elements; it is `v` itself when `v` has at most `n` elements: that is the exact
side condition for "kept ⇔ `v.Valid()`"); a string array is kept exactly when one of its first `n` strings is not
empty, in particular whenever the fitting part is `Valid` (the converse fails only for `"\x00"`, as for scalar strings). -/
theorem C13_spec_valid_fixed_arrays (s : Slot) (n : Nat) (hk : s.kind = .fixed n) (hw : s.wf = true) :
    (∀ v, typeOf v = s.ptype → s.ptype ≠ typeSliceString → (specVal s v).isSome = valid (fitPart n v) s.baseType) ∧
    (∀ v, typeOf v = s.ptype → s.ptype ≠ typeSliceString → (elems v).length ≤ n → (specVal s v).isSome = valid v s.baseType) ∧
    (∀ vs, s.ptype = typeSliceString → (specVal s (.sliceString vs)).isSome = (vs.take n).any (· != []) ∧
      (valid (fitPart n (.sliceString vs)) s.baseType = true → (specVal s (.sliceString vs)).isSome = true)) := by
  refine ⟨fun v ht hns => specVal_fixed_num_eq_valid s n hk hw v ht hns, ?_, fun vs hs => specVal_fixed_str s n hk hs vs⟩
  intro v ht hns hlen
  rw [specVal_fixed_num_eq_valid s n hk hw v ht hns]
  have : fitPart n v = v := by
    have hnotstr : ∀ vs, v ≠ .sliceString vs := by
      intro vs e; subst e; exact hns (by simpa [typeOf] using ht.symm)
    have : fitPart n v = withElems v ((elems v).take n) := by
      cases v <;> first | rfl | exact absurd rfl (hnotstr _)
    rw [this, List.take_of_length_le hlen]
    cases v <;> rfl
  rw [this]

/-- **What the property demands** (`typedNormalFull`: every field the struct has no slot for is kept with the unknown
fields; the expanded mark of every known field is kept; developer fields are kept for every message type) — the full
statement of message → struct → message. It is FALSE of the generated code: `C13_KF_witnesses`, known findings KF-C13-1
and KF-C13-2 (KF-C13-3, the developer fields of three message types, is repaired). -/
def C13_mesg_struct_mesg_full : Prop :=
  ∀ (T : MesgTable), T.wf = true → ∀ (fac : Nat → Field) (o : Options) (m : Message) (st : Struct),
    ofMesg T m = .ok st → toMesg T fac o st = typedNormalFull T fac o m

/-- **Message → struct → message, against the property's own normal form (partial).** Outside the two classes — no
field with a name and a number below the struct's bound that the message type does not define (`hasForeign`, KF-C13-1),
no expanded mark on a known field that is not a component target (`hasStrayMark`, KF-C13-2) — the code returns exactly
what the property demands. Both hypotheses hold of every message the decoder produces with the standard factory
(named ⇔ defined by the profile; marks only on component targets: `C17_mesgdef_matches_xlsx`). The third class of the
tree before /repo 72c2963 (`hasLostDev`, KF-C13-3: developer fields on a message whose struct has no `DeveloperFields`) is
empty for every well-formed table: `T.wf` now demands `T.hasDev`, kernel-checked on the 119 regenerated tables
(`C13_tables_wf`), so "the same developer fields" holds for EVERY message type. -/
theorem C13_mesg_struct_mesg_partial (T : MesgTable) (hw : T.wf = true) (fac : Nat → Field) (o : Options) (m : Message)
    (st : Struct) (h : ofMesg T m = .ok st) (h1 : hasForeign T m = false) (h2 : hasStrayMark T m = false) :
    toMesg T fac o st = typedNormalFull T fac o m := by
  have h3 : hasLostDev T m = false := by simp [hasLostDev, wf_hasDev T hw]
  rw [typedNormalFull_eq T fac o m h1 h2 h3]; exact toMesg_ofMesg T hw fac o m st h

/-- **Developer fields are kept for every message type** (the clause that failed for file_id, developer_data_id and
field_description before /repo 72c2963): for every well-formed table and every message on which `NewXxx` does not
panic, the developer fields of `NewXxx(&m).ToMesg(o)` are those of `m`, unchanged and in order. -/
theorem C13_dev_fields_kept (T : MesgTable) (hw : T.wf = true) (fac : Nat → Field) (o : Options) (m : Message)
    (st : Struct) (h : ofMesg T m = .ok st) : (toMesg T fac o st).devFields = m.devFields := by
  rw [toMesg_ofMesg T hw fac o m st h]
  simp [typedNormal, wf_hasDev T hw]

/-- a pinned literal table shaped like today's file_id struct (one slot — `type`, number 0 — bound `Num > 8`), so that
the witnesses keep checking whatever happens to /repo; `pinnedFileIdNoDev` is the same struct as it was before /repo
72c2963 (no `DeveloperFields`): not well-formed any more -/
def pinnedFileId : MesgTable :=
  { name := 0, num := 0, guard := 9, panics := [], markBound := 0, hasDev := true
    slots := [{ num := 0, readNum := 0, kind := .scalar, ptype := typeUint8, dflt := .uint8 255, sentinel := .uint8 255,
                canExpand := false, baseType := btEnum }] }

def pinnedFileIdNoDev : MesgTable := { pinnedFileId with hasDev := false }

def pinnedFac (num : Nat) : Field :=
  { base := some { num := num, baseType := btEnum, nameKnown := true }, value := .invalid }

/-- KF-C13-1: file_id with `type` and a NAMED field 6 (a number file_id does not define, below the bound) -/
def kf1Mesg : Message :=
  { num := 0, devFields := []
    fields := [{ base := some { num := 0, baseType := btEnum, nameKnown := true }, value := .uint8 4 },
               { base := some { num := 6, baseType := btUint8, nameKnown := true }, value := .uint8 70 }] }

/-- KF-C13-2: file_id whose `type` field (not a component target) is flagged as an expanded field -/
def kf2Mesg : Message :=
  { num := 0, devFields := []
    fields := [{ base := some { num := 0, baseType := btEnum, nameKnown := true }, value := .uint8 4, isExpanded := true }] }

/-- KF-C13-3: file_id (a struct without `DeveloperFields`) carrying a developer field -/
def kf3Mesg : Message :=
  { num := 0, devFields := [{ devIdx := 0, num := 1, value := .uint8 3 }]
    fields := [{ base := some { num := 0, baseType := btEnum, nameKnown := true }, value := .uint8 4 }] }

def roundTrip (T : MesgTable) (fac : Nat → Field) (o : Options) (m : Message) : Option Message :=
  match ofMesg T m with
  | .ok st => some (toMesg T fac o st)
  | .panic => none

/-- **The witnesses.** On a well-formed table shaped like file_id: (1) the named field 6 is gone after the round trip
(the property's normal form keeps it, and the code itself keeps the same field when it is called "unknown");
(2) the mark of `type` is recorded by the struct (`IsExpandedField(0)`… here the bitmap bound is 0, on record it answers
true) but the emitted field is unmarked, and it is emitted even when expanded fields are to be left out. -/
theorem C13_KF_witnesses :
    pinnedFileId.wf = true ∧
    roundTrip pinnedFileId pinnedFac { includeExpanded := true } kf1Mesg ≠
      some (typedNormalFull pinnedFileId pinnedFac { includeExpanded := true } kf1Mesg) ∧
    (roundTrip pinnedFileId pinnedFac { includeExpanded := true } kf1Mesg).map (·.fields.length) = some 1 ∧
    (typedNormalFull pinnedFileId pinnedFac { includeExpanded := true } kf1Mesg).fields.length = 2 ∧
    roundTrip pinnedFileId pinnedFac { includeExpanded := true } { kf1Mesg with fields := kf1Mesg.fields.map fun f =>
        { f with base := f.base.map fun b => { b with nameKnown := b.num != 6 } } } =
      some { kf1Mesg with fields := kf1Mesg.fields.map fun f =>
        { f with base := f.base.map fun b => { b with nameKnown := b.num != 6 } } } ∧
    roundTrip pinnedFileId pinnedFac { includeExpanded := true } kf2Mesg ≠
      some (typedNormalFull pinnedFileId pinnedFac { includeExpanded := true } kf2Mesg) ∧
    roundTrip pinnedFileId pinnedFac { includeExpanded := false } kf2Mesg ≠
      some (typedNormalFull pinnedFileId pinnedFac { includeExpanded := false } kf2Mesg) ∧
    hasForeign pinnedFileId kf1Mesg = true ∧ hasStrayMark pinnedFileId kf2Mesg = true := by
  decide

/-- **KF-C13-3 (fixed in /repo 72c2963), kept as a pinned witness**: on a table shaped like the file_id struct BEFORE the
repair (no `DeveloperFields`) the developer field of a file_id message is gone after the round trip, the property's
normal form keeps it; such a table is no longer well-formed (a generated file that drops developer fields again breaks
`C13_tables_wf`), and on the table with `DeveloperFields` the round trip is what the property demands. -/
theorem C13_KF3_fixed_witness :
    roundTrip pinnedFileIdNoDev pinnedFac { includeExpanded := true } kf3Mesg ≠
      some (typedNormalFull pinnedFileIdNoDev pinnedFac { includeExpanded := true } kf3Mesg) ∧
    (roundTrip pinnedFileIdNoDev pinnedFac { includeExpanded := true } kf3Mesg).map (·.devFields.length) = some 0 ∧
    (typedNormalFull pinnedFileIdNoDev pinnedFac { includeExpanded := true } kf3Mesg).devFields.length = 1 ∧
    hasLostDev pinnedFileIdNoDev kf3Mesg = true ∧ hasForeign pinnedFileIdNoDev kf3Mesg = false ∧
    hasStrayMark pinnedFileIdNoDev kf3Mesg = false ∧ pinnedFileIdNoDev.wf = false ∧
    roundTrip pinnedFileId pinnedFac { includeExpanded := true } kf3Mesg =
      some (typedNormalFull pinnedFileId pinnedFac { includeExpanded := true } kf3Mesg) := by
  decide

/-- hence the full statement is false -/
theorem C13_full_is_false : ¬ C13_mesg_struct_mesg_full := by
  intro h
  have hw : pinnedFileId.wf = true := by decide
  cases hst : ofMesg pinnedFileId kf1Mesg with
  | panic => revert hst; decide
  | ok st =>
    have := h pinnedFileId hw pinnedFac { includeExpanded := true } kf1Mesg st hst
    have hne := C13_KF_witnesses.2.1
    apply hne
    simp only [roundTrip, hst, this]

/-- non-vacuity of the hypotheses of `C13_mesg_struct_mesg_partial`: the example message of this file is in neither class -/
example : hasForeign Mesgdef.tRecord exMesg = false ∧ hasStrayMark Mesgdef.tRecord exMesg = false ∧
    hasLostDev Mesgdef.tRecord exMesg = false ∧ exMesg.devFields ≠ [] := by
  decide +kernel

/-- non-vacuity of `C13_spec_valid_fixed_arrays`: record.compressed_speed_distance is a `[3]byte` slot of a regenerated table -/
example : ∃ s ∈ Mesgdef.tRecord.slots, s.kind = .fixed 3 ∧ s.wf = true := by
  decide +kernel

/-! ### struct → message → struct: the classes are inhabited, and what comes back in each -/

/-- a pinned literal table shaped like a small record: a time (253), a scalar that is not a component target (3), a
scalar that is one (5), a `typedef.Bool` (6); bitmap bound 8 -/
def pinnedRec : MesgTable :=
  { name := 0, num := 20, guard := 254, panics := [], markBound := 8, hasDev := true
    slots := [
      { num := 253, readNum := 253, kind := .time, ptype := typeUint32, dflt := .invalid, sentinel := .invalid, canExpand := false, baseType := btUint32 },
      { num := 3, readNum := 3, kind := .scalar, ptype := typeUint8, dflt := .uint8 255, sentinel := .uint8 255, canExpand := false, baseType := btUint8 },
      { num := 5, readNum := 5, kind := .scalar, ptype := typeUint32, dflt := .uint32 4294967295, sentinel := .uint32 4294967295, canExpand := true, baseType := btUint32 },
      { num := 6, readNum := 6, kind := .bool, ptype := typeBool, dflt := .bool 255, sentinel := .invalid, canExpand := false, baseType := btEnum }] }

def backOf (st : Struct) : Typed.Outcome Struct := ofMesg pinnedRec (toMesg pinnedRec pinnedFac { includeExpanded := true } st)

/-- a struct in the three NORMALISING classes at once: time one second before the epoch, Bool 7, a mark on slot 5 whose
content is invalid -/
def stNorm : Struct :=
  { vals := [.time (-1), .val (.uint8 70), .val (.uint32 4294967295), .val (.bool 7)], state := 1 <<< 5, unknown := [], dev := [] }

/-- a struct in the class of KF-C13-2: bit 3 (heart_rate-like, not a component target) set — as `Reset` leaves it after a
message whose field 3 was flagged as expanded -/
def stStray : Struct :=
  { vals := [.time 1000, .val (.uint8 70), .val (.uint32 9), .val (.bool 1)], state := (1 <<< 5) ||| (1 <<< 3), unknown := [], dev := [] }

def strayMesg : Message :=
  { num := 20, devFields := []
    fields := [{ base := some { num := 253, baseType := btUint32, nameKnown := true }, value := .uint32 1000 },
               { base := some { num := 3, baseType := btUint8, nameKnown := true }, value := .uint8 70, isExpanded := true },
               { base := some { num := 5, baseType := btUint32, nameKnown := true }, value := .uint32 9, isExpanded := true },
               { base := some { num := 6, baseType := btEnum, nameKnown := true }, value := .bool 1 }] }

def stBeyond (t : Int) : Struct :=
  { vals := [.time t, .val (.uint8 70), .val (.uint32 9), .val (.bool 1)], state := 0, unknown := [], dev := [] }

/-- **The classes, on a pinned table** (each line: the struct is a Go value in exactly the class named, and what comes back):
normalising classes — the pre-epoch time comes back `time.Time{}`, Bool 7 comes back 255, the mark on the invalid slot is
gone, and that is `normDoc`; class of KF-C13-2 — the struct `Reset` builds from a message whose field 3 is flagged keeps
bit 3, and the round trip loses it (`normDoc` keeps it); times beyond the protocol's range — epoch + 0xFFFFFFFF s comes
back `time.Time{}`, epoch + 2^32 + 5 s comes back epoch + 5 s, a time beyond the saturation of `time.Duration` comes back
epoch + 633437444 s. -/
theorem C13_struct_class_witnesses :
    pinnedRec.wf = true ∧ facOk pinnedRec pinnedFac = true ∧
    wellTyped pinnedRec stNorm = true ∧ hasBoolOther pinnedRec stNorm = true ∧ hasPreEpoch pinnedRec stNorm = true ∧
    hasMarkOnInvalid pinnedRec stNorm = true ∧ hasStrayBit pinnedRec stNorm = false ∧ hasTimeBeyond pinnedRec stNorm = false ∧
    backOf stNorm = .ok { vals := [.time zeroTime, .val (.uint8 70), .val (.uint32 4294967295), .val (.bool 255)], state := 0, unknown := [], dev := [] } ∧
    backOf stNorm = .ok (normDoc pinnedRec stNorm) ∧
    ofMesg pinnedRec strayMesg = .ok stStray ∧
    wellTyped pinnedRec stStray = true ∧ hasStrayBit pinnedRec stStray = true ∧ hasBoolOther pinnedRec stStray = false ∧
    hasPreEpoch pinnedRec stStray = false ∧ hasMarkOnInvalid pinnedRec stStray = false ∧ hasTimeBeyond pinnedRec stStray = false ∧
    backOf stStray = .ok { stStray with state := 1 <<< 5 } ∧ normDoc pinnedRec stStray = stStray ∧
    hasTimeBeyond pinnedRec (stBeyond (2 ^ 32 - 1)) = true ∧ backOf (stBeyond (2 ^ 32 - 1)) = .ok (stBeyond zeroTime) ∧
    backOf (stBeyond (2 ^ 32 + 5)) = .ok (stBeyond 5) ∧ backOf (stBeyond (10 ^ 10)) = .ok (stBeyond 633437444) ∧
    hasTimeBeyond pinnedRec (stBeyond (2 ^ 32 - 2)) = false ∧ inRange pinnedRec (stBeyond (2 ^ 32 - 2)) = true := by
  decide +kernel

/-- hence the full statement of struct → message → struct is false of the generated code (KF-C13-2, struct level) -/
theorem C13_struct_full_is_false : ¬ C13_struct_mesg_struct_full := by
  intro h
  have w := C13_struct_class_witnesses
  have hun : unknownsOk pinnedRec stStray = true := by decide
  have := h pinnedRec w.1 pinnedFac w.2.1 stStray w.2.2.2.2.2.2.2.2.2.2.2.1 hun w.2.2.2.2.2.2.2.2.2.2.2.2.2.2.2.2.1
  have hb : backOf stStray = .ok { stStray with state := 1 <<< 5 } := w.2.2.2.2.2.2.2.2.2.2.2.2.2.2.2.2.2.1
  have hn : normDoc pinnedRec stStray = stStray := w.2.2.2.2.2.2.2.2.2.2.2.2.2.2.2.2.2.2.1
  unfold backOf at hb
  rw [hb, hn] at this
  revert this
  decide

/-- non-vacuity of `C13_struct_mesg_struct_norm` / `_partial` on a regenerated table: the struct built from the example
message with one of its `typedef.Bool`-free slots… (record has no Bool slot: a pre-epoch timestamp and a mark on an invalid
slot) is a Go value, in no non-normalising class, and NOT in range -/
def exStructNorm : Struct :=
  match markAsExpanded Mesgdef.tRecord { exStruct with vals := exStruct.vals.set 0 (.time (-1)) } 73 true with
  | (st, _) => st

example : wellTyped Mesgdef.tRecord exStructNorm = true ∧ unknownsOk Mesgdef.tRecord exStructNorm = true ∧
    hasTimeBeyond Mesgdef.tRecord exStructNorm = false ∧ hasStrayBit Mesgdef.tRecord exStructNorm = false ∧
    hasPreEpoch Mesgdef.tRecord exStructNorm = true ∧ hasMarkOnInvalid Mesgdef.tRecord exStructNorm = true ∧
    inRange Mesgdef.tRecord exStructNorm = false ∧ normDoc Mesgdef.tRecord exStructNorm ≠ exStructNorm := by
  decide +kernel

end Fit.C13
