import FitProps.CsvTextLemmas
/-! The reader on lines whose pieces are kept as TEXT (`Atom.raw`, parsed by `Arith.raw`) compared with the reader on
the pieces the writer produced: whenever the latter succeeds the former succeeds with the same result, provided every
piece parses to the same value in both readings (`Sim`). Core Lean only. -/
set_option linter.unusedSimpArgs false
set_option linter.unusedVariables false
namespace Fit.Csv
open Fit.Value Fit.Msg Fit.Gen Fit.Gen.Csv

/-- the piece `f a` reads (with `ar'`) as the piece `a` reads (with `ar`), whenever the latter reads at all -/
def Sim (ar ar' : Arith) (f : Atom → Atom) (a : Atom) : Prop :=
  ∀ bt isBool sc off units v, parseAtom ar a bt isBool sc off units = .ok v → parseAtom ar' (f a) bt isBool sc off units = .ok v

def mapCell (f : Atom → Atom) (c : Cell) : Cell := { c with val := c.val.map f }

def mapParsed (f : Atom → Atom) : Parsed → Parsed
  | .placeholder n v => .placeholder n (v.map f)
  | p => p

def mapSlot (f : Atom → Atom) : Slot → Slot
  | .inl g => .inl g
  | .inr (n, v) => .inr (n, v.map f)

theorem mapR_sim (ar ar' : Arith) (f : Atom → Atom) (bt : Nat) (isBool : Bool) (sc off : Nat) (units : Txt) :
    ∀ (as : List Atom) (vs : List Value), (∀ a ∈ as, Sim ar ar' f a) →
      mapR (fun a => parseAtom ar a bt isBool sc off units) as = .ok vs →
      mapR (fun a => parseAtom ar' a bt isBool sc off units) (as.map f) = .ok vs
  | [], vs, _, h => by simpa [mapR] using h
  | a :: as, vs, hs, h => by
    simp only [mapR] at h
    cases h1 : parseAtom ar a bt isBool sc off units with
    | ok v =>
      rw [h1] at h
      simp only at h
      cases h2 : mapR (fun a => parseAtom ar a bt isBool sc off units) as with
      | ok vs' =>
        rw [h2] at h
        simp only [R.ok.injEq] at h
        have e1 := hs a (List.mem_cons_self ..) bt isBool sc off units v h1
        have e2 := mapR_sim ar ar' f bt isBool sc off units as vs' (fun x hx => hs x (List.mem_cons_of_mem _ hx)) h2
        simp only [List.map_cons, mapR, e1, e2, h]
      | err => rw [h2] at h; cases h
      | unmodelled => rw [h2] at h; cases h
    | err => rw [h1] at h; cases h
    | unmodelled => rw [h1] at h; cases h

theorem parseCellValue_sim (ar ar' : Arith) (f : Atom → Atom) (val : List Atom) (bt : Nat) (isBool array : Bool) (sc off : Nat)
    (units : Txt) (v : Value) (hs : ∀ a ∈ val, Sim ar ar' f a)
    (h : parseCellValue ar val bt isBool array sc off units = .ok v) :
    parseCellValue ar' (val.map f) bt isBool array sc off units = .ok v := by
  unfold parseCellValue at h ⊢
  simp only [List.length_map]
  split at h
  · rename_i hc
    rw [if_pos hc]
    cases hm : mapR (fun a => parseAtom ar a bt isBool sc off units) val with
    | ok vs =>
      rw [hm] at h
      simp only [R.ok.injEq] at h
      rw [mapR_sim ar ar' f bt isBool sc off units val vs hs hm, ← h]
    | err => rw [hm] at h; cases h
    | unmodelled => rw [hm] at h; cases h
  · rename_i hc
    rw [if_neg hc]
    cases val with
    | nil => cases h
    | cons a rest =>
      cases rest with
      | nil =>
        simp only at h
        simp only [List.map_cons, List.map_nil]
        exact hs a (List.mem_cons_self ..) _ _ _ _ _ _ h
      | cons _ _ => cases h

theorem readCell_sim (ar ar' : Arith) (f : Atom → Atom) (ds : List Desc) (n : Nat) (c : Cell) (p : Parsed)
    (hs : ∀ a ∈ c.val, Sim ar ar' f a) (h : readCell ar ds n c = .ok p) :
    readCell ar' ds n (mapCell f c) = .ok (mapParsed f p) := by
  obtain ⟨name, val, units⟩ := c
  show readCell ar' ds n ⟨name, val.map f, units⟩ = _
  unfold readCell at h ⊢
  dsimp only at h hs ⊢
  split at h
  · rename_i h1
    simp only [h1, ↓reduceIte]
    cases h; rfl
  · rename_i h1
    simp only [h1, ↓reduceIte]
    split at h
    · rename_i num rec hnat
      simp only [hnat]
      split at h
      · cases h
      · rename_i hr
        simp only [hr, ↓reduceIte]
        split at h
        · rename_i v hv
          rw [parseCellValue_sim ar ar' f val _ _ _ _ _ _ v hs hv]
          cases h; rfl
        · cases h
        · cases h
    · rename_i hnat
      simp only [hnat]
      split at h
      · rename_i hu
        simp only [hu, ↓reduceIte]
        cases h; rfl
      · rename_i hu
        simp only [hu, ↓reduceIte]
        split at h
        · rename_i d hd
          simp only [Bool.false_eq_true, ↓reduceIte, List.length_map]
          by_cases hc : (val.length != 1) = true
          · simp only [hc, ↓reduceIte] at h ⊢
            cases hm : mapR (fun a => parseAtom ar a d.bt false f64One 0 units) val with
            | ok vs =>
              rw [hm] at h
              rw [mapR_sim ar ar' f d.bt false f64One 0 units val vs hs hm]
              cases hw : packValues vs <;> simp only [hw] at h ⊢ <;> cases h <;> rfl
            | err => rw [hm] at h; cases h
            | unmodelled => rw [hm] at h; cases h
          · simp only [hc, Bool.false_eq_true, ↓reduceIte] at h ⊢
            cases val with
            | nil => cases h
            | cons a rest =>
              cases rest with
              | nil =>
                simp only [List.map_cons, List.map_nil] at h ⊢
                cases hp : parseAtom ar a d.bt false f64One 0 units with
                | ok w =>
                  rw [hp] at h
                  rw [hs a (List.mem_cons_self ..) _ _ _ _ _ _ hp]
                  cases w <;> simp only at h ⊢ <;> cases h <;> rfl
                | err => rw [hp] at h; cases h
                | unmodelled => rw [hp] at h; cases h
              | cons _ _ => cases h
        · rename_i hd
          simp only [Bool.false_eq_true, ↓reduceIte]
          cases h; rfl

theorem parseCells_sim (ar ar' : Arith) (f : Atom → Atom) (ds : List Desc) (n : Nat) :
    ∀ (cs : List Cell) (slots : List Slot) (devs : List DevField), (∀ c ∈ cs, ∀ a ∈ c.val, Sim ar ar' f a) →
      parseCells ar ds n cs = .ok (slots, devs) →
      parseCells ar' ds n (cs.map (mapCell f)) = .ok (slots.map (mapSlot f), devs)
  | [], slots, devs, _, h => by
    simp only [parseCells, R.ok.injEq, Prod.mk.injEq] at h
    obtain ⟨rfl, rfl⟩ := h
    rfl
  | c :: cs, slots, devs, hs, h => by
    simp only [parseCells] at h
    cases hr : readCell ar ds n c with
    | err => rw [hr] at h; cases h
    | unmodelled => rw [hr] at h; cases h
    | ok p =>
      rw [hr] at h
      simp only at h
      cases hrest : parseCells ar ds n cs with
      | err => rw [hrest] at h; cases h
      | unmodelled => rw [hrest] at h; cases h
      | ok sd =>
        obtain ⟨sl, dv⟩ := sd
        rw [hrest] at h
        simp only at h
        have e1 := readCell_sim ar ar' f ds n c p (hs c (List.mem_cons_self ..)) hr
        have e2 := parseCells_sim ar ar' f ds n cs sl dv (fun x hx => hs x (List.mem_cons_of_mem _ hx)) hrest
        simp only [List.map_cons, parseCells, e1, e2]
        cases p with
        | field g =>
          simp only [R.ok.injEq, Prod.mk.injEq] at h
          obtain ⟨rfl, rfl⟩ := h
          simp [mapParsed, mapSlot]
        | dev d =>
          simp only [R.ok.injEq, Prod.mk.injEq] at h
          obtain ⟨rfl, rfl⟩ := h
          simp [mapParsed]
        | placeholder nm v =>
          simp only [R.ok.injEq, Prod.mk.injEq] at h
          obtain ⟨rfl, rfl⟩ := h
          simp [mapParsed, mapSlot]
        | skip =>
          simp only [R.ok.injEq, Prod.mk.injEq] at h
          obtain ⟨rfl, rfl⟩ := h
          simp [mapParsed]

theorem revert_sim (ar ar' : Arith) (f : Atom → Atom) (n : Nat) (fields : List Field) (name : Txt) (val : List Atom)
    (r : Option Field) (h : revert ar n fields name val = .ok r) (hs : ∀ a ∈ val, Sim ar ar' f a) :
    revert ar' n fields name (val.map f) = .ok r := by
  unfold revert at h ⊢
  cases hpm : pmesg n with
  | none => rw [hpm] at h; simpa using h
  | some pm =>
    rw [hpm] at h
    simp only at h ⊢
    split at h
    · rename_i p mp hf
      cases val with
      | nil => cases h
      | cons a rest =>
        cases rest with
        | nil =>
          simp only [List.map_cons, List.map_nil] at h ⊢
          cases hp : parseAtom ar a p.bt p.isBool p.scale p.offset (txt p.units) with
          | ok v =>
            rw [hp] at h
            rw [hs a (List.mem_cons_self ..) _ _ _ _ _ _ hp]
            exact h
          | err => rw [hp] at h; cases h
          | unmodelled => rw [hp] at h; cases h
        | cons _ _ => cases h
    · rename_i hf
      exact h

theorem pendingSlot_map (f : Atom → Atom) (s : Slot) : pendingSlot (mapSlot f s) = pendingSlot s := by
  cases s with
  | inl g => rfl
  | inr nv => obtain ⟨n, v⟩ := nv; rfl

theorem slotField_map (f : Atom → Atom) (s : Slot) : slotField (mapSlot f s) = slotField s := by
  cases s with
  | inl g => rfl
  | inr nv => obtain ⟨n, v⟩ := nv; rfl

theorem slotDone_map (f : Atom → Atom) (s : Slot) : slotDone (mapSlot f s) = slotDone s := by
  cases s with
  | inl g => rfl
  | inr nv => obtain ⟨n, v⟩ := nv; rfl

theorem findIdx_map (f : Atom → Atom) : ∀ slots : List Slot, (slots.map (mapSlot f)).findIdx? pendingSlot = slots.findIdx? pendingSlot
  | [] => rfl
  | s :: slots => by
    simp only [List.map_cons, List.findIdx?_cons, pendingSlot_map, findIdx_map f slots]

theorem map_slotField (f : Atom → Atom) (slots : List Slot) : (slots.map (mapSlot f)).map slotField = slots.map slotField := by
  simp [List.map_map, Function.comp_def, slotField_map]

theorem revertAll_sim (ar ar' : Arith) (f : Atom → Atom) (n : Nat) : ∀ (fuel : Nat) (slots r : List Slot),
    (∀ s ∈ slots, ∀ nv, s = Sum.inr nv → ∀ a ∈ nv.2, Sim ar ar' f a) → revertAll ar n fuel slots = .ok r →
    revertAll ar' n fuel (slots.map (mapSlot f)) = .ok (r.map (mapSlot f))
  | 0, slots, r, _, h => by
    simp only [revertAll, R.ok.injEq] at h
    subst h; rfl
  | fuel + 1, slots, r, hs, h => by
    simp only [revertAll] at h ⊢
    rw [findIdx_map]
    cases hi : slots.findIdx? pendingSlot with
    | none => rw [hi] at h; simp only [R.ok.injEq] at h; subst h; rfl
    | some i =>
      rw [hi] at h
      simp only at h ⊢
      rw [List.getElem?_map]
      cases hg : slots[i]? with
      | none => rw [hg] at h; simp only [R.ok.injEq] at h; subst h; simp
      | some sl =>
        rw [hg] at h
        have hmem : sl ∈ slots := List.mem_of_getElem? hg
        cases sl with
        | inl g => simp only [R.ok.injEq] at h; subst h; simp [mapSlot]
        | inr nv =>
          obtain ⟨name, val⟩ := nv
          simp only [Option.map_some, mapSlot] at h ⊢
          rw [map_slotField]
          have hval := hs _ hmem (name, val) rfl
          simp only at hval
          cases hr : revert ar n (slots.map slotField) name val with
          | err => rw [hr] at h; cases h
          | unmodelled => rw [hr] at h; cases h
          | ok ro =>
            rw [hr] at h
            rw [revert_sim ar ar' f n _ name val ro hr hval]
            cases ro with
            | some g =>
              simp only at h ⊢
              have ih := revertAll_sim ar ar' f n fuel (slots.set i (Sum.inl g)) r (by
                intro s hsm nv' he a ha
                rcases List.mem_or_eq_of_mem_set hsm with h1 | h1
                · exact hs s h1 nv' he a ha
                · rw [h1] at he; cases he) h
              rw [List.map_set] at ih
              exact ih
            | none =>
              simp only at h ⊢
              have ih := revertAll_sim ar ar' f n fuel (slots.set i (Sum.inr ([], val))) r (by
                intro s hsm nv' he a ha
                rcases List.mem_or_eq_of_mem_set hsm with h1 | h1
                · exact hs s h1 nv' he a ha
                · rw [h1] at he
                  simp only [Sum.inr.injEq] at he
                  subst he
                  exact hval a ha) h
              rw [List.map_set] at ih
              exact ih

/-! ### padding cells, messages, lines -/

/-- a padding triple: the empty cells the missing commas stand for -/
def IsPad (c : Cell) : Prop := c.name = []

theorem parseCells_pads (ar : Arith) (ds : List Desc) (n : Nat) : ∀ pads : List Cell, (∀ c ∈ pads, IsPad c) →
    parseCells ar ds n pads = .ok ([], [])
  | [], _ => rfl
  | c :: pads, h => by
    have h1 : readCell ar ds n c = .ok .skip := by
      have : c.name = [] := h c (List.mem_cons_self ..)
      simp [readCell, this]
    simp only [parseCells, h1, parseCells_pads ar ds n pads (fun x hx => h x (List.mem_cons_of_mem _ hx))]

theorem parseCells_append_pads (ar : Arith) (ds : List Desc) (n : Nat) (pads : List Cell) (hp : ∀ c ∈ pads, IsPad c) :
    ∀ cs : List Cell, parseCells ar ds n (cs ++ pads) = parseCells ar ds n cs
  | [] => by simpa [parseCells] using parseCells_pads ar ds n pads hp
  | c :: cs => by
    simp only [List.cons_append, parseCells, parseCells_append_pads ar ds n pads hp cs]

theorem filterMap_slotDone_map (f : Atom → Atom) (r : List Slot) : (r.map (mapSlot f)).filterMap slotDone = r.filterMap slotDone := by
  induction r with
  | nil => rfl
  | cons s r ih => simp only [List.map_cons, List.filterMap_cons, slotDone_map, ih]

theorem readCell_placeholder (ar : Arith) (ds : List Desc) (n : Nat) (c : Cell) (nm : Txt) (v : List Atom)
    (h : readCell ar ds n c = .ok (.placeholder nm v)) : v = c.val := by
  obtain ⟨name, val, units⟩ := c
  unfold readCell at h
  dsimp only at h
  repeat' (split at h)
  all_goals first
    | (cases h; rfl)
    | (cases h; done)

/-- a placeholder the first pass leaves carries the value cell of one of the cells -/
theorem parseCells_inr (ar : Arith) (ds : List Desc) (n : Nat) : ∀ (cs : List Cell) (slots : List Slot) (devs : List DevField),
    parseCells ar ds n cs = .ok (slots, devs) → ∀ s ∈ slots, ∀ nv, s = Sum.inr nv → ∃ c ∈ cs, nv.2 = c.val
  | [], slots, devs, h, s, hs, _, _ => by
    simp only [parseCells, R.ok.injEq, Prod.mk.injEq] at h
    rw [← h.1] at hs; cases hs
  | c :: cs, slots, devs, h, s, hs, nv, he => by
    simp only [parseCells] at h
    cases hr : readCell ar ds n c with
    | err => rw [hr] at h; cases h
    | unmodelled => rw [hr] at h; cases h
    | ok p =>
      rw [hr] at h
      simp only at h
      cases hrest : parseCells ar ds n cs with
      | err => rw [hrest] at h; cases h
      | unmodelled => rw [hrest] at h; cases h
      | ok sd =>
        obtain ⟨sl, dv⟩ := sd
        rw [hrest] at h
        simp only at h
        have ih := parseCells_inr ar ds n cs sl dv hrest
        have lift : (∃ c' ∈ cs, nv.2 = c'.val) → ∃ c' ∈ c :: cs, nv.2 = c'.val :=
          fun ⟨c', hc', e⟩ => ⟨c', List.mem_cons_of_mem _ hc', e⟩
        cases p with
        | field g =>
          simp only [R.ok.injEq, Prod.mk.injEq] at h
          rw [← h.1] at hs
          rcases List.mem_cons.mp hs with h1 | h1
          · rw [h1] at he; cases he
          · exact lift (ih s h1 nv he)
        | dev d =>
          simp only [R.ok.injEq, Prod.mk.injEq] at h
          rw [← h.1] at hs
          exact lift (ih s hs nv he)
        | placeholder nm v =>
          simp only [R.ok.injEq, Prod.mk.injEq] at h
          rw [← h.1] at hs
          rcases List.mem_cons.mp hs with h1 | h1
          · rw [h1] at he
            simp only [Sum.inr.injEq] at he
            subst he
            exact ⟨c, List.mem_cons_self .., readCell_placeholder ar ds n c nm v hr⟩
          · exact lift (ih s h1 nv he)
        | skip =>
          simp only [R.ok.injEq, Prod.mk.injEq] at h
          rw [← h.1] at hs
          exact lift (ih s hs nv he)

theorem createMesg_sim (ar ar' : Arith) (f : Atom → Atom) (ds : List Desc) (n : Nat)
    (cs pads : List Cell) (hsim : ∀ c ∈ cs, ∀ a ∈ c.val, Sim ar ar' f a) (hp : ∀ c ∈ pads, IsPad c) (m : Message)
    (h : createMesg ar ds n cs = .ok m) :
    createMesg ar' ds n (cs.map (mapCell f) ++ pads) = .ok m := by
  unfold createMesg at h ⊢
  rw [parseCells_append_pads ar' ds n pads hp]
  cases hpc : parseCells ar ds n cs with
  | err => rw [hpc] at h; cases h
  | unmodelled => rw [hpc] at h; cases h
  | ok sd =>
    obtain ⟨slots, devs⟩ := sd
    rw [hpc] at h
    simp only at h
    rw [parseCells_sim ar ar' f ds n cs slots devs hsim hpc]
    simp only [List.length_map]
    cases hra : revertAll ar n slots.length slots with
    | err => rw [hra] at h; cases h
    | unmodelled => rw [hra] at h; cases h
    | ok r =>
      rw [hra] at h
      simp only at h
      rw [revertAll_sim ar ar' f n slots.length slots r (by
        intro s hs nv he a ha
        obtain ⟨c, hc, e⟩ := parseCells_inr ar ds n cs slots devs hpc s hs nv he
        rw [e] at ha
        exact hsim c hc a ha) hra]
      simp only [filterMap_slotDone_map]
      exact h

theorem createMesg_nil (ar : Arith) (ds : List Desc) (n : Nat) : createMesg ar ds n [] = .ok { num := n, fields := [], devFields := [] } := by
  simp [createMesg, parseCells, revertAll, removeExpanded]

/-- **one line**: the reader on the line as scanned from the text (pieces as text, padding cells at the end) ends in the
state the reader on the writer's own cells ends in -/
theorem readLine_sim (ar ar' : Arith) (f : Atom → Atom) (s s' : RState) (name : Txt)
    (cells pads : List Cell) (hsim : ∀ c ∈ cells, ∀ a ∈ c.val, Sim ar ar' f a) (hp : ∀ c ∈ pads, IsPad c)
    (h : readLine ar s (.data name cells) = .ok s') :
    readLine ar' s (.data name (cells.map (mapCell f) ++ pads)) = .ok s' := by
  unfold readLine at h ⊢
  simp only at h ⊢
  split at h
  · cases h
  · cases h
  · exact h
  · rename_i num hnum
    -- the message, from the cells
    have key : ∀ s1 : RState,
        (if cells.isEmpty then R.ok s1 else
          match createMesg ar s1.ds num cells with
          | .err => .err
          | .unmodelled => .unmodelled
          | .ok m =>
            if m.fields.isEmpty && m.devFields.isEmpty then .ok s1 else
            .ok { s1 with ds := (if num == mnFieldDescription then s1.ds ++ [descOf m] else s1.ds), cur := m :: s1.cur }) = .ok s' →
        (if (cells.map (mapCell f) ++ pads).isEmpty then R.ok s1 else
          match createMesg ar' s1.ds num (cells.map (mapCell f) ++ pads) with
          | .err => .err
          | .unmodelled => .unmodelled
          | .ok m =>
            if m.fields.isEmpty && m.devFields.isEmpty then .ok s1 else
            .ok { s1 with ds := (if num == mnFieldDescription then s1.ds ++ [descOf m] else s1.ds), cur := m :: s1.cur }) = .ok s' := by
      intro s1 hk
      cases hce : cells.isEmpty
      · rw [hce] at hk
        simp only [Bool.false_eq_true, ↓reduceIte] at hk
        have hne : (cells.map (mapCell f) ++ pads).isEmpty = false := by
          cases cells with
          | nil => cases hce
          | cons _ _ => rfl
        rw [hne]
        simp only [Bool.false_eq_true, ↓reduceIte]
        cases hcm : createMesg ar s1.ds num cells with
        | err => rw [hcm] at hk; cases hk
        | unmodelled => rw [hcm] at hk; cases hk
        | ok m =>
          rw [hcm] at hk
          rw [createMesg_sim ar ar' f s1.ds num cells pads hsim hp m hcm]
          exact hk
      · rw [hce] at hk
        simp only [↓reduceIte] at hk
        have hc0 : cells = [] := List.isEmpty_iff.mp hce
        subst hc0
        cases hpe : (([] : List Cell).map (mapCell f) ++ pads).isEmpty
        · simp only [Bool.false_eq_true, ↓reduceIte]
          rw [createMesg_sim ar ar' f s1.ds num [] pads (fun c hc => nomatch hc) hp _ (createMesg_nil ar s1.ds num)]
          simpa using hk
        · simp only [↓reduceIte]
          exact hk
    exact key _ h

end Fit.Csv
