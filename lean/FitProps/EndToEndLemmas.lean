import FitProps.EndToEndItemsLemmas
import FitProps.EndToEndExactLemmas
import FitProps.C06
/-!
File level of the end-to-end composition (C01): the decoder-API model's `Decode` on what `Fit.Wire.encodeFit` writes —
file header, record loop (`bridge_records` on the items `C01_wire_records` provides, interpreted by `good_items`),
file CRC — and what validation guarantees of the messages that reach the writer (`KeptOK`, from `C10_post`).
-/
set_option linter.unusedSimpArgs false
namespace Fit.E2E
open Fit.Gen Fit.Gen.DecApi Fit.Value Fit.DecApi Fit.Crc Fit.Msg Fit.Wire

/-! ### the file header -/

theorem rawRead_ok (k : Nat) (s : St) (hk : k ≤ reservedbuf) (hl : k ≤ s.rest.length) :
    rawRead k s = .ok (s.rest.take k, { s with rest := s.rest.drop k }) := by
  unfold rawRead
  have h1 : ¬ k > reservedbuf := by omega
  have h2 : Fit.Integrity.hasN s.rest k = true := (hasN_iff s.rest k).mpr hl
  simp [h1, h2]

/-- the state after the file header -/
def hdrSt (s : St) (rest : List Nat) (h : DecApi.Hdr) : St :=
  { s with rest := rest, q := { s.q with hdr := h, crc16 := 0 } }

/-- the decoder-API model reads the file header the encoder wrote -/
theorem decodeFileHeader_hdrBytes (s : St) (h : Wire.Hdr) (ds : Nat) (rest : List Nat)
    (hrest : s.rest = hdrBytes h ds ++ rest) (hc0 : s.q.crc16 = 0)
    (hs : h.size = 12 ∨ h.size = 14) (hp : h.profileVer < 65536) (hds0 : 0 < ds) (hds : ds < 4294967296) :
    decodeFileHeader s = .ok (hdrSt s rest ⟨h.size, h.protoVer, h.profileVer, ds, if h.size = 14 then write 0 (b12 h ds) else 0⟩) := by
  have hrb : reservedbuf = 765 := rfl
  have hcrc : write 0 (b12 h ds) < 2 ^ 16 := write_lt 0 (by decide) _
  have hpf : h.profileVer % 256 + 256 * (h.profileVer / 256 % 256) = h.profileVer := by omega
  have hdsv := le32_val ds hds
  obtain ⟨sz, pv, pf⟩ := h
  simp only at hs hp hpf
  unfold decodeFileHeader
  simp only [bind, Res.bind, pure]
  rcases hs with rfl | rfl
  · have hb : hdrBytes ⟨12, pv, pf⟩ ds = [12, pv, pf % 256, pf / 256 % 256, ds % 256, ds / 256 % 256, ds / 65536 % 256,
        ds / 16777216 % 256, 0x2E, 0x46, 0x49, 0x54] := by simp [hdrBytes, Wire.le16, Wire.le32]
    rw [hb] at hrest
    rw [rawRead_ok 1 s (by omega) (by rw [hrest]; simp)]
    simp only [hrest, List.cons_append, List.take_succ_cons, List.take_zero, List.drop_succ_cons, List.drop_zero, idx,
      List.getElem?_cons_zero, Res.bind]
    rw [rawRead_ok 11 _ (by omega) (by simp)]
    simp only [List.take_succ_cons, List.take_zero, List.drop_succ_cons, List.drop_zero, List.nil_append, slice,
      List.length_cons, List.length_nil, Res.bind, idx, List.getElem?_cons_zero]
    simp [dataTypeFIT, DecApi.le16, DecApi.le32, hpf, hdsv, Nat.ne_of_gt hds0, hdrSt]
  · have hb : hdrBytes ⟨14, pv, pf⟩ ds = [14, pv, pf % 256, pf / 256 % 256, ds % 256, ds / 256 % 256, ds / 65536 % 256,
        ds / 16777216 % 256, 0x2E, 0x46, 0x49, 0x54, write 0 (b12 ⟨14, pv, pf⟩ ds) % 256, write 0 (b12 ⟨14, pv, pf⟩ ds) / 256 % 256] := by
      simp [hdrBytes, Wire.le16, Wire.le32, b12]
    rw [hb] at hrest
    generalize hcv : write 0 (b12 ⟨14, pv, pf⟩ ds) = c at *
    have hcc : c % 256 + 256 * (c / 256 % 256) = c := by omega
    rw [rawRead_ok 1 s (by omega) (by rw [hrest]; simp)]
    simp only [hrest, List.cons_append, List.take_succ_cons, List.take_zero, List.drop_succ_cons, List.drop_zero, idx,
      List.getElem?_cons_zero, Res.bind]
    rw [rawRead_ok 13 _ (by omega) (by simp)]
    simp only [List.take_succ_cons, List.take_zero, List.drop_succ_cons, List.drop_zero, List.nil_append, slice,
      List.length_cons, List.length_nil, Res.bind, idx, List.getElem?_cons_zero]
    have hbody : write (write s.q.crc16 [14]) [pv, pf % 256, pf / 256 % 256, ds % 256, ds / 256 % 256, ds / 65536 % 256,
        ds / 16777216 % 256, 0x2E, 0x46, 0x49, 0x54] = c := by
      rw [hc0, write_append, ← hcv]
      simp [b12, Wire.le16, Wire.le32]
    simp [dataTypeFIT, DecApi.le16, DecApi.le32, hpf, hdsv, Nat.ne_of_gt hds0, hcc, hbody, hdrSt]

/-! ### what the encoder writes are bytes -/

/-- byte typing of a wire message: numbers, base types, developer data indexes and data are bytes -/
structure MsgTyped (m : WMsg) : Prop where
  nums : ∀ f ∈ m.fields, f.num < 256
  dnums : ∀ d ∈ m.devs, d.num < 256 ∧ d.idx < 256
  dbytes : ∀ d ∈ m.devs, ∀ b ∈ d.data, b < 256

theorem mem_removeFirst (n : Nat) (fs : List WField) : ∀ f ∈ removeFirst n fs, f ∈ fs := by
  induction fs with
  | nil => intro f h; cases h
  | cons g gs ih =>
    intro f h
    simp only [removeFirst] at h
    split at h
    · exact List.mem_cons_of_mem _ h
    · rcases List.mem_cons.mp h with rfl | h
      · simp
      · exact List.mem_cons_of_mem _ (ih f h)

theorem wire_valid_lt256 (b : Nat) (h : Wire.validBaseType b = true) : b < 256 := by
  simp only [Wire.validBaseType, Bool.or_eq_true, beq_iff_eq] at h
  omega

theorem defBytes_bytes (arch : Nat) (m : WMsg) (ha : arch = 0 ∨ arch = 1) (hok : ∀ f ∈ m.fields, Wire.validBaseType f.bt = true)
    (ht : MsgTyped m) : DecApi.IsBytes (defBytes arch m) := by
  intro b hb
  have harch : arch < 256 := by rcases ha with h | h <;> omega
  have hnumb : ∀ x ∈ (if arch = 0 then [m.num % 256, m.num / 256 % 256] else [m.num / 256 % 256, m.num % 256]), x < 256 := by
    intro x hx
    split at hx <;> simp only [List.mem_cons, List.not_mem_nil, or_false] at hx <;> omega
  simp only [defBytes, List.mem_append] at hb
  rcases hb with (((hb | hb) | hb) | hb) | hb
  · simp only [List.mem_cons, List.not_mem_nil, or_false] at hb
    rcases hb with hb | hb | hb
    · rw [hb]; split <;> omega
    · omega
    · omega
  · exact hnumb b hb
  · simp only [List.mem_cons, List.not_mem_nil, or_false] at hb; omega
  · obtain ⟨f, hf, hb⟩ := List.mem_flatMap.mp hb
    simp only [List.mem_cons, List.not_mem_nil, or_false] at hb
    rcases hb with hb | hb | hb
    · rw [hb]; exact ht.nums f hf
    · omega
    · rw [hb]; exact wire_valid_lt256 _ (hok f hf)
  · split at hb
    · cases hb
    · rcases List.mem_append.mp hb with hb | hb
      · simp only [List.mem_cons, List.not_mem_nil, or_false] at hb; omega
      · obtain ⟨d, hd, hb⟩ := List.mem_flatMap.mp hb
        simp only [List.mem_cons, List.not_mem_nil, or_false] at hb
        rcases hb with hb | hb | hb
        · rw [hb]; exact (ht.dnums d hd).1
        · omega
        · rw [hb]; exact (ht.dnums d hd).2

theorem payload_bytes (m : WMsg) (hok : ∀ f ∈ m.fields, ∀ b ∈ f.data, b < 256) (ht : MsgTyped m) : DecApi.IsBytes (payload m) := by
  intro b hb
  simp only [payload, List.mem_append, List.mem_flatMap] at hb
  rcases hb with ⟨f, hf, hb⟩ | ⟨d, hd, hb⟩
  · exact hok f hf b hb
  · exact ht.dbytes d hd b hb

theorem or_lt_256 (a b : Nat) (ha : a < 256) (hb : b < 256) : a ||| b < 256 := Nat.or_lt_two_pow (n := 8) ha hb

theorem encodeMsg_bytes (o : Wire.Opts) (e : EncState) (m : WMsg) (ha : o.arch = 0 ∨ o.arch = 1) (hm : Wire.MsgOK m) (ht : MsgTyped m)
    (hcap : 0 < e.lru.cap) (h16 : e.lru.cap ≤ 16) (hlt : ∀ i ∈ e.lru.bucket, i < e.lru.cap) :
    DecApi.IsBytes (encodeMsg o e m).2 := by
  -- whichever message is written (with or without its timestamp field) is typed
  have key : ∀ (m' : WMsg) (hdr : Nat), (∀ f ∈ m'.fields, f ∈ m.fields) → m'.devs = m.devs → hdr < 256 →
      DecApi.IsBytes ((if (e.lru.put (defBytes o.arch m')).2.2 then defRecord o.arch (e.lru.put (defBytes o.arch m')).2.1 m' else []) ++
        (hdr :: payload m')) := by
    intro m' hdr hsub hdevs hhdr
    have ht' : MsgTyped m' := ⟨fun f hf => ht.nums f (hsub f hf), by rw [hdevs]; exact ht.dnums, by rw [hdevs]; exact ht.dbytes⟩
    have hdb := defBytes_bytes o.arch m' ha (fun f hf => (hm.fields f (hsub f hf)).2) ht'
    have hi : (e.lru.put (defBytes o.arch m')).2.1 < 16 := by
      have := (put_spec e.lru (defBytes o.arch m') hcap hlt).2.1
      omega
    intro b hb
    rcases List.mem_append.mp hb with hb | hb
    · split at hb
      · simp only [defRecord] at hb
        cases hd : defBytes o.arch m' with
        | nil => rw [hd] at hb; cases hb
        | cons h0 rest =>
          rw [hd] at hb hdb
          rcases List.mem_cons.mp hb with rfl | hb
          · rw [hd] at hi; exact or_lt_256 _ _ (hdb h0 (by simp)) (Nat.lt_trans hi (by decide))
          · exact hdb b (List.mem_cons_of_mem _ hb)
      · cases hb
    · rcases List.mem_cons.mp hb with rfl | hb
      · exact hhdr
      · exact payload_bytes m' (fun f hf => hm.bytes f (hsub f hf)) ht' b hb
  unfold encodeMsg
  by_cases hc : o.compress = true
  · simp only [hc, ↓reduceIte]
    rcases compressTs_cases o.arch e.tsRef e.tsLast m with ⟨r', hr⟩ | ⟨hr, _⟩
    · rw [hr]
      simp only
      have hi : (e.lru.put (defBytes o.arch m)).2.1 < 16 := by
        have := (put_spec e.lru (defBytes o.arch m) hcap hlt).2.1
        omega
      exact key m _ (fun f hf => hf) rfl (Nat.lt_trans hi (by decide))
    · rw [hr]
      simp only
      have hi : (e.lru.put (defBytes o.arch { m with fields := removeFirst tsFieldNum m.fields })).2.1 < 16 := by
        have := (put_spec e.lru (defBytes o.arch { m with fields := removeFirst tsFieldNum m.fields }) hcap hlt).2.1
        omega
      refine key { m with fields := removeFirst tsFieldNum m.fields } _ (mem_removeFirst _ _) rfl ?_
      exact or_lt_256 _ _ (or_lt_256 _ _ (by decide) (by omega)) (Nat.mod_lt _ (by decide))
  · simp only [hc, Bool.false_eq_true, ↓reduceIte]
    have hi : (e.lru.put (defBytes o.arch m)).2.1 < 16 := by
      have := (put_spec e.lru (defBytes o.arch m) hcap hlt).2.1
      omega
    exact key m _ (fun f hf => hf) rfl (Nat.lt_trans hi (by decide))

theorem encodeMsgs_bytes (tsKnown : Nat → Bool) (o : Wire.Opts) (ha : o.arch = 0 ∨ o.arch = 1) : ∀ (ms : List WMsg)
    (e : EncState) (d : DecState), (∀ m ∈ ms, Wire.MsgOK m ∧ MsgTyped m) → DefInv o.arch e.lru d →
    (o.compress = true → e.lru.cap ≤ 4) → (o.compress = true → LastInv e.tsLast d) →
    DecApi.IsBytes (encodeMsgs o e ms) := by
  intro ms
  induction ms with
  | nil => intro _ _ _ _ _ _ b hb; cases hb
  | cons m ms ih =>
    intro e d hok inv hcap hts
    obtain ⟨hm, ht⟩ := hok m (by simp)
    obtain ⟨d', _, _, _, _, inv', hcap', hts', _, _, _⟩ := encodeMsg_step tsKnown o ha e d m hm hcap inv hts []
    rw [encodeMsgs_cons]
    rw [DecApi.IsBytes.append]
    refine ⟨encodeMsg_bytes o e m ha hm ht inv.capPos inv.cap16 inv.lt, ?_⟩
    exact ih _ d' (fun x hx => hok x (List.mem_cons_of_mem _ hx)) inv' (by rw [hcap']; exact hcap) hts'

/-! ### one sequence -/

theorem le16_bytes (v : Nat) : DecApi.IsBytes (Wire.le16 v) := by
  intro b hb
  simp only [Wire.le16, List.mem_cons, List.not_mem_nil, or_false] at hb
  omega

/-- **`Decode` of one encoder-written sequence.** A new decoder (any checksum setting, component expansion off, no
listeners) on the bytes `Wire.encodeFit` writes for validated messages `kept` (followed by anything) returns a FIT whose
messages are `kept`, each in one of its allowed forms, consumes exactly the sequence and is a new decoder again. -/
theorem decode_sequence (o : DecApi.Opts) (w : Wire.Opts) (h : Wire.Hdr) (kept : List Message) (tail : List Nat)
    (ho : PlainOpts o) (hw : OptsOK w) (hfit : FitOK w h (kept.map (toWire w.arch)))
    (htyped : ∀ m ∈ kept.map (toWire w.arch), MsgTyped m) (htail : DecApi.IsBytes tail)
    (hsmall : (encodeFit w h (kept.map (toWire w.arch)) ++ tail).length < 4294967296)
    (hfac : facOKB o.fac = true) (hk : KeptOK {} kept) (hdom : ∀ m ∈ kept, MsgDom o.fac m) :
    ∃ f, stepDecode (St.fresh o (encodeFit w h (kept.map (toWire w.arch)) ++ tail)) = (St.fresh o tail, .fit f, []) ∧
      seqMatches reread true o.fac w.arch {} kept (f.msgs.map proj) = true ∧
      f.hdr.size = h.size ∧ f.hdr.protoVer = h.protoVer ∧ f.hdr.profileVer = h.profileVer ∧
      f.msgs.map proj = actualSeq o.fac w kept := by
  -- names
  generalize hwms : kept.map (toWire w.arch) = wms at *
  generalize hrecs : encodeMsgs w (freshEnc w) wms = recs at *
  have hn : recs.length < 4294967296 := by rw [← hrecs]; exact hfit.small
  have hpos : 0 < recs.length := by rw [← hrecs]; exact encodeMsgs_pos w (freshEnc w) wms hfit.nonempty
  have hbytes : encodeFit w h wms ++ tail = hdrBytes h recs.length ++ (recs ++ (Wire.le16 (write 0 recs) ++ tail)) := by
    simp only [encodeFit, hrecs, Nat.mod_eq_of_lt hn, List.append_assoc]
  rw [hbytes] at hsmall ⊢
  -- the records, by the wire-level round trip
  let tsKnown : Nat → Bool := fun m => (o.fac.create m fieldNumTimestamp).known
  have hinv : DefInv w.arch (freshEnc w).lru DecState.fresh := DefInv.fresh w.arch w.lruCap hw.capPos hw.cap16 _
  obtain ⟨items, hdec, hall⟩ := encodeMsgs_roundtripF_exact tsKnown w hw.arch wms (freshEnc w) DecState.fresh hfit.msgs hinv hw.cap4
    (fun _ => Or.inl rfl) (Wire.le16 (write 0 recs) ++ tail) ((recs ++ (Wire.le16 (write 0 recs) ++ tail)).length + 1)
    (by rw [hrecs]; simp; omega)
  rw [hrecs] at hdec
  -- what they interpret to
  obtain ⟨msgs, hgood, hmatch, hexact⟩ := good_items_exact o.fac hfac w items kept {} 0 0 (by rw [hwms]; exact hall) hk hdom
  -- the header
  set_option maxRecDepth 2048 in
  have hhdr := decodeFileHeader_hdrBytes (St.fresh o (hdrBytes h recs.length ++ (recs ++ (Wire.le16 (write 0 recs) ++ tail)))) h recs.length
    (recs ++ (Wire.le16 (write 0 recs) ++ tail)) rfl rfl hfit.size hfit.profile hpos hn
  generalize hH : (⟨h.size, h.protoVer, h.profileVer, recs.length, if h.size = 14 then write 0 (b12 h recs.length) else 0⟩ : DecApi.Hdr) = H at hhdr
  -- the state in which the record loop starts
  generalize hs1 : ({ (hdrSt (St.fresh o (hdrBytes h recs.length ++ (recs ++ (Wire.le16 (write 0 recs) ++ tail))))
      (recs ++ (Wire.le16 (write 0 recs) ++ tail)) H) with
      q := { (hdrSt (St.fresh o (hdrBytes h recs.length ++ (recs ++ (Wire.le16 (write 0 recs) ++ tail))))
        (recs ++ (Wire.le16 (write 0 recs) ++ tail)) H).q with hdrDone := true } } : St) = s1
  have s1o : s1.o = o := by rw [← hs1]; rfl
  have s1rest : s1.rest = recs ++ (Wire.le16 (write 0 recs) ++ tail) := by rw [← hs1]; rfl
  have s1look : s1.look = {} := by rw [← hs1]; rfl
  have s1cur : s1.q.cur = 0 := by rw [← hs1]; rfl
  have s1crc : s1.q.crc16 = 0 := by rw [← hs1]; rfl
  have s1msgs : s1.q.msgs = [] := by rw [← hs1]; rfl
  have s1hdr : s1.q.hdr = H := by rw [← hs1]; rfl
  have s1ts : s1.q.ts = 0 ∧ s1.q.lastOff = 0 := by rw [← hs1]; exact ⟨rfl, rfl⟩
  have hHds : H.dataSize = recs.length := by rw [← hH]
  have hrb : DecApi.IsBytes recs := by
    rw [← hrecs]
    exact encodeMsgs_bytes tsKnown w hw.arch wms (freshEnc w) DecState.fresh
      (fun m hm => ⟨hfit.msgs m hm, htyped m hm⟩) hinv hw.cap4 (fun _ => Or.inl rfl)
  have hsim : SimW DecState.fresh s1 :=
    ⟨by rw [s1look]; exact DefsRel.nil, s1ts.1, s1ts.2, by decide, fun p hp => by cases hp⟩
  have hlen : (hdrBytes h recs.length ++ (recs ++ (Wire.le16 (write 0 recs) ++ tail))).length =
      (hdrBytes h recs.length).length + (recs ++ (Wire.le16 (write 0 recs) ++ tail)).length := by simp
  obtain ⟨s2, d1, d2, d3, d4, d5, d6, d7, c, d8, d9, d10⟩ := bridge_records tsKnown
    ((recs ++ (Wire.le16 (write 0 recs) ++ tail)).length + 1) DecState.fresh recs.length
    (recs ++ (Wire.le16 (write 0 recs) ++ tail)) items (Wire.le16 (write 0 recs) ++ tail) s1 msgs hdec hsim s1rest
    (by rw [DecApi.IsBytes.append, DecApi.IsBytes.append]; exact ⟨hrb, le16_bytes _, htail⟩)
    (by rw [s1hdr, hHds, s1cur]; rfl) (by rw [s1cur]; omega) (by rw [s1o]; exact ho) (by rw [s1o]; intro m; rfl)
    (by rw [s1o, s1look]; exact hgood)
  have hc : c = recs := List.append_cancel_right d8.symm
  rw [hc] at d9 d10
  -- the file CRC
  have hcw : write 0 recs < 2 ^ 16 := write_lt 0 (by decide) _
  have hcrc : decodeCRC s2 = .ok { s2 with rest := tail, q := { s2.q with crc := write 0 recs, crc16 := 0 } } := by
    unfold decodeCRC
    simp only [bind, Res.bind, pure]
    rw [rawRead_ok 2 s2 (by decide) (by rw [d2]; simp [Wire.le16])]
    simp only [d2, Wire.le16, List.cons_append, List.nil_append, List.take_succ_cons, List.take_zero, List.drop_succ_cons,
      List.drop_zero, idx, List.getElem?_cons_zero, List.getElem?_cons_succ, Res.bind]
    have hv : write 0 recs % 256 + 256 * (write 0 recs / 256 % 256) = write 0 recs := by omega
    have hne : ¬ (s2.o.chk = true ∧ s2.q.crc16 ≠ write 0 recs) := by
      rintro ⟨hchk, hne⟩
      rw [d10, s1o, d4, s1o] at *
      rw [hchk] at hne
      simp only [↓reduceIte, s1crc] at hne
      exact hne rfl
    simp only [hv, hne, ↓reduceIte]
  -- assemble
  have hfuel : fuelOf s1 = (recs ++ (Wire.le16 (write 0 recs) ++ tail)).length + 1 := by simp [fuelOf, s1rest]
  refine ⟨⟨H, msgs, write 0 recs⟩, ?_, hmatch, by rw [← hH], by rw [← hH], by rw [← hH], hexact⟩
  unfold stepDecode
  simp only [St.fresh]
  unfold decodeBody headerOnce
  simp only [Bool.false_eq_true, ↓reduceIte]
  simp only [St.fresh] at hhdr hs1
  rw [hhdr]
  simp only
  rw [hs1, hfuel, d1]
  simp only
  rw [hcrc]
  simp only [release, resetSeq, d3, s1msgs, List.append_nil, List.reverse_reverse, d5, s1hdr, d4, s1o]

/-! ### chained files: the `Next` / `Decode` loop -/

/-- everything the theorems need of one file: the wire-level typing (`FitOK`, `MsgTyped`), what validation guarantees
(`KeptOK`), the typing assumptions (`MsgDom`) -/
structure FileOK (o : DecApi.Opts) (w : Wire.Opts) (h : Wire.Hdr) (kept : List Message) : Prop where
  fit : FitOK w h (kept.map (toWire w.arch))
  typed : ∀ m ∈ kept.map (toWire w.arch), MsgTyped m
  keptOK : KeptOK {} kept
  dom : ∀ m ∈ kept, MsgDom o.fac m
  pv : h.protoVer < 256

def chainBytes (w : Wire.Opts) (files : List (Wire.Hdr × List Message)) : List Nat :=
  files.flatMap fun f => encodeFit w f.1 (f.2.map (toWire w.arch))

theorem hdrBytes_bytes (h : Wire.Hdr) (ds : Nat) (hs : h.size = 12 ∨ h.size = 14) (hpv : h.protoVer < 256) :
    DecApi.IsBytes (hdrBytes h ds) := by
  intro b hb
  have hcrc : write 0 ([h.size, h.protoVer] ++ Wire.le16 h.profileVer ++ Wire.le32 ds ++ [0x2E, 0x46, 0x49, 0x54]) < 2 ^ 16 :=
    write_lt 0 (by decide) _
  simp only [hdrBytes] at hb
  split at hb
  · simp only [Wire.le16, Wire.le32, List.mem_append, List.mem_cons, List.not_mem_nil, or_false] at hb
    rcases hs with h1 | h1 <;> omega
  · simp only [Wire.le16, Wire.le32, List.mem_append, List.mem_cons, List.not_mem_nil, or_false] at hb
    rcases hs with h1 | h1 <;> omega

theorem encodeFit_bytes (o : DecApi.Opts) (w : Wire.Opts) (hw : OptsOK w) (h : Wire.Hdr) (kept : List Message)
    (hf : FileOK o w h kept) : DecApi.IsBytes (encodeFit w h (kept.map (toWire w.arch))) := by
  simp only [encodeFit]
  rw [DecApi.IsBytes.append, DecApi.IsBytes.append]
  refine ⟨⟨hdrBytes_bytes h _ hf.fit.size hf.pv, ?_⟩, le16_bytes _⟩
  exact encodeMsgs_bytes (fun _ => false) w hw.arch _ (freshEnc w) DecState.fresh
    (fun m hm => ⟨hf.fit.msgs m hm, hf.typed m hm⟩) (DefInv.fresh w.arch w.lruCap hw.capPos hw.cap16 _) hw.cap4 (fun _ => Or.inl rfl)

theorem chainBytes_bytes (o : DecApi.Opts) (w : Wire.Opts) (hw : OptsOK w) (files : List (Wire.Hdr × List Message))
    (hf : ∀ f ∈ files, FileOK o w f.1 f.2) : DecApi.IsBytes (chainBytes w files) := by
  intro b hb
  obtain ⟨f, hfm, hb⟩ := List.mem_flatMap.mp hb
  exact encodeFit_bytes o w hw f.1 f.2 (hf f hfm) b hb

theorem encodeFit_pos (w : Wire.Opts) (h : Wire.Hdr) (ms : List WMsg) : 0 < (encodeFit w h ms).length := by
  simp only [encodeFit, hdrBytes, List.length_append]
  split <;> simp [Wire.le16, Wire.le32]

/-- `Decode` after `Next` has read the header is `Decode` -/
theorem stepDecode_of_header (s s1 : St) (he : s.q.err = none) (h : headerOnce s = .ok s1) (hd : s1.q.hdrDone = true)
    (he1 : s1.q.err = none) : stepDecode s1 = stepDecode s := by
  unfold stepDecode decodeBody
  rw [he, he1, h, headerOnce_done s1 hd he1]

/-- `Next` at the start of an encoder-written sequence (not the first one) reads its header -/
theorem headerOnce_fresh_ok (o : DecApi.Opts) (w : Wire.Opts) (h : Wire.Hdr) (ms : List WMsg) (tail : List Nat)
    (hf : FitOK w h ms) :
    ∃ s1, headerOnce (St.fresh o (encodeFit w h ms ++ tail)) = .ok s1 ∧ s1.q.hdrDone = true ∧ s1.q.err = none := by
  have hn : (encodeMsgs w (freshEnc w) ms).length < 4294967296 := hf.small
  have hpos := encodeMsgs_pos w (freshEnc w) ms hf.nonempty
  have hhdr := decodeFileHeader_hdrBytes (St.fresh o (encodeFit w h ms ++ tail)) h (encodeMsgs w (freshEnc w) ms).length
    (encodeMsgs w (freshEnc w) ms ++ Wire.le16 (write 0 (encodeMsgs w (freshEnc w) ms)) ++ tail)
    (by simp [St.fresh, encodeFit, Nat.mod_eq_of_lt hn]) rfl hf.size hf.profile hpos hn
  unfold headerOnce
  simp only [St.fresh, Bool.false_eq_true, ↓reduceIte] at hhdr ⊢
  rw [hhdr]
  exact ⟨_, rfl, rfl, rfl⟩

theorem headerOnce_empty (o : DecApi.Opts) : headerOnce (St.fresh o []) = .err .eof := by
  unfold headerOnce decodeFileHeader rawRead
  simp [St.fresh, Fit.Integrity.hasN, reservedbuf, bind, Res.bind]

/-- a decoded sequence matches a file: its messages are the file's validated messages, each in one of its allowed forms,
under the file's header -/
def FitMatch (o : DecApi.Opts) (w : Wire.Opts) (file : Wire.Hdr × List Message) (f : DecApi.Fit) : Prop :=
  seqMatches reread true o.fac w.arch {} file.2 (f.msgs.map proj) = true ∧
    f.hdr.size = file.1.size ∧ f.hdr.protoVer = file.1.protoVer ∧ f.hdr.profileVer = file.1.profileVer ∧
    f.msgs.map proj = actualSeq o.fac w file.2

/-- **The `for dec.Next() { dec.Decode() }` loop over a chain** returns one matching sequence per file, in order, and
ends without error. -/
theorem decodeLoop_chain (o : DecApi.Opts) (w : Wire.Opts) (ho : PlainOpts o) (hw : OptsOK w) (hfac : facOKB o.fac = true) :
    ∀ (files : List (Wire.Hdr × List Message)) (a : Api) (fuel : Nat),
    a.d = St.fresh o (chainBytes w files) → (a.n = 0 → files ≠ []) → files.length < fuel →
    (∀ f ∈ files, FileOK o w f.1 f.2) → (chainBytes w files).length < 4294967296 →
    ∃ fits, decodeLoop fuel a = (fits, none) ∧ AllMatch (FitMatch o w) files fits := by
  intro files
  induction files with
  | nil =>
    intro a fuel had hn hfuel _ _
    have hn0 : (a.n == 0) = false := by
      cases h : a.n == 0
      · rfl
      · exact absurd rfl (hn (by simpa using h))
    cases fuel with
    | zero => omega
    | succ fuel =>
      refine ⟨[], ?_, AllMatch.nil⟩
      simp only [decodeLoop, DecApi.step, stepNext, hn0, had, chainBytes, List.flatMap_nil, Bool.false_eq_true, ↓reduceIte]
      rw [headerOnce_empty]
      rfl
  | cons file files ih =>
    intro a fuel had hn hfuel hok hsmall
    cases fuel with
    | zero => omega
    | succ fuel =>
      have hfile := hok file (by simp)
      have hcb : chainBytes w (file :: files) = encodeFit w file.1 (file.2.map (toWire w.arch)) ++ chainBytes w files := by
        simp [chainBytes]
      rw [hcb] at had hsmall
      obtain ⟨f, hdec, hmatch, hh1, hh2, hh3, hh4⟩ := decode_sequence o w file.1 file.2 (chainBytes w files) ho hw hfile.fit hfile.typed
        (chainBytes_bytes o w hw files (fun g hg => hok g (List.mem_cons_of_mem _ hg))) hsmall hfac hfile.keptOK hfile.dom
      have hpos := encodeFit_pos w file.1 (file.2.map (toWire w.arch))
      -- the state after `Next`, and `Decode` from there
      have hnext : ∃ a1, DecApi.step a .next = (a1, .bool true, []) ∧ stepDecode a1.d = stepDecode a.d ∧
          a1.n + (a1.d.rest.length - (chainBytes w files).length) ≠ 0 := by
        by_cases hz : a.n = 0
        · refine ⟨a, ?_, rfl, ?_⟩
          · have he : a.d.q.err = none := by rw [had]; rfl
            simp only [DecApi.step, stepNext, he, hz, beq_self_eq_true, ↓reduceIte, Api.advance_same]
          · rw [had]; simp only [St.fresh, List.length_append]; omega
        · have hz' : (a.n == 0) = false := by simpa using hz
          obtain ⟨s1, hs1, hd1, he1⟩ := headerOnce_fresh_ok o w file.1 (file.2.map (toWire w.arch)) (chainBytes w files) hfile.fit
          refine ⟨a.advance s1, ?_, ?_, ?_⟩
          · simp only [DecApi.step, stepNext, hz', had, Bool.false_eq_true, ↓reduceIte, hs1]
            rfl
          · simp only [Api.advance]
            rw [had]
            exact stepDecode_of_header _ s1 rfl hs1 hd1 he1
          · simp only [Api.advance]; omega
      obtain ⟨a1, hn1, hd1, hne1⟩ := hnext
      rw [had] at hd1
      obtain ⟨fits, hl, hm⟩ := ih (a1.advance (St.fresh o (chainBytes w files))) fuel rfl
        (by intro h0; simp only [Api.advance, St.fresh] at h0; exact absurd h0 hne1) (by simp at hfuel; omega)
        (fun g hg => hok g (List.mem_cons_of_mem _ hg)) (by rw [List.length_append] at hsmall; omega)
      refine ⟨f :: fits, ?_, AllMatch.cons ⟨hmatch, hh1, hh2, hh3, hh4⟩ hm⟩
      simp only [decodeLoop, hn1]
      simp only [DecApi.step, hd1, hdec, hl]

/-! ### what the gate lets through (C10) -/

open Fit.Validator in
theorem keptOK_of_validateAll (D : Discard) (vo : Options) : ∀ (ms : List Message) (st : State) (kept : List Message),
    validateAll D vo st ms = .ok kept → KeptOK st kept ∧ kept.length = ms.length := by
  intro ms
  induction ms with
  | nil =>
    intro st kept h
    simp only [validateAll, Except.ok.injEq] at h
    subst h
    exact ⟨trivial, rfl⟩
  | cons m ms ih =>
    intro st kept h
    simp only [validateAll] at h
    cases hv : validate D vo st m with
    | mk r st' =>
      rw [hv] at h
      cases r with
      | error e => simp at h
      | ok m' =>
        simp only at h
        cases hr : validateAll D vo st' ms with
        | error e => rw [hr] at h; simp [Except.map] at h
        | ok kept' =>
          rw [hr] at h
          simp only [Except.map, Except.ok.injEq] at h
          subst h
          have hok : (validate D vo st m).1 = .ok m' := by rw [hv]
          obtain ⟨hlf, hld, _, hpf, hpd⟩ := Fit.C10.C10_post D vo st m m' hok
          have hst := validate_state D vo st m m' hok
          have hnum := (Fit.C10.C10_validate_filter D vo st m m' hok).1
          have hst' : st' = remember st m'.num m'.fields := by
            have : (validate D vo st m).2 = st' := by rw [hv]
            rw [← this, hst, hnum]
          obtain ⟨ih1, ih2⟩ := ih st' kept' hr
          refine ⟨⟨hlf, hld, ?_, ?_, by rw [← hst']; exact ih1⟩, by simp [ih2]⟩
          · intro f hf
            obtain ⟨b, hb, _, hal, _, hsz, _⟩ := hpf f hf
            exact ⟨b, hb, hal, hsz⟩
          · intro d hd
            obtain ⟨fd, hl, _, hal, _, hsz, _⟩ := hpd d hd
            rw [hst, ← hnum] at hl
            exact ⟨fd, hl, hal, hsz⟩

theorem btValid_wire (b : Nat) (h : btValid b = true) : Wire.validBaseType b = true := by
  have hm := (btValid_iff b).mp h
  simp only [baseTypeList, List.mem_cons, List.not_mem_nil, or_false] at hm
  rcases hm with h | h | h | h | h | h | h | h | h | h | h | h | h | h | h | h | h <;> subst h <;> decide

/-- the wire form of a validated message is well-typed -/
theorem toWire_ok (fac : Factory) (arch : Nat) (st : Fit.Validator.State) (m : Message) (ms : List Message)
    (hk : KeptOK st (m :: ms)) (hd : MsgDom fac m) : Wire.MsgOK (toWire arch m) ∧ MsgTyped (toWire arch m) := by
  obtain ⟨hlf, hld, hF, hD, _⟩ := hk
  have hfl : (m.fields.filterMap (toWField arch)).length ≤ m.fields.length := List.length_filterMap_le _ _
  have hmar : ∀ (v : Value) (bt : Nat), align v bt = true → ∃ bs, marshal v arch = some bs := by
    intro v bt hal
    cases hv : marshal v arch with
    | some bs => exact ⟨bs, rfl⟩
    | none =>
      have : v = .invalid := by cases hx : v <;> rw [hx] at hv <;> simp [marshal] at hv
      rw [this] at hal; simp [align] at hal
  have hfield : ∀ wf' ∈ (toWire arch m).fields, ∃ f ∈ m.fields, ∃ b bs, f.base = some b ∧ marshal f.value arch = some bs ∧
      wf' = ⟨b.num, b.baseType, typeOf f.value, bs⟩ := by
    intro wf' hwf'
    simp only [toWire, List.mem_filterMap] at hwf'
    obtain ⟨f, hf, htw⟩ := hwf'
    obtain ⟨b, hb, hal, _⟩ := hF f hf
    obtain ⟨bs, hm⟩ := hmar f.value b.baseType hal
    refine ⟨f, hf, b, bs, hb, hm, ?_⟩
    simp only [toWField, hb, hm, Option.getD_some, Option.some.injEq] at htw
    exact htw.symm
  refine ⟨⟨hd.num, by simp only [toWire]; omega, by simp only [toWire, List.length_map]; exact hld, ?_, ?_, ?_⟩, ⟨?_, ?_, ?_⟩⟩
  · intro wf' hwf'
    obtain ⟨f, hf, b, bs, hb, hm, rfl⟩ := hfield wf' hwf'
    obtain ⟨b', hb', hal, hsz⟩ := hF f hf
    rw [hb] at hb'; cases hb'
    exact ⟨by simp only; rw [marshal_length _ _ _ hm]; exact hsz, btValid_wire _ (align_valid _ _ hal)⟩
  · intro d hd'
    simp only [toWire, List.mem_map] at hd'
    obtain ⟨d0, hd0, rfl⟩ := hd'
    obtain ⟨fd, _, hal, hsz⟩ := hD d0 hd0
    obtain ⟨bs, hm⟩ := hmar d0.value fd.btId hal
    simp only [toWDev, hm, Option.getD_some]
    rw [marshal_length _ _ _ hm]; exact hsz
  · intro wf' hwf'
    obtain ⟨f, hf, b, bs, hb, hm, rfl⟩ := hfield wf' hwf'
    exact Fit.C06.C06_marshal_bytes f.value arch bs (hd.wff f hf) hm
  · intro wf' hwf'
    obtain ⟨f, hf, b, bs, hb, hm, rfl⟩ := hfield wf' hwf'
    exact hd.fnums f hf b hb
  · intro d hd'
    simp only [toWire, List.mem_map] at hd'
    obtain ⟨d0, hd0, rfl⟩ := hd'
    exact hd.dnums d0 hd0
  · intro d hd'
    simp only [toWire, List.mem_map] at hd'
    obtain ⟨d0, hd0, rfl⟩ := hd'
    obtain ⟨fd, _, hal, _⟩ := hD d0 hd0
    obtain ⟨bs, hm⟩ := hmar d0.value fd.btId hal
    simp only [toWDev, hm, Option.getD_some]
    exact Fit.C06.C06_marshal_bytes d0.value arch bs (hd.wfd d0 hd0) hm

theorem toWire_all (fac : Factory) (arch : Nat) : ∀ (kept : List Message) (st : Fit.Validator.State),
    KeptOK st kept → (∀ m ∈ kept, MsgDom fac m) →
    ∀ wm ∈ kept.map (toWire arch), Wire.MsgOK wm ∧ MsgTyped wm := by
  intro kept
  induction kept with
  | nil => intro _ _ _ wm h; cases h
  | cons m ms ih =>
    intro st hk hd wm hwm
    simp only [List.map_cons, List.mem_cons] at hwm
    rcases hwm with rfl | hwm
    · exact toWire_ok fac arch st m ms hk (hd m (by simp))
    · exact ih _ hk.2.2.2.2 (fun x hx => hd x (List.mem_cons_of_mem _ hx)) wm hwm

/-! ### outside the finding classes the code returns the normal form -/

theorem readAs_bt (fac : Factory) (m : Nat) (f : Field) (b : FieldBase) (hb : f.base = some b)
    (hag : agreeField fac m f = true) : (readAs fac m b f.value).1 = b.baseType := by
  simp only [agreeField, hb, Bool.and_eq_true, beq_iff_eq] at hag
  unfold readAs
  cases hk : (fac.create m b.num).known
  · simp [hk]
  · simp only [hk, Bool.not_true, Bool.false_or, Bool.and_eq_true, beq_iff_eq] at hag
    simp [hk, hag.2.1.1]

theorem fieldBack_normal (fac : Factory) (m : Nat) (f : Field) (hF : FieldOK f) (hwf : wf f.value = true)
    (hag : agreeField fac m f = true)
    (hz : fieldClass (fun _ _ _ v => kfZeroV v) fac m f = false) (ha : fieldClass kfArrV fac m f = false)
    (hc : fieldClass (fun _ _ _ v => kfFFFDV v) fac m f = false) :
    fieldBack reread true fac m f = fieldBack normalValue false fac m f := by
  obtain ⟨b, hb, hal, _⟩ := hF
  simp only [fieldClass, hb] at hz ha hc
  have hz' : size f.value ≠ 0 := by simpa [kfZeroV] using hz
  have hbt := readAs_bt fac m f b hb hag
  have hcl : cleanAll f.value = true := by
    simp only [kfFFFDV, Bool.or_eq_false_iff, Bool.not_eq_false'] at hc
    simp [cleanAll, hc.1, hc.2]
  simp only [fieldBack, hb, hz', decide_false, Bool.and_false, Bool.false_eq_true, ↓reduceIte, Bool.false_and, and_false,
    false_and]
  congr 2
  exact reread_eq_normal f.value _ _ _ hwf (by rw [hbt]; exact hal) hcl hz ha

theorem devBack_normal (fds : List Fit.Validator.FieldDesc) (d : DevField) (hwf : wf d.value = true)
    (hD : ∃ fd, Fit.Validator.lookupFd fds d = some fd ∧ align d.value fd.btId = true ∧ size d.value ≤ 255)
    (hz : devClass (fun _ _ _ v => kfZeroV v) fds d = false) (ha : devClass kfArrV fds d = false)
    (hc : devClass (fun _ _ _ v => kfFFFDV v) fds d = false) :
    devBack reread true fds d = devBack normalValue false fds d := by
  obtain ⟨fd, hl, hal, _⟩ := hD
  simp only [devClass, hl] at hz ha hc
  have hz' : size d.value ≠ 0 := by simpa [kfZeroV] using hz
  have hcl : cleanAll d.value = true := by
    simp only [kfFFFDV, Bool.or_eq_false_iff, Bool.not_eq_false'] at hc
    simp [cleanAll, hc.1, hc.2]
  simp only [devBack, hl, hz', decide_false, Bool.and_false, Bool.false_eq_true, ↓reduceIte, Bool.false_and, and_false,
    false_and]
  congr 2
  exact reread_eq_normal d.value _ _ _ hwf hal hcl hz ha

theorem filterMap_congr' {α β : Type} (g1 g2 : α → Option β) (l : List α) (h : ∀ x ∈ l, g1 x = g2 x) :
    l.filterMap g1 = l.filterMap g2 := by
  induction l with
  | nil => rfl
  | cons x xs ih =>
    simp only [List.filterMap_cons, h x (by simp)]
    rw [ih (fun y hy => h y (List.mem_cons_of_mem _ hy))]

/-- **Outside the three finding classes the code returns the normal form the property allows.** -/
theorem seqMatches_normal (fac : Factory) (arch : Nat) : ∀ (kept : List Message) (vst : Fit.Validator.State) (ns : List NMsg),
    KeptOK vst kept → (∀ m ∈ kept, MsgDom fac m) →
    seqClass (fun _ _ _ v => kfZeroV v) fac vst kept = false → seqClass kfArrV fac vst kept = false →
    seqClass (fun _ _ _ v => kfFFFDV v) fac vst kept = false →
    seqMatches reread true fac arch vst kept ns = true → seqMatches normalValue false fac arch vst kept ns = true := by
  intro kept
  induction kept with
  | nil => intro vst ns _ _ _ _ _ h; cases ns <;> simpa [seqMatches] using h
  | cons m ms ih =>
    intro vst ns hk hd hz ha hc h
    cases ns with
    | nil => simp [seqMatches] at h
    | cons n ns =>
      obtain ⟨_, _, hF, hD, hkr⟩ := hk
      have hdm := hd m (by simp)
      simp only [seqClass, Bool.or_eq_false_iff, List.any_eq_false] at hz ha hc
      simp only [seqMatches, Bool.and_eq_true] at h ⊢
      refine ⟨?_, ih _ ns hkr (fun x hx => hd x (List.mem_cons_of_mem _ hx)) hz.2 ha.2 hc.2 h.2⟩
      have hfe : ∀ fs : List Field, (∀ f ∈ fs, f ∈ m.fields) →
          fs.filterMap (fieldBack reread true fac m.num) = fs.filterMap (fieldBack normalValue false fac m.num) := by
        intro fs hsub
        apply filterMap_congr'
        intro f hf
        have hfm := hsub f hf
        exact fieldBack_normal fac m.num f (hF f hfm) (hdm.wff f hfm) (hdm.agree f hfm).2
          (by simpa using hz.1.1 f hfm) (by simpa using ha.1.1 f hfm) (by simpa using hc.1.1 f hfm)
      have hde : m.devFields.filterMap (devBack reread true (Fit.Validator.remember vst m.num m.fields).fds) =
          m.devFields.filterMap (devBack normalValue false (Fit.Validator.remember vst m.num m.fields).fds) := by
        apply filterMap_congr'
        intro d hd'
        exact devBack_normal _ d (hdm.wfd d hd') (hD d hd') (by simpa using hz.1.2 d hd') (by simpa using ha.1.2 d hd')
          (by simpa using hc.1.2 d hd')
      have : msgVariants normalValue false fac arch (Fit.Validator.remember vst m.num m.fields).fds m =
          msgVariants reread true fac arch (Fit.Validator.remember vst m.num m.fields).fds m := by
        simp only [msgVariants, hfe m.fields (fun f hf => hf), hfe (removeTs m.fields) (mem_removeTs m.fields), hde]
      rw [this]; exact h.1

/-- the deterministic form of `seqMatches_normal`: outside the three finding classes `seqBack` with the code's values is
`seqBack` with the normal form (same encoder decisions: they do not depend on how values are read back) -/
theorem seqBack_normal (fac : Factory) (w : Wire.Opts) : ∀ (kept : List Message) (st : SeqSt),
    KeptOK st.vst kept → (∀ m ∈ kept, MsgDom fac m) →
    seqClass (fun _ _ _ v => kfZeroV v) fac st.vst kept = false → seqClass kfArrV fac st.vst kept = false →
    seqClass (fun _ _ _ v => kfFFFDV v) fac st.vst kept = false →
    seqBack reread true fac w st kept = seqBack normalValue false fac w st kept := by
  intro kept
  induction kept with
  | nil => intro st _ _ _ _ _; rfl
  | cons m ms ih =>
    intro st hk hd hz ha hc
    obtain ⟨_, _, hF, hD, hkr⟩ := hk
    have hdm := hd m (by simp)
    simp only [seqClass, Bool.or_eq_false_iff, List.any_eq_false] at hz ha hc
    have hfe : ∀ fs : List Field, (∀ f ∈ fs, f ∈ m.fields) →
        fs.filterMap (fieldBack reread true fac m.num) = fs.filterMap (fieldBack normalValue false fac m.num) := by
      intro fs hsub
      apply filterMap_congr'
      intro f hf
      have hfm := hsub f hf
      exact fieldBack_normal fac m.num f (hF f hfm) (hdm.wff f hfm) (hdm.agree f hfm).2
        (by simpa using hz.1.1 f hfm) (by simpa using ha.1.1 f hfm) (by simpa using hc.1.1 f hfm)
    have hde : m.devFields.filterMap (devBack reread true (Fit.Validator.remember st.vst m.num m.fields).fds) =
        m.devFields.filterMap (devBack normalValue false (Fit.Validator.remember st.vst m.num m.fields).fds) := by
      apply filterMap_congr'
      intro d hd'
      exact devBack_normal _ d (hdm.wfd d hd') (hD d hd') (by simpa using hz.1.2 d hd') (by simpa using ha.1.2 d hd')
        (by simpa using hc.1.2 d hd')
    have hmb : msgBack reread true fac w st m = msgBack normalValue false fac w st m := by
      simp only [msgBack, hfe m.fields (fun f hf => hf), hfe (removeTs m.fields) (mem_removeTs m.fields), hde]
    simp only [seqBack, hmb]
    congr 1
    have hst : (msgBack normalValue false fac w st m).2.vst = Fit.Validator.remember st.vst m.num m.fields := by
      simp only [msgBack]
    exact ih _ (by rw [hst]; exact hkr) (fun x hx => hd x (List.mem_cons_of_mem _ hx)) (by rw [hst]; exact hz.2)
      (by rw [hst]; exact ha.2) (by rw [hst]; exact hc.2)

/-! ### the encoder's chain and the composition -/

/-- typing of the configuration: option combination of the wire model, header members fit their fields -/
structure CfgOK (c : Cfg) (files : List FileIn) : Prop where
  w : OptsOK c.w
  profile : c.profileVersion < 65536
  files : ∀ f ∈ files, f.hprofile < 65536 ∧ fileVersion c f < 256

/-- the files of a chain with what validation retained of each -/
def filesOf (c : Cfg) (files : List FileIn) (kepts : List (List Message)) : List (Wire.Hdr × List Message) :=
  (files.zip kepts).map fun p => (fileHdr c p.1, p.2)

theorem encodeChain_ok (c : Cfg) : ∀ (files : List FileIn) (i : Nat) (kepts : List (List Message)) (bytes : List Nat),
    encodeChain c files i = (kepts, bytes, none) →
    kepts.length = files.length ∧ bytes = chainBytes c.w (filesOf c files kepts) ∧
    ∀ p ∈ files.zip kepts, gate c p.1 = .ok p.2 := by
  intro files
  induction files with
  | nil =>
    intro i kepts bytes h
    simp only [encodeChain, Prod.mk.injEq] at h
    obtain ⟨rfl, rfl, _⟩ := h
    exact ⟨rfl, rfl, fun p hp => by cases hp⟩
  | cons f fs ih =>
    intro i kepts bytes h
    simp only [encodeChain] at h
    cases he : encodeFile c f with
    | error e => rw [he] at h; simp at h
    | ok pr =>
      obtain ⟨kept, bs⟩ := pr
      rw [he] at h
      simp only at h
      cases hr : encodeChain c fs (i + 1) with
      | mk ks rest =>
        obtain ⟨rest, e⟩ := rest
        rw [hr] at h
        simp only [Prod.mk.injEq] at h
        obtain ⟨rfl, rfl, rfl⟩ := h
        obtain ⟨i1, i2, i3⟩ := ih (i + 1) ks rest hr
        have hg : gate c f = .ok kept ∧ bs = encodeKept c f kept := by
          simp only [encodeFile] at he
          cases hgt : gate c f with
          | error e => rw [hgt] at he; cases he
          | ok k =>
            rw [hgt] at he
            simp only [Except.ok.injEq, Prod.mk.injEq] at he
            obtain ⟨rfl, rfl⟩ := he
            exact ⟨rfl, rfl⟩
        refine ⟨by simp [i1], ?_, ?_⟩
        · rw [hg.2, i2]
          simp [chainBytes, filesOf, encodeKept]
        · intro p hp
          simp only [List.zip_cons_cons, List.mem_cons] at hp
          rcases hp with rfl | hp
          · exact hg.1
          · exact i3 p hp

/-- a file that passed the gate is well-typed for the wire theorems, given the typing assumptions -/
theorem fileOK_of_gate (c : Cfg) (o : DecApi.Opts) (f : FileIn) (kept : List Message) (hw : OptsOK c.w)
    (hg : gate c f = .ok kept) (hdom : inDomain o.fac kept = true) (hp : c.profileVersion < 65536)
    (hf : f.hprofile < 65536 ∧ fileVersion c f < 256)
    (hsmall : (encodeMsgs c.w (freshEnc c.w) (kept.map (toWire c.w.arch))).length < 4294967296) :
    FileOK o c.w (fileHdr c f) kept := by
  obtain ⟨_, hmd⟩ := inDomain_unpack o.fac kept hdom
  -- the gate
  have hgate : f.msgs ≠ [] ∧ ∃ st, Fit.Validator.validateAll c.D c.vo st f.msgs = .ok kept ∧ st = {} := by
    simp only [gate] at hg
    split at hg
    · cases hg
    · rename_i hne
      refine ⟨by simpa [List.isEmpty_iff] using hne, ?_⟩
      simp only [Fit.Validator.gateBatch] at hg
      cases hpa : Fit.Validator.protoAll (fileVersion c f) f.msgs with
      | panic => rw [hpa] at hg; cases hg
      | err e => rw [hpa] at hg; cases hg
      | ok u =>
        rw [hpa] at hg
        simp only at hg
        cases hva : Fit.Validator.validateAll c.D c.vo {} f.msgs with
        | error e => rw [hva] at hg; cases hg
        | ok k =>
          rw [hva] at hg
          simp only [Except.ok.injEq] at hg
          subst hg
          exact ⟨_, hva, rfl⟩
  obtain ⟨hne, st, hva, rfl⟩ := hgate
  obtain ⟨hk, hlen⟩ := keptOK_of_validateAll c.D c.vo f.msgs {} kept hva
  have hall := toWire_all o.fac c.w.arch kept {} hk hmd
  have hkne : kept ≠ [] := by
    intro h; rw [h] at hlen
    cases hm : f.msgs with
    | nil => exact hne hm
    | cons _ _ => rw [hm] at hlen; simp at hlen
  refine ⟨⟨?_, ?_, by simpa using hkne, fun m hm => (hall m hm).1, hsmall⟩, fun m hm => (hall m hm).2, hk, hmd, ?_⟩
  · simp only [fileHdr, Wire.mkHdr]; split <;> simp
  · simp only [fileHdr, Wire.mkHdr]; split
    · exact hp
    · exact hf.1
  · simp only [fileHdr, Wire.mkHdr]; exact hf.2

theorem chainBytes_length_ge (w : Wire.Opts) (files : List (Wire.Hdr × List Message)) :
    files.length ≤ (chainBytes w files).length := by
  induction files with
  | nil => simp [chainBytes]
  | cons f fs ih =>
    have := encodeFit_pos w f.1 (f.2.map (toWire w.arch))
    simp only [chainBytes, List.flatMap_cons, List.length_append, List.length_cons] at ih ⊢
    omega

theorem mem_chain_length (w : Wire.Opts) (files : List (Wire.Hdr × List Message)) (f : Wire.Hdr × List Message) (hf : f ∈ files) :
    (encodeFit w f.1 (f.2.map (toWire w.arch))).length ≤ (chainBytes w files).length := by
  induction files with
  | nil => cases hf
  | cons g gs ih =>
    simp only [chainBytes, List.flatMap_cons, List.length_append]
    rcases List.mem_cons.mp hf with rfl | h
    · omega
    · have := ih h; simp only [chainBytes] at this; omega

/-- **End to end, as the code behaves.** Every accepted chain of files — validated by the real validator model, written
under any option combination — decodes (new decoder, any checksum setting, expansion off) to one sequence per file whose
messages are what validation retained, each field and developer field as `reread` says (`fieldBack` / `devBack`), each
message in one of the two places its timestamp may take. -/
theorem e2e_chain (c : Cfg) (o : DecApi.Opts) (files : List FileIn) (kepts : List (List Message)) (bytes : List Nat)
    (henc : encodeChain c files 0 = (kepts, bytes, none)) (hne : files ≠ [])
    (hc : CfgOK c files) (ho : PlainOpts o) (hdom : ∀ kept ∈ kepts, inDomain o.fac kept = true)
    (hsmall : bytes.length < 4294967296) :
    ∃ fits, decodeChain o bytes = (fits, none) ∧ AllMatch (FitMatch o c.w) (filesOf c files kepts) fits ∧
      ∀ file ∈ filesOf c files kepts, FileOK o c.w file.1 file.2 := by
  obtain ⟨hlen, hbytes, hgates⟩ := encodeChain_ok c files 0 kepts bytes henc
  have hfac : facOKB o.fac = true := by
    cases hk : kepts with
    | nil => rw [hk] at hlen; cases files <;> simp at hlen; exact absurd rfl hne
    | cons k ks => exact (inDomain_unpack o.fac k (hdom k (by rw [hk]; simp))).1
  have hfiles : ∀ file ∈ filesOf c files kepts, FileOK o c.w file.1 file.2 := by
    intro file hfile
    simp only [filesOf, List.mem_map] at hfile
    obtain ⟨p, hp, rfl⟩ := hfile
    have hk : p.2 ∈ kepts := (List.of_mem_zip hp).2
    have hf : p.1 ∈ files := (List.of_mem_zip hp).1
    refine fileOK_of_gate c o p.1 p.2 hc.w (hgates p hp) (hdom _ hk) hc.profile (hc.files _ hf) ?_
    have hm : (fileHdr c p.1, p.2) ∈ filesOf c files kepts := List.mem_map.mpr ⟨p, hp, rfl⟩
    have := mem_chain_length c.w (filesOf c files kepts) _ hm
    rw [← hbytes] at this
    simp only [encodeFit, List.length_append] at this
    omega
  have hfne : filesOf c files kepts ≠ [] := by
    cases files with
    | nil => exact absurd rfl hne
    | cons f fs =>
      cases kepts with
      | nil => simp at hlen
      | cons k ks => simp [filesOf]
  obtain ⟨fits, h1, h2⟩ := decodeLoop_chain o c.w ho hc.w hfac (filesOf c files kepts) (Api.fresh o bytes) (bytes.length + 1)
    (by rw [hbytes]; rfl) (fun _ => hfne) (by have := chainBytes_length_ge c.w (filesOf c files kepts); rw [← hbytes] at this; omega)
    hfiles (by rw [← hbytes]; exact hsmall)
  exact ⟨fits, h1, h2, hfiles⟩

end Fit.E2E
