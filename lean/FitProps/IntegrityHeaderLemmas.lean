import FitProps.IntegrityAsBuiltLemmas
/-!
Helper lemmas for C04's theorems about the 14 HEADER bytes of an intact file: which replacements of the header the
decoder's header step refuses (size byte, CRC field against the twelve bytes before it), what a burst within 16 bits
does to the header's CRC residue, the size byte reading 12, and the one corruption that is not detected — the CRC
field reading 0x0000 — together with the reference's verdict on it.
-/
namespace Fit.Integrity
open Fit.Crc Fit.Gen.Integ

theorem header_badsize (chk : Bool) (size : Nat) (x : List Nat) (h12 : size ≠ 12) (h14 : size ≠ 14) :
    decodeFileHeader chk (size :: x) = .error .notFit := by
  unfold decodeFileHeader
  simp [h12, h14]

/-- a 14-byte header whose CRC field is neither zero nor the CRC of its first twelve bytes is refused, whatever follows -/
theorem header14_error (a1 a2 a3 a4 a5 a6 a7 a8 a9 a10 a11 k0 k1 : Nat) (x : List Nat)
    (hb : Bytes [14, a1, a2, a3, a4, a5, a6, a7, a8, a9, a10, a11])
    (hk0 : k0 + 256 * k1 ≠ 0)
    (hk : k0 + 256 * k1 ≠ crcSpec 0 [14, a1, a2, a3, a4, a5, a6, a7, a8, a9, a10, a11]) :
    ∃ e, decodeFileHeader true (14 :: a1 :: a2 :: a3 :: a4 :: a5 :: a6 :: a7 :: a8 :: a9 :: a10 :: a11 :: k0 :: k1 :: x) = .error e := by
  have hw : write (write 0 [14]) [a1, a2, a3, a4, a5, a6, a7, a8, a9, a10, a11] =
      crcSpec 0 [14, a1, a2, a3, a4, a5, a6, a7, a8, a9, a10, a11] := by
    rw [← write_eq_spec _ hb 0 (by decide)]; rfl
  unfold decodeFileHeader
  simp only [hasN, List.take, List.drop, le32, le16, hw]
  repeat' split
  all_goals first
    | exact ⟨_, rfl⟩
    | (exfalso; simp_all; done)
    | (exfalso; omega)

theorem checkLoop_two (fuel seq x y : Nat) : ∀ n, checkLoop fuel seq [x, y] ≠ .ok n := by
  intro n
  cases fuel with
  | zero => simp [checkLoop]
  | succ fuel =>
    have : ∃ e, decodeFileHeader true [x, y] = .error e := by
      unfold decodeFileHeader
      by_cases h : x ≠ 12 ∧ x ≠ 14
      · exact ⟨.notFit, by simp [h]⟩
      · have hx : x = 12 ∨ x = 14 := by omega
        rcases hx with rfl | rfl <;> exact ⟨.eof, by simp [hasN]⟩
    obtain ⟨e, he⟩ := this
    unfold checkLoop
    simp [he]

end Fit.Integrity

namespace Fit.Crc

theorem xorL_append (a b c d : List Nat) (h : a.length = c.length) : xorL (a ++ b) (c ++ d) = xorL a c ++ xorL b d := by
  unfold xorL
  exact List.zipWith_append h

theorem xorL_zeros (xs : List Nat) : xorL xs (List.replicate xs.length 0) = xs := by
  induction xs with
  | nil => rfl
  | cons a xs ih =>
    simp only [List.length_cons, List.replicate_succ, xorL, List.zipWith_cons_cons, Nat.xor_zero]
    exact congrArg _ ih

/-- the error pattern "these two bytes, `j` bytes into the string" is a burst within 16 bits -/
theorem burst_two (j n k0 k1 : Nat) (h0 : k0 < 256) (h1 : k1 < 256) (hne : k0 + 256 * k1 ≠ 0) :
    BurstWithin16 (List.replicate j 0 ++ [k0, k1] ++ List.replicate n 0) := by
  refine ⟨8 * j, k0 + 256 * k1, ?_, by omega, by omega⟩
  simp only [leVal_append, leVal_replicate_zero, List.length_replicate, leVal, List.length_append,
    List.length_cons, List.length_nil, Nat.mul_zero, Nat.add_zero, Nat.zero_add]
  rw [Nat.mul_comm]

end Fit.Crc

namespace Fit.Integrity
open Fit.Crc Fit.Gen.Integ

/-- a list of length 14, spelled out -/
theorem fourteen_of_length {l : List Nat} (h : l.length = 14) :
    ∃ b0 b1 b2 b3 b4 b5 b6 b7 b8 b9 b10 b11 b12 b13, l = [b0, b1, b2, b3, b4, b5, b6, b7, b8, b9, b10, b11, b12, b13] := by
  match l, h with
  | [b0, b1, b2, b3, b4, b5, b6, b7, b8, b9, b10, b11, b12, b13], _ =>
    exact ⟨b0, b1, b2, b3, b4, b5, b6, b7, b8, b9, b10, b11, b12, b13, rfl⟩

/-- the header of an intact file has CRC residue 0; a burst within 16 bits anywhere in its 14 bytes destroys that:
the corrupted CRC field is not the CRC of the corrupted first twelve bytes -/
theorem header_burst_crc {f : List Nat} (H : Intact14 f) (e : List Nat) (he : Bytes e) (hl : e.length = 14)
    (hb : BurstWithin16 e) :
    le16 ((xorL (f.take 14) e).drop 12) ≠ crcSpec 0 ((xorL (f.take 14) e).take 12) := by
  obtain ⟨pv, p0, p1, d0, d1, d2, d3, k0, k1, c0, c1, body, hf, hlen, hk, hc, hbf⟩ := H
  have htake : f.take 14 = [14, pv, p0, p1, d0, d1, d2, d3, 0x2E, 0x46, 0x49, 0x54] ++ [k0, k1] := by rw [hf]; rfl
  have hHb : Bytes (f.take 14) := hbf.take 14
  have hk0 : k0 < 256 := hbf k0 (by rw [hf]; simp)
  have hk1 : k1 < 256 := hbf k1 (by rw [hf]; simp)
  have hres : crcSpec 0 (f.take 14) = 0 := by
    rw [htake]; exact crc_header14_zero _ k0 k1 (by rw [htake] at hHb; exact hHb.left) hk0 hk1 hk
  have hl14 : (f.take 14).length = e.length := by rw [htake, hl]; rfl
  have hlin := crcSpec_linear (f.take 14) e hl14 0 0
  rw [Nat.xor_self, hres, Nat.zero_xor] at hlin
  have hnz : crcSpec 0 (xorL (f.take 14) e) ≠ 0 := by rw [hlin]; exact burst_nonzero e he hb
  have hxb := xorL_bytes _ _ hHb he
  have hxl : (xorL (f.take 14) e).length = 14 := by rw [xorL_length _ _ hl14, htake]; rfl
  obtain ⟨b0, b1, b2, b3, b4, b5, b6, b7, b8, b9, b10, b11, b12, b13, hX⟩ := fourteen_of_length hxl
  rw [hX] at hnz hxb ⊢
  intro h
  apply hnz
  have hb12 : b12 < 256 := hxb b12 (by simp)
  have hb13 : b13 < 256 := hxb b13 (by simp)
  have h12b : Bytes [b0, b1, b2, b3, b4, b5, b6, b7, b8, b9, b10, b11] := by
    intro x hx; apply hxb x
    simp only [List.mem_cons] at hx ⊢
    rcases hx with h | h | h | h | h | h | h | h | h | h | h | h | h
    all_goals first | (simp [h]; done) | (simp at h)
  exact (crc_eq_iff_residue_zero [b0, b1, b2, b3, b4, b5, b6, b7, b8, b9, b10, b11] h12b b12 b13 hb12 hb13).mpr h

/-- 14 bytes in the place of a header whose size byte does not read 12 and whose CRC field is neither zero nor the CRC
of the twelve bytes before it: the decoder refuses the header, whatever follows -/
theorem header_replaced_error (H' x : List Nat) (hb : Bytes H') (hl : H'.length = 14) (h12 : H'.head? ≠ some 12)
    (hk0 : le16 (H'.drop 12) ≠ 0) (hk : le16 (H'.drop 12) ≠ crcSpec 0 (H'.take 12)) :
    ∃ e, decodeFileHeader true (H' ++ x) = .error e := by
  obtain ⟨b0, b1, b2, b3, b4, b5, b6, b7, b8, b9, b10, b11, b12, b13, hX⟩ := fourteen_of_length hl
  subst hX
  by_cases h14 : b0 = 14
  · subst h14
    have h12b : Bytes [14, b1, b2, b3, b4, b5, b6, b7, b8, b9, b10, b11] := by
      intro x hx; apply hb x
      simp only [List.mem_cons] at hx ⊢
      rcases hx with h | h | h | h | h | h | h | h | h | h | h | h | h
      all_goals first | (simp [h]; done) | (simp at h)
    exact header14_error b1 b2 b3 b4 b5 b6 b7 b8 b9 b10 b11 b12 b13 x h12b hk0 hk
  · exact ⟨.notFit, header_badsize true b0 _ (by simpa using h12) h14⟩

end Fit.Integrity

namespace Fit.Integrity
open Fit.Crc Fit.Gen.Integ

/-- the size byte of an intact file reads 12 (and the three bytes after it anything): the header CRC becomes the first
two record bytes, the declared data size ends two bytes before the end of the file — whatever the records-only checksum
says, two bytes remain that are no sequence: `CheckIntegrity` rejects. -/
theorem size12_check_rejected {f : List Nat} (H : Intact14 f) (a b c : Nat) :
    ∀ n, checkIntegrity (12 :: a :: b :: c :: f.drop 4) ≠ .ok n := by
  obtain ⟨pv, p0, p1, d0, d1, d2, d3, k0, k1, c0, c1, body, hf, hlen, hk, hc, hbf⟩ := H
  intro n
  have hg : 12 :: a :: b :: c :: f.drop 4 =
      12 :: a :: b :: c :: d0 :: d1 :: d2 :: d3 :: 0x2E :: 0x46 :: 0x49 :: 0x54 :: (k0 :: k1 :: (body ++ [c0, c1])) := by
    rw [hf]; rfl
  rw [hg]
  have hev := header12_eval true a b c d0 d1 d2 d3 (k0 :: k1 :: (body ++ [c0, c1]))
  unfold checkIntegrity
  by_cases hD : d0 + 256 * d1 + 65536 * d2 + 16777216 * d3 = 0
  · rw [if_pos hD] at hev
    unfold checkLoop
    simp [hev]
  · rw [if_neg hD] at hev
    rw [checkLoop_step _ _ _ _ _ hev]
    simp only
    have hl : (k0 :: k1 :: (body ++ [c0, c1])).length = d0 + 256 * d1 + 65536 * d2 + 16777216 * d3 + 4 := by
      simp [hlen]
    rw [if_neg (by omega)]
    split
    · simp
    · obtain ⟨x, y, hxy⟩ := two_of_length (l := (k0 :: k1 :: (body ++ [c0, c1])).drop (d0 + 256 * d1 + 65536 * d2 + 16777216 * d3 + 2))
        (by rw [List.length_drop, hl]; omega)
      rw [hxy]
      exact checkLoop_two _ _ x y n

/-- THE UNDETECTED HEADER CORRUPTION: the CRC field of an intact file (non-zero before) reads 0x0000, everything else
untouched. The code skips the header check and judges the records alone: accepted as one sequence. By the integrity
rules the file CRC no longer matches the whole sequence: the reference rejects — the stream is in the class of KF-C04-1. -/
theorem crc_zeroed {f : List Nat} (H : Intact14 f) (hD : 16 < f.length)
    (hkz : le16 ((f.take 14).drop 12) ≠ 0) :
    checkIntegrity (f.take 12 ++ [0, 0] ++ f.drop 14) = .ok 1 ∧
    IntegritySpec.reference (f.take 12 ++ [0, 0] ++ f.drop 14) = .bad 0 := by
  obtain ⟨pv, p0, p1, d0, d1, d2, d3, k0, k1, c0, c1, body, hf, hlen, hk, hc, hbf⟩ := H
  obtain ⟨pv', p0', p1', d0', d1', d2', d3', k0', k1', rest, hfe, hH, hkc, hrl, hrb, hz⟩ :=
    intact_tail ⟨pv, p0, p1, d0, d1, d2, d3, k0, k1, c0, c1, body, hf, hlen, hk, hc, hbf⟩
  have hinj := hf.symm.trans hfe
  simp only [List.cons.injEq, true_and] at hinj
  obtain ⟨rfl, rfl, rfl, rfl, rfl, rfl, rfl, rfl, rfl, hrest'⟩ := hinj
  have hrest : rest = body ++ [c0, c1] := hrest'.symm
  clear hrest'
  have hD' : d0 + 256 * d1 + 65536 * d2 + 16777216 * d3 ≠ 0 := by
    rw [hfe] at hD; simp at hD; omega
  have hg : f.take 12 ++ [0, 0] ++ f.drop 14 =
      14 :: pv :: p0 :: p1 :: d0 :: d1 :: d2 :: d3 :: 0x2E :: 0x46 :: 0x49 :: 0x54 :: 0 :: 0 :: rest := by
    rw [hfe]; rfl
  constructor
  · rw [hg]
    have hev := header14_eval pv p0 p1 d0 d1 d2 d3 0 0 rest hH
    rw [if_neg hD', if_pos (by rfl)] at hev
    unfold checkIntegrity
    rw [checkLoop_step _ _ _ _ _ hev]
    simp only
    have hres := (residue_iff rest _ hrb hrl).mpr hz
    rw [if_neg (by omega), if_neg (by simp [hres])]
    have : rest.drop (d0 + 256 * d1 + 65536 * d2 + 16777216 * d3 + 2) = [] := by
      apply List.eq_nil_of_length_eq_zero; simp; omega
    rw [this]
    exact checkLoop_nil _ _ (by decide)
  · -- the reference: the stored file CRC is that of header-with-its-CRC ++ records; with the CRC field zeroed the
    -- checksum of the whole sequence differs (the difference is a burst of 16 bits)
    have hk0 : k0 < 256 := hbf k0 (by rw [hfe]; simp)
    have hk1 : k1 < 256 := hbf k1 (by rw [hfe]; simp)
    have hkne : k0 + 256 * k1 ≠ 0 := by
      have : (f.take 14).drop 12 = [k0, k1] := by rw [hfe]; rfl
      rw [this] at hkz; exact hkz
    have hbody : Bytes body := by rw [hrest] at hrb; exact hrb.left
    let xs := [14, pv, p0, p1, d0, d1, d2, d3, 0x2E, 0x46, 0x49, 0x54] ++ [k0, k1] ++ body
    let e := List.replicate 12 0 ++ [k0, k1] ++ List.replicate body.length 0
    have hxe : xorL xs e = [14, pv, p0, p1, d0, d1, d2, d3, 0x2E, 0x46, 0x49, 0x54] ++ [0, 0] ++ body := by
      show xorL (_ ++ _ ++ _) (_ ++ _ ++ _) = _
      rw [xorL_append _ _ _ _ (by simp), xorL_append _ _ _ _ (by simp), xorL_zeros body]
      have : xorL [14, pv, p0, p1, d0, d1, d2, d3, 0x2E, 0x46, 0x49, 0x54] (List.replicate 12 0) = _ :=
        xorL_zeros [14, pv, p0, p1, d0, d1, d2, d3, 0x2E, 0x46, 0x49, 0x54]
      rw [this]
      simp [xorL]
    have heb : Bytes e := ((Bytes.replicate_zero 12).append (Bytes.cons hk0 (Bytes.cons hk1 Bytes.nil))).append (Bytes.replicate_zero _)
    have hdet := burst_detected xs e heb (by simp [xs, e]) (burst_two 12 body.length k0 k1 hk0 hk1 hkne) 0
    rw [hxe] at hdet
    have hcw : c0 + 256 * c1 = crcSpec 0 xs := by
      rw [hc]; congr 1
      rw [hf]
      show List.take (14 + body.length) (([14, pv, p0, p1, d0, d1, d2, d3, 0x2E, 0x46, 0x49, 0x54] ++ [k0, k1]) ++ (body ++ [c0, c1])) = _
      rw [show 14 + body.length = ([14, pv, p0, p1, d0, d1, d2, d3, 0x2E, 0x46, 0x49, 0x54] ++ [k0, k1]).length + body.length from rfl,
        List.take_length_add_append, List.take_left' rfl]
    rw [hg, hrest]
    have hdropn : (14 :: pv :: p0 :: p1 :: d0 :: d1 :: d2 :: d3 :: 0x2E :: 0x46 :: 0x49 :: 0x54 :: 0 :: 0 :: (body ++ [c0, c1])).drop
        (14 + (d0 + 256 * d1 + 65536 * d2 + 16777216 * d3)) = [c0, c1] := by
      rw [← hlen, Nat.add_comm]; simp [List.drop_succ_cons]
    have htaken : (14 :: pv :: p0 :: p1 :: d0 :: d1 :: d2 :: d3 :: 0x2E :: 0x46 :: 0x49 :: 0x54 :: 0 :: 0 :: (body ++ [c0, c1])).take
        (14 + (d0 + 256 * d1 + 65536 * d2 + 16777216 * d3)) =
        [14, pv, p0, p1, d0, d1, d2, d3, 0x2E, 0x46, 0x49, 0x54] ++ [0, 0] ++ body := by
      rw [← hlen, Nat.add_comm]; simp [List.take_succ_cons]
    have hne' : ¬ c0 + 256 * c1 =
        crcSpec 0 ([14, pv, p0, p1, d0, d1, d2, d3, 0x2E, 0x46, 0x49, 0x54] ++ [0, 0] ++ body) := by
      rw [hcw]; exact fun h => hdet h.symm
    unfold IntegritySpec.reference IntegritySpec.refLoop
    have hph : FitFormat.parseHeader (14 :: pv :: p0 :: p1 :: d0 :: d1 :: d2 :: d3 :: 0x2E :: 0x46 :: 0x49 :: 0x54 :: 0 :: 0 :: (body ++ [c0, c1])) =
        some ⟨14, pv, FitFormat.le16 p0 p1, d0 + 256 * d1 + 65536 * d2 + 16777216 * d3, some 0⟩ := by
      simp [FitFormat.parseHeader, FitFormat.tag, FitFormat.le32, FitFormat.le16]
    have hsv : IntegritySpec.seqValid (14 :: pv :: p0 :: p1 :: d0 :: d1 :: d2 :: d3 :: 0x2E :: 0x46 :: 0x49 :: 0x54 :: 0 :: 0 :: (body ++ [c0, c1])) = none := by
      unfold IntegritySpec.seqValid
      rw [hph]
      simp only [hD', if_false, IntegritySpec.headerCrcBad, ne_eq, not_true_eq_false, decide_false, Bool.false_and,
        Bool.false_eq_true]
      rw [hdropn, htaken]
      simp only [FitFormat.le16, hne', if_false]
    simp [hsv]

end Fit.Integrity
