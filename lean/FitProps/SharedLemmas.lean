import FitModel.Shared
/-! Lemmas for C15: invariants of the interleaving semantics of `Fit.Shared` and the simulation of every thread by its
solo run. -/
namespace Fit.Shared

/-! ### small facts -/

@[simp] theorem upd_same {α : Type} (f : Nat → α) (i : Nat) (v : α) : upd f i v i = v := by simp [upd]

theorem upd_other {α : Type} (f : Nat → α) (i j : Nat) (v : α) (h : j ≠ i) : upd f i v j = f j := by simp [upd, h]

theorem removeNth_mem {l : List Nat} {i : Nat} {a : Nat} (h : a ∈ removeNth l i) : a ∈ l := by
  induction l generalizing i with
  | nil => simp [removeNth] at h
  | cons x xs ih =>
    cases i with
    | zero => simp [removeNth] at h; exact List.mem_cons_of_mem _ h
    | succ n =>
      simp [removeNth] at h
      rcases h with h | h
      · simp [h]
      · exact List.mem_cons_of_mem _ (ih h)

theorem removeNth_nodup {l : List Nat} (i : Nat) (h : l.Nodup) : (removeNth l i).Nodup := by
  induction l generalizing i with
  | nil => simp [removeNth]
  | cons x xs ih =>
    cases i with
    | zero => simp [removeNth]; exact (List.nodup_cons.mp h).2
    | succ n =>
      simp only [removeNth]
      have hx := List.nodup_cons.mp h
      exact List.nodup_cons.mpr ⟨fun hm => hx.1 (removeNth_mem hm), ih n hx.2⟩

/-- the element taken out of a duplicate-free list is no longer in it -/
theorem removeNth_not_mem {l : List Nat} (n : Nat) (h : l.Nodup) (hn : n < l.length) : l.getD n 0 ∉ removeNth l n := by
  induction l generalizing n with
  | nil => simp at hn
  | cons x xs ih =>
    have hx := List.nodup_cons.mp h
    cases n with
    | zero => simp [removeNth]; exact hx.1
    | succ m =>
      simp only [removeNth, List.getD_cons_succ]
      have hm : m < xs.length := by simpa using hn
      intro hmem
      rcases List.mem_cons.mp hmem with h1 | h1
      · have : xs.getD m 0 ∈ xs := by
          simp [List.getD, List.getElem?_eq_getElem hm]
        exact hx.1 (h1 ▸ this)
      · exact ih m hx.2 hm h1

theorem getD_mem_of_lt {l : List Nat} {n : Nat} (hn : n < l.length) : l.getD n 0 ∈ l := by
  simp [List.getD, List.getElem?_eq_getElem hn]

theorem overlay_take (vals a : List Nat) : (overlay vals a).take vals.length = vals := by
  simp [overlay]

@[simp] theorem overlay_nil_right (vals : List Nat) : overlay vals [] = vals := by simp [overlay]

/-! ### well-formedness of the part still to do -/

theorem wfRun_append (env : Env) (xs ys : List Act) (w : WfSt) :
    wfRun env (xs ++ ys) w = (wfRun env xs w).bind (wfRun env ys) := by
  induction xs generalizing w with
  | nil => simp [wfRun]
  | cons a rest ih =>
    simp only [List.cons_append, wfRun]
    cases h : wfStep env a w with
    | none => simp
    | some w' => simp [ih]

theorem soloRun_snoc (env : Env) (cell0 : Nat → Nat) (opts0 : Nat → Option Nat) (xs : List Act) (a : Act) :
    soloRun env cell0 opts0 (xs ++ [a]) = soloStep env cell0 opts0 a (soloRun env cell0 opts0 xs) := by
  simp [soloRun, List.foldl_append]

/-- layer A: every thread's completed actions are a well-formed prefix and the rest continues it -/
def WfCont (env : Env) (t : Thread) : Prop :=
  ∃ w, wfRun env t.done initWf = some w ∧ (wfRun env t.todo w).isSome

theorem wfCont_init (env : Env) (p : List Act) (h : wf env p = true) :
    WfCont env { priv := initPriv, done := [], todo := p } := by
  refine ⟨initWf, by simp [wfRun], ?_⟩
  simpa [wf] using h

/-- popping the head action keeps layer A, and exposes the discipline state before and after it -/
theorem wfCont_pop (env : Env) (p : Priv) (d : List Act) (a : Act) (rest : List Act) (p' : Priv)
    (h : WfCont env { priv := p, done := d, todo := a :: rest }) :
    ∃ w w', wfRun env d initWf = some w ∧ wfStep env a w = some w' ∧ wfRun env (d ++ [a]) initWf = some w' ∧
      (wfRun env rest w').isSome ∧ WfCont env { priv := p', done := d ++ [a], todo := rest } := by
  obtain ⟨w, hw, hrest⟩ := h
  simp only [wfRun] at hrest
  cases hs : wfStep env a w with
  | none => simp [hs] at hrest
  | some w' =>
    simp [hs] at hrest
    have hd : wfRun env (d ++ [a]) initWf = some w' := by
      rw [wfRun_append, hw]; simp [wfRun, hs]
    exact ⟨w, w', hw, hs, hd, by simpa using hrest, ⟨w', hd, by simpa using hrest⟩⟩

/-! ### the invariant -/

/-- a `Once` row and the rows it builds: after `done` they have their built content; while the closure runs, the rows
already filled have it -/
def OnceOK (env : Env) (sh : Sh) (o : Nat) : Prop :=
  match sh.once o with
  | .idle => True
  | .running _ k => k ≤ closureLen env o ∧
      ∀ idx r, 2 * idx + 1 < k → (env.body o)[idx]? = some r → sh.cell r = env.built r
  | .done => ∀ r ∈ env.body o, sh.cell r = env.built r

/-- what is true of one thread: its completed actions are a well-formed prefix that the rest continues, what it has
observed is what its solo run observes, it holds an object exactly when its program says so, a held object whose content
its own actions determine has that content, and every `Once` it went through is done -/
def TI (env : Env) (cell0 : Nat → Nat) (opts0 : Nat → Option Nat) (sh : Sh) (t : Thread) : Prop :=
  ∃ w, wfRun env t.done initWf = some w ∧ (wfRun env t.todo w).isSome ∧
    t.priv.out = (soloRun env cell0 opts0 t.done).out ∧
    t.priv.held.isSome = w.holding ∧ (soloRun env cell0 opts0 t.done).holding = w.holding ∧
    (w.clean = true → ∃ c, (soloRun env cell0 opts0 t.done).known = some c ∧ ∀ id, t.priv.held = some id → sh.heap id = c) ∧
    (∀ o, o ∈ w.seen → sh.once o = .done)

structure Inv (env : Env) (cell0 : Nat → Nat) (opts0 : Nat → Option Nat) (cfg : Cfg) : Prop where
  opts : cfg.sh.opts = opts0
  ro : ∀ r, env.onceOf r = none → cfg.sh.cell r = cell0 r
  once : ∀ o, OnceOK env cfg.sh o
  /-- no two threads hold the same object -/
  hh : ∀ (i j : Nat) (t t' : Thread) (id : Nat), cfg.threads[i]? = some t → cfg.threads[j]? = some t' → t.priv.held = some id →
    t'.priv.held = some id → i = j
  /-- a held object is in no pool -/
  hp : ∀ (i : Nat) (t : Thread) (id q : Nat), cfg.threads[i]? = some t → t.priv.held = some id → id ∉ cfg.sh.pool q
  /-- an object is in a pool at most once, and in one pool only -/
  pn : ∀ q, (cfg.sh.pool q).Nodup
  pd : ∀ q1 q2 id, q1 ≠ q2 → id ∈ cfg.sh.pool q1 → id ∉ cfg.sh.pool q2
  /-- identities in use are below the allocation counter -/
  fh : ∀ (i : Nat) (t : Thread) (id : Nat), cfg.threads[i]? = some t → t.priv.held = some id → id < cfg.sh.next
  fp : ∀ q id, id ∈ cfg.sh.pool q → id < cfg.sh.next
  thr : ∀ (i : Nat) (t : Thread), cfg.threads[i]? = some t → TI env cell0 opts0 cfg.sh t

/-- well-formed initial shared state: no `Once` closure is in flight (each is untouched or done, with its rows built),
pools hold each object once, identities are below the allocation counter -/
def ShOK (env : Env) (sh0 : Sh) : Prop :=
  (∀ o, sh0.once o = .idle ∨ (sh0.once o = .done ∧ ∀ r ∈ env.body o, sh0.cell r = env.built r)) ∧
  (∀ q, (sh0.pool q).Nodup) ∧ (∀ q1 q2 id, q1 ≠ q2 → id ∈ sh0.pool q1 → id ∉ sh0.pool q2) ∧
  (∀ q id, id ∈ sh0.pool q → id < sh0.next)

theorem inv_init (env : Env) (progs : List (List Act)) (sh0 : Sh) (h0 : ShOK env sh0)
    (hwf : ∀ p ∈ progs, wf env p = true) : Inv env sh0.cell sh0.opts (initCfg progs sh0) := by
  obtain ⟨ho, hn, hd, hf⟩ := h0
  have hthr : ∀ (i : Nat) (t : Thread), (initCfg progs sh0).threads[i]? = some t → t.priv = initPriv ∧ t.done = [] ∧ t.todo ∈ progs := by
    intro i t ht
    simp only [initCfg, List.getElem?_map] at ht
    cases hp : progs[i]? with
    | none => simp [hp] at ht
    | some p =>
      simp [hp] at ht
      subst ht
      exact ⟨rfl, rfl, List.mem_of_getElem? hp⟩
  refine { opts := rfl, ro := fun _ _ => rfl, once := ?_, hh := ?_, hp := ?_, pn := hn, pd := hd, fh := ?_, fp := hf, thr := ?_ }
  · intro o
    unfold OnceOK
    rcases ho o with h | ⟨h, hb⟩
    · simp [initCfg, h]
    · simp [initCfg, h]; exact hb
  · intro i j t t' id ht _ hh _
    have := (hthr i t ht).1
    simp [this, initPriv] at hh
  · intro i t id q ht hh
    have := (hthr i t ht).1
    simp [this, initPriv] at hh
  · intro i t id ht hh
    have := (hthr i t ht).1
    simp [this, initPriv] at hh
  · intro i t ht
    obtain ⟨hp, hd', hm⟩ := hthr i t ht
    refine ⟨initWf, by simp [hd', wfRun], ?_, ?_, ?_, ?_, ?_, ?_⟩
    · have := hwf _ hm
      simpa [wf] using this
    · simp [hp, hd', initPriv, soloRun, initSolo]
    · simp [hp, initPriv, initWf]
    · simp [hd', soloRun, initSolo, initWf]
    · simp [initWf]
    · simp [initWf]

theorem getElem?_set_thread (l : List Thread) (i j : Nat) (x t : Thread) (h : (l.set i x)[j]? = some t) :
    (j = i ∧ t = x ∧ i < l.length) ∨ (j ≠ i ∧ l[j]? = some t) := by
  rw [List.getElem?_set] at h
  by_cases hij : i = j
  · subst hij
    simp at h
    left; exact ⟨rfl, h.2.symm, h.1⟩
  · simp [hij] at h
    right; exact ⟨fun e => hij e.symm, h⟩

/-- a thread that did not move keeps its invariant when the shared state changes only in ways that do not concern it -/
theorem ti_frame (env : Env) (cell0 : Nat → Nat) (opts0 : Nat → Option Nat) (sh sh' : Sh) (u : Thread)
    (h : TI env cell0 opts0 sh u)
    (hdone : ∀ o, sh.once o = .done → sh'.once o = .done)
    (hheap : ∀ id, u.priv.held = some id → sh'.heap id = sh.heap id) : TI env cell0 opts0 sh' u := by
  obtain ⟨w, h1, h2, h3, h4, h5, h6, h7⟩ := h
  refine ⟨w, h1, h2, h3, h4, h5, ?_, fun o ho => hdone o (h7 o ho)⟩
  intro hc
  obtain ⟨c, hk, hh⟩ := h6 hc
  exact ⟨c, hk, fun id hid => by rw [hheap id hid]; exact hh id hid⟩

/-- re-establishing the invariant after thread `i` (was `t`, becomes `t'`) took a step that turned `cfg.sh` into `sh'` -/
theorem inv_update (env : Env) (cell0 : Nat → Nat) (opts0 : Nat → Option Nat) (cfg : Cfg) (i : Nat) (t t' : Thread) (sh' : Sh)
    (ht : cfg.threads[i]? = some t) (inv : Inv env cell0 opts0 cfg)
    (hopts : sh'.opts = cfg.sh.opts)
    (hro : ∀ r, env.onceOf r = none → sh'.cell r = cfg.sh.cell r)
    (honce : ∀ o, OnceOK env sh' o)
    (hdone : ∀ o, cfg.sh.once o = .done → sh'.once o = .done)
    (hheap : ∀ id, id < cfg.sh.next → t.priv.held ≠ some id → sh'.heap id = cfg.sh.heap id)
    (hnext : cfg.sh.next ≤ sh'.next)
    (hpool : ∀ q id, id ∈ sh'.pool q → id ∈ cfg.sh.pool q ∨ t.priv.held = some id)
    (hpn : ∀ q, (sh'.pool q).Nodup)
    (hpd : ∀ q1 q2 id, q1 ≠ q2 → id ∈ sh'.pool q1 → id ∉ sh'.pool q2)
    (hheld : ∀ id, t'.priv.held = some id →
      (∀ (j : Nat) (u : Thread), j ≠ i → cfg.threads[j]? = some u → u.priv.held ≠ some id) ∧ (∀ q, id ∉ sh'.pool q) ∧ id < sh'.next)
    (hti : TI env cell0 opts0 sh' t') :
    Inv env cell0 opts0 { sh := sh', threads := cfg.threads.set i t' } := by
  have others : ∀ (j : Nat) (u : Thread) (id : Nat), j ≠ i → cfg.threads[j]? = some u → u.priv.held = some id →
      t.priv.held ≠ some id := by
    intro j u id hji hu hid hti'
    exact hji (inv.hh j i u t id hu ht hid hti')
  refine { opts := by simpa [hopts] using inv.opts, ro := fun r hr => by simp [hro r hr, inv.ro r hr], once := honce,
           hh := ?_, hp := ?_, pn := hpn, pd := hpd, fh := ?_, fp := ?_, thr := ?_ }
  · intro j k u v id hu hv huid hvid
    rcases getElem?_set_thread _ _ _ _ _ hu with ⟨rfl, rfl, _⟩ | ⟨hj, hu'⟩
    · rcases getElem?_set_thread _ _ _ _ _ hv with ⟨rfl, _, _⟩ | ⟨hk, hv'⟩
      · rfl
      · exact absurd hvid ((hheld id huid).1 k v hk hv')
    · rcases getElem?_set_thread _ _ _ _ _ hv with ⟨rfl, rfl, _⟩ | ⟨hk, hv'⟩
      · exact absurd huid ((hheld id hvid).1 j u hj hu')
      · exact inv.hh j k u v id hu' hv' huid hvid
  · intro j u id q hu huid hmem
    rcases getElem?_set_thread _ _ _ _ _ hu with ⟨rfl, rfl, _⟩ | ⟨hj, hu'⟩
    · exact (hheld id huid).2.1 q hmem
    · rcases hpool q id hmem with h | h
      · exact inv.hp j u id q hu' huid h
      · exact others j u id hj hu' huid h
  · intro j u id hu huid
    rcases getElem?_set_thread _ _ _ _ _ hu with ⟨rfl, rfl, _⟩ | ⟨hj, hu'⟩
    · exact (hheld id huid).2.2
    · exact Nat.lt_of_lt_of_le (inv.fh j u id hu' huid) hnext
  · intro q id hmem
    rcases hpool q id hmem with h | h
    · exact Nat.lt_of_lt_of_le (inv.fp q id h) hnext
    · exact Nat.lt_of_lt_of_le (inv.fh i t id ht h) hnext
  · intro j u hu
    rcases getElem?_set_thread _ _ _ _ _ hu with ⟨rfl, rfl, _⟩ | ⟨hj, hu'⟩
    · exact hti
    · refine ti_frame env cell0 opts0 cfg.sh sh' u (inv.thr j u hu') hdone ?_
      intro id hid
      exact hheap id (inv.fh j u id hu' hid) (others j u id hj hu' hid)

/-- the same when pools, allocation counter and what the thread holds are untouched -/
theorem inv_update_same (env : Env) (cell0 : Nat → Nat) (opts0 : Nat → Option Nat) (cfg : Cfg) (i : Nat) (t t' : Thread) (sh' : Sh)
    (ht : cfg.threads[i]? = some t) (inv : Inv env cell0 opts0 cfg)
    (hopts : sh'.opts = cfg.sh.opts)
    (hro : ∀ r, env.onceOf r = none → sh'.cell r = cfg.sh.cell r)
    (honce : ∀ o, OnceOK env sh' o)
    (hdone : ∀ o, cfg.sh.once o = .done → sh'.once o = .done)
    (hheap : ∀ id, t.priv.held ≠ some id → sh'.heap id = cfg.sh.heap id)
    (hnext : sh'.next = cfg.sh.next) (hpool : sh'.pool = cfg.sh.pool) (hheld : t'.priv.held = t.priv.held)
    (hti : TI env cell0 opts0 sh' t') :
    Inv env cell0 opts0 { sh := sh', threads := cfg.threads.set i t' } := by
  refine inv_update env cell0 opts0 cfg i t t' sh' ht inv hopts hro honce hdone (fun id _ h => hheap id h) (by omega)
    (fun q id h => Or.inl (by simpa [hpool] using h)) (by simpa [hpool] using inv.pn) (by simpa [hpool] using inv.pd) ?_ hti
  intro id hid
  rw [hheld] at hid
  refine ⟨fun j u hj hu huid => hj (inv.hh j i u t id hu ht huid hid), fun q => by simpa [hpool] using inv.hp i t id q ht hid, ?_⟩
  rw [hnext]; exact inv.fh i t id ht hid

/-! ### the `Once` rows -/

theorem onceOK_congr (env : Env) (sh sh' : Sh) (o : Nat) (hc : sh'.cell = sh.cell) (ho : sh'.once = sh.once)
    (h : OnceOK env sh o) : OnceOK env sh' o := by
  unfold OnceOK at *
  rw [hc, ho]; exact h

theorem closureStep_other (env : Env) (o k : Nat) (cell : Nat → Nat) (r : Nat) (h : r ∉ env.body o) :
    closureStep env o k cell r = cell r := by
  unfold closureStep
  cases hk : (env.body o)[k / 2]? with
  | none => rfl
  | some r' =>
    have : r' ∈ env.body o := List.mem_of_getElem? hk
    have hne : r ≠ r' := fun e => h (e ▸ this)
    simp [upd, hne]

theorem closureStep_at (env : Env) (o k : Nat) (cell : Nat → Nat) (r : Nat) (hk : (env.body o)[k / 2]? = some r) (r' : Nat) :
    closureStep env o k cell r' = if r' = r then (if k % 2 = 0 then env.half r else env.built r) else cell r' := by
  unfold closureStep
  simp [hk, upd]

/-- rows of different `Once`s are different rows -/
theorem body_disjoint (env : Env) (henv : EnvOK env) (o o' r : Nat) (h : r ∈ env.body o) (h' : r ∈ env.body o') : o = o' := by
  have h1 := henv.1 o r h
  have h2 := henv.1 o' r h'
  rw [h1] at h2; exact Option.some.inj h2

/-- a `Once` other than the one whose closure makes a step is not concerned -/
theorem onceOK_other (env : Env) (henv : EnvOK env) (sh : Sh) (o o' k : Nat) (st : OnceSt) (hne : o' ≠ o)
    (h : OnceOK env sh o') :
    OnceOK env { sh with cell := closureStep env o k sh.cell, once := upd sh.once o st } o' := by
  unfold OnceOK at *
  simp only [upd, hne, if_false]
  have hcell : ∀ r, r ∈ env.body o' → closureStep env o k sh.cell r = sh.cell r := fun r hr =>
    closureStep_other env o k sh.cell r (fun hro => hne (body_disjoint env henv o o' r hro hr).symm)
  cases hs : sh.once o' with
  | idle => simp [hs] at h ⊢
  | running j k' =>
    simp only [hs] at h ⊢
    refine ⟨h.1, fun idx r hlt hidx => ?_⟩
    rw [hcell r (List.mem_of_getElem? hidx)]; exact h.2 idx r hlt hidx
  | done =>
    simp only [hs] at h ⊢
    intro r hr; rw [hcell r hr]; exact h r hr

theorem onceOK_other_once (env : Env) (sh : Sh) (o o' : Nat) (st : OnceSt) (hne : o' ≠ o) (h : OnceOK env sh o') :
    OnceOK env { sh with once := upd sh.once o st } o' := by
  unfold OnceOK at *
  simpa [upd, hne] using h

/-- one step of the closure of `o` by its owner -/
theorem onceOK_closure_step (env : Env) (henv : EnvOK env) (sh : Sh) (o i k : Nat) (hs : sh.once o = .running i k)
    (hk : k < closureLen env o) (h : OnceOK env sh o) :
    OnceOK env { sh with cell := closureStep env o k sh.cell, once := upd sh.once o (.running i (k + 1)) } o := by
  unfold OnceOK at *
  simp only [hs] at h
  simp only [upd_same]
  have hlen : k / 2 < (env.body o).length := by unfold closureLen at hk; omega
  obtain ⟨r0, hr0⟩ : ∃ r0, (env.body o)[k / 2]? = some r0 := ⟨_, List.getElem?_eq_getElem hlen⟩
  refine ⟨by omega, fun idx r hlt hidx => ?_⟩
  rw [closureStep_at env o k sh.cell r0 hr0 r]
  by_cases hr : r = r0
  · subst hr
    have hidxlt : idx < (env.body o).length := by
      rcases Nat.lt_or_ge idx (env.body o).length with h' | h'
      · exact h'
      · rw [List.getElem?_eq_none h'] at hidx; cases hidx
    have : idx = k / 2 := ((List.getElem?_inj hidxlt (henv.2.2 o)).mp (by rw [hidx, hr0]))
    have hodd : k % 2 = 1 := by omega
    simp [hodd]
  · simp only [hr, if_false]
    have : 2 * idx + 1 < k := by
      rcases Nat.lt_or_ge (2 * idx + 1) k with h' | h'
      · exact h'
      · exfalso
        have hk' : idx = k / 2 := by omega
        rw [hk', hr0] at hidx
        exact hr (Option.some.inj hidx).symm
    exact h.2 idx r this hidx

/-- the owner has executed the whole closure: the `Once` is done -/
theorem onceOK_closure_end (env : Env) (sh : Sh) (o i k : Nat) (hs : sh.once o = .running i k)
    (hk : ¬ k < closureLen env o) (h : OnceOK env sh o) :
    OnceOK env { sh with once := upd sh.once o .done } o := by
  unfold OnceOK at *
  simp only [hs] at h
  simp only [upd_same]
  intro r hr
  obtain ⟨idx, hidx, hget⟩ := List.getElem_of_mem hr
  have : (env.body o)[idx]? = some r := by rw [List.getElem?_eq_getElem hidx, hget]
  refine h.2 idx r ?_ this
  unfold closureLen at hk h; omega

/-! ### what the static discipline says about each action -/

theorem wfStep_read {env : Env} {r : Nat} {w w' : WfSt} (h : wfStep env (.read r) w = some w') :
    w' = w ∧ env.racy r = false ∧ ∀ o, env.onceOf r = some o → o ∈ w.seen := by
  simp only [wfStep] at h
  cases hr : env.racy r with
  | true => simp [hr] at h
  | false =>
    simp only [hr] at h
    cases hon : env.onceOf r with
    | none => simp [hon] at h; exact ⟨h.symm, rfl, fun o ho => by cases ho⟩
    | some o =>
      simp only [hon] at h
      by_cases hso : w.seen.contains o
      · simp [hso] at h
        refine ⟨h.2.symm, rfl, fun o' ho' => ?_⟩
        cases ho'; exact h.1
      · simp [hso] at h
        simp at hso
        exact absurd h.1 hso

theorem wfStep_onceDo {env : Env} {o : Nat} {w w' : WfSt} (h : wfStep env (.onceDo o) w = some w') :
    w' = { w with seen := o :: w.seen } := by
  simp [wfStep] at h; exact h.symm

theorem wfStep_get {env : Env} {q : Nat} {w w' : WfSt} (h : wfStep env (.get q) w = some w') :
    w.holding = false ∧ w' = { w with holding := true, clean := false } := by
  simp only [wfStep] at h
  cases hh : w.holding with
  | true => simp [hh] at h
  | false => simp [hh] at h; exact ⟨rfl, h.symm⟩

theorem wfStep_use {env : Env} {vals : List Nat} {w w' : WfSt} (h : wfStep env (.use vals) w = some w') :
    w.holding = true ∧ w' = w := by
  simp only [wfStep] at h
  cases hh : w.holding with
  | true => simp [hh] at h; exact ⟨rfl, h.symm⟩
  | false => simp [hh] at h

theorem wfStep_readObj {env : Env} {w w' : WfSt} (h : wfStep env .readObj w = some w') :
    w.holding = true ∧ w.clean = true ∧ w' = w := by
  simp only [wfStep] at h
  cases hh : w.holding with
  | false => simp [hh] at h
  | true =>
    cases hc : w.clean with
    | false => simp [hh, hc] at h
    | true => simp [hh, hc] at h; exact ⟨rfl, rfl, h.symm⟩

theorem wfStep_reset {env : Env} {w w' : WfSt} (h : wfStep env .reset w = some w') :
    w.holding = true ∧ w' = { w with clean := true } := by
  simp only [wfStep] at h
  cases hh : w.holding with
  | true => simp [hh] at h; exact ⟨rfl, h.symm⟩
  | false => simp [hh] at h

theorem wfStep_put {env : Env} {q : Nat} {w w' : WfSt} (h : wfStep env (.put q) w = some w') :
    w.holding = true ∧ w' = { w with holding := false, clean := false } := by
  simp only [wfStep] at h
  cases hh : w.holding with
  | true => simp [hh] at h; exact ⟨rfl, h.symm⟩
  | false => simp [hh] at h

/-! ### every scheduled step keeps the invariant -/

theorem stepThread_none (env : Env) (cfg : Cfg) (i c : Nat) (h : cfg.threads[i]? = none) : stepThread env cfg i c = cfg := by
  simp [stepThread, h]

theorem stepThread_nil (env : Env) (cfg : Cfg) (i c : Nat) (t : Thread) (h : cfg.threads[i]? = some t) (h' : t.todo = []) :
    stepThread env cfg i c = cfg := by
  simp [stepThread, h, h']

theorem stepThread_cons (env : Env) (cfg : Cfg) (i c : Nat) (t : Thread) (a : Act) (rest : List Act)
    (h : cfg.threads[i]? = some t) (h' : t.todo = a :: rest) :
    stepThread env cfg i c =
      { sh := (step env i a c t.priv cfg.sh).2.1,
        threads := cfg.threads.set i (if (step env i a c t.priv cfg.sh).2.2 then
            { priv := (step env i a c t.priv cfg.sh).1, done := t.done ++ [a], todo := rest }
          else { t with priv := (step env i a c t.priv cfg.sh).1 }) } := by
  simp [stepThread, h, h']

theorem step_onceDo_idle (env : Env) (i o c : Nat) (p : Priv) (sh : Sh) (h : sh.once o = .idle) :
    step env i (.onceDo o) c p sh = (p, { sh with once := upd sh.once o (.running i 0) }, false) := by
  simp [step, h]

theorem step_onceDo_own_step (env : Env) (i o c k : Nat) (p : Priv) (sh : Sh) (h : sh.once o = .running i k)
    (hk : k < closureLen env o) :
    step env i (.onceDo o) c p sh =
      (p, { sh with cell := closureStep env o k sh.cell, once := upd sh.once o (.running i (k + 1)) }, false) := by
  simp [step, h, hk]

theorem step_onceDo_own_end (env : Env) (i o c k : Nat) (p : Priv) (sh : Sh) (h : sh.once o = .running i k)
    (hk : ¬ k < closureLen env o) :
    step env i (.onceDo o) c p sh = (p, { sh with once := upd sh.once o .done }, false) := by
  simp [step, h, hk]

theorem step_onceDo_blocked (env : Env) (i j o c k : Nat) (p : Priv) (sh : Sh) (h : sh.once o = .running j k) (hj : j ≠ i) :
    step env i (.onceDo o) c p sh = (p, sh, false) := by
  simp [step, h, hj]

theorem step_onceDo_done (env : Env) (i o c : Nat) (p : Priv) (sh : Sh) (h : sh.once o = .done) :
    step env i (.onceDo o) c p sh = (p, sh, true) := by
  simp [step, h]

theorem held_some_of {t : Thread} {w : WfSt} (h : t.priv.held.isSome = w.holding) (hw : w.holding = true) :
    ∃ id, t.priv.held = some id := by
  cases hh : t.priv.held with
  | none => simp [hh, hw] at h
  | some id => exact ⟨id, rfl⟩

theorem held_none_of {t : Thread} {w : WfSt} (h : t.priv.held.isSome = w.holding) (hw : w.holding = false) :
    t.priv.held = none := by
  cases hh : t.priv.held with
  | none => rfl
  | some id => simp [hh, hw] at h

theorem step_use_held (env : Env) (i c id : Nat) (vals : List Nat) (p : Priv) (sh : Sh) (h : p.held = some id) :
    step env i (.use vals) c p sh =
      ({ p with out := p.out ++ (overlay vals (sh.heap id)).take vals.length },
       { sh with heap := upd sh.heap id (overlay vals (sh.heap id)) }, true) := by
  simp [step, h]

theorem step_readObj_held (env : Env) (i c id : Nat) (p : Priv) (sh : Sh) (h : p.held = some id) :
    step env i .readObj c p sh = ({ p with out := p.out ++ sh.heap id }, sh, true) := by
  simp [step, h]

theorem step_reset_held (env : Env) (i c id : Nat) (p : Priv) (sh : Sh) (h : p.held = some id) :
    step env i .reset c p sh = (p, { sh with heap := upd sh.heap id [] }, true) := by
  simp [step, h]

theorem step_put_held (env : Env) (i c id q : Nat) (p : Priv) (sh : Sh) (h : p.held = some id) :
    step env i (.put q) c p sh =
      ({ p with held := none, lastPut := some id }, { sh with pool := upd sh.pool q (id :: sh.pool q) }, true) := by
  simp [step, h]

theorem step_get_fresh (env : Env) (i c q : Nat) (p : Priv) (sh : Sh) (h : p.held = none) (hc : c = 0 ∨ sh.pool q = []) :
    step env i (.get q) c p sh =
      ({ p with held := some sh.next }, { sh with heap := upd sh.heap sh.next [], next := sh.next + 1 }, true) := by
  simp [step, h, hc]

theorem step_get_pooled (env : Env) (i c q : Nat) (p : Priv) (sh : Sh) (h : p.held = none) (hc : ¬ (c = 0 ∨ sh.pool q = [])) :
    step env i (.get q) c p sh =
      ({ p with held := some ((sh.pool q).getD ((c - 1) % (sh.pool q).length) 0) },
       { sh with pool := upd sh.pool q (removeNth (sh.pool q) ((c - 1) % (sh.pool q).length)) }, true) := by
  simp [step, h, hc]

theorem inv_step (env : Env) (henv : EnvOK env) (cell0 : Nat → Nat) (opts0 : Nat → Option Nat) (cfg : Cfg) (i c : Nat)
    (inv : Inv env cell0 opts0 cfg) : Inv env cell0 opts0 (stepThread env cfg i c) := by
  cases ht : cfg.threads[i]? with
  | none => rw [stepThread_none env cfg i c ht]; exact inv
  | some t =>
    cases htodo : t.todo with
    | nil => rw [stepThread_nil env cfg i c t ht htodo]; exact inv
    | cons a rest =>
      rw [stepThread_cons env cfg i c t a rest ht htodo]
      obtain ⟨w, hw, hcont, hout, hheld, hsolo, hclean, hseen⟩ := inv.thr i t ht
      rw [htodo] at hcont
      simp only [wfRun] at hcont
      cases hws : wfStep env a w with
      | none => simp [hws] at hcont
      | some w' =>
        simp only [hws] at hcont
        have hd' : wfRun env (t.done ++ [a]) initWf = some w' := by
          rw [wfRun_append, hw]; simp [wfRun, hws]
        have hsame : ∀ o, OnceOK env cfg.sh o := inv.once
        cases a with
        | read r =>
          simp only [step, if_true]
          refine inv_update_same env cell0 opts0 cfg i t _ cfg.sh ht inv rfl (fun _ _ => rfl) hsame (fun _ h => h)
            (fun _ _ => rfl) rfl rfl rfl ?_
          obtain ⟨hw', _, hsn⟩ := wfStep_read hws
          have hval : cfg.sh.cell r = (match env.onceOf r with | some _ => env.built r | none => cell0 r) := by
            cases hon : env.onceOf r with
            | none => simp [inv.ro r hon]
            | some o =>
              have hdone := hseen o (hsn o hon)
              have := inv.once o
              unfold OnceOK at this
              simp only [hdone] at this
              simp [this r (henv.2.1 o r hon)]
          subst hw'
          refine ⟨w', hd', hcont, ?_, hheld, ?_, ?_, hseen⟩
          · simp only [soloRun_snoc, soloStep, hout, hval]; rfl
          · simp only [soloRun_snoc, soloStep]; exact hsolo
          · simp only [soloRun_snoc, soloStep]; exact hclean
        | write r v => simp [wfStep] at hws
        | putAgain q => simp [wfStep] at hws
        | optWrite o v => simp [wfStep] at hws
        | loc v =>
          simp only [step, if_true]
          refine inv_update_same env cell0 opts0 cfg i t _ cfg.sh ht inv rfl (fun _ _ => rfl) hsame (fun _ h => h)
            (fun _ _ => rfl) rfl rfl rfl ?_
          have hw' : w' = w := by simp [wfStep] at hws; exact hws.symm
          subst hw'
          refine ⟨w', hd', hcont, ?_, hheld, ?_, ?_, hseen⟩
          · simp only [soloRun_snoc, soloStep, hout]
          · simp only [soloRun_snoc, soloStep]; exact hsolo
          · simp only [soloRun_snoc, soloStep]; exact hclean
        | optRead o =>
          simp only [step, if_true]
          refine inv_update_same env cell0 opts0 cfg i t _ cfg.sh ht inv rfl (fun _ _ => rfl) hsame (fun _ h => h)
            (fun _ _ => rfl) rfl rfl rfl ?_
          have hw' : w' = w := by simp [wfStep] at hws; exact hws.symm
          subst hw'
          refine ⟨w', hd', hcont, ?_, hheld, ?_, ?_, hseen⟩
          · simp only [soloRun_snoc, soloStep, hout, inv.opts]
          · simp only [soloRun_snoc, soloStep]; exact hsolo
          · simp only [soloRun_snoc, soloStep]; exact hclean
        | onceDo o =>
          have hw' := wfStep_onceDo hws
          have heta : ({ t with priv := t.priv } : Thread) = t := by cases t; rfl
          have hti0 : TI env cell0 opts0 cfg.sh t := inv.thr i t ht
          cases hs : cfg.sh.once o with
          | idle =>
            rw [step_onceDo_idle env i o c t.priv cfg.sh hs]
            simp only [Bool.false_eq_true, if_false]
            have hdone : ∀ o', cfg.sh.once o' = .done → upd cfg.sh.once o (.running i 0) o' = .done := by
              intro o' ho'
              by_cases he : o' = o
              · subst he; rw [hs] at ho'; cases ho'
              · rw [upd_other _ _ _ _ he]; exact ho'
            refine inv_update_same env cell0 opts0 cfg i t _ _ ht inv rfl (fun _ _ => rfl) ?_ hdone
              (fun _ _ => rfl) rfl rfl rfl ?_
            · intro o'
              by_cases he : o' = o
              · subst he; unfold OnceOK; simp
              · exact onceOK_other_once env cfg.sh o o' _ he (inv.once o')
            · rw [heta]; exact ti_frame env cell0 opts0 cfg.sh _ t hti0 hdone (fun _ _ => rfl)
          | running j k =>
            by_cases hji : j = i
            · subst hji
              by_cases hk : k < closureLen env o
              · rw [step_onceDo_own_step env j o c k t.priv cfg.sh hs hk]
                simp only [Bool.false_eq_true, if_false]
                have hdone : ∀ o', cfg.sh.once o' = .done → upd cfg.sh.once o (.running j (k + 1)) o' = .done := by
                  intro o' ho'
                  by_cases he : o' = o
                  · subst he; rw [hs] at ho'; cases ho'
                  · rw [upd_other _ _ _ _ he]; exact ho'
                refine inv_update_same env cell0 opts0 cfg j t _ _ ht inv rfl ?_ ?_ hdone
                  (fun _ _ => rfl) rfl rfl rfl ?_
                · intro r hr
                  refine closureStep_other env o k cfg.sh.cell r (fun hm => ?_)
                  rw [henv.1 o r hm] at hr; cases hr
                · intro o'
                  by_cases he : o' = o
                  · subst he; exact onceOK_closure_step env henv cfg.sh o' j k hs hk (inv.once o')
                  · exact onceOK_other env henv cfg.sh o o' k _ he (inv.once o')
                · rw [heta]; exact ti_frame env cell0 opts0 cfg.sh _ t hti0 hdone (fun _ _ => rfl)
              · rw [step_onceDo_own_end env j o c k t.priv cfg.sh hs hk]
                simp only [Bool.false_eq_true, if_false]
                have hdone : ∀ o', cfg.sh.once o' = .done → upd cfg.sh.once o .done o' = .done := by
                  intro o' ho'
                  by_cases he : o' = o
                  · subst he; simp
                  · rw [upd_other _ _ _ _ he]; exact ho'
                refine inv_update_same env cell0 opts0 cfg j t _ _ ht inv rfl (fun _ _ => rfl) ?_ hdone
                  (fun _ _ => rfl) rfl rfl rfl ?_
                · intro o'
                  by_cases he : o' = o
                  · subst he; exact onceOK_closure_end env cfg.sh o' j k hs hk (inv.once o')
                  · exact onceOK_other_once env cfg.sh o o' _ he (inv.once o')
                · rw [heta]; exact ti_frame env cell0 opts0 cfg.sh _ t hti0 hdone (fun _ _ => rfl)
            · rw [step_onceDo_blocked env i j o c k t.priv cfg.sh hs hji]
              simp only [Bool.false_eq_true, if_false]
              refine inv_update_same env cell0 opts0 cfg i t _ cfg.sh ht inv rfl (fun _ _ => rfl) hsame (fun _ h => h)
                (fun _ _ => rfl) rfl rfl rfl ?_
              rw [heta]; exact hti0
          | done =>
            rw [step_onceDo_done env i o c t.priv cfg.sh hs]
            simp only [if_true]
            refine inv_update_same env cell0 opts0 cfg i t _ cfg.sh ht inv rfl (fun _ _ => rfl) hsame (fun _ h => h)
              (fun _ _ => rfl) rfl rfl rfl ?_
            subst hw'
            refine ⟨_, hd', hcont, ?_, hheld, ?_, ?_, ?_⟩
            · simp only [soloRun_snoc, soloStep, hout]
            · simp only [soloRun_snoc, soloStep]; exact hsolo
            · simp only [soloRun_snoc, soloStep]; exact hclean
            · intro o' ho'
              rcases List.mem_cons.mp ho' with h | h
              · rw [h]; exact hs
              · exact hseen o' h
        | use vals =>
          obtain ⟨hhold, hw'⟩ := wfStep_use hws
          subst hw'
          obtain ⟨id, hid⟩ := held_some_of hheld hhold
          rw [step_use_held env i c id vals t.priv cfg.sh hid]
          simp only [if_true]
          refine inv_update_same env cell0 opts0 cfg i t _ _ ht inv rfl (fun _ _ => rfl) hsame (fun _ h => h)
            ?_ rfl rfl rfl ?_
          · intro id' hne
            exact upd_other _ _ _ _ (fun e => hne (e ▸ hid))
          · refine ⟨_, hd', hcont, ?_, hheld, ?_, ?_, hseen⟩
            · simp only [soloRun_snoc, soloStep, hsolo, hhold, if_true, overlay_take, hout]
            · simp only [soloRun_snoc, soloStep, hsolo, hhold, if_true]
            · intro hc
              obtain ⟨cc, hk, hh⟩ := hclean hc
              refine ⟨overlay vals cc, ?_, ?_⟩
              · simp only [soloRun_snoc, soloStep, hsolo, hhold, if_true, hk, Option.map]
              · intro id' hid'
                have : id' = id := by rw [hid] at hid'; exact (Option.some.inj hid').symm
                subst this
                simp [hh id' hid]
        | readObj =>
          obtain ⟨hhold, hcl, hw'⟩ := wfStep_readObj hws
          subst hw'
          obtain ⟨id, hid⟩ := held_some_of hheld hhold
          rw [step_readObj_held env i c id t.priv cfg.sh hid]
          simp only [if_true]
          refine inv_update_same env cell0 opts0 cfg i t _ cfg.sh ht inv rfl (fun _ _ => rfl) hsame (fun _ h => h)
            (fun _ _ => rfl) rfl rfl rfl ?_
          obtain ⟨cc, hk, hh⟩ := hclean hcl
          refine ⟨_, hd', hcont, ?_, hheld, ?_, ?_, hseen⟩
          · simp only [soloRun_snoc, soloStep, hsolo, hhold, if_true, hk, Option.getD, hout, hh id hid]
          · simp only [soloRun_snoc, soloStep, hsolo, hhold, if_true]
          · intro _
            exact ⟨cc, by simp only [soloRun_snoc, soloStep, hsolo, hhold, if_true, hk], hh⟩
        | reset =>
          obtain ⟨hhold, hw'⟩ := wfStep_reset hws
          subst hw'
          obtain ⟨id, hid⟩ := held_some_of hheld hhold
          rw [step_reset_held env i c id t.priv cfg.sh hid]
          simp only [if_true]
          refine inv_update_same env cell0 opts0 cfg i t _ _ ht inv rfl (fun _ _ => rfl) hsame (fun _ h => h)
            ?_ rfl rfl rfl ?_
          · intro id' hne
            exact upd_other _ _ _ _ (fun e => hne (e ▸ hid))
          · refine ⟨_, hd', hcont, ?_, hheld, ?_, ?_, hseen⟩
            · simp only [soloRun_snoc, soloStep, hsolo, hhold, if_true, hout]
            · simp only [soloRun_snoc, soloStep, hsolo, hhold, if_true]
            · intro _
              refine ⟨[], by simp only [soloRun_snoc, soloStep, hsolo, hhold, if_true], ?_⟩
              intro id' hid'
              have : id' = id := by rw [hid] at hid'; exact (Option.some.inj hid').symm
              subst this
              simp
        | put q =>
          obtain ⟨hhold, hw'⟩ := wfStep_put hws
          subst hw'
          obtain ⟨id, hid⟩ := held_some_of hheld hhold
          rw [step_put_held env i c id q t.priv cfg.sh hid]
          simp only [if_true]
          have hnot : ∀ q', id ∉ cfg.sh.pool q' := fun q' => inv.hp i t id q' ht hid
          refine inv_update env cell0 opts0 cfg i t _ _ ht inv rfl (fun _ _ => rfl) hsame (fun _ h => h)
            (fun _ _ _ => rfl) (Nat.le_refl _) ?_ ?_ ?_ ?_ ?_
          · intro q' id' hmem
            by_cases hq : q' = q
            · subst hq
              simp only [upd_same] at hmem
              rcases List.mem_cons.mp hmem with h | h
              · right; rw [h]; exact hid
              · left; exact h
            · left; simpa [upd_other _ _ _ _ hq] using hmem
          · intro q'
            by_cases hq : q' = q
            · subst hq
              simp only [upd_same]
              exact List.nodup_cons.mpr ⟨hnot q', inv.pn q'⟩
            · simpa [upd_other _ _ _ _ hq] using inv.pn q'
          · intro q1 q2 id' hne h1 h2
            by_cases hq1 : q1 = q
            · subst hq1
              have hq2 : q2 ≠ q1 := fun e => hne e.symm
              simp only [upd_same] at h1
              simp only [upd_other _ _ _ _ hq2] at h2
              rcases List.mem_cons.mp h1 with h | h
              · exact hnot q2 (h ▸ h2)
              · exact inv.pd q1 q2 id' hne h h2
            · simp only [upd_other _ _ _ _ hq1] at h1
              by_cases hq2 : q2 = q
              · subst hq2
                simp only [upd_same] at h2
                rcases List.mem_cons.mp h2 with h | h
                · exact hnot q1 (h ▸ h1)
                · exact inv.pd q1 q2 id' hne h1 h
              · simp only [upd_other _ _ _ _ hq2] at h2
                exact inv.pd q1 q2 id' hne h1 h2
          · intro id' hid'
            simp at hid'
          · refine ⟨_, hd', hcont, ?_, ?_, ?_, ?_, hseen⟩
            · simp only [soloRun_snoc, soloStep, hsolo, hhold, if_true, hout]
            · simp
            · simp only [soloRun_snoc, soloStep, hsolo, hhold, if_true]
            · intro hc; simp at hc
        | get q =>
          obtain ⟨hhold, hw'⟩ := wfStep_get hws
          subst hw'
          have hnone := held_none_of hheld hhold
          by_cases hc : c = 0 ∨ cfg.sh.pool q = []
          · rw [step_get_fresh env i c q t.priv cfg.sh hnone hc]
            simp only [if_true]
            refine inv_update env cell0 opts0 cfg i t _ _ ht inv rfl (fun _ _ => rfl) hsame (fun _ h => h)
              ?_ (Nat.le_succ _) (fun _ _ h => Or.inl h) inv.pn inv.pd ?_ ?_
            · intro id' hlt _
              exact upd_other _ _ _ _ (Nat.ne_of_lt hlt)
            · intro id' hid'
              have hid'' : id' = cfg.sh.next := by simpa using hid'.symm
              subst hid''
              refine ⟨fun j u _ hu huid => ?_, fun q' hm => ?_, Nat.lt_succ_self _⟩
              · exact Nat.lt_irrefl _ (inv.fh j u _ hu huid)
              · exact Nat.lt_irrefl _ (inv.fp q' _ hm)
            · refine ⟨_, hd', hcont, ?_, ?_, ?_, ?_, hseen⟩
              · simp only [soloRun_snoc, soloStep, hsolo, hhold, Bool.false_eq_true, if_false, hout]
              · simp
              · simp only [soloRun_snoc, soloStep, hsolo, hhold, Bool.false_eq_true, if_false]
              · intro hcl; simp at hcl
          · rw [step_get_pooled env i c q t.priv cfg.sh hnone hc]
            simp only [if_true]
            have hne : cfg.sh.pool q ≠ [] := fun e => hc (Or.inr e)
            have hlen : (c - 1) % (cfg.sh.pool q).length < (cfg.sh.pool q).length :=
              Nat.mod_lt _ (List.length_pos_iff.mpr hne)
            have hmemq := getD_mem_of_lt hlen
            refine inv_update env cell0 opts0 cfg i t _ _ ht inv rfl (fun _ _ => rfl) hsame (fun _ h => h)
              (fun _ _ _ => rfl) (Nat.le_refl _) ?_ ?_ ?_ ?_ ?_
            · intro q' id' hmem
              by_cases hq : q' = q
              · subst hq
                simp only [upd_same] at hmem
                exact Or.inl (removeNth_mem hmem)
              · left; simpa [upd_other _ _ _ _ hq] using hmem
            · intro q'
              by_cases hq : q' = q
              · subst hq
                simp only [upd_same]
                exact removeNth_nodup _ (inv.pn q')
              · simpa [upd_other _ _ _ _ hq] using inv.pn q'
            · intro q1 q2 id' hne' h1 h2
              have h1' : id' ∈ cfg.sh.pool q1 := by
                by_cases hq1 : q1 = q
                · subst hq1; simp only [upd_same] at h1; exact removeNth_mem h1
                · simpa [upd_other _ _ _ _ hq1] using h1
              have h2' : id' ∈ cfg.sh.pool q2 := by
                by_cases hq2 : q2 = q
                · subst hq2; simp only [upd_same] at h2; exact removeNth_mem h2
                · simpa [upd_other _ _ _ _ hq2] using h2
              exact inv.pd q1 q2 id' hne' h1' h2'
            · intro id' hid'
              have hid'' : id' = (cfg.sh.pool q).getD ((c - 1) % (cfg.sh.pool q).length) 0 := by simpa using hid'.symm
              subst hid''
              refine ⟨fun j u _ hu huid => inv.hp j u _ q hu huid hmemq, fun q' hm => ?_, inv.fp q _ hmemq⟩
              by_cases hq : q' = q
              · subst hq
                simp only [upd_same] at hm
                exact removeNth_not_mem _ (inv.pn q') hlen hm
              · simp only [upd_other _ _ _ _ hq] at hm
                exact inv.pd q q' _ (fun e => hq e.symm) hmemq hm
            · refine ⟨_, hd', hcont, ?_, ?_, ?_, ?_, hseen⟩
              · simp only [soloRun_snoc, soloStep, hsolo, hhold, Bool.false_eq_true, if_false, hout]
              · simp
              · simp only [soloRun_snoc, soloStep, hsolo, hhold, Bool.false_eq_true, if_false]
              · intro hcl; simp at hcl

theorem inv_exec (env : Env) (henv : EnvOK env) (cell0 : Nat → Nat) (opts0 : Nat → Option Nat) (sched : List (Nat × Nat)) :
    ∀ cfg, Inv env cell0 opts0 cfg → Inv env cell0 opts0 (exec env cfg sched) := by
  induction sched with
  | nil => intro cfg h; exact h
  | cons e rest ih => intro cfg h; exact ih _ (inv_step env henv cell0 opts0 cfg e.1 e.2 h)

/-! ### a thread never changes its program -/

def progsOf (cfg : Cfg) : List (List Act) := cfg.threads.map (fun t => t.done ++ t.todo)

theorem progsOf_step (env : Env) (cfg : Cfg) (i c : Nat) : progsOf (stepThread env cfg i c) = progsOf cfg := by
  cases ht : cfg.threads[i]? with
  | none => rw [stepThread_none env cfg i c ht]
  | some t =>
    cases htodo : t.todo with
    | nil => rw [stepThread_nil env cfg i c t ht htodo]
    | cons a rest =>
      rw [stepThread_cons env cfg i c t a rest ht htodo]
      unfold progsOf
      have hi : i < cfg.threads.length := by
        rcases Nat.lt_or_ge i cfg.threads.length with h | h
        · exact h
        · rw [List.getElem?_eq_none h] at ht; cases ht
      apply List.ext_getElem?
      intro j
      simp only [List.getElem?_map, List.getElem?_set]
      by_cases hij : i = j
      · subst hij
        simp only [hi, if_true, ht, Option.map]
        by_cases hb : (step env i a c t.priv cfg.sh).2.2 = true
        · simp [hb, htodo]
        · simp [hb]
      · simp [hij]

theorem progsOf_exec (env : Env) (sched : List (Nat × Nat)) : ∀ cfg, progsOf (exec env cfg sched) = progsOf cfg := by
  induction sched with
  | nil => intro cfg; rfl
  | cons e rest ih => intro cfg; simp only [exec, List.foldl] at *; rw [ih, progsOf_step]

theorem progsOf_init (progs : List (List Act)) (sh0 : Sh) : progsOf (initCfg progs sh0) = progs := by
  simp [progsOf, initCfg, List.map_map, Function.comp_def]

/-- a finished thread has executed exactly its program -/
theorem finished_done (env : Env) (progs : List (List Act)) (sh0 : Sh) (sched : List (Nat × Nat)) (i : Nat) (t : Thread)
    (prog : List Act) (ht : (exec env (initCfg progs sh0) sched).threads[i]? = some t) (hp : progs[i]? = some prog)
    (hfin : t.todo = []) : t.done = prog := by
  have h := progsOf_exec env sched (initCfg progs sh0)
  rw [progsOf_init] at h
  have h2 : (progsOf (exec env (initCfg progs sh0) sched))[i]? = some (t.done ++ t.todo) := by
    simp [progsOf, List.getElem?_map, ht]
  rw [h, hp, hfin] at h2
  simpa using (Option.some.inj h2).symm

/-! ### the operation alone really runs to its end: `soloRun` is what `exec` does with a single thread -/

def headCost (env : Env) (sh : Sh) : Act → Nat
  | .onceDo o => match sh.once o with
    | .idle => closureLen env o + 3
    | .running _ k => closureLen env o + 2 - k
    | .done => 1
  | _ => 1

/-- scheduled steps still needed by a thread that runs alone -/
def mu (env : Env) (sh : Sh) : List Act → Nat
  | [] => 0
  | a :: rest => headCost env sh a + (rest.map (actCost env)).sum

theorem headCost_le (env : Env) (sh : Sh) (a : Act) : headCost env sh a ≤ actCost env a := by
  cases a <;> simp [headCost, actCost]
  rename_i o
  cases sh.once o <;> simp <;> omega

theorem headCost_pos (env : Env) (sh : Sh) (a : Act) (h : ∀ o j k, sh.once o = .running j k → k ≤ closureLen env o) :
    0 < headCost env sh a := by
  cases a <;> simp [headCost]
  rename_i o
  cases hs : sh.once o with
  | idle => simp
  | running j k => have := h o j k hs; simp; omega
  | done => simp

theorem mu_le (env : Env) (sh : Sh) (l : List Act) : mu env sh l ≤ soloFuel env l := by
  cases l with
  | nil => simp [mu, soloFuel]
  | cons a rest => simp only [mu, soloFuel, List.map_cons, List.sum_cons]; have := headCost_le env sh a; omega

theorem step_popped (env : Env) (i : Nat) (a : Act) (c : Nat) (p : Priv) (sh : Sh) (h : ∀ o, a ≠ .onceDo o) :
    (step env i a c p sh).2.2 = true := by
  cases a with
  | onceDo o => exact absurd rfl (h o)
  | get q => simp only [step]; split <;> (try split) <;> rfl
  | use vals => simp only [step]; split <;> rfl
  | readObj => simp only [step]; split <;> rfl
  | reset => simp only [step]; split <;> rfl
  | put q => simp only [step]; split <;> rfl
  | putAgain q => simp only [step]; split <;> rfl
  | _ => rfl

theorem step_once_eq (env : Env) (i : Nat) (a : Act) (c : Nat) (p : Priv) (sh : Sh) (h : ∀ o, a ≠ .onceDo o) :
    (step env i a c p sh).2.1.once = sh.once := by
  cases a with
  | onceDo o => exact absurd rfl (h o)
  | get q => simp only [step]; split <;> (try split) <;> rfl
  | use vals => simp only [step]; split <;> rfl
  | readObj => simp only [step]; split <;> rfl
  | reset => simp only [step]; split <;> rfl
  | put q => simp only [step]; split <;> rfl
  | putAgain q => simp only [step]; split <;> rfl
  | _ => rfl

/-- every `Once` closure in flight is run by thread 0 (single-thread configurations) -/
def SoloOwn (sh : Sh) : Prop := ∀ o j k, sh.once o = .running j k → j = 0

theorem solo_step (env : Env) (henv : EnvOK env) (cell0 : Nat → Nat) (opts0 : Nat → Option Nat) (cfg : Cfg) (t : Thread) (c : Nat)
    (hthr : cfg.threads = [t]) (inv : Inv env cell0 opts0 cfg) (hown : SoloOwn cfg.sh) (hne : t.todo ≠ []) :
    ∃ t', (stepThread env cfg 0 c).threads = [t'] ∧ SoloOwn (stepThread env cfg 0 c).sh ∧
      mu env (stepThread env cfg 0 c).sh t'.todo < mu env cfg.sh t.todo := by
  have ht : cfg.threads[0]? = some t := by simp [hthr]
  have hk : ∀ o j k, cfg.sh.once o = .running j k → k ≤ closureLen env o := by
    intro o j k hs
    have := inv.once o
    unfold OnceOK at this
    simp only [hs] at this
    exact this.1
  cases htodo : t.todo with
  | nil => exact absurd htodo hne
  | cons a rest =>
    rw [stepThread_cons env cfg 0 c t a rest ht htodo, hthr]
    simp only [List.set_cons_zero]
    -- popped actions: the rest costs at most its static bound
    have popped : ∀ sh', (step env 0 a c t.priv cfg.sh).2.2 = true → headCost env cfg.sh a ≥ 1 →
        mu env sh' rest < mu env cfg.sh (a :: rest) := by
      intro sh' _ hpos
      have := mu_le env sh' rest
      simp only [mu, soloFuel] at *
      omega
    have hpos := headCost_pos env cfg.sh a hk
    have other : ∀ a', a' = a → (∀ o, a' ≠ .onceDo o) →
        ∃ t', [if (step env 0 a c t.priv cfg.sh).2.2 = true then
                ({ priv := (step env 0 a c t.priv cfg.sh).1, done := t.done ++ [a], todo := rest } : Thread)
              else { t with priv := (step env 0 a c t.priv cfg.sh).1 }] = [t'] ∧
          SoloOwn (step env 0 a c t.priv cfg.sh).2.1 ∧
          mu env (step env 0 a c t.priv cfg.sh).2.1 t'.todo < mu env cfg.sh (a :: rest) := by
      intro a' ha' hno
      subst ha'
      have hp := step_popped env 0 a' c t.priv cfg.sh hno
      refine ⟨_, rfl, ?_, ?_⟩
      · unfold SoloOwn; rw [step_once_eq env 0 a' c t.priv cfg.sh hno]; exact hown
      · simp only [hp, if_true]; exact popped _ hp hpos
    cases a with
    | onceDo o =>
      cases hs : cfg.sh.once o with
      | idle =>
        rw [step_onceDo_idle env 0 o c t.priv cfg.sh hs]
        refine ⟨_, rfl, ?_, ?_⟩
        · intro o' j k h'
          by_cases he : o' = o
          · subst he; simp at h'; exact h'.1.symm
          · simp only [upd_other _ _ _ _ he] at h'; exact hown o' j k h'
        · simp [htodo, mu, headCost, hs]
      | running j k =>
        have hj : j = 0 := hown o j k hs
        subst hj
        have hkl := hk o 0 k hs
        by_cases hlt : k < closureLen env o
        · rw [step_onceDo_own_step env 0 o c k t.priv cfg.sh hs hlt]
          refine ⟨_, rfl, ?_, ?_⟩
          · intro o' j k' h'
            by_cases he : o' = o
            · subst he; simp at h'; exact h'.1.symm
            · simp only [upd_other _ _ _ _ he] at h'; exact hown o' j k' h'
          · simp [htodo, mu, headCost, hs]; omega
        · rw [step_onceDo_own_end env 0 o c k t.priv cfg.sh hs hlt]
          refine ⟨_, rfl, ?_, ?_⟩
          · intro o' j k' h'
            by_cases he : o' = o
            · subst he; simp at h'
            · simp only [upd_other _ _ _ _ he] at h'; exact hown o' j k' h'
          · simp [htodo, mu, headCost, hs]; omega
      | done =>
        rw [step_onceDo_done env 0 o c t.priv cfg.sh hs]
        refine ⟨_, rfl, hown, ?_⟩
        simp only [if_true]
        exact popped _ (by rw [step_onceDo_done env 0 o c t.priv cfg.sh hs]) hpos
    | read r => exact other _ rfl (by intro o h; cases h)
    | write r v => exact other _ rfl (by intro o h; cases h)
    | get q => exact other _ rfl (by intro o h; cases h)
    | use vals => exact other _ rfl (by intro o h; cases h)
    | readObj => exact other _ rfl (by intro o h; cases h)
    | reset => exact other _ rfl (by intro o h; cases h)
    | put q => exact other _ rfl (by intro o h; cases h)
    | putAgain q => exact other _ rfl (by intro o h; cases h)
    | optRead o => exact other _ rfl (by intro o h; cases h)
    | optWrite o v => exact other _ rfl (by intro o h; cases h)
    | loc v => exact other _ rfl (by intro o h; cases h)

theorem exec_nil_todo (env : Env) (cs : List Nat) : ∀ (cfg : Cfg) (t : Thread), cfg.threads = [t] → t.todo = [] →
    exec env cfg (cs.map (fun c => (0, c))) = cfg := by
  induction cs with
  | nil => intro cfg t _ _; rfl
  | cons c rest ih =>
    intro cfg t ht hn
    have h0 : cfg.threads[0]? = some t := by simp [ht]
    simp only [List.map_cons, exec, List.foldl]
    rw [stepThread_nil env cfg 0 c t h0 hn]
    exact ih cfg t ht hn

/-- a single thread scheduled `mu` times (or more) has finished, whatever `Get` is given -/
theorem solo_finishes (env : Env) (henv : EnvOK env) (cell0 : Nat → Nat) (opts0 : Nat → Option Nat) (cs : List Nat) :
    ∀ (cfg : Cfg) (t : Thread), cfg.threads = [t] → Inv env cell0 opts0 cfg → SoloOwn cfg.sh →
      mu env cfg.sh t.todo ≤ cs.length →
      ∃ t', (exec env cfg (cs.map (fun c => (0, c)))).threads = [t'] ∧ t'.todo = [] := by
  induction cs with
  | nil =>
    intro cfg t ht inv _ hmu
    refine ⟨t, ht, ?_⟩
    cases htodo : t.todo with
    | nil => rfl
    | cons a rest =>
      exfalso
      have hk : ∀ o j k, cfg.sh.once o = .running j k → k ≤ closureLen env o := by
        intro o j k hs
        have := inv.once o
        unfold OnceOK at this
        simp only [hs] at this
        exact this.1
      have := headCost_pos env cfg.sh a hk
      simp [htodo, mu] at hmu
      omega
  | cons c rest ih =>
    intro cfg t ht inv hown hmu
    by_cases hne : t.todo = []
    · refine ⟨t, ?_, hne⟩
      rw [exec_nil_todo env (c :: rest) cfg t ht hne]; exact ht
    · obtain ⟨t', ht', hown', hlt⟩ := solo_step env henv cell0 opts0 cfg t c ht inv hown hne
      simp only [List.map_cons, exec, List.foldl]
      exact ih _ t' ht' (inv_step env henv cell0 opts0 cfg 0 c inv) hown' (by simp at hmu; omega)

/-! ### sequences of well-formed, balanced programs -/

/-- well formed and balanced: ends holding nothing -/
def wfBal (env : Env) (p : List Act) : Bool :=
  match wfRun env p initWf with
  | some w => !w.holding && !w.clean
  | none => false

def WfLe (w0 w1 : WfSt) : Prop := w0.holding = w1.holding ∧ w0.clean = w1.clean ∧ ∀ o, o ∈ w0.seen → o ∈ w1.seen

theorem wfStep_mono (env : Env) (a : Act) (w0 w1 w0' : WfSt) (h : wfStep env a w0 = some w0') (hle : WfLe w0 w1) :
    ∃ w1', wfStep env a w1 = some w1' ∧ WfLe w0' w1' := by
  obtain ⟨hh, hc, hs⟩ := hle
  cases a with
  | read r =>
    obtain ⟨rfl, hr, hsn⟩ := wfStep_read h
    refine ⟨w1, ?_, hh, hc, hs⟩
    simp only [wfStep, hr, Bool.false_eq_true, if_false]
    cases hon : env.onceOf r with
    | none => rfl
    | some o =>
      have : o ∈ w1.seen := hs o (hsn o hon)
      simp [this]
  | write r v => simp [wfStep] at h
  | putAgain q => simp [wfStep] at h
  | optWrite o v => simp [wfStep] at h
  | onceDo o =>
    have := wfStep_onceDo h; subst this
    refine ⟨{ w1 with seen := o :: w1.seen }, by simp [wfStep], hh, hc, ?_⟩
    intro o' ho'
    rcases List.mem_cons.mp ho' with e | e
    · simp [e]
    · exact List.mem_cons_of_mem _ (hs o' e)
  | get q =>
    obtain ⟨h0, rfl⟩ := wfStep_get h
    refine ⟨{ w1 with holding := true, clean := false }, ?_, rfl, rfl, hs⟩
    simp [wfStep, ← hh, h0]
  | use vals =>
    obtain ⟨h0, rfl⟩ := wfStep_use h
    exact ⟨w1, by simp [wfStep, ← hh, h0], hh, hc, hs⟩
  | readObj =>
    obtain ⟨h0, h1, rfl⟩ := wfStep_readObj h
    exact ⟨w1, by simp [wfStep, ← hh, ← hc, h0, h1], hh, hc, hs⟩
  | reset =>
    obtain ⟨h0, rfl⟩ := wfStep_reset h
    exact ⟨{ w1 with clean := true }, by simp [wfStep, ← hh, h0], hh, rfl, hs⟩
  | put q =>
    obtain ⟨h0, rfl⟩ := wfStep_put h
    exact ⟨{ w1 with holding := false, clean := false }, by simp [wfStep, ← hh, h0], rfl, rfl, hs⟩
  | optRead o =>
    have : w0' = w0 := by simp [wfStep] at h; exact h.symm
    subst this
    exact ⟨w1, by simp [wfStep], hh, hc, hs⟩
  | loc v =>
    have : w0' = w0 := by simp [wfStep] at h; exact h.symm
    subst this
    exact ⟨w1, by simp [wfStep], hh, hc, hs⟩

theorem wfRun_mono (env : Env) (p : List Act) : ∀ (w0 w1 w0' : WfSt), wfRun env p w0 = some w0' → WfLe w0 w1 →
    ∃ w1', wfRun env p w1 = some w1' ∧ WfLe w0' w1' := by
  induction p with
  | nil => intro w0 w1 w0' h hle; simp [wfRun] at h; subst h; exact ⟨w1, rfl, hle⟩
  | cons a rest ih =>
    intro w0 w1 w0' h hle
    simp only [wfRun] at h
    cases hs : wfStep env a w0 with
    | none => simp [hs] at h
    | some wm =>
      simp only [hs] at h
      obtain ⟨wm1, hs1, hle1⟩ := wfStep_mono env a w0 w1 wm hs hle
      obtain ⟨w1', hr1, hle'⟩ := ih wm wm1 w0' h hle1
      exact ⟨w1', by simp [wfRun, hs1, hr1], hle'⟩

theorem wfBal_append (env : Env) (p q : List Act) (hp : wfBal env p = true) (hq : wfBal env q = true) :
    wfBal env (p ++ q) = true := by
  unfold wfBal at *
  cases h1 : wfRun env p initWf with
  | none => simp [h1] at hp
  | some w1 =>
    simp only [h1, Bool.and_eq_true, Bool.not_eq_true'] at hp
    cases h2 : wfRun env q initWf with
    | none => simp [h2] at hq
    | some w2 =>
      simp only [h2, Bool.and_eq_true, Bool.not_eq_true'] at hq
      have hle : WfLe initWf w1 := ⟨by simp [initWf, hp.1], by simp [initWf, hp.2], by simp [initWf]⟩
      obtain ⟨w', hr, hle'⟩ := wfRun_mono env q initWf w1 w2 h2 hle
      rw [wfRun_append, h1]
      simp only [Option.bind, hr, Bool.and_eq_true, Bool.not_eq_true']
      exact ⟨by rw [← hle'.1]; exact hq.1, by rw [← hle'.2.1]; exact hq.2⟩

theorem wfBal_flatMap (env : Env) {α : Type} (f : α → List Act) (l : List α) (h : ∀ x ∈ l, wfBal env (f x) = true) :
    wfBal env (l.flatMap f) = true := by
  induction l with
  | nil => simp [wfBal, wfRun, initWf]
  | cons x rest ih =>
    rw [List.flatMap_cons]
    exact wfBal_append env _ _ (h x (by simp)) (ih (fun y hy => h y (List.mem_cons_of_mem _ hy)))

theorem wf_of_wfBal (env : Env) (p : List Act) (h : wfBal env p = true) : wf env p = true := by
  unfold wfBal at h
  unfold wf
  cases h1 : wfRun env p initWf with
  | none => simp [h1] at h
  | some w => rfl

/-! ### the environment read off the inventory is consistent -/

open Fit.SharedInv in
theorem envOfRows_ok (funcs : Array String) (ex : List Exception) (rows : List Row)
    (hids : rows.map (·.id) = List.range rows.length) : EnvOK (envOfRows funcs ex rows) := by
  have hpos : ∀ (i : Nat) (row : Row), rows[i]? = some row → row.id = i := by
    intro i row h
    have h1 : (rows.map (·.id))[i]? = some row.id := by simp [List.getElem?_map, h]
    rw [hids] at h1
    have hi : i < rows.length := by
      rcases Nat.lt_or_ge i rows.length with h' | h'
      · exact h'
      · rw [List.getElem?_eq_none h'] at h; cases h
    rw [List.getElem?_range hi] at h1
    exact (Option.some.inj h1).symm
  refine ⟨?_, ?_, ?_⟩
  · intro o r hr
    simp only [envOfRows, List.mem_map, List.mem_filter] at hr
    obtain ⟨row, ⟨hmem, hp⟩, hid⟩ := hr
    obtain ⟨i, hi, hget⟩ := List.getElem_of_mem hmem
    have hget' : rows[i]? = some row := by rw [List.getElem?_eq_getElem hi, hget]
    have : row.id = i := hpos i row hget'
    have hri : r = i := by rw [← hid, this]
    subst hri
    simp only [envOfRows, hget']
    simp only [Bool.and_eq_true, Bool.not_eq_true', beq_iff_eq] at hp
    simp [hp.1, hp.2]
  · intro o r hr
    simp only [envOfRows] at hr
    cases hrow : rows[r]? with
    | none => simp [hrow] at hr
    | some row =>
      simp only [hrow] at hr
      simp only [envOfRows, List.mem_map, List.mem_filter]
      refine ⟨row, ⟨List.mem_of_getElem? hrow, ?_⟩, hpos r row hrow⟩
      by_cases hc : (row.cat == .pool || row.cat == .once || row.cat == .mutex) = true
      · simp [hc] at hr
      · simp only [hc, Bool.false_eq_true, if_false] at hr
        simp [hc, hr]
  · intro o
    simp only [envOfRows]
    have hsub : ((rows.filter fun row =>
        !(row.cat == .pool || row.cat == .once || row.cat == .mutex) && row.onceOf == some o).map (·.id)).Sublist
        (rows.map (·.id)) := List.Sublist.map _ List.filter_sublist
    refine List.Nodup.sublist hsub ?_
    rw [hids]; exact List.nodup_range

end Fit.Shared
