import FitModel.Shared
/-! Lemmas for C15: invariants of interleaved executions over the shared-state model. Core Lean only. -/
namespace Fit.Shared

def ShOK (sh : Sh) : Prop := (∀ a ∈ sh.pool, a = zeroArr) ∧ (sh.once = true → sh.table = theTable)

/-- the shared state only grows: the once stays done; the options objects stay what they are -/
def ShLe (sh sh' : Sh) : Prop :=
  (sh.once = true → sh'.once = true) ∧ sh'.opts = sh.opts

/-- every options object is what the caller made it (`Factory` set or nil): nobody has written one -/
def OptsRel (sh0 sh : Sh) : Prop := sh.opts = sh0.opts

def PrivOK (sh : Sh) (p : Priv) : Prop :=
  (p.onceSeen = true → sh.once = true) ∧ (∀ a, p.held = some a → a.length = poolsize)

theorem removeNth_mem {l : List Arr} {i : Nat} {a : Arr} (h : a ∈ removeNth l i) : a ∈ l := by
  induction l generalizing i with
  | nil => simp [removeNth] at h
  | cons x xs ih =>
    cases i with
    | zero => simp [removeNth] at h; exact List.mem_cons_of_mem _ h
    | succ i =>
      simp only [removeNth, List.mem_cons] at h
      rcases h with rfl | h
      · exact List.mem_cons_self
      · exact List.mem_cons_of_mem _ (ih h)

theorem poolGet_zero (pool : List Arr) (c : Nat) (h : ∀ a ∈ pool, a = zeroArr) :
    (poolGet pool c).1 = zeroArr ∧ ∀ a ∈ (poolGet pool c).2, a = zeroArr := by
  unfold poolGet
  by_cases hc : c = 0
  · simp [hc]; exact h
  · simp only [hc, if_false]
    cases pool with
    | nil => simp
    | cons x xs =>
      simp only
      constructor
      · rw [List.getD_eq_getElem?_getD]
        cases hg : (x :: xs)[(c - 1) % (x :: xs).length]? with
        | none => rfl
        | some y => exact h y (List.mem_of_getElem? hg)
      · intro a ha; exact h a (removeNth_mem ha)

theorem privOK_mono {sh sh' : Sh} {p : Priv} (h : PrivOK sh p) (hle : ShLe sh sh') : PrivOK sh' p := by
  exact ⟨fun ho => hle.1 (h.1 ho), h.2⟩

theorem shLe_refl (sh : Sh) : ShLe sh sh := ⟨id, rfl⟩

theorem overlay_length (vals : List Nat) (a : Arr) : (overlay vals a).length = a.length := by
  simp only [overlay, List.length_take, List.length_append, List.length_drop]
  omega

/-- one action, under the invariants: the private effect is the solo effect; the shared invariants are kept and the
shared state only grows -/
theorem step_spec (sh0 sh : Sh) (p : Priv) (a : Act) (c : Nat) (hok : ShOK sh) (hrel : OptsRel sh0 sh) (hp : PrivOK sh p) :
    (step a c p sh).1 = privSolo sh0.opts a p ∧ ShOK (step a c p sh).2 ∧ OptsRel sh0 (step a c p sh).2 ∧
    ShLe sh (step a c p sh).2 ∧ PrivOK (step a c p sh).2 (step a c p sh).1 := by
  cases a with
  | onceDo =>
    by_cases h : sh.once = true
    · have e : (step Act.onceDo c p sh).2 = sh := by simp [step, h]
      rw [e]
      exact ⟨rfl, hok, hrel, shLe_refl _, fun _ => h, hp.2⟩
    · have e : (step Act.onceDo c p sh).2 = { sh with once := true, table := theTable } := by simp [step, h]
      rw [e]
      refine ⟨rfl, ⟨hok.1, fun _ => rfl⟩, hrel, ⟨fun _ => rfl, rfl⟩, fun _ => rfl, hp.2⟩
  | readTable k =>
    refine ⟨?_, hok, hrel, shLe_refl _, hp⟩
    simp only [step, privSolo]
    by_cases h : p.onceSeen = true
    · have := hok.2 (hp.1 h); simp [h, this]
    · simp [h]
  | get =>
    obtain ⟨h1, h2⟩ := poolGet_zero sh.pool c hok.1
    refine ⟨?_, ⟨h2, hok.2⟩, hrel, ⟨id, rfl⟩, ?_⟩
    · simp only [step, privSolo, h1]
    · refine ⟨hp.1, ?_⟩
      intro a ha
      simp only [step, Option.some.injEq] at ha
      rw [← ha, h1]; simp [zeroArr]
  | write vals =>
    refine ⟨rfl, hok, hrel, shLe_refl _, hp.1, ?_⟩
    intro a ha
    simp only [step, Option.map_eq_some_iff] at ha
    obtain ⟨b, hb, rfl⟩ := ha
    rw [overlay_length]; exact hp.2 b hb
  | clone k => exact ⟨rfl, hok, hrel, shLe_refl _, hp⟩
  | put =>
    cases hh : p.held with
    | none =>
      simp only [step, hh, privSolo]
      refine ⟨?_, hok, hrel, shLe_refl _, hp⟩
      cases p; simp_all
    | some a =>
      simp only [step, hh, privSolo]
      refine ⟨trivial, ⟨?_, hok.2⟩, hrel, ⟨id, rfl⟩, hp.1, ?_⟩
      · intro b hb
        rcases List.mem_cons.mp hb with rfl | hb
        · have hl := hp.2 a hh
          simp only [zeroArr, ← hl]
          exact List.map_const' ..
        · exact hok.1 b hb
      · intro b hb; simp at hb
  | optRead o =>
    refine ⟨?_, hok, hrel, shLe_refl _, hp⟩
    simp only [step, privSolo]
    rw [hrel]
  | loc v => exact ⟨rfl, hok, hrel, shLe_refl _, hp⟩

end Fit.Shared

namespace Fit.Shared

def soloPriv (opts0 : Nat → Option Nat) (acts : List Act) : Priv :=
  acts.foldl (fun p a => privSolo opts0 a p) initPriv

structure CfgInv (sh0 : Sh) (cfg : Cfg) : Prop where
  shok : ShOK cfg.sh
  rel : OptsRel sh0 cfg.sh
  thr : ∀ t ∈ cfg.threads, PrivOK cfg.sh t.priv ∧ t.priv = soloPriv sh0.opts t.done

theorem optsRel_refl (sh : Sh) : OptsRel sh sh := rfl

theorem cfgInv_init (progs : List (List Act)) (sh0 : Sh) (h0 : ShOK sh0) : CfgInv sh0 (initCfg progs sh0) := by
  refine ⟨h0, optsRel_refl _, ?_⟩
  intro t ht
  simp only [initCfg, List.mem_map] at ht
  obtain ⟨p, _, rfl⟩ := ht
  refine ⟨⟨?_, ?_⟩, rfl⟩ <;> simp [initPriv]

theorem cfgInv_step (sh0 : Sh) (cfg : Cfg) (i c : Nat) (inv : CfgInv sh0 cfg) : CfgInv sh0 (stepThread cfg i c) := by
  unfold stepThread
  cases hget : cfg.threads[i]? with
  | none => exact inv
  | some t =>
    simp only
    cases htodo : t.todo with
    | nil => exact inv
    | cons a rest =>
      simp only
      have htm : t ∈ cfg.threads := List.mem_of_getElem? hget
      obtain ⟨hpok, hpriv⟩ := inv.thr t htm
      obtain ⟨h1, h2, h3, h4, h5⟩ := step_spec sh0 cfg.sh t.priv a c inv.shok inv.rel hpok
      refine ⟨h2, h3, ?_⟩
      intro u hu
      rcases List.mem_or_eq_of_mem_set hu with hu | rfl
      · obtain ⟨upok, upriv⟩ := inv.thr u hu
        exact ⟨privOK_mono upok h4, upriv⟩
      · refine ⟨h5, ?_⟩
        simp only [soloPriv, List.foldl_append, List.foldl_cons, List.foldl_nil]
        rw [h1, hpriv]; rfl

theorem cfgInv_exec (sh0 : Sh) (sched : List (Nat × Nat)) : ∀ cfg, CfgInv sh0 cfg → CfgInv sh0 (exec cfg sched) := by
  induction sched with
  | nil => intro cfg h; exact h
  | cons e es ih => intro cfg h; exact ih _ (cfgInv_step sh0 cfg e.1 e.2 h)

/-- the program of every thread (done ++ todo) never changes -/
def progsOf (cfg : Cfg) : List (List Act) := cfg.threads.map (fun t => t.done ++ t.todo)

theorem progsOf_step (cfg : Cfg) (i c : Nat) : progsOf (stepThread cfg i c) = progsOf cfg := by
  unfold stepThread
  cases hget : cfg.threads[i]? with
  | none => rfl
  | some t =>
    simp only
    cases htodo : t.todo with
    | nil => rfl
    | cons a rest =>
      simp only [progsOf, List.map_set]
      have hi : i < cfg.threads.length := by
        rcases Nat.lt_or_ge i cfg.threads.length with h | h
        · exact h
        · rw [List.getElem?_eq_none h] at hget; cases hget
      apply List.ext_getElem
      · simp
      · intro n h1 h2
        by_cases hn : i = n
        · subst hn
          simp only [List.getElem_set_self, List.getElem_map]
          have : cfg.threads[i] = t := by
            have := List.getElem?_eq_getElem hi
            rw [this] at hget; exact Option.some.inj hget
          rw [this, htodo]; simp
        · simp [List.getElem_set_ne hn]

theorem progsOf_exec (sched : List (Nat × Nat)) : ∀ cfg, progsOf (exec cfg sched) = progsOf cfg := by
  induction sched with
  | nil => intro cfg; rfl
  | cons e es ih => intro cfg; exact (ih _).trans (progsOf_step cfg e.1 e.2)

theorem progsOf_init (progs : List (List Act)) (sh0 : Sh) : progsOf (initCfg progs sh0) = progs := by
  simp [progsOf, initCfg, Function.comp_def]

/-- **Non-interference, pointwise.** Under every schedule, every thread's private state is exactly what its own
actions so far produce when the operation runs alone — whatever the other threads did in between. -/
theorem priv_eq_solo (progs : List (List Act)) (sh0 : Sh) (h0 : ShOK sh0) (sched : List (Nat × Nat)) :
    ∀ t ∈ (exec (initCfg progs sh0) sched).threads, t.priv = soloPriv sh0.opts t.done :=
  fun t ht => ((cfgInv_exec sh0 sched _ (cfgInv_init progs sh0 h0)).thr t ht).2

/-- a thread that has finished, in any interleaving, ends in the state `soloPriv` of its whole program -/
theorem finished_eq_solo (progs : List (List Act)) (sh0 : Sh) (h0 : ShOK sh0) (sched : List (Nat × Nat)) (i : Nat)
    (t : Thread) (prog : List Act) (ht : (exec (initCfg progs sh0) sched).threads[i]? = some t)
    (hp : progs[i]? = some prog) (hfin : t.todo = []) : t.priv = soloPriv sh0.opts prog := by
  have h1 := priv_eq_solo progs sh0 h0 sched t (List.mem_of_getElem? ht)
  have h2 : progsOf (exec (initCfg progs sh0) sched) = progs := (progsOf_exec sched _).trans (progsOf_init progs sh0)
  have h3 : (progsOf (exec (initCfg progs sh0) sched))[i]? = some (t.done ++ t.todo) := by
    simp [progsOf, List.getElem?_map, ht]
  rw [h2, hp, hfin, List.append_nil] at h3
  rw [h1, Option.some.inj h3]

end Fit.Shared

namespace Fit.Shared

theorem single_exec (cs : List Nat) : ∀ (sh : Sh) (t0 : Thread),
    ∃ sh' p', exec { sh := sh, threads := [t0] } (cs.map (fun c => (0, c))) =
      { sh := sh', threads := [{ priv := p', done := t0.done ++ t0.todo.take cs.length, todo := t0.todo.drop cs.length }] } := by
  induction cs with
  | nil => intro sh t0; exact ⟨sh, t0.priv, by simp [exec]⟩
  | cons c cs ih =>
    intro sh t0
    simp only [List.map_cons, exec, List.foldl_cons]
    cases htodo : t0.todo with
    | nil =>
      have : stepThread { sh := sh, threads := [t0] } 0 c = { sh := sh, threads := [t0] } := by
        simp [stepThread, htodo]
      rw [this]
      obtain ⟨sh', p', h⟩ := ih sh t0
      refine ⟨sh', p', ?_⟩
      simp only [exec] at h
      rw [h, htodo]; simp
    | cons a rest =>
      have : stepThread { sh := sh, threads := [t0] } 0 c =
          { sh := (step a c t0.priv sh).2, threads := [{ priv := (step a c t0.priv sh).1, done := t0.done ++ [a], todo := rest }] } := by
        simp [stepThread, htodo]
      rw [this]
      obtain ⟨sh', p', h⟩ := ih (step a c t0.priv sh).2 { priv := (step a c t0.priv sh).1, done := t0.done ++ [a], todo := rest }
      refine ⟨sh', p', ?_⟩
      simp only [exec] at h
      rw [h]; simp

/-- the operation run alone with enough steps: one finished thread -/
theorem solo_finished (prog : List Act) (sh0 : Sh) (cs : List Nat) (hcs : prog.length ≤ cs.length) :
    ∃ ts, (soloExec prog sh0 cs).threads = [ts] ∧ ts.todo = [] ∧ ts.done = prog := by
  obtain ⟨sh', p', h⟩ := single_exec cs sh0 { priv := initPriv, done := [], todo := prog }
  refine ⟨_, by unfold soloExec initCfg; simp only [List.map_cons, List.map_nil]; rw [h], ?_, ?_⟩
  · simp [List.drop_eq_nil_of_le hcs]
  · simp [List.take_of_length_le hcs]

/-- **No action writes an options object**, in any state: the nil check of `ToMesg` takes the default in a local. -/
theorem opts_step (a : Act) (c : Nat) (p : Priv) (sh : Sh) : (step a c p sh).2.opts = sh.opts := by
  cases a <;> simp [step]
  · by_cases h : sh.once = true <;> simp [h]
  · cases p.held <;> rfl

theorem opts_stepThread (cfg : Cfg) (i c : Nat) : (stepThread cfg i c).sh.opts = cfg.sh.opts := by
  unfold stepThread
  cases cfg.threads[i]? with
  | none => rfl
  | some t =>
    simp only
    cases t.todo with
    | nil => rfl
    | cons a rest => exact opts_step a c t.priv cfg.sh

/-- under every schedule, from ANY initial configuration, all options objects are what they were at the start -/
theorem opts_exec (sched : List (Nat × Nat)) : ∀ cfg, (exec cfg sched).sh.opts = cfg.sh.opts := by
  induction sched with
  | nil => intro cfg; rfl
  | cons e es ih => intro cfg; exact (ih _).trans (opts_stepThread cfg e.1 e.2)

/-- action `a` (with `Get` choice `c`, private state `p`), executed by step function `stp` in shared state `sh`, WRITES
options object `o`: the cell afterwards differs from the cell before (semantic; not a list of "writing" constructors) -/
def WritesOpt (stp : Act → Nat → Priv → Sh → Priv × Sh) (a : Act) (c : Nat) (p : Priv) (sh : Sh) (o : Nat) : Prop :=
  (stp a c p sh).2.opts o ≠ sh.opts o

/-- a data race on a caller's options object, at model level (for a step semantics `stp`): some thread's next action
WRITES `options.Factory` of object `o` (for some resolution `c` of `Get`) while another thread still has an
(unsynchronised) access to the same object ahead of it -/
def ConflictAtWith (stp : Act → Nat → Priv → Sh → Priv × Sh) (cfg : Cfg) : Prop :=
  ∃ (i j : Nat) (ti tj : Thread) (a : Act) (rest : List Act) (o c : Nat), i ≠ j ∧ cfg.threads[i]? = some ti ∧
    cfg.threads[j]? = some tj ∧ ti.todo = a :: rest ∧ WritesOpt stp a c ti.priv cfg.sh o ∧ mentions tj.todo o = true

/-- the conflict notion for the model's own step function -/
def ConflictAt (cfg : Cfg) : Prop := ConflictAtWith step cfg

/-- no configuration at all (reachable or not) has a thread about to write an options object -/
theorem no_conflict_any (cfg : Cfg) : ¬ ConflictAt cfg := by
  rintro ⟨i, j, ti, tj, a, rest, o, c, _, _, _, _, hw, _⟩
  exact hw (by rw [opts_step])

/-- the step semantics of the code BEFORE the repair of KF-C15-1 (`else if options.Factory == nil { options.Factory =
factory.StandardFactory() }`): the nil check wrote the caller's object. Kept only to show that `ConflictAtWith`
discriminates (it holds of the old semantics on the finding's witness, and of no configuration under `step`). -/
def stepPreFix (a : Act) (c : Nat) (p : Priv) (sh : Sh) : Priv × Sh :=
  match a with
  | .optRead o =>
    ((step a c p sh).1, if (sh.opts o).isNone then { sh with opts := fun x => if x = o then some stdFactory else sh.opts x } else sh)
  | _ => step a c p sh

/-- F16's witness at model level: two `ToMesg` conversions sharing one options object whose `Factory` is nil -/
def kfProgs : List (List Act) := [progToMesg 0 [1], progToMesg 0 [2]]
def kfSh : Sh := { once := false, table := fun _ => 0, pool := [], opts := fun _ => none }

theorem kfSh_ok : ShOK kfSh := ⟨by simp [kfSh], by simp [kfSh]⟩

/-- under the pre-repair semantics the witness is a conflict (this was `C15_KF1_witness`) -/
theorem kf_conflict_preFix : ConflictAtWith stepPreFix (initCfg kfProgs kfSh) := by
  refine ⟨0, 1, _, _, .optRead 0, _, 0, 0, by decide, rfl, rfl, rfl, ?_, rfl⟩
  simp [WritesOpt, stepPreFix, initCfg, kfSh]

/-- results do not rest on what `Get` hands out: from ANY shared state (pool content arbitrary, not necessarily zeroed)
and any choice of `Get`, `mesgdef.NewXxx` yields exactly the values it appended -/
theorem new_result_any_pool (vals : List Nat) (sh : Sh) (c1 c2 c3 c4 : Nat) :
    ∃ ts, (soloExec (progNew vals) sh [c1, c2, c3, c4]).threads = [ts] ∧ ts.priv.out = vals := by
  refine ⟨_, rfl, ?_⟩
  simp [progNew, initPriv]

end Fit.Shared

namespace Fit.Shared

def isOnce : Act → Bool
  | .onceDo => true
  | _ => false

theorem once_step (a : Act) (c : Nat) (p : Priv) (sh : Sh) : (step a c p sh).2.once = (sh.once || isOnce a) := by
  cases a <;> simp [step, isOnce]
  · by_cases h : sh.once = true <;> simp [h]
  · cases p.held <;> rfl

theorem table_step (a : Act) (c : Nat) (p : Priv) (sh : Sh) :
    (step a c p sh).2.table = if sh.once || !isOnce a then sh.table else theTable := by
  cases a <;> simp [step, isOnce]
  · by_cases h : sh.once = true <;> simp [h]
  · cases p.held <;> rfl

/-- shared states that agree except possibly in HOW MANY zeroed arrays the pool holds (`sync.Pool.Get` may allocate) -/
def ShEq (a b : Sh) : Prop :=
  a.once = b.once ∧ a.table = b.table ∧ a.opts = b.opts ∧ (∀ x ∈ a.pool, x = zeroArr) ∧ (∀ x ∈ b.pool, x = zeroArr)

/-- **Actions of different operations commute**: executing action `a` of one operation and action `b` of another in
either order gives the same private states and the same shared state up to the number of zeroed arrays in the pool. -/
theorem actions_commute (sh0 sh : Sh) (p q : Priv) (a b : Act) (c d : Nat)
    (hok : ShOK sh) (hrel : OptsRel sh0 sh) (hp : PrivOK sh p) (hq : PrivOK sh q) :
    (step a c p sh).1 = (step a c p (step b d q sh).2).1 ∧
    (step b d q (step a c p sh).2).1 = (step b d q sh).1 ∧
    ShEq (step b d q (step a c p sh).2).2 (step a c p (step b d q sh).2).2 := by
  obtain ⟨a1, a2, a3, a4, _⟩ := step_spec sh0 sh p a c hok hrel hp
  obtain ⟨b1, b2, b3, b4, _⟩ := step_spec sh0 sh q b d hok hrel hq
  obtain ⟨ab1, ab2, _, _, _⟩ := step_spec sh0 (step a c p sh).2 q b d a2 a3 (privOK_mono hq a4)
  obtain ⟨ba1, ba2, _, _, _⟩ := step_spec sh0 (step b d q sh).2 p a c b2 b3 (privOK_mono hp b4)
  refine ⟨by rw [a1, ba1], by rw [ab1, b1], ?_, ?_, ?_, ab2.1, ba2.1⟩
  · simp only [once_step]
    cases sh.once <;> cases isOnce a <;> cases isOnce b <;> rfl
  · simp only [table_step, once_step]
    cases sh.once <;> cases isOnce a <;> cases isOnce b <;> rfl
  · simp only [opts_step]

end Fit.Shared
