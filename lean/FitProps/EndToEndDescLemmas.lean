import FitProps.EndToEndLemmas
/-!
What the encoder's message validator guarantees of the FIELD DESCRIPTIONS on the wire (C01, wire level ↔ C10): for the
messages `messageValidator.Validate` retained (`KeptOK`, from `C10_post`), built from a factory that knows the three key
members of `field_description` as the standard factory does, the wire model's decoder reads from the written
`field_description` messages exactly the descriptions the validator registered, and no developer field is written under a
description whose base type is invalid — the hypothesis `Wire.msgsDescOK` of `C01_wire_records` / `_sequence` / `_chain`.
-/
set_option linter.unusedSimpArgs false
namespace Fit.E2E
open Fit.Gen Fit.Value Fit.Msg

/-- what the wire decoder keeps of a field description -/
def descTriple (fd : Fit.Validator.FieldDesc) : Wire.Desc := (fd.ddi, fd.fdn, fd.btId)

/-- the decoder's factory knows developer_data_index, field_definition_number and fit_base_type_id of `field_description`
(the standard factory does; `Fit.Wire` hard-codes it, as `Fit.DecProg` does) -/
def keysKnown (fac : DecApi.Factory) : Bool :=
  (fac.create mesgNumFieldDescription fnFieldDescriptionDeveloperDataIndex).known &&
  (fac.create mesgNumFieldDescription fnFieldDescriptionFieldDefinitionNumber).known &&
  (fac.create mesgNumFieldDescription fnFieldDescriptionFitBaseTypeId).known

/-- a field as far as key `k` of a field description goes: it has a `FieldBase`, and when it is numbered `k` its name is known
and it holds a plain `uint8` -/
def KeyOK (k : Nat) (f : Field) : Prop :=
  ∃ b, f.base = some b ∧ (b.num = k → b.nameKnown = true ∧ ∃ x, f.value = .uint8 x)

def fdStepV (k : Nat) (acc : Value) (f : Field) : Value :=
  match f.base with
  | some b => if b.num == k && b.nameKnown && b.num ≤ 15 then f.value else acc
  | none => acc

theorem fdVal_foldl (fs : List Field) (k : Nat) : Fit.Validator.fdVal fs k = fs.foldl (fdStepV k) .invalid := rfl

def wireOf (arch : Nat) (fs : List Field) : List (Wire.FieldDef × List Nat) :=
  (fs.filterMap (toWField arch)).map fun f => ((⟨f.num, f.data.length % 256, f.bt⟩ : Wire.FieldDef), f.data)

theorem getLast?_cons_getD {α : Type} (a : α) (l : List α) (g : α → Nat) (d : Nat) :
    (((a :: l).getLast?).map g).getD d = ((l.getLast?).map g).getD (g a) := by
  cases l with
  | nil => rfl
  | cons b t =>
    have : (a :: b :: t).getLast? = (b :: t).getLast? := by simp [List.getLast?_cons_cons]
    rw [this]
    cases h : (b :: t).getLast? with
    | none => simp at h
    | some p => rfl

theorem lastVal_eq (vals : List (Nat × List Nat)) (k : Nat) :
    Wire.lastVal vals k = (((vals.filter fun p => p.1 = k).getLast?).map (fun p => p.2.headD 0)).getD 255 := by
  unfold Wire.lastVal
  cases (vals.filter fun p => p.1 = k).getLast? <;> rfl

/-- THE KEY LEMMA: the byte the wire decoder takes for key `k` (first byte of the last field numbered `k` with a non-zero
size) is the `uint8` the validator's `NewFieldDescription` takes (value of the last field numbered `k` with a known name) -/
theorem lastVal_fdVal (arch k : Nat) (hk : k ≤ 15) : ∀ (fs : List Field) (acc : Value), (∀ f ∈ fs, KeyOK k f) →
    ((((Wire.readFields (wireOf arch fs)).filter fun p => p.1 = k).getLast?).map (fun p => p.2.headD 0)).getD (uint8Of acc) =
      uint8Of (fs.foldl (fdStepV k) acc) := by
  intro fs
  induction fs with
  | nil => intro acc _; rfl
  | cons f fs ih =>
    intro acc h
    obtain ⟨b, hb, hkey⟩ := h f (by simp)
    have ih' := fun a => ih a (fun g hg => h g (by simp [hg]))
    have htw : toWField arch f = some ⟨b.num, b.baseType, typeOf f.value, (marshal f.value arch).getD []⟩ := by
      simp only [toWField, hb]
    by_cases hn : b.num = k
    · obtain ⟨hkn, x, hx⟩ := hkey hn
      have hstep : fdStepV k acc f = .uint8 x := by
        have : (b.num == k && b.nameKnown && decide (b.num ≤ 15)) = true := by
          simp [hn, hkn, hk]
        simp only [fdStepV, hb, this, if_true, hx]
      have hlist : (Wire.readFields (wireOf arch (f :: fs))).filter (fun p => p.1 = k) =
          (k, [x % 256]) :: (Wire.readFields (wireOf arch fs)).filter (fun p => p.1 = k) := by
        simp only [wireOf, List.filterMap_cons, htw, List.map_cons, Wire.readFields, hx, marshal, Option.getD_some,
          List.length_singleton, List.filter_cons]
        simp [hn]
      rw [hlist, getLast?_cons_getD, List.foldl_cons, hstep, ← ih' (.uint8 x)]
      rfl
    · have hstep : fdStepV k acc f = acc := by
        have : (b.num == k && b.nameKnown && decide (b.num ≤ 15)) = false := by simp [hn]
        simp only [fdStepV, hb, this, Bool.false_eq_true, if_false]
      have hlist : (Wire.readFields (wireOf arch (f :: fs))).filter (fun p => p.1 = k) =
          (Wire.readFields (wireOf arch fs)).filter (fun p => p.1 = k) := by
        simp only [wireOf, List.filterMap_cons, htw, List.map_cons, Wire.readFields, List.filter_cons]
        split
        · simp [hn]
        · rfl
      rw [hlist, List.foldl_cons, hstep]
      exact ih' acc

theorem wireFields_toWire (arch : Nat) (m : Message) : Wire.wireFields (toWire arch m) = wireOf arch m.fields := rfl

theorem lastVal_toWire (arch k : Nat) (hk : k ≤ 15) (m : Message) (h : ∀ f ∈ m.fields, KeyOK k f) :
    Wire.lastVal (Wire.readFields (Wire.wireFields (toWire arch m))) k = uint8Of (Fit.Validator.fdVal m.fields k) := by
  have := lastVal_fdVal arch k hk m.fields .invalid h
  rw [fdVal_foldl, ← this, wireFields_toWire, lastVal_eq]
  rfl

theorem keyOK_of_dom (fac : DecApi.Factory) (m : Message) (hm : MsgDom fac m) (h206 : m.num = mesgNumFieldDescription)
    (k : Nat) (hk : k = fnFieldDescriptionDeveloperDataIndex ∨ k = fnFieldDescriptionFieldDefinitionNumber ∨ k = fnFieldDescriptionFitBaseTypeId)
    (hkn : (fac.create mesgNumFieldDescription k).known = true) : ∀ f ∈ m.fields, KeyOK k f := by
  intro f hf
  obtain ⟨hsome, hag⟩ := hm.agree f hf
  cases hb : f.base with
  | none => rw [hb] at hsome; cases hsome
  | some b =>
    refine ⟨b, hb, fun hn => ?_⟩
    constructor
    · simp only [agreeField, hb, Bool.and_eq_true, beq_iff_eq] at hag
      rw [← hag.1, h206, hn, hkn]
    · have hp := hm.plain
      simp only [plainKeys, h206, if_true, List.all_eq_true] at hp
      have := hp f hf
      rw [hb] at this
      have hkey : (b.num == fnFieldDescriptionDeveloperDataIndex || b.num == fnFieldDescriptionFieldDefinitionNumber ||
          b.num == fnFieldDescriptionFitBaseTypeId) = true := by
        rcases hk with h | h | h <;> simp [hn, h]
      simp only [hkey, Bool.not_true, Bool.false_or] at this
      cases hv : f.value <;> rw [hv] at this <;> simp at this
      exact ⟨_, rfl⟩

/-- ENCODER AND WIRE DECODER REMEMBER THE SAME FIELD DESCRIPTIONS after a validated message -/
theorem noteDesc_toWire (fac : DecApi.Factory) (hkeys : keysKnown fac = true) (arch : Nat) (m : Message) (hm : MsgDom fac m)
    (st : Fit.Validator.State) :
    Wire.noteDesc (st.fds.map descTriple) m.num (Wire.wireFields (toWire arch m)) =
      (Fit.Validator.remember st m.num m.fields).fds.map descTriple := by
  simp only [keysKnown, Bool.and_eq_true] at hkeys
  by_cases h206 : m.num = mesgNumFieldDescription
  · have hne : ¬ mesgNumFieldDescription = mesgNumDeveloperDataId := by decide
    have hrem : (Fit.Validator.remember st m.num m.fields).fds = st.fds ++ [Fit.Validator.newFieldDesc m.fields] := by
      simp only [Fit.Validator.remember, h206, hne, if_false, if_true]
    have h0 := lastVal_toWire arch 0 (by decide) m (keyOK_of_dom fac m hm h206 _ (Or.inl rfl) hkeys.1.1)
    have h1 := lastVal_toWire arch 1 (by decide) m (keyOK_of_dom fac m hm h206 _ (Or.inr (Or.inl rfl)) hkeys.1.2)
    have h2 := lastVal_toWire arch 2 (by decide) m (keyOK_of_dom fac m hm h206 _ (Or.inr (Or.inr rfl)) hkeys.2)
    have hw : (toWire arch m).num = m.num := rfl
    rw [hrem, List.map_append]
    simp only [Wire.noteDesc, h206, Wire.mesgNumFieldDescription, mesgNumFieldDescription, if_true, h0, h1, h2, List.map_cons,
      List.map_nil, descTriple, Fit.Validator.newFieldDesc]
    rfl
  · have h206' : ¬ m.num = Wire.mesgNumFieldDescription := h206
    have hrem : (Fit.Validator.remember st m.num m.fields).fds = st.fds := by
      simp only [Fit.Validator.remember]
      split
      · rfl
      · simp only [h206, if_false]
    rw [hrem]
    simp only [Wire.noteDesc, h206', if_false]

theorem findDesc_map (fds : List Fit.Validator.FieldDesc) (d : DevField) (sz : Nat) :
    Wire.findDesc (fds.map descTriple) ⟨d.num, sz, d.devIdx⟩ = (Fit.Validator.lookupFd fds d).map descTriple := by
  simp only [Wire.findDesc, Fit.Validator.lookupFd, List.find?_map]
  congr 1
  congr 1
  funext fd
  simp only [descTriple, Function.comp]
  by_cases h1 : fd.ddi = d.devIdx <;> by_cases h2 : fd.fdn = d.num <;> simp [h1, h2]

/-- **WHAT THE VALIDATOR LETS THROUGH SATISFIES `msgsDescOK`.** -/
theorem msgsDescOK_of_kept (fac : DecApi.Factory) (hkeys : keysKnown fac = true) (arch : Nat) : ∀ (kept : List Message)
    (st : Fit.Validator.State), KeptOK st kept → (∀ m ∈ kept, MsgDom fac m) →
    Wire.msgsDescOK (st.fds.map descTriple) (kept.map (toWire arch)) = true := by
  intro kept
  induction kept with
  | nil => intro _ _ _; rfl
  | cons m ms ih =>
    intro st hk hd
    obtain ⟨_, _, _, hdevs, hrest⟩ := hk
    have hm := hd m (by simp)
    have hw : (toWire arch m).num = m.num := rfl
    simp only [List.map_cons, Wire.msgsDescOK, hw, Bool.and_eq_true]
    rw [noteDesc_toWire fac hkeys arch m hm st]
    refine ⟨?_, ih _ hrest (fun x hx => hd x (by simp [hx]))⟩
    simp only [Wire.devsDescOK, toWire, List.all_map, List.all_eq_true, Function.comp, toWDev, Bool.not_eq_true']
    intro d hdm
    obtain ⟨fd, hl, hal, _⟩ := hdevs d hdm
    simp only [Wire.descInvalid, findDesc_map, hl, Option.map_some, descTriple]
    have := btValid_wire _ (align_valid _ _ hal)
    simp [this]

end Fit.E2E
