import FitProps.C10
import FitProps.ValidatorArithLemmas
/-!
# C10 — the validator with its arithmetic and factory look-ups INSIDE the model (composition with C12)

PROPERTY THEOREMS (audited by ./check): C10_std_factory_in_range, C10_validate_filter_arith, C10_restore_exact,
C10_physical_eq_raw, C10_restore_exact_native, C10_restore_exact_desc, C10_rescale_witness_arith

`Fit.ValidatorA` (FitModel/ValidatorArith.lean) instantiates
`D` with `Fit.ScaleOffset.discardValue` — the model of kit/scaleoffset over the binary64 model `Fit.F64`, the definitions
C12's theorems are about — and `Options.factory` with `ValidatorA.stdFactory`, read from the regenerated `Generated/ValidatorFactory.lean`
(every field of `factory.StandardFactory()`, printed from the compiled /repo on every run). Every theorem of FitProps/C10.lean
holds for this instance (they hold for every `D`); the theorems here say what the restoration COMPUTES:
`C10_restore_exact` — validating a message that carries the float64 physical value of a raw value writes back exactly that
raw value (from C12's round trip `helperRT_int`), for every pair in C12's range `InRangePair` (decidable: the unit pair, or a
positive normal scale in [1/2, 2^17) with |offset| < 2^10) — which every pair of the regenerated factory meets
(`C10_std_factory_in_range`) and every scale 1..254 / int8 offset of a field description (`C10_restore_exact_desc`).
Guards, all explicit: integer base types of at most 32 bits (binary64 cannot carry every int64: `C12_helpers_int64`), pairs in
range, raw values that fit their type; on that domain no float→integer conversion is left to the platform
(`discardValueFlag = false` is part of the conclusion). Outside it (NaN, ±Inf, out-of-range products) the model reproduces
amd64 (`Fit.F64.cvt`) and the driver counts such lines (`Fit.ValidatorA.flagged`); nothing is claimed about them beyond the
theorems of FitProps/C10.lean.

Known findings: KF-C10-1 (F11, nil `FieldBase` under protocol 1.0 panicked) is FIXED in /repo: `C10_gate_no_panic`
is now the full statement. KF-C10-3 (no field kept and all developer fields dropped → the empty message was accepted
once, rejected the second time) is FIXED in /repo (`Validate` repeats the emptiness test after the developer-field
loop): `C10_post` now states that an accepted message is never empty and `C10_idempotent_partial` no longer excludes
that class. Open: KF-C10-2 (a float64 value under base type float64 is scaled again): `C10_idempotent_partial`
excludes it, `C10_idempotent_full_fails_rescale` refutes the full statement.
-/
namespace Fit.C10
open Fit.Gen Fit.Value Fit.Msg Fit.Validator


open Fit.ValidatorA Fit.ScaleOffset Fit.F64 Fit.C12 Fit.C12L

/-- **The regenerated standard factory lies in C12's range.** Every field `factory.StandardFactory()` knows (table
regenerated from the compiled /repo on every run) carries the unit pair (scale 1, offset 0), or a (scale, offset) pair that
meets C12's side condition `pairOK` on a base type that restores to a Go integer type of at most 32 bits (no 64-bit, float or
enum field of the profile is scaled). A profile release that leaves the range breaks this theorem, not the tie. -/
theorem C10_std_factory_in_range (mn fn : Nat) (h : (ValidatorA.stdFactory mn fn).nameKnown = true) :
    ((ValidatorA.stdFactory mn fn).scale = oneBits ∧ (ValidatorA.stdFactory mn fn).offset = 0) ∨
    (pairOK (ValidatorA.stdFactory mn fn).scale (ValidatorA.stdFactory mn fn).offset = true ∧
      ∃ ty : IntTy, tgtOfBaseType (ValidatorA.stdFactory mn fn).baseType = some (.int ty) ∧ ty.bits ≤ 32) :=
  stdFactory_inrange mn fn h

/-- non-vacuity: record.altitude (20, 2) is known, uint16, scale 5, offset 500 — a pair of `C12.profilePairs` -/
example : ValidatorA.stdFactory 20 2 = { nameKnown := true, baseType := btUint16, scale := 0x4014000000000000, offset := 0x407f400000000000 } ∧
    (ValidatorA.stdFactory 20 2).nameKnown = true ∧ ValidatorA.stdFactory 20 200 = {} ∧
    ((ValidatorA.stdFactory 20 2).scale, (ValidatorA.stdFactory 20 2).offset) ∈ profilePairs := by decide +kernel

/-- the field survives: `FieldBase`, not expanded, and (unless preserving) the restored value — computed by
`ScaleOffset.validatorRestore`, the function `C12_validator` is about — is valid -/
def keepFieldA (o : Options) (f : Field) : Bool :=
  match f.base with
  | none => false
  | some b => !f.isExpanded && (!o.omitInvalid || valid (validatorRestore f.value b.baseType b.scale b.offset) b.baseType)

/-- the field with its value restored by `ScaleOffset.validatorRestore` -/
def restoredFieldA (f : Field) : Field :=
  match f.base with
  | some b => { f with value := validatorRestore f.value b.baseType b.scale b.offset }
  | none => f

/-- **`C10_validate_filter` with the arithmetic inside.** With `scaleoffset.DiscardValue` modelled (not a parameter): an
accepted message keeps its number; its fields are the input fields that have a `FieldBase`, are not expanded and (unless
preserving) whose RESTORED value is valid, in order, each with its value restored — where "restored" is now a definite
function of the field: `validatorRestore value baseType scale offset` = `DiscardValue(…)` over binary64 when
`scale != 1 || offset != 0`, the value itself otherwise; likewise the developer fields (native override through the factory
of the options, else the description's scale and offset). Typing guard: scales and offsets are float64 bit patterns. -/
theorem C10_validate_filter_arith (o : Options) (st : State) (m m' : Message)
    (h : (validateA o st m).1 = .ok m')
    (hbits : ∀ f ∈ m.fields, ∀ b, f.base = some b → b.scale < 2 ^ 64 ∧ b.offset < 2 ^ 64) :
    m'.num = m.num ∧ m'.fields = (m.fields.filter (keepFieldA o)).map restoredFieldA ∧
    m'.devFields = (m.devFields.filter (keepDev D o (validateA o st m).2)).map (restoredDev D o (validateA o st m).2) := by
  obtain ⟨h1, h2, h3⟩ := C10_validate_filter D o st m m' h
  refine ⟨h1, ?_, h3⟩
  rw [h2]
  have hk : ∀ f ∈ m.fields, keepField D o f = keepFieldA o f ∧ restoredField D f = restoredFieldA f := by
    intro f hf
    cases hb : f.base with
    | none => simp [keepField, keepFieldA, restoredField, restoredFieldA, hb]
    | some b =>
      obtain ⟨hs, ho⟩ := hbits f hf b hb
      simp only [keepField, keepFieldA, restoredField, restoredFieldA, hb, restoreField_eq_validatorRestore f b hs ho, and_self]
  rw [List.filter_congr (fun f hf => (hk f hf).1)]
  exact List.map_congr_left (fun f hf => (hk f (List.mem_filter.mp hf).1).2)

/-- **`C10_restore_exact`: the physical value is written back as exactly the raw value.** In any message the validator
accepts: a field (with `FieldBase` `b`, not expanded) whose value is what `scaleoffset.ApplyValue` makes of the raw value `p`
— its float64 physical value `float64(p)/scale − offset`; `p` itself under the unit pair — for an integer base type of at most
32 bits, a (scale, offset) pair in C12's range and a raw value that is valid for the base type (or with "preserve invalid
values"), comes out of validation holding exactly `p` under its base type, and no float→integer conversion on the way was
left to the platform. (C12's round trip `helperRT_int`: four roundings of relative error 2^-53 stay below 1/2.) -/
theorem C10_restore_exact (o : Options) (st : State) (m m' : Message) (h : (validateA o st m).1 = .ok m')
    (f : Field) (hf : f ∈ m.fields) (b : FieldBase) (hb : f.base = some b) (hx : f.isExpanded = false)
    (ty : IntTy) (hty : ty.bits ≤ 32) (hbt : tgtOfBaseType b.baseType = some (.int ty))
    (hr : InRangePair b.scale b.offset) (p : Nat) (hp : p < 2 ^ ty.bits)
    (hv : f.value = applyValue (scalarV ty p) b.scale b.offset)
    (hkeep : o.omitInvalid = true → valid (scalarV ty p) b.baseType = true) :
    { f with value := scalarV ty p } ∈ m'.fields ∧ fieldFlag f = false := by
  obtain ⟨_, h2, _⟩ := C10_validate_filter D o st m m' h
  have hrest : restoreField D f b = { f with value := scalarV ty p } := restoreField_exact f b ty hty p hp hbt hr hv
  constructor
  · rw [h2]
    refine List.mem_map.mpr ⟨f, List.mem_filter.mpr ⟨hf, ?_⟩, by simp [restoredField, hb, hrest]⟩
    simp only [keepField, hb, hx, Bool.not_false, Bool.true_and, hrest, Bool.or_eq_true, Bool.not_eq_true']
    cases ho : o.omitInvalid with
    | false => exact Or.inl rfl
    | true => exact Or.inr (hkeep ho)
  · simp only [fieldFlag, hb, hx, Bool.not_false, Bool.true_and, Bool.and_eq_false_iff]
    rcases hr with hr | ⟨hs, ho⟩
    · right
      obtain ⟨_, _, _, _, _, hu, _⟩ := pairOK_spec _ _ hr
      rw [hv, applyValue_scalarV ty p _ _ hu]
      exact (discardValue_exact ty hty p hp b.baseType b.scale b.offset hbt (Or.inl hr)).2
    · left
      rw [hs, ho]; exact no_call_unit

/-- non-vacuity (and the former witness of F07 through the validator): record.distance (uint32, scale 100) raw 29 has the
physical value 0.29; the message carrying 0.29 is accepted and comes out carrying uint32 29 -/
example : (validateA (stdOptions true) {} ⟨20, [⟨some ⟨5, btUint32, false, false, 0x4059000000000000, 0, true, false⟩,
      applyValue (scalarV .u32 29) 0x4059000000000000 0, false⟩], []⟩).1 =
    .ok ⟨20, [⟨some ⟨5, btUint32, false, false, 0x4059000000000000, 0, true, false⟩, .uint32 29, false⟩], []⟩ ∧
    applyValue (scalarV .u32 29) 0x4059000000000000 0 = .float64 0x3FD28F5C28F5C28F ∧
    InRangePair 0x4059000000000000 0 := by decide +kernel

/-- **A message in physical units is validated to what the same message in raw units is validated to.** For every list of
fields of the profile's kind (integer base type of at most 32 bits, pair in range, raw value fitting the type), every
message number, developer fields, options and validator state: `Validate` on the message whose fields carry the float64
physical values (`ApplyValue` of the raw values) returns what it returns on the message whose fields carry the raw values —
the same verdict, the same validated message, the same state; so the encoder writes the same bytes for both. -/
theorem C10_physical_eq_raw (o : Options) (st : State) (num : Nat) (ss : List Scaled) (devs : List DevField)
    (h : ∀ s ∈ ss, s.OK) :
    validateA o st ⟨num, ss.map Scaled.phys, devs⟩ = validateA o st ⟨num, ss.map Scaled.raw, devs⟩ := by
  simp only [validateA, validate, validateFields_phys_eq_raw o ss 0 h]

/-- non-vacuity: record.altitude 2600 (scale 5, offset 500: 20.0 m) and record.heart_rate 70 (unit pair) -/
example : Scaled.OK ⟨⟨2, btUint16, false, false, 0x4014000000000000, 0x407f400000000000, true, false⟩, .u16, 2600⟩ ∧
    Scaled.OK ⟨⟨3, btUint8, false, false, oneBits, 0, true, false⟩, .u8, 70⟩ := by
  refine ⟨⟨by decide, by decide, Or.inl (by decide +kernel), by decide⟩, ⟨by decide, by decide, Or.inr ⟨rfl, rfl⟩, by decide⟩⟩

/-- **Developer fields: the native-field override is resolved through the regenerated profile.** A developer field whose
field description names a native (message, field) the standard factory knows, holding what `ApplyValue` makes of the raw
value `p` under THAT field's scale and offset (looked up in the regenerated table, not carried in the line), is restored to
exactly `p` — for every field of the profile whose base type restores to an integer type: no hypothesis on the pair is
needed (`C10_std_factory_in_range`). -/
theorem C10_restore_exact_native (om : Bool) (fd : FieldDesc) (d : DevField)
    (hn : (fd.nativeMesgNum != mesgNumInvalid && fd.nativeFieldNum != uint8Invalid) = true)
    (hk : (ValidatorA.stdFactory fd.nativeMesgNum fd.nativeFieldNum).nameKnown = true)
    (ty : IntTy) (hty : ty.bits ≤ 32)
    (hbt : tgtOfBaseType (ValidatorA.stdFactory fd.nativeMesgNum fd.nativeFieldNum).baseType = some (.int ty))
    (p : Nat) (hp : p < 2 ^ ty.bits)
    (hv : d.value = applyValue (scalarV ty p) (ValidatorA.stdFactory fd.nativeMesgNum fd.nativeFieldNum).scale
      (ValidatorA.stdFactory fd.nativeMesgNum fd.nativeFieldNum).offset) :
    restoreDev D (stdOptions om) fd d = { d with value := scalarV ty p } :=
  restoreDev_native_exact om fd d hn hk ty hty hbt p hp hv

/-- non-vacuity: a developer field described as native record.altitude (20, 2) holding 20.0 m comes back as uint16 2600 -/
example : restoreDev D (stdOptions true) ⟨0, 1, btUint16, 255, 127, 20, 2⟩ ⟨0, 1, .float64 0x4034000000000000⟩ =
    ⟨0, 1, .uint16 2600⟩ ∧
    applyValue (scalarV .u16 2600) (ValidatorA.stdFactory 20 2).scale (ValidatorA.stdFactory 20 2).offset = .float64 0x4034000000000000 := by
  decide +kernel

/-- **… and the description's own scale and offset** (no native field): for every scale 1..254 (`uint8`; 255 = invalid, 0
divides by zero: excluded) and every valid `int8` offset, the float64 physical value of a raw value of an integer base type
of at most 32 bits is restored to exactly that raw value: `float64(scale)`, `float64(offset)` are in C12's range, all of
them (`desc_inrange`: 254 scales and 256 offsets evaluated by the kernel). -/
theorem C10_restore_exact_desc (o : Options) (fd : FieldDesc) (d : DevField)
    (hn : (fd.nativeMesgNum != mesgNumInvalid && fd.nativeFieldNum != uint8Invalid) = false)
    (hs1 : 1 ≤ fd.scale) (hs2 : fd.scale ≤ 254) (ho : fd.offset < 256) (ho' : fd.offset ≠ sint8Invalid)
    (ty : IntTy) (hty : ty.bits ≤ 32) (hbt : tgtOfBaseType fd.btId = some (.int ty)) (p : Nat) (hp : p < 2 ^ ty.bits)
    (hv : d.value = applyValue (scalarV ty p) (f64OfNat fd.scale) (f64OfInt8 fd.offset)) :
    restoreDev D o fd d = { d with value := scalarV ty p } :=
  restoreDev_desc_exact o fd d hn hs1 hs2 ho ho' ty hty hbt p hp hv

example : restoreDev D {} ⟨0, 1, btSint16, 100, 0xF6, 65535, 255⟩ ⟨0, 1, applyValue (scalarV .i16 0xFFFE) (f64OfNat 100) (f64OfInt8 0xF6)⟩ =
    ⟨0, 1, .int16 0xFFFE⟩ := by decide +kernel

/-- **KF-C10-2 with the arithmetic inside**: the hypotheses of `C10_idempotent_full_fails_rescale` ((1.5+0)·2 = 3,
(3+0)·2 = 6) are facts of the binary64 model, so for the real arithmetic the full idempotence statement is false. -/
theorem C10_rescale_witness_arith : ¬ C10_idempotent_full D :=
  C10_idempotent_full_fails_rescale D (by decide +kernel) (by decide +kernel)

end Fit.C10
