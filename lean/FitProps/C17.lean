import FitModel.ProfileSpec
import FitModel.Generated.Xlsx
import FitModel.Generated.XlsxTypes
import FitModel.Generated.ProfileTables
import FitModel.Generated.ProfileTypes
import FitModel.Generated.ProfileStrs
import FitModel.Generated.GenDigest
/-!
# C17 — Generated profile code is exactly what Profile.xlsx prescribes

The property quantifies over finite artefacts. Every clause is a decidable statement over data that is
**regenerated from /repo on every run** and is checked here by the kernel (`decide +kernel`):

* `Fit.Gen.Digest` — the repository's own generator re-run into a scratch directory: sha256 of each of its
  output files beside the sha256 of the checked-in file (`translators/gendigest.py`);
* `Fit.Gen.Xlsx` — an independent reading of `Profile.xlsx` (`translators/xlsx.py`, python stdlib; reading
  rules R0–R6 in its header: types and constants; message → fields → sub-fields; scale/offset = first entry,
  1/0 when the row lists several components; component i takes the i-th entries; a field accumulates when its
  row says so or a component of a main field of the message refers to it with accumulate set; reference
  names/values resolved through the message and the Types sheet; array ⇔ Array cell non-empty);
* `Fit.Gen.Prof` — a dump of the compiled packages: `factory.StandardFactory().CreateMesg(n)` for every n,
  `profile.ListProfileType()`, every `typedef.ListXxx()` with `String()` / `XxxFromString` applied to each
  element (`fitharness regen profiletables`). The family `profilerows` ties this dump to the live factory.

Normalisations the comparison applies — all of them explicit below, nothing else:
* scale/offset are compared as float64 **bit patterns** (cell text → nearest binary64);
* fields of a message are compared sorted by field number (the factory stores them in an array indexed by
  number, the sheet in row order);
* `f14`: the generator passes names through a spell-checker; exactly three spreadsheet spellings are changed.
  An independent reading sees the spreadsheet's spelling, so the *full* statement (`C17_factory_eq_xlsx_full`,
  `C17_types_eq_xlsx_full`) is false on the pinned tree (known finding KF-C17-1, intentional); what is proved is
  equality **after rewriting exactly those three identifiers**, so any other difference — or a fourth
  rewritten name — breaks the theorem;
* `TypeRow.dedupe`: among rows of one type with the same value, those commented "deprecated" are not generated
  (a Go switch cannot list a value twice).
-/
namespace Fit.C17
open Fit.ProfileSpec Fit.Gen

/-- (spreadsheet spelling, generated spelling): `cadence_zone_high_bondary → …_boundary` (field 8 of message
`zones_target`… see the KF entry), `connect_iq_app_managment → …_management` (constant of
`connectivity_capabilities`), `degrees_farenheit → degrees_fahrenheit` (constant of `exd_data_units`) -/
def f14 : List (Nat × Nat) := [
  (0x1636164656e63655f7a6f6e655f686967685f626f6e64617279, 0x1636164656e63655f7a6f6e655f686967685f626f756e64617279),
  (0x1636f6e6e6563745f69715f6170705f6d616e61676d656e74, 0x1636f6e6e6563745f69715f6170705f6d616e6167656d656e74),
  (0x1646567726565735f666172656e68656974, 0x1646567726565735f66616872656e68656974)]

/-- the packed numbers above are these texts -/
example : f14.map (fun p => (unpack p.1, unpack p.2)) =
    [("cadence_zone_high_bondary".toUTF8.toList.map UInt8.toNat, "cadence_zone_high_boundary".toUTF8.toList.map UInt8.toNat),
     ("connect_iq_app_managment".toUTF8.toList.map UInt8.toNat, "connect_iq_app_management".toUTF8.toList.map UInt8.toNat),
     ("degrees_farenheit".toUTF8.toList.map UInt8.toNat, "degrees_fahrenheit".toUTF8.toList.map UInt8.toNat)] := by
  decide +kernel

/-! ## byte for byte -/

/-- **Byte for byte.** The generator ran; every file it emits has the same sha256 as the checked-in file of the
same path; it emits something; and no checked-in `*_gen.go` under profile/ is left over from an older
generation. (A hand edit of a generated file, a template or builder change without regeneration, or a changed
Profile.xlsx makes one digest pair differ; the check names the file and prints the diff.) -/
theorem C17_bytes :
    Digest.generatorRan = true ∧ Digest.files ≠ [] ∧ (∀ f ∈ Digest.files, f.regen = f.tree ∧ f.tree ≠ 0) ∧
    Digest.extra = [] := by
  decide +kernel

/-! ## entry by entry -/

/-- the full statement: the factory's tables are the spreadsheet's rows -/
def C17_factory_eq_xlsx_full : Prop := Prof.mesgs = Xlsx.mesgs

/-- **Entry by entry (messages).** For every message of the spreadsheet and of the factory — same message
numbers, same names — every field: number, name, profile type, base type, array flag, accumulate flag, scale,
offset, units, every component (target field, scale, offset, bits, accumulate) and every sub-field (name, type,
scale, offset, units, components, reference field/value pairs) agree, after the three spell-corrections `f14`. -/
theorem C17_factory_eq_xlsx_partial : Prof.mesgs = Xlsx.mesgs.map (Mesg.fix f14) := by
  decide +kernel

/-- rows that carry none of the three spellings agree as they stand (the class of the finding is exactly the
rows that mention one of the three identifiers) -/
theorem C17_factory_eq_xlsx_outside_class :
    Prof.mesgs.length = Xlsx.mesgs.length ∧
    ∀ p ∈ Prof.mesgs.zip Xlsx.mesgs, p.1.num = p.2.num ∧ p.1.fields.length = p.2.fields.length ∧
      ∀ q ∈ p.1.fields.zip p.2.fields, q.2.mentions f14 = false → q.1 = q.2 := by
  decide +kernel

/-- KF-C17-1 (F14): the full statement fails on the pinned tree — the factory spells `cadence_zone_high_boundary`
where the spreadsheet has `cadence_zone_high_bondary`. -/
theorem C17_KF1_witness : ¬ C17_factory_eq_xlsx_full := by
  unfold C17_factory_eq_xlsx_full
  decide +kernel

def C17_types_eq_xlsx_full : Prop := Prof.types = Xlsx.types.map TypeRow.dedupe

/-- **Entry by entry (types).** Every profile type: name, base type, and every constant (value and string
form, in order) of the compiled `ListXxx()` is the spreadsheet's, after `f14` and the deprecated-duplicate rule. -/
theorem C17_types_eq_xlsx_partial : Prof.types = Xlsx.types.map (fun t => (t.dedupe).fix f14) := by
  decide +kernel

theorem C17_KF1_witness_types : ¬ C17_types_eq_xlsx_full := by
  unfold C17_types_eq_xlsx_full
  decide +kernel

/-! ## internal consistency of the generated packages -/

def btSize (t : Nat) : Nat := Prof.btSizes.getD t 0

/-- **References resolve.** In every message of the factory: field numbers are distinct and below 255, every
component of every field and sub-field names a field *of the same message*, and every sub-field map refers to
a field of the same message. -/
theorem C17_refs_resolve : ∀ m ∈ Prof.mesgs, m.numsOk = true ∧ m.refsResolve = true := by
  decide +kernel

/-- **Bit widths fit.** Every component takes 1..32 bits and the components of a field (and of each of its
sub-fields) together fit the containing field: `8 × size(base type)` bits, times the declared length for a
fixed array (from the spreadsheet's Array cell), the 255-byte protocol maximum for an `[N]` array. -/
theorem C17_bitwidth_fit : ∀ m ∈ Prof.mesgs, m.bitsFit btSize Xlsx.fixedLens = true := by
  decide +kernel

/-- **Constants round-trip through their string forms.** For every type and every element `c` of the compiled
`ListXxx()`: `XxxFromString(c.String()) = c`; no value and no string is listed twice; `XxxInvalid` is not listed
and `XxxFromString(XxxInvalid.String()) = XxxInvalid`. (Behaviour of the compiled functions, enumerated by the
harness through the regenerated registry.) -/
theorem C17_string_roundtrip : ∀ t ∈ Prof.strTables, t.ok = true := by
  decide +kernel

/-- the string tables enumerate exactly the constants compared with the spreadsheet above: same types, same
values, `String()` = the constant's name -/
theorem C17_string_tables_cover :
    Prof.strTables.map (fun t => (t.name, t.rows.map fun r => (r.value, r.str))) =
    Prof.types.map (fun t => (t.name, t.consts.map fun c => (c.value, c.name))) := by
  decide +kernel

/-- the invalid value of every type is the invalid value of its base type (all ones, or 0 for the `z` types) -/
theorem C17_invalid_is_base_invalid :
    ∀ p ∈ Prof.strTables.zip Prof.types,
      p.1.invalid = (if p.2.baseType = 10 ∨ p.2.baseType = 139 ∨ p.2.baseType = 140 ∨ p.2.baseType = 144 then 0
                     else 2 ^ (8 * btSize p.2.baseType) - 1) := by
  decide +kernel

end Fit.C17
