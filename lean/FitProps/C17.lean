import FitProps.C17Defs
import FitModel.Generated.GenDigest
import FitProps.C17MesgLemmas
import FitProps.C17TypesLemmas
import FitProps.C17StrLemmas
import FitProps.C17UntypedLemmas
import FitProps.C17UntypedNodupLemmas
import FitProps.C17MesgnumLemmas
import FitProps.C17NodupLemmas
/-!
# C17 — Generated profile code is exactly what Profile.xlsx prescribes

The property quantifies over finite artefacts. Every clause is a decidable statement over data that is
**regenerated from /repo on every run** and is checked here by the kernel (`decide +kernel`):

* `Fit.Gen.Digest` — the repository's own generator re-run into a scratch directory: sha256 of each of its
  output files beside the sha256 of the checked-in file (`translators/gendigest.py`);
* `Fit.Gen.Xlsx` — an independent reading of `Profile.xlsx` (`translators/xlsx.py`, python stdlib; reading
  rules R0–R6 in its header: types and constants; message → fields → sub-fields; scale/offset = first entry,
  1/0 when the row lists several components; component i takes the i-th entries; a field accumulates when its
  row says so or a component of a main field of the message refers to it with accumulate set; reference
  names/values resolved through the message and the Types sheet; array ⇔ Array cell non-empty);
* `Fit.Gen.Prof` — a dump of the compiled packages: `factory.StandardFactory().CreateMesg(n)` for every n,
  `profile.ListProfileType()`, every `typedef.ListXxx()` with `String()` / `XxxFromString` applied to each
  element (`fitharness regen profiletables`). The family `profilerows` ties this dump to the live factory.

Normalisations the comparison applies — all of them explicit below, nothing else:
* scale/offset are compared as float64 **bit patterns** (cell text → nearest binary64);
* fields of a message are compared sorted by field number (the factory stores them in an array indexed by
  number, the sheet in row order);
* `f14`: the generator passes names through a spell-checker; exactly three spreadsheet spellings are changed.
  An independent reading sees the spreadsheet's spelling, so the *full* statement (`C17_factory_eq_xlsx_full`,
  `C17_types_eq_xlsx_full`) is false on the pinned tree (known finding KF-C17-1, intentional); what is proved is
  equality **after rewriting exactly those three identifiers**, so any other difference — or a fourth
  rewritten name — breaks the theorem;
* `TypeRow.dedupe`: among rows of one type with the same value, those commented "deprecated" are not generated
  (a Go switch cannot list a value twice).
-/
namespace Fit.C17
open Fit.ProfileSpec Fit.Gen

/-! ## byte for byte -/

/-- **Byte for byte.** The generator ran; every file it emits has the same sha256 as the checked-in file of the
same path; it emits something; and no checked-in `*_gen.go` under profile/ is left over from an older
generation. (A hand edit of a generated file, a template or builder change without regeneration, or a changed
Profile.xlsx makes one digest pair differ; the check names the file and prints the diff.) -/
theorem C17_bytes :
    Digest.generatorRan = true ∧ Digest.files ≠ [] ∧ (∀ f ∈ Digest.files, f.regen = f.tree ∧ f.tree ≠ 0) ∧
    Digest.extra = [] := by
  decide +kernel

/-! ## entry by entry -/

/-- **Entry by entry (messages).** For every message of the spreadsheet and of the factory — same message
numbers, same names — every field: number, name, profile type, base type, array flag, accumulate flag, scale,
offset, units, every component (target field, scale, offset, bits, accumulate) and every sub-field (name, type,
scale, offset, units, components, reference field/value pairs) agree, after the three spell-corrections `f14`. -/
theorem C17_factory_eq_xlsx_partial : Prof.mesgs = Xlsx.mesgs.map (Mesg.fix f14) :=
  Lemmas.factory_eq_xlsx_partial

/-- rows that carry none of the three spellings agree as they stand (the class of the finding is exactly the
rows that mention one of the three identifiers) -/
theorem C17_factory_eq_xlsx_outside_class :
    Prof.mesgs.length = Xlsx.mesgs.length ∧
    ∀ p ∈ Prof.mesgs.zip Xlsx.mesgs, p.1.num = p.2.num ∧ p.1.fields.length = p.2.fields.length ∧
      ∀ q ∈ p.1.fields.zip p.2.fields, q.2.mentions f14 = false → q.1 = q.2 :=
  Lemmas.factory_eq_xlsx_outside_class

/-- KF-C17-1 (F14): the full statement fails on the pinned tree — the factory spells `cadence_zone_high_boundary`
where the spreadsheet has `cadence_zone_high_bondary`. -/
theorem C17_KF1_witness : ¬ C17_factory_eq_xlsx_full :=
  Lemmas.KF1_witness

/-- **Entry by entry (types).** Every profile type: name, base type, and every constant (value and string
form, in order) of the compiled `ListXxx()` is the spreadsheet's, after `f14` and the deprecated-duplicate rule. -/
theorem C17_types_eq_xlsx_partial : Prof.types = Xlsx.types.map (fun t => (t.dedupe).fix f14) :=
  Lemmas.types_eq_xlsx_partial

theorem C17_KF1_witness_types : ¬ C17_types_eq_xlsx_full :=
  Lemmas.KF1_witness_types

/-- **Entry by entry (typed messages).** Every message of the spreadsheet has a typed struct in profile/mesgdef and vice
versa; the struct (as reflection and probing of the compiled code show it, `Generated/Mesgdef.lean`) has exactly one slot
per field row, of the kind, base type and fixed length the row prescribes, marked as expandable exactly when a component
of the message expands into it, and `ToMesg` emits the fields in the order of the rows. (What the slots *do* is C13.) -/
theorem C17_mesgdef_matches_xlsx :
    Mesgdef.tables.map (·.num) = Xlsx.mesgs.map (·.num) ∧
    ∀ T ∈ Mesgdef.tables, tableMatchesXlsx (Xlsx.mesgs.map (Mesg.fix f14)) Xlsx.fixedLens Xlsx.fieldOrder T = true :=
  Lemmas.mesgdef_matches_xlsx

/-! ## internal consistency of the generated packages -/

/-- **References resolve.** In every message of the factory: field numbers are distinct and below 255, every
component of every field and sub-field names a field *of the same message*, and every sub-field map refers to
a field of the same message. -/
theorem C17_refs_resolve : ∀ m ∈ Prof.mesgs, m.numsOk = true ∧ m.refsResolve = true :=
  Lemmas.refs_resolve

/-- **Bit widths fit.** Every component takes 1..32 bits and the components of a field (and of each of its
sub-fields) together fit the containing field: `8 × size(base type)` bits, times the declared length for a
fixed array (from the spreadsheet's Array cell), the 255-byte protocol maximum for an `[N]` array. -/
theorem C17_bitwidth_fit : ∀ m ∈ Prof.mesgs, m.bitsFit btSize Xlsx.fixedLens = true :=
  Lemmas.bitwidth_fit

/-- **Constants round-trip through their string forms.** For every type and every element `c` of the compiled
`ListXxx()`: `XxxFromString(c.String()) = c`; no value and no string is listed twice; `XxxInvalid` is not listed
and `XxxFromString(XxxInvalid.String()) = XxxInvalid`. (Behaviour of the compiled functions, enumerated by the
harness through the regenerated registry.) -/
theorem C17_string_roundtrip : ∀ t ∈ Prof.strTables, t.ok = true :=
  Lemmas.string_roundtrip

/-- the string tables enumerate exactly the constants compared with the spreadsheet above: same types, same
values, `String()` = the constant's name -/
theorem C17_string_tables_cover :
    Prof.strTables.map (fun t => (t.name, t.rows.map fun r => (r.value, r.str))) =
    Prof.types.map (fun t => (t.name, t.consts.map fun c => (c.value, c.name))) :=
  Lemmas.string_tables_cover

/-- the invalid value of every type is the invalid value of its base type (all ones, or 0 for the `z` types) -/
theorem C17_invalid_is_base_invalid :
    ∀ p ∈ Prof.strTables.zip Prof.types,
      p.1.invalid = (if p.2.baseType = 10 ∨ p.2.baseType = 139 ∨ p.2.baseType = 140 ∨ p.2.baseType = 144 then 0
                     else 2 ^ (8 * btSize p.2.baseType) - 1) :=
  Lemmas.invalid_is_base_invalid

/-- what the Boolean tests used above mean: `nodupNat l = true` (merge sort, then strictly increasing neighbours)
implies that no number occurs twice in `l`; equal sorted forms (`sortedPairs`) imply that the lists are permutations
of each other. General lemmas, for all lists. -/
theorem C17_distinct_sound (l : List Nat) (h : nodupNat l = true) : l.Nodup := nodupNat_sound l h

theorem C17_sorted_eq_perm (a b : List (Nat × Nat)) (h : sortedPairs a = sortedPairs b) :
    (a.map encPair).Perm (b.map encPair) := by
  unfold sortedPairs at h
  have := perm_of_sorted_eq (a.map encPair) (b.map encPair) (by simpa using h)
  exact this

/-! ## the other generated packages: untyped constants, profile types, version -/

/-- **Untyped constants.** The constants of profile/untyped/fieldnum and profile/untyped/mesgnum (read from the
source: untyped constants do not exist at run time) are, as multisets of (identifier up to case and punctuation,
value), exactly the spreadsheet's fields and message numbers plus one `Invalid` (255 / 65535) per package — after `f14`. -/
theorem C17_mesgnum_fieldnum_partial :
    sortedPairs Untyped.fieldnum = sortedPairs (expectedFieldnum (Xlsx.mesgs.map (Mesg.fix f14))) ∧
    sortedPairs Untyped.mesgnum = sortedPairs (expectedMesgnum (Xlsx.types.map (TypeRow.fix f14))) ∧
    nodupNat (Untyped.fieldnum.map (fun p => normIdent p.1)) = true ∧ nodupNat (Untyped.mesgnum.map (fun p => normIdent p.1)) = true :=
  ⟨Lemmas.fieldnum_ok, Lemmas.mesgnum_ok.1, Lemmas.fieldnum_nodup, Lemmas.mesgnum_ok.2⟩

/-- **Profile types** (profile_gen.go): `ListProfileType()` is the 17 base types in the order of the spreadsheet's
`fit_base_type`, then `bool`, then the types of the Types sheet in order; `String`/`ProfileTypeFromString` round-trip;
`BaseType()` maps a base type to itself, `bool` to enum, and every other type to the base type the spreadsheet gives. -/
theorem C17_profile_types :
    Prof.profileTypeStrs.ok = true ∧
    Prof.profileTypeStrs.rows.map (·.value) = List.range Prof.profileTypeStrs.rows.length ∧
    Prof.profileTypeStrs.rows.map (·.str) =
      (expectedBaseNames Xlsx.types).map (·.1) ++ [0x1626f6f6c /- "bool" -/] ++ (Xlsx.types.map fun t => (t.fix f14).name) ∧
    Prof.profileTypeBases =
      (expectedBaseNames Xlsx.types).map (·.2) ++ [0 /- enum -/] ++ Xlsx.types.map (·.baseType) :=
  Lemmas.profile_types

/-- **Version.** The compiled `profile.Version` is the version the generator was run with (the one named in
version_gen.go's own doc comment; the file itself is covered by `C17_bytes`). -/
theorem C17_version : Prof.profileVersion = Digest.versionArg := by
  decide +kernel

end Fit.C17
