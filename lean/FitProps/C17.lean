import FitProps.C17Defs
import FitModel.Generated.GenDigest
import FitProps.C17RuleLemmas
import FitProps.C17BytesLemmas
import FitProps.C17MesgLemmas
import FitProps.C17TypesLemmas
import FitProps.C17StrLemmas
import FitProps.C17UntypedLemmas
import FitProps.C17UntypedNodupLemmas
import FitProps.C17MesgnumLemmas
import FitProps.C17NodupLemmas
/-!
# C17 — Generated profile code is exactly what Profile.xlsx prescribes

The property quantifies over finite artefacts. Every clause is a decidable statement over data that is
**regenerated from /repo on every run** and is checked here by the kernel (`decide +kernel`):

* `Fit.Gen.Digest` — the repository's own generator re-run into a scratch directory: sha256 of each file it WROTE
  (`translators/gendigest.py`, python hashlib; it never opens a checked-in `*_gen.go`);
* `Fit.Gen.Tree` — every checked-in `*_gen.go` of the WHOLE tree (everything but `.git`): path, sha256, and the program
  its first line names (`translators/treedigest.sh`, find + sha256sum; it runs nothing). A separate step of the check,
  logged on its own; the two tables meet only in `C17_bytes`;
* `Fit.Gen.Xlsx` — an independent reading of `Profile.xlsx` (`translators/xlsx.py`, python stdlib; reading
  rules R0–R7 in its header: types and constants; message → fields → sub-fields; scale/offset = first entry,
  1/0 when the row lists several components; component i takes the i-th entries; a field accumulates when its
  row says so or a component of a main field of the message refers to it with accumulate set; reference
  names/values resolved through the message and the Types sheet; array ⇔ Array cell non-empty; R7: a row of the
  Types sheet commented "deprecated" whose value another row of the same type carries is an alias, not a constant);
* `Fit.Gen.Prof` — a dump of the compiled packages: `factory.StandardFactory().CreateMesg(n)` for every n,
  `profile.ListProfileType()`, every `typedef.ListXxx()` with `String()` / `XxxFromString` applied to each
  element (`fitharness regen profiletables`). The family `profilerows` ties this dump to the live factory.

Normalisations the comparison applies — all of them explicit below, nothing else:
* scale/offset are compared as float64 **bit patterns** (cell text → nearest binary64);
* fields of a message are compared sorted by field number (the factory stores them in an array indexed by
  number, the sheet in row order);
* `f14`: the generator passes names through a spell-checker; exactly three spreadsheet spellings are changed.
  An independent reading sees the spreadsheet's spelling, so the *full* statement (`C17_factory_eq_xlsx_full`,
  `C17_types_eq_xlsx_full`) is false on the pinned tree (known finding KF-C17-1, intentional); what is proved is
  equality **after rewriting exactly those three identifiers**, so any other difference — or a fourth
  rewritten name — breaks the theorem;
* **R7** (`TypeRow.dedupe`, a READING RULE, not a finding): among rows of one type of the Types sheet with the same value,
  those commented "deprecated" are aliases of the surviving row and are not constants of the generated type. Reason: the
  property demands that constants round-trip through their string forms and are listed once; `String()`, `List…()` and a
  `switch` are functions of the value, so two rows of one value cannot both be constants, and the spreadsheet itself
  says which one is the alias ("Deprecated use hourly_forecast"). The rule is evaluated on the spreadsheet alone and is
  pinned: `C17_dedupe_exact` — on the current spreadsheet it drops EXACTLY the one row `weather_report.forecast = 1`
  (3658 rows → 3657 constants), `C17_dedupe_no_value_lost` — no value of any type is lost by it, and
  `C17_types_without_R7_false` — without the rule the statement is false. So a second dropped row, or the generator
  dropping a row for any other reason, breaks a theorem. Consequence to know: the identifier `WeatherReportForecast`
  does not exist and `WeatherReportFromString("forecast")` is `WeatherReportInvalid`.

Which clauses are **execution checks** rather than statements about a model of a program: "byte for byte" (`C17_bytes`: the
generator is RUN, not modelled — translation validation by execution; the kernel checks that two independently produced
digest tables agree) and "constants round-trip through their string forms" (`C17_string_roundtrip`: the compiled
`String()` / `XxxFromString` are CALLED on every listed constant by the harness and the table of results is checked).
Everything else compares regenerated tables of the compiled packages with the independent reading of the spreadsheet.
-/
namespace Fit.C17
open Fit.ProfileSpec Fit.Gen

/-! ## byte for byte -/

/-- **Byte for byte — translation validation by execution.** The generator program is not modelled: on every run the
check RUNS it (`go run main.go -f Profile.xlsx -p <scratch> -b all --profile-version <v> -y`) and hashes what it wrote
(`Fit.Gen.Digest`, step `gendigest`), and — separately, with another tool — hashes every `*_gen.go` of the whole tree
(`Fit.Gen.Tree`, step `treedigest`). What the kernel checks is that these two independently produced tables agree:

* the generator ran and emitted something;
* every file it emitted is in the tree under the same path with the same sha256 (so: byte for byte, up to a sha256
  collision), the digest is that of a readable file, and the checked-in file's first line names the generator;
* every `*_gen.go` of the tree — anywhere, not only under profile/ — is emitted by the generator, or is one of the two files
  `otherGenerators` names (`cmd/fitprint/printer/typedef_gen.go`, `cmd/fitconv/fitcsv/lookup_gen.go`) and its first line
  names the other `go generate` program listed there. So a left-over `*_gen.go` anywhere in the tree breaks the theorem;
* no path occurs twice in the tree table (so "the" checked-in file of a path is one file).

(A hand edit of a generated file, a template or builder change without regeneration, or a changed Profile.xlsx makes one
digest differ; the check names the file and prints the diff.) -/
theorem C17_bytes :
    Digest.generatorRan = true ∧ Digest.files ≠ [] ∧
    (∀ g ∈ Digest.files, g.sha ≠ 0 ∧ ∃ t ∈ Tree.files, t.path = g.path ∧ t.sha = g.sha ∧ t.generator = fitgenProgram) ∧
    (∀ t ∈ Tree.files, (∃ g ∈ Digest.files, g.path = t.path) ∨ (t.path, t.generator) ∈ otherGenerators) ∧
    (Tree.files.map (·.path)).Nodup :=
  ⟨Lemmas.bytes_tables.1, Lemmas.bytes_tables.2.1,
   (filesMatch_sound _ _ _ _ Lemmas.bytes_tables.2.2.1).1, (filesMatch_sound _ _ _ _ Lemmas.bytes_tables.2.2.1).2,
   nodupNat_sound _ Lemmas.bytes_tables.2.2.2⟩

/-- the Boolean form the kernel evaluates (one linear pass over the two sorted tables); `C17_bytes` is what it means -/
theorem C17_bytes_tables :
    Digest.generatorRan = true ∧ Digest.files ≠ [] ∧
    filesMatch otherGenerators fitgenProgram Tree.files Digest.files = true ∧
    nodupNat (Tree.files.map (·.path)) = true :=
  Lemmas.bytes_tables

/-- what `filesMatch` means, for ALL tables (not an evaluation): used above -/
theorem C17_filesMatch_sound (others : List (Nat × Nat)) (prog : Nat) (tree : List TreeFile) (gen : List GenFile)
    (h : filesMatch others prog tree gen = true) :
    (∀ g ∈ gen, g.sha ≠ 0 ∧ ∃ t ∈ tree, t.path = g.path ∧ t.sha = g.sha ∧ t.generator = prog) ∧
    (∀ t ∈ tree, (∃ g ∈ gen, g.path = t.path) ∨ (t.path, t.generator) ∈ others) :=
  filesMatch_sound others prog tree gen h

/-- non-vacuity of `C17_filesMatch_sound`: a tree with one emitted file and one left-over file does NOT match, the same
tree with the left-over file listed does -/
example :
    filesMatch [] 7 [⟨0x161, 5, 7⟩, ⟨0x162, 6, 7⟩] [⟨0x161, 5⟩] = false ∧
    filesMatch [(0x162, 9)] 7 [⟨0x161, 5, 7⟩, ⟨0x162, 6, 9⟩] [⟨0x161, 5⟩] = true ∧
    filesMatch [(0x162, 9)] 7 [⟨0x161, 4, 7⟩, ⟨0x162, 6, 9⟩] [⟨0x161, 5⟩] = false := by decide

/-! ## entry by entry -/

/-- **Entry by entry (messages).** For every message of the spreadsheet and of the factory — same message
numbers, same names — every field: number, name, profile type, base type, array flag, accumulate flag, scale,
offset, units, every component (target field, scale, offset, bits, accumulate) and every sub-field (name, type,
scale, offset, units, components, reference field/value pairs) agree, after the three spell-corrections `f14`. -/
theorem C17_factory_eq_xlsx_partial : Prof.mesgs = Xlsx.mesgs.map (Mesg.fix f14) :=
  Lemmas.factory_eq_xlsx_partial

/-- rows that carry none of the three spellings agree as they stand (the class of the finding is exactly the
rows that mention one of the three identifiers) -/
theorem C17_factory_eq_xlsx_outside_class :
    Prof.mesgs.length = Xlsx.mesgs.length ∧
    ∀ p ∈ Prof.mesgs.zip Xlsx.mesgs, p.1.num = p.2.num ∧ p.1.fields.length = p.2.fields.length ∧
      ∀ q ∈ p.1.fields.zip p.2.fields, q.2.mentions f14 = false → q.1 = q.2 :=
  Lemmas.factory_eq_xlsx_outside_class

/-- KF-C17-1 (F14): the full statement fails on the pinned tree — the factory spells `cadence_zone_high_boundary`
where the spreadsheet has `cadence_zone_high_bondary`. -/
theorem C17_KF1_witness : ¬ C17_factory_eq_xlsx_full :=
  Lemmas.KF1_witness

/-- **Entry by entry (types).** Every profile type: name, base type, and every constant (value and string
form, in order) of the compiled `ListXxx()` is the spreadsheet's, after `f14` and under reading rule R7 (deprecated alias
rows are not constants — pinned by the three theorems below). -/
theorem C17_types_eq_xlsx_partial : Prof.types = Xlsx.types.map (fun t => (t.dedupe).fix f14) :=
  Lemmas.types_eq_xlsx_partial

theorem C17_KF1_witness_types : ¬ C17_types_eq_xlsx_full :=
  Lemmas.KF1_witness_types

/-- **R7 drops exactly one row today.** The rows of the Types sheet that reading rule R7 drops (commented "deprecated",
value carried by another row of the same type) are exactly `r7Dropped` = [`weather_report.forecast = 1`]. A second
deprecated alias in the spreadsheet changes this list and breaks this theorem; the generator dropping any row that is not
in this list breaks `C17_types_eq_xlsx_partial`. -/
theorem C17_dedupe_exact : Xlsx.types.flatMap TypeRow.droppedRows = r7Dropped :=
  Lemmas.dedupe_exact

/-- **The types, with every exception named.** Applying the rule and removing exactly the listed row(s) is the same thing on
the current spreadsheet; hence the compiled types are the spreadsheet's rows minus exactly `r7Dropped` (one row, by type,
name and value), with exactly the three names of `f14` rewritten — a statement in which neither the `deprecated` mark nor
the rule occurs. The `--spec` oracle of the family `profilerows` is this right-hand side (before `f14`). -/
theorem C17_types_eq_xlsx_listed :
    Xlsx.types.map TypeRow.dedupe = Xlsx.types.map (TypeRow.dropListed r7Dropped) ∧
    Prof.types = Xlsx.types.map (fun t => (t.dropListed r7Dropped).fix f14) := by
  refine ⟨Lemmas.dedupe_eq_listed, ?_⟩
  have h := congrArg (List.map (TypeRow.fix f14)) Lemmas.dedupe_eq_listed
  simp only [List.map_map] at h
  exact Lemmas.types_eq_xlsx_partial.trans h

/-- **R7 loses no value.** Every row R7 drops has a surviving alias in the same type — same value, another name, not
deprecated (for `forecast`: `hourly_forecast = 1`) — hence every value of every spreadsheet type is the value of a
constant of the type as generated. (The second half is proved from the first for all types, `TypeRow.dedupe_no_value_lost`;
only the first is an evaluation.) -/
theorem C17_dedupe_no_value_lost :
    (∀ t ∈ Xlsx.types, ∀ c ∈ t.consts, t.drops c = true →
       ∃ k ∈ t.consts, k.value = c.value ∧ k.dep = false ∧ k.name ≠ c.name) ∧
    (∀ t ∈ Xlsx.types, ∀ c ∈ t.consts, ∃ k ∈ t.dedupe.consts, k.value = c.value) :=
  ⟨fun t ht => t.aliasesSurvive_sound (Lemmas.dedupe_aliases_survive t ht),
   fun t ht => t.dedupe_no_value_lost (Lemmas.dedupe_aliases_survive t ht)⟩

/-- what R7 keeps, for ALL types (not an evaluation): a row is a constant of the de-duplicated type iff R7 does not drop
it, and a row that is not marked deprecated is never dropped -/
theorem C17_dedupe_keeps (t : TypeRow) :
    (∀ c ∈ t.consts, c.dep = false → t.drops c = false) ∧
    (∀ c ∈ t.consts, t.drops c = false → { c with dep := false } ∈ t.dedupe.consts) ∧
    (∀ k ∈ t.dedupe.consts, ∃ c ∈ t.consts, t.drops c = false ∧ k = { c with dep := false }) :=
  ⟨fun c _ h => t.drops_of_not_dep c h, t.mem_dedupe, t.of_mem_dedupe⟩

/-- **Without R7 the statement is false** (so the rule is a real part of the reading, said here and in the texts): the
compiled types are NOT the spreadsheet's rows taken one constant per row (even after `f14`) — the spreadsheet has exactly
`r7Dropped.length` = 1 more row than the compiled lists have constants. -/
theorem C17_types_without_R7_false :
    ¬ (Prof.types = Xlsx.types.map (fun t => (t.plain).fix f14)) ∧
    (Xlsx.types.map (·.consts.length)).sum = (Prof.types.map (·.consts.length)).sum + r7Dropped.length := by
  refine ⟨fun h => ?_, Lemmas.types_row_count⟩
  have h2 : Prof.types.map (·.consts.length) = Xlsx.types.map (·.consts.length) := by
    rw [h, List.map_map]
    exact List.map_congr_left fun t _ => TypeRow.plain_fix_length f14 t
  have h3 := Lemmas.types_row_count
  rw [h2] at h3
  simp [r7Dropped] at h3

/-- **Entry by entry (typed messages).** Every message of the spreadsheet has a typed struct in profile/mesgdef and vice
versa; the struct (as reflection and probing of the compiled code show it, `Generated/Mesgdef.lean`) has exactly one slot
per field row, of the kind, base type and fixed length the row prescribes, marked as expandable exactly when a component
of the message expands into it, and `ToMesg` emits the fields in the order of the rows. (What the slots *do* is C13.) -/
theorem C17_mesgdef_matches_xlsx :
    Mesgdef.tables.map (·.num) = Xlsx.mesgs.map (·.num) ∧
    ∀ T ∈ Mesgdef.tables, tableMatchesXlsx (Xlsx.mesgs.map (Mesg.fix f14)) Xlsx.fixedLens Xlsx.fieldOrder T = true :=
  Lemmas.mesgdef_matches_xlsx

/-! ## internal consistency of the generated packages -/

/-- **References resolve.** In every message of the factory: field numbers are distinct and below 255, every
component of every field and sub-field names a field *of the same message*, and every sub-field map refers to
a field of the same message. -/
theorem C17_refs_resolve : ∀ m ∈ Prof.mesgs, m.numsOk = true ∧ m.refsResolve = true :=
  Lemmas.refs_resolve

/-- **Bit widths fit.** Every component takes 1..32 bits and the components of a field (and of each of its
sub-fields) together fit the containing field: `8 × size(base type)` bits, times the declared length for a
fixed array (from the spreadsheet's Array cell), the 255-byte protocol maximum for an `[N]` array.
Strength, said plainly: for a NON-array field and for a fixed `[n]` array the bound is the real capacity and the clause has
teeth (seeded: 12 → 13 bits in record.compressed_speed_distance breaks it). For a variable-length `[N]` array the profile
declares no length, so the only bound that holds for every message on the wire is the protocol's 255 bytes (2040 bits for a
byte array): there the sum test is close to vacuous (Σ bits of a row is at most a few hundred) and what the clause still
says is "every component takes 1..32 bits". The per-row widths themselves are pinned by `C17_factory_eq_xlsx_partial`. -/
theorem C17_bitwidth_fit : ∀ m ∈ Prof.mesgs, m.bitsFit btSize Xlsx.fixedLens = true :=
  Lemmas.bitwidth_fit

/-- **Constants round-trip through their string forms.** For every type and every element `c` of the compiled
`ListXxx()`: `XxxFromString(c.String()) = c`; no value and no string is listed twice; `XxxInvalid` is not listed
and `XxxFromString(XxxInvalid.String()) = XxxInvalid`. (Behaviour of the compiled functions, enumerated by the
harness through the regenerated registry.) -/
theorem C17_string_roundtrip : ∀ t ∈ Prof.strTables, t.ok = true :=
  Lemmas.string_roundtrip

/-- the string tables enumerate exactly the constants compared with the spreadsheet above: same types, same
values, `String()` = the constant's name -/
theorem C17_string_tables_cover :
    Prof.strTables.map (fun t => (t.name, t.rows.map fun r => (r.value, r.str))) =
    Prof.types.map (fun t => (t.name, t.consts.map fun c => (c.value, c.name))) :=
  Lemmas.string_tables_cover

/-- the invalid value of every type is the invalid value of its base type (all ones, or 0 for the `z` types) -/
theorem C17_invalid_is_base_invalid :
    ∀ p ∈ Prof.strTables.zip Prof.types,
      p.1.invalid = (if p.2.baseType = 10 ∨ p.2.baseType = 139 ∨ p.2.baseType = 140 ∨ p.2.baseType = 144 then 0
                     else 2 ^ (8 * btSize p.2.baseType) - 1) :=
  Lemmas.invalid_is_base_invalid

/-- what the Boolean tests used above mean: `nodupNat l = true` (merge sort, then strictly increasing neighbours)
implies that no number occurs twice in `l`; equal sorted forms (`sortedPairs`) imply that the lists are permutations
of each other. General lemmas, for all lists. -/
theorem C17_distinct_sound (l : List Nat) (h : nodupNat l = true) : l.Nodup := nodupNat_sound l h

theorem C17_sorted_eq_perm (a b : List (Nat × Nat)) (h : sortedPairs a = sortedPairs b) :
    (a.map encPair).Perm (b.map encPair) := by
  unfold sortedPairs at h
  have := perm_of_sorted_eq (a.map encPair) (b.map encPair) (by simpa using h)
  exact this

/-! ## the other generated packages: untyped constants, profile types, version -/

/-- **Untyped constants.** The constants of profile/untyped/fieldnum and profile/untyped/mesgnum (read from the
source: untyped constants do not exist at run time) are, as multisets of (identifier up to case and punctuation,
value), exactly the spreadsheet's fields and message numbers plus one `Invalid` (255 / 65535) per package — after `f14`. -/
theorem C17_mesgnum_fieldnum_partial :
    sortedPairs Untyped.fieldnum = sortedPairs (expectedFieldnum (Xlsx.mesgs.map (Mesg.fix f14))) ∧
    sortedPairs Untyped.mesgnum = sortedPairs (expectedMesgnum (Xlsx.types.map (TypeRow.fix f14))) ∧
    nodupNat (Untyped.fieldnum.map (fun p => normIdent p.1)) = true ∧ nodupNat (Untyped.mesgnum.map (fun p => normIdent p.1)) = true :=
  ⟨Lemmas.fieldnum_ok, Lemmas.mesgnum_ok.1, Lemmas.fieldnum_nodup, Lemmas.mesgnum_ok.2⟩

/-- **Profile types** (profile_gen.go): `ListProfileType()` is the 17 base types in the order of the spreadsheet's
`fit_base_type`, then `bool`, then the types of the Types sheet in order; `String`/`ProfileTypeFromString` round-trip;
`BaseType()` maps a base type to itself, `bool` to enum, and every other type to the base type the spreadsheet gives. -/
theorem C17_profile_types :
    Prof.profileTypeStrs.ok = true ∧
    Prof.profileTypeStrs.rows.map (·.value) = List.range Prof.profileTypeStrs.rows.length ∧
    Prof.profileTypeStrs.rows.map (·.str) =
      (expectedBaseNames Xlsx.types).map (·.1) ++ [0x1626f6f6c /- "bool" -/] ++ (Xlsx.types.map fun t => (t.fix f14).name) ∧
    Prof.profileTypeBases =
      (expectedBaseNames Xlsx.types).map (·.2) ++ [0 /- enum -/] ++ Xlsx.types.map (·.baseType) :=
  Lemmas.profile_types

/-- **Version.** The compiled `profile.Version` is the version the generator was run with (the one named in
version_gen.go's own doc comment; the file itself is covered by `C17_bytes`). -/
theorem C17_version : Prof.profileVersion = Digest.versionArg := by
  decide +kernel

end Fit.C17
