import FitProps.C17Defs
import FitModel.Generated.XlsxTypes
import FitModel.Generated.ProfileTypes
import FitModel.Generated.ProfileStrs
/-! C17: definitions of the statements about the profile types and profile_gen.go (shard "Types"). -/
namespace Fit.C17
open Fit.ProfileSpec Fit.Gen

/-- the full statement for the types: the compiled constants are the spreadsheet's (deprecated duplicates aside) -/
def C17_types_eq_xlsx_full : Prop := Prof.types = Xlsx.types.map TypeRow.dedupe

def expectedBaseNames (ts : List TypeRow) : List (Nat × Nat) :=
  match ts.find? (·.name == 0x16669745f626173655f74797065 /- "fit_base_type" -/) with
  | some t => t.consts.map fun c => (c.name, c.value)
  | none => []

end Fit.C17
