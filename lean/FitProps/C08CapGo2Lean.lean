import FitProps.Go2LeanReadBufferCap
/-!
# C08 — the capacity test of `readBuffer.Reset` (unit readbuffercap)

PROPERTY THEOREMS (audited by ./check): C08_go2lean_oldsize
-/
namespace Fit.C08
open Fit.Go2Lean Fit.ReadBuffer Go.readbuffer

/-- `oldsize := cap(b.buf) - reservedbuf`: for every hidden tail of `b.buf` (capacity and stale bytes), the grow decision of
`Reset` is the model's `arr.length < reservedbuf + size` for the backing array `arr = buf ++ tail` -/
theorem C08_go2lean_oldsize (buf tail : List Nat) (size : Nat) (hc : buf.length + tail.length < 2^62) (hs : size < 2^62) :
    (Go.readbuffercap.Reset_oldsize buf tail).oldsize = ((buf ++ tail).length : Int) - (Go.readbuffer.reservedbuf : Int) ∧
    Reset_grow (Go.readbuffercap.Reset_oldsize buf tail).oldsize size = decide ((buf ++ tail).length < Fit.Gen.Reader.reservedbuf + size) :=
  rb_oldsize buf tail size hc hs

end Fit.C08
