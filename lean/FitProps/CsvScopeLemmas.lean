import FitProps.CsvRoundtripLemmas
/-! What the decidable scope predicate (`csvUnambiguousB`, FitModel/CsvSpec.lean) and the regenerated tables give, cell by
cell: every field of a message within scope is read back as itself, as a placeholder (sub-field substitution) or is
passed over (unknown field without the verbose option). -/
set_option linter.unusedSimpArgs false
set_option linter.unusedVariables false
namespace Fit.Csv
open Fit.Value Fit.Msg Fit.Gen Fit.Gen.Csv Fit.F64 Fit.ScaleOffset

/-! ### generic -/

theorem nodupB_nodup {α : Type} [BEq α] [LawfulBEq α] : ∀ l : List α, nodupB l = true → l.Nodup
  | [], _ => List.nodup_nil
  | a :: as, h => by
    simp only [nodupB, Bool.and_eq_true, Bool.not_eq_true', List.contains_eq_mem, decide_eq_false_iff_not] at h
    exact List.nodup_cons.mpr ⟨h.1, nodupB_nodup as h.2⟩

/-! ### table facts, per field -/

theorem pfield_low {n num : Nat} {p : PField} (h : pfield n num = some p) : n < mfgRangeMin := by
  obtain ⟨pm, hpm, hnum, hp, _⟩ := pfield_mem h
  have ht := mfgNoFieldsOK_true
  simp only [mfgNoFieldsOK, List.all_eq_true, Bool.or_eq_true, decide_eq_true_eq, List.isEmpty_iff] at ht
  rcases ht pm hpm with h1 | h1
  · omega
  · rw [h1] at hp; cases hp

theorem sub_refs {pm : PMesg} {p : PField} (hm : pm ∈ profile) (hp : p ∈ pm.fields) :
    (p.subs ≠ [] → p.array = false) ∧
    ∀ s ∈ p.subs, ∀ mp ∈ s.maps, mp.1 ≠ 255 ∧ ∃ q ∈ pm.fields, q.num = mp.1 ∧ q.subs = [] := by
  have ht := subRefsOK_true
  simp only [subRefsOK, List.all_eq_true, Bool.and_eq_true, Bool.or_eq_true, List.isEmpty_iff, Bool.not_eq_true', bne_iff_ne, ne_eq,
    List.any_eq_true, beq_iff_eq] at ht
  obtain ⟨h1, h2⟩ := ht pm hm p hp
  refine ⟨fun hne => ?_, fun s hs mp hmp => ?_⟩
  · rcases h1 with h | h
    · exact absurd h hne
    · exact h
  · obtain ⟨a, q, hq, hq1, hq2⟩ := h2 s hs mp hmp
    exact ⟨a, q, hq, hq1, hq2⟩

/-- the integer base types of at most 32 bits -/
def int32Bts : List Nat := [btEnum, btByte, btUint8, btUint8z, btSint8, btSint16, btUint16, btUint16z, btSint32, btUint32, btUint32z]

theorem scaled_types {pm : PMesg} {p : PField} (hm : pm ∈ profile) (hp : p ∈ pm.fields)
    (hs : isScaledField p.scale p.offset = true) : p.isBool = false ∧ p.bt ∈ int32Bts := by
  have ht := scaledTypesOK_true
  simp only [scaledTypesOK, List.all_eq_true, Bool.or_eq_true, Bool.not_eq_true', Bool.and_eq_true, List.contains_iff_mem] at ht
  rcases ht pm hm p hp with h | h
  · rw [hs] at h; cases h
  · exact h

theorem int32Scalar_of_scalarOK {bt : Nat} {v : Value} (hbt : bt ∈ int32Bts) (h : scalarOK bt false v = true) :
    (int32Scalar v).isSome = true := by
  simp only [int32Bts, List.mem_cons, List.not_mem_nil, or_false] at hbt
  cases v <;> simp only [int32Scalar, Option.isSome_some, Option.isSome_none] <;>
    simp only [scalarOK, Bool.false_eq_true, Bool.false_and, Bool.not_false, Bool.true_and, Bool.and_eq_true, beq_iff_eq,
      Bool.or_eq_true, decide_eq_true_eq] at h <;>
    simp only [btEnum, btByte, btUint8, btUint8z, btSint8, btSint16, btUint16, btUint16z, btSint32, btUint32, btUint32z, btSint64,
      btUint64, btUint64z, btFloat32, btFloat64, btString] at h hbt <;> omega

/-- the base type of a decoded scalar has a name (`basetype.String()`) -/
theorem bt_named_of_scalarOK {bt : Nat} {v : Value} (h : scalarOK bt false v = true) :
    ∃ s, (bt, s) ∈ baseTypeNames := by
  have key : ∀ b : Nat, baseTypeNames.any (fun q => q.1 == b) = true → ∃ s, (b, s) ∈ baseTypeNames := by
    intro b hb
    obtain ⟨q, hq, he⟩ := List.any_eq_true.mp hb
    have : q.1 = b := by simpa using he
    exact ⟨q.2, by rw [← this]; exact hq⟩
  apply key
  cases v <;> simp only [scalarOK, Bool.false_eq_true, Bool.false_and, Bool.not_false, Bool.true_and, Bool.and_eq_true, beq_iff_eq,
    Bool.or_eq_true, btIsUint8] at h
  all_goals first
    | (rcases h with ⟨⟨h1, _⟩, _⟩; subst h1; decide +kernel)
    | (rcases h with ⟨h1, _⟩; subst h1; decide +kernel)
    | (rcases h with ⟨⟨h1 | h1, _⟩, _⟩ <;> subst h1 <;> decide +kernel)
    | (rcases h with ⟨h1 | h1, _⟩ <;> subst h1 <;> decide +kernel)
    | (rcases h with ⟨((h1 | h1) | h1) | h1, _⟩ <;> subst h1 <;> decide +kernel)

theorem bt_named_of_valueOK {bt : Nat} {v : Value} (h : valueOK bt false v = true) : ∃ s, (bt, s) ∈ baseTypeNames := by
  unfold valueOK at h
  cases he : elemsOf v with
  | mk es sl =>
    rw [he] at h
    simp only [Bool.and_eq_true, Bool.not_eq_true', List.all_eq_true] at h
    cases es with
    | nil => simp at h
    | cons e es => exact bt_named_of_scalarOK (h.2 e (List.mem_cons_self ..))

/-! ### what the boolean field predicate says -/

/-- the field as the reader creates it: number, base type, value — never flagged expanded -/
def unflag (f : Field) : Field := mkField (fieldNumOf f) (fieldBtOf f) f.value

theorem fieldNumOf_unflag (f : Field) : fieldNumOf (unflag f) = fieldNumOf f := rfl
theorem value_unflag (f : Field) : (unflag f).value = f.value := rfl

structure FieldScope (m : Message) (f : Field) : Prop where
  plain : f.base = some { num := fieldNumOf f, baseType := fieldBtOf f }
  byte : fieldNumOf f < 256
  ok : fieldOK m f = true
  norm : csvNorm f.value = f.value

theorem fieldScope_of {m : Message} {f : Field} (h : fieldScopeB m f = true) : FieldScope m f := by
  simp only [fieldScopeB, plainField, Bool.and_eq_true, beq_iff_eq, decide_eq_true_eq] at h
  exact ⟨h.1.1.1, h.1.1.2, h.1.2, h.2⟩

theorem unflag_eq {m : Message} {f : Field} (h : FieldScope m f) (hx : f.isExpanded = false) : unflag f = f := by
  cases f with
  | mk base value isExpanded =>
    cases base with
    | none => have := h.plain; cases this
    | some b =>
      have hp : some b = some ({ num := b.num, baseType := b.baseType } : FieldBase) := h.plain
      simp only at hx; subst hx
      show ({ base := some { num := b.num, baseType := b.baseType }, value := value } : Field) = _
      rw [← hp]

theorem hasNum_unflag (n : Nat) (f : Field) (hb : f.base.isSome = true) : hasNum n (unflag f) = hasNum n f := by
  rw [hasNum_iff hb, hasNum_iff (by rfl)]; rfl

theorem base_isSome {m : Message} {f : Field} (h : FieldScope m f) : f.base.isSome = true := by rw [h.plain]; rfl

/-! ### scaled arrays -/

theorem csvNormS_int32 {e : Value} (h : (int32Scalar e).isSome = true) : csvNormS e = e := by
  cases e <;> simp [int32Scalar] at h <;> rfl

theorem scalarsOf_slice {v : Value} {es : List Value} (he : elemsOf v = (es, true)) (hne : es ≠ [])
    (hall : ∀ e ∈ es, (int32Scalar e).isSome = true) : scalarsOf v = some es := by
  cases v <;> simp only [elemsOf, Prod.mk.injEq, Bool.false_eq_true, and_false, and_true] at he <;> subst he <;>
    first
    | rfl
    | (exfalso
       rename_i vs
       cases vs with
       | nil => exact hne rfl
       | cons x xs =>
         have := hall _ (List.mem_cons_self ..)
         simp [int32Scalar] at this)

theorem cellPieces_scaled (es : List Value) (sc off : Nat) (hne : es ≠ []) :
    cellPieces (es.map fun s => Atom.scaled s sc off) = es.map fun s => Atom.scaled s sc off := by
  rw [cellPieces_eq]
  have : (es.map fun s => Atom.scaled s sc off).isEmpty = false := by
    cases es with
    | nil => exact absurd rfl hne
    | cons _ _ => rfl
  rw [this]
  simp only [Bool.false_eq_true, ↓reduceIte, List.flatMap_map, pieceOf]
  exact flatMap_single _ es

theorem int32Bts_ne_string {bt : Nat} (h : bt ∈ int32Bts) : (bt == btString) = false := by
  simp only [int32Bts, List.mem_cons, List.not_mem_nil, or_false] at h
  rcases h with h | h | h | h | h | h | h | h | h | h | h <;> subst h <;> decide

theorem mapR_scaled (ar : Arith) (bt scale offset : Nat) (units : Txt) (hdg : (units == degreesTxt && bt == btSint32) = false)
    (hns : (bt == btString) = false) :
    ∀ es : List Value, (∀ e ∈ es, ar.scaled e bt scale offset = some e) →
      mapR (fun a => parseAtom ar a bt false scale offset units) (es.map fun s => Atom.scaled s scale offset) = .ok es
  | [], _ => rfl
  | e :: es, h => by
    have ih := mapR_scaled ar bt scale offset units hdg hns es (fun x hx => h x (List.mem_cons_of_mem _ hx))
    have he := h e (List.mem_cons_self ..)
    have hp : parseAtom ar (Atom.scaled e scale offset) bt false scale offset units = .ok e := by
      simp only [parseAtom, hdg, Bool.false_eq_true, ↓reduceIte, beq_self_eq_true, Bool.and_self, he, hns]
    simp only [List.map_cons, mapR, hp, ih]

/-- **an array of scaled values survives the default (scaled) round trip through its cell**, element by element, with
the arithmetic as the code computes it -/
theorem field_rt_scaled_array_so (o : Opts) (ds : List Desc) (msg : Message) (fld : Field) (pm : PMesg) (p : PField)
    (hpm : pm ∈ profile) (hnum : pm.num = msg.num) (hn : msg.num < mfgRangeMin) (hp : p ∈ pm.fields)
    (hfn : fieldNumOf fld = p.num) (hdeg : o.degrees = false) (hraw : o.raw = false) (hsc : isScaledField p.scale p.offset = true)
    (hsub : substitute msg.fields p.subs = none) (harr : p.array = true)
    (es : List Value) (he : elemsOf fld.value = (es, true)) (hne : es ≠ [])
    (hall : ∀ e ∈ es, scalarOK p.bt false e = true) (hnorm : csvNorm fld.value = fld.value) :
    readCell Arith.so ds msg.num (writeField o msg fld) = .ok (.field (mkField p.num p.bt fld.value)) := by
  obtain ⟨h1, h2, h3, h4, h5, _⟩ := field_facts hpm (hnum ▸ hn) hp
  rw [hnum] at h1 h2
  obtain ⟨hb, hbt⟩ := scaled_types hpm hp hsc
  have hint : ∀ e ∈ es, (int32Scalar e).isSome = true := fun e hx => int32Scalar_of_scalarOK hbt (hall e hx)
  have hss := scalarsOf_slice he hne hint
  have hw : writeField o msg fld = ⟨txt p.name, es.map (fun s => Atom.scaled s p.scale p.offset), txt p.units⟩ := by
    simp only [writeField, hfn, h2, hsub, hdeg, Bool.false_and, Bool.false_eq_true, ↓reduceIte]
    congr 1
    simp only [fieldAtoms, hdeg, Bool.false_and, Bool.false_eq_true, ↓reduceIte, hraw, hsc, Bool.not_false, Bool.and_self, hss]
    exact cellPieces_scaled es _ _ hne
  rw [hw]
  have hdg : (txt p.units == degreesTxt && p.bt == btSint32) = false := by
    cases hc : (txt p.units == degreesTxt && p.bt == btSint32)
    · rfl
    · simp only [Bool.and_eq_true, beq_iff_eq] at hc; exact absurd hc h5
  have hpair : (p.scale, p.offset) ∈ Fit.C12.profilePairs := by
    have h := scaledPairsOK_true
    simp only [scaledPairsOK, List.all_eq_true, Bool.or_eq_true, Bool.not_eq_true', List.contains_iff_mem] at h
    rcases h pm hpm p hp with h | h
    · rw [hsc] at h; cases h
    · exact h
  have har : ∀ e ∈ es, Arith.so.scaled e p.bt p.scale p.offset = some e := by
    intro e hx
    obtain ⟨⟨ty, pat⟩, hi⟩ := Option.isSome_iff_exists.mp (hint e hx)
    exact arith_so_profile p.bt e (hall e hx) ty pat hi (p.scale, p.offset) hpair
  have hm := mapR_scaled Arith.so p.bt p.scale p.offset (txt p.units) hdg (int32Bts_ne_string hbt) es har
  have hpack : packValues es = fld.value := by
    have e1 : es.map csvNormS = es := by
      conv => rhs; rw [← List.map_id es]
      apply List.map_congr_left
      intro e hx
      exact csvNormS_int32 (hint e hx)
    have : csvNorm fld.value = packValues es := by
      unfold csvNorm; rw [he]; simp only [↓reduceIte, e1]
    rw [← this, hnorm]
  simp only [readCell, h3, Bool.false_eq_true, ↓reduceIte, h1, h2, harr, parseCellValue, Bool.or_true, hb, hm, hpack, Bool.false_and]

/-! ### the first pass of the reader, cell by cell -/

/-- what the cell of field `f` of message `m` becomes in the reader's first pass: the field itself (never flagged
expanded), a placeholder (the field was written under a sub-field's name), or nothing (unknown field, no verbose) -/
def slotOf (o : Opts) (m : Message) (f : Field) : Option Slot :=
  match pfield m.num (fieldNumOf f) with
  | some p =>
    match substitute m.fields p.subs with
    | some s => some (.inr (txt s.name, fieldAtoms o (txt p.units) p.scale p.offset f.value))
    | none => some (.inl (unflag f))
  | none => if o.verbose then some (.inl (unflag f)) else none

def parsedOf : Option Slot → Parsed
  | some (.inl g) => .field g
  | some (.inr (n, v)) => .placeholder n v
  | none => .skip

theorem elemsOf_scalar {v : Value} (h : (elemsOf v).2 = false) : elemsOf v = ([v], false) := by
  cases v <;> simp [elemsOf] at h ⊢

theorem subName_mem {pm : PMesg} {p : PField} {s : PSub} (hm : pm ∈ profile) (hp : p ∈ pm.fields) (hs : s ∈ p.subs) :
    txt s.name ∈ allSubNames := by
  unfold allSubNames
  simp only [List.mem_flatMap, List.mem_map]
  exact ⟨pm, hm, p, hp, s, hs, rfl⟩

/-- no description carries the name of a sub-field -/
def NoSubNames (ds : List Desc) : Prop := ∀ d ∈ ds, allSubNames.contains d.name = false

theorem find_subName_none {ds : List Desc} (h : NoSubNames ds) {n : Txt} (hn : n ∈ allSubNames) :
    ds.reverse.find? (fun d => d.name == n) = none := by
  simp only [List.find?_eq_none, List.mem_reverse, beq_iff_eq]
  intro d hd he
  have := h d hd
  rw [he] at this
  simp only [List.contains_eq_mem, decide_eq_false_iff_not] at this
  exact this hn

/-- the first pass, for one field within scope, without the degrees option -/
theorem cell_rt0 (o : Opts) (hdeg : o.degrees = false) (ds : List Desc) (hds : NoSubNames ds) (m : Message) (f : Field)
    (hs : FieldScope m f) :
    readCell Arith.so ds m.num (writeField o m f) = .ok (parsedOf (slotOf o m f)) := by
  unfold slotOf
  have hok := hs.ok
  unfold fieldOK at hok
  cases hp : pfield m.num (fieldNumOf f) with
  | some p =>
    rw [hp] at hok
    simp only [Bool.and_eq_true, beq_iff_eq] at hok
    obtain ⟨⟨hbt, hv⟩, harr⟩ := hok
    obtain ⟨pm, hpm, hnum, hpf, hfn⟩ := pfield_mem hp
    have hn := pfield_low hp
    simp only
    cases hsub : substitute m.fields p.subs with
    | some s =>
      have hs' : s ∈ p.subs := List.mem_of_find?_eq_some hsub
      simp only [parsedOf]
      rw [subfield_write o m f p s hp hdeg hsub, ← hnum]
      exact subfield_placeholder Arith.so ds pm p s hpm (hnum ▸ hn) hpf hs' _ _ (find_subName_none hds (subName_mem hpm hpf hs'))
    | none =>
      simp only [parsedOf]
      have hun : unflag f = mkField p.num p.bt f.value := by rw [unflag, hfn, hbt]
      rw [hun]
      by_cases hraw : o.raw = true ∨ isScaledField p.scale p.offset = false
      · have := field_rt_value Arith.so o ds m f pm p hpm hnum hn hpf hfn.symm hdeg hraw hsub harr hv
        rw [hs.norm] at this
        exact this
      · have hraw' : o.raw = false := by
          cases h : o.raw
          · rfl
          · exact absurd (Or.inl h) hraw
        have hsc : isScaledField p.scale p.offset = true := by
          cases h : isScaledField p.scale p.offset
          · exact absurd (Or.inr h) hraw
          · rfl
        obtain ⟨hb, hbts⟩ := scaled_types hpm hpf hsc
        rw [hb] at hv
        cases ha : p.array
        · rw [ha] at harr
          have he := elemsOf_scalar harr
          unfold valueOK at hv
          rw [he] at hv
          simp only [List.isEmpty_cons, Bool.not_false, List.all_cons, List.all_nil, Bool.and_true, Bool.true_and] at hv
          obtain ⟨⟨ty, pat⟩, hi⟩ := Option.isSome_iff_exists.mp (int32Scalar_of_scalarOK hbts hv)
          exact field_rt_scaled_so o ds m f pm p hpm hnum hn hpf hfn.symm hdeg hraw' hsc hsub ha hb hv ty pat hi
        · rw [ha] at harr
          unfold valueOK at hv
          cases he : elemsOf f.value with
          | mk es sl =>
            rw [he] at hv harr
            simp only at harr
            subst harr
            simp only [Bool.and_eq_true, Bool.not_eq_true', List.all_eq_true, List.isEmpty_eq_false_iff] at hv
            exact field_rt_scaled_array_so o ds m f pm p hpm hnum hn hpf hfn.symm hdeg hraw' hsc hsub ha es he hv.1 hv.2 hs.norm
  | none =>
    rw [hp] at hok
    simp only [Bool.and_eq_true, Bool.not_eq_true'] at hok
    obtain ⟨hv, hone⟩ := hok
    simp only
    cases hverb : o.verbose
    · simp only [Bool.false_eq_true, ↓reduceIte, parsedOf]
      exact unknown_field_skipped Arith.so o m f hverb hp ds
    · simp only [↓reduceIte, parsedOf]
      have hshape : (elemsOf f.value).2 = true → (elemsOf f.value).1.length ≠ 1 := by
        intro h1 h2
        simp [oneElemArray, h1, h2] at hone
      have := unknown_field_rt Arith.so o ds m f hverb hp hs.byte (bt_named_of_valueOK hv) hv hshape
      rw [hs.norm] at this
      exact this

/-! ### the degrees option -/

/-- the options without the degrees option -/
def noDeg (o : Opts) : Opts := { o with degrees := false }

theorem semi_facts {pm : PMesg} {p : PField} (hm : pm ∈ profile) (hp : p ∈ pm.fields) :
    (txt p.units = semicirclesTxt → p.bt = btSint32 ∧ p.array = false ∧ isScaledField p.scale p.offset = false ∧ p.subs = [] ∧
      p.isBool = false) := by
  have ht := semicirclesOK_true
  simp only [semicirclesOK, List.all_eq_true, Bool.and_eq_true, Bool.or_eq_true, Bool.not_eq_true', beq_iff_eq, List.isEmpty_iff] at ht
  intro hu
  rcases (ht pm hm p hp).1 with h | h
  · simp [hu] at h
  · exact ⟨h.1.1.1.1, h.1.1.1.2, h.1.1.2, h.1.2, h.2⟩

theorem fieldAtoms_noDeg (o : Opts) (units : Txt) (sc off : Nat) (v : Value) (hu : units ≠ semicirclesTxt) :
    fieldAtoms o units sc off v = fieldAtoms (noDeg o) units sc off v := by
  have : (units == semicirclesTxt) = false := by simpa using hu
  simp [fieldAtoms, noDeg, this]

theorem writeField_noDeg (o : Opts) (m : Message) (f : Field)
    (hu : ∀ p, pfield m.num (fieldNumOf f) = some p → txt p.units ≠ semicirclesTxt) :
    writeField o m f = writeField (noDeg o) m f := by
  unfold writeField
  cases hp : pfield m.num (fieldNumOf f) with
  | none => rfl
  | some p =>
    have hne := hu p hp
    have : (txt p.units == semicirclesTxt) = false := by simpa using hne
    simp only [this, Bool.and_false, Bool.false_eq_true, ↓reduceIte, fieldAtoms_noDeg o _ _ _ _ hne]

theorem slotOf_noDeg (o : Opts) (m : Message) (f : Field)
    (hu : ∀ p, pfield m.num (fieldNumOf f) = some p → txt p.units ≠ semicirclesTxt) :
    slotOf o m f = slotOf (noDeg o) m f := by
  unfold slotOf
  cases hp : pfield m.num (fieldNumOf f) with
  | none => rfl
  | some p => simp only [fieldAtoms_noDeg o _ _ _ _ (hu p hp)]

/-- **a position written in degrees comes back** — `ToSemicircles(ToDegrees(s))` is `s` in binary64 (`C12_semicircles`;
the float TEXT in between: assumed, as everywhere) -/
theorem cell_rt_degrees (o : Opts) (hdeg : o.degrees = true) (ds : List Desc) (m : Message) (f : Field) (p : PField)
    (hp : pfield m.num (fieldNumOf f) = some p) (hu : txt p.units = semicirclesTxt) (hs : FieldScope m f) :
    readCell Arith.so ds m.num (writeField o m f) = .ok (.field (unflag f)) := by
  obtain ⟨pm, hpm, hnum, hpf, hfn⟩ := pfield_mem hp
  have hn := pfield_low hp
  obtain ⟨hbt, harr, hsc, hsubs, hb⟩ := semi_facts hpm hpf hu
  obtain ⟨h1, h2, h3, h4, _, _⟩ := field_facts hpm (hnum ▸ hn) hpf
  rw [hnum] at h1 h2
  have hok := hs.ok
  unfold fieldOK at hok
  rw [hp] at hok
  simp only [Bool.and_eq_true, beq_iff_eq] at hok
  obtain ⟨⟨hfbt, hv⟩, hvarr⟩ := hok
  rw [harr] at hvarr
  have he := elemsOf_scalar hvarr
  unfold valueOK at hv
  rw [he, hbt, hb] at hv
  simp only [List.isEmpty_cons, Bool.not_false, List.all_cons, List.all_nil, Bool.and_true, Bool.true_and] at hv
  -- the value is an int32
  obtain ⟨x, hx, hlt⟩ : ∃ x, f.value = .int32 x ∧ x < 2 ^ 32 := by
    cases hfv : f.value <;> rw [hfv] at hv <;>
      simp [scalarOK, btSint32, btEnum, btSint8, btSint16, btUint16, btUint16z, btUint32, btUint32z, btSint64, btUint64, btUint64z,
        btFloat32, btFloat64, btString, btIsUint8, btByte, btUint8, btUint8z] at hv
    exact ⟨_, rfl, hv⟩
  have hw : writeField o m f = ⟨txt p.name, [.degrees x], degreesTxt⟩ := by
    have hsub : substitute m.fields p.subs = none := by rw [hsubs]; rfl
    have hu' : (txt p.units == semicirclesTxt) = true := by simp [hu]
    simp only [writeField, hp, hsub, hdeg, hu', Bool.and_self, ↓reduceIte]
    congr 1
    simp [fieldAtoms, hdeg, hu, hsc, hx, int32Of, Nat.mod_eq_of_lt hlt]
    omega
  rw [hw]
  have hun : unflag f = mkField p.num p.bt (.int32 x) := by rw [unflag, hfn, hfbt, hx]
  rw [hun]
  have hsemi : Arith.so.degrees x = x := Fit.C12.C12_semicircles x hlt
  simp [readCell, h3, h1, h2, harr, parseCellValue, parseAtom, hbt, hb, hsemi]

/-- **the first pass, for one field within scope** — with or without the degrees option -/
theorem cell_rt (o : Opts) (ds : List Desc) (hds : NoSubNames ds) (m : Message) (f : Field)
    (hs : FieldScope m f) :
    readCell Arith.so ds m.num (writeField o m f) = .ok (parsedOf (slotOf o m f)) := by
  cases hdeg : o.degrees
  · exact cell_rt0 o hdeg ds hds m f hs
  · by_cases hsemi : ∃ p, pfield m.num (fieldNumOf f) = some p ∧ txt p.units = semicirclesTxt
    · obtain ⟨p, hp, hu⟩ := hsemi
      obtain ⟨pm, hpm, _, hpf, _⟩ := pfield_mem hp
      have hsubs := (semi_facts hpm hpf hu).2.2.2.1
      have hsl : slotOf o m f = some (.inl (unflag f)) := by
        unfold slotOf
        rw [hp]
        have : substitute m.fields p.subs = none := by rw [hsubs]; rfl
        simp only [this]
      rw [hsl]
      exact cell_rt_degrees o hdeg ds m f p hp hu hs
    · have hu : ∀ p, pfield m.num (fieldNumOf f) = some p → txt p.units ≠ semicirclesTxt :=
        fun p hp h => hsemi ⟨p, hp, h⟩
      rw [writeField_noDeg o m f hu, slotOf_noDeg o m f hu]
      exact cell_rt0 (noDeg o) rfl ds hds m f hs

end Fit.Csv
