import FitProps.CsvTextFullLemmas
/-! The CSV text of a chain of files: header, padded lines; columns counted as `encoding/csv` counts them; the round trip
through the text. -/
set_option linter.unusedSimpArgs false
set_option linter.unusedVariables false
namespace Fit.Csv
open Fit.Value Fit.Msg Fit.Gen Fit.Gen.Csv

/-! ### the header -/

def headerCells (k : Nat) : List Txt :=
  [txt "Type", txt "Local Number", txt "Message"] ++
    (List.range k).flatMap fun i => [txt "Field " ++ natDigits (i + 1), txt "Value " ++ natDigits (i + 1), txt "Units " ++ natDigits (i + 1)]

theorem headerText_eq (k : Nat) : headerText k = joinComma (headerCells k) := rfl

theorem headerCells_plain (k : Nat) : ∀ c ∈ headerCells k, plainCell c := by
  intro c hc
  rcases List.mem_append.mp hc with h | h
  · simp only [List.mem_cons, List.not_mem_nil, or_false] at h
    rcases h with rfl | rfl | rfl <;> exact plain_of_all (by decide +kernel)
  · obtain ⟨i, _, hi⟩ := List.mem_flatMap.mp h
    simp only [List.mem_cons, List.not_mem_nil, or_false] at hi
    rcases hi with rfl | rfl | rfl <;> exact plain_append (plain_of_all (by decide +kernel)) (natDigits_plain _)

theorem headerCells_length (k : Nat) : (headerCells k).length = 3 + 3 * k := by
  have : ∀ l : List Nat, (l.flatMap fun i => [txt "Field " ++ natDigits (i + 1), txt "Value " ++ natDigits (i + 1), txt "Units " ++ natDigits (i + 1)]).length = 3 * l.length := by
    intro l
    induction l with
    | nil => rfl
    | cons a l ih => simp only [List.flatMap_cons, List.length_append, ih, List.length_cons, List.length_nil]; omega
  simp only [headerCells, List.length_append, this, List.length_range, List.length_cons, List.length_nil]

/-- `encoding/csv` reads the header as its 3 + 3·k cells -/
theorem csvRecord_header (k : Nat) : csvRecord (headerText k) = .record (headerCells k) := by
  have := csvRecord_join ((headerCells k).map fun c => (c, c)) (by simp [headerCells])
    (by
      intro p hp
      obtain ⟨c, hc, rfl⟩ := List.mem_map.mp hp
      exact Or.inl ⟨rfl, headerCells_plain k c hc⟩)
  simpa [headerText_eq, List.map_map, Function.comp_def] using this

theorem readTextLines_header (ar : Arith) (s : RState) (k : Nat) (rest : List Txt) :
    readTextLines ar s (headerText k :: rest) = readTextLines ar s rest := by
  have hne : (headerText k).isEmpty = false := by
    rw [headerText_eq]
    simp only [headerCells, List.cons_append, List.nil_append]
    cases hk : ((List.range k).flatMap fun i => [txt "Field " ++ natDigits (i + 1), txt "Value " ++ natDigits (i + 1), txt "Units " ++ natDigits (i + 1)]) with
    | nil =>
      have : txt "Type" = 84 :: [121, 112, 101] := by decide +kernel
      simp [joinComma, this]
    | cons a b =>
      rw [joinComma_cons2]
      have : txt "Type" = 84 :: [121, 112, 101] := by decide +kernel
      rw [this]; rfl
  have hrl : recordLine (headerCells k) = none := by
    have : (txt "Type" == dataTxt) = false := by decide +kernel
    simp [headerCells, recordLine, this]
  simp only [readTextLines, hne, Bool.false_eq_true, ↓reduceIte, csvRecord_header, hrl]

/-! ### the whole text -/

/-- the float pieces of the CSV of these files -/
def csvAtoms (o : Opts) (files : List (List Message)) : Atom → Prop := fun a => a ∈ linesAtoms (toCsv o files)

theorem csvAtoms_mem {o : Opts} {files : List (List Message)} {l : Line} (hl : l ∈ toCsv o files) {a : Atom} (ha : a ∈ lineAtoms l) :
    csvAtoms o files a := by
  unfold csvAtoms linesAtoms
  exact List.mem_flatMap.mpr ⟨l, hl, ha⟩

theorem toCsv_wf (tp : TextParam) (o : Opts) (files : List (List Message)) (hf : FloatOK tp (csvAtoms o files)) :
    ∀ l ∈ toCsv o files, LineWF tp l :=
  writeMesgs_wf tp o _ _ (fun l hl a ha => hf.chars a (csvAtoms_mem hl ha))

/-- the padding of a line: nothing with the trim option, up to the header's cell count without -/
def padOf (o : Opts) (ls : List Line) (l : Line) : Nat := if o.trim then 0 else maxFields ls - nTriples l

theorem lineCommas (tp : TextParam) (l : Line) (h : LineWF tp l) : commasOutside false (lineText tp 0 l) = 2 + 3 * nTriples l := by
  cases l with
  | definition n => cases h
  | data name cells => exact (csvRecord_line tp 0 name cells h 0).2

/-- **the text of the CSV**: `csvText` never panics (no negative padding), and gives the header followed by every line,
padded to the header's comma count (not at all with the trim option) -/
theorem csvText_eq (tp : TextParam) (o : Opts) (ls : List Line) (hwf : ∀ l ∈ ls, LineWF tp l) :
    csvText tp o ls = some (headerText (maxFields ls) :: ls.map (paddedText tp (padOf o ls))) := by
  unfold csvText
  have hc : ∀ x ∈ ls.map (lineText tp 0), commasOutside false x ≤ 2 + 3 * maxFields ls := by
    intro x hx
    obtain ⟨l, hl, rfl⟩ := List.mem_map.mp hx
    rw [lineCommas tp l (hwf l hl)]
    have := nTriples_le_maxFields ls l hl
    omega
  cases ht : o.trim
  · rw [copyLines_pad o _ ht _ hc]
    simp only [Option.map_some, List.map_map, Option.some.injEq, List.cons.injEq, true_and]
    apply List.map_congr_left
    intro l hl
    have hn := nTriples_le_maxFields ls l hl
    simp only [Function.comp, padLine, paddedText, padOf, ht, Bool.false_eq_true, ↓reduceIte, lineCommas tp l (hwf l hl)]
    congr 2
    omega
  · rw [copyLines_trim o _ ht]
    simp only [Option.map_some, Option.some.injEq, List.cons.injEq, true_and]
    apply List.map_congr_left
    intro l hl
    simp [paddedText, padOf, ht]

/-- **every line of the CSV has as many cells as the header, as `encoding/csv` counts them** (without the trim option):
3 + 3·(the largest number of fields of a message) — for ANY chain of files: quotes, separators and all -/
theorem columns_text (tp : TextParam) (o : Opts) (ht : o.trim = false) (files : List (List Message))
    (hf : FloatOK tp (csvAtoms o files)) :
    ∃ lines, csvText tp o (toCsv o files) = some lines ∧
      ∀ x ∈ lines, ∃ cells, csvRecord x = .record cells ∧ cells.length = 3 + 3 * maxFields (toCsv o files) := by
  have hwf := toCsv_wf tp o files hf
  refine ⟨_, csvText_eq tp o _ hwf, ?_⟩
  intro x hx
  rcases List.mem_cons.mp hx with rfl | hx
  · exact ⟨_, csvRecord_header _, headerCells_length _⟩
  · obtain ⟨l, hl, rfl⟩ := List.mem_map.mp hx
    have hw := hwf l hl
    cases l with
    | definition n => cases hw
    | data name cells =>
      obtain ⟨hrec, _⟩ := csvRecord_line tp 0 name cells hw (3 * padOf o (toCsv o files) (.data name cells))
      refine ⟨_, hrec, ?_⟩
      have hn := nTriples_le_maxFields (toCsv o files) _ hl
      simp only [nTriples] at hn
      simp only [List.length_append, List.length_cons, List.length_nil, List.length_map, length_cellPairs, List.length_replicate, padOf, ht,
        Bool.false_eq_true, ↓reduceIte, nTriples]
      omega

/-- **FIT → CSV TEXT → FIT for every chain of files within `CsvUnambiguous`** -/
theorem roundtrip_text (tp : TextParam) (o : Opts) (files : List (List Message)) (hf : FloatOK tp (csvAtoms o files))
    (hne : files ≠ []) (h : csvUnambiguousB o files = true) :
    ∃ lines, csvText tp o (toCsv o files) = some lines ∧
      fromCsvTextPre (Arith.so.withText tp) lines = .ok ⟨expected o files, files.length⟩ := by
  have hwf := toCsv_wf tp o files hf
  refine ⟨_, csvText_eq tp o _ hwf, ?_⟩
  have hrt := roundtrip_full o files hne h
  unfold fromCsvPre at hrt
  unfold fromCsvTextPre
  rw [readTextLines_header]
  cases hr : readLines Arith.so {} (toCsv o files) with
  | err => rw [hr] at hrt; cases hrt
  | unmodelled => rw [hr] at hrt; cases hrt
  | ok s =>
    rw [hr] at hrt
    rw [readTextLines_sim tp _ hf _ _ {} s hwf (fun l hl a ha => csvAtoms_mem hl ha) hr]
    exact hrt

end Fit.Csv
