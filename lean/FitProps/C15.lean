import FitProps.SharedLemmas
/-! # C15 — Independent SDK objects can be used concurrently without interference

Model: `Fit.Shared` (FitModel/Shared.lean): the package-level state the objects share (factory table behind `sync.Once`,
the `sync.Pool` of field arrays, a caller-provided `Options` cell), operations as programs over an alphabet of atomic
actions, executions = arbitrary interleavings (`exec` over a schedule that also resolves `sync.Pool.Get`'s choice).

**Proved** (for every number of operations, every program over the alphabet, every schedule, every `Get` choice):
results and private states of an operation do not depend on what the other operations do (`C15_non_interference`), the
pool only ever holds zeroed arrays (`C15_pool_inv`), results do not even rest on that (`C15_op_result_indep_of_pool`),
actions of different operations commute (`C15_actions_commute`), and no operation writes a caller's options object that
another operation uses — provided shared options have their `Factory` set (`C15_no_conflict_partial`).

**Runtime truth, not proved**: absence of word-level data races in the compiled binary under the Go memory model. The
model knows the shared cells listed in FitModel/Shared.lean; a shared word it does not know is visible only to the race
detector, which the `concurrent` family runs in the thorough tier (every report other than the KF-C15-1 site fails the check). -/
namespace Fit.C15
open Fit.Shared

/-- reachable configurations: any schedule from a well-formed initial shared state -/
def Reach (progs : List (List Act)) (sh0 : Sh) (cfg : Cfg) : Prop := ∃ sched, cfg = exec (initCfg progs sh0) sched

/-- **pool_inv**: whatever the interleaving, every array in the `sync.Pool` is zeroed ("cleared before being returned"):
no operation can find another operation's fields in an array it gets. -/
theorem C15_pool_inv (progs : List (List Act)) (sh0 : Sh) (h0 : ShOK sh0) (cfg : Cfg) (hr : Reach progs sh0 cfg) :
    ∀ a ∈ cfg.sh.pool, a = zeroArr := by
  obtain ⟨sched, rfl⟩ := hr
  exact (cfgInv_exec sh0 sched _ (cfgInv_init progs sh0 h0)).shok.1

/-- **op_result_indep_of_pool**: the typed conversion only uses `arr[:0]` as append scratch and clones what it appended:
from ANY shared state — pool content arbitrary, not assumed zeroed — and any choice of `Get`, `NewXxx` yields exactly the
values it appended. (So results do not rest on the zeroing, which matters for retention only.) -/
theorem C15_op_result_indep_of_pool (vals : List Nat) (sh : Sh) (c1 c2 c3 c4 : Nat) :
    ∃ ts, (soloExec (progNew vals) sh [c1, c2, c3, c4]).threads = [ts] ∧ ts.priv.out = vals :=
  new_result_any_pool vals sh c1 c2 c3 c4

/-- **actions_commute**: an action of one operation and an action of another, executed in either order from a state that
satisfies the invariants, give the same two private states and the same shared state up to the number of zeroed arrays in
the pool (`sync.Pool.Get` may allocate instead of reusing). -/
theorem C15_actions_commute (sh0 sh : Sh) (p q : Priv) (a b : Act) (c d : Nat)
    (hok : ShOK sh) (hrel : OptsRel sh0 sh) (hp : PrivOK sh p) (hq : PrivOK sh q) :
    (step a c p sh).1 = (step a c p (step b d q sh).2).1 ∧
    (step b d q (step a c p sh).2).1 = (step b d q sh).1 ∧
    ShEq (step b d q (step a c p sh).2).2 (step a c p (step b d q sh).2).2 :=
  actions_commute sh0 sh p q a b c d hok hrel hp hq

/-- **Non-interference, at every point of every interleaving**: each operation's private state (held array, fields built,
results so far) is what its own actions so far produce when it runs alone. -/
theorem C15_non_interference_prefix (progs : List (List Act)) (sh0 : Sh) (h0 : ShOK sh0) (sched : List (Nat × Nat)) :
    ∀ t ∈ (exec (initCfg progs sh0) sched).threads, t.priv = soloPriv sh0.opts t.done :=
  priv_eq_solo progs sh0 h0 sched

/-- **C15_non_interference**: for every set of operations, every interleaving and every resolution of `Get`, an operation
that has finished has exactly the result (and private state) of its solo run from the same initial shared state —
whatever `Get` choices `cs` the solo run makes. -/
theorem C15_non_interference (progs : List (List Act)) (sh0 : Sh) (h0 : ShOK sh0) (sched : List (Nat × Nat)) (i : Nat)
    (t : Thread) (prog : List Act) (ht : (exec (initCfg progs sh0) sched).threads[i]? = some t)
    (hp : progs[i]? = some prog) (hfin : t.todo = []) (cs : List Nat) (hcs : prog.length ≤ cs.length) :
    ∃ ts, (soloExec prog sh0 cs).threads = [ts] ∧ ts.todo = [] ∧ t.priv = ts.priv := by
  obtain ⟨ts, hts, htodo, hdone⟩ := solo_finished prog sh0 cs hcs
  refine ⟨ts, hts, htodo, ?_⟩
  have h1 := finished_eq_solo progs sh0 h0 sched i t prog ht hp hfin
  have h2 := priv_eq_solo [prog] sh0 h0 (cs.map (fun c => (0, c))) ts (by
    have : (exec (initCfg [prog] sh0) (cs.map (fun c => (0, c)))).threads = [ts] := hts
    rw [this]; simp)
  rw [h1, h2, hdone]

/-- the full demand on shared caller objects: NO reachable configuration has a thread about to write an options object
that another thread still accesses -/
def C15_no_conflict_full : Prop :=
  ∀ (progs : List (List Act)) (sh0 : Sh), ShOK sh0 → ∀ sched, ¬ ConflictAt (exec (initCfg progs sh0) sched)

/-- **C15_no_conflict_partial**: if every options object used by two different operations has its `Factory` set, no
operation ever writes an options object another operation uses (the nil check in `ToMesg` only reads). -/
theorem C15_no_conflict_partial (progs : List (List Act)) (sh0 : Sh) (h0 : ShOK sh0) (hs : SharedOptsSet progs sh0)
    (sched : List (Nat × Nat)) : ¬ ConflictAt (exec (initCfg progs sh0) sched) :=
  no_conflict progs sh0 h0 hs sched

/-- **Known finding KF-C15-1 (F16)**: two `ToMesg` conversions that share one `*mesgdef.Options` with nil `Factory`: the
first is about to WRITE `options.Factory` while the second still reads/writes it — the full statement is false. -/
theorem C15_KF1_witness : ¬ C15_no_conflict_full := by
  intro h
  exact h kfProgs kfSh kf_conflict.1 [] kf_conflict.2

/-- non-vacuity: a well-formed initial state, and two conversions sharing a SET options object meet the hypotheses -/
example : ShOK { once := false, table := fun _ => 0, pool := [zeroArr], opts := fun o => if o = 0 then some 7 else none } ∧
    SharedOptsSet [progToMesg 0 [1], progToMesg 0 [2], progToMesg 1 [3]]
      { once := false, table := fun _ => 0, pool := [zeroArr], opts := fun o => if o = 0 then some 7 else none } := by
  refine ⟨⟨by simp, by simp⟩, ?_⟩
  intro o i j pi pj hij hi hj hmi hmj
  by_cases ho : o = 0
  · simp [ho]
  · exfalso
    -- only object 1 is left, and only the third program mentions it
    have : ∀ (k : Nat) (pk : List Act), [progToMesg 0 [1], progToMesg 0 [2], progToMesg 1 [3]][k]? = some pk →
        mentions pk o = true → k = 2 := by
      intro k pk hk hm
      match k, hk with
      | 0, hk => simp at hk; subst hk; simp [mentions, progToMesg] at hm; exact absurd hm.symm ho
      | 1, hk => simp at hk; subst hk; simp [mentions, progToMesg] at hm; exact absurd hm.symm ho
      | 2, _ => rfl
      | k + 3, hk => simp at hk
    exact hij ((this i pi hi hmi).trans (this j pj hj hmj).symm)

end Fit.C15
