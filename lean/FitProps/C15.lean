import FitProps.SharedLemmas
import FitModel.SharedGen
/-! # C15 — Independent SDK objects can be used concurrently without interference

Three layers, each labelled with what carries it.

**1. Shared-state inventory — REGENERATED from the Go source on every run, obligations decided by the kernel.**
`translators/sharedstate` (go/types + go/ssa reference analysis) lists every package-level variable of the packages behind
the public API, every function that writes it after initialisation and under which guard, every direct read, every user of
the `sync.Pool`s with its Get/Put discipline, what escapes, which rows every exported function's call graph touches, and
the exported functions that write through a pointer parameter (`FitModel/Generated/SharedState.lean`).
`C15_inventory_writes_guarded`, `C15_no_caller_options_written`, `C15_inventory_escapes_listed`,
`C15_no_table_entry_named_unknown` are `decide +kernel` over that table. An exception is a named (variable, function)
pair with its reason (`exceptions`); `C15_inventory_exceptions_used` keeps the list from rotting.

**2. Model — hand-written over exactly those rows, proved for all programs and all interleavings.**
`Fit.Shared`: a data cell per row, a three-state `sync.Once` whose closure runs step by step (publish, fill) while other
callers block, pools of objects with identity, caller-supplied option objects; a program is a list of actions; `wf` is the
static discipline (a lazily built row is read only after the own `Do`, no unguarded write of a shared row, an object goes
back to the pool once and its content is looked at only after the own reset, option objects are only read).
`C15_non_interference`: under every interleaving and every resolution of `Get`, every operation observes exactly what it
observes when it runs alone — the solo run is the same `exec` with one thread (`C15_solo_run_is_exec`).
The four witness theorems show that dropping any clause of `wf` breaks it in the model.

**3. Tie of 2 to 1 — regenerated mapping, kernel-decided.** `progOfTouches` turns the regenerated touches of an entry
point into its program; `C15_generated_programs_wf`: every touch class of every exported function is well formed, so
`C15_entry_points_non_interference` applies to every set of entry points. A new unguarded write, a read in front of the
`Once`, a double `Put`, a write to a caller's options breaks an obligation of layer 1 or 3 at the proof stage.

**Not proved — sampled.** That the model's actions are what the compiled code does (an action = the atomic effect the
Go memory model gives a properly synchronised access) and that the binary has no word-level data race: family `concurrent`
(concurrent = solo on the real code) and the race detector, see `checklib/props/C15.py`. -/
namespace Fit.C15
open Fit.Shared Fit.SharedInv Fit.SharedGen
open Fit.Gen

/-! ## 1. the inventory -/

/-- **Every package-level variable that is written after initialisation is (a) a `sync.Pool` accessed only through
`Get`/`Put` by users that obey the pool discipline, (b) written only inside ONE `sync.Once` and read only after a `Do`
call on it, or (c) an explicitly listed exception** — over the table regenerated from the source. -/
theorem C15_inventory_writes_guarded : ∀ r ∈ SharedState.rows, r.writesGuarded SharedState.funcs exceptions = true := by
  decide +kernel

/-- every listed exception still corresponds to an unguarded write the translator finds (a stale entry fails the build) -/
theorem C15_inventory_exceptions_used : ∀ e ∈ exceptions,
    SharedState.rows.any (fun r => r.pkg == e.pkg && r.name == e.name &&
      r.writes.any (fun w => !w.guarded && SharedState.funcs.getD w.fn "" == e.fn)) = true := by
  decide +kernel

/-- **No exported function writes through a caller-supplied pointer to an options/config type** (the pattern of the
repaired finding KF-C15-1: `options.Factory = …` on a shared `*mesgdef.Options`); the option types found are not an
empty list. -/
theorem C15_no_caller_options_written :
    (∀ w ∈ SharedState.paramWrites, isOptionsType SharedState.optionTypes w = false) ∧
    SharedState.optionTypes.contains "profile/mesgdef.Options" = true := by
  decide +kernel

/-- a reference into package-level state leaves the library only for the listed tables -/
theorem C15_inventory_escapes_listed : ∀ r ∈ SharedState.rows, r.escapes = true →
    allowedEscapes.any (fun e => e.1 == r.pkg && e.2.1 == r.name) = true := by
  decide +kernel

/-- the premise of the first six exceptions: none of the `FieldBase` values the package initialisers build (the factory
tables; more than a thousand) carries the name by which the decoder recognises a field it may complete in place -/
theorem C15_no_table_entry_named_unknown :
    SharedState.fieldBaseLiteralsNamedUnknown = 0 ∧ 1000 < SharedState.fieldBaseLiterals ∧ SharedState.nameUnknown = "unknown" := by
  decide +kernel

/-- the translator still sees the shared objects the property names (a gutted analysis fails here): the factory's message
table built under its `Once`, the typed-message pool with hundreds of users, the CLI's decoder pool, the remover's lazily
built set — found with the expected category and guard -/
theorem C15_inventory_sees_known_state :
    (SharedState.rows.any fun r => r.pkg == "profile/factory" && r.name == "protoMesgs" && r.onceOf.isSome && r.writes.length ≥ 2) = true ∧
    (SharedState.rows.any fun r => r.pkg == "profile/factory" && r.name == "once" && r.cat == .once) = true ∧
    (SharedState.rows.any fun r => r.pkg == "profile/mesgdef" && r.name == "pool" && r.cat == .pool && r.poolUses.length ≥ 200) = true ∧
    (SharedState.rows.any fun r => r.pkg == "cmd/fitactivity/opener" && r.name == "pool" && r.cat == .pool && r.poolUses.length ≥ 1) = true ∧
    (SharedState.rows.any fun r => r.pkg == "cmd/fitactivity/remover" && r.name == "knownNums" && r.onceOf.isSome) = true ∧
    1000 ≤ SharedState.nFunctions ∧ 1000 ≤ SharedState.nEntryPoints := by
  decide +kernel

/-! ## 3. (before 2, which it uses) the programs of the real entry points -/

theorem C15_generated_env_ok : EnvOK genEnv :=
  envOfRows_ok SharedState.funcs exceptions SharedState.rows (by decide +kernel)

/-- **every exported function's program — derived from which rows its call graph reads/writes/takes from a pool — is
well formed**: its reads of a lazily built table come after the `Do`, it writes no shared row outside a `Once`, it uses
the pools under the discipline. (A class whose translation contains `.write`, an unguarded `.read` of a `Once`-built
row or `.putAgain` fails here.) -/
theorem C15_generated_programs_wf : ∀ k, k < SharedState.classes.size → wfBal genEnv (classProg k) = true := by
  decide +kernel

/-! ## 2. the model -/

/-- **Non-interference at every point of every interleaving**: what an operation has observed so far is what its own
completed actions observe when it runs alone — for any environment, any well-formed programs, any number of them, any
schedule, any resolution of `Get`. -/
theorem C15_non_interference_prefix (env : Env) (henv : EnvOK env) (progs : List (List Act)) (sh0 : Sh) (h0 : ShOK env sh0)
    (hwf : ∀ p ∈ progs, wf env p = true) (sched : List (Nat × Nat)) (i : Nat) (t : Thread)
    (ht : (exec env (initCfg progs sh0) sched).threads[i]? = some t) :
    t.priv.out = (soloRun env sh0.cell sh0.opts t.done).out := by
  have inv := inv_exec env henv sh0.cell sh0.opts sched _ (inv_init env progs sh0 h0 hwf)
  obtain ⟨_, _, _, hout, _⟩ := inv.thr i t ht
  exact hout

/-- **`soloRun` is the solo run**: the program alone, scheduled `soloFuel` times or more with any resolutions of `Get`,
has finished and has observed exactly `soloRun` — the closed form is what `exec` does with a single thread. -/
theorem C15_solo_run_is_exec (env : Env) (henv : EnvOK env) (prog : List Act) (sh0 : Sh) (h0 : ShOK env sh0)
    (hwf : wf env prog = true) (cs : List Nat) (hcs : soloFuel env prog ≤ cs.length) :
    ∃ ts, (exec env (initCfg [prog] sh0) (cs.map (fun c => (0, c)))).threads = [ts] ∧ ts.todo = [] ∧ ts.done = prog ∧
      ts.priv.out = (soloRun env sh0.cell sh0.opts prog).out := by
  have hwf' : ∀ p ∈ [prog], wf env p = true := by simpa using hwf
  have inv0 := inv_init env [prog] sh0 h0 hwf'
  have hown : SoloOwn (initCfg [prog] sh0).sh := by
    intro o j k hs
    rcases h0.1 o with h | ⟨h, _⟩ <;> simp [initCfg, h] at hs
  obtain ⟨ts, hts, hfin⟩ := solo_finishes env henv sh0.cell sh0.opts cs (initCfg [prog] sh0)
    { priv := initPriv, done := [], todo := prog } (by simp [initCfg]) inv0 hown
    (Nat.le_trans (mu_le env sh0 prog) hcs)
  have hget : (exec env (initCfg [prog] sh0) (cs.map (fun c => (0, c)))).threads[0]? = some ts := by simp [hts]
  have hdone := finished_done env [prog] sh0 _ 0 ts prog hget (by simp) hfin
  refine ⟨ts, hts, hfin, hdone, ?_⟩
  rw [C15_non_interference_prefix env henv [prog] sh0 h0 hwf' _ 0 ts hget, hdone]

/-- **C15_non_interference**: for every set of well-formed operations, every interleaving and every resolution of
`Get`, an operation that has finished has observed exactly what it observes when it is run ALONE from the same initial
shared state (alone = the same `exec`, one thread, any `Get` resolutions `cs`). -/
theorem C15_non_interference (env : Env) (henv : EnvOK env) (progs : List (List Act)) (sh0 : Sh) (h0 : ShOK env sh0)
    (hwf : ∀ p ∈ progs, wf env p = true) (sched : List (Nat × Nat)) (i : Nat) (t : Thread) (prog : List Act)
    (ht : (exec env (initCfg progs sh0) sched).threads[i]? = some t) (hp : progs[i]? = some prog) (hfin : t.todo = [])
    (cs : List Nat) (hcs : soloFuel env prog ≤ cs.length) :
    ∃ ts, (exec env (initCfg [prog] sh0) (cs.map (fun c => (0, c)))).threads = [ts] ∧ ts.todo = [] ∧
      t.priv.out = ts.priv.out := by
  obtain ⟨ts, hts, htodo, _, hout⟩ :=
    C15_solo_run_is_exec env henv prog sh0 h0 (hwf prog (List.mem_of_getElem? hp)) cs hcs
  refine ⟨ts, hts, htodo, ?_⟩
  rw [hout, C15_non_interference_prefix env henv progs sh0 h0 hwf sched i t ht,
    finished_done env progs sh0 sched i t prog ht hp hfin]

/-- the pool discipline invariant, at every point of every interleaving: no object is held by two operations, a held
object is in no pool, an object is in the pools at most once -/
theorem C15_pool_no_alias (env : Env) (henv : EnvOK env) (progs : List (List Act)) (sh0 : Sh) (h0 : ShOK env sh0)
    (hwf : ∀ p ∈ progs, wf env p = true) (sched : List (Nat × Nat)) :
    let cfg := exec env (initCfg progs sh0) sched
    (∀ (i j : Nat) (t t' : Thread) (id : Nat), cfg.threads[i]? = some t → cfg.threads[j]? = some t' →
        t.priv.held = some id → t'.priv.held = some id → i = j) ∧
    (∀ (i : Nat) (t : Thread) (id q : Nat), cfg.threads[i]? = some t → t.priv.held = some id → id ∉ cfg.sh.pool q) ∧
    (∀ q, (cfg.sh.pool q).Nodup) ∧ (∀ q1 q2 id, q1 ≠ q2 → id ∈ cfg.sh.pool q1 → id ∉ cfg.sh.pool q2) := by
  have inv := inv_exec env henv sh0.cell sh0.opts sched _ (inv_init env progs sh0 h0 hwf)
  exact ⟨inv.hh, inv.hp, inv.pn, inv.pd⟩

/-- shared data at every point of every interleaving: rows nobody builds lazily keep their initial content, a `Once`
that is done has all its rows built (a table is never seen half filled through its guard), and the caller's option
objects are what the caller made them -/
theorem C15_shared_rows_stable (env : Env) (henv : EnvOK env) (progs : List (List Act)) (sh0 : Sh) (h0 : ShOK env sh0)
    (hwf : ∀ p ∈ progs, wf env p = true) (sched : List (Nat × Nat)) :
    let cfg := exec env (initCfg progs sh0) sched
    (∀ r, env.onceOf r = none → cfg.sh.cell r = sh0.cell r) ∧
    (∀ o, cfg.sh.once o = .done → ∀ r ∈ env.body o, cfg.sh.cell r = env.built r) ∧
    cfg.sh.opts = sh0.opts := by
  have inv := inv_exec env henv sh0.cell sh0.opts sched _ (inv_init env progs sh0 h0 hwf)
  refine ⟨inv.ro, fun o ho => ?_, inv.opts⟩
  have := inv.once o
  unfold OnceOK at this
  simpa [ho] using this

/-- **instantiation for the real entry points**: any operations each made of any exported functions of the library
(given by their regenerated touch classes), from any well-formed shared state: every finished operation has observed what
it observes alone. The hypotheses of `C15_non_interference` are discharged by the regenerated obligations. -/
theorem C15_entry_points_non_interference (ops : List (List Nat)) (hops : ∀ op ∈ ops, ∀ k ∈ op, k < SharedState.classes.size)
    (sh0 : Sh) (h0 : ShOK genEnv sh0) (sched : List (Nat × Nat)) (i : Nat) (t : Thread) (op : List Nat)
    (ht : (exec genEnv (initCfg (ops.map (·.flatMap classProg)) sh0) sched).threads[i]? = some t)
    (hp : ops[i]? = some op) (hfin : t.todo = [])
    (cs : List Nat) (hcs : soloFuel genEnv (op.flatMap classProg) ≤ cs.length) :
    ∃ ts, (exec genEnv (initCfg [op.flatMap classProg] sh0) (cs.map (fun c => (0, c)))).threads = [ts] ∧ ts.todo = [] ∧
      t.priv.out = ts.priv.out := by
  have hwfOp : ∀ op ∈ ops, wf genEnv (op.flatMap classProg) = true := by
    intro op hop
    exact wf_of_wfBal _ _ (wfBal_flatMap genEnv classProg op (fun k hk => C15_generated_programs_wf k (hops op hop k hk)))
  refine C15_non_interference genEnv C15_generated_env_ok _ sh0 h0 ?_ sched i t _ ht ?_ hfin cs hcs
  · intro p hpm
    obtain ⟨op', hop', rfl⟩ := List.mem_map.mp hpm
    exact hwfOp op' hop'
  · simp [List.getElem?_map, hp]

/-! ## each clause of `wf` is needed: dropping a guard breaks non-interference in the model -/

/-- a small environment for the witnesses: row 5 is built by `Once` row 6, every other row is plain data -/
def wEnv : Env :=
  { onceOf := fun r => if r = 5 then some 6 else none, body := fun o => if o = 6 then [5] else [],
    racy := fun _ => false, built := fun r => 2 * r + 2, half := fun r => 2 * r + 1 }

def wSh : Sh :=
  { cell := fun _ => 0, once := fun _ => .idle, pool := fun _ => [], heap := fun _ => [], next := 0, opts := fun _ => none }

theorem wEnv_ok : EnvOK wEnv := by
  refine ⟨?_, ?_, ?_⟩
  · intro o r h
    by_cases ho : o = 6 <;> simp [wEnv, ho] at h ⊢
    simp [h]
  · intro o r h
    by_cases hr : r = 5 <;> simp [wEnv, hr] at h ⊢
    simp [← h]
  · intro o
    by_cases ho : o = 6 <;> simp [wEnv, ho]

theorem wSh_ok : ShOK wEnv wSh := ⟨fun _ => Or.inl rfl, by simp [wSh], by simp [wSh], by simp [wSh]⟩

/-- what the threads have observed, and whether they have finished -/
def outs (cfg : Cfg) : List (List Nat × Bool) := cfg.threads.map fun t => (t.priv.out, t.todo.isEmpty)

/-- **an object returned to the pool twice (seeded change C15-5)**: operation 0 puts its object back twice; operations 1
and 2 are well formed, yet both get the SAME object and operation 1 reads operation 2's fields: `[1, 2, 2]` instead of
the `[1, 1]` it observes alone. Only the `putAgain` makes operation 0 ill formed. -/
theorem C15_witness_double_put :
    let progs := [[Act.get 0, .reset, .put 0, .putAgain 0], [.get 0, .reset, .use [1], .readObj, .put 0],
                  [.get 0, .reset, .use [2, 2], .readObj, .put 0]]
    let sched := [(0, 0), (0, 0), (0, 0), (0, 0), (1, 1), (2, 1), (1, 0), (1, 0), (2, 0), (2, 0), (1, 0), (1, 0), (2, 0), (2, 0)]
    outs (exec wEnv (initCfg progs wSh) sched) = [([], true), ([1, 2, 2], true), ([2, 2, 2, 2], true)] ∧
    outs (exec wEnv (initCfg [progs[1]!] wSh) [(0, 0), (0, 0), (0, 0), (0, 0), (0, 0)]) = [([1, 1], true)] ∧
    progs.map (wf wEnv) = [false, true, true] ∧ wf wEnv [Act.get 0, .reset, .put 0] = true := by
  decide

/-- **a table read in front of its `Once` (seeded changes C15-2, C15-6: unsynchronised fast path)**: operation 1 reads
row 5 without going through the `Do`; while operation 0 is inside the closure it sees the published but unfilled table
(`11`), alone it sees `0`, after the closure `12`: its result depends on the schedule. With the `Do` in front it is well
formed. -/
theorem C15_witness_unguarded_read :
    let progs := [[Act.onceDo 6, .read 5], [.read 5]]
    outs (exec wEnv (initCfg progs wSh) [(0, 0), (0, 0), (1, 0)]) = [([], false), ([11], true)] ∧
    outs (exec wEnv (initCfg progs wSh) [(0, 0), (0, 0), (0, 0), (0, 0), (0, 0), (0, 0), (1, 0)]) = [([12], true), ([12], true)] ∧
    outs (exec wEnv (initCfg [progs[1]!] wSh) [(0, 0)]) = [([0], true)] ∧
    progs.map (wf wEnv) = [true, false] ∧ wf wEnv [Act.onceDo 6, .read 5] = true := by
  decide

/-- **an unguarded write of shared package state (seeded changes C15-1 / C15-4: one validator shared by all encoders;
C20-5: a package map mutated through an alias)**: operation 0 reads back `9`, the other's value, instead of its own `5`. -/
theorem C15_witness_unguarded_write :
    let progs := [[Act.write 3 5, .read 3], [.write 3 9, .read 3]]
    outs (exec wEnv (initCfg progs wSh) [(0, 0), (1, 0), (0, 0), (1, 0)]) = [([9], true), ([9], true)] ∧
    outs (exec wEnv (initCfg [progs[0]!] wSh) [(0, 0), (0, 0)]) = [([5], true)] ∧
    progs.map (wf wEnv) = [false, false] := by
  decide

/-- **a write to a caller-supplied options object (the repaired finding KF-C15-1)**: operation 1 only reads the shared
options object and gets `7`, what operation 0 stored there, instead of the standard factory it gets alone. -/
theorem C15_witness_options_write :
    let progs := [[Act.optWrite 0 7, .optRead 0], [.optRead 0]]
    outs (exec wEnv (initCfg progs wSh) [(0, 0), (1, 0), (0, 0)]) = [([7], true), ([7], true)] ∧
    outs (exec wEnv (initCfg [progs[1]!] wSh) [(0, 0)]) = [([stdFactory], true)] ∧
    progs.map (wf wEnv) = [false, true] := by
  decide

/-! ## non-vacuity -/

/-- the hypotheses of `C15_non_interference` are met by a mix that uses every kind of shared state (a `Once`-built table
raced at first use, a pool, a shared options object, a plain table): three operations interleaved action by action all
finish with what they observe alone -/
example :
    let progs := [[Act.onceDo 6, .read 5, .get 0, .reset, .use [7], .readObj, .put 0, .optRead 0],
                  [Act.get 0, .reset, .use [8, 8], .put 0, .onceDo 6, .read 5, .read 2],
                  [Act.optRead 0, .onceDo 6, .read 5, .get 0, .reset, .readObj, .put 0]]
    let sched := (List.range 60).map fun n => (n % 3, n % 2)
    EnvOK wEnv ∧ ShOK wEnv wSh ∧ (∀ p ∈ progs, wf wEnv p = true) ∧
    outs (exec wEnv (initCfg progs wSh) sched) =
      progs.map (fun p => ((soloRun wEnv wSh.cell wSh.opts p).out, true)) := by
  refine ⟨wEnv_ok, wSh_ok, by decide, by decide +kernel⟩

/-- the generated environment and programs are not trivial: the factory's message table is a `Once`-built row, and the
program derived for `Factory.CreateMesg` goes through the `Do` before it reads it -/
example :
    (SharedState.entries.any fun e => e.1 == "(*profile/factory.Factory).CreateMesg" &&
      (classProg e.2).any (fun a => match a with | .onceDo _ => true | _ => false) &&
      (classProg e.2).any (fun a => match a with | .read r => (genEnv.onceOf r).isSome | _ => false)) = true ∧
    (SharedState.entries.any fun e => e.1 == "(*decoder.Decoder).Decode" &&
      (classProg e.2).any (fun a => match a with | .get _ => true | _ => false) && (classProg e.2).length ≥ 10) = true := by
  decide +kernel

end Fit.C15
