import FitProps.SharedLemmas
/-! # C15 — Independent SDK objects can be used concurrently without interference

Model: `Fit.Shared` (FitModel/Shared.lean): the package-level state the objects share (factory table behind `sync.Once`,
the `sync.Pool` of field arrays, a caller-provided `Options` cell), operations as programs over an alphabet of atomic
actions, executions = arbitrary interleavings (`exec` over a schedule that also resolves `sync.Pool.Get`'s choice).

**Proved** (for every number of operations, every program over the alphabet, every schedule, every `Get` choice):
results and private states of an operation do not depend on what the other operations do (`C15_non_interference`), the
pool only ever holds zeroed arrays (`C15_pool_inv`), results do not even rest on that (`C15_op_result_indep_of_pool`),
actions of different operations commute (`C15_actions_commute`), and no operation ever writes a caller's options object
— `Factory` set or nil, shared or not (`C15_options_never_written`, `C15_no_conflict`); a conversion with a shared
options object yields its solo result (`C15_shared_options_result`). Until /repo's repair of KF-C15-1 (F16) the last
three held only for options whose `Factory` is set: `ToMesg` assigned the default to the caller's object.

**Runtime truth, not proved**: absence of word-level data races in the compiled binary under the Go memory model. The
model knows the shared cells listed in FitModel/Shared.lean; a shared word it does not know is visible only to the race
detector, which the `concurrent` family runs under in both tiers (every report fails the check). -/
namespace Fit.C15
open Fit.Shared

/-- reachable configurations: any schedule from a well-formed initial shared state -/
def Reach (progs : List (List Act)) (sh0 : Sh) (cfg : Cfg) : Prop := ∃ sched, cfg = exec (initCfg progs sh0) sched

/-- **pool_inv**: whatever the interleaving, every array in the `sync.Pool` is zeroed ("cleared before being returned"):
no operation can find another operation's fields in an array it gets. -/
theorem C15_pool_inv (progs : List (List Act)) (sh0 : Sh) (h0 : ShOK sh0) (cfg : Cfg) (hr : Reach progs sh0 cfg) :
    ∀ a ∈ cfg.sh.pool, a = zeroArr := by
  obtain ⟨sched, rfl⟩ := hr
  exact (cfgInv_exec sh0 sched _ (cfgInv_init progs sh0 h0)).shok.1

/-- **op_result_indep_of_pool**: the typed conversion only uses `arr[:0]` as append scratch and clones what it appended:
from ANY shared state — pool content arbitrary, not assumed zeroed — and any choice of `Get`, `NewXxx` yields exactly the
values it appended. (So results do not rest on the zeroing, which matters for retention only.) -/
theorem C15_op_result_indep_of_pool (vals : List Nat) (sh : Sh) (c1 c2 c3 c4 : Nat) :
    ∃ ts, (soloExec (progNew vals) sh [c1, c2, c3, c4]).threads = [ts] ∧ ts.priv.out = vals :=
  new_result_any_pool vals sh c1 c2 c3 c4

/-- **actions_commute**: an action of one operation and an action of another, executed in either order from a state that
satisfies the invariants, give the same two private states and the same shared state up to the number of zeroed arrays in
the pool (`sync.Pool.Get` may allocate instead of reusing). -/
theorem C15_actions_commute (sh0 sh : Sh) (p q : Priv) (a b : Act) (c d : Nat)
    (hok : ShOK sh) (hrel : OptsRel sh0 sh) (hp : PrivOK sh p) (hq : PrivOK sh q) :
    (step a c p sh).1 = (step a c p (step b d q sh).2).1 ∧
    (step b d q (step a c p sh).2).1 = (step b d q sh).1 ∧
    ShEq (step b d q (step a c p sh).2).2 (step a c p (step b d q sh).2).2 :=
  actions_commute sh0 sh p q a b c d hok hrel hp hq

/-- **Non-interference, at every point of every interleaving**: each operation's private state (held array, fields built,
results so far) is what its own actions so far produce when it runs alone. -/
theorem C15_non_interference_prefix (progs : List (List Act)) (sh0 : Sh) (h0 : ShOK sh0) (sched : List (Nat × Nat)) :
    ∀ t ∈ (exec (initCfg progs sh0) sched).threads, t.priv = soloPriv sh0.opts t.done :=
  priv_eq_solo progs sh0 h0 sched

/-- **C15_non_interference**: for every set of operations, every interleaving and every resolution of `Get`, an operation
that has finished has exactly the result (and private state) of its solo run from the same initial shared state —
whatever `Get` choices `cs` the solo run makes. -/
theorem C15_non_interference (progs : List (List Act)) (sh0 : Sh) (h0 : ShOK sh0) (sched : List (Nat × Nat)) (i : Nat)
    (t : Thread) (prog : List Act) (ht : (exec (initCfg progs sh0) sched).threads[i]? = some t)
    (hp : progs[i]? = some prog) (hfin : t.todo = []) (cs : List Nat) (hcs : prog.length ≤ cs.length) :
    ∃ ts, (soloExec prog sh0 cs).threads = [ts] ∧ ts.todo = [] ∧ t.priv = ts.priv := by
  obtain ⟨ts, hts, htodo, hdone⟩ := solo_finished prog sh0 cs hcs
  refine ⟨ts, hts, htodo, ?_⟩
  have h1 := finished_eq_solo progs sh0 h0 sched i t prog ht hp hfin
  have h2 := priv_eq_solo [prog] sh0 h0 (cs.map (fun c => (0, c))) ts (by
    have : (exec (initCfg [prog] sh0) (cs.map (fun c => (0, c)))).threads = [ts] := hts
    rw [this]; simp)
  rw [h1, h2, hdone]

/-- **options_never_written**: for every set of operations, from every initial shared state and under every interleaving,
every caller-provided options object — `Factory` set or nil, used by one operation or shared by many — is at every moment
exactly what the caller made it: the library only READS option values. (No hypothesis at all; before the repair of
KF-C15-1 this failed for a nil `Factory`, which every `ToMesg` overwrote.) -/
theorem C15_options_never_written (progs : List (List Act)) (sh0 : Sh) (sched : List (Nat × Nat)) :
    (exec (initCfg progs sh0) sched).sh.opts = sh0.opts :=
  opts_exec sched _

/-- the full demand on shared caller objects: NO reachable configuration has a thread about to write an options object
that another thread still accesses (write = the cell differs after the action, for some resolution of `Get`) -/
def C15_no_conflict_full : Prop :=
  ∀ (progs : List (List Act)) (sh0 : Sh), ShOK sh0 → ∀ sched, ¬ ConflictAt (exec (initCfg progs sh0) sched)

/-- **C15_no_conflict** (full strength; was `C15_no_conflict_partial` under the hypothesis "shared options have their
`Factory` set" while KF-C15-1 was open): no operation ever writes an options object another operation uses. -/
theorem C15_no_conflict : C15_no_conflict_full :=
  fun _ _ _ _ => no_conflict_any _

/-- **C15_shared_options_result** (concurrent = solo for conversions with a caller's options object, shared or not, `Factory`
set or NIL): in every set of operations and every interleaving, a finished `x.ToMesg(options)` used the factory the
caller's object named at the start — the standard factory if it named none — and produced exactly its own fields,
however many other conversions used the same object meanwhile. -/
theorem C15_shared_options_result (progs : List (List Act)) (sh0 : Sh) (h0 : ShOK sh0) (sched : List (Nat × Nat)) (i : Nat)
    (t : Thread) (o : Nat) (vals : List Nat) (ht : (exec (initCfg progs sh0) sched).threads[i]? = some t)
    (hp : progs[i]? = some (progToMesg o vals)) (hfin : t.todo = []) :
    t.priv.out = (sh0.opts o).getD stdFactory :: vals := by
  rw [finished_eq_solo progs sh0 h0 sched i t _ ht hp hfin]
  simp [soloPriv, progToMesg, privSolo, initPriv]

/-- non-vacuity (the witness of the former finding KF-C15-1: two conversions sharing ONE options object whose `Factory`
is nil, `kfProgs`/`kfSh`): the hypotheses hold, and under an interleaved schedule both conversions finish with the
standard factory and their own fields while the shared object still has a nil `Factory` -/
example : ShOK kfSh ∧
    ((exec (initCfg kfProgs kfSh) [(0, 0), (1, 0), (1, 1), (0, 1), (0, 0), (1, 2), (1, 0), (0, 3), (0, 0), (1, 1)]).threads.map
      (fun t => (t.todo, t.priv.out))) = [([], [stdFactory, 1]), ([], [stdFactory, 2])] ∧
    (exec (initCfg kfProgs kfSh) [(0, 0), (1, 0), (1, 1), (0, 1), (0, 0), (1, 2), (1, 0), (0, 3), (0, 0), (1, 1)]).sh.opts 0 = none :=
  ⟨kfSh_ok, by decide, rfl⟩

/-- non-vacuity of the conflict notion: it is not a predicate that nothing satisfies — under the step semantics of the
code before the repair (`stepPreFix`: the nil check assigns `options.Factory`) the same witness IS a conflict -/
example : ConflictAtWith stepPreFix (initCfg kfProgs kfSh) := kf_conflict_preFix

/-- non-vacuity: a well-formed initial state with one SET and one NIL options object, three conversions of which two share
the set one and two share the nil one: `C15_shared_options_result` applies to each of them in a finished interleaving -/
example :
    let sh0 : Sh := { once := false, table := fun _ => 0, pool := [zeroArr], opts := fun o => if o = 0 then some 7 else none }
    let progs := [progToMesg 0 [1], progToMesg 1 [2], progToMesg 0 [3], progToMesg 1 [4]]
    let sched := (List.range 20).map (fun n => (n % 4, n % 3))
    ShOK sh0 ∧ ((exec (initCfg progs sh0) sched).threads.map (fun t => (t.todo, t.priv.out))) =
      [([], [7, 1]), ([], [stdFactory, 2]), ([], [7, 3]), ([], [stdFactory, 4])] := by
  refine ⟨⟨by simp, by simp⟩, by decide⟩

end Fit.C15
