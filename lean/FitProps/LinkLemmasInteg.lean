import FitModel.DecProg
import FitProps.IntegrityLemmas
/-!
LINK (B) ↔ (D): the framing / CRC accounting model `FitModel/Integrity.lean` (C04) and the decoder as a client
program of `ReadN` (`FitModel/DecProg.lean`, C08) run on the exact-n reader over the same byte stream.

The two were written one after the other but are tied to the code by different families (`integrity`, `dfrag`) and
no theorem related them. Here: `CheckIntegrity` of (D) over the exact-n reader IS `Integrity.checkIntegrity`, and the
`Next`/`Decode` loop of (D) reduced to (sequences, messages, error class) IS `Integrity.decodeAll` — for every byte
list and every fuel (lock-step, no hypothesis on the bytes).
-/
set_option linter.unusedSimpArgs false
set_option linter.unusedVariables false

namespace Fit.Link
open Fit.ReadBuffer

/-! ### the exact-n reader, one request -/

theorem runExact_read_ok {α : Type} (n : Nat) (k : Except RErr Bytes → Prog α) (rest : Bytes) (h : n ≤ rest.length) :
    runExact (.read n k) rest = runExact (k (.ok (rest.take n))) (rest.drop n) := by
  simp only [runExact, exactRead, h, if_true]

theorem runExact_read_short {α : Type} (n : Nat) (k : Except RErr Bytes → Prog α) (rest : Bytes) (h : rest.length < n) :
    runExact (.read n k) rest = runExact (k (.error (if rest.isEmpty then .eof else .unexpectedEof))) [] := by
  have h' : ¬ n ≤ rest.length := by omega
  simp only [runExact, exactRead, h', if_false]
  split <;> rfl

theorem hasN_false {l : List Nat} {n : Nat} : (!Integrity.hasN l n) = true ↔ l.length < n := by
  rw [Bool.not_eq_true', ← Bool.not_eq_true, Integrity.hasN_iff]; omega

theorem hasN_false' {l : List Nat} {n : Nat} (h : l.length < n) : Integrity.hasN l n = false := by
  have := (@hasN_false l n).mpr h
  simpa using this

theorem hasN_true {l : List Nat} {n : Nat} (h : n ≤ l.length) : Integrity.hasN l n = true := (Integrity.hasN_iff l n).mpr h

/-! ### error classes and results -/

/-- error class of (D) as (B) names it: every error of the reading layer is (B)'s `eof` (over the exact-n reader only the
two end-of-stream errors occur) -/
def errB : DecProg.Err → Integrity.Err
  | .io _ => .eof
  | .notFit => .notFit
  | .crc => .crc
  | .defMissing => .defMissing
  | .invalidBaseType => .invalidBaseType

/-- (D)'s `CheckIntegrity` outcome as (B)'s result -/
def ciResult (o : DecProg.CiOut) : Integrity.Result :=
  match o.status with
  | none => .ok o.seq
  | some e => .err (errB e) o.seq

/-! ### `CheckIntegrity` -/

theorem le16_eq (b : Bytes) : DecProg.le16 b = Integrity.le16 b := by
  match b with
  | [] => rfl
  | [_] => rfl
  | _ :: _ :: _ => rfl
theorem le32_eq (b : Bytes) : DecProg.le32 b = Integrity.le32 b := by
  match b with
  | [] => rfl
  | [_] => rfl
  | [_, _] => rfl
  | [_, _, _] => rfl
  | _ :: _ :: _ :: _ :: _ => rfl
theorem be16_eq (b : Bytes) : DecProg.be16 b = Integrity.be16 b := by
  match b with
  | [] => rfl
  | [_] => rfl
  | _ :: _ :: _ => rfl

theorem discard_err {fuel rem crc : Nat} {bs : List Nat} {e : Integrity.Err}
    (h : Integrity.discard fuel rem crc bs = .error e) : e = .eof := by
  induction fuel generalizing rem crc bs with
  | zero => simp [Integrity.discard] at h
  | succ fuel ih =>
    unfold Integrity.discard at h
    by_cases h0 : rem = 0
    · simp [h0] at h
    · simp only [h0, if_false] at h
      by_cases hn : (!Integrity.hasN bs (min rem Fit.Gen.Integ.reservedbuf)) = true
      · simp only [hn, if_true] at h; cases h; rfl
      · simp only [hn, if_false] at h; exact ih h

theorem discard_len (fuel rem crc : Nat) (bs bs' : List Nat) (crc' : Nat)
    (h : Integrity.discard fuel rem crc bs = .ok (crc', bs')) : bs'.length ≤ bs.length := by
  induction fuel generalizing rem crc bs with
  | zero => simp [Integrity.discard] at h; rw [← h.2]; exact Nat.le_refl _
  | succ fuel ih =>
    unfold Integrity.discard at h
    by_cases h0 : rem = 0
    · simp [h0] at h; rw [← h.2]; exact Nat.le_refl _
    · simp only [h0, if_false] at h
      by_cases hn : (!Integrity.hasN bs (min rem Fit.Gen.Integ.reservedbuf)) = true
      · simp only [hn, if_true] at h; cases h
      · simp only [hn, if_false] at h
        have := ih _ _ _ h
        simp only [List.length_drop] at this; omega

theorem ciBody_sim (seq ds : Nat) (k : Nat → Prog DecProg.CiOut) (R : Integrity.Result) :
    ∀ (fuel cur crc : Nat) (bs : Bytes), cur ≤ ds →
    (match Integrity.discard fuel (ds - cur) crc bs with
      | .error _ => R = .err .eof seq
      | .ok (crc', bs') => ciResult (runExact (k crc') bs') = R) →
    ciResult (runExact (DecProg.checkIntegrity.ciBody seq ds fuel cur crc k) bs) = R := by
  intro fuel
  induction fuel with
  | zero => intro cur crc bs _ h; simpa [DecProg.checkIntegrity.ciBody, Integrity.discard] using h
  | succ fuel ih =>
    intro cur crc bs hc h
    unfold DecProg.checkIntegrity.ciBody
    unfold Integrity.discard at h
    by_cases hlt : cur < ds
    · have hne : ¬ (ds - cur = 0) := by omega
      simp only [hlt, if_true]
      simp only [hne, if_false] at h
      by_cases hl : min (ds - cur) Fit.Gen.Integ.reservedbuf ≤ bs.length
      · rw [runExact_read_ok _ _ _ hl]
        simp only [hasN_true hl, Bool.not_true, Bool.false_eq_true, if_false] at h
        apply ih _ _ _ (by omega)
        have e : ds - (cur + min (ds - cur) Fit.Gen.Integ.reservedbuf) = ds - cur - min (ds - cur) Fit.Gen.Integ.reservedbuf := by omega
        rw [e]; exact h
      · rw [runExact_read_short _ _ _ (by omega)]
        simp only [hasN_false' (Nat.lt_of_not_le hl), Bool.not_false, if_true] at h
        rw [h]; simp [runExact, ciResult, errB]
    · have he : ds - cur = 0 := by omega
      simp only [hlt, if_false]
      simpa [he] using h

theorem checkIntegrity_sim : ∀ (fuel seq : Nat) (bs : Bytes), bs.length < fuel →
    ciResult (runExact (DecProg.checkIntegrity fuel seq) bs) = Integrity.checkLoop fuel seq bs := by
  intro fuel
  induction fuel with
  | zero => intro seq bs h; omega
  | succ fuel ih =>
    intro seq bs hlen
    unfold DecProg.checkIntegrity Integrity.checkLoop
    cases bs with
    | nil =>
      rw [runExact_read_short _ _ _ (by simp)]
      by_cases hs : seq = 0 <;> simp [Integrity.decodeFileHeader, runExact, ciResult, errB, hs]
    | cons size rest =>
      rw [runExact_read_ok _ _ _ (by simp)]
      simp only [List.take_succ_cons, List.take_zero, List.drop_succ_cons, List.drop_zero, List.headD_cons]
      unfold Integrity.decodeFileHeader
      simp only [List.isEmpty_cons, Bool.false_eq_true, false_and, if_false]
      by_cases hsz : size ≠ 12 ∧ size ≠ 14
      · simp [hsz, runExact, ciResult, errB]
      simp only [hsz, if_false]
      by_cases hl : size - 1 ≤ rest.length
      · rw [runExact_read_ok _ _ _ hl]
        simp only [hasN_true hl, Bool.not_true, Bool.false_eq_true, if_false]
        by_cases htag : (List.drop 7 (List.take (size - 1) rest)).take 4 ≠ Fit.Gen.Integ.dataTypeFIT
        · simp [htag, runExact, ciResult, errB]
        simp only [htag, if_false, le32_eq, le16_eq]
        by_cases hds : Integrity.le32 (List.drop 3 (List.take (size - 1) rest)) = 0
        · simp [hds, runExact, ciResult, errB]
        simp only [hds, if_false]
        have hrl : (List.drop (size - 1) rest).length < fuel := by
          simp only [List.length_drop, List.length_cons] at hlen ⊢; omega
        generalize (if size = 14 then Integrity.le16 (List.drop 11 (List.take (size - 1) rest)) else 0) = crc
        generalize Crc.write (Crc.write 0 [size]) (List.take (size - 1 - 2) (List.take (size - 1) rest)) = w
        generalize Integrity.le32 (List.drop 3 (List.take (size - 1) rest)) = ds
        generalize List.drop (size - 1) rest = r at hrl ⊢
        have tail : ciResult (runExact (DecProg.checkIntegrity.ciBody seq ds ds 0 0 fun crc' =>
              Prog.read 2 fun x =>
                match x with
                | Except.error e => Prog.ret { seq := seq, status := some (DecProg.Err.io e) }
                | Except.ok c =>
                  if crc' ≠ Integrity.le16 c then Prog.ret { seq := seq, status := some DecProg.Err.crc }
                  else DecProg.checkIntegrity fuel (seq + 1)) r) =
            (match Integrity.discard ds ds 0 r with
              | Except.error e => Integrity.Result.err e seq
              | Except.ok (crc, rest) =>
                match rest with
                | lo :: hi :: rest' =>
                  if crc ≠ Integrity.le16 [lo, hi] then Integrity.Result.err Integrity.Err.crc seq
                  else Integrity.checkLoop fuel (seq + 1) rest'
                | x => Integrity.Result.err Integrity.Err.eof seq) := by
          apply ciBody_sim seq ds _ _ ds 0 0 r (Nat.zero_le _)
          simp only [Nat.sub_zero]
          cases hd : Integrity.discard ds ds 0 r with
          | error e =>
            simp only
            have := discard_err hd; subst this; rfl
          | ok p =>
            obtain ⟨crc', r'⟩ := p
            have hdl := discard_len _ _ _ _ _ _ hd
            simp only at hdl ⊢
            match r', hdl with
            | [], _ => rw [runExact_read_short _ _ _ (by simp)]; simp [runExact, ciResult, errB]
            | [_], _ => rw [runExact_read_short _ _ _ (by simp)]; simp [runExact, ciResult, errB]
            | lo :: hi :: r'', hdl =>
              rw [runExact_read_ok _ _ _ (by simp)]
              simp only [List.take_succ_cons, List.take_zero, List.drop_succ_cons, List.drop_zero]
              by_cases hc : crc' ≠ Integrity.le16 [lo, hi]
              · simp [hc, runExact, ciResult, errB]
              · simp only [hc, if_false]
                exact ih _ _ (by simp only [List.length_cons] at hdl; omega)
        by_cases hc0 : crc = 0
        · subst hc0
          simp only [ne_eq, not_true_eq_false, false_and, if_false, true_or, if_true]
          exact tail
        · by_cases hw : w ≠ crc
          · simp [hc0, hw, runExact, ciResult, errB]
          · simp only [ne_eq, hc0, not_false_eq_true, hw, and_false, if_false, false_or, Bool.true_eq_false]
            exact tail
      · rw [runExact_read_short _ _ _ (by omega)]
        simp [hasN_false' (Nat.lt_of_not_le hl), runExact, ciResult, errB]

/-! ### the `Next`/`Decode` loop -/

def isSeq : DecProg.Ev → Bool
  | .seq .. => true
  | _ => false
def msgsOf : DecProg.Ev → Nat
  | .seq _ _ _ _ _ _ n => n
  | _ => 0

/-- completed sequences among the events -/
def seqCount (evs : List DecProg.Ev) : Nat := (evs.filter isSeq).length
/-- messages of the completed sequences -/
def msgSum (evs : List DecProg.Ev) : Nat := (evs.map msgsOf).sum

theorem seqCount_reverse (evs : List DecProg.Ev) : seqCount evs.reverse = seqCount evs := by
  simp [seqCount, List.filter_reverse]
theorem msgSum_reverse (evs : List DecProg.Ev) : msgSum evs.reverse = msgSum evs := by
  simp [msgSum, List.sum_reverse]

theorem seqCount_cons_seq (a b c d e f n : Nat) (l : List DecProg.Ev) :
    seqCount (.seq a b c d e f n :: l) = seqCount l + 1 := by
  unfold seqCount
  rw [List.filter_cons_of_pos (by rfl), List.length_cons]
theorem msgSum_cons_seq (a b c d e f n : Nat) (l : List DecProg.Ev) :
    msgSum (.seq a b c d e f n :: l) = msgSum l + n := by simp [msgSum, msgsOf]; omega

/-- (D)'s loop outcome reduced to what (B) reports: sequences decoded, messages in them, error class -/
def summary (o : DecProg.Out) : Integrity.DResult :=
  match o.status with
  | none => .ok (seqCount o.evs) (msgSum o.evs)
  | some e => .err (errB e) (seqCount o.evs)

theorem summary_fail (st : DecProg.St) (e : DecProg.Err) :
    summary (DecProg.fail st e) = .err (errB e) (seqCount st.evs) := by
  simp [summary, DecProg.fail, seqCount_reverse]

@[reducible] def toB (d : DecProg.Def) : Integrity.Def := ⟨d.arch, d.mesgNum, d.fields, d.devFields⟩

/-- the decoder states of (D) and (B) agree on what decides the framing -/
structure Rel (st : DecProg.St) (ds : Integrity.DS) : Prop where
  defs : ∀ i, ds.defs i = (st.lookup i).map toB
  descs : ds.descs = st.descs
  msgs : ds.msgs = st.msgs

/-- `st'` is `st` after some reading: only the counters moved -/
structure Same (st st' : DecProg.St) : Prop where
  evs : st'.evs = st.evs
  defs : st'.defs = st.defs
  descs : st'.descs = st.descs
  msgs : st'.msgs = st.msgs

theorem Same.refl (st : DecProg.St) : Same st st := ⟨rfl, rfl, rfl, rfl⟩
theorem Same.trans {a b c : DecProg.St} (h1 : Same a b) (h2 : Same b c) : Same a c :=
  ⟨h2.evs.trans h1.evs, h2.defs.trans h1.defs, h2.descs.trans h1.descs, h2.msgs.trans h1.msgs⟩

theorem rdN_sim (chk : Bool) (n : Nat) (st : DecProg.St) (k : Bytes → DecProg.St → DecProg.P) (rest : Bytes)
    (R : Integrity.DResult)
    (h : match Integrity.readN chk n ⟨rest, st.cur, st.crc⟩ with
      | .error e => R = .err e (seqCount st.evs)
      | .ok (b, s') => ∀ st', Same st st' → st'.cur = s'.cur → st'.crc = s'.crc → summary (runExact (k b st') s'.rest) = R) :
    summary (runExact (DecProg.rdN chk n st k) rest) = R := by
  unfold DecProg.rdN
  unfold Integrity.readN at h
  by_cases hl : n ≤ rest.length
  · rw [runExact_read_ok _ _ _ hl]
    simp only [hasN_true hl, Bool.not_true, Bool.false_eq_true, if_false] at h
    exact h _ ⟨rfl, rfl, rfl, rfl⟩ rfl rfl
  · rw [runExact_read_short _ _ _ (by omega)]
    simp only [hasN_false' (Nat.lt_of_not_le hl), Bool.not_false, if_true] at h
    rw [h]; simp only [runExact, summary_fail, errB]

def p1 (p : Nat × Bytes) : Nat × Nat := (p.1, p.2.headD 0)

theorem fields_sim (chk : Bool) (fs : List DecProg.Triplet) :
    ∀ (st : DecProg.St) (acc : List (Nat × Bytes)) (k : DecProg.St → List (Nat × Bytes) → DecProg.P) (rest : Bytes)
      (R : Integrity.DResult),
    (match Integrity.decodeFields chk fs ⟨rest, st.cur, st.crc⟩ (acc.map p1) with
      | .error e => R = .err e (seqCount st.evs)
      | .ok (s', vals) => ∀ st' acc', Same st st' → st'.cur = s'.cur → st'.crc = s'.crc → acc'.map p1 = vals →
          summary (runExact (k st' acc') s'.rest) = R) →
    summary (runExact (DecProg.fields chk fs st acc k) rest) = R := by
  induction fs with
  | nil =>
    intro st acc k rest R h
    simp only [Integrity.decodeFields] at h
    exact h st acc (Same.refl _) rfl rfl rfl
  | cons t fs ih =>
    intro st acc k rest R h
    obtain ⟨num, size, bt⟩ := t
    simp only [DecProg.fields]
    simp only [Integrity.decodeFields] at h
    by_cases hz : size = 0
    · simp only [hz, if_true] at h ⊢
      exact ih st acc k rest R h
    · simp only [hz, if_false] at h ⊢
      apply rdN_sim
      cases hr : Integrity.readN chk size ⟨rest, st.cur, st.crc⟩ with
      | error e => rw [hr] at h; exact h
      | ok p =>
        obtain ⟨b, s1⟩ := p
        rw [hr] at h
        simp only at h ⊢
        intro st1 hs hc hcrc
        apply ih
        have e : (acc ++ [(num, b)]).map p1 = acc.map p1 ++ [(num, b.headD 0)] := by simp [p1]
        rw [e, hc, hcrc, hs.evs]
        cases hd : Integrity.decodeFields chk fs s1 (acc.map p1 ++ [(num, b.headD 0)]) with
        | error e => rw [hd] at h; exact h
        | ok q =>
          obtain ⟨s2, vals⟩ := q
          rw [hd] at h
          simp only at h ⊢
          intro st2 acc2 hs2 hc2 hcrc2 hv
          exact h st2 acc2 (hs.trans hs2) hc2 hcrc2 hv

theorem devFields_sim (chk : Bool) (descs : List DecProg.Triplet) (fs : List DecProg.Triplet) :
    ∀ (st : DecProg.St) (acc : List (Nat × Nat × Bytes)) (k : DecProg.St → List (Nat × Nat × Bytes) → DecProg.P) (rest : Bytes)
      (R : Integrity.DResult),
    (match Integrity.decodeDevFields chk descs fs ⟨rest, st.cur, st.crc⟩ with
      | .error e => R = .err e (seqCount st.evs)
      | .ok s' => ∀ st' acc', Same st st' → st'.cur = s'.cur → st'.crc = s'.crc →
          summary (runExact (k st' acc') s'.rest) = R) →
    summary (runExact (DecProg.devFields chk descs fs st acc k) rest) = R := by
  induction fs with
  | nil =>
    intro st acc k rest R h
    simp only [Integrity.decodeDevFields] at h
    exact h st acc (Same.refl _) rfl rfl
  | cons t fs ih =>
    intro st acc k rest R h
    obtain ⟨num, size, ddi⟩ := t
    -- one read followed by the rest of the list, whatever is collected
    have hread : ∀ (g : Bytes → List (Nat × Nat × Bytes)),
        (match Integrity.readN chk size ⟨rest, st.cur, st.crc⟩ with
          | .error e => R = .err e (seqCount st.evs)
          | .ok (_, s1) =>
            match Integrity.decodeDevFields chk descs fs s1 with
            | .error e => R = .err e (seqCount st.evs)
            | .ok s' => ∀ st' acc', Same st st' → st'.cur = s'.cur → st'.crc = s'.crc →
                summary (runExact (k st' acc') s'.rest) = R) →
        summary (runExact (DecProg.rdN chk size st fun b st => DecProg.devFields chk descs fs st (g b) k) rest) = R := by
      intro g hg
      apply rdN_sim
      cases hr : Integrity.readN chk size ⟨rest, st.cur, st.crc⟩ with
      | error e => rw [hr] at hg; exact hg
      | ok p =>
        obtain ⟨b, s1⟩ := p
        rw [hr] at hg
        simp only at hg ⊢
        intro st1 hs hc hcrc
        apply ih
        rw [hc, hcrc, hs.evs]
        cases hd : Integrity.decodeDevFields chk descs fs s1 with
        | error e => rw [hd] at hg; exact hg
        | ok s2 =>
          rw [hd] at hg
          simp only at hg ⊢
          intro st2 acc2 hs2 hc2 hcrc2
          exact hg st2 acc2 (hs.trans hs2) hc2 hcrc2
    simp only [DecProg.devFields]
    simp only [Integrity.decodeDevFields] at h
    cases hf : descs.find? fun d => d.1 = ddi ∧ d.2.1 = num with
    | none =>
      rw [hf] at h
      simp only at h ⊢
      apply hread
      cases hr : Integrity.readN chk size ⟨rest, st.cur, st.crc⟩ with
      | error e => rw [hr] at h; exact h
      | ok p => obtain ⟨b, s1⟩ := p; rw [hr] at h; exact h
    | some d =>
      rw [hf] at h
      simp only at h ⊢
      by_cases hv : (!DecProg.validBaseType d.2.2) = true
      · have hv' : (!Integrity.validBaseType d.2.2) = true := hv
        simp only [hv, hv', if_true] at h ⊢
        rw [h]; simp only [runExact, summary_fail, errB]
      · have hv' : ¬ (!Integrity.validBaseType d.2.2) = true := hv
        simp only [hv, hv', if_false] at h ⊢
        by_cases hz : size = 0
        · simp only [hz, if_true] at h ⊢
          exact ih st acc k rest R h
        · simp only [hz, if_false] at h ⊢
          apply hread
          cases hr : Integrity.readN chk size ⟨rest, st.cur, st.crc⟩ with
          | error e => rw [hr] at h; exact h
          | ok p => obtain ⟨b, s1⟩ := p; rw [hr] at h; exact h

theorem triplets_eq (b : Bytes) : DecProg.triplets b = Integrity.triplets b := by
  induction b using DecProg.triplets.induct with
  | case1 a b c rest ih => rw [DecProg.triplets, Integrity.triplets, ih]
  | case2 b hne =>
    rw [DecProg.triplets, Integrity.triplets]
    · exact hne
    · exact hne

theorem lookup_cons (st : DecProg.St) (j : Nat) (d : DecProg.Def) (evs : List DecProg.Ev) (i : Nat) :
    DecProg.St.lookup { st with defs := (j, d) :: st.defs, evs := evs } i = if i = j then some d else st.lookup i := by
  unfold DecProg.St.lookup
  simp only [List.find?_cons]
  by_cases h : i = j
  · subst h; simp
  · have : (j == i) = false := by simp; omega
    simp [this, h]

/-- what a step of the record loop must preserve for the continuation -/
structure Next (st st' : DecProg.St) (s' : Integrity.RS) (ds' : Integrity.DS) : Prop where
  rel : Rel st' ds'
  seqs : seqCount st'.evs = seqCount st.evs
  sum : msgSum st'.evs = msgSum st.evs
  cur : st'.cur = s'.cur
  crc : st'.crc = s'.crc

theorem definition_sim (chk : Bool) (header : Nat) (st : DecProg.St) (k : DecProg.St → DecProg.P) (rest : Bytes)
    (R : Integrity.DResult) (ds : Integrity.DS) (hrel : Rel st ds)
    (h : match Integrity.decodeDefinition chk header ⟨rest, st.cur, st.crc⟩ ds with
      | .error e => R = .err e (seqCount st.evs)
      | .ok (s', ds') => ∀ st', Next st st' s' ds' → summary (runExact (k st') s'.rest) = R) :
    summary (runExact (DecProg.definition chk header st k) rest) = R := by
  unfold DecProg.definition
  unfold Integrity.decodeDefinition at h
  apply rdN_sim
  cases hr : Integrity.readN chk 5 ⟨rest, st.cur, st.crc⟩ with
  | error e => rw [hr] at h; exact h
  | ok p =>
    obtain ⟨b, s1⟩ := p
    rw [hr] at h
    simp only at h ⊢
    intro st1 hs1 hc1 hcrc1
    apply rdN_sim
    rw [hc1, hcrc1, hs1.evs]
    cases hr2 : Integrity.readN chk ((List.drop 4 b).headD 0 * 3) s1 with
    | error e => rw [hr2] at h; exact h
    | ok p2 =>
      obtain ⟨fb, s2⟩ := p2
      rw [hr2] at h
      simp only at h ⊢
      intro st2 hs2 hc2 hcrc2
      rw [triplets_eq]
      have hany : ((Integrity.triplets fb).any fun t => !DecProg.validBaseType t.2.2) =
          ((Integrity.triplets fb).any fun t => !Integrity.validBaseType t.2.2) := rfl
      rw [hany]
      by_cases hv : ((Integrity.triplets fb).any fun t => !Integrity.validBaseType t.2.2) = true
      · simp only [hv, if_true] at h ⊢
        rw [h]; simp only [runExact, summary_fail, errB, hs2.evs, hs1.evs]
      · simp only [hv, Bool.false_eq_true, if_false] at h ⊢
        have hs12 := hs1.trans hs2
        by_cases hdev : header &&& Fit.Gen.Integ.devDataMask = Fit.Gen.Integ.devDataMask
        · simp only [hdev, if_true] at h ⊢
          apply rdN_sim
          rw [hc2, hcrc2, hs12.evs]
          cases hr3 : Integrity.readN chk 1 s2 with
          | error e => rw [hr3] at h; exact h
          | ok p3 =>
            obtain ⟨nb, s3⟩ := p3
            rw [hr3] at h
            simp only at h ⊢
            intro st3 hs3 hc3 hcrc3
            apply rdN_sim
            rw [hc3, hcrc3, hs3.evs, hs12.evs]
            cases hr4 : Integrity.readN chk (nb.headD 0 * 3) s3 with
            | error e => rw [hr4] at h; exact h
            | ok p4 =>
              obtain ⟨db, s4⟩ := p4
              rw [hr4] at h
              simp only at h ⊢
              intro st4 hs4 hc4 hcrc4
              have hs := (hs12.trans hs3).trans hs4
              apply h
              refine ⟨⟨?_, ?_, ?_⟩, ?_, ?_, hc4, hcrc4⟩
              · intro i
                rw [lookup_cons]
                by_cases hi : i = header &&& Fit.Gen.Integ.localMesgNumMask
                · simp [hi, toB, triplets_eq, le16_eq, be16_eq]
                · simp only [hi, if_false]
                  have : DecProg.St.lookup st4 i = DecProg.St.lookup st i := by
                    unfold DecProg.St.lookup; rw [hs.defs]
                  rw [this]; exact hrel.defs i
              · simp only; rw [hs.descs]; exact hrel.descs
              · simp only; rw [hs.msgs]; exact hrel.msgs
              · simp [seqCount, isSeq, hs.evs]
              · simp [msgSum, msgsOf, hs.evs]
        · simp only [hdev, if_false] at h ⊢
          apply h
          refine ⟨⟨?_, ?_, ?_⟩, ?_, ?_, hc2, hcrc2⟩
          · intro i
            rw [lookup_cons]
            by_cases hi : i = header &&& Fit.Gen.Integ.localMesgNumMask
            · simp [hi, toB, triplets_eq, le16_eq, be16_eq]
            · simp only [hi, if_false]
              have : DecProg.St.lookup st2 i = DecProg.St.lookup st i := by
                unfold DecProg.St.lookup; rw [hs12.defs]
              rw [this]; exact hrel.defs i
          · simp only; rw [hs12.descs]; exact hrel.descs
          · simp only; rw [hs12.msgs]; exact hrel.msgs
          · simp [seqCount, isSeq, hs12.evs]
          · simp [msgSum, msgsOf, hs12.evs]

theorem lastVal_eq (vals : List (Nat × Bytes)) (num : Nat) :
    DecProg.lastVal vals num = Integrity.lastVal (vals.map p1) num := by
  unfold DecProg.lastVal Integrity.lastVal
  have hf : (vals.map p1).filter (fun p => decide (p.1 = num)) = (vals.filter (fun p => decide (p.1 = num))).map p1 := by
    rw [List.filter_map]; rfl
  rw [hf, List.getLast?_map]
  cases (vals.filter (fun p => decide (p.1 = num))).getLast? <;> rfl

theorem data_sim (chk : Bool) (header : Nat) (st : DecProg.St) (k : DecProg.St → DecProg.P) (rest : Bytes)
    (R : Integrity.DResult) (ds : Integrity.DS) (hrel : Rel st ds)
    (h : match Integrity.decodeData chk header ⟨rest, st.cur, st.crc⟩ ds with
      | .error e => R = .err e (seqCount st.evs)
      | .ok (s', ds') => ∀ st', Next st st' s' ds' → summary (runExact (k st') s'.rest) = R) :
    summary (runExact (DecProg.data chk header st k) rest) = R := by
  unfold DecProg.data
  unfold Integrity.decodeData at h
  simp only at h ⊢
  generalize hj : ((if header &&& Fit.Gen.Integ.mesgCompressedHeaderMask = Fit.Gen.Integ.mesgCompressedHeaderMask
      then (header &&& Fit.Gen.Integ.compressedLocalMesgNumMask) >>> Fit.Gen.Integ.compressedBitShift else header) &&&
      Fit.Gen.Integ.localMesgNumMask) = j at h ⊢
  have hd := hrel.defs j
  cases hl : st.lookup j with
  | none =>
    rw [hl] at hd; simp only [Option.map_none] at hd
    rw [hd] at h
    simp only at h ⊢
    rw [h]; simp only [runExact, summary_fail, errB]
  | some d =>
    rw [hl] at hd; simp only [Option.map_some] at hd
    rw [hd] at h
    simp only [toB] at h ⊢
    apply fields_sim
    simp only [List.map_nil]
    cases hf : Integrity.decodeFields chk d.fields ⟨rest, st.cur, st.crc⟩ [] with
    | error e => rw [hf] at h; exact h
    | ok p =>
      obtain ⟨s1, vals⟩ := p
      rw [hf] at h
      simp only at h ⊢
      intro st1 acc1 hs1 hc1 hcrc1 hv1
      subst hv1
      apply devFields_sim
      simp only [lastVal_eq, hs1.descs, hc1, hcrc1, hs1.evs, ← hrel.descs]
      cases hdv : Integrity.decodeDevFields chk
          (if d.mesgNum = Fit.Gen.Integ.mesgNumFieldDescription then
            ds.descs ++ [(Integrity.lastVal (acc1.map p1) Fit.Gen.Integ.fdDeveloperDataIndex,
              Integrity.lastVal (acc1.map p1) Fit.Gen.Integ.fdFieldDefinitionNumber,
              Integrity.lastVal (acc1.map p1) Fit.Gen.Integ.fdFitBaseTypeId)]
          else ds.descs) d.devFields s1 with
      | error e => rw [hdv] at h; exact h
      | ok s2 =>
        rw [hdv] at h
        simp only at h ⊢
        intro st2 acc2 hs2 hc2 hcrc2
        apply h
        have hs2' : st2.evs = st.evs := by rw [hs2.evs]
        refine ⟨⟨?_, ?_, ?_⟩, ?_, ?_, hc2, hcrc2⟩
        · intro i
          have := hrel.defs i
          unfold DecProg.St.lookup at this ⊢
          simp only [hs2.defs, hs1.defs]
          exact this
        · simp only; rw [hs2.descs]
        · simp only; rw [hs2.msgs]; simp only; rw [hs1.msgs, hrel.msgs]
        · simp [seqCount, isSeq, hs2']
        · simp [msgSum, msgsOf, hs2']

theorem Rel.of_same {st st' : DecProg.St} {ds : Integrity.DS} (hs : Same st st') (h : Rel st ds) : Rel st' ds := by
  refine ⟨fun i => ?_, by rw [hs.descs]; exact h.descs, by rw [hs.msgs]; exact h.msgs⟩
  have := h.defs i
  unfold DecProg.St.lookup at this ⊢
  rw [hs.defs]; exact this

theorem Next.of_same {st st1 st' : DecProg.St} {s' : Integrity.RS} {ds' : Integrity.DS} (hs : Same st st1)
    (h : Next st1 st' s' ds') : Next st st' s' ds' :=
  ⟨h.rel, by rw [h.seqs, hs.evs], by rw [h.sum, hs.evs], h.cur, h.crc⟩

theorem message_sim (chk : Bool) (st : DecProg.St) (k : DecProg.St → DecProg.P) (rest : Bytes)
    (R : Integrity.DResult) (ds : Integrity.DS) (hrel : Rel st ds)
    (h : match Integrity.decodeMessage chk ⟨rest, st.cur, st.crc⟩ ds with
      | .error e => R = .err e (seqCount st.evs)
      | .ok (s', ds') => ∀ st', Next st st' s' ds' → summary (runExact (k st') s'.rest) = R) :
    summary (runExact (DecProg.message chk st k) rest) = R := by
  unfold DecProg.message
  unfold Integrity.decodeMessage at h
  apply rdN_sim
  cases hr : Integrity.readN chk 1 ⟨rest, st.cur, st.crc⟩ with
  | error e => rw [hr] at h; exact h
  | ok p =>
    obtain ⟨b, s1⟩ := p
    rw [hr] at h
    simp only at h ⊢
    intro st1 hs1 hc1 hcrc1
    have hrel1 := hrel.of_same hs1
    by_cases hm : b.headD 0 &&& (Fit.Gen.Integ.mesgCompressedHeaderMask ||| Fit.Gen.Integ.mesgDefinitionMask) = Fit.Gen.Integ.mesgDefinitionMask
    · simp only [hm, if_true] at h ⊢
      apply definition_sim _ _ _ _ _ _ ds hrel1
      rw [hc1, hcrc1, hs1.evs]
      cases hd : Integrity.decodeDefinition chk (b.headD 0) s1 ds with
      | error e => rw [hd] at h; exact h
      | ok q =>
        obtain ⟨s2, ds2⟩ := q
        rw [hd] at h
        simp only at h ⊢
        intro st2 hn; exact h st2 (hn.of_same hs1)
    · simp only [hm, if_false] at h ⊢
      apply data_sim _ _ _ _ _ _ ds hrel1
      rw [hc1, hcrc1, hs1.evs]
      cases hd : Integrity.decodeData chk (b.headD 0) s1 ds with
      | error e => rw [hd] at h; exact h
      | ok q =>
        obtain ⟨s2, ds2⟩ := q
        rw [hd] at h
        simp only at h ⊢
        intro st2 hn; exact h st2 (hn.of_same hs1)

theorem Next.refl {st : DecProg.St} {ds : Integrity.DS} (h : Rel st ds) : Next st st ⟨r, st.cur, st.crc⟩ ds :=
  ⟨h, rfl, rfl, rfl, rfl⟩

theorem Next.trans {a b c : DecProg.St} {s1 s2 : Integrity.RS} {d1 d2 : Integrity.DS}
    (h1 : Next a b s1 d1) (h2 : Next b c s2 d2) : Next a c s2 d2 :=
  ⟨h2.rel, h2.seqs.trans h1.seqs, h2.sum.trans h1.sum, h2.cur, h2.crc⟩

/-- the record loops: (D) runs with fuel `f1`, (B) with fuel `f2`, both sufficient (every record advances `cur`) -/
theorem messages_sim (chk : Bool) (dsz : Nat) (k : DecProg.St → DecProg.P) (R : Integrity.DResult) :
    ∀ (f1 f2 : Nat) (st : DecProg.St) (rest : Bytes) (ds : Integrity.DS), Rel st ds →
    dsz ≤ st.cur + f1 → dsz ≤ st.cur + f2 →
    (match Integrity.decodeMessages chk dsz f2 ⟨rest, st.cur, st.crc⟩ ds with
      | .error e => R = .err e (seqCount st.evs)
      | .ok (s', ds') => ∀ st', Next st st' s' ds' → summary (runExact (k st') s'.rest) = R) →
    summary (runExact (DecProg.messages chk dsz f1 st k) rest) = R := by
  intro f1
  induction f1 with
  | zero =>
    intro f2 st rest ds hrel h1 h2 h
    unfold DecProg.messages
    have hnlt : ¬ st.cur < dsz := by omega
    cases f2 with
    | zero => simp only [Integrity.decodeMessages] at h; exact h st (Next.refl hrel)
    | succ f2 => simp only [Integrity.decodeMessages, hnlt, if_false] at h; exact h st (Next.refl hrel)
  | succ f1 ih =>
    intro f2 st rest ds hrel h1 h2 h
    unfold DecProg.messages
    by_cases hlt : st.cur < dsz
    · obtain ⟨f2', rfl⟩ : ∃ f, f2 = f + 1 := ⟨f2 - 1, by omega⟩
      simp only [hlt, if_true]
      simp only [Integrity.decodeMessages, hlt, if_true] at h
      apply message_sim _ _ _ _ _ ds hrel
      cases hm : Integrity.decodeMessage chk ⟨rest, st.cur, st.crc⟩ ds with
      | error e => rw [hm] at h; exact h
      | ok q =>
        obtain ⟨s1, ds1⟩ := q
        rw [hm] at h
        simp only at h ⊢
        intro st1 hn1
        have hadv := (Integrity.decodeMessage_reads hm).2
        simp only at hadv
        apply ih f2' st1 s1.rest ds1 hn1.rel (by rw [hn1.cur]; omega) (by rw [hn1.cur]; omega)
        rw [hn1.cur, hn1.crc, hn1.seqs]
        cases hms : Integrity.decodeMessages chk dsz f2' s1 ds1 with
        | error e => rw [hms] at h; exact h
        | ok q2 =>
          obtain ⟨s2, ds2⟩ := q2
          rw [hms] at h
          simp only at h ⊢
          intro st2 hn2; exact h st2 (hn1.trans hn2)
    · simp only [hlt, if_false]
      cases f2 with
      | zero => simp only [Integrity.decodeMessages] at h; exact h st (Next.refl hrel)
      | succ f2 => simp only [Integrity.decodeMessages, hlt, if_false] at h; exact h st (Next.refl hrel)

theorem Rel.init (evs : List DecProg.Ev) : Rel { evs := evs } Integrity.DS.init :=
  ⟨fun i => by simp [Integrity.DS.init, DecProg.St.lookup], rfl, rfl⟩

theorem hdrB_cons (chk : Bool) (x : Nat) (rest : List Nat) (hsz : ¬(x ≠ 12 ∧ x ≠ 14)) (hl : x - 1 ≤ rest.length)
    (htag : ¬ (List.drop 7 (List.take (x - 1) rest)).take 4 ≠ Fit.Gen.Integ.dataTypeFIT)
    (hds : ¬ Integrity.le32 (List.drop 3 (List.take (x - 1) rest)) = 0) :
    Integrity.decodeFileHeader chk (x :: rest) =
      if (if x = 14 then Integrity.le16 (List.drop 11 (List.take (x - 1) rest)) else 0) = 0 ∨ chk = false then
        .ok (⟨x, Integrity.le32 (List.drop 3 (List.take (x - 1) rest)),
          if x = 14 then Integrity.le16 (List.drop 11 (List.take (x - 1) rest)) else 0⟩, rest.drop (x - 1))
      else if Crc.write (Crc.write 0 [x]) (List.take (x - 1 - 2) (List.take (x - 1) rest)) ≠
          (if x = 14 then Integrity.le16 (List.drop 11 (List.take (x - 1) rest)) else 0) then .error .crc
      else .ok (⟨x, Integrity.le32 (List.drop 3 (List.take (x - 1) rest)),
          if x = 14 then Integrity.le16 (List.drop 11 (List.take (x - 1) rest)) else 0⟩, rest.drop (x - 1)) := by
  simp only [Integrity.decodeFileHeader, hsz, if_false, hasN_true hl, Bool.not_true, Bool.false_eq_true, htag, hds]

/-- `decodeFileHeader` of (D) on the exact-n reader, by cases of (B)'s `decodeFileHeader` on the same bytes: for every client -/
theorem fileHeader_wp {Φ : DecProg.Out → Prop} (chk : Bool) (onFirst : RErr → DecProg.P) (onErr : DecProg.Err → DecProg.P)
    (k : DecProg.Hdr → DecProg.P) (bs : Bytes)
    (hfirst : bs = [] → Φ (runExact (onFirst .eof) []))
    (herr : ∀ e' r, bs ≠ [] → Integrity.decodeFileHeader chk bs = .error (errB e') → e'.endsIteration = true →
      Φ (runExact (onErr e') r))
    (hok : ∀ h rest, Integrity.decodeFileHeader chk bs = .ok (h, rest) →
      Φ (runExact (k ⟨h.size, ((bs.drop 1).take (h.size - 1)).headD 0,
        DecProg.le16 (((bs.drop 1).take (h.size - 1)).drop 1), h.dataSize, h.crc⟩) rest)) :
    Φ (runExact (DecProg.fileHeader chk onFirst onErr k) bs) := by
  unfold DecProg.fileHeader
  cases bs with
  | nil =>
    rw [runExact_read_short _ _ _ (by simp)]
    exact hfirst rfl
  | cons size rest =>
    have hne : size :: rest ≠ [] := by simp
    rw [runExact_read_ok _ _ _ (by simp)]
    dsimp only
    generalize hx : (List.take 1 (size :: rest)).headD 0 = x
    have hx' : x = size := hx.symm
    subst hx'
    have hd1 : List.drop 1 (x :: rest) = rest := rfl
    rw [hd1] at hok ⊢
    by_cases hsz : x ≠ 12 ∧ x ≠ 14
    · rw [if_pos hsz]
      exact herr .notFit _ hne (by simp [Integrity.decodeFileHeader, hsz, errB]) rfl
    rw [if_neg hsz]
    by_cases hl : x - 1 ≤ rest.length
    · rw [runExact_read_ok _ _ _ hl]
      dsimp only
      by_cases htag : (List.drop 7 (List.take (x - 1) rest)).take 4 ≠ Fit.Gen.Integ.dataTypeFIT
      · rw [if_pos htag]
        exact herr .notFit _ hne (by simp [Integrity.decodeFileHeader, hsz, hasN_true hl, htag, errB]) rfl
      rw [if_neg htag]
      by_cases hds : DecProg.le32 (List.drop 3 (List.take (x - 1) rest)) = 0
      · rw [if_pos hds]
        rw [le32_eq] at hds
        exact herr .notFit _ hne (by simp [Integrity.decodeFileHeader, hsz, hasN_true hl, htag, hds, errB]) rfl
      rw [if_neg hds]
      simp only [le32_eq, le16_eq] at hds ⊢
      have hB := hdrB_cons chk x rest hsz hl htag hds
      by_cases hc : (if x = 14 then Integrity.le16 (List.drop 11 (List.take (x - 1) rest)) else 0) = 0 ∨ chk = false
      · rw [if_pos hc] at hB ⊢
        have := hok _ _ hB
        simpa only [le16_eq] using this
      · rw [if_neg hc] at hB ⊢
        by_cases hw : Crc.write (Crc.write 0 [x]) (List.take (x - 1 - 2) (List.take (x - 1) rest)) ≠
            (if x = 14 then Integrity.le16 (List.drop 11 (List.take (x - 1) rest)) else 0)
        · rw [if_pos hw] at hB ⊢
          exact herr .crc _ hne hB rfl
        · rw [if_neg hw] at hB ⊢
          have := hok _ _ hB
          simpa only [le16_eq] using this
    · rw [runExact_read_short _ _ _ (by omega)]
      dsimp only
      exact herr _ _ hne (by simp [Integrity.decodeFileHeader, hsz, hasN_false' (Nat.lt_of_not_le hl), errB])
        (by split <;> rfl)

/-- how the loop ends when the header of a sequence does not decode (`e` is one of the errors `Next()` ends the
iteration on — over the exact-n reader there are no others) -/
theorem hdr_end (first : Bool) (evs : List DecProg.Ev) (e : DecProg.Err) (c : Bool) (r : Bytes) (he : e.endsIteration = true)
    (hfirst : first = true ↔ seqCount evs = 0) :
    summary (runExact (if (first || !e.endsIteration) = true then Prog.ret { evs := evs.reverse, status := some e }
      else Prog.ret { evs := evs.reverse, status := none, clean := c, swallowed := some e }) r) =
    if seqCount evs = 0 then .err (errB e) (seqCount evs) else .ok (seqCount evs) (msgSum evs) := by
  cases first with
  | true =>
    have := hfirst.mp rfl
    simp [summary, this, seqCount_reverse, runExact]
  | false =>
    have : ¬ seqCount evs = 0 := fun h => by have := hfirst.mpr h; cases this
    simp [summary, this, he, seqCount_reverse, msgSum_reverse, runExact]

theorem decodeLoop_sim (chk : Bool) : ∀ (fuel : Nat) (first : Bool) (evs : List DecProg.Ev) (bs : Bytes),
    (first = true ↔ seqCount evs = 0) →
    summary (runExact (DecProg.decodeLoop chk fuel first evs) bs) =
      Integrity.decodeLoop chk fuel (seqCount evs) (msgSum evs) bs := by
  intro fuel
  induction fuel with
  | zero =>
    intro first evs bs _
    simp [DecProg.decodeLoop, Integrity.decodeLoop, runExact, summary, seqCount_reverse, msgSum_reverse]
  | succ fuel ih =>
    intro first evs bs hfirst
    unfold DecProg.decodeLoop Integrity.decodeLoop
    apply fileHeader_wp (Φ := fun o => summary o = _)
    · intro hb
      subst hb
      simp only [Integrity.decodeFileHeader]
      exact hdr_end first evs (.io .eof) _ [] rfl hfirst
    · intro e' r hne hB he
      rw [hB]
      exact hdr_end first evs e' _ r he hfirst
    · intro h rest hB
      rw [hB]
      simp only [Integrity.decodeBody]
      apply messages_sim chk h.dataSize _ _ h.dataSize (h.dataSize + 1) { evs := evs } rest Integrity.DS.init
        (Rel.init evs) (by simp) (by simp)
      simp only
      cases hm : Integrity.decodeMessages chk h.dataSize (h.dataSize + 1) ⟨rest, 0, 0⟩ Integrity.DS.init with
      | error e => rfl
      | ok q =>
        obtain ⟨s1, ds1⟩ := q
        simp only
        intro st1 hn
        unfold DecProg.fileCrc
        have hev : seqCount st1.evs = seqCount evs := hn.seqs
        have hsum : msgSum st1.evs = msgSum evs := hn.sum
        match hr : s1.rest with
        | [] =>
          rw [runExact_read_short _ _ _ (by simp)]
          simp only [runExact, summary_fail, errB, hev]
        | [_] =>
          rw [runExact_read_short _ _ _ (by simp)]
          simp only [runExact, summary_fail, errB, hev]
        | lo :: hi :: r2 =>
          rw [runExact_read_ok _ _ _ (by simp)]
          simp only [List.take_succ_cons, List.take_zero, List.drop_succ_cons, List.drop_zero, le16_eq, hn.crc]
          by_cases hc : chk = true ∧ s1.crc ≠ Integrity.le16 [lo, hi]
          · simp only [hc, and_self, if_true, runExact, summary_fail, errB, hev, ne_eq, not_false_eq_true]
          · rw [if_neg hc, if_neg hc]
            have := ih false (.seq h.size (((List.drop 1 bs).take (h.size - 1)).headD 0)
              (Integrity.le16 (((List.drop 1 bs).take (h.size - 1)).drop 1)) h.dataSize h.crc (Integrity.le16 [lo, hi]) st1.msgs :: st1.evs) r2
              (by rw [seqCount_cons_seq]; simp)
            rw [this]
            rw [seqCount_cons_seq, msgSum_cons_seq, hev, hsum, hn.rel.msgs]

end Fit.Link
