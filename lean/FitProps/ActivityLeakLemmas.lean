import FitProps.ActivityLemmas
/-! Lemmas for the composed lap/session statement of C20 (`noLeakB`): what the fields with one number look like after
the rewriting operations of the concealer, and the per-message case analysis. Core Lean only. -/
set_option linter.unusedSimpArgs false
set_option linter.unusedVariables false
namespace Fit.Activity
open Fit.Value Fit.Msg Fit.Gen Fit.Gen.Tool

/-! ### the fields with number `n` of a message, through `rm` / `st` -/

/-- the fields of `m` that carry number `n`, in order -/
def fsn (n : Nat) (m : Message) : List Field := m.fields.filter (hasNum n)

/-- assignment to the first element -/
def setHead (v : Value) : List Field → List Field
  | [] => []
  | f :: r => { f with value := v } :: r

theorem hasNum_ne {n k : Nat} (h : k ≠ n) {f : Field} (hk : hasNum k f = true) : hasNum n f = false := by
  unfold hasNum at hk ⊢
  cases hb : f.base with
  | none => rfl
  | some b => rw [hb] at hk; simp only [beq_iff_eq] at hk; simp only [beq_eq_false_iff_ne]; omega

theorem filter_removeField_same (n : Nat) : ∀ fs : List Field,
    (removeField n fs).filter (hasNum n) = (fs.filter (hasNum n)).tail
  | [] => rfl
  | f :: fs => by
    simp only [removeField]
    cases h : hasNum n f
    · simp [List.filter_cons, h, filter_removeField_same n fs]
    · simp [List.filter_cons, h]

theorem filter_setField_same (n : Nat) (v : Value) : ∀ fs : List Field,
    (setField n v fs).filter (hasNum n) = setHead v (fs.filter (hasNum n))
  | [] => rfl
  | f :: fs => by
    simp only [setField]
    cases h : hasNum n f
    · simp [List.filter_cons, h, filter_setField_same n v fs]
    · have h' : hasNum n { f with value := v } = true := h
      simp [List.filter_cons, h, h', setHead]

theorem filter_setField_ne {n k : Nat} (h : k ≠ n) (v : Value) : ∀ fs : List Field,
    (setField k v fs).filter (hasNum n) = fs.filter (hasNum n)
  | [] => rfl
  | f :: fs => by
    simp only [setField]
    split
    · rename_i hk
      have h1 : hasNum n f = false := hasNum_ne h hk
      have h2 : hasNum n { f with value := v } = false := h1
      simp [List.filter_cons, h1, h2]
    · simp [List.filter_cons, filter_setField_ne h v fs]

theorem fsn_rm_same (n : Nat) (m : Message) : fsn n (rm n m) = (fsn n m).tail := filter_removeField_same n _
theorem fsn_rm_ne {n k : Nat} (h : k ≠ n) (m : Message) : fsn n (rm k m) = fsn n m := filter_hasNum_removeField_ne h _
theorem fsn_st_same (n : Nat) (v : Value) (m : Message) : fsn n (st n v m) = setHead v (fsn n m) := filter_setField_same n v _
theorem fsn_st_ne {n k : Nat} (h : k ≠ n) (v : Value) (m : Message) : fsn n (st k v m) = fsn n m := filter_setField_ne h v _

theorem fsn_sor_same (n v : Nat) (m : Message) :
    fsn n (setOrRemove n v m) = if v = sint32Invalid then (fsn n m).tail else setHead (.int32 v) (fsn n m) := by
  unfold setOrRemove; split
  · exact fsn_rm_same n m
  · exact fsn_st_same n _ m

theorem fsn_sor_ne {n k : Nat} (h : k ≠ n) (v : Nat) (m : Message) : fsn n (setOrRemove k v m) = fsn n m := by
  unfold setOrRemove; split
  · exact fsn_rm_ne h m
  · exact fsn_st_ne h _ m

/-- the four position field numbers of a lap / session are pairwise distinct -/
structure PHDistinct (ph : PH) : Prop where
  a : ph.sLat ≠ ph.sLong
  b : ph.sLat ≠ ph.eLat
  c : ph.sLat ≠ ph.eLong
  d : ph.sLong ≠ ph.eLat
  e : ph.sLong ≠ ph.eLong
  f : ph.eLat ≠ ph.eLong

theorem phDistinct {ph : PH} (h : ph = lapPH ∨ ph = sesPH) : PHDistinct ph := by
  rcases h with rfl | rfl <;> exact ⟨by decide, by decide, by decide, by decide, by decide, by decide⟩

section ops
variable {ph : PH} (hd : PHDistinct ph)
include hd

theorem fsn_strip4_sLat (x : Message) : fsn ph.sLat (strip4 ph x) = (fsn ph.sLat x).tail := by
  unfold strip4
  rw [fsn_rm_ne hd.c.symm, fsn_rm_ne hd.b.symm, fsn_rm_ne hd.a.symm, fsn_rm_same]
theorem fsn_strip4_sLong (x : Message) : fsn ph.sLong (strip4 ph x) = (fsn ph.sLong x).tail := by
  unfold strip4
  rw [fsn_rm_ne hd.e.symm, fsn_rm_ne hd.d.symm, fsn_rm_same, fsn_rm_ne hd.a]
theorem fsn_strip4_eLat (x : Message) : fsn ph.eLat (strip4 ph x) = (fsn ph.eLat x).tail := by
  unfold strip4
  rw [fsn_rm_ne hd.f.symm, fsn_rm_same, fsn_rm_ne hd.d, fsn_rm_ne hd.b]
theorem fsn_strip4_eLong (x : Message) : fsn ph.eLong (strip4 ph x) = (fsn ph.eLong x).tail := by
  unfold strip4
  rw [fsn_rm_same, fsn_rm_ne hd.f, fsn_rm_ne hd.e, fsn_rm_ne hd.c]

theorem fsn_rewriteStart_sLat (r : RecInfo) (x : Message) : fsn ph.sLat (rewriteStart ph r x) =
    if r.lat = sint32Invalid then (fsn ph.sLat x).tail else setHead (.int32 r.lat) (fsn ph.sLat x) := by
  unfold rewriteStart
  rw [fsn_sor_ne hd.a.symm, fsn_sor_same]
theorem fsn_rewriteStart_sLong (r : RecInfo) (x : Message) : fsn ph.sLong (rewriteStart ph r x) =
    if r.long = sint32Invalid then (fsn ph.sLong x).tail else setHead (.int32 r.long) (fsn ph.sLong x) := by
  unfold rewriteStart
  rw [fsn_sor_same, fsn_sor_ne hd.a]
theorem fsn_rewriteStart_eLat (r : RecInfo) (x : Message) : fsn ph.eLat (rewriteStart ph r x) = fsn ph.eLat x := by
  unfold rewriteStart
  rw [fsn_sor_ne hd.d, fsn_sor_ne hd.b]
theorem fsn_rewriteStart_eLong (r : RecInfo) (x : Message) : fsn ph.eLong (rewriteStart ph r x) = fsn ph.eLong x := by
  unfold rewriteStart
  rw [fsn_sor_ne hd.e, fsn_sor_ne hd.c]

theorem fsn_rewriteEnd_sLat (r : RecInfo) (ov : Bool) (x : Message) : fsn ph.sLat (rewriteEnd ph r ov x) =
    if ov then (fsn ph.sLat x).tail else fsn ph.sLat x := by
  unfold rewriteEnd
  rw [fsn_sor_ne hd.c.symm, fsn_sor_ne hd.b.symm]
  cases ov
  · simp
  · simp only [↓reduceIte]; rw [fsn_rm_ne hd.a.symm, fsn_rm_same]
theorem fsn_rewriteEnd_sLong (r : RecInfo) (ov : Bool) (x : Message) : fsn ph.sLong (rewriteEnd ph r ov x) =
    if ov then (fsn ph.sLong x).tail else fsn ph.sLong x := by
  unfold rewriteEnd
  rw [fsn_sor_ne hd.e.symm, fsn_sor_ne hd.d.symm]
  cases ov
  · simp
  · simp only [↓reduceIte]; rw [fsn_rm_same, fsn_rm_ne hd.a]
theorem fsn_rewriteEnd_eLat (r : RecInfo) (ov : Bool) (x : Message) : fsn ph.eLat (rewriteEnd ph r ov x) =
    if r.lat = sint32Invalid then (fsn ph.eLat x).tail else setHead (.int32 r.lat) (fsn ph.eLat x) := by
  unfold rewriteEnd
  rw [fsn_sor_ne hd.f.symm, fsn_sor_same]
  cases ov
  · simp
  · simp only [↓reduceIte]; rw [fsn_rm_ne hd.d, fsn_rm_ne hd.b]
theorem fsn_rewriteEnd_eLong (r : RecInfo) (ov : Bool) (x : Message) : fsn ph.eLong (rewriteEnd ph r ov x) =
    if r.long = sint32Invalid then (fsn ph.eLong x).tail else setHead (.int32 r.long) (fsn ph.eLong x) := by
  unfold rewriteEnd
  rw [fsn_sor_same, fsn_sor_ne hd.f]
  cases ov
  · simp
  · simp only [↓reduceIte]; rw [fsn_rm_ne hd.e, fsn_rm_ne hd.c]

end ops

/-! ### one lap / session through the two stages -/

theorem tail_nil_of_le_one {α : Type} {l : List α} (h : l.length ≤ 1) : l.tail = [] := by
  cases l with
  | nil => rfl
  | cons a t => cases t with
    | nil => rfl
    | cons b t => simp at h

/-- the test `posFieldOK` makes on one field -/
def fieldQ (anchor : Option Message) (coord : Nat) (justified : Bool) (f : Field) : Bool :=
  justified || match anchor with
    | some r => i32 (fval r coord) != sint32Invalid && f.value == .int32 (i32 (fval r coord))
    | none => false

theorem posFieldOK_eq (anchor : Option Message) (coord : Nat) (justified : Bool) (m' : Message) (n : Nat) :
    posFieldOK anchor coord justified m' n = (fsn n m').all (fieldQ anchor coord justified) := by
  unfold posFieldOK fsn fieldQ
  rw [List.all_filter]
  congr; funext f; rw [Bool.or_assoc]; cases anchor <;> rfl

theorem fieldQ_js {anchor : Option Message} {coord : Nat} {justified : Bool} (h : justified = true) (f : Field) :
    fieldQ anchor coord justified f = true := by simp [fieldQ, h]

theorem fieldQ_anchor {anchor : Option Message} {coord : Nat} {justified : Bool} {r : Message} {v : Nat}
    (ha : anchor = some r) (hv : v = i32 (fval r coord)) (hne : v ≠ sint32Invalid) (f : Field) :
    fieldQ anchor coord justified { f with value := .int32 v } = true := by
  subst hv
  simp [fieldQ, ha, hne]

theorem all_setHead {l : List Field} (h : l.length ≤ 1) (v : Value) (Q : Field → Bool)
    (hq : ∀ f : Field, Q { f with value := v } = true) : (setHead v l).all Q = true := by
  cases l with
  | nil => rfl
  | cons a t => cases t with
    | nil => simp [setHead, hq]
    | cons b t => simp at h

theorem setHead_length (v : Value) (l : List Field) : (setHead v l).length = l.length := by
  cases l <;> rfl

/-- what is known about one lap / session `m` (`m1` after the start stage, `m'` after the end stage), the records the
two scans stop at (`r1`, `r2`) and the overlap flag -/
structure Stages (ph : PH) (first last : Nat) (ms : List Message) (m m1 m' : Message) (r1 r2 : RecInfo) (ov : Bool) : Prop where
  endLt : lapEndTime ph m < uint32Invalid
  s1 : lapStartTime ph m1 = lapStartTime ph m
  e1 : lapEndTime ph m1 = lapEndTime ph m
  start0 : first = 0 → m1 = m
  startNone : first ≠ 0 → firstRevealed first ms = none → r1 = noRec
  startSome : first ≠ 0 → ∀ r, firstRevealed first ms = some r → r1 = recInfo r
  start : first ≠ 0 → (lapEndTime ph m < r1.ts → m1 = strip4 ph m) ∧
      (r1.ts ≤ lapEndTime ph m → m1 = rewriteStart ph r1 m ∨ (m1 = m ∧ r1.ts ≤ lapStartTime ph m))
  end0 : last = 0 → m' = m1
  endNone : last ≠ 0 → lastRevealed last ms = none → m' = strip4 ph m1
  /-- the stretches overlap (`lastConcealStartIndex > lastConcealEndIndex`): no record is left revealed (/repo fix of KF-C20-4) -/
  endOv : last ≠ 0 → ov = true → m' = strip4 ph m1
  endSome : last ≠ 0 → ov = false → ∀ rl, lastRevealed last ms = some rl →
      r2.ts = tstamp rl ∧
      (inStart first rl = true → r2.lat = sint32Invalid ∧ r2.long = sint32Invalid) ∧
      (inStart first rl = false → r2.lat = i32 (fval rl fnRecordPositionLat) ∧ r2.long = i32 (fval rl fnRecordPositionLong)) ∧
      (r2.ts < lapStartTime ph m1 → m' = strip4 ph m1) ∧
      (lapStartTime ph m1 ≤ r2.ts → m' = rewriteEnd ph r2 false m1 ∨ (m' = m1 ∧ lapEndTime ph m1 ≤ r2.ts))
  ovF : first ≠ 0 → last ≠ 0 → ∀ r0 rl, firstRevealed first ms = some r0 → lastRevealed last ms = some rl →
      ov = false → inEnd last ms r0 = false

theorem inEnd_zero (ms : List Message) (r : Message) : inEnd 0 ms r = false := by simp [inEnd]

/-- a start position field (`n` = start_position_lat or _long, `coord` the record's field, `v1` what the start stage
writes) is justified after the two stages -/
theorem startField_ok {ph : PH} {first last : Nat} {ms : List Message} {m m1 m' : Message} {r1 r2 : RecInfo} {ov : Bool}
    (sg : Stages ph first last ms m m1 m' r1 r2 ov) (n coord v1 : Nat)
    (hU : (fsn n m).length ≤ 1)
    (e_strip : ∀ x, fsn n (strip4 ph x) = (fsn n x).tail)
    (e_rs : ∀ x, fsn n (rewriteStart ph r1 x) = if v1 = sint32Invalid then (fsn n x).tail else setHead (.int32 v1) (fsn n x))
    (e_re : ∀ x, fsn n (rewriteEnd ph r2 false x) = fsn n x)
    (hv1 : ∀ r, r1 = recInfo r → v1 = i32 (fval r coord)) :
    posFieldOK (startAnchor first last ms) coord (inWindow first last ms (lapStartTime ph m)) m' n = true := by
  rw [posFieldOK_eq]
  have tl := tail_nil_of_le_one hU
  -- after the start stage
  have m1c : fsn n m1 = [] ∨ (m1 = m ∧ afterStart first ms (lapStartTime ph m) = true) ∨
      (∃ r0, first ≠ 0 ∧ firstRevealed first ms = some r0 ∧ v1 = i32 (fval r0 coord) ∧ v1 ≠ sint32Invalid ∧
        fsn n m1 = setHead (.int32 v1) (fsn n m) ∧ tstamp r0 ≤ lapEndTime ph m) := by
    by_cases hf0 : first = 0
    · right; left; exact ⟨sg.start0 hf0, by simp [afterStart, hf0]⟩
    · obtain ⟨ha, hb⟩ := sg.start hf0
      cases hR0 : firstRevealed first ms with
      | none =>
        left
        have hr := sg.startNone hf0 hR0
        have : lapEndTime ph m < r1.ts := by rw [hr]; exact sg.endLt
        rw [ha this, e_strip, tl]
      | some r0 =>
        have hr := sg.startSome hf0 r0 hR0
        have hts : r1.ts = tstamp r0 := by rw [hr]; rfl
        by_cases hlt : lapEndTime ph m < r1.ts
        · left; rw [ha hlt, e_strip, tl]
        · rcases hb (by omega) with h | ⟨h, h2⟩
          · by_cases hinv : v1 = sint32Invalid
            · left; rw [h, e_rs, if_pos hinv, tl]
            · right; right
              exact ⟨r0, hf0, rfl, hv1 r0 hr, hinv, by rw [h, e_rs, if_neg hinv], by omega⟩
          · right; left
            refine ⟨h, ?_⟩
            simp only [afterStart, hR0, Bool.or_eq_true, decide_eq_true_eq]
            right; omega
  have len1 : (fsn n m1).length ≤ 1 := by
    rcases m1c with h | ⟨h, _⟩ | ⟨_, _, _, _, _, h, _⟩
    · rw [h]; simp
    · rw [h]; exact hU
    · rw [h, setHead_length]; exact hU
  have tl1 := tail_nil_of_le_one len1
  -- after the end stage
  have endc : fsn n m' = [] ∨ (fsn n m' = fsn n m1 ∧ (last = 0 ∨ ∃ rl, last ≠ 0 ∧ lastRevealed last ms = some rl ∧
      lapStartTime ph m ≤ tstamp rl ∧ ov = false)) := by
    by_cases hl0 : last = 0
    · right; exact ⟨by rw [sg.end0 hl0], Or.inl hl0⟩
    · cases hov : ov with
      | true => left; rw [sg.endOv hl0 hov, e_strip, tl1]
      | false =>
      cases hRL : lastRevealed last ms with
      | none => left; rw [sg.endNone hl0 hRL, e_strip, tl1]
      | some rl =>
        obtain ⟨hts, _, _, hc, hd⟩ := sg.endSome hl0 hov rl hRL
        rw [sg.s1] at hc hd
        rw [sg.e1] at hd
        by_cases hlt : r2.ts < lapStartTime ph m
        · left; rw [hc hlt, e_strip, tl1]
        · rcases hd (by omega) with h | ⟨h, h2⟩
          · right; exact ⟨by rw [h, e_re], Or.inr ⟨rl, hl0, rfl, by omega, rfl⟩⟩
          · right; exact ⟨by rw [h], Or.inr ⟨rl, hl0, rfl, by omega, rfl⟩⟩
  rcases endc with h | ⟨h, hw⟩
  · rw [h]; rfl
  rw [h]
  rcases m1c with h1 | ⟨h1, haft⟩ | ⟨r0, hf0, hR0, hv, hne, h1, hT1⟩
  · rw [h1]; rfl
  · -- untouched by the start stage, and starting at or after the first revealed record
    have js : inWindow first last ms (lapStartTime ph m) = true := by
      rcases hw with hl0 | ⟨rl, _, hRL, hle, _⟩
      · simp [inWindow, haft, beforeEnd, hl0]
      · simp only [inWindow, haft, beforeEnd, hRL, Bool.true_and, Bool.or_eq_true, decide_eq_true_eq]
        right; exact hle
    exact List.all_eq_true.mpr fun f _ => fieldQ_js js f
  · -- start position rewritten with the coordinates of the first revealed record, which stays revealed
    rw [h1]
    have hsa : startAnchor first last ms = some r0 := by
      have hne0 : (first == 0) = false := by simpa using hf0
      have hie : inEnd last ms r0 = false := by
        rcases hw with hl0 | ⟨rl, hl0, hRL, _, hov⟩
        · rw [hl0]; exact inEnd_zero ms r0
        · exact sg.ovF hf0 hl0 r0 rl hR0 hRL hov
      simp [startAnchor, hne0, hR0, Option.filter, hie]
    exact all_setHead hU _ _ (fieldQ_anchor hsa hv hne)

/-- an end position field is justified after the two stages -/
theorem endField_ok {ph : PH} {first last : Nat} {ms : List Message} {m m1 m' : Message} {r1 r2 : RecInfo} {ov : Bool}
    (sg : Stages ph first last ms m m1 m' r1 r2 ov) (n coord v2 : Nat)
    (hU : (fsn n m).length ≤ 1)
    (e_strip : ∀ x, fsn n (strip4 ph x) = (fsn n x).tail)
    (e_rs : ∀ x, fsn n (rewriteStart ph r1 x) = fsn n x)
    (e_re : ∀ x, fsn n (rewriteEnd ph r2 false x) = if v2 = sint32Invalid then (fsn n x).tail else setHead (.int32 v2) (fsn n x))
    (hv2a : r2.lat = sint32Invalid ∧ r2.long = sint32Invalid → v2 = sint32Invalid)
    (hv2b : ∀ rl, r2.lat = i32 (fval rl fnRecordPositionLat) ∧ r2.long = i32 (fval rl fnRecordPositionLong) → v2 = i32 (fval rl coord)) :
    posFieldOK (endAnchor first last ms) coord (inWindow first last ms (lapEndTime ph m)) m' n = true := by
  rw [posFieldOK_eq]
  have tl := tail_nil_of_le_one hU
  have m1c : fsn n m1 = [] ∨ (fsn n m1 = fsn n m ∧ afterStart first ms (lapEndTime ph m) = true) := by
    by_cases hf0 : first = 0
    · right; exact ⟨by rw [sg.start0 hf0], by simp [afterStart, hf0]⟩
    · obtain ⟨ha, hb⟩ := sg.start hf0
      cases hR0 : firstRevealed first ms with
      | none =>
        left
        have hr := sg.startNone hf0 hR0
        have : lapEndTime ph m < r1.ts := by rw [hr]; exact sg.endLt
        rw [ha this, e_strip, tl]
      | some r0 =>
        have hr := sg.startSome hf0 r0 hR0
        have hts : r1.ts = tstamp r0 := by rw [hr]; rfl
        by_cases hlt : lapEndTime ph m < r1.ts
        · left; rw [ha hlt, e_strip, tl]
        · right
          have haft : afterStart first ms (lapEndTime ph m) = true := by
            simp only [afterStart, hR0, Bool.or_eq_true, decide_eq_true_eq]
            right; omega
          rcases hb (by omega) with h | ⟨h, _⟩
          · exact ⟨by rw [h, e_rs], haft⟩
          · exact ⟨by rw [h], haft⟩
  have len1 : (fsn n m1).length ≤ 1 := by
    rcases m1c with h | ⟨h, _⟩
    · rw [h]; simp
    · rw [h]; exact hU
  have tl1 := tail_nil_of_le_one len1
  by_cases hl0 : last = 0
  · rw [sg.end0 hl0]
    rcases m1c with h | ⟨_, haft⟩
    · rw [h]; rfl
    · have js : inWindow first last ms (lapEndTime ph m) = true := by simp [inWindow, haft, beforeEnd, hl0]
      exact List.all_eq_true.mpr fun f _ => fieldQ_js js f
  · cases hov : ov with
    | true => rw [sg.endOv hl0 hov, e_strip, tl1]; rfl
    | false =>
    cases hRL : lastRevealed last ms with
    | none => rw [sg.endNone hl0 hRL, e_strip, tl1]; rfl
    | some rl =>
      obtain ⟨hts, hin, hout, hc, hd⟩ := sg.endSome hl0 hov rl hRL
      rw [sg.s1] at hc hd
      rw [sg.e1] at hd
      by_cases hlt : r2.ts < lapStartTime ph m
      · rw [hc hlt, e_strip, tl1]; rfl
      · rcases hd (by omega) with h | ⟨h, h2⟩
        · rw [h, e_re]
          split
          · rw [tl1]; rfl
          · rename_i hne
            cases his : inStart first rl
            · have hea : endAnchor first last ms = some rl := by
                have hne0 : (last == 0) = false := by simpa using hl0
                simp [endAnchor, hne0, hRL, Option.filter, his]
              exact all_setHead len1 _ _ (fieldQ_anchor hea (hv2b rl (hout his)) hne)
            · exact absurd (hv2a (hin his)) hne
        · rw [h]
          rcases m1c with h1 | ⟨_, haft⟩
          · rw [h1]; rfl
          · have js : inWindow first last ms (lapEndTime ph m) = true := by
              simp only [inWindow, haft, beforeEnd, hRL, Bool.true_and, Bool.or_eq_true, decide_eq_true_eq]
              right; omega
            exact List.all_eq_true.mpr fun f _ => fieldQ_js js f

/-- **one lap / session**: with at most one field of each of the four position numbers, what the two stages do to it
leaves no position pointing into a concealed stretch -/
theorem lapOK_of_stages {ph : PH} (hd : PHDistinct ph) {first last : Nat} {ms : List Message} {m m1 m' : Message}
    {r1 r2 : RecInfo} {ov : Bool} (sg : Stages ph first last ms m m1 m' r1 r2 ov)
    (hU : UniqueNum ph.sLat m ∧ UniqueNum ph.sLong m ∧ UniqueNum ph.eLat m ∧ UniqueNum ph.eLong m) :
    lapOK ph first last ms m m' = true := by
  obtain ⟨u1, u2, u3, u4⟩ := hU
  unfold lapOK
  simp only [Bool.and_eq_true]
  refine ⟨⟨⟨?_, ?_⟩, ?_⟩, ?_⟩
  · exact startField_ok sg ph.sLat fnRecordPositionLat r1.lat u1 (fsn_strip4_sLat hd) (fsn_rewriteStart_sLat hd r1)
      (fun x => by rw [fsn_rewriteEnd_sLat hd r2 false x]; rfl) (fun r h => by rw [h]; rfl)
  · exact startField_ok sg ph.sLong fnRecordPositionLong r1.long u2 (fsn_strip4_sLong hd) (fsn_rewriteStart_sLong hd r1)
      (fun x => by rw [fsn_rewriteEnd_sLong hd r2 false x]; rfl) (fun r h => by rw [h]; rfl)
  · exact endField_ok sg ph.eLat fnRecordPositionLat r2.lat u3 (fsn_strip4_eLat hd) (fsn_rewriteStart_eLat hd r1)
      (fsn_rewriteEnd_eLat hd r2 false) (fun h => h.1) (fun rl h => h.1)
  · exact endField_ok sg ph.eLong fnRecordPositionLong r2.long u4 (fsn_strip4_eLong hd) (fsn_rewriteStart_eLong hd r1)
      (fsn_rewriteEnd_eLong hd r2 false) (fun h => h.2) (fun rl h => h.2)

/-! ### where the two scans stop -/

/-- the forward scan: either no record at or beyond `th`, or the list splits at the first such record, which is left
as it is together with everything after it; the index reported is its position -/
theorem scanStart_split (th : Nat) : ∀ (ms : List Message) (i : Nat),
    ((scanStart th i ms).2 = -1 ∧ ∀ m ∈ ms, isRecord m = true → dist m < th) ∨
    (∃ pre r post pre', ms = pre ++ r :: post ∧ (∀ m ∈ pre, isRecord m = true → dist m < th) ∧
        isRecord r = true ∧ ¬ dist r < th ∧ (scanStart th i ms).1 = pre' ++ r :: post ∧ pre'.length = pre.length ∧
        (scanStart th i ms).2 = ((i + pre.length : Nat) : Int))
  | [], _ => Or.inl ⟨rfl, fun _ h => by cases h⟩
  | m :: ms, i => by
    simp only [scanStart]
    cases hr : isRecord m
    · simp only [Bool.false_eq_true, ↓reduceIte]
      rcases scanStart_split th ms (i + 1) with ⟨h1, h2⟩ | ⟨pre, r, post, pre', e, hp, hrr, hnr, e1, hl, e2⟩
      · left
        refine ⟨h1, fun x hx hxr => ?_⟩
        rcases List.mem_cons.mp hx with rfl | hx
        · rw [hr] at hxr; cases hxr
        · exact h2 x hx hxr
      · right
        refine ⟨m :: pre, r, post, m :: pre', by rw [e]; rfl, ?_, hrr, hnr, by rw [e1]; rfl, by simp [hl], ?_⟩
        · intro x hx hxr
          rcases List.mem_cons.mp hx with rfl | hx
          · rw [hr] at hxr; cases hxr
          · exact hp x hx hxr
        · rw [e2]; simp only [List.length_cons]; omega
    · simp only [↓reduceIte]
      split
      · rename_i hlt
        rcases scanStart_split th ms (i + 1) with ⟨h1, h2⟩ | ⟨pre, r, post, pre', e, hp, hrr, hnr, e1, hl, e2⟩
        · left
          refine ⟨h1, fun x hx hxr => ?_⟩
          rcases List.mem_cons.mp hx with rfl | hx
          · exact hlt
          · exact h2 x hx hxr
        · right
          refine ⟨m :: pre, r, post, stripPos m :: pre', by rw [e]; rfl, ?_, hrr, hnr, by rw [e1]; rfl, by simp [hl], ?_⟩
          · intro x hx hxr
            rcases List.mem_cons.mp hx with rfl | hx
            · exact hlt
            · exact hp x hx hxr
          · rw [e2]; simp only [List.length_cons]; omega
      · rename_i hge
        right
        exact ⟨[], m, ms, [], rfl, fun _ h => (by cases h), hr, hge, rfl, rfl, by simp⟩

/-- the backward scan once `lastRecDist` is set (list reversed): the same with "within `th` of `L`" -/
theorem scanEndRev_split_set (th L : Nat) (hL : L ≠ uint32Invalid) (hlt : L < 2 ^ 32) : ∀ (rs : List Message),
    (∀ d ∈ recDists rs, d ≤ L) →
    ((scanEndRev th L rs).2 = -1 ∧ ∀ m ∈ rs, isRecord m = true → L - dist m < th) ∨
    (∃ pre r post pre', rs = pre ++ r :: post ∧ (∀ m ∈ pre, isRecord m = true → L - dist m < th) ∧
        isRecord r = true ∧ ¬ L - dist r < th ∧ (scanEndRev th L rs).1 = pre' ++ r :: post ∧ pre'.length = pre.length ∧
        (scanEndRev th L rs).2 = (post.length : Int))
  | [], _ => Or.inl ⟨rfl, fun _ h => by cases h⟩
  | m :: rs, hle => by
    simp only [scanEndRev]
    have hnl : ∀ d, nextLast L d = L := by intro d; simp [nextLast, hL]
    cases hr : isRecord m
    · simp only [Bool.false_eq_true, ↓reduceIte]
      rw [recDists_cons_other hr] at hle
      rcases scanEndRev_split_set th L hL hlt rs hle with ⟨h1, h2⟩ | ⟨pre, r, post, pre', e, hp, hrr, hnr, e1, hl, e2⟩
      · left
        refine ⟨h1, fun x hx hxr => ?_⟩
        rcases List.mem_cons.mp hx with rfl | hx
        · rw [hr] at hxr; cases hxr
        · exact h2 x hx hxr
      · right
        refine ⟨m :: pre, r, post, m :: pre', by rw [e]; rfl, ?_, hrr, hnr, by rw [e1]; rfl, by simp [hl], e2⟩
        intro x hx hxr
        rcases List.mem_cons.mp hx with rfl | hx
        · rw [hr] at hxr; cases hxr
        · exact hp x hx hxr
    · rw [recDists_cons_record hr] at hle
      have hdl : dist m ≤ L := hle _ (List.mem_cons_self ..)
      have hw : (L + 2 ^ 32 - dist m) % 2 ^ 32 = L - dist m := by omega
      simp only [↓reduceIte, hnl, hw]
      split
      · rename_i hclose
        rcases scanEndRev_split_set th L hL hlt rs (fun d hd => hle d (List.mem_cons_of_mem _ hd)) with
          ⟨h1, h2⟩ | ⟨pre, r, post, pre', e, hp, hrr, hnr, e1, hl, e2⟩
        · left
          refine ⟨h1, fun x hx hxr => ?_⟩
          rcases List.mem_cons.mp hx with rfl | hx
          · exact hclose
          · exact h2 x hx hxr
        · right
          refine ⟨m :: pre, r, post, stripPos m :: pre', by rw [e]; rfl, ?_, hrr, hnr, by rw [e1]; rfl, by simp [hl], e2⟩
          intro x hx hxr
          rcases List.mem_cons.mp hx with rfl | hx
          · exact hclose
          · exact hp x hx hxr
      · rename_i hfar
        right
        exact ⟨[], m, rs, [], rfl, fun _ h => (by cases h), hr, hfar, rfl, rfl, rfl⟩

/-- the backward scan from its initial state: the first record met fixes `lastRecDist` = `headDist rs` -/
theorem scanEndRev_split (th : Nat) (hth : 0 < th) : ∀ (rs : List Message),
    (recDists rs).Pairwise (· ≥ ·) → (∀ d ∈ recDists rs, d ≠ uint32Invalid) →
    ((scanEndRev th uint32Invalid rs).2 = -1 ∧ ∀ m ∈ rs, isRecord m = true → headDist rs - dist m < th) ∨
    (∃ pre r post pre', rs = pre ++ r :: post ∧ (∀ m ∈ pre, isRecord m = true → headDist rs - dist m < th) ∧
        isRecord r = true ∧ ¬ headDist rs - dist r < th ∧ (scanEndRev th uint32Invalid rs).1 = pre' ++ r :: post ∧
        pre'.length = pre.length ∧ (scanEndRev th uint32Invalid rs).2 = (post.length : Int))
  | [], _, _ => Or.inl ⟨rfl, fun _ h => by cases h⟩
  | m :: rs, h, hv => by
    simp only [scanEndRev]
    cases hr : isRecord m
    · simp only [Bool.false_eq_true, ↓reduceIte]
      rw [recDists_cons_other hr] at h hv
      have hh : headDist (m :: rs) = headDist rs := by simp [headDist, recDists_cons_other hr]
      rw [hh]
      rcases scanEndRev_split th hth rs h hv with ⟨h1, h2⟩ | ⟨pre, r, post, pre', e, hp, hrr, hnr, e1, hl, e2⟩
      · left
        refine ⟨h1, fun x hx hxr => ?_⟩
        rcases List.mem_cons.mp hx with rfl | hx
        · rw [hr] at hxr; cases hxr
        · exact h2 x hx hxr
      · right
        refine ⟨m :: pre, r, post, m :: pre', by rw [e]; rfl, ?_, hrr, hnr, by rw [e1]; rfl, by simp [hl], e2⟩
        intro x hx hxr
        rcases List.mem_cons.mp hx with rfl | hx
        · rw [hr] at hxr; cases hxr
        · exact hp x hx hxr
    · rw [recDists_cons_record hr] at h hv
      have hp := List.pairwise_cons.mp h
      have hnl : nextLast uint32Invalid (dist m) = dist m := by simp [nextLast]
      have hh : headDist (m :: rs) = dist m := by simp [headDist, recDists_cons_record hr]
      have hw : (dist m + 2 ^ 32 - dist m) % 2 ^ 32 = 0 := by omega
      simp only [↓reduceIte, hnl, hw, hth, hh]
      have hm0 : dist m - dist m < th := by omega
      rcases scanEndRev_split_set th (dist m) (hv _ (List.mem_cons_self ..)) (dist_lt m) rs (fun d hd => hp.1 d hd) with
        ⟨h1, h2⟩ | ⟨pre, r, post, pre', e, hpp, hrr, hnr, e1, hl, e2⟩
      · left
        refine ⟨h1, fun x hx hxr => ?_⟩
        rcases List.mem_cons.mp hx with rfl | hx
        · exact hm0
        · exact h2 x hx hxr
      · right
        refine ⟨m :: pre, r, post, stripPos m :: pre', by rw [e]; rfl, ?_, hrr, hnr, by rw [e1]; rfl, by simp [hl], e2⟩
        intro x hx hxr
        rcases List.mem_cons.mp hx with rfl | hx
        · exact hm0
        · exact hpp x hx hxr

/-! ### more about `Rel2` -/

namespace Rel2
variable {α : Type} {R S : α → α → Prop}

theorem mem_right : ∀ {xs ys}, Rel2 R xs ys → ∀ b ∈ ys, ∃ a ∈ xs, R a b
  | _, _, .nil, _, h => by cases h
  | _, _, .cons (a := a) r rs, b, h => by
    rcases List.mem_cons.mp h with rfl | h
    · exact ⟨a, List.mem_cons_self .., r⟩
    · obtain ⟨a', ha, hr⟩ := mem_right rs b h
      exact ⟨a', List.mem_cons_of_mem _ ha, hr⟩

theorem mem_left : ∀ {xs ys}, Rel2 R xs ys → ∀ a ∈ xs, ∃ b ∈ ys, R a b
  | _, _, .nil, _, h => by cases h
  | _, _, .cons (b := b) r rs, a, h => by
    rcases List.mem_cons.mp h with rfl | h
    · exact ⟨b, List.mem_cons_self .., r⟩
    · obtain ⟨b', hb, hr⟩ := mem_left rs a h
      exact ⟨b', List.mem_cons_of_mem _ hb, hr⟩

theorem flip : ∀ {xs ys}, Rel2 R xs ys → Rel2 (fun a b => R b a) ys xs
  | _, _, .nil => .nil
  | _, _, .cons r rs => .cons r (flip rs)

/-- split the left list where the right one is split -/
theorem split_right : ∀ {ys1 : List α} {xs : List α} {b : α} {ys2 : List α}, Rel2 R xs (ys1 ++ b :: ys2) →
    ∃ xs1 a xs2, xs = xs1 ++ a :: xs2 ∧ Rel2 R xs1 ys1 ∧ R a b ∧ Rel2 R xs2 ys2
  | [], _, _, _, .cons (a := a) (as := as) r rs => ⟨[], a, as, rfl, .nil, r, rs⟩
  | y :: ys1, _, _, _, .cons (a := a) r rs => by
    obtain ⟨xs1, a', xs2, e, h1, hr, h2⟩ := split_right rs
    exact ⟨a :: xs1, a', xs2, by rw [e]; rfl, .cons r h1, hr, h2⟩

theorem zip_all {p : α → α → Bool} : ∀ {xs ys}, Rel2 (fun a b => p a b = true) xs ys →
    (xs.zip ys).all (fun q => p q.1 q.2) = true
  | _, _, .nil => rfl
  | _, _, .cons r rs => by simp [r, zip_all rs]

end Rel2

/-- two splits of one list at elements `x` and `y`: which comes first -/
theorem split_compare {α : Type} : ∀ (a : List α) (x : α) (b c : List α) (y : α) (d : List α), a ++ x :: b = c ++ y :: d →
    (a.length < c.length ∧ ∃ mid, c = a ++ x :: mid ∧ b = mid ++ y :: d) ∨
    (a.length = c.length ∧ a = c ∧ x = y ∧ b = d) ∨
    (c.length < a.length ∧ ∃ mid, a = c ++ y :: mid ∧ d = mid ++ x :: b)
  | [], x, b, [], y, d, h => by
    simp only [List.nil_append, List.cons.injEq] at h
    exact Or.inr (Or.inl ⟨rfl, rfl, h.1, h.2⟩)
  | [], x, b, c0 :: c, y, d, h => by
    simp only [List.nil_append, List.cons_append, List.cons.injEq] at h
    left
    exact ⟨by simp, c, by rw [h.1]; rfl, h.2⟩
  | a0 :: a, x, b, [], y, d, h => by
    simp only [List.nil_append, List.cons_append, List.cons.injEq] at h
    right; right
    exact ⟨by simp, a, by rw [h.1]; rfl, h.2.symm⟩
  | a0 :: a, x, b, c0 :: c, y, d, h => by
    simp only [List.cons_append, List.cons.injEq] at h
    rcases split_compare a x b c y d h.2 with ⟨h1, mid, e1, e2⟩ | ⟨h1, e1, e2, e3⟩ | ⟨h1, mid, e1, e2⟩
    · left; exact ⟨by simp [h1], mid, by rw [e1, h.1]; rfl, e2⟩
    · right; left; exact ⟨by simp [h1], by rw [e1, h.1], e2, e3⟩
    · right; right; exact ⟨by simp [h1], mid, by rw [e1, h.1]; rfl, e2⟩

/-! ### start_time and total_timer_time are never touched -/

/-- same message number, same start_time and total_timer_time -/
def SameT (ph : PH) (a b : Message) : Prop :=
  b.num = a.num ∧ fval b ph.startTime = fval a ph.startTime ∧ fval b ph.totalTimerTime = fval a ph.totalTimerTime

theorem find?_filter_other {nums : List Nat} {n : Nat} (hn : n ∉ nums) (fs : List Field) :
    (fs.filter (other nums)).find? (hasNum n) = fs.find? (hasNum n) := by
  rw [List.find?_filter]
  congr; funext f
  cases hf : hasNum n f
  · simp
  · have : other nums f = true := by
      simp only [other, Bool.not_eq_true', List.any_eq_false]
      intro k hk hkf
      have : hasNum n f = false := hasNum_ne (fun (e : k = n) => hn (by rw [← e]; exact hk)) hkf
      rw [hf] at this; cases this
    simp [this]

theorem fval_of_touch {m m' : Message} (h : Touch m m') {n : Nat} (hn : n ∉ posNums m.num) : fval m' n = fval m n := by
  unfold fval
  rw [← find?_filter_other hn m'.fields, ← find?_filter_other hn m.fields, h.2.2]

theorem notin_posNums_2 (k : Nat) : 2 ∉ posNums k := by
  unfold posNums; split
  · decide
  · split
    · decide
    · split <;> decide

theorem notin_posNums_8 (k : Nat) : 8 ∉ posNums k := by
  unfold posNums; split
  · decide
  · split
    · decide
    · split <;> decide

theorem touch_sameT {ph : PH} (hph : ph = lapPH ∨ ph = sesPH) {a b : Message} (h : Touch a b) : SameT ph a b := by
  refine ⟨h.1, ?_, ?_⟩
  · rcases hph with rfl | rfl <;> exact fval_of_touch h (notin_posNums_2 _)
  · rcases hph with rfl | rfl <;> exact fval_of_touch h (notin_posNums_8 _)

theorem SameT.refl (ph : PH) (a : Message) : SameT ph a a := ⟨rfl, rfl, rfl⟩

theorem SameT.isPh {ph : PH} {a b : Message} (h : SameT ph a b) : (b.num == ph.mesgNum) = (a.num == ph.mesgNum) := by rw [h.1]
theorem SameT.start {ph : PH} {a b : Message} (h : SameT ph a b) : lapStartTime ph b = lapStartTime ph a := by
  unfold lapStartTime; rw [h.2.1]
theorem SameT.endT {ph : PH} {a b : Message} (h : SameT ph a b) : lapEndTime ph b = lapEndTime ph a := by
  unfold lapEndTime lapStartTime; rw [h.2.1, h.2.2]
theorem SameT.endsBefore {ph : PH} {a b : Message} (h : SameT ph a b) (r : RecInfo) : endsBefore ph r b = endsBefore ph r a := by
  unfold Activity.endsBefore; rw [h.2.1, h.2.2]

theorem lapsSeqP_sameT {ph : PH} : ∀ {xs ys : List Message}, Rel2 (SameT ph) xs ys → ∀ lo, lapsSeqP ph lo xs → lapsSeqP ph lo ys
  | _, _, .nil, _, _ => trivial
  | _, _, .cons (a := a) (b := b) r rs, lo, h => by
    simp only [lapsSeqP] at h ⊢
    rw [r.isPh, r.start, r.endT]
    split
    · rename_i hn
      rw [if_pos hn] at h
      exact ⟨h.1, lapsSeqP_sameT rs _ h.2⟩
    · rename_i hn
      rw [if_neg hn] at h
      exact lapsSeqP_sameT rs _ h

theorem lapsSeqRevP_sameT {ph : PH} : ∀ {xs ys : List Message}, Rel2 (SameT ph) xs ys → ∀ hi, lapsSeqRevP ph hi xs → lapsSeqRevP ph hi ys
  | _, _, .nil, _, _ => trivial
  | _, _, .cons (a := a) (b := b) r rs, hi, h => by
    simp only [lapsSeqRevP] at h ⊢
    rw [r.isPh, r.start, r.endT]
    split
    · rename_i hn
      rw [if_pos hn] at h
      exact ⟨h.1, lapsSeqRevP_sameT rs _ h.2⟩
    · rename_i hn
      rw [if_neg hn] at h
      exact lapsSeqRevP_sameT rs _ h

/-! ### what `lapsSeqB` gives -/

theorem sortedLeB_pairwise : ∀ l : List Nat, sortedLeB l = true → l.Pairwise (· ≤ ·)
  | [], _ => .nil
  | [a], _ => List.pairwise_singleton _ _
  | a :: b :: rest, h => by
    simp only [sortedLeB, Bool.and_eq_true, decide_eq_true_eq] at h
    have ih := sortedLeB_pairwise (b :: rest) h.2
    refine List.pairwise_cons.mpr ⟨fun x hx => ?_, ih⟩
    rcases List.mem_cons.mp hx with rfl | hx
    · exact h.1
    · exact Nat.le_trans h.1 ((List.pairwise_cons.mp ih).1 x hx)

/-- the start and end times of the laps (sessions), in file order -/
def lapTimes (ph : PH) (ms : List Message) : List Nat :=
  (ms.filter (·.num == ph.mesgNum)).flatMap fun m => [lapStartTime ph m, lapEndTime ph m]

theorem lapsSeqP_of_times (ph : PH) : ∀ (ms : List Message) (lo : Nat), (lapTimes ph ms).Pairwise (· ≤ ·) →
    (∀ x ∈ lapTimes ph ms, lo ≤ x) → lapsSeqP ph lo ms
  | [], _, _, _ => trivial
  | m :: ms, lo, hp, hlo => by
    simp only [lapsSeqP]
    split
    · rename_i hn
      have e : lapTimes ph (m :: ms) = lapStartTime ph m :: lapEndTime ph m :: lapTimes ph ms := by
        simp [lapTimes, List.filter_cons, hn]
      rw [e] at hp hlo
      have hp1 := List.pairwise_cons.mp hp
      have hp2 := List.pairwise_cons.mp hp1.2
      exact ⟨hlo _ (List.mem_cons_self ..), lapsSeqP_of_times ph ms _ hp2.2 hp2.1⟩
    · rename_i hn
      have e : lapTimes ph (m :: ms) = lapTimes ph ms := by simp [lapTimes, List.filter_cons, hn]
      rw [e] at hp hlo
      exact lapsSeqP_of_times ph ms lo hp hlo

/-- the same list for a reversed message list -/
def lapTimesRev (ph : PH) (rs : List Message) : List Nat :=
  (rs.filter (·.num == ph.mesgNum)).flatMap fun m => [lapEndTime ph m, lapStartTime ph m]

theorem lapsSeqRevP_of_times (ph : PH) : ∀ (rs : List Message) (hi : Nat), (lapTimesRev ph rs).Pairwise (· ≥ ·) →
    (∀ x ∈ lapTimesRev ph rs, x ≤ hi) → lapsSeqRevP ph hi rs
  | [], _, _, _ => trivial
  | m :: rs, hi, hp, hhi => by
    simp only [lapsSeqRevP]
    split
    · rename_i hn
      have e : lapTimesRev ph (m :: rs) = lapEndTime ph m :: lapStartTime ph m :: lapTimesRev ph rs := by
        simp [lapTimesRev, List.filter_cons, hn]
      rw [e] at hp hhi
      have hp1 := List.pairwise_cons.mp hp
      have hp2 := List.pairwise_cons.mp hp1.2
      exact ⟨hhi _ (List.mem_cons_self ..), lapsSeqRevP_of_times ph rs _ hp2.2 hp2.1⟩
    · rename_i hn
      have e : lapTimesRev ph (m :: rs) = lapTimesRev ph rs := by simp [lapTimesRev, List.filter_cons, hn]
      rw [e] at hp hhi
      exact lapsSeqRevP_of_times ph rs hi hp hhi

theorem lapTimesRev_reverse (ph : PH) (ms : List Message) : lapTimesRev ph ms.reverse = (lapTimes ph ms).reverse := by
  unfold lapTimesRev lapTimes
  rw [List.filter_reverse, List.reverse_flatMap]
  congr

/-- what `lapsSeqB` says, as propositions -/
theorem lapsSeqB_spec {ph : PH} {ms : List Message} (h : lapsSeqB ph ms = true) :
    (∀ m ∈ ms, (m.num == ph.mesgNum) = true → lapStartTime ph m ≠ uint32Invalid ∧
        u32 (fval m ph.totalTimerTime) ≠ uint32Invalid ∧ lapStartTime ph m + u32 (fval m ph.totalTimerTime) < uint32Invalid) ∧
    lapsSeqP ph 0 ms ∧ lapsSeqRevP ph (2 ^ 32) ms.reverse := by
  simp only [lapsSeqB, Bool.and_eq_true, List.all_eq_true, List.mem_filter, bne_iff_ne, ne_eq, decide_eq_true_eq, and_imp] at h
  obtain ⟨hv, hs⟩ := h
  have hp : (lapTimes ph ms).Pairwise (· ≤ ·) := sortedLeB_pairwise _ hs
  have hb : ∀ x ∈ lapTimes ph ms, x ≤ 2 ^ 32 := by
    intro x hx
    simp only [lapTimes, List.mem_flatMap, List.mem_filter, List.mem_cons, List.not_mem_nil, or_false] at hx
    obtain ⟨m, ⟨hm, hn⟩, hx⟩ := hx
    have := hv m hm hn
    have hse := lapStart_le_end ph m
    have hdiv : u32 (fval m ph.totalTimerTime) / timerScale ≤ u32 (fval m ph.totalTimerTime) := Nat.div_le_self _ _
    have he : lapEndTime ph m = lapStartTime ph m + u32 (fval m ph.totalTimerTime) / timerScale := rfl
    have : uint32Invalid = 4294967295 := rfl
    rcases hx with rfl | rfl <;> omega
  refine ⟨fun m hm hn => ⟨(hv m hm hn).1.1, (hv m hm hn).1.2, (hv m hm hn).2⟩, lapsSeqP_of_times ph ms 0 hp (fun _ _ => Nat.zero_le _), ?_⟩
  apply lapsSeqRevP_of_times
  · rw [lapTimesRev_reverse, List.pairwise_reverse]; exact hp
  · intro x hx
    rw [lapTimesRev_reverse] at hx
    exact hb x (List.mem_reverse.mp hx)

/-! ### the two stages on whole lists -/

theorem scanStart_nonrec (th : Nat) : ∀ (ms : List Message) (i : Nat),
    Rel2 (fun a b => isRecord a = false → b = a) ms (scanStart th i ms).1
  | [], _ => .nil
  | m :: ms, i => by
    simp only [scanStart]
    split
    · rename_i hr
      split
      · exact .cons (fun h => by rw [hr] at h; cases h) (scanStart_nonrec th ms (i + 1))
      · exact Rel2.refl (fun _ _ => rfl) _
    · exact .cons (fun _ => rfl) (scanStart_nonrec th ms (i + 1))

theorem scanEndRev_nonrec (th : Nat) : ∀ (ms : List Message) (lastD : Nat),
    Rel2 (fun a b => isRecord a = false → b = a) ms (scanEndRev th lastD ms).1
  | [], _ => .nil
  | m :: ms, lastD => by
    simp only [scanEndRev]
    split
    · rename_i hr
      split
      · exact .cons (fun h => by rw [hr] at h; cases h) (scanEndRev_nonrec th ms _)
      · exact Rel2.refl (fun _ _ => rfl) _
    · exact .cons (fun _ => rfl) (scanEndRev_nonrec th ms _)

theorem isPh_not_record {ph : PH} (hph : ph = lapPH ∨ ph = sesPH) {a : Message} (h : (a.num == ph.mesgNum) = true) :
    isRecord a = false := by
  have h' : a.num = ph.mesgNum := by simpa using h
  rcases hph with rfl | rfl <;> (simp only [isRecord, h']; decide)

theorem touch_list_sameT {ph : PH} (hph : ph = lapPH ∨ ph = sesPH) {xs ys : List Message} (h : Rel2 Touch xs ys) :
    Rel2 (SameT ph) xs ys := Rel2.imp (fun _ _ t => touch_sameT hph t) h

theorem hu_transfer {ph : PH} {r : RecInfo} {X Y : List Message} (h : Rel2 (SameT ph) X Y)
    (hu : ∀ m ∈ X, (m.num == ph.mesgNum) = true → endsBefore ph r m = decide (lapEndTime ph m < r.ts)) :
    ∀ m ∈ Y, (m.num == ph.mesgNum) = true → endsBefore ph r m = decide (lapEndTime ph m < r.ts) := by
  intro m hm hn
  obtain ⟨a, ha, hs⟩ := h.mem_right m hm
  rw [hs.endsBefore, hs.endT]
  exact hu a ha (by rw [← hs.isPh]; exact hn)

theorem hv_transfer {ph : PH} {X Y : List Message} (h : Rel2 (SameT ph) X Y)
    (hv : ∀ m ∈ X, (m.num == ph.mesgNum) = true → lapStartTime ph m ≠ uint32Invalid) :
    ∀ m ∈ Y, (m.num == ph.mesgNum) = true → lapStartTime ph m ≠ uint32Invalid := by
  intro m hm hn
  obtain ⟨a, ha, hs⟩ := h.mem_right m hm
  rw [hs.start]
  exact hv a ha (by rw [← hs.isPh]; exact hn)

/-- a stage relation for laps, followed by the pass over the sessions -/
theorem lift_lap {R : Message → Message → Prop} {X L W : List Message}
    (stage : Rel2 (fun a b => (a.num == lapPH.mesgNum) = true → R a b) X L) (t : Rel2 Touch X L)
    (post : Rel2 (fun m m' => m.num ≠ sesPH.mesgNum → m' = m) L W) :
    Rel2 (fun a d => (a.num == lapPH.mesgNum) = true → R a d) X W := by
  refine Rel2.comp ?_ (Rel2.and stage t) post
  intro a c d ⟨hs, ht⟩ hp hn
  have hc : c.num ≠ sesPH.mesgNum := by
    rw [ht.1]
    have : a.num = lapPH.mesgNum := by simpa using hn
    rw [this]; decide
  rw [hp hc]; exact hs hn

/-- the pass over the laps, followed by a stage relation for sessions -/
theorem lift_ses {R : Message → Message → Prop} {X L W : List Message}
    (pre : Rel2 (fun m m' => m.num ≠ lapPH.mesgNum → m' = m) X L)
    (stage : Rel2 (fun a b => (a.num == sesPH.mesgNum) = true → R a b) L W) :
    Rel2 (fun a d => (a.num == sesPH.mesgNum) = true → R a d) X W := by
  refine Rel2.comp ?_ pre stage
  intro a b d hp hs hn
  have hb : a.num ≠ lapPH.mesgNum := by
    have : a.num = sesPH.mesgNum := by simpa using hn
    rw [this]; decide
  have e := hp hb
  subst e
  exact hs hn

/-- **start stage on the whole list**: laps, then sessions -/
theorem startStage_list {ph : PH} (hph : ph = lapPH ∨ ph = sesPH) (r : RecInfo) (X : List Message)
    (hseq : lapsSeqP ph 0 X)
    (hu : ∀ m ∈ X, (m.num == ph.mesgNum) = true → endsBefore ph r m = decide (lapEndTime ph m < r.ts)) :
    Rel2 (StartStageOK ph r) X (updStart sesPH r (updStart lapPH r X)) := by
  rcases hph with rfl | rfl
  · have stage : Rel2 (StartStageOK lapPH r) X (updStart lapPH r X) := by
      rw [updStart_eq_walk]
      exact startWalk_ok lapPH r X true 0 hseq (fun h => by cases h) hu
    exact lift_lap (R := fun m m' => (lapEndTime lapPH m < r.ts → m' = strip4 lapPH m) ∧
        (r.ts ≤ lapEndTime lapPH m → m' = rewriteStart lapPH r m ∨ (m' = m ∧ r.ts ≤ lapStartTime lapPH m)))
      stage (updStart_touch (Or.inl rfl) r X) (updStart_others sesPH r _)
  · have hs := touch_list_sameT (ph := sesPH) (Or.inr rfl) (updStart_touch (Or.inl rfl) r X)
    have stage : Rel2 (StartStageOK sesPH r) (updStart lapPH r X) (updStart sesPH r (updStart lapPH r X)) := by
      rw [updStart_eq_walk sesPH]
      exact startWalk_ok sesPH r _ true 0 (lapsSeqP_sameT hs 0 hseq) (fun h => by cases h) (hu_transfer hs hu)
    exact lift_ses (R := fun m m' => (lapEndTime sesPH m < r.ts → m' = strip4 sesPH m) ∧
        (r.ts ≤ lapEndTime sesPH m → m' = rewriteStart sesPH r m ∨ (m' = m ∧ r.ts ≤ lapStartTime sesPH m)))
      (updStart_others lapPH r X) stage

/-- **end stage on the whole (reversed) list** when a record is left revealed -/
theorem endStage_list {ph : PH} (hph : ph = lapPH ∨ ph = sesPH) (r : RecInfo) (ov : Bool) (hr : r.absent = false)
    (X : List Message) (hi : Nat) (hseq : lapsSeqRevP ph hi X)
    (hv : ∀ m ∈ X, (m.num == ph.mesgNum) = true → lapStartTime ph m ≠ uint32Invalid) :
    Rel2 (EndStageOK ph r ov) X (updEndRev sesPH r ov (updEndRev lapPH r ov X)) := by
  rcases hph with rfl | rfl
  · have stage : Rel2 (EndStageOK lapPH r ov) X (updEndRev lapPH r ov X) := by
      rw [updEndRev_eq_walk]
      exact endWalk_ok lapPH r ov hr X true hi hseq (fun h => by cases h) hv
    exact lift_lap (R := fun m m' => (r.ts < lapStartTime lapPH m → m' = strip4 lapPH m) ∧
        (lapStartTime lapPH m ≤ r.ts → m' = rewriteEnd lapPH r ov m ∨ (m' = m ∧ lapEndTime lapPH m ≤ r.ts)))
      stage (updEndRev_touch (Or.inl rfl) r ov X) (updEndRev_others sesPH r ov _)
  · have hs := touch_list_sameT (ph := sesPH) (Or.inr rfl) (updEndRev_touch (Or.inl rfl) r ov X)
    have stage : Rel2 (EndStageOK sesPH r ov) (updEndRev lapPH r ov X) (updEndRev sesPH r ov (updEndRev lapPH r ov X)) := by
      rw [updEndRev_eq_walk sesPH]
      exact endWalk_ok sesPH r ov hr _ true hi (lapsSeqRevP_sameT hs hi hseq) (fun h => by cases h) (hv_transfer hs hv)
    exact lift_ses (R := fun m m' => (r.ts < lapStartTime sesPH m → m' = strip4 sesPH m) ∧
        (lapStartTime sesPH m ≤ r.ts → m' = rewriteEnd sesPH r ov m ∨ (m' = m ∧ lapEndTime sesPH m ≤ r.ts)))
      (updEndRev_others lapPH r ov X) stage

/-- **end stage** when no record is left revealed -/
theorem endStage_list_absent {ph : PH} (hph : ph = lapPH ∨ ph = sesPH) (r : RecInfo) (ov : Bool) (hr : r.absent = true)
    (X : List Message) :
    Rel2 (fun m m' => (m.num == ph.mesgNum) = true → m' = strip4 ph m) X (updEndRev sesPH r ov (updEndRev lapPH r ov X)) := by
  rcases hph with rfl | rfl
  · have stage : Rel2 (fun m m' => (m.num == lapPH.mesgNum) = true → m' = strip4 lapPH m) X (updEndRev lapPH r ov X) := by
      rw [updEndRev_eq_walk]; exact endWalk_absent lapPH r ov hr X
    exact lift_lap (R := fun m m' => m' = strip4 lapPH m) stage (updEndRev_touch (Or.inl rfl) r ov X) (updEndRev_others sesPH r ov _)
  · have stage : Rel2 (fun m m' => (m.num == sesPH.mesgNum) = true → m' = strip4 sesPH m) (updEndRev lapPH r ov X)
        (updEndRev sesPH r ov (updEndRev lapPH r ov X)) := by
      rw [updEndRev_eq_walk sesPH]; exact endWalk_absent sesPH r ov hr _
    exact lift_ses (R := fun m m' => m' = strip4 sesPH m) (updEndRev_others lapPH r ov X) stage

/-! ### the records the two scans stop at -/

theorem recAt_append (pre' : List Message) (r : Message) (post : List Message) (n : Nat) (h : pre'.length = n) :
    recAt (pre' ++ r :: post) (n : Int) = recInfo r := by
  unfold recAt
  have h0 : ¬ ((n : Int) < 0) := by omega
  rw [if_neg h0]
  have : (pre' ++ r :: post)[(n : Int).toNat]? = some r := by
    rw [Int.toNat_natCast, List.getElem?_append_right (by omega), h]; simp
  rw [this]

theorem recAt_neg (xs : List Message) : recAt xs (-1) = noRec := by
  unfold recAt; simp

/-- the forward scan stops at `firstRevealed` -/
theorem scanStart_facts (th : Nat) (ms : List Message) :
    (firstRevealed th ms = none ∧ (scanStart th 0 ms).2 = -1 ∧ recAt (scanStart th 0 ms).1 (scanStart th 0 ms).2 = noRec) ∨
    (∃ pre r post, ms = pre ++ r :: post ∧ (∀ m ∈ pre, isRecord m = true → inStart th m = true) ∧ isRecord r = true ∧
        inStart th r = false ∧ firstRevealed th ms = some r ∧ (scanStart th 0 ms).2 = (pre.length : Int) ∧
        recAt (scanStart th 0 ms).1 (scanStart th 0 ms).2 = recInfo r) := by
  rcases scanStart_split th ms 0 with ⟨h1, h2⟩ | ⟨pre, r, post, pre', e, hp, hrr, hnr, e1, hl, e2⟩
  · left
    refine ⟨?_, h1, by rw [h1]; exact recAt_neg _⟩
    unfold firstRevealed
    rw [List.find?_eq_none]
    intro x hx
    simp only [inStart, Bool.and_eq_true, Bool.not_eq_true', decide_eq_false_iff_not, not_and, Decidable.not_not]
    exact fun hxr => h2 x hx hxr
  · right
    have e2' : (scanStart th 0 ms).2 = (pre.length : Int) := by rw [e2]; simp
    refine ⟨pre, r, post, e, fun m hm hmr => by simpa [inStart] using hp m hm hmr, hrr, by simpa [inStart] using hnr, ?_, e2', ?_⟩
    · unfold firstRevealed
      rw [List.find?_eq_some_iff_append]
      refine ⟨by simp [hrr, inStart, hnr], pre, post, e, fun a ha => ?_⟩
      cases har : isRecord a
      · simp
      · simp [inStart, hp a ha har]
    · rw [e2', e1]; exact recAt_append pre' r post _ hl

theorem tstamp_stripPos (m : Message) : tstamp (stripPos m) = tstamp m := by
  simp only [tstamp, stripPos]
  rw [fval_rm_ne (by decide), fval_rm_ne (by decide)]

theorem tstamp_hideIf (p : Message → Bool) (m : Message) : tstamp (hideIf p m) = tstamp m := by
  unfold hideIf; split
  · exact tstamp_stripPos m
  · rfl

theorem fval_of_fsn_nil {n : Nat} {m : Message} (h : fsn n m = []) : fval m n = .invalid := by
  unfold fval
  have : m.fields.find? (hasNum n) = none := by
    rw [List.find?_eq_none]
    intro x hx hxn
    have := List.filter_eq_nil_iff.mp h x hx
    exact this hxn
  rw [this]

/-- a concealed record has no coordinates to hand on -/
theorem recInfo_stripPos {m : Message} (h1 : UniqueNum fnRecordPositionLat m) (h2 : UniqueNum fnRecordPositionLong m) :
    (recInfo (stripPos m)).lat = sint32Invalid ∧ (recInfo (stripPos m)).long = sint32Invalid := by
  have a : fsn fnRecordPositionLat (stripPos m) = [] := by
    unfold stripPos
    rw [fsn_rm_ne (by decide), fsn_rm_same]; exact tail_nil_of_le_one h1
  have b : fsn fnRecordPositionLong (stripPos m) = [] := by
    unfold stripPos
    rw [fsn_rm_same, fsn_rm_ne (by decide)]; exact tail_nil_of_le_one h2
  simp only [recInfo, fval_of_fsn_nil a, fval_of_fsn_nil b]
  exact ⟨rfl, rfl⟩

/-- what the start stage does to the records (part of `conceal_records`) -/
theorem concealStart_recMap (first : Nat) (ms : List Message) (hmono : (recDists ms).Pairwise (· ≤ ·)) :
    RecMap (hideIf (inStart first)) ms (concealStart first ms).1 := by
  unfold concealStart
  split
  · rename_i h0
    subst h0
    have : ∀ m, hideIf (inStart 0) m = m := by intro m; simp [hideIf, inStart]
    exact Rel2.refl (fun m => ⟨rfl, fun _ => (this m).symm⟩) _
  · have a : RecMap (hideIf (inStart first)) ms (scanStart first 0 ms).1 := by
      rw [scanStart_map first ms 0 hmono]
      exact RecMap.ofMap _ (hideIf_num _) (fun m hm => by simp [hideIf, hm]) ms
    have b := RecMap.ofOthers (ph := lapPH) (by decide)
      (updStart_others lapPH (recAt (scanStart first 0 ms).1 (scanStart first 0 ms).2) (scanStart first 0 ms).1)
      (updStart_touch (Or.inl rfl) _ _)
    have c := RecMap.ofOthers (ph := sesPH) (by decide)
      (updStart_others sesPH (recAt (scanStart first 0 ms).1 (scanStart first 0 ms).2)
        (updStart lapPH (recAt (scanStart first 0 ms).1 (scanStart first 0 ms).2) (scanStart first 0 ms).1))
      (updStart_touch (Or.inr rfl) _ _)
    have ab := RecMap.comp (hideIf_num _) a b
    have abc := RecMap.comp (f := fun m => id (hideIf (inStart first) m)) (g := id)
      (fun m => hideIf_num _ m) ab c
    exact abc

/-- the backward scan (run on the output `A` of the start stage) stops at `lastRevealed` -/
theorem scanEnd_facts (first last : Nat) (ms A : List Message) (hD : DistOK ms)
    (hA : RecMap (hideIf (inStart first)) ms A) (hl : last ≠ 0) :
    (lastRevealed last ms = none ∧ (scanEndRev last uint32Invalid A.reverse).2 = -1 ∧
      recAt (scanEndRev last uint32Invalid A.reverse).1.reverse (scanEndRev last uint32Invalid A.reverse).2 = noRec) ∨
    (∃ X rl Y, ms = X ++ rl :: Y ∧ isRecord rl = true ∧ inEnd last ms rl = false ∧
        (∀ y ∈ Y, isRecord y = true → inEnd last ms y = true) ∧ lastRevealed last ms = some rl ∧
        (scanEndRev last uint32Invalid A.reverse).2 = (X.length : Int) ∧
        recAt (scanEndRev last uint32Invalid A.reverse).1.reverse (scanEndRev last uint32Invalid A.reverse).2 =
          recInfo (hideIf (inStart first) rl)) := by
  obtain ⟨hv, hmono⟩ := hD
  have hd : recDists A = recDists ms := RecMap.recDists (dist_hideIf _) hA
  have hrev : (recDists A.reverse).Pairwise (· ≥ ·) := by
    rw [recDists_reverse, hd, List.pairwise_reverse]; exact hmono
  have hvr : ∀ d ∈ recDists A.reverse, d ≠ uint32Invalid := by
    intro d hd'; rw [recDists_reverse, hd] at hd'; exact hv d (List.mem_reverse.mp hd')
  have hL : headDist A.reverse = lastDist ms := by rw [headDist_reverse]; simp [lastDist, hd]
  -- a record of `ms` and its image in `A` lie equally far from the end
  have close : ∀ {x b : Message}, (b.num = x.num ∧ (isRecord x = true → b = hideIf (inStart first) x)) →
      isRecord x = true → (isRecord b = true ∧ dist b = dist x) := by
    intro x b ⟨hn, hb⟩ hx
    rw [hb hx]
    exact ⟨by rw [isRecord_hideIf]; exact hx, dist_hideIf _ _⟩
  rcases scanEndRev_split last (Nat.pos_of_ne_zero hl) A.reverse hrev hvr with
    ⟨h1, h2⟩ | ⟨pre, r, post, pre', e, hp, hrr, hnr, e1, hlen, e2⟩
  · left
    refine ⟨?_, h1, by rw [h1]; exact recAt_neg _⟩
    unfold lastRevealed
    rw [List.find?_eq_none]
    intro x hx
    have hx' : x ∈ ms := List.mem_reverse.mp hx
    obtain ⟨b, hb, hR⟩ := Rel2.mem_left hA x hx'
    simp only [inEnd, Bool.and_eq_true, Bool.not_eq_true', decide_eq_false_iff_not, not_and, Decidable.not_not]
    intro hxr
    obtain ⟨hbr, hbd⟩ := close hR hxr
    have := h2 b (List.mem_reverse.mpr hb) hbr
    rw [hL, hbd] at this; exact this
  · right
    have eA : A = post.reverse ++ r :: pre.reverse := by
      have := congrArg List.reverse e
      simpa using this
    rw [eA] at hA
    obtain ⟨X, rl, Y, ems, hX, hR, hY⟩ := Rel2.split_right hA
    have hrl : isRecord rl = true := by rw [← isRecord_of_num_eq hR.1]; exact hrr
    obtain ⟨_, hrd⟩ := close hR hrl
    have hie : inEnd last ms rl = false := by
      simp only [inEnd, decide_eq_false_iff_not]
      rw [← hrd, ← hL]; exact hnr
    have hYe : ∀ y ∈ Y, isRecord y = true → inEnd last ms y = true := by
      intro y hy hyr
      obtain ⟨b, hb, hRy⟩ := Rel2.mem_left hY y hy
      obtain ⟨hbr, hbd⟩ := close hRy hyr
      have := hp b (List.mem_reverse.mp hb) hbr
      rw [hL, hbd] at this
      simpa [inEnd] using this
    refine ⟨X, rl, Y, ems, hrl, hie, hYe, ?_, ?_, ?_⟩
    · unfold lastRevealed
      rw [List.find?_eq_some_iff_append]
      refine ⟨by simp [hrl, hie], Y.reverse, X.reverse, by rw [ems]; simp, fun a ha => ?_⟩
      cases har : isRecord a
      · simp
      · simp [hYe a (List.mem_reverse.mp ha) har]
    · rw [e2]
      have := hX.length_eq
      simp only [List.length_reverse] at this
      rw [this]
    · rw [e2, e1]
      have hr' : r = hideIf (inStart first) rl := hR.2 hrl
      rw [← hr']
      have : (pre' ++ r :: post).reverse = post.reverse ++ r :: pre'.reverse := by simp
      rw [this]
      exact recAt_append _ r _ _ (by simp)

/-! ### the composed statement -/

theorem sortedLtB_pairwise : ∀ l : List Nat, sortedLtB l = true → l.Pairwise (· < ·)
  | [], _ => .nil
  | [a], _ => List.pairwise_singleton _ _
  | a :: b :: rest, h => by
    simp only [sortedLtB, Bool.and_eq_true, decide_eq_true_eq] at h
    have ih := sortedLtB_pairwise (b :: rest) h.2
    refine List.pairwise_cons.mpr ⟨fun x hx => ?_, ih⟩
    rcases List.mem_cons.mp hx with rfl | hx
    · exact h.1
    · exact Nat.lt_trans h.1 ((List.pairwise_cons.mp ih).1 x hx)

/-- two elements of a list whose filtered image is pairwise related -/
theorem pairwise_pick {α β : Type} {R : β → β → Prop} {p : α → Bool} {f : α → β} {l : List α}
    (h : ((l.filter p).map f).Pairwise R) {X : List α} {a : α} {mid : List α} {b : α} {rest : List α}
    (e : l = X ++ a :: (mid ++ b :: rest)) (ha : p a = true) (hb : p b = true) : R (f a) (f b) := by
  subst e
  rw [List.pairwise_map, List.pairwise_filter] at h
  have h2 := (List.pairwise_append.mp h).2.1
  exact (List.pairwise_cons.mp h2).1 b (by simp) ha hb

theorem Rel2.left_mem {α : Type} {R : α → α → Prop} : ∀ {xs ys : List α}, Rel2 R xs ys → Rel2 (fun a _ => a ∈ xs) xs ys
  | _, _, .nil => .nil
  | _, _, .cons _ rs => .cons (List.mem_cons_self ..) (Rel2.imp (fun _ _ h => List.mem_cons_of_mem _ h) (Rel2.left_mem rs))

theorem concealStart_zero (ms : List Message) : concealStart 0 ms = (ms, 0) := by simp [concealStart]

theorem concealStart_pos {first : Nat} (h : first ≠ 0) (ms : List Message) :
    concealStart first ms =
      (updStart sesPH (recAt (scanStart first 0 ms).1 (scanStart first 0 ms).2)
        (updStart lapPH (recAt (scanStart first 0 ms).1 (scanStart first 0 ms).2) (scanStart first 0 ms).1),
       (scanStart first 0 ms).2) := by
  simp [concealStart, h]

theorem concealEnd_zero (idx : Int) (A : List Message) : concealEnd 0 idx A = A := by simp [concealEnd]

/-- the record index `updateEndPosition` is handed: −1 when the stretches overlap (/repo fix of KF-C20-4) -/
def endIdxOf (idx : Int) (e : Int) : Int := if idx > e then -1 else e

theorem concealEnd_pos {last : Nat} (h : last ≠ 0) (idx : Int) (A : List Message) :
    concealEnd last idx A =
      (updEndRev sesPH (recAt (scanEndRev last uint32Invalid A.reverse).1.reverse (endIdxOf idx (scanEndRev last uint32Invalid A.reverse).2))
        (decide (idx > endIdxOf idx (scanEndRev last uint32Invalid A.reverse).2))
        (updEndRev lapPH (recAt (scanEndRev last uint32Invalid A.reverse).1.reverse (endIdxOf idx (scanEndRev last uint32Invalid A.reverse).2))
          (decide (idx > endIdxOf idx (scanEndRev last uint32Invalid A.reverse).2)) (scanEndRev last uint32Invalid A.reverse).1)).reverse := by
  simp [concealEnd, h, endIdxOf]

/-- **What concealing does to each lap / session**, outside the class of KF-C20-1 (F17): the facts `Stages` about every lap
(session) `m`, what it is after the start stage (`m1`) and after the end stage (`m'`), with the records the two scans stop
at and the overlap flag. (The class of KF-C20-4 — overlapping stretches with a timestamp tie at the boundary — needed a
hypothesis until /repo's fix: with overlapping stretches the end stage now strips every lap and session.) -/
theorem conceal_stages {ph : PH} (hph : ph = lapPH ∨ ph = sesPH) (first last : Nat) (ms : List Message)
    (hD : DistOK ms) (hseq : lapsSeqB ph ms = true)
    (hUr : recUniqueB ms = true) (hF : unitsDisagree ph first ms = false) :
    ∃ (r1 r2 : RecInfo) (ov : Bool),
      Rel2 (fun m m' => (m.num == ph.mesgNum) = true → ∃ m1, Stages ph first last ms m m1 m' r1 r2 ov) ms (conceal first last ms) := by
  obtain ⟨hval, hseqP, hseqR⟩ := lapsSeqB_spec hseq
  have hUr' : ∀ m ∈ ms, isRecord m = true → UniqueNum fnRecordPositionLat m ∧ UniqueNum fnRecordPositionLong m := by
    intro m hm hr
    have := List.all_eq_true.mp hUr m hm
    simpa [hr, uniqueNumB, UniqueNum] using this
  -- the start stage
  obtain ⟨S, hS⟩ : ∃ S, S = scanStart first 0 ms := ⟨_, rfl⟩
  obtain ⟨r1, hr1⟩ : ∃ r1, r1 = recAt S.1 S.2 := ⟨_, rfl⟩
  obtain ⟨A, hA⟩ : ∃ A, A = (concealStart first ms).1 := ⟨_, rfl⟩
  obtain ⟨idxS, hidx⟩ : ∃ i, i = (concealStart first ms).2 := ⟨_, rfl⟩
  have hTouchA : Rel2 Touch ms A := hA ▸ concealStart_touch first ms
  have hRecA : RecMap (hideIf (inStart first)) ms A := hA ▸ concealStart_recMap first ms hD.2
  have sf := scanStart_facts first ms
  rw [← hS, ← hr1] at sf
  have G1 : first ≠ 0 → firstRevealed first ms = none → r1 = noRec := by
    intro _ hn
    rcases sf with ⟨_, _, h⟩ | ⟨_, _, _, _, _, _, _, h, _⟩
    · exact h
    · rw [hn] at h; cases h
  have G2 : first ≠ 0 → ∀ r, firstRevealed first ms = some r → r1 = recInfo r := by
    intro _ r hr
    rcases sf with ⟨h, _⟩ | ⟨_, r', _, _, _, _, _, h, _, h2⟩
    · rw [hr] at h; cases h
    · rw [hr] at h; cases h; exact h2
  have hu_ms : first ≠ 0 → ∀ m ∈ ms, (m.num == ph.mesgNum) = true → endsBefore ph r1 m = decide (lapEndTime ph m < r1.ts) := by
    intro hf0 m hm hn
    obtain ⟨h1, h2, _⟩ := hval m hm hn
    have hne0 : (first != 0) = true := by simpa using hf0
    simp only [unitsDisagree, hne0, Bool.true_and, List.any_eq_false, List.mem_filter, bne_iff_ne, ne_eq,
      Decidable.not_not, and_imp] at hF
    have this := hF m hm hn
    have key : decide ((lapStartTime ph m + u32 (fval m ph.totalTimerTime)) % 2 ^ 32 < r1.ts) = decide (lapEndTime ph m < r1.ts) := by
      cases hR : firstRevealed first ms with
      | none => rw [hR] at this; rw [G1 hf0 hR]; exact this
      | some r => rw [hR] at this; rw [G2 hf0 r hR]; exact this
    unfold Activity.endsBefore
    have e1 : (u32 (fval m ph.startTime) == uint32Invalid) = false := by simpa [lapStartTime] using h1
    have e2 : (u32 (fval m ph.totalTimerTime) == uint32Invalid) = false := by simpa using h2
    simp only [e1, e2, Bool.false_or]
    exact key
  have startRel : first ≠ 0 → Rel2 (StartStageOK ph r1) ms A := by
    intro hf0
    have eA : A = updStart sesPH r1 (updStart lapPH r1 S.1) := by rw [hA, concealStart_pos hf0, hr1, hS]
    have hs := touch_list_sameT hph (hS ▸ scanStart_touch first ms 0)
    have st := startStage_list hph r1 S.1 (lapsSeqP_sameT hs 0 hseqP) (hu_transfer hs (hu_ms hf0))
    rw [← eA] at st
    have pre : Rel2 (fun a b => isRecord a = false → b = a) ms S.1 := hS ▸ scanStart_nonrec first ms 0
    refine Rel2.comp ?_ pre st
    intro a b d hp hs' hn
    have := hp (isPh_not_record hph hn)
    subst this
    exact hs' hn
  have startInfo : Rel2 (fun m m1 => (m.num == ph.mesgNum) = true → (first = 0 → m1 = m) ∧
      (first ≠ 0 → (lapEndTime ph m < r1.ts → m1 = strip4 ph m) ∧
        (r1.ts ≤ lapEndTime ph m → m1 = rewriteStart ph r1 m ∨ (m1 = m ∧ r1.ts ≤ lapStartTime ph m)))) ms A := by
    by_cases hf0 : first = 0
    · have : A = ms := by rw [hA, hf0, concealStart_zero]
      rw [this]
      exact Rel2.refl (fun a _ => ⟨fun _ => rfl, fun h => absurd hf0 h⟩) _
    · exact Rel2.imp (fun a b h hn => ⟨fun h0 => absurd h0 hf0, fun _ => h hn⟩) (startRel hf0)
  -- the end stage
  obtain ⟨E, hE⟩ : ∃ E, E = scanEndRev last uint32Invalid A.reverse := ⟨_, rfl⟩
  obtain ⟨r2s, hr2s⟩ : ∃ r2s, r2s = recAt E.1.reverse E.2 := ⟨_, rfl⟩   -- the record the backward scan stops at
  obtain ⟨ov, hov⟩ : ∃ ov, ov = decide (idxS > E.2) := ⟨_, rfl⟩          -- the stretches overlap
  obtain ⟨r2, hr2⟩ : ∃ r2, r2 = recAt E.1.reverse (endIdxOf idxS E.2) := ⟨_, rfl⟩   -- what `updateEndPosition` is handed
  obtain ⟨ov2, hov2⟩ : ∃ ov2, ov2 = decide (idxS > endIdxOf idxS E.2) := ⟨_, rfl⟩
  have hovT : ov = true → r2 = noRec := by
    intro h
    have : idxS > E.2 := by simpa [hov] using h
    rw [hr2, endIdxOf, if_pos this]; exact recAt_neg _
  have hovF : ov = false → r2 = r2s ∧ ov2 = false := by
    intro h
    have : ¬ idxS > E.2 := by simpa [hov] using h
    refine ⟨by rw [hr2, hr2s, endIdxOf, if_neg this], ?_⟩
    rw [hov2, endIdxOf, if_neg this]; simpa using this
  have hout : conceal first last ms = concealEnd last idxS A := by rw [hA, hidx]; rfl
  have ef : last ≠ 0 → _ := fun hl0 => scanEnd_facts first last ms A hD hRecA hl0
  rw [← hE, ← hr2s] at ef
  have G3 : last ≠ 0 → lastRevealed last ms = none → r2.absent = true := by
    intro hl0 hn
    cases ho : ov with
    | true => rw [hovT ho]; rfl
    | false =>
      rw [(hovF ho).1]
      rcases ef hl0 with ⟨_, _, h⟩ | ⟨_, _, _, _, _, _, _, h, _⟩
      · rw [h]; rfl
      · rw [hn] at h; cases h
  have G3ov : ov = true → r2.absent = true := fun ho => by rw [hovT ho]; rfl
  have G4 : last ≠ 0 → ov = false → ∀ rl, lastRevealed last ms = some rl → r2.absent = false ∧ r2.ts = tstamp rl ∧
      (inStart first rl = true → r2.lat = sint32Invalid ∧ r2.long = sint32Invalid) ∧
      (inStart first rl = false → r2.lat = i32 (fval rl fnRecordPositionLat) ∧ r2.long = i32 (fval rl fnRecordPositionLong)) := by
    intro hl0 ho rl hrl
    rw [(hovF ho).1]
    rcases ef hl0 with ⟨h, _⟩ | ⟨X, rl', Y, ems, hrec, _, _, h, _, h2⟩
    · rw [hrl] at h; cases h
    · rw [hrl] at h; cases h
      have hmem : rl ∈ ms := by rw [ems]; simp
      rw [h2]
      refine ⟨rfl, tstamp_hideIf _ _, fun his => ?_, fun his => ?_⟩
      · have : hideIf (inStart first) rl = stripPos rl := by simp [hideIf, hrec, his]
        rw [this]
        exact recInfo_stripPos (hUr' rl hmem hrec).1 (hUr' rl hmem hrec).2
      · have : hideIf (inStart first) rl = rl := by simp [hideIf, his]
        rw [this]; exact ⟨rfl, rfl⟩
  have Gov : first ≠ 0 → last ≠ 0 → ∀ r0 rl, firstRevealed first ms = some r0 → lastRevealed last ms = some rl →
      (ov = false → inEnd last ms r0 = false) := by
    intro hf0 hl0 r0 rl hR0 hRL
    have eidx : idxS = S.2 := by rw [hidx, concealStart_pos hf0, hS]
    rcases sf with ⟨h, _⟩ | ⟨pre0, r0', post0, e0, hpre0, hrec0, hns0, h, hi0, _⟩
    · rw [hR0] at h; cases h
    rw [hR0] at h; cases h
    rcases ef hl0 with ⟨h, _⟩ | ⟨X, rl', Y, ems, hrecl, hiel, hYe, h, hiL, _⟩
    · rw [hRL] at h; cases h
    rw [hRL] at h; cases h
    have hovv : ov = decide (X.length < pre0.length) := by
      rw [hov, eidx, hi0, hiL]
      simp
    have hcmp := split_compare X rl Y pre0 r0 post0 (by rw [← ems, ← e0])
    rcases hcmp with ⟨hlt, mid, e1, e2⟩ | ⟨heq, e1, e2, e3⟩ | ⟨hlt, mid, e1, e2⟩
    · -- the last revealed record lies before the first revealed one: overlap
      intro h
      rw [hovv] at h; simp at h; omega
    · intro _
      rw [← e2]; exact hiel
    · intro _
      · have hle : dist r0 ≤ dist rl :=
          pairwise_pick (R := (· ≤ ·)) hD.2 (X := pre0) (a := r0) (mid := mid) (b := rl) (rest := Y) (by rw [e0, e2]) hrec0 hrecl
        simp only [inEnd, decide_eq_false_iff_not] at hiel ⊢
        omega
  have endInfo : Rel2 (fun m1 m' => (m1.num == ph.mesgNum) = true → (last = 0 → m' = m1) ∧
      (last ≠ 0 → r2.absent = true → m' = strip4 ph m1) ∧
      (last ≠ 0 → r2.absent = false → (r2.ts < lapStartTime ph m1 → m' = strip4 ph m1) ∧
        (lapStartTime ph m1 ≤ r2.ts → m' = rewriteEnd ph r2 ov2 m1 ∨ (m' = m1 ∧ lapEndTime ph m1 ≤ r2.ts))))
      A (conceal first last ms) := by
    rw [hout]
    by_cases hl0 : last = 0
    · rw [hl0, concealEnd_zero]
      exact Rel2.refl (fun a _ => ⟨fun _ => rfl, fun h => absurd rfl h, fun h => absurd rfl h⟩) _
    · have eO : concealEnd last idxS A = (updEndRev sesPH r2 ov2 (updEndRev lapPH r2 ov2 E.1)).reverse := by
        rw [concealEnd_pos hl0, hr2, hov2, hE]
      rw [eO]
      have hsE : Rel2 (SameT ph) ms.reverse E.1 :=
        touch_list_sameT hph (touch2_trans hTouchA.reverse (hE ▸ scanEndRev_touch last A.reverse uint32Invalid))
      have pre : Rel2 (fun a b => isRecord a = false → b = a) A.reverse E.1 := hE ▸ scanEndRev_nonrec last A.reverse uint32Invalid
      cases hab : r2.absent
      · have hvR : ∀ m ∈ ms.reverse, (m.num == ph.mesgNum) = true → lapStartTime ph m ≠ uint32Invalid :=
          fun m hm hn => (hval m (List.mem_reverse.mp hm) hn).1
        have st := endStage_list hph r2 ov2 hab E.1 (2 ^ 32) (lapsSeqRevP_sameT hsE _ hseqR) (hv_transfer hsE hvR)
        have c : Rel2 (EndStageOK ph r2 ov2) A.reverse (updEndRev sesPH r2 ov2 (updEndRev lapPH r2 ov2 E.1)) := by
          refine Rel2.comp ?_ pre st
          intro a b d hp hs' hn
          have := hp (isPh_not_record hph hn)
          subst this
          exact hs' hn
        have c' := c.reverse
        rw [List.reverse_reverse] at c'
        exact Rel2.imp (fun a b h hn => ⟨fun h0 => absurd h0 hl0, fun _ h1 => (by cases h1), fun _ _ => h hn⟩) c'
      · have st := endStage_list_absent hph r2 ov2 hab E.1
        have c : Rel2 (fun m m' => (m.num == ph.mesgNum) = true → m' = strip4 ph m) A.reverse
            (updEndRev sesPH r2 ov2 (updEndRev lapPH r2 ov2 E.1)) := by
          refine Rel2.comp ?_ pre st
          intro a b d hp hs' hn
          have := hp (isPh_not_record hph hn)
          subst this
          exact hs' hn
        have c' := c.reverse
        rw [List.reverse_reverse] at c'
        exact Rel2.imp (fun a b h hn => ⟨fun h0 => absurd h0 hl0, fun _ _ => h hn, fun _ h1 => (by cases h1)⟩) c'
  -- one lap / session at a time
  refine ⟨r1, r2, ov, ?_⟩
  refine Rel2.comp ?_ (Rel2.and (Rel2.and hTouchA startInfo) (Rel2.left_mem hTouchA)) endInfo
  intro m m1 m' ⟨⟨ht, hst⟩, hmem⟩ hen hn
  have hsT := touch_sameT hph ht
  have hn1 : (m1.num == ph.mesgNum) = true := by rw [hsT.isPh]; exact hn
  obtain ⟨hs0, hsN⟩ := hst hn
  obtain ⟨he0, heA, heN⟩ := hen hn1
  obtain ⟨_, _, hvm⟩ := hval m hmem hn
  refine ⟨m1,
    { endLt := ?_, s1 := hsT.start, e1 := hsT.endT, start0 := hs0, startNone := G1, startSome := G2, start := hsN,
      end0 := he0, endNone := fun hl0 hnone => heA hl0 (G3 hl0 hnone), endOv := fun hl0 ho => heA hl0 (G3ov ho),
      endSome := ?_, ovF := fun hf0 hl0 r0 rl h0 hl => Gov hf0 hl0 r0 rl h0 hl }⟩
  · have hdiv : u32 (fval m ph.totalTimerTime) / timerScale ≤ u32 (fval m ph.totalTimerTime) := Nat.div_le_self _ _
    have he : lapEndTime ph m = lapStartTime ph m + u32 (fval m ph.totalTimerTime) / timerScale := rfl
    omega
  · intro hl0 ho rl hrl
    obtain ⟨hab, hts, hin, hout'⟩ := G4 hl0 ho rl hrl
    obtain ⟨hc, hdd⟩ := heN hl0 hab
    rw [(hovF ho).2] at hdd
    exact ⟨hts, hin, hout', hc, hdd⟩

/-- **No lap or session position points into a concealed stretch**, outside the class of KF-C20-1 (F17): what the two
stages do to each lap / session (`conceal_stages`) leaves no position pointing into a stretch (`lapOK_of_stages`). -/
theorem conceal_noLeak {ph : PH} (hph : ph = lapPH ∨ ph = sesPH) (first last : Nat) (ms : List Message)
    (hD : DistOK ms) (hseq : lapsSeqB ph ms = true)
    (hUr : recUniqueB ms = true) (hUl : lapUniqueB ph ms = true) (hF : unitsDisagree ph first ms = false) :
    noLeakB ph first last ms (conceal first last ms) = true := by
  obtain ⟨r1, r2, ov, hst⟩ := conceal_stages hph first last ms hD hseq hUr hF
  have hd := phDistinct hph
  have final : Rel2 (fun m m' => (!(m.num == ph.mesgNum) || lapOK ph first last ms m m') = true) ms (conceal first last ms) := by
    refine Rel2.imp ?_ (Rel2.and hst (Rel2.left_mem hst))
    intro m m' ⟨h, hmem⟩
    cases hn : (m.num == ph.mesgNum)
    · rfl
    simp only [Bool.not_true, Bool.false_or]
    obtain ⟨m1, sg⟩ := h hn
    have := List.all_eq_true.mp hUl m hmem
    simp only [hn, Bool.not_true, Bool.false_or, uniqueNumB, Bool.and_eq_true, decide_eq_true_eq] at this
    exact lapOK_of_stages hd sg ⟨this.1.1.1, this.1.1.2, this.1.2, this.2⟩
  exact Rel2.zip_all (p := fun m m' => !(m.num == ph.mesgNum) || lapOK ph first last ms m m') final

/-- strictly increasing record timestamps exclude the class of KF-C20-4 (so the statement under `recTimesIncB`, as it
was first proved, follows from `conceal_noLeak`) -/
theorem overlapTie_false_of_inc (first last : Nat) (ms : List Message) (hD : DistOK ms) (hT : recTimesIncB ms = true) :
    overlapTie first last ms = false := by
  have hTp : ((ms.filter isRecord).map tstamp).Pairwise (· < ·) := sortedLtB_pairwise _ hT
  unfold overlapTie
  cases h0 : firstRevealed first ms with
  | none => simp
  | some r0 =>
    cases hl : lastRevealed last ms with
    | none => simp
    | some rl =>
      simp only
      cases hie : inEnd last ms r0 with
      | false => simp
      | true =>
        have hlt : tstamp rl < tstamp r0 := by
          obtain ⟨hp0, pre0, post0, e0, _⟩ := List.find?_eq_some_iff_append.mp h0
          obtain ⟨hpl, as, bs, el, _⟩ := List.find?_eq_some_iff_append.mp hl
          have ems : ms = bs.reverse ++ rl :: as.reverse := by
            have := congrArg List.reverse el
            simpa using this
          simp only [Bool.and_eq_true, Bool.not_eq_true'] at hp0 hpl
          rcases split_compare bs.reverse rl as.reverse pre0 r0 post0 (by rw [← ems, ← e0]) with
            ⟨_, mid, _, e2⟩ | ⟨_, _, e2, _⟩ | ⟨_, mid, e1, e2⟩
          · exact pairwise_pick hTp (X := bs.reverse) (a := rl) (mid := mid) (b := r0) (rest := post0) (by rw [ems, e2]) hpl.1 hp0.1
          · rw [e2] at hpl; rw [hpl.2] at hie; cases hie
          · have hle : dist r0 ≤ dist rl :=
              pairwise_pick (R := (· ≤ ·)) hD.2 (X := pre0) (a := r0) (mid := mid) (b := rl) (rest := as.reverse)
                (by rw [e0, e2]) hp0.1 hpl.1
            have h1 := hpl.2
            simp only [inEnd, decide_eq_false_iff_not, decide_eq_true_eq] at h1 hie
            omega
        simp [hlt]

end Fit.Activity
