import FitProps.EndToEndLemmas
/-!
Rule (c) of the normal form (DESIGN §3 C01) taken apart: `Fit.E2E.strictValue` keeps the empty segments of a string array in
place; outside the class `kfEmptyV` it is `normalValue`, hence the round-trip theorem holds with it there.
-/
set_option linter.unusedSimpArgs false
namespace Fit.E2E
open Fit.Gen Fit.Value Fit.Utf8 Fit.DecApi Fit.Msg

theorem filter_nonempty_id (l : List (List Nat)) (h : l.any (·.isEmpty) = false) : l.filter (fun s => !s.isEmpty) = l := by
  apply List.filter_eq_self.mpr
  intro s hs
  have := List.any_eq_false.mp h s hs
  simpa using this

/-- outside the class, the strict normal form is the normal form -/
theorem strict_eq_normal (bt : Nat) (ib arr : Bool) (v : Value) (h : kfEmptyV bt ib arr v = false) :
    strictValue bt ib arr v = normalValue bt ib arr v := by
  unfold strictValue
  split
  · rename_i hc
    obtain ⟨hbt, harr, hs⟩ := hc
    subst hbt
    subst harr
    simp only [kfEmptyV, beq_self_eq_true, hs, Bool.true_and] at h
    -- the normal form is the list of the non-empty segments
    have hn : normalValue btString ib true v = .sliceString ((segments v).filter (fun s => !s.isEmpty)) := by
      cases v <;> simp [isStr] at hs
      case string s =>
        simp [normalValue, pieces, segments, strData, marshal]
      case sliceString vs =>
        simp only [normalValue, if_true, pieces, segments, strData, marshal, Option.getD_some]
        by_cases hv : vs.isEmpty = true
        · have : vs = [] := by simpa using hv
          subst this
          simp [splitNul]
        · simp only [hv, Bool.false_eq_true, if_false]
          rw [splitNul_flatMap_strBytes]
    rw [hn]
    by_cases h1 : segments v = [[]]
    · simp [h1]
    · have h1' : (segments v == [[]]) = false := by simpa using h1
      simp only [h1', bne_iff_ne, ne_eq, Bool.false_eq_true, if_false]
      have h2 : (segments v).any (·.isEmpty) = false := by
        simpa [h1] using h
      rw [filter_nonempty_id _ h2]
  · rfl

theorem seqMatches_strict (fac : Factory) (arch : Nat) : ∀ (kept : List Message) (vst : Fit.Validator.State) (ns : List NMsg),
    seqClass kfEmptyV fac vst kept = false →
    seqMatches normalValue false fac arch vst kept ns = true → seqMatches strictValue false fac arch vst kept ns = true := by
  intro kept
  induction kept with
  | nil => intro vst ns _ h; cases ns <;> simpa [seqMatches] using h
  | cons m ms ih =>
    intro vst ns hc h
    cases ns with
    | nil => simp [seqMatches] at h
    | cons n ns =>
      simp only [seqClass, Bool.or_eq_false_iff, List.any_eq_false] at hc
      simp only [seqMatches, Bool.and_eq_true] at h ⊢
      refine ⟨?_, ih _ ns hc.2 h.2⟩
      have hfe : ∀ fs : List Field, (∀ f ∈ fs, f ∈ m.fields) →
          fs.filterMap (fieldBack strictValue false fac m.num) = fs.filterMap (fieldBack normalValue false fac m.num) := by
        intro fs hsub
        apply filterMap_congr'
        intro f hf
        have hcf := hc.1.1 f (hsub f hf)
        simp only [fieldClass, Bool.not_eq_true] at hcf
        unfold fieldBack
        cases hb : f.base with
        | none => rfl
        | some b =>
          simp only [hb] at hcf
          simp only [Bool.false_eq_true, false_and, if_false]
          rw [strict_eq_normal _ _ _ _ hcf]
      have hde : m.devFields.filterMap (devBack strictValue false (Fit.Validator.remember vst m.num m.fields).fds) =
          m.devFields.filterMap (devBack normalValue false (Fit.Validator.remember vst m.num m.fields).fds) := by
        apply filterMap_congr'
        intro d hd
        have hcd := hc.1.2 d hd
        simp only [devClass, Bool.not_eq_true] at hcd
        unfold devBack
        cases hl : Fit.Validator.lookupFd (Fit.Validator.remember vst m.num m.fields).fds d with
        | none => rfl
        | some fd =>
          simp only [hl] at hcd
          simp only [Bool.false_eq_true, false_and, if_false]
          rw [strict_eq_normal _ _ _ _ hcd]
      have : msgVariants strictValue false fac arch (Fit.Validator.remember vst m.num m.fields).fds m =
          msgVariants normalValue false fac arch (Fit.Validator.remember vst m.num m.fields).fds m := by
        simp only [msgVariants, hfe m.fields (fun f hf => hf), hfe (removeTs m.fields) (mem_removeTs m.fields), hde]
      rw [this]; exact h.1

end Fit.E2E
