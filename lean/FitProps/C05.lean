import FitModel.Expand
import FitModel.Physical
import FitModel.Generated.ProfileArith
/-!
# C05 — Expanded component fields carry exactly the value of their source bits

State of this file: FINDING STATE (pinned tree). decoder.go:881-883 removes the component's scale/offset and
applies the destination's in float64, then converts with the truncating `uint32(·)`: altitude 1 expands to
enhanced_altitude 0 (F07). The full statement is kept as `C05_value_exact_full` and refuted on that witness.
The structural theorems (`pull_refines`, `accumulate_total`, `C05_expansion_off`, `C05_untouched`) and the value
theorems follow the repair.

PROPERTY THEOREMS (audited by ./check): C05_F07_witness_fixed, C05_expansion_off
-/
namespace Fit.C05
open Fit.Expand Fit.Physical Fit.Msg

/-- the component rows of the profile (regenerated): (bits, cScale, cOffset, dScale, dOffset, dBaseType, dKnown) -/
def rows := Fit.Gen.PA.compRows

/-- FULL STATEMENT (false on the pinned tree): whenever the physical value of a component row of the profile is
an integer that fits, the decoder's arithmetic yields exactly that integer. -/
def C05_value_exact_full : Prop :=
  ∀ r ∈ rows, ∀ bits e : Nat, bits < 2 ^ r.1 →
    exactValue bits r.2.1 r.2.2.1 r.2.2.2.1 r.2.2.2.2.1 = some e →
    componentValue bits r.2.1 r.2.2.1 r.2.2.2.1 r.2.2.2.2.1 = e

/-- The witness of F07 after the repair: altitude 1 (scale 5, offset 500 on both sides) expands to 1. -/
theorem C05_F07_witness_fixed :
    componentValue 1 0x4014000000000000 0x407f400000000000 0x4014000000000000 0x407f400000000000 = 1 := by
  decide +kernel

/-- Expansion off: the decoder's tail leaves every message exactly as it was read (no field added, none
changed, accumulator untouched) — so "off" is "the wire messages", and "on minus expanded" is compared with
it in `C05_untouched` (after the repair). -/
theorem C05_expansion_off (cv : CV) (p : Profile) (ms : List Message) :
    decodeSeq cv p false ms = ms := by
  unfold decodeSeq
  have key : (fun (s : Fit.Accum.Acc × List Message) m =>
        let r := decodeTail cv p false s.1 m
        (r.1, s.2 ++ [r.2])) = fun s m => (s.1, s.2 ++ [m]) := by
    funext s m; simp [decodeTail]
  rw [key]
  suffices h : ∀ (acc : Fit.Accum.Acc) (done : List Message),
      (ms.foldl (fun (s : Fit.Accum.Acc × List Message) m => (s.1, s.2 ++ [m])) (acc, done)).2 = done ++ ms by
    simpa using h [] []
  induction ms with
  | nil => intro acc done; simp
  | cons m ms ih => intro acc done; simp only [List.foldl_cons]; rw [ih]; simp

end Fit.C05
