import FitProps.C05Lemmas
import FitProps.BitsLemmas
import FitProps.AccumLemmas
import FitProps.ExpandLemmas
import FitModel.Generated.ProfileArith
import FitModel.ExpandSpec
/-!
# C05 — Expanded component fields carry exactly the value of their source bits

The model: `FitModel/Bits.lean` (decoder/bits.go), `FitModel/Accum.lean` (decoder/accumulator.go),
`FitModel/Expand.lean` (expandComponents and the tail of decodeFields, over the regenerated profile),
the specification `FitModel/Physical.lean` (exact rational physical value, bit slices of the containing value as
one natural number).

After the repair of F07 (/repo 1e2d662) the value statements hold in full for every component row of the
regenerated profile (`C05_value_exact`, `C05_value_within_one`).

PROPERTY THEOREMS (audited by ./check): C05_pull_refines, C05_pull_in_order, C05_store_of_value, C05_accumulate_total_partial,
C05_rows_in_range, C05_profile_depth, C05_value_exact, C05_value_within_one, C05_expansion_off, C05_untouched, C05_on_minus_expanded,
C05_F07_witness_fixed
-/
namespace Fit.C05
open Fit.Expand Fit.Physical Fit.Msg Fit.C05L Fit.C12L Fit.F64

/-! ### bit slices -/

/-- **pull_refines.** A store of uint64 words denotes the natural number Σ wᵢ·2^(64i) (for an array: the
little-endian concatenation of its elements). `Pull(n)` for `n ≤ 64` leaves the store denoting that number shifted right by
`n` bits, and for `n ≤ 32` (every component of the profile) returns the number modulo 2^n — for any number of words
(the decoder has 32: 2048 bits). -/
theorem C05_pull_refines (ws : List Nat) (hws : Fit.Bits.WF ws) (n : Nat) (hn : n ≤ 64) :
    Fit.Bits.toNat (Fit.Bits.pull ws n).2 = Fit.Bits.toNat ws / 2 ^ n ∧
      (n ≤ 32 → (Fit.Bits.pull ws n).1 = Fit.Bits.toNat ws % 2 ^ n) :=
  Fit.Bits.pull_refines ws hws n hn

/-- **slices are taken in order from the least significant bit**: the second of two successive pulls returns bits
`n₁ … n₁+n₂−1` of the containing value, i.e. `sliceAt value n₁ n₂`. -/
theorem C05_pull_in_order (ws : List Nat) (hws : Fit.Bits.WF ws) (n1 n2 : Nat) (h1 : n1 ≤ 32) (h2 : n2 ≤ 32)
    (hwf : Fit.Bits.WF (Fit.Bits.pull ws n1).2) :
    (Fit.Bits.pull (Fit.Bits.pull ws n1).2 n2).1 = sliceAt (Fit.Bits.toNat ws) n1 n2 :=
  Fit.Bits.pull_pull ws hws n1 n2 h1 h2 hwf

/-- **the store of a (possibly array) value is the containing value as one natural number**: `makeBits` of an unsigned
scalar, or of an array of unsigned elements of 1/2/4/8 bytes that fits the 256 bytes of the store, denotes
`containerNat` (little-endian concatenation, element 0 least significant) and consists of uint64 words — so by
`C05_pull_refines` / `C05_pull_in_order` the k-th component is `sliceAt (containerNat value) offₖ bitsₖ`, across element
boundaries and for any array length up to the capacity. (Signed elements are sign-extended into the neighbouring bits
by the Go code; no container of the profile is signed.) -/
theorem C05_store_of_value (v : Value.Value) (ws : List Nat) (h : Fit.Bits.makeBits v = some ws)
    (hv : match v with
      | .uint8 _ | .uint16 _ | .uint32 _ | .uint64 _ => True
      | .sliceUint8 xs => xs.length ≤ 256 | .sliceUint16 xs => 2 * xs.length ≤ 256
      | .sliceUint32 xs => 4 * xs.length ≤ 256 | .sliceUint64 xs => 8 * xs.length ≤ 256
      | _ => False) :
    some (Fit.Bits.toNat ws) = containerNat v ∧ Fit.Bits.WF ws :=
  Fit.Bits.makeBits_container v ws h hv

/-! ### accumulation -/

/-- the full statement about accumulation (OPEN: KF-C05-2): over every history of messages of one sequence, every
accumulating destination's expanded value is the running total of the specification (`ExpandSpec.specSeq`: the total a
wire value of the destination seeds, converted exactly into the component's units, advanced by the wrapping-counter
delta of every sample). It is FALSE on the pinned tree: `decodeFields` collects the wire value of record.distance in
1/100 m and `expandComponents` then accumulates compressed_speed_distance samples counted in 1/16 m on top of it
(witness: corpus/expand.txt, 641000 instead of 103400). -/
def C05_accumulate_total_full : Prop :=
  ∀ ms out, Fit.ExpandSpec.specSeq componentValue Fit.Gen.PA.mesgs ms = some out →
    decodeSeq componentValue Fit.Gen.PA.mesgs true ms = out

/-- **accumulate_total (partial: `Accumulate` alone, from a table that does not hold the key).** A counter of `w ≤ 32`
bits with true totals `t₀ ≤ t₁ ≤ …` (each step shorter than its period 2^w) is observed modulo 2^w. Starting from a
table that does not hold the key (a new sequence, or after `Reset`; in particular NO wire value of the destination was
collected — the class of KF-C05-2 is excluded by `habs`), the i-th `Accumulate` returns `(t₀ mod 2^w) + (tᵢ − t₀)` in
uint32 arithmetic: the running total that the wrapping counter represents. -/
theorem C05_accumulate_total_partial (w : Nat) (hw : w ≤ 32) (a : Fit.Accum.Acc) (m f t0 : Nat) (ts : List Nat)
    (habs : Fit.Accum.lookup a m f = none) (hsteps : Fit.Accum.Steps w t0 ts) :
    (Fit.Accum.runAcc a m f w ((t0 :: ts).map (· % 2 ^ w))).1 =
      (t0 :: ts).map fun t => (t0 % 2 ^ w + (t - t0)) % Fit.Accum.U32 :=
  Fit.Accum.accumulate_total w hw a m f t0 ts habs hsteps

/-- non-vacuity: an 8-bit counter passing 250 → 260 → 300 (seen as 250, 4, 44) accumulates to 250, 260, 300 -/
example : (Fit.Accum.runAcc [] 20 19 8 [250, 4, 44]).1 = [250, 260, 300] := by decide

/-! ### values -/

/-- the component rows of the profile (regenerated): (bits, cScale, cOffset, dScale, dOffset, dBaseType, dKnown) -/
def rows := Fit.Gen.PA.compRows

/-- **side conditions, checked against the regenerated profile:** every component is at most 16 bits wide, every
component and destination scale is a positive normal number in [1/2, 2^17), every offset is below 2^10 in magnitude,
every destination is a field the factory knows. -/
theorem C05_rows_in_range :
    ∀ r ∈ rows, r.1 ≤ 16 ∧ rangeOK r.2.1 r.2.2.1 = true ∧ rangeOK r.2.2.2.1 r.2.2.2.2.1 = true ∧ r.2.2.2.2.2.2 = true := by
  decide +kernel

/-- **C05_value_exact.** For every component row of the profile and every value of its bits: whenever the physical
value `((bits/cScale − cOffset) + dOffset) × dScale` is an integer that fits a uint32 (`exactValue` of the
specification), the decoder's arithmetic yields exactly that integer — in particular whenever component and
destination share scale and offset. -/
theorem C05_value_exact (r) (hr : r ∈ rows) (bits e : Nat) (hb : bits < 2 ^ r.1)
    (hex : exactValue bits r.2.1 r.2.2.1 r.2.2.2.1 r.2.2.2.2.1 = some e) :
    componentValue bits r.2.1 r.2.2.1 r.2.2.2.1 r.2.2.2.2.1 = e := by
  obtain ⟨h16, hc, hd, _⟩ := C05_rows_in_range r hr
  have hbits : bits ≤ 2 ^ 16 := le_of_lt (lt_of_lt_of_le hb (Nat.pow_le_pow_right (by norm_num) h16))
  obtain ⟨he32, CS, CO, DS, DO, f1, f2, f3, f4, hphys⟩ := exactValue_spec _ _ _ _ _ _ hex
  obtain ⟨CS', CO', DS', DO', g1, g2, g3, g4, hval⟩ := comp_value bits hbits _ _ _ _ hc hd
  have e1 := isFin_unique _ _ _ g1 f1
  have e2 := isFin_unique _ _ _ g2 f2
  have e3 := isFin_unique _ _ _ g3 f3
  have e4 := isFin_unique _ _ _ g4 f4
  subst e1 e2 e3 e4
  have heq : ((e : Nat) : ℚ) = ((e : Int) : ℚ) := by norm_cast
  have h0 : (0 : ℚ) ≤ ((bits : ℚ) / CS' - CO' + DO') * DS' := by rw [hphys]; positivity
  have h32 : ((bits : ℚ) / CS' - CO' + DO') * DS' ≤ 2 ^ 32 - 1 := by
    rw [hphys]
    have : (e : ℚ) ≤ ((4294967295 : Nat) : ℚ) := by exact_mod_cast (by omega : e ≤ 4294967295)
    norm_num at this ⊢; exact this
  have := (hval h0 h32).2 (e : Int) (by rw [hphys]; norm_cast)
  exact_mod_cast this

/-- **C05_value_within_one.** For every component row and every value of its bits whose physical value lies in
`[0, 2^32 − 1]`, the expanded value is within one unit of the destination's resolution of the physical value
(`withinOne` of the specification) — whether or not that value is an integer. -/
theorem C05_value_within_one (r) (hr : r ∈ rows) (bits : Nat) (hb : bits < 2 ^ r.1) (q : Q)
    (hq : phys bits r.2.1 r.2.2.1 r.2.2.2.1 r.2.2.2.2.1 = some q)
    (h0 : 0 ≤ q.num) (h32 : q.num ≤ (2 ^ 32 - 1) * (q.den : Int)) :
    withinOne (componentValue bits r.2.1 r.2.2.1 r.2.2.2.1 r.2.2.2.2.1) bits r.2.1 r.2.2.1 r.2.2.2.1 r.2.2.2.2.1 = true := by
  obtain ⟨h16, hc, hd, _⟩ := C05_rows_in_range r hr
  have hbits : bits ≤ 2 ^ 16 := le_of_lt (lt_of_lt_of_le hb (Nat.pow_le_pow_right (by norm_num) h16))
  obtain ⟨hden, CS, CO, DS, DO, f1, f2, f3, f4, hphys⟩ := phys_spec _ _ _ _ _ q hq
  obtain ⟨CS', CO', DS', DO', g1, g2, g3, g4, hval⟩ := comp_value bits hbits _ _ _ _ hc hd
  have e1 := isFin_unique _ _ _ g1 f1
  have e2 := isFin_unique _ _ _ g2 f2
  have e3 := isFin_unique _ _ _ g3 f3
  have e4 := isFin_unique _ _ _ g4 f4
  subst e1 e2 e3 e4
  have hdq : (0 : ℚ) < (q.den : ℚ) := by exact_mod_cast Nat.pos_of_ne_zero hden
  have hnn : (0 : ℚ) ≤ toRat q := by
    unfold toRat; apply div_nonneg _ hdq.le; exact_mod_cast h0
  have hle : toRat q ≤ 2 ^ 32 - 1 := by
    unfold toRat; rw [div_le_iff₀ hdq]
    have : ((q.num : Int) : ℚ) ≤ (((2 ^ 32 - 1) * (q.den : Int) : Int) : ℚ) := by exact_mod_cast h32
    push_cast at this; linarith
  rw [hphys] at hnn hle
  have := (hval hnn hle).1
  rw [← hphys] at this
  exact withinOne_of _ _ _ _ _ _ q hq hden this

/-- non-vacuity of the value theorems: the rows of the former F07 witnesses are rows of the profile; the physical value
of speed 1001 (scale 1000 on both sides) is the integer 1001 and that of compressed distance 3 (scale 16 → 100) is
18.75, which is not an integer -/
example : (16, 0x4014000000000000, 0x407f400000000000, 0x4014000000000000, 0x407f400000000000, 134, true) ∈ rows ∧
    exactValue 1001 0x408f400000000000 0 0x408f400000000000 0 = some 1001 ∧
    exactValue 3 0x4030000000000000 0 0x4059000000000000 0 = none ∧
    withinOne 19 3 0x4030000000000000 0 0x4059000000000000 0 = true := by decide +kernel

/-- The witness of F07 after the repair: altitude 1 (scale 5, offset 500 on both sides) expands to 1. -/
theorem C05_F07_witness_fixed :
    componentValue 1 0x4014000000000000 0x407f400000000000 0x4014000000000000 0x407f400000000000 = 1 := by
  decide +kernel

/-! ### expansion off -/

/-- **Expansion off**: the decoder's tail leaves every message exactly as it was read (no field added, none changed,
the accumulator untouched) — "off" is "the wire messages". -/
theorem C05_expansion_off (cv : CV) (p : Profile) (ms : List Message) :
    decodeSeq cv p false ms = ms := by
  unfold decodeSeq
  have key : (fun (s : Fit.Accum.Acc × List Message) m =>
        let r := decodeTail cv p false s.1 m
        (r.1, s.2 ++ [r.2])) = fun s m => (s.1, s.2 ++ [m]) := by
    funext s m; simp [decodeTail]
  rw [key]
  suffices h : ∀ (acc : Fit.Accum.Acc) (done : List Message),
      (ms.foldl (fun (s : Fit.Accum.Acc × List Message) m => (s.1, s.2 ++ [m])) (acc, done)).2 = done ++ ms by
    simpa using h [] []
  induction ms with
  | nil => intro acc done; simp
  | cons m ms ih => intro acc done; simp only [List.foldl_cons]; rw [ih]; simp

/-! ### recursion depth of the profile -/

/-- the components reachable from field `num` nest at most `k` levels deep -/
def depthLe (p : Profile) (mesgNum : Nat) : Nat → Nat → Bool
  | 0, _ => false
  | k + 1, num =>
    match lookup p mesgNum num with
    | none => true
    | some f => (f.comps ++ f.subs.flatMap (·.comps)).all fun c => depthLe p mesgNum k c.fieldNum

/-- **side condition of the model's fuel**, checked against the regenerated profile: no field of a message that owns
components nests its expansions deeper than 3 levels (the model recurses with fuel 8, so its fuel never runs out on this
profile; the Go code has no bound). -/
theorem C05_profile_depth :
    ∀ e ∈ Fit.Gen.PA.mesgs, ∀ f ∈ e.2, depthLe Fit.Gen.PA.mesgs e.1 4 f.num = true := by
  decide +kernel

/-! ### expansion on: what may change -/

/-- **C05_untouched.** Whatever the arithmetic of a component (`cv`), the factory (`p`), the state of the accumulator
and the message: after expansion every wire field is still at its position with the same `FieldBase` and the same
`IsExpandedField` flag; its value is unchanged unless its number is the destination of a component this message can expand
(field- or sub-field-level, transitively: `destsOf`); and every field beyond the wire fields is flagged expanded.
The message number and the developer fields are untouched. -/
theorem C05_untouched (cv : CV) (p : Profile) (acc : Fit.Accum.Acc) (m : Message) :
    Inv (destsOf p m.num) m.fields (decodeTail cv p true acc m).2.fields ∧
      (decodeTail cv p true acc m).2.num = m.num ∧ (decodeTail cv p true acc m).2.devFields = m.devFields :=
  decodeTail_inv cv p true acc m

/-- **Expansion off = on minus the expanded fields** (with the carve-out of the property for destinations present on the
wire): if no wire field is flagged expanded, then dropping the flagged fields from the expanded message leaves exactly
as many fields as were read, each with its `FieldBase`, and each equal to the wire field unless its number is a
destination. -/
theorem C05_on_minus_expanded (cv : CV) (p : Profile) (acc : Fit.Accum.Acc) (m : Message)
    (hw : ∀ f ∈ m.fields, f.isExpanded = false) :
    let on := (decodeTail cv p true acc m).2.fields
    on.take m.fields.length = on.filter (!·.isExpanded) ∧
      (on.filter (!·.isExpanded)).length = m.fields.length := by
  intro on
  have hinv : Inv (destsOf p m.num) m.fields on := (decodeTail_inv cv p true acc m).1
  clear_value on
  obtain ⟨hlen, hkeep, hext⟩ := hinv
  have hsplit : on = on.take m.fields.length ++ on.drop m.fields.length := (List.take_append_drop _ _).symm
  have htake : ∀ f ∈ on.take m.fields.length, f.isExpanded = false := by
    intro f hf
    obtain ⟨i, hi, rfl⟩ := List.getElem_of_mem hf
    have hi' : i < m.fields.length := by
      have := List.length_take_le m.fields.length on; omega
    obtain ⟨f', hf', _, hx, _⟩ := hkeep i m.fields[i] (by simp [hi'])
    have : (on.take m.fields.length)[i] = f' := by
      have h2 : i < on.length := by omega
      have h3 : on[i]? = some f' := hf'
      rw [List.getElem?_eq_getElem h2] at h3
      rw [List.getElem_take]
      exact Option.some.inj h3
    rw [this, hx]
    exact hw _ (List.getElem_mem hi')
  have hdrop : ∀ f ∈ on.drop m.fields.length, f.isExpanded = true := by
    intro f hf
    obtain ⟨i, hi, rfl⟩ := List.getElem_of_mem hf
    have hi2 : m.fields.length + i < on.length := by
      have := List.length_drop (i := m.fields.length) (l := on); omega
    have : (on.drop m.fields.length)[i] = on[m.fields.length + i] := by simp
    rw [this]
    exact hext (m.fields.length + i) _ (by omega) (by rw [List.getElem?_eq_getElem hi2])
  have hf1 : (on.take m.fields.length).filter (!·.isExpanded) = on.take m.fields.length :=
    List.filter_eq_self.mpr (fun f hf => by simp [htake f hf])
  have hf2 : (on.drop m.fields.length).filter (!·.isExpanded) = [] :=
    List.filter_eq_nil_iff.mpr (fun f hf => by simp [hdrop f hf])
  have hfilter : on.filter (!·.isExpanded) = on.take m.fields.length := by
    conv_lhs => rw [hsplit]
    rw [List.filter_append, hf1, hf2, List.append_nil]
  refine ⟨hfilter.symm, ?_⟩
  rw [hfilter, List.length_take]; omega

end Fit.C05
