import FitProps.C05Lemmas
import FitProps.BitsLemmas
import FitProps.AccumLemmas
import FitProps.ExpandLemmas
import FitProps.ExpandSpecLemmas
import FitModel.Generated.ProfileArith
import FitModel.ExpandSpec
/-!
# C05 — Expanded component fields carry exactly the value of their source bits

The model: `FitModel/Bits.lean` (decoder/bits.go), `FitModel/Accum.lean` (decoder/accumulator.go),
`FitModel/Expand.lean` (expandComponents and the tail of decodeFields, over the regenerated profile),
the specification `FitModel/Physical.lean` (exact rational physical value, bit slices of the containing value as
one natural number).

The SPECIFICATION of the expansion of whole messages and histories is `FitModel/ExpandSpec.lean` (`specSeq`: slices
of the containing value as one natural number at the running bit offset, running totals per (message, destination)
seeded by exactly converted wire values and advanced by the wrapping-counter delta, destination look-up in the
regenerated profile, replace-or-append at the last field with the destination's number, depth-first recursion through
the destinations' components and sub-fields) — written without the decoder's bit store, accumulator table and loops.
`C05_expansion_fields_partial` proves that the model of `decodeFields`' tail computes exactly that function for every
history of messages; `C05_expansion_values` that the arithmetic plugged into it yields the exact physical value
wherever that is an integer in the uint32 range, and a value within one unit otherwise, for every slice or total below 2^32.

After the repair of F07 (/repo 1e2d662) the value statements hold in full for every component row of the
regenerated profile (`C05_value_exact`, `C05_value_within_one`). OPEN: KF-C05-2 (the decoder seeds its accumulator
with the wire value of record.distance in 1/100 m and accumulates compressed_speed_distance samples counted in 1/16 m on
top of it): `C05_expansion_fields_partial` excludes exactly those histories (`seedsOtherUnit`), `C05_KF2_witness`
refutes the full statement.

PROPERTY THEOREMS (audited by ./check): C05_pull_refines, C05_pull_in_order, C05_store_of_value, C05_running_total,
C05_rows_in_range, C05_rows_cover, C05_profile_depth, C05_profile_table, C05_seed_exact, C05_value_exact, C05_value_within_one, C05_dest_representable, C05_dest_types,
C05_expansion_values, C05_expansion_fields_partial, C05_expansion_property_partial, C05_KF2_witness, C05_expansion_off,
C05_untouched, C05_on_minus_expanded, C05_F07_witness_fixed
-/
namespace Fit.C05
open Fit.Expand Fit.Physical Fit.Msg Fit.C05L Fit.C12L Fit.F64 Fit.Gen
open Fit.ExpandSpec (specSeq seedsOtherUnit advance runTotals)

/-! ### bit slices -/

/-- **pull_refines.** A store of uint64 words denotes the natural number Σ wᵢ·2^(64i) (for an array: the
little-endian concatenation of its elements). `Pull(n)` for `n ≤ 64` leaves the store denoting that number shifted right by
`n` bits, and for `n ≤ 32` (every component of the profile) returns the number modulo 2^n — for any number of words
(the decoder has 32: 2048 bits). -/
theorem C05_pull_refines (ws : List Nat) (hws : Fit.Bits.WF ws) (n : Nat) (hn : n ≤ 64) :
    Fit.Bits.toNat (Fit.Bits.pull ws n).2 = Fit.Bits.toNat ws / 2 ^ n ∧
      (n ≤ 32 → (Fit.Bits.pull ws n).1 = Fit.Bits.toNat ws % 2 ^ n) :=
  Fit.Bits.pull_refines ws hws n hn

/-- **slices are taken in order from the least significant bit**: the second of two successive pulls returns bits
`n₁ … n₁+n₂−1` of the containing value, i.e. `sliceAt value n₁ n₂`. -/
theorem C05_pull_in_order (ws : List Nat) (hws : Fit.Bits.WF ws) (n1 n2 : Nat) (h1 : n1 ≤ 32) (h2 : n2 ≤ 32)
    (hwf : Fit.Bits.WF (Fit.Bits.pull ws n1).2) :
    (Fit.Bits.pull (Fit.Bits.pull ws n1).2 n2).1 = sliceAt (Fit.Bits.toNat ws) n1 n2 :=
  Fit.Bits.pull_pull ws hws n1 n2 h1 h2 hwf

/-- **the store of a (possibly array) value is the containing value as one natural number**: `makeBits` of an unsigned
scalar, or of an array of unsigned elements of 1/2/4/8 bytes that fits the 256 bytes of the store, denotes
`containerNat` (little-endian concatenation, element 0 least significant) and consists of uint64 words — so by
`C05_pull_refines` / `C05_pull_in_order` the k-th component is `sliceAt (containerNat value) offₖ bitsₖ`, across element
boundaries and for any array length up to the capacity. (Signed elements are sign-extended into the neighbouring bits
by the Go code; no container of the profile is signed.) -/
theorem C05_store_of_value (v : Value.Value) (ws : List Nat) (h : Fit.Bits.makeBits v = some ws)
    (hv : match v with
      | .uint8 _ | .uint16 _ | .uint32 _ | .uint64 _ => True
      | .sliceUint8 xs => xs.length ≤ 256 | .sliceUint16 xs => 2 * xs.length ≤ 256
      | .sliceUint32 xs => 4 * xs.length ≤ 256 | .sliceUint64 xs => 8 * xs.length ≤ 256
      | _ => False) :
    some (Fit.Bits.toNat ws) = containerNat v ∧ Fit.Bits.WF ws :=
  Fit.Bits.makeBits_container v ws h hv

/-! ### accumulation -/

/-- **running total of a wrapping counter** (what `ExpandSpec.advance` means). A counter of `w` bits whose true totals
are `t ≤ t₁ ≤ t₂ ≤ …`, each step shorter than its period 2^w, is observed modulo 2^w only. Starting from the total
`t` (a seed, or the first reading), the totals the specification keeps (`runTotals`: each sample advances the total to
the least total not below it that a `w`-bit counter showing the sample can stand for) are exactly `t₁, t₂, …` — for any
width and any number of samples. (How the decoder's accumulator follows these totals over whole histories of messages
is `C05_expansion_fields_partial`.) -/
theorem C05_running_total (w t : Nat) (ts : List Nat) (hsteps : Fit.Accum.Steps w t ts) :
    runTotals t w (ts.map (· % 2 ^ w)) = ts :=
  Fit.ExpandSpec.runTotals_true w ts t hsteps

/-- non-vacuity: an 8-bit counter passing 250 → 260 → 300 → 700 (seen as 4, 44, 188) from the total 250 -/
example : Fit.Accum.Steps 8 250 [260, 300, 500] ∧ runTotals 250 8 [4, 44, 244] = [260, 300, 500] :=
  ⟨by simp [Fit.Accum.Steps], by decide⟩

/-! ### values -/

/-- the component rows of the profile (regenerated): (bits, cScale, cOffset, dScale, dOffset, dBaseType, dKnown) -/
def rows := Fit.Gen.PA.compRows

/-- **side conditions, checked against the regenerated profile:** every component is at most 16 bits wide, every
component and destination scale is a positive normal number in [1/2, 2^17), every offset is below 2^10 in magnitude,
every destination is a field the factory knows. -/
theorem C05_rows_in_range :
    ∀ r ∈ rows, r.1 ≤ 16 ∧ rangeOK r.2.1 r.2.2.1 = true ∧ rangeOK r.2.2.2.1 r.2.2.2.2.1 = true ∧ r.2.2.2.2.2.2 = true := by
  decide +kernel

/-- **C05_value_exact.** For every component row of the profile and every value below 2^32 handed to the arithmetic
(the bits of a slice — at most 16 in the profile — or the running total of an accumulating component, which the decoder
keeps as a uint32; beyond 2^32 − 1 the accumulator wraps and the statement says nothing): whenever the physical
value `((bits/cScale − cOffset) + dOffset) × dScale` is an integer that fits a uint32 (`exactValue` of the
specification), the decoder's arithmetic yields exactly that integer — in particular whenever component and
destination share scale and offset. -/
theorem C05_value_exact (r) (hr : r ∈ rows) (bits e : Nat) (hb : bits < 2 ^ 32)
    (hex : exactValue bits r.2.1 r.2.2.1 r.2.2.2.1 r.2.2.2.2.1 = some e) :
    componentValue bits r.2.1 r.2.2.1 r.2.2.2.1 r.2.2.2.2.1 = e := by
  obtain ⟨_, hc, hd, _⟩ := C05_rows_in_range r hr
  have hbits : bits ≤ 2 ^ 32 := le_of_lt hb
  obtain ⟨he32, CS, CO, DS, DO, f1, f2, f3, f4, hphys⟩ := exactValue_spec _ _ _ _ _ _ hex
  obtain ⟨CS', CO', DS', DO', g1, g2, g3, g4, hval⟩ := comp_value32 bits hbits _ _ _ _ hc hd
  have e1 := isFin_unique _ _ _ g1 f1
  have e2 := isFin_unique _ _ _ g2 f2
  have e3 := isFin_unique _ _ _ g3 f3
  have e4 := isFin_unique _ _ _ g4 f4
  subst e1 e2 e3 e4
  have heq : ((e : Nat) : ℚ) = ((e : Int) : ℚ) := by norm_cast
  have h0 : (0 : ℚ) ≤ ((bits : ℚ) / CS' - CO' + DO') * DS' := by rw [hphys]; positivity
  have h32 : ((bits : ℚ) / CS' - CO' + DO') * DS' ≤ 2 ^ 32 - 1 := by
    rw [hphys]
    have : (e : ℚ) ≤ ((4294967295 : Nat) : ℚ) := by exact_mod_cast (by omega : e ≤ 4294967295)
    norm_num at this ⊢; exact this
  have := (hval h0 h32).2 (e : Int) (by rw [hphys]; norm_cast)
  exact_mod_cast this

/-- **C05_value_within_one.** For every component row and every value below 2^32 (slice or running total) whose
physical value lies in
`[0, 2^32 − 1]`, the expanded value is within one unit of the destination's resolution of the physical value
(`withinOne` of the specification) — whether or not that value is an integer. -/
theorem C05_value_within_one (r) (hr : r ∈ rows) (bits : Nat) (hb : bits < 2 ^ 32) (q : Q)
    (hq : phys bits r.2.1 r.2.2.1 r.2.2.2.1 r.2.2.2.2.1 = some q)
    (h0 : 0 ≤ q.num) (h32 : q.num ≤ (2 ^ 32 - 1) * (q.den : Int)) :
    withinOne (componentValue bits r.2.1 r.2.2.1 r.2.2.2.1 r.2.2.2.2.1) bits r.2.1 r.2.2.1 r.2.2.2.1 r.2.2.2.2.1 = true := by
  obtain ⟨_, hc, hd, _⟩ := C05_rows_in_range r hr
  have hbits : bits ≤ 2 ^ 32 := le_of_lt hb
  obtain ⟨hden, CS, CO, DS, DO, f1, f2, f3, f4, hphys⟩ := phys_spec _ _ _ _ _ q hq
  obtain ⟨CS', CO', DS', DO', g1, g2, g3, g4, hval⟩ := comp_value32 bits hbits _ _ _ _ hc hd
  have e1 := isFin_unique _ _ _ g1 f1
  have e2 := isFin_unique _ _ _ g2 f2
  have e3 := isFin_unique _ _ _ g3 f3
  have e4 := isFin_unique _ _ _ g4 f4
  subst e1 e2 e3 e4
  have hdq : (0 : ℚ) < (q.den : ℚ) := by exact_mod_cast Nat.pos_of_ne_zero hden
  have hnn : (0 : ℚ) ≤ toRat q := by
    unfold toRat; apply div_nonneg _ hdq.le; exact_mod_cast h0
  have hle : toRat q ≤ 2 ^ 32 - 1 := by
    unfold toRat; rw [div_le_iff₀ hdq]
    have : ((q.num : Int) : ℚ) ≤ (((2 ^ 32 - 1) * (q.den : Int) : Int) : ℚ) := by exact_mod_cast h32
    push_cast at this; linarith
  rw [hphys] at hnn hle
  have := (hval hnn hle).1
  rw [← hphys] at this
  exact withinOne_of _ _ _ _ _ _ q hq hden this

/-- bits a destination base type offers to a non-negative integer coming out of the decoder's uint32 intermediate
(`convertUint32ToValue`): the width of the unsigned types, one less for the signed ones, never more than 32;
`none` for float (and non-numeric) destinations -/
def destBits (bt : Nat) : Option Nat :=
  if bt = btSint8 then some 7
  else if bt = btEnum ∨ bt = btByte ∨ bt = btUint8 ∨ bt = btUint8z then some 8
  else if bt = btSint16 then some 15
  else if bt = btUint16 ∨ bt = btUint16z then some 16
  else if bt = btSint32 then some 31
  else if bt = btUint32 ∨ bt = btUint32z then some 32
  else if bt = btSint64 then some 32
  else if bt = btUint64 ∨ bt = btUint64z then some 32
  else none

/-- **"representable in the destination field"**: an integer below 2^(bits the destination's base type offers) is
carried by the written value unchanged (`convertU32` = `convertUint32ToValue`; the value's Go integer is `e`). -/
theorem C05_dest_representable (e bt w : Nat) (hw : destBits bt = some w) (he : e < 2 ^ w) :
    toInt64? (convertU32 e bt) = some (e : Int) := by
  unfold destBits at hw
  unfold convertU32
  split_ifs at hw ⊢ <;> simp only [Option.some.injEq] at hw <;> subst hw <;>
    simp only [toInt64?, IntTy.toInt, IntTy.bits, IntTy.signed, Option.some.injEq] <;>
    norm_num at he ⊢ <;> (try split_ifs) <;> omega

/-- every destination of a component of the profile has an integer base type (no float destination) -/
theorem C05_dest_types : ∀ r ∈ rows, (destBits r.2.2.2.2.2.1).isSome = true := by decide +kernel

/-- non-vacuity of the value theorems: the rows of the former F07 witnesses are rows of the profile; the physical value
of speed 1001 (scale 1000 on both sides) is the integer 1001 and that of compressed distance 3 (scale 16 → 100) is
18.75, which is not an integer -/
example : (16, 0x4014000000000000, 0x407f400000000000, 0x4014000000000000, 0x407f400000000000, 134, true) ∈ rows ∧
    exactValue 1001 0x408f400000000000 0 0x408f400000000000 0 = some 1001 ∧
    exactValue 3 0x4030000000000000 0 0x4059000000000000 0 = none ∧
    withinOne 19 3 0x4030000000000000 0 0x4059000000000000 0 = true := by decide +kernel

/-- The witness of F07 after the repair: altitude 1 (scale 5, offset 500 on both sides) expands to 1. -/
theorem C05_F07_witness_fixed :
    componentValue 1 0x4014000000000000 0x407f400000000000 0x4014000000000000 0x407f400000000000 = 1 := by
  decide +kernel

/-! ### the expansion of whole messages and histories -/

/-- the regenerated profile: every message that owns components, with its fields, components, sub-fields -/
def profile : Profile := Fit.Gen.PA.mesgs

/-- **the value theorems speak about every component of the profile**: each component of each field and sub-field of
the regenerated profile, paired with the scale, offset and base type of the destination the factory returns for it, is one
of the `rows` (so `C05_value_exact` / `C05_value_within_one` apply to everything `specSeq` hands to the arithmetic). -/
theorem C05_rows_cover :
    ∀ e ∈ profile, ∀ f ∈ e.2, ∀ c ∈ Fit.ExpandSpec.allComps f,
      (c.bits, c.scale, c.offset, (createField profile e.1 c.fieldNum).1.scale, (createField profile e.1 c.fieldNum).1.offset,
        (createField profile e.1 c.fieldNum).1.baseType, (lookup profile e.1 c.fieldNum).isSome) ∈ rows := by
  decide +kernel

/-- **side conditions of the refinement, checked against the regenerated profile**: every component is at most 32 bits
wide (`Pull` returns a uint32), and the accumulating components that feed one destination all have the same width. -/
theorem C05_profile_table : Fit.ExpandSpec.tableOK profile = true := by decide +kernel

/-- **a wire value seeds the running total "converted exactly"**: for every component row of the profile, when the
specification takes `T` as the total that a wire value `v` of the destination seeds (`ExpandSpec.seed`, i.e.
`((v / dScale − dOffset) + cOffset) × cScale` is the whole number `T`), the physical value of `T` is exactly `v`:
`((T / cScale − cOffset) + dOffset) × dScale = v`. (Where that product is not a whole number the specification is
undetermined: the property does not say which reading the counter had.) -/
theorem C05_seed_exact (r) (hr : r ∈ rows) (v T : Nat) (hv : v < 2 ^ 32)
    (hseed : Fit.ExpandSpec.seed v r.2.1 r.2.2.1 r.2.2.2.1 r.2.2.2.2.1 = some T) :
    exactValue T r.2.1 r.2.2.1 r.2.2.2.1 r.2.2.2.2.1 = some v := by
  have hne : ∀ r ∈ rows, (Q.ofF64 r.2.1).any (fun q => q.num != 0) = true := by decide +kernel
  have h := hne r hr
  cases hq : Q.ofF64 r.2.1 with
  | none => rw [hq] at h; cases h
  | some q =>
    rw [hq] at h
    exact seed_inverse v _ _ _ _ T hv hseed ⟨q, hq, by simpa using h⟩

/-- non-vacuity: record.distance 100000 (1/100 m) seeds the compressed distance counter (1/16 m) with 16000; 100001 does
not convert to a whole number of 1/16 m -/
example : Fit.ExpandSpec.seed 100000 0x4030000000000000 0 0x4059000000000000 0 = some 16000 ∧
    Fit.ExpandSpec.seed 100001 0x4030000000000000 0 0x4059000000000000 0 = none := by decide +kernel

/-- what C05 asks of the arithmetic `cv` of one component: for every component row of the profile and every slice or
running total `T < 2^32`, the exact physical value whenever that is an integer that fits a uint32, and a value within one
unit of the physical value whenever that lies in `[0, 2^32 − 1]` -/
def Admissible (cv : CV) : Prop :=
  ∀ r ∈ rows, ∀ T, T < 2 ^ 32 →
    (∀ e, exactValue T r.2.1 r.2.2.1 r.2.2.2.1 r.2.2.2.2.1 = some e → cv T r.2.1 r.2.2.1 r.2.2.2.1 r.2.2.2.2.1 = e) ∧
    (∀ q : Q, phys T r.2.1 r.2.2.1 r.2.2.2.1 r.2.2.2.2.1 = some q → 0 ≤ q.num → q.num ≤ (2 ^ 32 - 1) * (q.den : Int) →
      withinOne (cv T r.2.1 r.2.2.1 r.2.2.2.1 r.2.2.2.2.1) T r.2.1 r.2.2.1 r.2.2.2.1 r.2.2.2.2.1 = true)

/-- **C05_expansion_values.** The decoder's arithmetic (`uint32(math.Round(Discard(Apply(·))))`, decoder.go:881-883)
is admissible: exact wherever the physical value is an integer in the uint32 range, within one unit otherwise — for every
component of the profile and every slice or accumulated total below 2^32. -/
theorem C05_expansion_values : Admissible componentValue :=
  fun r hr T hT => ⟨fun e he => C05_value_exact r hr T e hT he, fun q hq h0 h32 => C05_value_within_one r hr T hT q hq h0 h32⟩

/-- the full statement (OPEN: KF-C05-2): for every history of messages of one sequence, wherever the specification
determines the expansion, the decoder's tail yields exactly it -/
def C05_expansion_fields_full : Prop :=
  ∀ ms out, specSeq componentValue profile ms = some out → decodeSeq componentValue profile true ms = out

/-- **C05_expansion_fields (partial: outside the class of KF-C05-2).** For EVERY sequence of messages `ms` (any
length, any message numbers, any fields and values) in which no wire field is the destination of an accumulating
component that counts in another unit than the field (`seedsOtherUnit`: on the regenerated profile only record.distance
next to compressed_speed_distance's 1/16 m component), whenever the specification `ExpandSpec.specSeq` determines the
expanded messages, the model of `decodeFields`' tail (`decodeSeq`: collection of accumulable wire values, `makeBits`,
`Pull` on the 32-word store, `Accumulate`, destination look-up from the end, replace/append, sub-field substitution,
recursion) returns exactly them: component k of a container is the slice `sliceAt (containerNat value) (Σ earlier widths)
bits_k`; with several components the first zero slice stops the container; an accumulating component's value is the
running total of the sequence for (message, destination) — seeded by a wire value of the destination, advanced by the
wrapping-counter delta of each sample (`C05_running_total`); the written value is
`convertU32 (componentValue T cScale cOffset dScale dOffset) dBaseType` (see `C05_expansion_values`); it replaces the
value of the last field with the destination's number (appended when that field is an array) or a new field flagged
expanded is appended; the destination's own components, or those of its selected sub-field, expand the value just written
before the next component. The specification is undetermined (`none`) only for: signed or float containers (none in the
profile), wire seeds that are not a whole number of the component's units, totals beyond 2^32 − 1, fields of an
accumulated destination not carrying the profile's accumulate flag. -/
theorem C05_expansion_fields_partial (ms out : List Message) (hk : seedsOtherUnit profile ms = false)
    (hs : specSeq componentValue profile ms = some out) :
    decodeSeq componentValue profile true ms = out :=
  Fit.ExpandSpec.decodeSeq_refines componentValue profile (Fit.ExpandSpec.tableOK_spec profile C05_profile_table) ms out hk hs

/-- **the PROPERTY sentence about the decoder's output** (partial: outside KF-C05-2): the expanded messages of every
history are the specification's expansion under an arithmetic that gives every slice and every running total its exact
physical value where that is a representable integer and a value within one unit otherwise. -/
theorem C05_expansion_property_partial (ms : List Message) (hk : seedsOtherUnit profile ms = false) :
    ∃ cv : CV, Admissible cv ∧ ∀ out, specSeq cv profile ms = some out → decodeSeq componentValue profile true ms = out :=
  ⟨componentValue, C05_expansion_values, fun out hs => C05_expansion_fields_partial ms out hk hs⟩

/-- the witness history of KF-C05-2: record{distance = 100000}; record{compressed_speed_distance = [1, 0, 0x0A]} -/
def kf2Witness : List Message :=
  [{ num := 20, fields := [{ base := some { num := 5, baseType := 0x86, accumulate := true, scale := 0x4059000000000000, nameKnown := true }, value := .uint32 100000 }], devFields := [] },
   { num := 20, fields := [{ base := some { num := 8, baseType := 0x0d, array := true, nameKnown := true }, value := .sliceUint8 [1, 0, 0x0A] }], devFields := [] }]

/-- **KF-C05-2 refutes the full statement**: on the witness history the specification demands distance 103400
(1000 m + the 34 m a 12-bit counter of 1/16 m travelled from 16000 to a reading of 160) and the model of the decoder — like
the decoder — yields 641000; the history is in the excluded class. -/
theorem C05_KF2_witness :
    ¬ C05_expansion_fields_full ∧ seedsOtherUnit profile kf2Witness = true ∧
      (specSeq componentValue profile kf2Witness).map (fun out => out.map fun m => Fit.Msg.fieldValueByNum m.fields.reverse 5) =
        some [.uint32 100000, .uint32 103400] ∧
      (decodeSeq componentValue profile true kf2Witness).map (fun m => Fit.Msg.fieldValueByNum m.fields.reverse 5) =
        [.uint32 100000, .uint32 641000] := by
  have h1 : seedsOtherUnit profile kf2Witness = true := by decide +kernel
  have h2 : (specSeq componentValue profile kf2Witness).map (fun out => out.map fun m => Fit.Msg.fieldValueByNum m.fields.reverse 5) =
      some [.uint32 100000, .uint32 103400] := by decide +kernel
  have h3 : (decodeSeq componentValue profile true kf2Witness).map (fun m => Fit.Msg.fieldValueByNum m.fields.reverse 5) =
      [.uint32 100000, .uint32 641000] := by decide +kernel
  refine ⟨?_, h1, h2, h3⟩
  intro hfull
  cases hsp : specSeq componentValue profile kf2Witness with
  | none => rw [hsp] at h2; cases h2
  | some out =>
    have := hfull kf2Witness out hsp
    rw [hsp] at h2
    simp only [Option.map_some, Option.some.injEq] at h2
    rw [this, h2] at h3
    exact absurd h3 (by decide)

/-- non-vacuity of `C05_expansion_fields_partial`: an Hr history in its class that the specification determines — wire
event_timestamp [10000] (1/1024 s, the component's own unit), then event_timestamp_12 with the 12-bit samples of 10300
and 10800: the expanded event_timestamp is [10300, 10800] -/
example :
    let ms : List Message :=
      [{ num := 132, fields := [{ base := some { num := 9, baseType := 0x86, array := true, accumulate := true, scale := 0x4090000000000000, nameKnown := true }, value := .sliceUint32 [10000] }], devFields := [] },
       { num := 132, fields := [{ base := some { num := 10, baseType := 0x0d, array := true, accumulate := true, nameKnown := true }, value := .sliceUint8 [0x3c, 0x08, 0xa3] }], devFields := [] }]
    seedsOtherUnit profile ms = false ∧
      (specSeq componentValue profile ms).map (fun out => out.map fun m => Fit.Msg.fieldValueByNum m.fields.reverse 9) =
        some [.sliceUint32 [10000], .sliceUint32 [10300, 10800]] := by
  decide +kernel

/-! ### expansion off -/

/-- **Expansion off**: the decoder's tail leaves every message exactly as it was read (no field added, none changed,
the accumulator untouched) — "off" is "the wire messages". -/
theorem C05_expansion_off (cv : CV) (p : Profile) (ms : List Message) :
    decodeSeq cv p false ms = ms := by
  unfold decodeSeq
  have key : (fun (s : Fit.Accum.Acc × List Message) m =>
        let r := decodeTail cv p false s.1 m
        (r.1, s.2 ++ [r.2])) = fun s m => (s.1, s.2 ++ [m]) := by
    funext s m; simp [decodeTail]
  rw [key]
  suffices h : ∀ (acc : Fit.Accum.Acc) (done : List Message),
      (ms.foldl (fun (s : Fit.Accum.Acc × List Message) m => (s.1, s.2 ++ [m])) (acc, done)).2 = done ++ ms by
    simpa using h [] []
  induction ms with
  | nil => intro acc done; simp
  | cons m ms ih => intro acc done; simp only [List.foldl_cons]; rw [ih]; simp

/-! ### recursion depth of the profile -/

/-- the components reachable from field `num` nest at most `k` levels deep -/
def depthLe (p : Profile) (mesgNum : Nat) : Nat → Nat → Bool
  | 0, _ => false
  | k + 1, num =>
    match lookup p mesgNum num with
    | none => true
    | some f => (f.comps ++ f.subs.flatMap (·.comps)).all fun c => depthLe p mesgNum k c.fieldNum

/-- **side condition of the model's fuel**, checked against the regenerated profile: no field of a message that owns
components nests its expansions deeper than 3 levels (the model recurses with fuel 8, so its fuel never runs out on this
profile; the Go code has no bound). -/
theorem C05_profile_depth :
    ∀ e ∈ Fit.Gen.PA.mesgs, ∀ f ∈ e.2, depthLe Fit.Gen.PA.mesgs e.1 4 f.num = true := by
  decide +kernel

/-! ### expansion on: what may change -/

/-- **C05_untouched.** Whatever the arithmetic of a component (`cv`), the factory (`p`), the state of the accumulator
and the message: after expansion every wire field is still at its position with the same `FieldBase` and the same
`IsExpandedField` flag; its value is unchanged unless its number is the destination of a component PRESENT in this
message — a component (field- or sub-field-level) of one of the message's own wire fields, or, transitively, of such a
destination (`destsPresent`: e.g. a record without compressed_speed_distance cannot have its speed or distance changed,
whatever other components the record message type owns); and every field beyond the wire fields is flagged expanded.
The message number and the developer fields are untouched. -/
theorem C05_untouched (cv : CV) (p : Profile) (acc : Fit.Accum.Acc) (m : Message) :
    Inv (destsPresent p m.num m.fields) m.fields (decodeTail cv p true acc m).2.fields ∧
      (decodeTail cv p true acc m).2.num = m.num ∧ (decodeTail cv p true acc m).2.devFields = m.devFields :=
  decodeTail_present cv p true acc m

/-- non-vacuity / tightness: for a record carrying only `speed`, the only numbers that may change are speed's destination
enhanced_speed (73); with compressed_speed_distance present: speed (6), enhanced_speed (73) and distance (5) -/
example :
    destsPresent profile 20 [{ base := some { num := 6, baseType := 0x84 }, value := .uint16 1 }] = [73] ∧
      destsPresent profile 20 [{ base := some { num := 8, baseType := 0x0d }, value := .sliceUint8 [1, 0, 10] }] = [6, 73, 5] := by
  decide +kernel

/-- **Expansion off = on minus the expanded fields** (with the carve-out of the property for destinations present on the
wire): if no wire field is flagged expanded, then dropping the flagged fields from the expanded message leaves exactly
as many fields as were read, each with its `FieldBase`, and each equal to the wire field unless its number is a
destination. -/
theorem C05_on_minus_expanded (cv : CV) (p : Profile) (acc : Fit.Accum.Acc) (m : Message)
    (hw : ∀ f ∈ m.fields, f.isExpanded = false) :
    let on := (decodeTail cv p true acc m).2.fields
    on.take m.fields.length = on.filter (!·.isExpanded) ∧
      (on.filter (!·.isExpanded)).length = m.fields.length := by
  intro on
  have hinv : Inv (destsPresent p m.num m.fields) m.fields on := (decodeTail_present cv p true acc m).1
  clear_value on
  obtain ⟨hlen, hkeep, hext⟩ := hinv
  have hsplit : on = on.take m.fields.length ++ on.drop m.fields.length := (List.take_append_drop _ _).symm
  have htake : ∀ f ∈ on.take m.fields.length, f.isExpanded = false := by
    intro f hf
    obtain ⟨i, hi, rfl⟩ := List.getElem_of_mem hf
    have hi' : i < m.fields.length := by
      have := List.length_take_le m.fields.length on; omega
    obtain ⟨f', hf', _, hx, _⟩ := hkeep i m.fields[i] (by simp [hi'])
    have : (on.take m.fields.length)[i] = f' := by
      have h2 : i < on.length := by omega
      have h3 : on[i]? = some f' := hf'
      rw [List.getElem?_eq_getElem h2] at h3
      rw [List.getElem_take]
      exact Option.some.inj h3
    rw [this, hx]
    exact hw _ (List.getElem_mem hi')
  have hdrop : ∀ f ∈ on.drop m.fields.length, f.isExpanded = true := by
    intro f hf
    obtain ⟨i, hi, rfl⟩ := List.getElem_of_mem hf
    have hi2 : m.fields.length + i < on.length := by
      have := List.length_drop (i := m.fields.length) (l := on); omega
    have : (on.drop m.fields.length)[i] = on[m.fields.length + i] := by simp
    rw [this]
    exact hext (m.fields.length + i) _ (by omega) (by rw [List.getElem?_eq_getElem hi2])
  have hf1 : (on.take m.fields.length).filter (!·.isExpanded) = on.take m.fields.length :=
    List.filter_eq_self.mpr (fun f hf => by simp [htake f hf])
  have hf2 : (on.drop m.fields.length).filter (!·.isExpanded) = [] :=
    List.filter_eq_nil_iff.mpr (fun f hf => by simp [hdrop f hf])
  have hfilter : on.filter (!·.isExpanded) = on.take m.fields.length := by
    conv_lhs => rw [hsplit]
    rw [List.filter_append, hf1, hf2, List.append_nil]
  refine ⟨hfilter.symm, ?_⟩
  rw [hfilter, List.length_take]; omega

end Fit.C05
