import FitProps.LinkLemmasDesc
/-!
LINK (C) ↔ (D), part 4: one data record — `decodeMessageData` of (C), `data` of (D) on the exact-n reader, and the step
of `apiOf` on the message event (D) emits.
-/
set_option linter.unusedSimpArgs false
set_option linter.unusedVariables false

namespace Fit.Link
open Fit.DecApi Fit.Gen Fit.Gen.DecApi Fit.Crc Fit.Value

/-! ### the shadow through the value-level steps -/

theorem Shadow.compressedTs {s t : St} (h : Shadow s t) (header : Nat) (d d' : MesgDef) (hm : d'.mesgNum = d.mesgNum) :
    (compressedTs header d' t).2 = (compressedTs header d s).2 ∧ Shadow (compressedTs header d s).1 (compressedTs header d' t).1 := by
  constructor
  · simp only [DecApi.compressedTs, h.o, h.ts, h.lastOff, hm]
  · unfold DecApi.compressedTs
    exact ⟨h.o, h.look, by simp only [h.ts, h.lastOff], rfl, h.acc, h.msgs, h.fileId⟩

theorem Shadow.setAcc {s t : St} (h : Shadow s t) (a : List AccEntry) :
    Shadow { s with q := { s.q with acc := a } } { t with q := { t.q with acc := a } } :=
  ⟨h.o, h.look, h.ts, h.lastOff, rfl, h.msgs, h.fileId⟩

theorem Shadow.setFileId {s t : St} (h : Shadow s t) (x : Option FileId) :
    Shadow { s with q := { s.q with fileId := x } } { t with q := { t.q with fileId := x } } :=
  ⟨h.o, h.look, h.ts, h.lastOff, h.acc, h.msgs, rfl⟩

theorem Shadow.addDevIdx {s t : St} (h : Shadow s t) (l : List Nat) :
    Shadow { s with look := { s.look with devIdx := s.look.devIdx ++ l } } { t with look := { t.look with devIdx := t.look.devIdx ++ l } } :=
  ⟨h.o, ⟨h.look.descs, by simp only [h.look.devIdx], h.look.defs⟩, h.ts, h.lastOff, h.acc, h.msgs, h.fileId⟩

theorem Shadow.addDesc {s t : St} (h : Shadow s t) (l : List Desc) :
    Shadow { s with look := { s.look with descs := s.look.descs ++ l } } { t with look := { t.look with descs := t.look.descs ++ l } } :=
  ⟨h.o, ⟨by simp only [h.look.descs], h.look.devIdx, h.look.defs⟩, h.ts, h.lastOff, h.acc, h.msgs, h.fileId⟩

theorem Shadow.noteMesg {s t : St} (h : Shadow s t) (m : Nat) (fs : List DField) :
    Shadow (noteMesg m fs s) (noteMesg m fs t) := by
  -- first step: the file id
  have h1 : Shadow
      (if s.q.fileId.isNone = true ∧ m = mesgNumFileId then { s with q := { s.q with fileId := some (mkFileId fs) } } else s)
      (if t.q.fileId.isNone = true ∧ m = mesgNumFileId then { t with q := { t.q with fileId := some (mkFileId fs) } } else t) := by
    by_cases hc : s.q.fileId.isNone = true ∧ m = mesgNumFileId
    · have hc' : t.q.fileId.isNone = true ∧ m = mesgNumFileId := by rw [h.fileId]; exact hc
      rw [if_pos hc, if_pos hc']; exact h.setFileId _
    · have hc' : ¬ (t.q.fileId.isNone = true ∧ m = mesgNumFileId) := by rw [h.fileId]; exact hc
      rw [if_neg hc, if_neg hc']; exact h
  unfold DecApi.noteMesg
  simp only
  by_cases h2 : m = mesgNumDeveloperDataId
  · rw [if_pos h2, if_pos h2]; exact h1.addDevIdx _
  · rw [if_neg h2, if_neg h2]
    by_cases h3 : m = mesgNumFieldDescription
    · rw [if_pos h3, if_pos h3]; exact h1.addDesc _
    · rw [if_neg h3, if_neg h3]; exact h1

theorem Shadow.pushMsg {s t : St} (h : Shadow s t) (m : Msg) : Shadow (pushMsg m s) (pushMsg m t) := by
  unfold DecApi.pushMsg
  by_cases hb : (!s.o.bo) = true
  · have hb' : (!t.o.bo) = true := by rw [h.o]; exact hb
    rw [if_pos hb, if_pos hb']
    exact ⟨h.o, h.look, h.ts, h.lastOff, h.acc, by simp only [h.msgs], h.fileId⟩
  · have hb' : ¬ (!t.o.bo) = true := by rw [h.o]; exact hb
    rw [if_neg hb, if_neg hb']
    exact h

/-- the state of the reconstruction that shadows `s` with the reserved bytes forgotten -/
def shadowOf (s : St) : St := { s with look := { s.look with defs := s.look.defs.map normDef } }

theorem shadowOf_shadow (s : St) : Shadow s (shadowOf s) := ⟨rfl, ⟨rfl, rfl, rfl⟩, rfl, rfl, rfl, rfl, rfl⟩

/-! ### the definition's reserved byte is not read by anything value-level -/

theorem decodeField_reserved (d : MesgDef) (r : Nat) (fd : FieldDef) (s : St) :
    decodeField { d with reserved := r } fd s = decodeField d fd s := rfl

theorem decodeDevField_reserved (d : MesgDef) (r : Nat) (dd : DevDef) (fdsc : Desc) (s : St) :
    decodeDevField { d with reserved := r } dd fdsc s = decodeDevField d dd fdsc s := rfl

theorem iFields_reserved (d : MesgDef) (r : Nat) : ∀ (fds : List FieldDef) (vals : List (Nat × List Nat)) (acc : List DField) (t : St),
    iFields { d with reserved := r } fds vals acc t = iFields d fds vals acc t
  | [], _, _, _ => rfl
  | fd :: fds, vals, acc, t => by
    unfold iFields
    simp only [decodeField_reserved]
    cases decodeField d fd { t with rest := if fd.size = 0 then [] else (vals.head?.map (·.2)).getD [] } with
    | ok p => obtain ⟨f, t1⟩ := p; exact iFields_reserved d r fds _ _ t1
    | err e => rfl
    | panic => rfl
    | hang => rfl

theorem iDevs_reserved (d : MesgDef) (r : Nat) : ∀ (devs : List (Nat × Nat × List Nat)) (acc : List DDev) (t : St),
    iDevs { d with reserved := r } devs acc t = iDevs d devs acc t
  | [], _, _ => rfl
  | (num, ddi, b) :: rest, acc, t => by
    unfold iDevs
    cases t.look.descs.find? (fun f => f.ddi == ddi && f.fdn == num) with
    | none => rfl
    | some fdsc =>
      simp only [decodeDevField_reserved]
      cases decodeDevField d ⟨num, b.length, ddi⟩ fdsc { t with rest := b } with
      | ok p => obtain ⟨f, t1⟩ := p; exact iDevs_reserved d r rest _ t1
      | err e => rfl
      | panic => rfl
      | hang => rfl

/-! ### look-ups -/

structure Tables (s : St) (st : DecProg.St) : Prop where
  defs : st.defs = s.look.defs.map (fun p => (p.1, defD p.2))
  descs : st.descs = s.look.descs.map descD

theorem lookupD {s : St} {st : DecProg.St} (h : Tables s st) (i : Nat) : st.lookup i = (s.look.lookup i).map defD := by
  unfold DecProg.St.lookup Look.lookup
  rw [h.defs, List.find?_map]
  simp only [Option.map_map]
  congr 1

theorem lookupSh {l l' : Look} (h : LookSh l l') (i : Nat) :
    l'.lookup i = (l.lookup i).map (fun d => { d with reserved := 0 }) := by
  unfold Look.lookup
  rw [h.defs, List.find?_map]
  simp only [Option.map_map]
  congr 1

/-! ### expansion where the factory has no components -/

theorem expandComps_nil (fac : Factory) (m : Nat) (fuel : Nat) (v : Value) (bt : Nat) (st : List DField × List AccEntry) :
    expandComps fac m fuel v bt [] st = some st := by
  cases fuel with
  | zero => unfold expandComps; rfl
  | succ n => unfold expandComps; rfl

theorem expandAll_nocomp (fac : Factory) (m : Nat) (h : ∀ n, (fac.create m n).comps = []) :
    ∀ (k i : Nat) (st : List DField × List AccEntry), expandAll fac m k i st = some st
  | 0, _, _ => rfl
  | k + 1, i, (fields, acc) => by
    unfold expandAll
    cases hf : fields[i]? with
    | none => rfl
    | some f =>
      simp only [h, expandComps_nil]
      exact expandAll_nocomp fac m h k (i + 1) (fields, acc)

theorem noteMesg_descs (m : Nat) (fs : List DField) (s : St) :
    (noteMesg m fs s).look.descs = (if m = mesgNumFieldDescription then s.look.descs ++ [mkDesc fs] else s.look.descs) ∧
    (noteMesg m fs s).look.defs = s.look.defs := by
  unfold DecApi.noteMesg
  have hne : mesgNumFieldDescription ≠ mesgNumDeveloperDataId := by decide
  by_cases h3 : m = mesgNumFieldDescription
  · subst h3
    simp only [hne, if_false, if_true]
    split <;> exact ⟨rfl, rfl⟩
  · simp only [h3, if_false]
    split <;> split <;> exact ⟨rfl, rfl⟩

theorem devs_isEmpty (d : MesgDef) (s : St) :
    (if d.devs.isEmpty then pure ([], s) else decodeDevFields d d.devs [] s : Res (List DDev × St)) = decodeDevFields d d.devs [] s := by
  cases hd : d.devs with
  | nil => rfl
  | cons a t => rfl

/-- the description (C) builds from a decoded `field_description` message is the one (D) reads from the record -/
theorem mkDesc_link (d : MesgDef) (hm : d.mesgNum = mesgNumFieldDescription) (fds : List FieldDef) (new : List (Nat × List Nat))
    (hal : Aligned fds new) (pre : List DField) (t : St) (fs : List DField) (t' : St) (hp : FdPlain t.o.fac)
    (hfds : ∀ f ∈ fds, btValid f.bt = true ∧ f.size < 256) (hi : iFields d fds new pre t = .ok (fs, t'))
    (hpre : ∀ n, fdNums n → valsOf fieldDescBound pre n = .invalid) :
    descD (mkDesc fs) = (DecProg.lastVal new Fit.Gen.Integ.fdDeveloperDataIndex,
      DecProg.lastVal new Fit.Gen.Integ.fdFieldDefinitionNumber, DecProg.lastVal new Fit.Gen.Integ.fdFitBaseTypeId) := by
  have key : ∀ n, fdNums n → uint8Of (valsOf fieldDescBound fs n) = DecProg.lastVal new n := by
    intro n hn
    rw [iFields_vals d hm n hn fds new hal pre t fs t' hp hfds hi, hpre n hn]
    unfold DecProg.lastVal
    cases (new.filter fun p => decide (p.1 = n)).getLast? <;> rfl
  unfold mkDesc descD
  simp only
  rw [key _ (Or.inl rfl), key _ (Or.inr (Or.inl rfl)), key _ (Or.inr (Or.inr rfl))]
  rfl

/-! ### the reconstruction follows the run -/

/-- folding `iStep` over (D)'s events so far gives a state that shadows (C)'s, the completed `Decode()` calls, and the
listener calls of the current one (reserved bytes zeroed) -/
def Follows (o : Opts) (s : St) (st : DecProg.St) (done : List (Out × List Event)) (pend : List Event) : Prop :=
  ∃ t, st.evs.reverse.foldl iStep { t := St.fresh o [] } = { t := t, done := done, pend := pend.map normEvent, bad := false } ∧
    Shadow s t

theorem fold_cons (i0 : IState) (ev : DecProg.Ev) (evs : List DecProg.Ev) :
    (ev :: evs).reverse.foldl iStep i0 = iStep (evs.reverse.foldl iStep i0) ev := by
  simp [List.foldl_append]

theorem Follows.of_quiet {o : Opts} {s s' : St} {st st' : DecProg.St} {done : List (Out × List Event)} {pend : List Event}
    (h : Follows o s st done pend) (hq : Quiet' s s') (he : st'.evs = st.evs) : Follows o s' st' done pend := by
  obtain ⟨t, h1, h2⟩ := h
  exact ⟨t, by rw [he]; exact h1, hq.shadow h2⟩

theorem compressedTs_pre (header : Nat) (d : MesgDef) (s : St) (n : Nat) (hn : fdNums n) :
    valsOf fieldDescBound (compressedTs header d s).2 n = .invalid := by
  have : ∀ f : DField, f.num = fieldNumTimestamp → valsOf fieldDescBound [f] n = .invalid := by
    intro f hf
    unfold valsOf
    have : (decide (f.num ≤ fieldDescBound) && f.known && f.num == n) = false := by
      rw [hf]; simp [fieldNumTimestamp, fieldDescBound]
    simp [List.filter_cons, this]
  unfold DecApi.compressedTs
  simp only
  split <;> exact this _ rfl

theorem valsOf_nil (n : Nat) : valsOf fieldDescBound [] n = .invalid := rfl

/-- the component-expansion step of `decodeMessageData` -/
def expandStep (d : MesgDef) (fs : List DField) (s : St) : Res (List DField × St) :=
  if s.o.exp then
    match expandAll s.o.fac d.mesgNum fs.length 0 (fs, s.q.acc) with
    | some (fields, acc) => pure (fields, { s with q := { s.q with acc := acc } })
    | none => .hang
  else pure (fs, s)

theorem expandStep_ok (d : MesgDef) (fs : List DField) (s : St) (hf : FacOK s.o.fac) :
    ∃ fs2 a, expandStep d fs s = .ok (fs2, { s with q := { s.q with acc := a } }) := by
  unfold expandStep
  by_cases he : s.o.exp = true
  · rw [if_pos he]
    have hsome := expandAll_some s.o.fac hf d.mesgNum fs.length 0 (fs, s.q.acc)
    cases hx : expandAll s.o.fac d.mesgNum fs.length 0 (fs, s.q.acc) with
    | none => rw [hx] at hsome; cases hsome
    | some p => obtain ⟨f2, a⟩ := p; exact ⟨f2, a, rfl⟩
  · rw [if_neg he]; exact ⟨fs, s.q.acc, rfl⟩

theorem expandStep_shadow {s t : St} (h : Shadow s t) (d d' : MesgDef) (hm : d'.mesgNum = d.mesgNum) (fs fs2 : List DField)
    (a : List AccEntry) (hs : expandStep d fs s = .ok (fs2, { s with q := { s.q with acc := a } })) :
    ∃ t2, expandStep d' fs t = .ok (fs2, t2) ∧ Shadow { s with q := { s.q with acc := a } } t2 := by
  unfold expandStep at hs ⊢
  by_cases he : s.o.exp = true
  · have he' : t.o.exp = true := by rw [h.o]; exact he
    rw [if_pos he] at hs
    rw [if_pos he']
    cases hx : expandAll s.o.fac d.mesgNum fs.length 0 (fs, s.q.acc) with
    | none => rw [hx] at hs; cases hs
    | some p =>
      obtain ⟨f2, a2⟩ := p
      have hx' : expandAll t.o.fac d'.mesgNum fs.length 0 (fs, t.q.acc) = some (f2, a2) := by rw [h.o, hm, h.acc]; exact hx
      rw [hx] at hs
      rw [hx']
      simp only [Pure.pure] at hs ⊢
      injection hs with hs
      injection hs with h1 h2
      subst h1
      have : a2 = a := by
        have := congrArg (fun x : St => x.q.acc) h2
        simpa using this
      subst this
      exact ⟨_, rfl, h.setAcc a2⟩
  · have he' : ¬ t.o.exp = true := by rw [h.o]; exact he
    rw [if_neg he] at hs
    rw [if_neg he']
    simp only [Pure.pure] at hs ⊢
    injection hs with hs
    injection hs with h1 h2
    subst h1
    have ha : a = s.q.acc := by
      have := congrArg (fun x : St => x.q.acc) h2
      simpa using this.symm
    subst ha
    exact ⟨t, rfl, ⟨h.o, h.look, h.ts, h.lastOff, h.acc, h.msgs, h.fileId⟩⟩

theorem expandStep_nocomp (d : MesgDef) (fs : List DField) (s : St) (h : ∀ n, (s.o.fac.create d.mesgNum n).comps = []) :
    expandStep d fs s = .ok (fs, s) := by
  unfold expandStep
  split
  · rw [expandAll_nocomp _ _ h]; rfl
  · rfl

open Fit.ReadBuffer in
/-- **one data record**: (C), (D) on the exact-n reader, and the reconstruction -/
theorem data_link {β : Type} (obs : DecProg.Out → β) (hobs : EofBlind obs) (o : Opts) (chk : Bool) (header : Nat)
    (s : St) (st : DecProg.St) (k : DecProg.St → DecProg.P) (R : β) (done : List (Out × List Event)) (pend : List Event)
    (hcd : CD chk s st) (hT : Tables s st) (hF : Follows o s st done pend) (hi : Inv s)
    (hbt : facBtOK s.o.fac = true) (hfd : facFdOK s.o.fac = true)
    (h : match decodeData header s with
      | .ok (s', ev) => ∀ st', CD chk s' st' → Tables s' st' → Follows o s' st' done (pend ++ ev.toList) →
          obs (runExact (k st') s'.rest) = R
      | .err e => errC (errD e) = e → R = obs (DecProg.fail st (errD e))
      | .panic => True
      | .hang => True) :
    obs (runExact (DecProg.data chk header st k) s.rest) = R := by
  obtain ⟨t, hfold, hsh⟩ := hF
  unfold DecProg.data
  unfold decodeData at h
  simp only at h ⊢
  -- the local message number, computed with either set of constants
  have hcomp : (header &&& Fit.Gen.Integ.mesgCompressedHeaderMask = Fit.Gen.Integ.mesgCompressedHeaderMask) ↔
      (header &&& mesgCompressedHeaderMask = mesgCompressedHeaderMask) := Iff.rfl
  generalize hj : ((if header &&& Fit.Gen.Integ.mesgCompressedHeaderMask = Fit.Gen.Integ.mesgCompressedHeaderMask
      then (header &&& Fit.Gen.Integ.compressedLocalMesgNumMask) >>> Fit.Gen.Integ.compressedBitShift else header) &&&
      Fit.Gen.Integ.localMesgNumMask) = j
  have hjC : ((if decide (header &&& mesgCompressedHeaderMask = mesgCompressedHeaderMask) = true
      then (header &&& compressedLocalMesgNumMask) >>> compressedBitShift else header) &&& localMesgNumMask) = j := by
    rw [← hj]; simp only [decide_eq_true_eq]; rfl
  rw [hjC] at h
  rw [lookupD hT]
  cases hl : s.look.lookup j with
  | none =>
    rw [hl] at h
    simp only [Option.map_none] at h ⊢
    rw [h rfl]; rfl
  | some d =>
    rw [hl] at h
    simp only [Option.map_some, defD] at h ⊢
    have hdok := lookup_ok s.look hi.2.1 _ d hl
    have hplain := fdPlain_of hfd
    -- the shadow's definition: the same but for the reserved byte
    have hlt : t.look.lookup j = some { d with reserved := 0 } := by rw [lookupSh hsh.look, hl]; rfl
    -- compressed-timestamp header: the field it puts in front, on both states
    have hcp : ∃ s0 pre t0, (if decide (header &&& mesgCompressedHeaderMask = mesgCompressedHeaderMask) = true then
          compressedTs header d s else (s, [])) = (s0, pre) ∧
        (if decide (header &&& mesgCompressedHeaderMask = mesgCompressedHeaderMask) = true then
          compressedTs header { d with reserved := 0 } t else (t, [])) = (t0, pre) ∧
        Quiet s s0 ∧ Shadow s0 t0 ∧ (∀ n, fdNums n → valsOf fieldDescBound pre n = .invalid) ∧ s0.look = s.look := by
      by_cases hc : decide (header &&& mesgCompressedHeaderMask = mesgCompressedHeaderMask) = true
      · have h2 := hsh.compressedTs header d { d with reserved := 0 } rfl
        refine ⟨(compressedTs header d s).1, (compressedTs header d s).2, (compressedTs header { d with reserved := 0 } t).1, ?_, ?_,
          compressedTs_quiet header d s, h2.2, fun n hn => compressedTs_pre header d s n hn, rfl⟩
        · rw [if_pos hc]
        · rw [if_pos hc, ← h2.1]
      · exact ⟨s, [], t, by rw [if_neg hc], by rw [if_neg hc], Quiet.refl s, hsh, fun n _ => valsOf_nil n, rfl⟩
    obtain ⟨s0, pre, t0, hcs, hct, hq0, hsh0, hpre, hlook0⟩ := hcp
    rw [hcs] at h
    simp only [Bind.bind, Res.bind] at h
    have hfac0 : s0.o.fac = s.o.fac := by rw [hq0.1]
    rw [← hq0.2.1]
    apply fields_link obs hobs chk d d.fields pre s0 st [] _ R (CD.of_quiet hq0 hcd) hdok.1 (by rw [hfac0]; exact hbt)
    cases hdf : decodeFields d d.fields pre s0 with
    | err e => rw [hdf] at h; exact h
    | panic => trivial
    | hang => trivial
    | ok p =>
      obtain ⟨fs, s1⟩ := p
      rw [hdf] at h
      simp only at h ⊢
      intro st1 new hs1 hcd1 hal hshadow
      simp only [List.nil_append]
      -- what `decodeFields` preserved
      have hm1 := decodeFields_sat d d.fields pre s0 (hq0.inv hi) hdok.1
      rw [hdf] at hm1
      obtain ⟨⟨hi1, hr1⟩, hlook1⟩ := hm1
      simp only at hi1 hr1 hlook1
      have ho1 : s1.o = s.o := by rw [hr1.o, hq0.1]
      -- the shadow after the fields
      obtain ⟨t1, hif, hsh1⟩ := hshadow t0 hsh0
      -- component expansion
      obtain ⟨fs2, a, hes⟩ := expandStep_ok d fs s1 hi1.2.2.2
      generalize hE : (if s1.o.exp = true then _ else _ : Res (List DField × St)) = E at h
      have hE' : E = expandStep d fs s1 := by rw [← hE]; rfl
      rw [hE', hes] at h
      simp only at h
      clear hE hE' E
      generalize hs2 : ({ s1 with q := { s1.q with acc := a } } : St) = s2 at h hes
      have hq12 : Quiet s1 s2 := by rw [← hs2]; exact ⟨rfl, rfl, rfl, rfl, rfl, rfl, rfl, rfl⟩
      have hlook2 : s2.look = s1.look := by rw [← hs2]
      -- the shadow after the expansion
      obtain ⟨t2, het, hsh2⟩ := expandStep_shadow hsh1 d { d with reserved := 0 } rfl fs fs2 a (by rw [hs2]; exact hes)
      rw [hs2] at hsh2
      -- the developer-data look-ups after the message
      generalize hs3 : noteMesg d.mesgNum fs2 s2 = s3 at h
      have hq23 : Quiet s2 s3 := by rw [← hs3]; exact noteMesg_quiet _ _ _
      have hsh3 : Shadow s3 (noteMesg d.mesgNum fs2 t2) := by rw [← hs3]; exact hsh2.noteMesg _ _
      have hnd := noteMesg_descs d.mesgNum fs2 s2
      rw [hs3] at hnd
      generalize hD : (if d.devs.isEmpty = true then _ else _ : Res (List DDev × St)) = Dv at h
      have hD' : Dv = decodeDevFields d d.devs [] s3 := by rw [← hD]; exact devs_isEmpty d s3
      rw [hD'] at h
      clear hD hD' Dv
      -- (D)'s description table after the message is (C)'s
      generalize hdescs : (if d.mesgNum = Fit.Gen.Integ.mesgNumFieldDescription then _ else _ : List DecProg.Triplet) = descs'
      have hdescs' : descs' = s3.look.descs.map descD := by
        rw [← hdescs, hnd.1, hlook2, hlook1, hlook0, hs1.descs, hT.descs]
        have hmn : Fit.Gen.Integ.mesgNumFieldDescription = mesgNumFieldDescription := rfl
        rw [hmn]
        by_cases hm : d.mesgNum = mesgNumFieldDescription
        · rw [if_pos hm, if_pos hm, List.map_append]
          have hnc : ∀ n, (s1.o.fac.create d.mesgNum n).comps = [] := by
            intro n; rw [ho1, hm]; exact hplain.nocomp n
          have hfs2 : fs2 = fs := by
            have h1 := expandStep_nocomp d fs s1 hnc
            rw [hes] at h1
            injection h1 with h1
            injection h1 with h1 _
          rw [hfs2]
          have hpl0 : FdPlain t0.o.fac := by rw [hsh0.o, hq0.1]; exact hplain
          simp only [List.map_cons, List.map_nil]
          rw [mkDesc_link d hm d.fields new hal pre t0 fs t1 hpl0 hdok.1 hif hpre]
        · rw [if_neg hm, if_neg hm]
      subst hdescs'
      have hrest3 : s3.rest = s1.rest := by rw [hq23.2.1, hq12.2.1]
      rw [← hrest3]
      have hcd3 : CD chk s3 { st1 with descs := s3.look.descs.map descD } := by
        have := CD.of_quiet hq23 (CD.of_quiet hq12 hcd1)
        exact ⟨this.chk, this.cur, this.crc, this.small, this.bytes⟩
      apply devs_link obs hobs chk d d.devs [] s3 _ [] _ R hcd3 hdok.2
      cases hdv : decodeDevFields d d.devs [] s3 with
      | err e => rw [hdv] at h; simp only at h ⊢; intro he; rw [h he]; simp only [DecProg.fail, hs1.evs]
      | panic => trivial
      | hang => trivial
      | ok p2 =>
        obtain ⟨dv, s4⟩ := p2
        rw [hdv] at h
        simp only [Pure.pure] at h ⊢
        intro st2 new2 hs2' hcd2 hq34 hshadow2
        simp only [List.nil_append]
        have hq45 := pushMsg_quiet ⟨header, d.mesgNum, fs2, dv⟩ s4
        rw [← hq45.2.1]
        obtain ⟨t4, hid, hsh4⟩ := hshadow2 _ hsh3
        apply h
        · have := CD.of_quiet hq45 hcd2
          exact ⟨this.chk, this.cur, this.crc, this.small, this.bytes⟩
        · constructor
          · simp only
            rw [hs2'.defs]
            simp only
            rw [hs1.defs, hT.defs, hq45.2.2.1, hq34.look, hnd.2, hlook2, hlook1, hlook0]
          · simp only
            rw [hs2'.descs]
            simp only
            have : (pushMsg ⟨header, d.mesgNum, fs2, dv⟩ s4).look = s4.look := by unfold DecApi.pushMsg; split <;> rfl
            rw [this, hq34.look]
        · refine ⟨pushMsg ⟨header, d.mesgNum, fs2, dv⟩ t4, ?_, hsh4.pushMsg _⟩
          simp only
          rw [fold_cons, hs2'.evs]
          simp only
          rw [hs1.evs, hfold]
          have hml : (pushMsg ⟨header, d.mesgNum, fs2, dv⟩ t4).o.ml = (pushMsg ⟨header, d.mesgNum, fs2, dv⟩ s4).o.ml := by
            rw [(hsh4.pushMsg _).o]
          have hid' : iData header new new2 t = .ok (pushMsg ⟨header, d.mesgNum, fs2, dv⟩ t4,
              if (pushMsg ⟨header, d.mesgNum, fs2, dv⟩ t4).o.ml = true then some (.mesg ⟨header, d.mesgNum, fs2, dv⟩) else none) := by
            unfold iData
            simp only [hjC, hlt, hct, iFields_reserved, hif]
            generalize hE : (if t1.o.exp = true then _ else _ : Res (List DField × St)) = E
            have hE' : E = expandStep { d with reserved := 0 } fs t1 := by rw [← hE]; rfl
            rw [hE', het]
            simp only [iDevs_reserved, hid]
          simp only [iStep, hid', List.map_append, hml]
          congr 1
          split <;> simp [normEvent]

end Fit.Link
