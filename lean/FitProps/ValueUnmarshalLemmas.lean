import FitProps.ValueStringLemmas
/-! Helper lemma: the shape of `unmarshal`'s answer by validity of the base type, array flag and string-ness. -/
namespace Fit.Value
open Fit.Gen Fit.Utf8

theorem btSize_table : btSize btEnum = 1 ∧ btSize btSint8 = 1 ∧ btSize btUint8 = 1 ∧ btSize btSint16 = 2 ∧ btSize btUint16 = 2 ∧
      btSize btSint32 = 4 ∧ btSize btUint32 = 4 ∧ btSize btFloat32 = 4 ∧ btSize btFloat64 = 8 ∧ btSize btUint8z = 1 ∧
      btSize btUint16z = 2 ∧ btSize btUint32z = 4 ∧ btSize btByte = 1 ∧ btSize btSint64 = 8 ∧ btSize btUint64 = 8 ∧
      btSize btUint64z = 8 ∧ btSize btString = 1 := by decide +kernel

/-- the shape of `UnmarshalValue`'s answer, by validity of the base type, array flag and string-ness -/
theorem unmarshal_cases (bs : List Nat) (a bt : Nat) (isBool isArray : Bool) :
    (btValid bt = false ∧ unmarshal bs a bt isBool isArray = .err) ∨
    (btValid bt = true ∧ (isArray = true ∨ bt = btString) ∧ ∃ v, unmarshal bs a bt isBool isArray = .ok v) ∨
    (btValid bt = true ∧ isArray = false ∧ bt ≠ btString ∧
      ∃ mk, unmarshal bs a bt isBool isArray = decScalar (btSize bt) a bs mk) := by
  by_cases hv : btValid bt = true
  · right
    have hm := (btValid_iff bt).mp hv
    obtain ⟨t0, t1, t2, t3, t4, t5, t6, t7, t8, t9, t10, t11, t12, t13, t14, t15, t16⟩ := btSize_table
    simp only [btEnum, btSint8, btByte, btUint8, btUint8z, btSint16, btUint16, btUint16z, btSint32,
      btUint32, btUint32z, btSint64, btUint64, btUint64z, btFloat32, btFloat64, btString] at t0 t1 t2 t3 t4 t5 t6 t7 t8 t9 t10 t11 t12 t13 t14 t15 t16
    simp only [baseTypeList, List.mem_cons, List.not_mem_nil, or_false] at hm
    rcases hm with h | h | h | h | h | h | h | h | h | h | h | h | h | h | h | h | h <;> subst h <;>
      cases isArray <;> cases isBool <;>
      simp [hv, unmarshal, btEnum, btSint8, btByte, btUint8, btUint8z, btSint16, btUint16, btUint16z, btSint32,
        btUint32, btUint32z, btSint64, btUint64, btUint64z, btFloat32, btFloat64, btString,
        t0, t1, t2, t3, t4, t5, t6, t7, t8, t9, t10, t11, t12, t13, t14, t15, t16] <;>
      exact ⟨_, rfl⟩
  · left
    have hv' : btValid bt = false := by simpa using hv
    refine ⟨hv', ?_⟩
    have hm := mt (btValid_iff bt).mpr hv
    simp only [baseTypeList, List.mem_cons, List.not_mem_nil, or_false, not_or] at hm
    simp [unmarshal, btEnum, btSint8, btByte, btUint8, btUint8z, btSint16, btUint16, btUint16z, btSint32,
        btUint32, btUint32z, btSint64, btUint64, btUint64z, btFloat32, btFloat64, btString, hm]

theorem decScalar_ne_panic (w a : Nat) (bs : List Nat) (mk : Nat → Value) (h : w ≤ bs.length) :
    decScalar w a bs mk ≠ .panic := by
  unfold decScalar; rw [if_neg (by omega)]; intro hc; cases hc

theorem decScalar_panic (w a : Nat) (bs : List Nat) (mk : Nat → Value) (h : bs.length < w) :
    decScalar w a bs mk = .panic := by
  unfold decScalar; rw [if_pos h]

theorem scalar_tag (i n : Nat) (h : typeInvalid ≤ i ∧ i ≤ typeFloat64) : Raw.typeOf ⟨n, .mem i⟩ = i := by
  simp only [Raw.typeOf, if_pos h]

theorem mem_ifNe {a b i j : Nat} (h : j ∈ ifNe a b i) : j = i := by
  unfold ifNe at h; split at h <;> simp at h; exact h

end Fit.Value
