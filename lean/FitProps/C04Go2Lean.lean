import FitProps.Go2LeanCrc
/-!
# C04 — tie of the checksum to the source by translation

The integrity theorems of C04 (corruptions and truncations are rejected) rest on the CRC-16 of the model, `Fit.Crc.compute`
/ `write`. These are what `(*crc16).compute` and `(*crc16).Write`, translated from the CURRENT source of
kit/hash/crc16/crc16.go on every run (`FitModel/Generated/Go_crc16.lean`), compute — for every 16-bit state, every byte and byte
string, without panic.

PROPERTY THEOREMS (audited by ./check): C04_go2lean_compute, C04_go2lean_write, C04_go2lean_sum16
-/
namespace Fit.C04
open Fit.Crc Fit.Go2Lean

theorem C04_go2lean_compute (c crc b : Nat) (hc : crc < 2 ^ 16) :
    Go.crc16.crc16.compute c crc b = some (compute crc b) := crc_compute c crc b hc

theorem C04_go2lean_write (c : Nat) (p : List Nat) (hc : c < 2 ^ 16) :
    Go.crc16.crc16.Write c p = some (write c p, (p.length : Int)) := crc_write c p hc

theorem C04_go2lean_sum16 (c : Nat) : Go.crc16.crc16.Sum16 c = sum16 c := crc_sum16 c

end Fit.C04
