import FitProps.LinkLemmasHistRec
/-!
LINK (C) ↔ (D'): the API state machine `FitModel/DecoderApi.lean` (`DecApi.run`, the object of C03 / C07) against the history
programs of `FitModel/DecHist.lean` (the object of `C08_chunk_indep_ops`) run on the exact-n reader over the same bytes —
call by call, in the common observable `Tok` (what every call returns at framing level: FIT header / CRC, file header,
"a file id", nil, `Next`'s bool, verdict of `CheckIntegrity`, error class — the two end-of-stream errors one class).

Here: the definitions (`Tok`, `tokH`, `tokC`, `apiOp`, `fitsC`, `foldDone`), the state correspondence between the two models between
two calls (`Rel`: options, remaining stream, sticky error, the `sync.Once` of the header with the header it decoded, position in the
sequence, running checksum, "a byte was consumed", empty tables / accumulator at a sequence boundary, (D')'s events = those of the
completed `Decode` calls with the entries `apiOf` rebuilds from them), the header (`fileHeaderH_wp`, `headerOnce_link`),
`discardMessages` (`discard_link`), the dead decoder (`run_dead`, `fitsC_dead`), `Decode` (`decode_link`, over `messagesH_link` of
`LinkLemmasHistRec.lean`), `CheckIntegrity` (`ci_link`) and the sequencing theorem `run_link` for call lists `linkedL`: `Decode`,
`DecodeWithContext` (live / cancelled before the call), `PeekFileHeader`, `Discard`, `Next`, then possibly one `CheckIntegrity`.
-/
set_option linter.unusedSimpArgs false
set_option linter.unusedVariables false

namespace Fit.LinkH
open Fit.DecApi Fit.Link Fit.ReadBuffer
open Fit.Gen.DecApi (reservedbuf)

/-! ### the common observable -/

/-- what a call returns, as far as both models tell it -/
inductive Tok
  | fit (h : DecApi.Hdr) (crc : Nat)
  | header (h : DecApi.Hdr)
  | fileId
  | done
  | bool (b : Bool)
  | integrity (seq : Nat) (e : Option DecApi.Err)
  | err (e : DecApi.Err)
  | panic
  | hang
  deriving DecidableEq, Repr

def hdrOf (h : DecProg.Hdr) : DecApi.Hdr := ⟨h.size, h.protoVer, h.profileVer, h.dataSize, h.crc⟩

/-- the sticky error of (D') as (C) names it -/
def errH : DecHist.HErr → DecApi.Err
  | .dec e => errC e
  | .ctx => .ctx

/-- a result of (D') in the common observable -/
def tokH : DecHist.OpRes → Tok
  | .fit h c _ => .fit (hdrOf h) c
  | .header h => .header (hdrOf h)
  | .fileId _ => .fileId
  | .done => .done
  | .bool b => .bool b
  | .integrity n e => .integrity n (e.map errH)
  | .err e => .err (errH e)

/-- a result of (C) in the common observable -/
def tokC : DecApi.Out → Tok
  | .fit f => .fit f.hdr f.crc
  | .header h => .header h
  | .fileId _ => .fileId
  | .done => .done
  | .bool b => .bool b
  | .integrity n e => .integrity n e
  | .err e => .err e
  | .panic => .panic
  | .hang => .hang

/-- the call of (C) a call of (D') stands for -/
def apiOp : DecHist.Op → DecApi.Op
  | .decode => .decode
  | .decodeCtx c => .decodeCtx c
  | .decodeCtxAt k => .decodeCtxAt k
  | .peekHeader => .peekHeader
  | .peekFileId => .peekFileId
  | .discard => .discard
  | .next => .next
  | .checkIntegrity => .checkIntegrity

theorem errH_merge (e : DecHist.HErr) : errH e.merge = errH e := by
  cases e with
  | ctx => rfl
  | dec e => cases e <;> rfl

theorem tokH_merge (r : DecHist.OpRes) : tokH r.merge = tokH r := by
  cases r with
  | integrity n e => cases e <;> simp [DecHist.OpRes.merge, tokH, errH_merge]
  | err e => simp [DecHist.OpRes.merge, tokH, errH_merge]
  | _ => rfl

theorem tokH_merge_list (o : DecHist.Out) : o.merge.res.map tokH = o.res.map tokH := by
  simp only [DecHist.Out.merge, List.map_map]
  apply List.map_congr_left
  intro r _
  exact tokH_merge r

/-- the per-call tokens of (C)'s run -/
def toksC (a : Api) (ops : List DecApi.Op) : List Tok := (DecApi.run a ops).map fun p => tokC p.1

theorem toksC_nil (a : Api) : toksC a [] = [] := rfl

theorem toksC_cons (a : Api) (op : DecApi.Op) (ops : List DecApi.Op) :
    toksC a (op :: ops) = tokC (DecApi.step a op).2.1 :: toksC (DecApi.step a op).1 ops := rfl

/-! ### the file header, for every client -/

/-- `decodeFileHeader` of (D') on the exact-n reader, by cases of (B)'s `decodeFileHeader` on the same bytes (the statement of
`fileHeader_wp` for the result-type-polymorphic copy of `DecHist`) -/
theorem fileHeaderH_wp {α : Type} {Φ : α → Prop} (chk : Bool) (onFirst : RErr → Prog α) (onErr : DecProg.Err → Prog α)
    (k : DecProg.Hdr → Prog α) (bs : Bytes)
    (hfirst : bs = [] → Φ (runExact (onFirst .eof) []))
    (herr : ∀ e' r, bs ≠ [] → Integrity.decodeFileHeader chk bs = .error (errB e') → e'.endsIteration = true →
      Φ (runExact (onErr e') r))
    (hok : ∀ h rest, Integrity.decodeFileHeader chk bs = .ok (h, rest) →
      Φ (runExact (k ⟨h.size, ((bs.drop 1).take (h.size - 1)).headD 0,
        DecProg.le16 (((bs.drop 1).take (h.size - 1)).drop 1), h.dataSize, h.crc⟩) rest)) :
    Φ (runExact (DecHist.fileHeader chk onFirst onErr k) bs) := by
  unfold DecHist.fileHeader
  cases bs with
  | nil =>
    rw [runExact_read_short _ _ _ (by simp)]
    exact hfirst rfl
  | cons size rest =>
    have hne : size :: rest ≠ [] := by simp
    rw [runExact_read_ok _ _ _ (by simp)]
    dsimp only
    generalize hx : (List.take 1 (size :: rest)).headD 0 = x
    have hx' : x = size := hx.symm
    subst hx'
    have hd1 : List.drop 1 (x :: rest) = rest := rfl
    rw [hd1] at hok ⊢
    by_cases hsz : x ≠ 12 ∧ x ≠ 14
    · rw [if_pos hsz]
      exact herr .notFit _ hne (by simp [Integrity.decodeFileHeader, hsz, errB]) rfl
    rw [if_neg hsz]
    by_cases hl : x - 1 ≤ rest.length
    · rw [runExact_read_ok _ _ _ hl]
      dsimp only
      by_cases htag : (List.drop 7 (List.take (x - 1) rest)).take 4 ≠ Fit.Gen.Integ.dataTypeFIT
      · rw [if_pos htag]
        exact herr .notFit _ hne (by simp [Integrity.decodeFileHeader, hsz, hasN_true hl, htag, errB]) rfl
      rw [if_neg htag]
      by_cases hds : DecProg.le32 (List.drop 3 (List.take (x - 1) rest)) = 0
      · rw [if_pos hds]
        rw [le32_eq] at hds
        exact herr .notFit _ hne (by simp [Integrity.decodeFileHeader, hsz, hasN_true hl, htag, hds, errB]) rfl
      rw [if_neg hds]
      simp only [le32_eq, le16_eq] at hds ⊢
      have hB := hdrB_cons chk x rest hsz hl htag hds
      by_cases hc : (if x = 14 then Integrity.le16 (List.drop 11 (List.take (x - 1) rest)) else 0) = 0 ∨ chk = false
      · rw [if_pos hc] at hB ⊢
        have := hok _ _ hB
        simpa only [le16_eq] using this
      · rw [if_neg hc] at hB ⊢
        by_cases hw : Crc.write (Crc.write 0 [x]) (List.take (x - 1 - 2) (List.take (x - 1) rest)) ≠
            (if x = 14 then Integrity.le16 (List.drop 11 (List.take (x - 1) rest)) else 0)
        · rw [if_pos hw] at hB ⊢
          exact herr .crc _ hne hB rfl
        · rw [if_neg hw] at hB ⊢
          have := hok _ _ hB
          simpa only [le16_eq] using this
    · rw [runExact_read_short _ _ _ (by omega)]
      dsimp only
      exact herr _ _ hne (by simp [Integrity.decodeFileHeader, hsz, hasN_false' (Nat.lt_of_not_le hl), errB])
        (by split <;> rfl)

/-! ### `decodeFileHeaderOnce` -/

/-- what a successful `decodeFileHeaderOnce` leaves in the two models (`d`, `s` before; `h`, `d'`, `s1` after) -/
structure HdrPost (d : DecHist.Dec) (s : St) (h : DecProg.Hdr) (d' : DecHist.Dec) (s1 : St) : Prop where
  hdr : d'.hdr = some h
  chk : d'.chk = d.chk
  err : d'.err = d.err
  res : d'.res = d.res
  evs : d'.st.evs = d.st.evs
  cur : d'.st.cur = 0
  fileId : d'.fileId = d.fileId
  fresh : d.hdr = none → d'.moved = true ∧ s1.rest.length < s.rest.length
  old : d.hdr ≠ none → d' = d ∧ s1 = s
  o : s1.o = s.o
  look : s1.look = s.look
  qhdr : s1.q.hdr = hdrOf h
  qdone : s1.q.hdrDone = true
  qcur : s1.q.cur = 0
  qcrc : s1.q.crc16 = 0
  qerr : s1.q.err = none
  small : h.dataSize < 4294967296
  bytes : DecApi.IsBytes s1.rest
  crc : d'.st.crc = 0
  defs : d'.st.defs = d.st.defs
  descs : d'.st.descs = d.st.descs
  qts : s1.q.ts = s.q.ts
  qoff : s1.q.lastOff = s.q.lastOff
  qacc : s1.q.acc = s.q.acc
  qmsgs : s1.q.msgs = s.q.msgs
  qfid : s1.q.fileId = s.q.fileId

/-- `decodeFileHeaderOnce` inside a call: (C)'s `headerOnce` on a state whose stream is what (D')'s exact-n reader still
holds, against (D')'s `headerOnce`, for every client -/
theorem headerOnce_link {α : Type} (chk : Bool) (d : DecHist.Dec) (onFirst : RErr → Prog α) (onErr : DecProg.Err → DecHist.Dec → Prog α)
    (k : DecProg.Hdr → DecHist.Dec → Prog α) (s : St)
    (hchk : s.o.chk = chk) (herr : s.q.err = none) (hcrc : s.q.crc16 = 0) (hcur : s.q.cur = 0) (hb : DecApi.IsBytes s.rest)
    (hhdr : match d.hdr with
      | none => s.q.hdrDone = false
      | some h => s.q.hdrDone = true ∧ s.q.hdr = hdrOf h ∧ d.st.cur = 0 ∧ h.dataSize < 4294967296 ∧ d.st.crc = 0) :
    match headerOnce s with
    | .ok s1 => ∃ h d', HdrPost d s h d' s1 ∧
        runExact (DecHist.headerOnce chk d onFirst onErr k) s.rest = runExact (k h d') s1.rest
    | .err e => d.hdr = none ∧
        ((s.rest = [] ∧ e = .eof ∧ runExact (DecHist.headerOnce chk d onFirst onErr k) s.rest = runExact (onFirst .eof) []) ∨
         (∃ e' r, s.rest ≠ [] ∧ errC e' = e ∧ e'.endsIteration = true ∧
            runExact (DecHist.headerOnce chk d onFirst onErr k) s.rest = runExact (onErr e' { d with moved := true }) r))
    | .panic => False
    | .hang => False := by
  unfold DecHist.headerOnce DecApi.headerOnce
  cases hd : d.hdr with
  | some h =>
    rw [hd] at hhdr
    obtain ⟨h1, h2, h3, h4, h5⟩ := hhdr
    simp only [h1, if_true, herr]
    refine ⟨h, d, ⟨hd, rfl, rfl, rfl, rfl, h3, rfl, ?_, ?_, rfl, rfl, h2, h1, hcur, hcrc, herr, h4, hb, h5, rfl, rfl, rfl, rfl, rfl, rfl, rfl⟩, rfl⟩
    · intro hn; rw [hd] at hn; cases hn
    · intro _; exact ⟨rfl, rfl⟩
  | none =>
    rw [hd] at hhdr
    simp only at hhdr
    simp only [hhdr, Bool.false_eq_true, if_false]
    rw [decodeFileHeader_eq s hcrc, hchk]
    cases hB : Integrity.decodeFileHeader chk s.rest with
    | error e =>
      dsimp only
      refine ⟨trivial, ?_⟩
      apply fileHeaderH_wp (Φ := fun x => (s.rest = [] ∧ errBC e = .eof ∧ x = runExact (onFirst .eof) []) ∨
         (∃ e' r, s.rest ≠ [] ∧ errC e' = errBC e ∧ e'.endsIteration = true ∧ x = runExact (onErr e' { d with moved := true, hdr := none }) r))
      · intro hnil
        rw [hnil] at hB
        cases hB
        exact Or.inl ⟨hnil, rfl, rfl⟩
      · intro e' r hne he hends
        rw [hB] at he
        cases he
        exact Or.inr ⟨e', r, hne, errC_eq e', hends, rfl⟩
      · intro h rest he
        rw [hB] at he
        cases he
    | ok p =>
      obtain ⟨hB', rest⟩ := p
      dsimp only
      have hok := Integrity.decodeFileHeader_ok hB
      have hds := hdr_dataSize_lt hB hb
      apply fileHeaderH_wp (Φ := fun x => ∃ h d', HdrPost d s h d'
          { s with rest := rest, q := { s.q with hdr := hdrC hB' s.rest, crc16 := 0, hdrDone := true } } ∧ x = runExact (k h d') rest)
      · intro hnil
        rw [hnil] at hB
        cases hB
      · intro e' r _ he _
        rw [hB] at he
        cases he
      · intro h rest' he
        rw [hB] at he
        cases he
        refine ⟨_, _, ?_, rfl⟩
        refine ⟨rfl, rfl, rfl, rfl, rfl, rfl, rfl, fun _ => ⟨rfl, ?_⟩, fun hn => absurd hd hn, rfl, rfl, rfl, rfl, hcur, rfl, herr, hds, ?_, rfl, rfl, rfl, rfl, rfl, rfl, rfl, rfl⟩
        · show rest.length < s.rest.length
          rw [hok.2.2.2.1, List.length_drop]; have := hok.1; have := hok.2.2.1; omega
        · show DecApi.IsBytes rest
          rw [hok.2.2.2.1]; exact IsBytes.drop' hb _

/-! ### `discardMessages` -/

theorem rb_eq : Fit.Gen.Integ.reservedbuf = Fit.Gen.DecApi.reservedbuf := rfl

/-- `discardMessages` of (C) against (D')'s, any checksum setting, for every client -/
theorem discard_link {α : Type} (fl : DecProg.St → DecProg.Err → Prog α) (k : DecProg.St → Prog α) (ds : Nat) (hds : ds < 4294967296) :
    ∀ (fuelC fuelH : Nat) (s : St) (st : DecProg.St), st.cur = s.q.cur → s.q.hdr.dataSize = ds → s.q.cur ≤ ds →
      s.rest.length < fuelC → ds ≤ st.cur + fuelH →
    match discardMessages fuelC s with
    | .ok s' => ∃ st', st'.evs = st.evs ∧ s'.rest.length ≤ s.rest.length ∧ s'.o = s.o ∧ (DecApi.IsBytes s.rest → DecApi.IsBytes s'.rest) ∧
        (st.crc = s.q.crc16 → st'.crc = s'.q.crc16) ∧ s'.q.err = s.q.err ∧
        runExact (DecHist.discard fl s.o.chk ds fuelH st k) s.rest = runExact (k st') s'.rest
    | .err e => e = .eof ∧ ∃ st' e' r, st'.evs = st.evs ∧
        runExact (DecHist.discard fl s.o.chk ds fuelH st k) s.rest = runExact (fl st' (.io e')) r
    | .panic => False
    | .hang => False := by
  intro fuelC
  induction fuelC with
  | zero => intro fuelH s st _ _ _ hf; omega
  | succ fuelC ih =>
    intro fuelH s st hcur hd hle hfC hfH
    unfold discardMessages
    by_cases hlt : s.q.cur < s.q.hdr.dataSize
    · simp only [hlt, if_true]
      have hltH : st.cur < ds := by rw [hcur, ← hd]; exact hlt
      obtain ⟨f, rfl⟩ : ∃ f, fuelH = f + 1 := ⟨fuelH - 1, by omega⟩
      unfold DecHist.discard
      simp only [hltH, if_true]
      unfold DecHist.rdN
      have hsz : min (s.q.hdr.dataSize - s.q.cur) reservedbuf ≤ reservedbuf := Nat.min_le_right _ _
      have hrb : reservedbuf = 765 := rfl
      have hrb' : Fit.Gen.Integ.reservedbuf = 765 := rfl
      rw [readN_eq _ s hsz]
      have hsize : min (ds - st.cur) Fit.Gen.Integ.reservedbuf = min (s.q.hdr.dataSize - s.q.cur) reservedbuf := by
        rw [hcur, hd, hrb, hrb']
      rw [hsize]
      generalize hn : min (s.q.hdr.dataSize - s.q.cur) reservedbuf = n at hsz ⊢
      have hn1 : 1 ≤ n := by rw [← hn, hrb]; omega
      have hn2 : s.q.cur + n ≤ ds := by rw [← hn, hd]; omega
      by_cases hl : n ≤ s.rest.length
      · rw [if_pos hl, runExact_read_ok _ _ _ hl]
        simp only [Bind.bind, Res.bind]
        have := ih f { s with rest := s.rest.drop n, q := { s.q with cur := (s.q.cur + n) % 4294967296, crc16 := (if s.o.chk then Crc.write s.q.crc16 (s.rest.take n) else s.q.crc16) } }
          { st with cur := st.cur + n, crc := (if s.o.chk then Crc.write st.crc (s.rest.take n) else st.crc) }
          (by show st.cur + n = (s.q.cur + n) % 4294967296; rw [Nat.mod_eq_of_lt (by omega), hcur]) hd
          (by show (s.q.cur + n) % 4294967296 ≤ ds; rw [Nat.mod_eq_of_lt (by omega)]; exact hn2)
          (by show (s.rest.drop n).length < fuelC; rw [List.length_drop]; omega)
          (by show ds ≤ st.cur + n + f; omega)
        revert this
        cases discardMessages fuelC _ with
        | ok s' =>
          dsimp only
          rintro ⟨st', h1, h2, h3, h4, h5, h7, h6⟩
          refine ⟨st', h1, ?_, h3, ?_, ?_, h7, h6⟩
          · simp only [List.length_drop] at h2; omega
          · intro hb; exact h4 (IsBytes.drop' hb n)
          · intro hc; apply h5; show (if s.o.chk then _ else _) = (if s.o.chk then _ else _); rw [hc]
        | err e =>
          dsimp only
          rintro ⟨h1, st', e', r, h2, h3⟩
          exact ⟨h1, st', e', r, h2, h3⟩
        | panic => exact id
        | hang => exact id
      · rw [if_neg hl, runExact_read_short _ _ _ (by omega)]
        exact ⟨rfl, st, _, [], rfl, rfl⟩
    · rw [if_neg hlt]
      dsimp only
      have hnH : ¬ st.cur < ds := by rw [hcur, ← hd]; exact hlt
      refine ⟨st, rfl, Nat.le_refl _, rfl, id, id, rfl, ?_⟩
      cases fuelH with
      | zero => simp [DecHist.discard]
      | succ f => simp [DecHist.discard, hnH]

/-! ### values: the FITs and listener calls of the successful `Decode` calls -/

def isFit : DecApi.Out → Bool
  | .fit _ => true
  | _ => false

/-- the successful `Decode` calls of (C)'s run, in order: the returned FIT (header, messages with VALUES, developer fields, CRC)
and the listener calls made during the call (reserved byte of definitions zeroed: (D') does not observe it) -/
def fitsC (a : Api) (ops : List DecApi.Op) : List (Out × List Event) :=
  normCalls ((DecApi.run a ops).filter fun p => isFit p.1)

/-- the same rebuilt from (D')'s events by `apiOf`'s reconstruction (`iStep`): one entry per completed sequence -/
def foldDone (o : Opts) (evs : List DecProg.Ev) : List (Out × List Event) :=
  (evs.foldl iStep { t := St.fresh o [] }).done

theorem fitsC_nil (a : Api) : fitsC a [] = [] := rfl

theorem fitsC_cons (a : Api) (op : DecApi.Op) (ops : List DecApi.Op) :
    fitsC a (op :: ops) = (bif isFit (DecApi.step a op).2.1 then
      [((DecApi.step a op).2.1, (DecApi.step a op).2.2.map normEvent)] else []) ++ fitsC (DecApi.step a op).1 ops := by
  unfold fitsC
  have : DecApi.run a (op :: ops) = ((DecApi.step a op).2.1, (DecApi.step a op).2.2) :: DecApi.run (DecApi.step a op).1 ops := rfl
  rw [this, List.filter_cons]
  cases h : isFit (DecApi.step a op).2.1 <;> simp [normCalls, h]

/-! ### the dead decoder -/

theorem tok_sticky (eH : DecHist.HErr) (op : DecHist.Op) : tokC (stickyOut (errH eH) (apiOp op)) = tokH (DecHist.stickyRes eH op) := by
  cases op <;> rfl

/-- a decoder with a sticky error answers every call of (D')'s alphabet the same way in both models -/
theorem run_dead (eH : DecHist.HErr) : ∀ (ops : List DecHist.Op) (a : Api), a.d.q.err = some (errH eH) →
    toksC a (ops.map apiOp) = (ops.map (DecHist.stickyRes eH)).map tokH := by
  intro ops
  induction ops with
  | nil => intro a _; rfl
  | cons op ops ih =>
    intro a ha
    have hs := step_sticky a (errH eH) ha (apiOp op) (by cases op <;> intro _ _ h <;> cases h)
    rw [List.map_cons, toksC_cons, hs.2, ih a ha]
    have : (DecApi.step a (apiOp op)).2.1 = stickyOut (errH eH) (apiOp op) := by rw [hs.1]
    rw [this, tok_sticky]
    rfl

theorem fitsC_dead (eH : DecHist.HErr) : ∀ (ops : List DecHist.Op) (a : Api), a.d.q.err = some (errH eH) →
    fitsC a (ops.map apiOp) = [] := by
  intro ops
  induction ops with
  | nil => intro a _; rfl
  | cons op ops ih =>
    intro a ha
    have hs := step_sticky a (errH eH) ha (apiOp op) (by cases op <;> intro _ _ h <;> cases h)
    rw [List.map_cons, fitsC_cons, hs.2, ih a ha]
    have : (DecApi.step a (apiOp op)).2.1 = stickyOut (errH eH) (apiOp op) := by rw [hs.1]
    rw [this]
    cases op <;> rfl

/-- the end of a history program on a dead decoder, against (C)'s run from a dead decoder -/
theorem finish_dead (d : DecHist.Dec) (eH : DecHist.HErr) (hd : d.err = some eH) (a : Api) (ha : a.d.q.err = some (errH eH))
    (ops : List DecHist.Op) :
    (DecHist.finish d ops).res.map tokH = d.res.reverse.map tokH ++ toksC a (ops.map apiOp) := by
  rw [run_dead eH ops a ha]
  simp only [DecHist.finish, hd, List.map_append]

/-! ### the state correspondence between two calls -/

/-- (D')'s decoder object `d` and (C)'s `a` between two calls, outside a sequence's records (the remaining stream of (D') is
`a.d.rest`): options, no sticky error, "a byte was consumed", the `sync.Once` and the header it decoded, position 0 in the
sequence, running checksum 0 -/
structure Rel (o : Opts) (fu : Nat) (done : List (Out × List Event)) (d : DecHist.Dec) (a : Api) : Prop where
  opts : a.d.o = o
  chk : d.chk = o.chk
  err : a.d.q.err = none
  derr : d.err = none
  bytes : DecApi.IsBytes a.d.rest
  moved : d.moved = !(a.n == 0)
  cur : a.d.q.cur = 0
  crc : a.d.q.crc16 = 0
  hm : d.hdr ≠ none → d.moved = true
  hdr : match d.hdr with
    | none => a.d.q.hdrDone = false
    | some h => a.d.q.hdrDone = true ∧ a.d.q.hdr = hdrOf h ∧ d.st.cur = 0 ∧ h.dataSize < 4294967296 ∧ d.st.crc = 0
  small : a.d.rest.length < 4294967296
  look : a.d.look = {}
  qts : a.d.q.ts = 0
  qoff : a.d.q.lastOff = 0
  qacc : a.d.q.acc = []
  qmsgs : a.d.q.msgs = []
  qfid : a.d.q.fileId = none
  defs : d.st.defs = []
  descs : d.st.descs = []
  /-- the events so far are those of completed `Decode` calls: the reconstruction `apiOf` stands at a sequence boundary -/
  evs : ∃ tt, d.st.evs.reverse.foldl iStep { t := St.fresh o [] } = { t := tt, done := done, pend := [], bad := false } ∧
    tt.o = o ∧ tt.q = {} ∧ tt.look = {}
  /-- the bound on the sequences `CheckIntegrity` walks exceeds what is left of the stream -/
  fuel : a.d.rest.length < fu

/-- the calls the link covers: everything but `PeekFileId`, `DecodeWithContext` cancelled while it runs, and `CheckIntegrity` -/
def linked : DecHist.Op → Bool
  | .decode => true
  | .decodeCtx _ => true
  | .peekHeader => true
  | .discard => true
  | .next => true
  | _ => false

/-- the call lists the link covers: linked calls, then possibly one `CheckIntegrity` (the program of (D') ends with it: the
reader has to be re-seeked) -/
def linkedL : List DecHist.Op → Bool
  | [] => true
  | op :: ops => (linked op && linkedL ops) || (decide (op = .checkIntegrity) && ops.isEmpty)

theorem linkedL_tail {op : DecHist.Op} {ops : List DecHist.Op} (h : linkedL (op :: ops) = true) : linkedL ops = true := by
  simp only [linkedL, Bool.or_eq_true, Bool.and_eq_true, decide_eq_true_eq, List.isEmpty_iff] at h
  rcases h with h | h
  · exact h.2
  · rw [h.2]; rfl

theorem linkedL_head {op : DecHist.Op} {ops : List DecHist.Op} (h : linkedL (op :: ops) = true) :
    linked op = true ∨ (op = .checkIntegrity ∧ ops = []) := by
  simp only [linkedL, Bool.or_eq_true, Bool.and_eq_true, decide_eq_true_eq, List.isEmpty_iff] at h
  rcases h with h | h
  · exact Or.inl h.1
  · exact Or.inr h

theorem linkedL_of_all {ops : List DecHist.Op} (h : ∀ op ∈ ops, linked op = true) : linkedL ops = true := by
  induction ops with
  | nil => rfl
  | cons op ops ih =>
    simp only [linkedL, Bool.or_eq_true, Bool.and_eq_true]
    exact Or.inl ⟨h op (by simp), ih (fun x hx => h x (by simp [hx]))⟩

theorem Rel.new (o : Opts) (fu : Nat) (bs : List Nat) (hb : DecApi.IsBytes bs) (hlen : bs.length < 4294967296) (hfu : bs.length < fu) :
    Rel o fu [] { chk := o.chk } (Api.fresh o bs) :=
  ⟨rfl, rfl, rfl, rfl, hb, rfl, rfl, rfl, fun h => absurd rfl h, rfl, hlen, rfl, rfl, rfl, rfl, rfl, rfl, rfl, rfl,
    ⟨St.fresh o [], rfl, rfl, rfl, rfl⟩, hfu⟩

/-- after a successful `decodeFileHeaderOnce` inside a call that leaves the decoder behind the header -/
theorem Rel.afterHeader {o : Opts} {fu : Nat} {done : List (Out × List Event)} {d : DecHist.Dec} {a : Api} (hr : Rel o fu done d a) {h : DecProg.Hdr} {d' : DecHist.Dec} {s1 : St}
    (hp : HdrPost d a.d h d' s1) (r : DecHist.OpRes) : Rel o fu done { d' with res := r :: d'.res } (a.advance s1) := by
  have hlen1 : s1.rest.length ≤ a.d.rest.length := by
    by_cases hn : d.hdr = none
    · have := (hp.fresh hn).2; omega
    · rw [(hp.old hn).2]; exact Nat.le_refl _
  refine ⟨by show s1.o = o; rw [hp.o, hr.opts], by show d'.chk = o.chk; rw [hp.chk, hr.chk], hp.qerr,
    by show d'.err = none; rw [hp.err, hr.derr], hp.bytes, ?_, hp.qcur, hp.qcrc, ?_, ?_,
    by show s1.rest.length < _; have := hr.small; omega, by show s1.look = {}; rw [hp.look, hr.look],
    by show s1.q.ts = 0; rw [hp.qts, hr.qts], by show s1.q.lastOff = 0; rw [hp.qoff, hr.qoff],
    by show s1.q.acc = []; rw [hp.qacc, hr.qacc], by show s1.q.msgs = []; rw [hp.qmsgs, hr.qmsgs],
    by show s1.q.fileId = none; rw [hp.qfid, hr.qfid], by show d'.st.defs = []; rw [hp.defs, hr.defs],
    by show d'.st.descs = []; rw [hp.descs, hr.descs], by show ∃ tt, d'.st.evs.reverse.foldl _ _ = _ ∧ _; rw [hp.evs]; exact hr.evs,
    by show s1.rest.length < fu; have := hr.fuel; omega⟩
  · show d'.moved = !(a.n + (a.d.rest.length - s1.rest.length) == 0)
    by_cases hn : d.hdr = none
    · obtain ⟨h1, h2⟩ := hp.fresh hn
      rw [h1]
      have : (a.n + (a.d.rest.length - s1.rest.length) == 0) = false := by
        rw [beq_eq_false_iff_ne]; omega
      rw [this]; rfl
    · obtain ⟨h1, h2⟩ := hp.old hn
      rw [h1, h2, hr.moved]
      simp
  · intro _
    show d'.moved = true
    by_cases hn : d.hdr = none
    · exact (hp.fresh hn).1
    · rw [(hp.old hn).1]; exact hr.hm hn
  · show match d'.hdr with | none => _ | some h => _
    rw [hp.hdr]
    exact ⟨hp.qdone, hp.qhdr, hp.cur, hp.small, hp.crc⟩

theorem failOp_res (o : Opts) (done : List (Out × List Event)) (d : DecHist.Dec) (ops : List DecHist.Op) (st : DecProg.St)
    (e : DecProg.Err) (r : Bytes) (a : Api) (ha : a.d.q.err = some (errC e)) (hd : foldDone o st.evs.reverse = done) :
    (runExact (DecHist.failOp d ops st e) r).res.map tokH = d.res.reverse.map tokH ++ Tok.err (errC e) :: toksC a (ops.map apiOp) ∧
    foldDone o (runExact (DecHist.failOp d ops st e) r).evs = done ++ fitsC a (ops.map apiOp) := by
  unfold DecHist.failOp
  simp only [runExact]
  constructor
  · rw [finish_dead _ (.dec e) rfl a ha]
    simp [tokH, errH]
  · rw [fitsC_dead (.dec e) ops a ha]
    simpa [DecHist.finish] using hd

theorem hdrFail_res (o : Opts) (done : List (Out × List Event)) (d : DecHist.Dec) (ops : List DecHist.Op) (e : DecProg.Err) (r : Bytes)
    (a : Api) (ha : a.d.q.err = some (errC e)) (hd : foldDone o d.st.evs.reverse = done) :
    (runExact (DecHist.hdrFail d ops e) r).res.map tokH = d.res.reverse.map tokH ++ Tok.err (errC e) :: toksC a (ops.map apiOp) ∧
    foldDone o (runExact (DecHist.hdrFail d ops e) r).evs = done ++ fitsC a (ops.map apiOp) :=
  failOp_res o done d ops d.st e r a ha hd

theorem Rel.withRes {o : Opts} {fu : Nat} {done : List (Out × List Event)} {d : DecHist.Dec} {a : Api} (hr : Rel o fu done d a) (r : List DecHist.OpRes) : Rel o fu done { d with res := r } a :=
  ⟨hr.opts, hr.chk, hr.err, hr.derr, hr.bytes, hr.moved, hr.cur, hr.crc, hr.hm, hr.hdr, hr.small, hr.look, hr.qts, hr.qoff, hr.qacc,
    hr.qmsgs, hr.qfid, hr.defs, hr.descs, hr.evs, hr.fuel⟩

theorem Rel.foldDone {o : Opts} {fu : Nat} {done : List (Out × List Event)} {d : DecHist.Dec} {a : Api} (hr : Rel o fu done d a) :
    foldDone o d.st.evs.reverse = done := by
  obtain ⟨tt, h, _⟩ := hr.evs
  unfold LinkH.foldDone
  rw [h]

theorem follows_foldDone {o : Opts} {s : St} {st : DecProg.St} {done : List (Out × List Event)} {pend : List Event}
    (h : Follows o s st done pend) : foldDone o st.evs.reverse = done := by
  obtain ⟨t, h1, _⟩ := h
  unfold foldDone
  rw [h1]

theorem step_lift_next (a : Api) : DecApi.step a .next =
    (a.advance (stepNext (a.n == 0) a.d).1, (stepNext (a.n == 0) a.d).2.1, (stepNext (a.n == 0) a.d).2.2) := rfl

theorem opts_restore (o : Opts) : ({ ({ o with chk := false } : Opts) with chk := o.chk } : Opts) = o := by cases o; rfl


theorem step_lift_decode (a : Api) : DecApi.step a .decode =
    (a.advance (stepDecode a.d).1, (stepDecode a.d).2.1, (stepDecode a.d).2.2) := rfl

/-- `Decode` / `DecodeWithContext` (context live) from corresponding states: header (once), the record loop
(`messagesH_link`), the file CRC, `reset()`; `ih` = the remaining calls from corresponding states -/
theorem decode_link (o : Opts) (hfac : FacOK o.fac) (hbt : facBtOK o.fac = true) (hfd : facFdOK o.fac = true) (fuelCi : Nat)
    (ops : List DecHist.Op)
    (fu : Nat) (ih : ∀ (done : List (Out × List Event)) (d : DecHist.Dec) (a : Api), Rel o fu done d a →
      (runExact (DecHist.run fuelCi ops d) a.d.rest).res.map tokH = d.res.reverse.map tokH ++ toksC a (ops.map apiOp) ∧
      foldDone o (runExact (DecHist.run fuelCi ops d) a.d.rest).evs = done ++ fitsC a (ops.map apiOp))
    (done : List (Out × List Event)) (d : DecHist.Dec) (a : Api) (hr : Rel o fu done d a) :
    (runExact (DecHist.headerOnce d.chk d (fun e => DecHist.hdrFail d ops (.io e)) (fun e d => DecHist.hdrFail d ops e) fun h d =>
        DecHist.messages (DecHist.failOp d ops) d.chk h.dataSize h.dataSize d.fileId d.st fun _ st =>
          DecHist.fileCrc (DecHist.failOp d ops) d.chk st fun c =>
            DecHist.run fuelCi ops (d.renew (.seq h.size h.protoVer h.profileVer h.dataSize h.crc c st.msgs :: st.evs) (.fit h c st.msgs)))
      a.d.rest).res.map tokH =
      d.res.reverse.map tokH ++ tokC (decodeBody a.d).2.1 :: toksC (a.advance (decodeBody a.d).1) (ops.map apiOp) ∧
    foldDone o (runExact (DecHist.headerOnce d.chk d (fun e => DecHist.hdrFail d ops (.io e)) (fun e d => DecHist.hdrFail d ops e) fun h d =>
        DecHist.messages (DecHist.failOp d ops) d.chk h.dataSize h.dataSize d.fileId d.st fun _ st =>
          DecHist.fileCrc (DecHist.failOp d ops) d.chk st fun c =>
            DecHist.run fuelCi ops (d.renew (.seq h.size h.protoVer h.profileVer h.dataSize h.crc c st.msgs :: st.evs) (.fit h c st.msgs)))
      a.d.rest).evs =
      done ++ ((bif isFit (decodeBody a.d).2.1 then [((decodeBody a.d).2.1, (decodeBody a.d).2.2.map normEvent)] else []) ++
        fitsC (a.advance (decodeBody a.d).1) (ops.map apiOp)) := by
  have hlk := headerOnce_link d.chk d (fun e => DecHist.hdrFail d ops (.io e)) (fun e d => DecHist.hdrFail d ops e) (fun h d =>
        DecHist.messages (DecHist.failOp d ops) d.chk h.dataSize h.dataSize d.fileId d.st fun _ st =>
          DecHist.fileCrc (DecHist.failOp d ops) d.chk st fun c =>
            DecHist.run fuelCi ops (d.renew (.seq h.size h.protoVer h.profileVer h.dataSize h.crc c st.msgs :: st.evs) (.fit h c st.msgs)))
    a.d (by rw [hr.opts, hr.chk]) hr.err hr.crc hr.cur hr.bytes hr.hdr
  cases hh : headerOnce a.d with
  | ok s1 =>
    rw [hh] at hlk
    obtain ⟨h, d', hp, hrun⟩ := hlk
    rw [hrun, decodeBody_eq a.d s1 hh]
    obtain ⟨tt, hfold, hto, htq, htl⟩ := hr.evs
    have hs1o : s1.o = o := by rw [hp.o, hr.opts]
    have hlen1 : s1.rest.length ≤ a.d.rest.length := by
      by_cases hn : d.hdr = none
      · have := (hp.fresh hn).2; omega
      · rw [(hp.old hn).2]; exact Nat.le_refl _
    have hchk1 : d'.chk = s1.o.chk := by rw [hp.chk, hr.chk, hs1o]
    have hsm := hr.small
    have hcd : CD d'.chk s1 d'.st := ⟨hchk1.symm, by rw [hp.cur, hp.qcur], by rw [hp.crc, hp.qcrc], by rw [hp.qcur]; omega, hp.bytes⟩
    have hlook1 : s1.look = {} := by rw [hp.look, hr.look]
    have hT : Tables s1 d'.st := ⟨by rw [hp.defs, hr.defs, hlook1]; rfl, by rw [hp.descs, hr.descs, hlook1]; rfl⟩
    have hF : Follows o s1 d'.st done [] :=
      ⟨tt, by rw [hp.evs]; exact hfold, ⟨by rw [hto, hs1o], ⟨by rw [htl, hlook1], by rw [htl, hlook1], by rw [htl, hlook1]; rfl⟩,
        by rw [htq, hp.qts, hr.qts], by rw [htq, hp.qoff, hr.qoff], by rw [htq, hp.qacc, hr.qacc], by rw [htq, hp.qmsgs, hr.qmsgs],
        by rw [htq, hp.qfid, hr.qfid]⟩⟩
    have hi : Inv s1 := ⟨hp.bytes, by rw [hlook1]; exact DefsOK.empty, by rw [hp.qcur]; decide, by rw [hs1o]; exact hfac⟩
    have hml := messagesH_link (DecHist.failOp d' ops) (fun _ st =>
          DecHist.fileCrc (DecHist.failOp d' ops) d'.chk st fun c =>
            DecHist.run fuelCi ops (d'.renew (.seq h.size h.protoVer h.profileVer h.dataSize h.crc c st.msgs :: st.evs) (.fit h c st.msgs)))
      o d'.chk h.dataSize done (fuelOf s1) h.dataSize d'.fileId s1 d'.st [] hcd hT hF hi (by rw [hs1o]; exact hbt)
      (by rw [hs1o]; exact hfd) (by rw [hp.qhdr]; rfl) (by omega) (by simp [fuelOf])
    have hsat := decodeMessages_sat (fuelOf s1) s1 hi (by simp [fuelOf])
    rcases hdm : decodeMessages (fuelOf s1) s1 with ⟨s2, evs2, r⟩
    rw [hdm] at hml hsat
    obtain ⟨_, hi2, hr2, _⟩ := hsat
    dsimp only at hi2 hr2 hml
    obtain ⟨cc, hcc, _, _, ho2, hh2, _, _⟩ := hr2
    have hlen2 : s2.rest.length ≤ s1.rest.length := by rw [hcc, List.length_append]; omega
    cases r with
    | panic => exact hml.elim
    | hang => exact hml.elim
    | err e =>
      obtain ⟨st', e', r', he, hFe, hrun2⟩ := hml
      rw [hrun2]
      subst he
      have hfo := failOp_res o done d' ops st' e' r' (a.advance (release { s2 with q := { s2.q with err := some (errC e') } })) rfl
        (follows_foldDone hFe)
      refine ⟨?_, ?_⟩
      · rw [hfo.1]; simp [decodeTail, DecApi.fail, hp.res, tokC]
      · rw [hfo.2]; simp [decodeTail, DecApi.fail, isFit]
    | ok u =>
      cases u
      obtain ⟨f, st2, hcd2, hT2, hF2, hrun2⟩ := hml
      rw [hrun2]
      unfold DecHist.fileCrc
      simp only [decodeTail, decodeCRC_eq]
      have hchk2 : d'.chk = s2.o.chk := by rw [hchk1, ho2]
      have hfd2 := follows_foldDone hF2
      match hrest2 : s2.rest with
      | [] =>
        rw [runExact_read_short _ _ _ (by simp)]
        dsimp only
        have hfo := failOp_res o done d' ops st2 (.io (if ([] : Bytes).isEmpty then .eof else .unexpectedEof)) []
          (a.advance (release { s2 with q := { s2.q with err := some .eof } })) rfl hfd2
        refine ⟨?_, ?_⟩
        · rw [hfo.1]; simp [DecApi.fail, hp.res, tokC, errC]
        · rw [hfo.2]; simp [DecApi.fail, isFit]
      | [x] =>
        rw [runExact_read_short _ _ _ (by simp)]
        dsimp only
        have hfo := failOp_res o done d' ops st2 (.io (if ([x] : Bytes).isEmpty then .eof else .unexpectedEof)) []
          (a.advance (release { s2 with q := { s2.q with err := some .eof } })) rfl hfd2
        refine ⟨?_, ?_⟩
        · rw [hfo.1]; simp [DecApi.fail, hp.res, tokC, errC]
        · rw [hfo.2]; simp [DecApi.fail, isFit]
      | lo :: hi :: r3 =>
        rw [runExact_read_ok _ _ _ (by simp)]
        dsimp only
        have hle : DecProg.le16 (List.take 2 (lo :: hi :: r3)) = lo + 256 * hi := rfl
        have hd2 : List.drop 2 (lo :: hi :: r3) = r3 := rfl
        rw [hle, hd2, hcd2.crc, hchk2]
        by_cases hc : s2.o.chk = true ∧ s2.q.crc16 ≠ lo + 256 * hi
        · rw [if_pos hc, if_pos hc]
          have hfo := failOp_res o done d' ops st2 .crc r3 (a.advance (release { s2 with q := { s2.q with err := some .crc } })) rfl hfd2
          refine ⟨?_, ?_⟩
          · rw [hfo.1]; simp [DecApi.fail, hp.res, tokC, errC]
          · rw [hfo.2]; simp [DecApi.fail, isFit]
        · rw [if_neg hc, if_neg hc]
          dsimp only
          obtain ⟨t', hf', hsh'⟩ := hF2
          have hr3 : r3.length + 2 = s2.rest.length := by rw [hrest2]; simp
          have hrn : Rel o fu (done ++ [(.fit ⟨⟨h.size, h.protoVer, h.profileVer, h.dataSize, h.crc⟩, t'.q.msgs.reverse, lo + 256 * hi⟩,
              List.map normEvent ([] ++ evs2))]) (d'.renew (.seq h.size h.protoVer h.profileVer h.dataSize h.crc (lo + 256 * hi) st2.msgs :: st2.evs)
              (.fit h (lo + 256 * hi) st2.msgs))
              (a.advance (release (resetSeq { s2 with rest := r3, q := { s2.q with crc := lo + 256 * hi, crc16 := 0 } }))) := by
            refine ⟨by show s2.o = o; rw [ho2, hs1o], by show d'.chk = o.chk; rw [hp.chk, hr.chk], rfl, rfl, ?_, ?_, rfl, rfl,
              fun hn => absurd rfl hn, rfl, ?_, rfl, rfl, rfl, rfl, rfl, rfl, rfl, rfl, ?_, ?_⟩
            · show DecApi.IsBytes r3
              have := hi2.1
              rw [hrest2] at this
              exact fun x hx => this x (by simp [hx])
            · show true = !(a.n + (a.d.rest.length - r3.length) == 0)
              have : (a.n + (a.d.rest.length - r3.length) == 0) = false := by
                rw [beq_eq_false_iff_ne]; omega
              rw [this]; rfl
            · show r3.length < 4294967296
              omega
            · refine ⟨_, fold_snoc_seq _ _ _ _ _ hf' h.size h.protoVer h.profileVer h.dataSize h.crc (lo + 256 * hi) st2.msgs, ?_, rfl, rfl⟩
              show t'.o = o
              rw [hsh'.o, ho2, hs1o]
            · show r3.length < fu
              have := hr.fuel; omega
          have := ih _ _ _ hrn
          rw [show (a.advance (release (resetSeq { s2 with rest := r3, q := { s2.q with crc := lo + 256 * hi, crc16 := 0 } }))).d.rest = r3 from rfl] at this
          obtain ⟨ih1, ih2⟩ := this
          refine ⟨?_, ?_⟩
          · rw [ih1]
            simp [DecHist.Dec.renew, hp.res, tokH, tokC, hh2, hp.qhdr]
          · rw [ih2]
            simp [isFit, hsh'.msgs, hh2, hp.qhdr, hdrOf]
  | err e =>
    rw [hh] at hlk
    obtain ⟨_, hcase⟩ := hlk
    unfold decodeBody
    rw [hh]
    rcases hcase with ⟨_, he, hrun⟩ | ⟨e', r, _, he, _, hrun⟩
    · rw [hrun]; subst he
      have hfo := hdrFail_res o done d ops (.io .eof) [] (a.advance (failHeader a.d (Res.err .eof : Res St)).1) rfl hr.foldDone
      exact ⟨by rw [hfo.1]; rfl, by rw [hfo.2]; rfl⟩
    · rw [hrun]; subst he
      have hfo := hdrFail_res o done { d with moved := true } ops e' r (a.advance (failHeader a.d (Res.err (errC e') : Res St)).1) rfl hr.foldDone
      exact ⟨by rw [hfo.1]; rfl, by rw [hfo.2]; rfl⟩
  | panic => rw [hh] at hlk; exact hlk.elim
  | hang => rw [hh] at hlk; exact hlk.elim

/-! ### the sequencing theorem -/

/-! ### `CheckIntegrity` -/

/-- (C)'s `ciLoop` result as a token -/
def ciTok : Nat × Res Unit → Tok
  | (n, .ok _) => .integrity n none
  | (n, .err e) => .integrity n (some e)
  | (_, .panic) => .panic
  | (_, .hang) => .hang

/-- the loop of `CheckIntegrity` from the decoder's state (header possibly already decoded by a peek; `d.moved` ↔ `d.n ≠ 0`):
(D')'s `ciLoop` ends with the verdict (C)'s `ciLoop` gives, and adds no event -/
theorem ci_link (o : Opts) : ∀ (fuelH : Nat) (seq : Nat) (d : DecHist.Dec) (s : St) (posZero : Bool) (fuelC : Nat),
    s.o.chk = true → s.q.err = none → s.q.crc16 = 0 → s.q.cur = 0 → DecApi.IsBytes s.rest →
    (match d.hdr with
      | none => s.q.hdrDone = false
      | some h => s.q.hdrDone = true ∧ s.q.hdr = hdrOf h ∧ d.st.cur = 0 ∧ h.dataSize < 4294967296 ∧ d.st.crc = 0) →
    d.moved = !posZero → (d.hdr ≠ none → d.moved = true) → s.rest.length < fuelH → s.rest.length < fuelC →
    (runExact (DecHist.ciLoop fuelH seq d) s.rest).res.map tokH = d.res.reverse.map tokH ++ [ciTok (DecApi.ciLoop fuelC posZero seq s)] ∧
    foldDone o (runExact (DecHist.ciLoop fuelH seq d) s.rest).evs = foldDone o d.st.evs.reverse := by
  intro fuelH
  induction fuelH with
  | zero => intro seq d s pz fuelC _ _ _ _ _ _ _ _ hf; omega
  | succ fuelH ih =>
    intro seq d s pz fuelC hchk herr hcrc hcur hb hhdr hmoved hm hfH hfC
    obtain ⟨fc, rfl⟩ : ∃ fc, fuelC = fc + 1 := ⟨fuelC - 1, by omega⟩
    simp only [DecHist.ciLoop]
    unfold DecApi.ciLoop
    have hlk := headerOnce_link true d
      (fun e => if d.moved ∧ e = .eof then DecHist.ciVerdict seq d d.st none else DecHist.ciVerdict seq d d.st (some (.io e)))
      (fun e d => DecHist.ciVerdict seq d d.st (some e))
      (fun h d => DecHist.discard (fun st e => DecHist.ciVerdict seq d st (some e)) true h.dataSize h.dataSize d.st fun st =>
          DecHist.fileCrc (fun st e => DecHist.ciVerdict seq d st (some e)) true st fun _ =>
            DecHist.ciLoop fuelH (seq + 1) { d with hdr := none, st := { st with cur := 0, crc := 0 } })
      s hchk herr hcrc hcur hb hhdr
    cases hh : headerOnce s with
    | ok s1 =>
      rw [hh] at hlk
      obtain ⟨h, d', hp, hrun⟩ := hlk
      rw [hrun]
      dsimp only
      have hc1 : s1.o.chk = true := by rw [hp.o, hchk]
      have hlen1 : s1.rest.length ≤ s.rest.length := by
        by_cases hn : d.hdr = none
        · have := (hp.fresh hn).2; omega
        · rw [(hp.old hn).2]; exact Nat.le_refl _
      have hmv' : d'.moved = true := by
        by_cases hn : d.hdr = none
        · exact (hp.fresh hn).1
        · rw [(hp.old hn).1]; exact hm hn
      have hdl := discard_link (fun st e => DecHist.ciVerdict seq d' st (some e))
        (fun st => DecHist.fileCrc (fun st e => DecHist.ciVerdict seq d' st (some e)) true st fun _ =>
            DecHist.ciLoop fuelH (seq + 1) { d' with hdr := none, st := { st with cur := 0, crc := 0 } })
        h.dataSize hp.small (fuelOf s1) h.dataSize s1 d'.st (by rw [hp.cur, hp.qcur]) (by rw [hp.qhdr]; rfl)
        (by rw [hp.qcur]; omega) (by simp [fuelOf]) (by omega)
      rw [hc1] at hdl
      cases hdm : discardMessages (fuelOf s1) s1 with
      | ok s2 =>
        rw [hdm] at hdl
        obtain ⟨st', hevs, hlen2, ho2, hb2, hcrc2, herr2, hrun2⟩ := hdl
        rw [hrun2]
        dsimp only
        unfold DecHist.fileCrc
        rw [decodeCRC_eq]
        have hc2 : s2.o.chk = true := by rw [ho2, hc1]
        have hcrcS : st'.crc = s2.q.crc16 := hcrc2 (by rw [hp.crc, hp.qcrc])
        match hrest2 : s2.rest with
        | [] =>
          rw [runExact_read_short _ _ _ (by simp)]
          simp [DecHist.ciVerdict, runExact, tokH, errH, errC, ciTok, hp.res, hevs, hp.evs]
        | [x] =>
          rw [runExact_read_short _ _ _ (by simp)]
          simp [DecHist.ciVerdict, runExact, tokH, errH, errC, ciTok, hp.res, hevs, hp.evs]
        | lo :: hi :: r3 =>
          rw [runExact_read_ok _ _ _ (by simp)]
          dsimp only
          have hle : DecProg.le16 (List.take 2 (lo :: hi :: r3)) = lo + 256 * hi := rfl
          have hd2 : List.drop 2 (lo :: hi :: r3) = r3 := rfl
          rw [hle, hd2, hcrcS]
          by_cases hc : s2.o.chk = true ∧ s2.q.crc16 ≠ lo + 256 * hi
          · have hc' : true = true ∧ s2.q.crc16 ≠ lo + 256 * hi := ⟨rfl, hc.2⟩
            rw [if_pos hc, if_pos hc']
            simp [DecHist.ciVerdict, runExact, tokH, errH, errC, ciTok, hp.res, hevs, hp.evs]
          · have hc' : ¬ (true = true ∧ s2.q.crc16 ≠ lo + 256 * hi) := fun hx => hc ⟨hc2, hx.2⟩
            rw [if_neg hc, if_neg hc']
            dsimp only
            have hr3 : r3.length + 2 = s2.rest.length := by rw [hrest2]; simp
            have := ih (seq + 1) { d' with hdr := none, st := { st' with cur := 0, crc := 0 } }
              { s2 with rest := r3, q := { s2.q with crc := lo + 256 * hi, crc16 := 0, hdrDone := false, cur := 0 } } false fc
              hc2 (by show s2.q.err = none; rw [herr2, hp.qerr]) rfl rfl
              (by show DecApi.IsBytes r3; have := hb2 hp.bytes; rw [hrest2] at this; exact fun x hx => this x (by simp [hx]))
              rfl (by show d'.moved = !false; rw [hmv']; rfl) (fun hn => absurd rfl hn)
              (by show r3.length < fuelH; omega) (by show r3.length < fc; omega)
            obtain ⟨i1, i2⟩ := this
            refine ⟨?_, ?_⟩
            · rw [i1]; simp [hp.res]
            · rw [i2]; simp [hevs, hp.evs]
      | err e =>
        rw [hdm] at hdl
        obtain ⟨he, st', e', r, hevs, hrun2⟩ := hdl
        subst he
        rw [hrun2]
        simp [DecHist.ciVerdict, runExact, tokH, errH, errC, ciTok, hp.res, hevs, hp.evs]
      | panic => rw [hdm] at hdl; exact hdl.elim
      | hang => rw [hdm] at hdl; exact hdl.elim
    | err e =>
      rw [hh] at hlk
      obtain ⟨hnone, hcase⟩ := hlk
      have hnd : s.q.hdrDone = false := by rw [hnone] at hhdr; exact hhdr
      rcases hcase with ⟨hnil, he, hrun⟩ | ⟨e', r, hne, he, _, hrun⟩
      · rw [hrun]; subst he
        cases hmvd : d.moved with
        | true =>
          have hpz : pz = false := by
            cases pz with
            | false => rfl
            | true => rw [hmvd] at hmoved; cases hmoved
          simp [hmvd, hpz, hnil, hnd, DecHist.ciVerdict, runExact, tokH, ciTok]
        | false =>
          have hpz : pz = true := by
            cases pz with
            | true => rfl
            | false => rw [hmvd] at hmoved; cases hmoved
          simp [hmvd, hpz, hnil, hnd, DecHist.ciVerdict, runExact, tokH, errH, errC, ciTok]
      · rw [hrun]; subst he
        have : s.rest.isEmpty = false := by cases hs : s.rest <;> simp_all
        simp [this, DecHist.ciVerdict, runExact, tokH, errH, ciTok]
    | panic => rw [hh] at hlk; exact hlk.elim
    | hang => rw [hh] at hlk; exact hlk.elim

theorem step_lift_peekHeader (a : Api) : DecApi.step a .peekHeader =
    (a.advance (stepPeekHeader a.d).1, (stepPeekHeader a.d).2.1, (stepPeekHeader a.d).2.2) := rfl
theorem step_lift_discard (a : Api) : DecApi.step a .discard =
    (a.advance (stepDiscard a.d).1, (stepDiscard a.d).2.1, (stepDiscard a.d).2.2) := rfl
theorem step_lift_ctx (a : Api) (c : Bool) : DecApi.step a (.decodeCtx c) =
    (a.advance (stepDecodeCtx c a.d).1, (stepDecodeCtx c a.d).2.1, (stepDecodeCtx c a.d).2.2) := rfl

/-- **state correspondence after each call**: from corresponding states, the results of the remaining calls correspond, and the
FITs `apiOf`'s reconstruction rebuilds from (D')'s events are those (C)'s successful `Decode` calls return -/
theorem run_link (o : Opts) (hfac : FacOK o.fac) (hbt : facBtOK o.fac = true) (hfd : facFdOK o.fac = true) (fuelCi : Nat) :
    ∀ (ops : List DecHist.Op) (done : List (Out × List Event)) (d : DecHist.Dec) (a : Api), Rel o fuelCi done d a →
    linkedL ops = true →
    (runExact (DecHist.run fuelCi ops d) a.d.rest).res.map tokH = d.res.reverse.map tokH ++ toksC a (ops.map apiOp) ∧
    foldDone o (runExact (DecHist.run fuelCi ops d) a.d.rest).evs = done ++ fitsC a (ops.map apiOp) := by
  intro ops
  induction ops with
  | nil =>
    intro done d a hr _
    refine ⟨by simp [DecHist.run, runExact, DecHist.finish, hr.derr, toksC_nil], ?_⟩
    simp only [DecHist.run, runExact, DecHist.finish, List.map_nil, fitsC_nil, List.append_nil]
    exact hr.foldDone
  | cons op ops ih =>
    intro done d a hr hsub
    have hsub' : linkedL ops = true := linkedL_tail hsub
    have hop := linkedL_head hsub
    unfold DecHist.run
    rw [hr.derr]
    dsimp only
    rw [List.map_cons, toksC_cons, fitsC_cons]
    cases op with
    | peekHeader =>
      dsimp only [apiOp]
      rw [step_lift_peekHeader]
      dsimp only
      have hlk := headerOnce_link d.chk d (fun e => DecHist.hdrFail d ops (.io e)) (fun e d => DecHist.hdrFail d ops e)
        (fun h d => DecHist.run fuelCi ops { d with res := .header h :: d.res }) a.d (by rw [hr.opts, hr.chk]) hr.err hr.crc hr.cur
        hr.bytes hr.hdr
      unfold stepPeekHeader
      rw [hr.err]
      dsimp only
      cases hh : headerOnce a.d with
      | ok s1 =>
        rw [hh] at hlk
        obtain ⟨h, d', hp, hrun⟩ := hlk
        rw [hrun]
        dsimp only
        have := ih _ _ _ (hr.afterHeader hp (.header h)) hsub'
        rw [show (a.advance s1).d.rest = s1.rest from rfl] at this
        obtain ⟨ih1, ih2⟩ := this
        refine ⟨?_, ?_⟩
        · rw [ih1]; simp [hp.res, tokH, tokC, hp.qhdr]
        · rw [ih2]; simp [isFit]
      | err e =>
        rw [hh] at hlk
        obtain ⟨_, hcase⟩ := hlk
        rcases hcase with ⟨_, he, hrun⟩ | ⟨e', r, _, he, _, hrun⟩
        · rw [hrun]; subst he
          have hfo := hdrFail_res o done d ops (.io .eof) [] (a.advance (failHeader a.d (Res.err .eof : Res St)).1) rfl hr.foldDone
          exact ⟨by rw [hfo.1]; rfl, by rw [hfo.2]; rfl⟩
        · rw [hrun]; subst he
          have hfo := hdrFail_res o done { d with moved := true } ops e' r (a.advance (failHeader a.d (Res.err (errC e') : Res St)).1) rfl hr.foldDone
          exact ⟨by rw [hfo.1]; rfl, by rw [hfo.2]; rfl⟩
      | panic => rw [hh] at hlk; exact hlk.elim
      | hang => rw [hh] at hlk; exact hlk.elim
    | decodeCtx c =>
      cases c with
      | false =>
        dsimp only [apiOp]
        rw [step_lift_ctx]
        unfold stepDecodeCtx
        rw [hr.err]
        dsimp only
        exact decode_link o hfac hbt hfd fuelCi ops fuelCi (fun done d a h => ih done d a h hsub') done d a hr
      | true =>
        dsimp only [apiOp]
        rw [step_lift_ctx]
        unfold stepDecodeCtx
        rw [hr.err]
        dsimp only
        simp only [runExact, if_true]
        refine ⟨?_, ?_⟩
        · rw [finish_dead _ .ctx rfl (a.advance { a.d with q := { a.d.q with err := some .ctx } }) rfl]
          simp [tokH, tokC, errH]
        · rw [fitsC_dead .ctx ops (a.advance { a.d with q := { a.d.q with err := some .ctx } }) rfl]
          simp only [DecHist.finish, isFit, List.append_nil, cond_false]
          exact hr.foldDone
    | discard =>
      dsimp only [apiOp]
      rw [step_lift_discard]
      dsimp only
      unfold stepDiscard
      rw [hr.err]
      dsimp only
      generalize hs0 : ({ a.d with o := { a.d.o with chk := false } } : St) = s0
      have e0r : s0.rest = a.d.rest := by rw [← hs0]
      have e0q : s0.q = a.d.q := by rw [← hs0]
      have e0o : s0.o = { a.d.o with chk := false } := by rw [← hs0]
      have hlk := headerOnce_link false d (fun e => DecHist.hdrFail d ops (.io e)) (fun e d => DecHist.hdrFail d ops e)
        (fun h d => DecHist.discard (DecHist.failOp d ops) false h.dataSize h.dataSize d.st fun st =>
          DecHist.rdN (DecHist.failOp d ops) false 2 st fun _ st => DecHist.run fuelCi ops (d.renew st.evs .done)) s0
        (by rw [e0o]) (by rw [e0q]; exact hr.err) (by rw [e0q]; exact hr.crc) (by rw [e0q]; exact hr.cur)
        (by rw [e0r]; exact hr.bytes) (by rw [e0q]; exact hr.hdr)
      rw [e0r] at hlk
      cases hh : headerOnce s0 with
      | ok s1 =>
        rw [hh] at hlk
        obtain ⟨h, d', hp, hrun⟩ := hlk
        rw [hrun]
        dsimp only
        have hc1 : s1.o.chk = false := by rw [hp.o, e0o]
        have hlen1 : s1.rest.length ≤ a.d.rest.length := by
          by_cases hn : d.hdr = none
          · have := (hp.fresh hn).2; rw [e0r] at this; omega
          · rw [(hp.old hn).2, e0r]; exact Nat.le_refl _
        have hfd' : foldDone o d'.st.evs.reverse = done := by rw [hp.evs]; exact hr.foldDone
        have hdl := discard_link (DecHist.failOp d' ops)
          (fun st => DecHist.rdN (DecHist.failOp d' ops) false 2 st fun _ st => DecHist.run fuelCi ops (d'.renew st.evs .done))
          h.dataSize hp.small (fuelOf s1) h.dataSize s1 d'.st (by rw [hp.cur, hp.qcur]) (by rw [hp.qhdr]; rfl)
          (by rw [hp.qcur]; omega) (by simp [fuelOf]) (by omega)
        rw [hc1] at hdl
        cases hdm : discardMessages (fuelOf s1) s1 with
        | ok s2 =>
          rw [hdm] at hdl
          obtain ⟨st', hevs, hlen2, ho2, hb2, _, _, hrun2⟩ := hdl
          rw [hrun2]
          dsimp only
          unfold DecHist.rdN
          rw [readN_eq 2 s2 (by decide)]
          by_cases hl : 2 ≤ s2.rest.length
          · rw [if_pos hl, runExact_read_ok _ _ _ hl]
            dsimp only
            have hr2 : Rel o fuelCi done (d'.renew st'.evs .done) (a.advance { o := { s2.o with chk := a.d.o.chk }, rest := s2.rest.drop 2 }) := by
              refine ⟨?_, by show d'.chk = o.chk; rw [hp.chk, hr.chk], rfl, rfl, IsBytes.drop' (hb2 hp.bytes) 2, ?_, rfl, rfl,
                fun hn => absurd rfl hn, rfl, ?_, rfl, rfl, rfl, rfl, rfl, rfl, rfl, rfl, ?_, ?_⟩
              · show ({ s2.o with chk := a.d.o.chk } : Opts) = o
                rw [ho2, hp.o, e0o, opts_restore, hr.opts]
              · show true = !(a.n + (a.d.rest.length - (s2.rest.drop 2).length) == 0)
                have : (a.n + (a.d.rest.length - (s2.rest.drop 2).length) == 0) = false := by
                  rw [beq_eq_false_iff_ne, List.length_drop]; omega
                rw [this]; rfl
              · show (s2.rest.drop 2).length < 4294967296
                rw [List.length_drop]; have := hr.small; omega
              · show ∃ tt, st'.evs.reverse.foldl _ _ = _ ∧ _
                rw [hevs, hp.evs]; exact hr.evs
              · show (s2.rest.drop 2).length < fuelCi
                rw [List.length_drop]; have := hr.fuel; omega
            have := ih _ _ _ hr2 hsub'
            rw [show (a.advance ({ o := { s2.o with chk := a.d.o.chk }, rest := s2.rest.drop 2 } : St)).d.rest = s2.rest.drop 2 from rfl] at this
            obtain ⟨ih1, ih2⟩ := this
            refine ⟨?_, ?_⟩
            · rw [ih1]; simp [DecHist.Dec.renew, hp.res, tokH, tokC, resetSeq]
            · rw [ih2]; simp [isFit, resetSeq]
          · rw [if_neg hl, runExact_read_short _ _ _ (by omega)]
            dsimp only
            have hfo := failOp_res o done d' ops st' (.io (if s2.rest.isEmpty then .eof else .unexpectedEof)) []
              (a.advance { s2 with o := { s2.o with chk := a.d.o.chk }, q := { s2.q with err := some .eof } }) rfl (by rw [hevs]; exact hfd')
            refine ⟨?_, ?_⟩
            · rw [hfo.1]; simp [hp.res, tokC, DecApi.fail, errC]
            · rw [hfo.2]; simp [DecApi.fail, isFit]
        | err e =>
          rw [hdm] at hdl
          obtain ⟨he, st', e', r, hevs, hrun2⟩ := hdl
          subst he
          rw [hrun2]
          dsimp only
          have hfo := failOp_res o done d' ops st' (.io e') r
            (a.advance { s1 with o := { s1.o with chk := a.d.o.chk }, q := { s1.q with err := some .eof } }) rfl (by rw [hevs]; exact hfd')
          refine ⟨?_, ?_⟩
          · rw [hfo.1]; simp [hp.res, tokC, DecApi.fail, errC]
          · rw [hfo.2]; simp [DecApi.fail, isFit]
        | panic => rw [hdm] at hdl; exact hdl.elim
        | hang => rw [hdm] at hdl; exact hdl.elim
      | err e =>
        rw [hh] at hlk
        obtain ⟨_, hcase⟩ := hlk
        rcases hcase with ⟨_, he, hrun⟩ | ⟨e', r, _, he, _, hrun⟩
        · rw [hrun]; subst he
          have hfo := hdrFail_res o done d ops (.io .eof) [] (a.advance { s0 with o := { s0.o with chk := a.d.o.chk }, q := { s0.q with hdrDone := true, err := some .eof } }) rfl hr.foldDone
          exact ⟨by rw [hfo.1]; rfl, by rw [hfo.2]; rfl⟩
        · rw [hrun]; subst he
          have hfo := hdrFail_res o done { d with moved := true } ops e' r (a.advance { s0 with o := { s0.o with chk := a.d.o.chk }, q := { s0.q with hdrDone := true, err := some (errC e') } }) rfl hr.foldDone
          exact ⟨by rw [hfo.1]; rfl, by rw [hfo.2]; rfl⟩
      | panic => rw [hh] at hlk; exact hlk.elim
      | hang => rw [hh] at hlk; exact hlk.elim
    | next =>
      dsimp only [apiOp]
      rw [step_lift_next]
      dsimp only
      unfold stepNext
      rw [hr.err]
      dsimp only
      by_cases hmv : d.moved = false
      · have hn : (a.n == 0) = true := by have := hr.moved; rw [hmv] at this; simpa using this
        have hc : (!d.moved) = true := by rw [hmv]; rfl
        simp only [if_pos hc, if_pos hn]
        rw [Api.advance_same]
        have hr2 : Rel o fuelCi done { d with err := none, res := .bool true :: d.res } a :=
          ⟨hr.opts, hr.chk, hr.err, rfl, hr.bytes, hr.moved, hr.cur, hr.crc, hr.hm, hr.hdr, hr.small, hr.look, hr.qts, hr.qoff, hr.qacc,
            hr.qmsgs, hr.qfid, hr.defs, hr.descs, hr.evs, hr.fuel⟩
        obtain ⟨ih1, ih2⟩ := ih _ _ _ hr2 hsub'
        refine ⟨?_, ?_⟩
        · rw [ih1]; simp [tokH, tokC]
        · rw [ih2]; simp [isFit]
      · have hmv' : d.moved = true := by cases hd : d.moved <;> simp_all
        have hn : (a.n == 0) = false := by have := hr.moved; rw [hmv'] at this; simpa using this
        have hc : ¬ (!d.moved) = true := by rw [hmv']; simp
        have hn' : ¬ (a.n == 0) = true := by rw [hn]; simp
        simp only [if_neg hc, if_neg hn']
        have hlk := headerOnce_link d.chk d
          (fun e => .ret (DecHist.finish { d with err := some (.dec (.io e)), res := .bool (!(DecProg.Err.io e).endsIteration) :: d.res } ops))
          (fun e d => .ret (DecHist.finish { d with err := some (.dec e), res := .bool (!e.endsIteration) :: d.res } ops))
          (fun _ d => DecHist.run fuelCi ops { d with res := .bool true :: d.res }) a.d (by rw [hr.opts, hr.chk]) hr.err hr.crc hr.cur
          hr.bytes hr.hdr
        cases hh : headerOnce a.d with
        | ok s1 =>
          rw [hh] at hlk
          obtain ⟨h, d', hp, hrun⟩ := hlk
          rw [hrun]
          dsimp only
          have := ih _ _ _ (hr.afterHeader hp (.bool true)) hsub'
          rw [show (a.advance s1).d.rest = s1.rest from rfl] at this
          obtain ⟨ih1, ih2⟩ := this
          refine ⟨?_, ?_⟩
          · rw [ih1]; simp [hp.res, tokH, tokC]
          · rw [ih2]; simp [isFit]
        | err e =>
          rw [hh] at hlk
          obtain ⟨_, hcase⟩ := hlk
          rcases hcase with ⟨_, he, hrun⟩ | ⟨e', r, _, he, hends, hrun⟩
          · rw [hrun]; subst he
            simp only [runExact]
            refine ⟨?_, ?_⟩
            · rw [finish_dead _ (.dec (.io .eof)) rfl (a.advance { a.d with q := { a.d.q with hdrDone := true, err := some .eof } }) rfl]
              simp [tokH, tokC, DecProg.Err.endsIteration]
            · rw [fitsC_dead (.dec (.io .eof)) ops (a.advance { a.d with q := { a.d.q with hdrDone := true, err := some .eof } }) rfl]
              simp only [DecHist.finish, isFit, List.append_nil, cond_false]
              exact hr.foldDone
          · rw [hrun]; subst he
            simp only [runExact]
            refine ⟨?_, ?_⟩
            · rw [finish_dead _ (.dec e') rfl (a.advance { a.d with q := { a.d.q with hdrDone := true, err := some (errC e') } }) rfl]
              simp [tokH, tokC, hends]
            · rw [fitsC_dead (.dec e') ops (a.advance { a.d with q := { a.d.q with hdrDone := true, err := some (errC e') } }) rfl]
              simp only [DecHist.finish, isFit, List.append_nil, cond_false]
              exact hr.foldDone
        | panic => rw [hh] at hlk; exact hlk.elim
        | hang => rw [hh] at hlk; exact hlk.elim
    | decode =>
      dsimp only [apiOp]
      rw [step_lift_decode]
      unfold stepDecode
      rw [hr.err]
      dsimp only
      exact decode_link o hfac hbt hfd fuelCi ops fuelCi (fun done d a h => ih done d a h hsub') done d a hr
    | decodeCtxAt k => exact absurd hop (by simp [linked])
    | peekFileId => exact absurd hop (by simp [linked])
    | checkIntegrity =>
      have hnil : ops = [] := by
        rcases hop with h | h
        · exact absurd h (by simp [linked])
        · exact h.2
      subst hnil
      dsimp only [apiOp]
      have hstep : DecApi.step a .checkIntegrity = stepCheckIntegrity a := rfl
      rw [hstep]
      unfold stepCheckIntegrity
      dsimp only
      rw [hr.err]
      dsimp only
      have hci := ci_link o fuelCi 0 d { a.d with o := { a.d.o with chk := true } } (a.n == 0) (fuelOf a.d)
        rfl hr.err hr.crc hr.cur hr.bytes hr.hdr hr.moved hr.hm hr.fuel (by simp [fuelOf])
      rw [show ({ a.d with o := { a.d.o with chk := true } } : St).rest = a.d.rest from rfl] at hci
      refine ⟨?_, ?_⟩
      · rw [hci.1]
        rcases DecApi.ciLoop (fuelOf a.d) (a.n == 0) 0 { a.d with o := { a.d.o with chk := true } } with ⟨n, r⟩
        cases r <;> simp [ciTok, tokC, toksC_nil]
      · rw [hci.2, hr.foldDone]
        rcases DecApi.ciLoop (fuelOf a.d) (a.n == 0) 0 { a.d with o := { a.d.o with chk := true } } with ⟨n, r⟩
        cases r <;> simp [isFit, fitsC_nil]

end Fit.LinkH
