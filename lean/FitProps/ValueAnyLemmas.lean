import FitProps.ValueReencodeLemmas
/-! Helper lemmas (C06): the reflection path of `proto.Any` against the kind-level description `underlying` / `expectAny`. -/
namespace Fit.Value
open Fit.Gen

theorem strip_not_named : ∀ g : GoVal, ∀ h, strip g ≠ .named h := by
  intro g
  induction g with
  | named g ih => intro h; simp only [strip]; exact ih h
  | _ => intro h hc; simp [strip] at hc

theorem byKind_eq (k : GoVal) (hq : ∀ v, k = .float32 v → quiet32 v = v) : byKind k = ofAnyDirect (kindView k) := by
  cases k <;> try rfl
  case float32 v => simp only [byKind, kindView, ofAnyDirect, hq v rfl]


/-- the reflection path agrees with the typed constructor of the underlying kind -/
theorem any_reflect_agrees (g : GoVal) (h : noSNaN32 g = true) : ofAny g = ofAnyDirect (underlying g) := by
  cases g
  case named g' =>
    simp only [ofAny, underlying]
    simp only [noSNaN32, underlying, viaReflection, Bool.not_true, Bool.false_or] at h
    cases hs : strip g' with
    | ptr p =>
      simp only [hs] at h ⊢
      apply byKind_eq
      intro v hv
      cases hp : strip p <;> simp only [hp, kindView, reduceCtorEq] at h hv ⊢
      all_goals first | (cases hv; simpa using h) | cases hv
    | named x => exact absurd hs (strip_not_named g' x)
    | _ =>
      simp only [hs] at h ⊢
      first
        | rfl
        | (apply byKind_eq; intro v hv; cases hv; simpa [kindView] using h)
  case ptr p =>
    simp only [ofAny, underlying]
    simp only [noSNaN32, underlying, viaReflection, Bool.not_true, Bool.false_or] at h
    apply byKind_eq
    intro v hv
    rw [hv] at h
    simpa [kindView] using h
  all_goals rfl


theorem toAny_ofAnyDirect (u : GoVal) :
    toAny (ofAnyDirect u) = (match u with
      | .nil | .unsupported | .ptr _ | .named _ => .nil
      | .value v => toAny v
      | .gobool b => .tbool (ofGoBool b)
      | .gobools bs => .tbools (bs.map ofGoBool)
      | .tbool v => .tbool (clampBool v)
      | k => k) := by
  cases u <;> try rfl
  case gobool b => cases b <;> rfl
  case tbool v =>
    simp only [ofAnyDirect, mkBool_eq, toAny]
    rcases clampBool_cases v with h | h | h <;> rw [h]

theorem any_wrap_unwrap (g : GoVal) (h : noSNaN32 g = true) : toAny (ofAny g) = expectAny g := by
  rw [any_reflect_agrees g h, toAny_ofAnyDirect]
  rfl

end Fit.Value
