import FitProps.Go2LeanLemmas
/-!
Further lemmas about the loops the translator emits (`for i := range p { … p[i] … p[i] … }` with any number of index
expressions in the body). Used by `FitProps/Go2LeanProtoMarshal.lean`.
-/
namespace Fit.Go2Lean

theorem rangeI_succ (n : Nat) : Go.rangeI (n + 1) = (0 : Int) :: (Go.rangeI n).map (· + 1) := by
  simp [Go.rangeI, List.range_succ_eq_map, List.map_map]

/-- `for i := range p { body(i) }` is `for _, x := range p { body'(x) }` whenever `body(k) = body'(p[k])` for every index
`k` of `p` (however often the body indexes `p`) -/
theorem forIn_rangeI_congr {α β : Type} (p : List α) (g : Int → β → Option (ForInStep β)) (f : α → β → Option (ForInStep β))
    (h : ∀ (k : Nat) (hk : k < p.length) (s : β), g (k : Int) s = f p[k] s) (s : β) :
    forIn (Go.rangeI p.length) s g = forIn p s f := by
  induction p generalizing g s with
  | nil => simp [Go.rangeI]
  | cons a p ih =>
    rw [List.length_cons, rangeI_succ, List.forIn_cons, List.forIn_cons]
    have h0 := h 0 (by simp) s
    simp only [Int.natCast_zero, List.getElem_cons_zero] at h0
    rw [h0]
    congr 1
    funext r
    cases r with
    | done b => rfl
    | yield b =>
      simp only [List.forIn_map]
      exact ih (fun i => g (i + 1)) (fun k hk s => by
        have := h (k + 1) (by simpa using hk) s
        simpa using this) b

/-- `p[k]` with an `int` index that is a valid index -/
theorem idxI_natCast {α} (l : List α) (k : Nat) (hk : k < l.length) : Go.idxI l (k : Int) = some l[k] := by
  unfold Go.idxI
  have h1 : ¬ ((k : Int) < 0) := by omega
  simp [h1, hk]

/-- appending a few elements per item is appending the `flatMap` -/
theorem foldl_append_flatMap {α γ : Type} (l : List α) (f : α → List γ) (b : List γ) :
    l.foldl (fun b x => b ++ f x) b = b ++ l.flatMap f := by
  induction l generalizing b with
  | nil => simp
  | cons a l ih => simp [ih, List.flatMap_cons, List.append_assoc]

/-- a single-bit test: `h & 32` is 0 or 32 (so `== 32`, `!= 0`, `> 0` are the same test) -/
theorem and_32_cases (h : Nat) : h &&& 32 = 0 ∨ h &&& 32 = 32 := by
  cases hb : h.testBit 5
  · left
    apply Nat.eq_of_testBit_eq
    intro i
    have : (32 : Nat) = 2 ^ 5 := rfl
    rw [Nat.testBit_and, this, Nat.testBit_two_pow]
    by_cases hi : 5 = i
    · subst hi; simp [hb]
    · simp [hi]
  · right
    apply Nat.eq_of_testBit_eq
    intro i
    have : (32 : Nat) = 2 ^ 5 := rfl
    rw [Nat.testBit_and, this, Nat.testBit_two_pow]
    by_cases hi : 5 = i
    · subst hi; simp [hb]
    · simp [hi]

/-- two loop bodies that agree on every element and state give the same loop -/
theorem forIn_list_congr {α β : Type} (l : List α) (g f : α → β → Option (ForInStep β))
    (h : ∀ a s, g a s = f a s) (s : β) : forIn l s g = forIn l s f := by
  have : g = f := by funext a s; exact h a s
  rw [this]

/-- `go_loop L F`: rewrite the loop over the list `L` in the goal — `for i := range L { … L[i] … }` or
`for _, x := range L { … x … }`, whatever the shape of its body — into the loop with body `F`, provided `simp` can show
that the two bodies agree on every element -/
syntax "go_loop " term:max ppSpace term:max : tactic
macro_rules
  | `(tactic| go_loop $L $F) => `(tactic|
      first
      | rw [forIn_rangeI_congr $L _ $F (by intro k hk s; simp [idxI_natCast _ k hk])]
      | rw [forIn_list_congr $L _ $F (by intro a s; simp)])

end Fit.Go2Lean
