import FitModel.CsvSpec
/-! Lemmas about the fitconv model (C19). Core Lean only. -/
namespace Fit.Csv
open Fit.Value Fit.Msg Fit.Gen Fit.Gen.Csv

/-! ### columns -/

theorem foldl_max_ge (ls : List Line) (a : Nat) : a ≤ ls.foldl (fun a l => max a (nTriples l)) a := by
  induction ls generalizing a with
  | nil => exact Nat.le_refl _
  | cons l ls ih => exact Nat.le_trans (Nat.le_max_left _ _) (ih _)

theorem nTriples_le_foldl (ls : List Line) (a : Nat) : ∀ l ∈ ls, nTriples l ≤ ls.foldl (fun a l => max a (nTriples l)) a := by
  induction ls generalizing a with
  | nil => intro l hl; cases hl
  | cons x xs ih =>
    intro l hl
    rcases List.mem_cons.mp hl with rfl | h
    · exact Nat.le_trans (Nat.le_max_right _ _) (foldl_max_ge xs _)
    · exact ih _ l h

theorem nTriples_le_maxFields (ls : List Line) : ∀ l ∈ ls, nTriples l ≤ maxFields ls :=
  nTriples_le_foldl ls 0

/-! ### integers ↔ two's-complement patterns, per width -/

theorem pat_sint8 (v : Nat) : pat 8 (sint 8 v) = v % 2 ^ 8 := by
  unfold pat sint; simp only [Nat.reducePow, Nat.reduceSub]; split <;> omega
theorem pat_sint16 (v : Nat) : pat 16 (sint 16 v) = v % 2 ^ 16 := by
  unfold pat sint; simp only [Nat.reducePow, Nat.reduceSub]; split <;> omega
theorem pat_sint32 (v : Nat) : pat 32 (sint 32 v) = v % 2 ^ 32 := by
  unfold pat sint; simp only [Nat.reducePow, Nat.reduceSub]; split <;> omega
theorem pat_sint64 (v : Nat) : pat 64 (sint 64 v) = v % 2 ^ 64 := by
  unfold pat sint; simp only [Nat.reducePow, Nat.reduceSub]; split <;> omega

theorem inRangeS_sint8 (v : Nat) : inRangeS 8 (sint 8 v) = true := by
  unfold inRangeS sint; simp only [Nat.reducePow, Nat.reduceSub, Bool.and_eq_true, decide_eq_true_eq]; split <;> omega
theorem inRangeS_sint16 (v : Nat) : inRangeS 16 (sint 16 v) = true := by
  unfold inRangeS sint; simp only [Nat.reducePow, Nat.reduceSub, Bool.and_eq_true, decide_eq_true_eq]; split <;> omega
theorem inRangeS_sint32 (v : Nat) : inRangeS 32 (sint 32 v) = true := by
  unfold inRangeS sint; simp only [Nat.reducePow, Nat.reduceSub, Bool.and_eq_true, decide_eq_true_eq]; split <;> omega
theorem inRangeS_sint64 (v : Nat) : inRangeS 64 (sint 64 v) = true := by
  unfold inRangeS sint; simp only [Nat.reducePow, Nat.reduceSub, Bool.and_eq_true, decide_eq_true_eq]; split <;> omega

theorem inRangeU_mod (w v : Nat) : inRangeU w ((v % 2 ^ w : Nat) : Int) = true := by
  unfold inRangeU
  have : v % 2 ^ w < 2 ^ w := Nat.mod_lt _ (Nat.two_pow_pos w)
  simp only [Bool.and_eq_true, decide_eq_true_eq]
  exact ⟨Int.natCast_nonneg _, by exact_mod_cast this⟩

theorem inRangeU_of_lt {w v : Nat} (h : v < 2 ^ w) : inRangeU w (v : Int) = true := by
  unfold inRangeU
  simp only [Bool.and_eq_true, decide_eq_true_eq]
  exact ⟨Int.natCast_nonneg _, by exact_mod_cast h⟩


theorem splitBar_safe : ∀ s : Txt, s.all safeByte = true → splitBar s = [s]
  | [], _ => rfl
  | b :: bs, h => by
    simp only [List.all_cons, Bool.and_eq_true] at h
    have ih := splitBar_safe bs h.2
    have hb : (b == 124) = false := by
      have := h.1; simp only [safeByte, Bool.and_eq_true, bne_iff_ne, ne_eq] at this
      simpa using this.2
    simp [splitBar, ih, hb]

theorem fmtStr_safe (s : Txt) (h : s.all safeByte = true) : fmtStr s = s := by
  unfold fmtStr
  apply List.filter_eq_self.mpr
  intro b hb
  have := List.all_eq_true.mp h b hb
  simp only [safeByte, Bool.and_eq_true] at this
  exact this.1


theorem scalar_rt (ar : Arith) (bt : Nat) (isBool : Bool) (scale offset : Nat) (units : Txt) (v : Value)
    (h : scalarOK bt isBool v = true) (hu : ¬(units = degreesTxt ∧ bt = btSint32))
    (hf : (bt = btFloat32 ∨ bt = btFloat64) → isScaledField scale offset = false) :
    parseCellValue ar (cellPieces (formatAtoms v)) bt isBool false scale offset units = .ok (csvNormS v) := by
  cases v with
  | bool x =>
    simp only [scalarOK, Bool.and_eq_true, decide_eq_true_eq] at h
    obtain ⟨hb, hv⟩ := h
    subst hb
    have hfmt : formatAtoms (.bool x) = [.int (x : Int)] := by
      have e : ((x : Int) % 256) = x := by omega
      simp only [formatAtoms, e]
    have hdeg : (units == degreesTxt && bt == btSint32) = false := by
      cases hc : (units == degreesTxt && bt == btSint32)
      · rfl
      · simp only [Bool.and_eq_true, beq_iff_eq] at hc; exact absurd hc hu
    rw [hfmt]
    simp [cellPieces, parseCellValue, parseAtom, hdeg, inRangeU_of_lt (w := 8) hv, csvNormS]
  | uint8 x =>
    simp only [scalarOK, Bool.and_eq_true, Bool.not_eq_eq_eq_not, Bool.not_true, decide_eq_true_eq] at h
    obtain ⟨⟨hb, hbt⟩, hv⟩ := h
    subst hb
    have hne : (bt == btSint32) = false := by
      simp only [btIsUint8, Bool.or_eq_true, beq_iff_eq] at hbt
      rcases hbt with ((h | h) | h) | h <;> subst h <;> decide
    have hfmt : formatAtoms (.uint8 x) = [.int (x : Int)] := by
      have e : ((x : Int) % 2 ^ 8) = x := by omega
      simp only [formatAtoms, e]
    rw [hfmt]
    simp [cellPieces, parseCellValue, parseAtom, hne, hbt, inRangeU_of_lt hv, csvNormS]
  | int8 x =>
    simp only [scalarOK, Bool.and_eq_true, Bool.not_eq_eq_eq_not, Bool.not_true, decide_eq_true_eq, beq_iff_eq] at h
    obtain ⟨⟨hb, hbt⟩, hv⟩ := h
    subst hb; subst hbt
    simp [formatAtoms, cellPieces, parseCellValue, parseAtom, btIsUint8, inRangeS_sint8, pat_sint8, Nat.mod_eq_of_lt hv, csvNormS,
      btSint8, btSint32, btEnum, btByte, btUint8, btUint8z]
  | int16 x =>
    simp only [scalarOK, Bool.and_eq_true, Bool.not_eq_eq_eq_not, Bool.not_true, decide_eq_true_eq, beq_iff_eq] at h
    obtain ⟨⟨hb, hbt⟩, hv⟩ := h
    subst hb; subst hbt
    simp [formatAtoms, cellPieces, parseCellValue, parseAtom, btIsUint8, inRangeS_sint16, pat_sint16, Nat.mod_eq_of_lt hv, csvNormS,
      btSint8, btSint16, btSint32, btEnum, btByte, btUint8, btUint8z]
  | uint16 x =>
    simp only [scalarOK, Bool.and_eq_true, Bool.not_eq_eq_eq_not, Bool.not_true, decide_eq_true_eq, Bool.or_eq_true, beq_iff_eq] at h
    obtain ⟨⟨hb, hbt⟩, hv⟩ := h
    subst hb
    have hfmt : formatAtoms (.uint16 x) = [.int (x : Int)] := by
      have e : ((x : Int) % 2 ^ 16) = x := by omega
      simp only [formatAtoms, e]
    rw [hfmt]
    rcases hbt with hbt | hbt <;> subst hbt <;>
      simp [cellPieces, parseCellValue, parseAtom, btIsUint8, inRangeU_of_lt hv, csvNormS,
        btSint8, btSint16, btUint16, btUint16z, btSint32, btEnum, btByte, btUint8, btUint8z]
  | int32 x =>
    simp only [scalarOK, Bool.and_eq_true, Bool.not_eq_eq_eq_not, Bool.not_true, decide_eq_true_eq, beq_iff_eq] at h
    obtain ⟨⟨hb, hbt⟩, hv⟩ := h
    subst hb; subst hbt
    have hdeg : (units == degreesTxt) = false := by
      cases hc : (units == degreesTxt)
      · rfl
      · exact absurd ⟨by simpa using hc, rfl⟩ hu
    simp [formatAtoms, cellPieces, parseCellValue, parseAtom, btIsUint8, inRangeS_sint32, pat_sint32, Nat.mod_eq_of_lt hv, csvNormS, hdeg,
      btSint8, btSint16, btUint16, btUint16z, btSint32, btEnum, btByte, btUint8, btUint8z]
  | uint32 x =>
    simp only [scalarOK, Bool.and_eq_true, Bool.not_eq_eq_eq_not, Bool.not_true, decide_eq_true_eq, Bool.or_eq_true, beq_iff_eq] at h
    obtain ⟨⟨hb, hbt⟩, hv⟩ := h
    subst hb
    have hfmt : formatAtoms (.uint32 x) = [.int (x : Int)] := by
      have e : ((x : Int) % 2 ^ 32) = x := by omega
      simp only [formatAtoms, e]
    rw [hfmt]
    rcases hbt with hbt | hbt <;> subst hbt <;>
      simp [cellPieces, parseCellValue, parseAtom, btIsUint8, inRangeU_of_lt hv, csvNormS,
        btSint8, btSint16, btUint16, btUint16z, btSint32, btUint32, btUint32z, btEnum, btByte, btUint8, btUint8z]
  | int64 x =>
    simp only [scalarOK, Bool.and_eq_true, Bool.not_eq_eq_eq_not, Bool.not_true, decide_eq_true_eq, beq_iff_eq] at h
    obtain ⟨⟨hb, hbt⟩, hv⟩ := h
    subst hb; subst hbt
    simp [formatAtoms, cellPieces, parseCellValue, parseAtom, btIsUint8, inRangeS_sint64, pat_sint64, Nat.mod_eq_of_lt hv, csvNormS,
      btSint8, btSint16, btUint16, btUint16z, btSint32, btUint32, btUint32z, btSint64, btEnum, btByte, btUint8, btUint8z]
  | uint64 x =>
    simp only [scalarOK, Bool.and_eq_true, Bool.not_eq_eq_eq_not, Bool.not_true, decide_eq_true_eq, Bool.or_eq_true, beq_iff_eq] at h
    obtain ⟨⟨hb, hbt⟩, hv⟩ := h
    subst hb
    have hfmt : formatAtoms (.uint64 x) = [.int (x : Int)] := by
      have e : ((x : Int) % 2 ^ 64) = x := by omega
      simp only [formatAtoms, e]
    rw [hfmt]
    rcases hbt with hbt | hbt <;> subst hbt <;>
      simp [cellPieces, parseCellValue, parseAtom, btIsUint8, inRangeU_of_lt hv, csvNormS,
        btSint8, btSint16, btUint16, btUint16z, btSint32, btUint32, btUint32z, btSint64, btUint64, btUint64z, btEnum, btByte, btUint8, btUint8z]
  | float32 b =>
    simp only [scalarOK, Bool.and_eq_true, Bool.not_eq_eq_eq_not, Bool.not_true, decide_eq_true_eq, beq_iff_eq] at h
    obtain ⟨⟨⟨hb, hbt⟩, _⟩, _⟩ := h
    subst hb; subst hbt
    have hs := hf (Or.inl rfl)
    simp [formatAtoms, cellPieces, parseCellValue, parseAtom, csvNormS, hs, btFloat32, btSint32]
  | float64 b =>
    simp only [scalarOK, Bool.and_eq_true, Bool.not_eq_eq_eq_not, Bool.not_true, decide_eq_true_eq, beq_iff_eq] at h
    obtain ⟨⟨⟨hb, hbt⟩, _⟩, _⟩ := h
    subst hb; subst hbt
    have hs := hf (Or.inr rfl)
    simp [formatAtoms, cellPieces, parseCellValue, parseAtom, csvNormS, hs, btFloat32, btFloat64, btSint32]
  | string s =>
    simp only [scalarOK, Bool.and_eq_true, Bool.not_eq_eq_eq_not, Bool.not_true, beq_iff_eq] at h
    obtain ⟨⟨hb, hbt⟩, hs⟩ := h
    subst hb; subst hbt
    simp [formatAtoms, cellPieces, parseCellValue, parseAtom, csvNormS, fmtStr_safe s hs, splitBar_safe s hs, btString, btSint32]
  | _ => simp [scalarOK] at h

end Fit.Csv
