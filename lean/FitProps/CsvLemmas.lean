import FitModel.CsvSpec
import FitProps.CsvTableLemmas
import FitProps.CsvTableMoreLemmas
/-! Lemmas about the fitconv model (C19). Core Lean only. -/
namespace Fit.Csv
open Fit.Value Fit.Msg Fit.Gen Fit.Gen.Csv

/-! ### columns -/

theorem foldl_max_ge (ls : List Line) (a : Nat) : a ≤ ls.foldl (fun a l => max a (nTriples l)) a := by
  induction ls generalizing a with
  | nil => exact Nat.le_refl _
  | cons l ls ih => exact Nat.le_trans (Nat.le_max_left _ _) (ih _)

theorem nTriples_le_foldl (ls : List Line) (a : Nat) : ∀ l ∈ ls, nTriples l ≤ ls.foldl (fun a l => max a (nTriples l)) a := by
  induction ls generalizing a with
  | nil => intro l hl; cases hl
  | cons x xs ih =>
    intro l hl
    rcases List.mem_cons.mp hl with rfl | h
    · exact Nat.le_trans (Nat.le_max_right _ _) (foldl_max_ge xs _)
    · exact ih _ l h

theorem nTriples_le_maxFields (ls : List Line) : ∀ l ∈ ls, nTriples l ≤ maxFields ls :=
  nTriples_le_foldl ls 0

/-! ### integers ↔ two's-complement patterns, per width -/

theorem pat_sint8 (v : Nat) : pat 8 (sint 8 v) = v % 2 ^ 8 := by
  unfold pat sint; simp only [Nat.reducePow, Nat.reduceSub]; split <;> omega
theorem pat_sint16 (v : Nat) : pat 16 (sint 16 v) = v % 2 ^ 16 := by
  unfold pat sint; simp only [Nat.reducePow, Nat.reduceSub]; split <;> omega
theorem pat_sint32 (v : Nat) : pat 32 (sint 32 v) = v % 2 ^ 32 := by
  unfold pat sint; simp only [Nat.reducePow, Nat.reduceSub]; split <;> omega
theorem pat_sint64 (v : Nat) : pat 64 (sint 64 v) = v % 2 ^ 64 := by
  unfold pat sint; simp only [Nat.reducePow, Nat.reduceSub]; split <;> omega

theorem inRangeS_sint8 (v : Nat) : inRangeS 8 (sint 8 v) = true := by
  unfold inRangeS sint; simp only [Nat.reducePow, Nat.reduceSub, Bool.and_eq_true, decide_eq_true_eq]; split <;> omega
theorem inRangeS_sint16 (v : Nat) : inRangeS 16 (sint 16 v) = true := by
  unfold inRangeS sint; simp only [Nat.reducePow, Nat.reduceSub, Bool.and_eq_true, decide_eq_true_eq]; split <;> omega
theorem inRangeS_sint32 (v : Nat) : inRangeS 32 (sint 32 v) = true := by
  unfold inRangeS sint; simp only [Nat.reducePow, Nat.reduceSub, Bool.and_eq_true, decide_eq_true_eq]; split <;> omega
theorem inRangeS_sint64 (v : Nat) : inRangeS 64 (sint 64 v) = true := by
  unfold inRangeS sint; simp only [Nat.reducePow, Nat.reduceSub, Bool.and_eq_true, decide_eq_true_eq]; split <;> omega

theorem inRangeU_mod (w v : Nat) : inRangeU w ((v % 2 ^ w : Nat) : Int) = true := by
  unfold inRangeU
  have : v % 2 ^ w < 2 ^ w := Nat.mod_lt _ (Nat.two_pow_pos w)
  simp only [Bool.and_eq_true, decide_eq_true_eq]
  exact ⟨Int.natCast_nonneg _, by exact_mod_cast this⟩

theorem inRangeU_of_lt {w v : Nat} (h : v < 2 ^ w) : inRangeU w (v : Int) = true := by
  unfold inRangeU
  simp only [Bool.and_eq_true, decide_eq_true_eq]
  exact ⟨Int.natCast_nonneg _, by exact_mod_cast h⟩


theorem splitBar_safe : ∀ s : Txt, s.all safeByte = true → splitBar s = [s]
  | [], _ => rfl
  | b :: bs, h => by
    simp only [List.all_cons, Bool.and_eq_true] at h
    have ih := splitBar_safe bs h.2
    have hb : (b == 124) = false := by
      have := h.1; simp only [safeByte, Bool.and_eq_true, bne_iff_ne, ne_eq] at this
      simpa using this.2
    simp [splitBar, ih, hb]

theorem fmtStr_safe (s : Txt) (h : s.all safeByte = true) : fmtStr s = s := by
  unfold fmtStr
  apply List.filter_eq_self.mpr
  intro b hb
  have := List.all_eq_true.mp h b hb
  simp only [safeByte, Bool.and_eq_true] at this
  exact this.1


theorem scalar_rt (ar : Arith) (bt : Nat) (isBool : Bool) (scale offset : Nat) (units : Txt) (v : Value)
    (h : scalarOK bt isBool v = true) (hu : ¬(units = degreesTxt ∧ bt = btSint32))
    (hf : (bt = btFloat32 ∨ bt = btFloat64) → isScaledField scale offset = false) :
    parseCellValue ar (cellPieces (formatAtoms v)) bt isBool false scale offset units = .ok (csvNormS v) := by
  cases v with
  | bool x =>
    simp only [scalarOK, Bool.and_eq_true, decide_eq_true_eq] at h
    obtain ⟨⟨hb, _⟩, hv⟩ := h
    subst hb
    have hfmt : formatAtoms (.bool x) = [.int (x : Int)] := by
      have e : ((x : Int) % 256) = x := by omega
      simp only [formatAtoms, e]
    have hdeg : (units == degreesTxt && bt == btSint32) = false := by
      cases hc : (units == degreesTxt && bt == btSint32)
      · rfl
      · simp only [Bool.and_eq_true, beq_iff_eq] at hc; exact absurd hc hu
    rw [hfmt]
    simp [cellPieces, parseCellValue, parseAtom, hdeg, inRangeU_of_lt (w := 8) hv, csvNormS]
  | uint8 x =>
    simp only [scalarOK, Bool.and_eq_true, Bool.not_eq_eq_eq_not, Bool.not_true, decide_eq_true_eq] at h
    obtain ⟨⟨hb, hbt⟩, hv⟩ := h
    subst hb
    have hne : (bt == btSint32) = false := by
      simp only [btIsUint8, Bool.or_eq_true, beq_iff_eq] at hbt
      rcases hbt with ((h | h) | h) | h <;> subst h <;> decide
    have hfmt : formatAtoms (.uint8 x) = [.int (x : Int)] := by
      have e : ((x : Int) % 2 ^ 8) = x := by omega
      simp only [formatAtoms, e]
    rw [hfmt]
    simp [cellPieces, parseCellValue, parseAtom, hne, hbt, inRangeU_of_lt hv, csvNormS]
  | int8 x =>
    simp only [scalarOK, Bool.and_eq_true, Bool.not_eq_eq_eq_not, Bool.not_true, decide_eq_true_eq, beq_iff_eq] at h
    obtain ⟨⟨hb, hbt⟩, hv⟩ := h
    subst hb; subst hbt
    simp [formatAtoms, cellPieces, parseCellValue, parseAtom, btIsUint8, inRangeS_sint8, pat_sint8, Nat.mod_eq_of_lt hv, csvNormS,
      btSint8, btSint32, btEnum, btByte, btUint8, btUint8z]
  | int16 x =>
    simp only [scalarOK, Bool.and_eq_true, Bool.not_eq_eq_eq_not, Bool.not_true, decide_eq_true_eq, beq_iff_eq] at h
    obtain ⟨⟨hb, hbt⟩, hv⟩ := h
    subst hb; subst hbt
    simp [formatAtoms, cellPieces, parseCellValue, parseAtom, btIsUint8, inRangeS_sint16, pat_sint16, Nat.mod_eq_of_lt hv, csvNormS,
      btSint8, btSint16, btSint32, btEnum, btByte, btUint8, btUint8z]
  | uint16 x =>
    simp only [scalarOK, Bool.and_eq_true, Bool.not_eq_eq_eq_not, Bool.not_true, decide_eq_true_eq, Bool.or_eq_true, beq_iff_eq] at h
    obtain ⟨⟨hb, hbt⟩, hv⟩ := h
    subst hb
    have hfmt : formatAtoms (.uint16 x) = [.int (x : Int)] := by
      have e : ((x : Int) % 2 ^ 16) = x := by omega
      simp only [formatAtoms, e]
    rw [hfmt]
    rcases hbt with hbt | hbt <;> subst hbt <;>
      simp [cellPieces, parseCellValue, parseAtom, btIsUint8, inRangeU_of_lt hv, csvNormS,
        btSint8, btSint16, btUint16, btUint16z, btSint32, btEnum, btByte, btUint8, btUint8z]
  | int32 x =>
    simp only [scalarOK, Bool.and_eq_true, Bool.not_eq_eq_eq_not, Bool.not_true, decide_eq_true_eq, beq_iff_eq] at h
    obtain ⟨⟨hb, hbt⟩, hv⟩ := h
    subst hb; subst hbt
    have hdeg : (units == degreesTxt) = false := by
      cases hc : (units == degreesTxt)
      · rfl
      · exact absurd ⟨by simpa using hc, rfl⟩ hu
    simp [formatAtoms, cellPieces, parseCellValue, parseAtom, btIsUint8, inRangeS_sint32, pat_sint32, Nat.mod_eq_of_lt hv, csvNormS, hdeg,
      btSint8, btSint16, btUint16, btUint16z, btSint32, btEnum, btByte, btUint8, btUint8z]
  | uint32 x =>
    simp only [scalarOK, Bool.and_eq_true, Bool.not_eq_eq_eq_not, Bool.not_true, decide_eq_true_eq, Bool.or_eq_true, beq_iff_eq] at h
    obtain ⟨⟨hb, hbt⟩, hv⟩ := h
    subst hb
    have hfmt : formatAtoms (.uint32 x) = [.int (x : Int)] := by
      have e : ((x : Int) % 2 ^ 32) = x := by omega
      simp only [formatAtoms, e]
    rw [hfmt]
    rcases hbt with hbt | hbt <;> subst hbt <;>
      simp [cellPieces, parseCellValue, parseAtom, btIsUint8, inRangeU_of_lt hv, csvNormS,
        btSint8, btSint16, btUint16, btUint16z, btSint32, btUint32, btUint32z, btEnum, btByte, btUint8, btUint8z]
  | int64 x =>
    simp only [scalarOK, Bool.and_eq_true, Bool.not_eq_eq_eq_not, Bool.not_true, decide_eq_true_eq, beq_iff_eq] at h
    obtain ⟨⟨hb, hbt⟩, hv⟩ := h
    subst hb; subst hbt
    simp [formatAtoms, cellPieces, parseCellValue, parseAtom, btIsUint8, inRangeS_sint64, pat_sint64, Nat.mod_eq_of_lt hv, csvNormS,
      btSint8, btSint16, btUint16, btUint16z, btSint32, btUint32, btUint32z, btSint64, btEnum, btByte, btUint8, btUint8z]
  | uint64 x =>
    simp only [scalarOK, Bool.and_eq_true, Bool.not_eq_eq_eq_not, Bool.not_true, decide_eq_true_eq, Bool.or_eq_true, beq_iff_eq] at h
    obtain ⟨⟨hb, hbt⟩, hv⟩ := h
    subst hb
    have hfmt : formatAtoms (.uint64 x) = [.int (x : Int)] := by
      have e : ((x : Int) % 2 ^ 64) = x := by omega
      simp only [formatAtoms, e]
    rw [hfmt]
    rcases hbt with hbt | hbt <;> subst hbt <;>
      simp [cellPieces, parseCellValue, parseAtom, btIsUint8, inRangeU_of_lt hv, csvNormS,
        btSint8, btSint16, btUint16, btUint16z, btSint32, btUint32, btUint32z, btSint64, btUint64, btUint64z, btEnum, btByte, btUint8, btUint8z]
  | float32 b =>
    simp only [scalarOK, Bool.and_eq_true, Bool.not_eq_eq_eq_not, Bool.not_true, decide_eq_true_eq, beq_iff_eq] at h
    obtain ⟨⟨⟨hb, hbt⟩, _⟩, _⟩ := h
    subst hb; subst hbt
    have hs := hf (Or.inl rfl)
    simp [formatAtoms, cellPieces, parseCellValue, parseAtom, csvNormS, hs, btFloat32, btSint32]
  | float64 b =>
    simp only [scalarOK, Bool.and_eq_true, Bool.not_eq_eq_eq_not, Bool.not_true, decide_eq_true_eq, beq_iff_eq] at h
    obtain ⟨⟨⟨hb, hbt⟩, _⟩, _⟩ := h
    subst hb; subst hbt
    have hs := hf (Or.inr rfl)
    simp [formatAtoms, cellPieces, parseCellValue, parseAtom, csvNormS, hs, btFloat32, btFloat64, btSint32]
  | string s =>
    simp only [scalarOK, Bool.and_eq_true, Bool.not_eq_eq_eq_not, Bool.not_true, beq_iff_eq] at h
    obtain ⟨⟨hb, hbt⟩, hs⟩ := h
    subst hb; subst hbt
    simp [formatAtoms, cellPieces, parseCellValue, parseAtom, csvNormS, fmtStr_safe s hs, splitBar_safe s hs, btString, btSint32]
  | _ => simp [scalarOK] at h

/-- what `fieldTableOK` says about one field of one profile message -/
theorem field_facts {m : PMesg} {f : PField} (hm : m ∈ profile) (hn : m.num < mfgRangeMin) (hf : f ∈ m.fields) :
    lookupFieldNum m.num (txt f.name) = some f.num ∧ pfield m.num f.num = some f ∧ (txt f.name).isEmpty = false ∧
    isPrefixOf' unknownTxt (txt f.name) = false ∧ ¬(txt f.units = degreesTxt ∧ f.bt = btSint32) ∧
    ((f.bt = btFloat32 ∨ f.bt = btFloat64) → isScaledField f.scale f.offset = false) := by
  have h := fieldTableOK_true
  simp only [fieldTableOK, List.all_eq_true, Bool.or_eq_true, decide_eq_true_eq, Bool.and_eq_true, beq_iff_eq,
    Bool.not_eq_eq_eq_not, Bool.not_true] at h
  rcases h m hm with h1 | h2
  · omega
  · obtain ⟨⟨⟨⟨⟨a, b⟩, c⟩, d⟩, e⟩, g⟩ := h2 f hf
    refine ⟨a, b, c, d, ?_, ?_⟩
    · intro ⟨hu, hb⟩
      simp [hu, hb] at e
    · intro hb
      cases hs : isScaledField f.scale f.offset
      · rfl
      · rcases hb with hb | hb <;> simp [hb, hs] at g

/-- **A known field survives the raw round trip through its cell** (raw mode or a field without scale/offset, no
position in degrees, no sub-field substitution, scalar value). -/
theorem field_rt (ar : Arith) (o : Opts) (ds : List Desc) (msg : Message) (fld : Field) (pm : PMesg) (p : PField)
    (hpm : pm ∈ profile) (hnum : pm.num = msg.num) (hn : msg.num < mfgRangeMin) (hp : p ∈ pm.fields)
    (hfn : fieldNumOf fld = p.num)
    (hdeg : o.degrees = false) (hraw : o.raw = true ∨ isScaledField p.scale p.offset = false)
    (hsub : substitute msg.fields p.subs = none) (harr : p.array = false)
    (hv : scalarOK p.bt p.isBool fld.value = true) :
    readCell ar ds msg.num (writeField o msg fld) = .ok (.field (mkField p.num p.bt (csvNormS fld.value))) := by
  obtain ⟨h1, h2, h3, h4, h5, hfl⟩ := field_facts hpm (hnum ▸ hn) hp
  rw [hnum] at h1 h2
  have hw : writeField o msg fld = ⟨txt p.name, cellPieces (formatAtoms fld.value), txt p.units⟩ := by
    simp only [writeField, hfn, h2, hsub, hdeg, Bool.false_and, Bool.false_eq_true, ↓reduceIte]
    congr 1
    simp only [fieldAtoms, hdeg, Bool.false_and, Bool.false_eq_true, ↓reduceIte]
    rcases hraw with hr | hs
    · simp [hr]
    · simp [hs]
  rw [hw]
  have := scalar_rt ar p.bt p.isBool p.scale p.offset (txt p.units) fld.value hv h5 hfl
  simp only [readCell, h3, Bool.false_eq_true, ↓reduceIte, h1, h2, harr]
  rw [this]
  simp

/-! ### messages whose fields are all plain scalar fields -/

/-- the conditions of `field_rt` for one field of a message -/
def PlainField (o : Opts) (msg : Message) (fld : Field) : Prop :=
  ∃ pm p, pm ∈ profile ∧ pm.num = msg.num ∧ p ∈ pm.fields ∧ fieldNumOf fld = p.num ∧
    (o.raw = true ∨ isScaledField p.scale p.offset = false) ∧ substitute msg.fields p.subs = none ∧ p.array = false ∧
    scalarOK p.bt p.isBool fld.value = true

/-- the field as it is expected back -/
def normField (fld : Field) : Field := mkField (fieldNumOf fld) (fieldBtOf fld) (csvNormS fld.value)

theorem parseCells_plain (ar : Arith) (o : Opts) (ds : List Desc) (msg : Message) (hn : msg.num < mfgRangeMin)
    (hdeg : o.degrees = false) :
    ∀ (fs : List Field), (∀ f ∈ fs, PlainField o msg f ∧ ∃ p, pfield msg.num (fieldNumOf f) = some p ∧ p.bt = fieldBtOf f) →
      parseCells ar ds msg.num (fs.map (writeField o msg)) = .ok (fs.map (fun f => Sum.inl (normField f)), [])
  | [], _ => rfl
  | f :: fs, h => by
    obtain ⟨⟨pm, p, hpm, hnum, hp, hfn, hraw, hsub, harr, hv⟩, ⟨p', hp', hbt⟩⟩ := h f (List.mem_cons_self ..)
    have hrt := field_rt ar o ds msg f pm p hpm hnum hn hp hfn hdeg hraw hsub harr hv
    have ih := parseCells_plain ar o ds msg hn hdeg fs (fun x hx => h x (List.mem_cons_of_mem _ hx))
    have hpp : p' = p := by
      have := (field_facts hpm (hnum ▸ hn) hp).2.1
      rw [hnum, ← hfn, hp'] at this
      exact Option.some.inj this
    subst hpp
    simp only [List.map_cons, parseCells, hrt, ih, normField, hfn, hbt]


/-! ### from cells back to messages, lines, files -/

theorem findIdx_inl (fs : List Field) :
    (fs.map (fun f => (Sum.inl f : Slot))).findIdx? pendingSlot = none := by
  induction fs with
  | nil => rfl
  | cons f fs ih => simp [List.findIdx?_cons, ih, pendingSlot]

theorem revertAll_inl (ar : Arith) (mesgNum : Nat) (fs : List Field) (fuel : Nat) :
    revertAll ar mesgNum fuel (fs.map (fun f => (Sum.inl f : Slot))) = .ok (fs.map (fun f => (Sum.inl f : Slot))) := by
  cases fuel with
  | zero => rfl
  | succ n => simp only [revertAll, findIdx_inl]

theorem filterMap_inl (fs : List Field) :
    (fs.map (fun f => (Sum.inl f : Slot))).filterMap slotDone = fs := by
  induction fs with
  | nil => rfl
  | cons f fs ih => simp [ih, slotDone]

theorem removeExpanded_none (mesgNum : Nat) (fs : List Field)
    (h : ((fs.flatMap (targetsOf mesgNum)).filter (fs.map fieldNumOf).contains) = []) :
    removeExpanded mesgNum fs = fs := by
  simp only [removeExpanded, h, List.eraseDups_nil, List.foldl_nil]

theorem fieldNumOf_norm (f : Field) : fieldNumOf (normField f) = fieldNumOf f := rfl

/-- a message with a listed number below the manufacturer range, without developer fields, whose fields are all plain
scalar fields (`PlainField`) none of which is a component target of another -/
structure PlainMesg (o : Opts) (m : Message) : Prop where
  low : m.num < mfgRangeMin
  listed : ∃ s, mesgNames.lookup m.num = some s
  nodev : m.devFields = []
  nonempty : m.fields ≠ []
  plain : ∀ f ∈ m.fields, PlainField o m f ∧ ∃ p, pfield m.num (fieldNumOf f) = some p ∧ p.bt = fieldBtOf f
  clear : ((m.fields.flatMap (targetsOf m.num)).filter (m.fields.map fieldNumOf).contains) = []
  notDesc : m.num ≠ mnFieldDescription

def normMesg (m : Message) : Message := { m with fields := m.fields.map normField }

theorem createMesg_plain (ar : Arith) (o : Opts) (ds : List Desc) (m : Message) (hdeg : o.degrees = false) (h : PlainMesg o m) :
    createMesg ar ds m.num (m.fields.map (writeField o m)) = .ok (normMesg m) := by
  have hp := parseCells_plain ar o ds m h.low hdeg m.fields h.plain
  simp only [createMesg, hp]
  have e : (m.fields.map fun f => (Sum.inl (normField f) : Slot)) = (m.fields.map normField).map (fun f => (Sum.inl f : Slot)) := by
    simp [List.map_map]
  rw [e, revertAll_inl]
  simp only [filterMap_inl]
  have hclear : (((m.fields.map normField).flatMap (targetsOf m.num)).filter ((m.fields.map normField).map fieldNumOf).contains) = [] := by
    have e1 : (m.fields.map normField).map fieldNumOf = m.fields.map fieldNumOf := by simp [List.map_map, Function.comp_def, fieldNumOf_norm]
    have e2 : (m.fields.map normField).flatMap (targetsOf m.num) = m.fields.flatMap (targetsOf m.num) := by
      rw [List.flatMap_map]
      congr 1
    rw [e1, e2]; exact h.clear
  rw [removeExpanded_none _ _ hclear]
  simp [normMesg, h.nodev]

theorem lookup_mem {α β : Type} [BEq α] [LawfulBEq α] : ∀ (l : List (α × β)) (a : α) (b : β), l.lookup a = some b → (a, b) ∈ l
  | [], _, _, h => by simp at h
  | (k, v) :: rest, a, b, h => by
    simp only [List.lookup_cons] at h
    split at h
    · rename_i hk
      have : a = k := by simpa using hk
      cases h; subst this; exact List.mem_cons_self ..
    · exact List.mem_cons_of_mem _ (lookup_mem rest a b h)

theorem mesg_facts {n : Nat} {s : String} (h : mesgNames.lookup n = some s) (hn : n < mfgRangeMin) :
    lookupMesgNum (txt s) = some n := by
  have hm := lookup_mem _ _ _ h
  have ht := mesgTableOK_true
  simp only [mesgTableOK, List.all_eq_true, Bool.or_eq_true, decide_eq_true_eq, Bool.and_eq_true, beq_iff_eq] at ht
  rcases ht (n, s) hm with h1 | h2
  · simp only at h1; omega
  · exact h2.1

/-- what reading the line of a plain message does to the reader's state -/
def stepState (s : RState) (m : Message) : RState :=
  let s1 := if m.num == mnFileId then
      (if s.seq != 0 then { s with done := s.cur.reverse :: s.done, cur := [], seq := s.seq + 1 } else { s with seq := s.seq + 1 })
    else s
  { s1 with cur := normMesg m :: s1.cur }

theorem readLine_plain (ar : Arith) (o : Opts) (m : Message) (s : RState) (hdeg : o.degrees = false) (h : PlainMesg o m) :
    readLine ar s (.data (mesgNameOf o m.num) (m.fields.map (writeField o m))) = .ok (stepState s m) := by
  obtain ⟨nm, hnm⟩ := h.listed
  have hname : mesgNameOf o m.num = txt nm := by
    have : ¬ (m.num ≥ mfgRangeMin) := by have := h.low; omega
    simp [mesgNameOf, this, hnm]
  have hlk := mesg_facts hnm h.low
  have hne : (m.fields.map (writeField o m)).isEmpty = false := by
    cases hf : m.fields with
    | nil => exact absurd hf h.nonempty
    | cons a as => rfl
  have hnorm : (normMesg m).fields.isEmpty = false := by
    cases hf : m.fields with
    | nil => exact absurd hf h.nonempty
    | cons a as => simp [normMesg, hf]
  have hnd : (m.num == mnFieldDescription) = false := by simpa using h.notDesc
  simp only [readLine, hname, hlk, hne, Bool.false_eq_true, ↓reduceIte]
  by_cases hfid : (m.num == mnFileId) = true
  · by_cases hseq : (s.seq != 0) = true
    · simp only [hfid, hseq, ↓reduceIte, createMesg_plain ar o _ m hdeg h, hnorm, Bool.false_and, Bool.false_eq_true, hnd, stepState]
    · simp only [hfid, hseq, ↓reduceIte, createMesg_plain ar o _ m hdeg h, hnorm, Bool.false_and, Bool.false_eq_true, hnd, stepState]
  · simp only [hfid, ↓reduceIte, createMesg_plain ar o _ m hdeg h, hnorm, Bool.false_and, Bool.false_eq_true, hnd, stepState]

theorem writeMesg_plain (o : Opts) (ds : List Desc) (m : Message) (h : PlainMesg o m) :
    writeMesg o ds m = (.data (mesgNameOf o m.num) (m.fields.map (writeField o m)), ds) := by
  have hnd : (m.num == mnFieldDescription) = false := by simpa using h.notDesc
  simp [writeMesg, hnd, h.nodev]

theorem readLines_plain (ar : Arith) (o : Opts) (hdeg : o.degrees = false) :
    ∀ (ms : List Message) (ds : List Desc) (s : RState), (∀ m ∈ ms, PlainMesg o m) →
      readLines ar s (writeMesgs o ds ms) = .ok (ms.foldl stepState s)
  | [], _, _, _ => rfl
  | m :: ms, ds, s, h => by
    have hm := h m (List.mem_cons_self ..)
    simp only [writeMesgs, writeMesg_plain o ds m hm, readLines, readLine_plain ar o m s hdeg hm, List.foldl_cons]
    exact readLines_plain ar o hdeg ms ds _ (fun x hx => h x (List.mem_cons_of_mem _ hx))

theorem foldl_step_noFid : ∀ (rest : List Message) (s : RState), (∀ m ∈ rest, m.num ≠ mnFileId) →
    rest.foldl stepState s = { s with cur := (rest.map normMesg).reverse ++ s.cur }
  | [], s, _ => by simp
  | m :: rest, s, h => by
    have hm : (m.num == mnFileId) = false := by simpa using h m (List.mem_cons_self ..)
    have hs : stepState s m = { s with cur := normMesg m :: s.cur } := by simp [stepState, hm]
    rw [List.foldl_cons, hs, foldl_step_noFid rest _ (fun x hx => h x (List.mem_cons_of_mem _ hx))]
    simp

/-- every file starts with its only file_id -/
def FileShape (f : List Message) : Prop :=
  ∃ fid rest, f = fid :: rest ∧ fid.num = mnFileId ∧ ∀ m ∈ rest, m.num ≠ mnFileId

/-- the sequences a reader state stands for -/
def seqsOf (s : RState) : List (List Message) := (s.cur.reverse :: s.done).reverse

theorem foldl_file (f : List Message) (hf : FileShape f) (s : RState) :
    let s' := f.foldl stepState s
    s'.seq = s.seq + 1 ∧ s'.ds = s.ds ∧
    (s.seq = 0 → s.cur = [] → s.done = [] → seqsOf s' = [f.map normMesg]) ∧
    (s.seq ≠ 0 → seqsOf s' = seqsOf s ++ [f.map normMesg]) := by
  obtain ⟨fid, rest, rfl, hfid, hrest⟩ := hf
  have hb : (fid.num == mnFileId) = true := by simp [hfid]
  simp only [List.foldl_cons]
  rw [foldl_step_noFid rest _ hrest]
  by_cases hseq : s.seq = 0
  · have : (s.seq != 0) = false := by simp [hseq]
    simp only [stepState, hb, ↓reduceIte, this, Bool.false_eq_true]
    refine ⟨trivial, trivial, ?_, fun h => absurd hseq h⟩
    intro _ hc hd
    simp [seqsOf, hc, hd]
  · have : (s.seq != 0) = true := by simp [hseq]
    simp only [stepState, hb, ↓reduceIte, this]
    refine ⟨trivial, trivial, fun h => absurd h hseq, ?_⟩
    intro _
    simp [seqsOf]

theorem foldl_files : ∀ (files : List (List Message)) (s : RState), (∀ f ∈ files, FileShape f) → s.seq ≠ 0 →
    let s' := files.flatten.foldl stepState s
    s'.seq = s.seq + files.length ∧ seqsOf s' = seqsOf s ++ files.map (·.map normMesg)
  | [], s, _, _ => by simp
  | f :: files, s, h, hs => by
    have h1 := foldl_file f (h f (List.mem_cons_self ..)) s
    simp only [List.flatten_cons, List.foldl_append]
    have hne : (f.foldl stepState s).seq ≠ 0 := by rw [h1.1]; omega
    have ih := foldl_files files (f.foldl stepState s) (fun x hx => h x (List.mem_cons_of_mem _ hx)) hne
    refine ⟨?_, ?_⟩
    · rw [ih.1, h1.1]; simp only [List.length_cons]; omega
    · rw [ih.2, h1.2.2.2 hs]; simp

/-- reading back the CSV of a chain of well-shaped files of plain messages: as many sequences as files, each the file's
messages in their normal form -/
theorem fromCsvPre_plain (ar : Arith) (o : Opts) (hdeg : o.degrees = false) (files : List (List Message))
    (hne : files ≠ []) (hshape : ∀ f ∈ files, FileShape f) (hplain : ∀ f ∈ files, ∀ m ∈ f, PlainMesg o m) :
    fromCsvPre ar (toCsv o files) = .ok ⟨files.map (·.map normMesg), files.length⟩ := by
  have hall : ∀ m ∈ files.flatten, PlainMesg o m := by
    intro m hm
    obtain ⟨f, hf, hmf⟩ := List.mem_flatten.mp hm
    exact hplain f hf m hmf
  simp only [fromCsvPre, toCsv, readLines_plain ar o hdeg files.flatten [] {} hall]
  cases files with
  | nil => exact absurd rfl hne
  | cons f rest =>
    have h1 := foldl_file f (hshape f (List.mem_cons_self ..)) {}
    simp only [List.flatten_cons, List.foldl_append]
    have hne1 : (f.foldl stepState {}).seq ≠ 0 := by rw [h1.1]; decide
    have h2 := foldl_files rest (f.foldl stepState {}) (fun x hx => hshape x (List.mem_cons_of_mem _ hx)) hne1
    have hs1 := h1.2.2.1 rfl rfl rfl
    have e1 : (rest.flatten.foldl stepState (f.foldl stepState {})).seq = (f :: rest).length := by
      rw [h2.1, h1.1]; simp only [List.length_cons]; show 0 + 1 + rest.length = rest.length + 1; omega
    have e2 : seqsOf (rest.flatten.foldl stepState (f.foldl stepState {})) = (f :: rest).map (·.map normMesg) := by
      rw [h2.2, hs1]; simp
    simp only [seqsOf] at e2
    rw [e1, e2]

/-- an integer scalar (what `ApplyValue` scales) -/
def isIntScalar : Value → Bool
  | .int8 _ | .uint8 _ | .int16 _ | .uint16 _ | .int32 _ | .uint32 _ | .int64 _ | .uint64 _ => true
  | _ => false

theorem field_rt_scaled (ar : Arith) (o : Opts) (ds : List Desc) (msg : Message) (fld : Field) (pm : PMesg) (p : PField)
    (hpm : pm ∈ profile) (hnum : pm.num = msg.num) (hn : msg.num < mfgRangeMin) (hp : p ∈ pm.fields)
    (hfn : fieldNumOf fld = p.num) (hdeg : o.degrees = false) (hraw : o.raw = false) (hsc : isScaledField p.scale p.offset = true)
    (hsub : substitute msg.fields p.subs = none) (harr : p.array = false) (hb : p.isBool = false)
    (hv : isIntScalar fld.value = true) (hns : (p.bt == btString) = false)
    (har : ar.scaled fld.value p.bt p.scale p.offset = some fld.value) :
    readCell ar ds msg.num (writeField o msg fld) = .ok (.field (mkField p.num p.bt fld.value)) := by
  obtain ⟨h1, h2, h3, h4, h5, _⟩ := field_facts hpm (hnum ▸ hn) hp
  rw [hnum] at h1 h2
  have hss : scalarsOf fld.value = some [fld.value] := by
    cases hvv : fld.value <;> simp [hvv, isIntScalar] at hv <;> rfl
  have hw : writeField o msg fld = ⟨txt p.name, [.scaled fld.value p.scale p.offset], txt p.units⟩ := by
    simp only [writeField, hfn, h2, hsub, hdeg, Bool.false_and, Bool.false_eq_true, ↓reduceIte]
    congr 1
    simp [fieldAtoms, hdeg, hraw, hsc, hss, cellPieces]
  rw [hw]
  have hdg : (txt p.units == degreesTxt && p.bt == btSint32) = false := by
    cases hc : (txt p.units == degreesTxt && p.bt == btSint32)
    · rfl
    · simp only [Bool.and_eq_true, beq_iff_eq] at hc; exact absurd hc h5
  simp [readCell, h3, h1, h2, harr, parseCellValue, parseAtom, hdg, hb, har, hns]

end Fit.Csv
