import FitModel.CsvSpec
import FitProps.CsvTableLemmas
/-! Lemmas about the fitconv model (C19). Core Lean only. -/
namespace Fit.Csv
open Fit.Value Fit.Msg Fit.Gen Fit.Gen.Csv

/-! ### columns -/

theorem foldl_max_ge (ls : List Line) (a : Nat) : a ≤ ls.foldl (fun a l => max a (nTriples l)) a := by
  induction ls generalizing a with
  | nil => exact Nat.le_refl _
  | cons l ls ih => exact Nat.le_trans (Nat.le_max_left _ _) (ih _)

theorem nTriples_le_foldl (ls : List Line) (a : Nat) : ∀ l ∈ ls, nTriples l ≤ ls.foldl (fun a l => max a (nTriples l)) a := by
  induction ls generalizing a with
  | nil => intro l hl; cases hl
  | cons x xs ih =>
    intro l hl
    rcases List.mem_cons.mp hl with rfl | h
    · exact Nat.le_trans (Nat.le_max_right _ _) (foldl_max_ge xs _)
    · exact ih _ l h

theorem nTriples_le_maxFields (ls : List Line) : ∀ l ∈ ls, nTriples l ≤ maxFields ls :=
  nTriples_le_foldl ls 0

/-! ### integers ↔ two's-complement patterns, per width -/

theorem pat_sint8 (v : Nat) : pat 8 (sint 8 v) = v % 2 ^ 8 := by
  unfold pat sint; simp only [Nat.reducePow, Nat.reduceSub]; split <;> omega
theorem pat_sint16 (v : Nat) : pat 16 (sint 16 v) = v % 2 ^ 16 := by
  unfold pat sint; simp only [Nat.reducePow, Nat.reduceSub]; split <;> omega
theorem pat_sint32 (v : Nat) : pat 32 (sint 32 v) = v % 2 ^ 32 := by
  unfold pat sint; simp only [Nat.reducePow, Nat.reduceSub]; split <;> omega
theorem pat_sint64 (v : Nat) : pat 64 (sint 64 v) = v % 2 ^ 64 := by
  unfold pat sint; simp only [Nat.reducePow, Nat.reduceSub]; split <;> omega

theorem inRangeS_sint8 (v : Nat) : inRangeS 8 (sint 8 v) = true := by
  unfold inRangeS sint; simp only [Nat.reducePow, Nat.reduceSub, Bool.and_eq_true, decide_eq_true_eq]; split <;> omega
theorem inRangeS_sint16 (v : Nat) : inRangeS 16 (sint 16 v) = true := by
  unfold inRangeS sint; simp only [Nat.reducePow, Nat.reduceSub, Bool.and_eq_true, decide_eq_true_eq]; split <;> omega
theorem inRangeS_sint32 (v : Nat) : inRangeS 32 (sint 32 v) = true := by
  unfold inRangeS sint; simp only [Nat.reducePow, Nat.reduceSub, Bool.and_eq_true, decide_eq_true_eq]; split <;> omega
theorem inRangeS_sint64 (v : Nat) : inRangeS 64 (sint 64 v) = true := by
  unfold inRangeS sint; simp only [Nat.reducePow, Nat.reduceSub, Bool.and_eq_true, decide_eq_true_eq]; split <;> omega

theorem inRangeU_mod (w v : Nat) : inRangeU w ((v % 2 ^ w : Nat) : Int) = true := by
  unfold inRangeU
  have : v % 2 ^ w < 2 ^ w := Nat.mod_lt _ (Nat.two_pow_pos w)
  simp only [Bool.and_eq_true, decide_eq_true_eq]
  exact ⟨Int.natCast_nonneg _, by exact_mod_cast this⟩

theorem inRangeU_of_lt {w v : Nat} (h : v < 2 ^ w) : inRangeU w (v : Int) = true := by
  unfold inRangeU
  simp only [Bool.and_eq_true, decide_eq_true_eq]
  exact ⟨Int.natCast_nonneg _, by exact_mod_cast h⟩


theorem splitBar_safe : ∀ s : Txt, s.all safeByte = true → splitBar s = [s]
  | [], _ => rfl
  | b :: bs, h => by
    simp only [List.all_cons, Bool.and_eq_true] at h
    have ih := splitBar_safe bs h.2
    have hb : (b == 124) = false := by
      have := h.1; simp only [safeByte, Bool.and_eq_true, bne_iff_ne, ne_eq] at this
      simpa using this.2
    simp [splitBar, ih, hb]

theorem fmtStr_safe (s : Txt) (h : s.all safeByte = true) : fmtStr s = s := by
  unfold fmtStr
  apply List.filter_eq_self.mpr
  intro b hb
  have := List.all_eq_true.mp h b hb
  simp only [safeByte, Bool.and_eq_true] at this
  exact this.1


theorem scalar_rt (ar : Arith) (bt : Nat) (isBool : Bool) (scale offset : Nat) (units : Txt) (v : Value)
    (h : scalarOK bt isBool v = true) (hu : ¬(units = degreesTxt ∧ bt = btSint32))
    (hf : (bt = btFloat32 ∨ bt = btFloat64) → isScaledField scale offset = false) :
    parseCellValue ar (cellPieces (formatAtoms v)) bt isBool false scale offset units = .ok (csvNormS v) := by
  cases v with
  | bool x =>
    simp only [scalarOK, Bool.and_eq_true, decide_eq_true_eq] at h
    obtain ⟨⟨hb, _⟩, hv⟩ := h
    subst hb
    have hfmt : formatAtoms (.bool x) = [.int (x : Int)] := by
      have e : ((x : Int) % 256) = x := by omega
      simp only [formatAtoms, e]
    have hdeg : (units == degreesTxt && bt == btSint32) = false := by
      cases hc : (units == degreesTxt && bt == btSint32)
      · rfl
      · simp only [Bool.and_eq_true, beq_iff_eq] at hc; exact absurd hc hu
    rw [hfmt]
    simp [cellPieces, parseCellValue, parseAtom, hdeg, inRangeU_of_lt (w := 8) hv, csvNormS]
  | uint8 x =>
    simp only [scalarOK, Bool.and_eq_true, Bool.not_eq_eq_eq_not, Bool.not_true, decide_eq_true_eq] at h
    obtain ⟨⟨hb, hbt⟩, hv⟩ := h
    subst hb
    have hne : (bt == btSint32) = false := by
      simp only [btIsUint8, Bool.or_eq_true, beq_iff_eq] at hbt
      rcases hbt with ((h | h) | h) | h <;> subst h <;> decide
    have hfmt : formatAtoms (.uint8 x) = [.int (x : Int)] := by
      have e : ((x : Int) % 2 ^ 8) = x := by omega
      simp only [formatAtoms, e]
    rw [hfmt]
    simp [cellPieces, parseCellValue, parseAtom, hne, hbt, inRangeU_of_lt hv, csvNormS]
  | int8 x =>
    simp only [scalarOK, Bool.and_eq_true, Bool.not_eq_eq_eq_not, Bool.not_true, decide_eq_true_eq, beq_iff_eq] at h
    obtain ⟨⟨hb, hbt⟩, hv⟩ := h
    subst hb; subst hbt
    simp [formatAtoms, cellPieces, parseCellValue, parseAtom, btIsUint8, inRangeS_sint8, pat_sint8, Nat.mod_eq_of_lt hv, csvNormS,
      btSint8, btSint32, btEnum, btByte, btUint8, btUint8z]
  | int16 x =>
    simp only [scalarOK, Bool.and_eq_true, Bool.not_eq_eq_eq_not, Bool.not_true, decide_eq_true_eq, beq_iff_eq] at h
    obtain ⟨⟨hb, hbt⟩, hv⟩ := h
    subst hb; subst hbt
    simp [formatAtoms, cellPieces, parseCellValue, parseAtom, btIsUint8, inRangeS_sint16, pat_sint16, Nat.mod_eq_of_lt hv, csvNormS,
      btSint8, btSint16, btSint32, btEnum, btByte, btUint8, btUint8z]
  | uint16 x =>
    simp only [scalarOK, Bool.and_eq_true, Bool.not_eq_eq_eq_not, Bool.not_true, decide_eq_true_eq, Bool.or_eq_true, beq_iff_eq] at h
    obtain ⟨⟨hb, hbt⟩, hv⟩ := h
    subst hb
    have hfmt : formatAtoms (.uint16 x) = [.int (x : Int)] := by
      have e : ((x : Int) % 2 ^ 16) = x := by omega
      simp only [formatAtoms, e]
    rw [hfmt]
    rcases hbt with hbt | hbt <;> subst hbt <;>
      simp [cellPieces, parseCellValue, parseAtom, btIsUint8, inRangeU_of_lt hv, csvNormS,
        btSint8, btSint16, btUint16, btUint16z, btSint32, btEnum, btByte, btUint8, btUint8z]
  | int32 x =>
    simp only [scalarOK, Bool.and_eq_true, Bool.not_eq_eq_eq_not, Bool.not_true, decide_eq_true_eq, beq_iff_eq] at h
    obtain ⟨⟨hb, hbt⟩, hv⟩ := h
    subst hb; subst hbt
    have hdeg : (units == degreesTxt) = false := by
      cases hc : (units == degreesTxt)
      · rfl
      · exact absurd ⟨by simpa using hc, rfl⟩ hu
    simp [formatAtoms, cellPieces, parseCellValue, parseAtom, btIsUint8, inRangeS_sint32, pat_sint32, Nat.mod_eq_of_lt hv, csvNormS, hdeg,
      btSint8, btSint16, btUint16, btUint16z, btSint32, btEnum, btByte, btUint8, btUint8z]
  | uint32 x =>
    simp only [scalarOK, Bool.and_eq_true, Bool.not_eq_eq_eq_not, Bool.not_true, decide_eq_true_eq, Bool.or_eq_true, beq_iff_eq] at h
    obtain ⟨⟨hb, hbt⟩, hv⟩ := h
    subst hb
    have hfmt : formatAtoms (.uint32 x) = [.int (x : Int)] := by
      have e : ((x : Int) % 2 ^ 32) = x := by omega
      simp only [formatAtoms, e]
    rw [hfmt]
    rcases hbt with hbt | hbt <;> subst hbt <;>
      simp [cellPieces, parseCellValue, parseAtom, btIsUint8, inRangeU_of_lt hv, csvNormS,
        btSint8, btSint16, btUint16, btUint16z, btSint32, btUint32, btUint32z, btEnum, btByte, btUint8, btUint8z]
  | int64 x =>
    simp only [scalarOK, Bool.and_eq_true, Bool.not_eq_eq_eq_not, Bool.not_true, decide_eq_true_eq, beq_iff_eq] at h
    obtain ⟨⟨hb, hbt⟩, hv⟩ := h
    subst hb; subst hbt
    simp [formatAtoms, cellPieces, parseCellValue, parseAtom, btIsUint8, inRangeS_sint64, pat_sint64, Nat.mod_eq_of_lt hv, csvNormS,
      btSint8, btSint16, btUint16, btUint16z, btSint32, btUint32, btUint32z, btSint64, btEnum, btByte, btUint8, btUint8z]
  | uint64 x =>
    simp only [scalarOK, Bool.and_eq_true, Bool.not_eq_eq_eq_not, Bool.not_true, decide_eq_true_eq, Bool.or_eq_true, beq_iff_eq] at h
    obtain ⟨⟨hb, hbt⟩, hv⟩ := h
    subst hb
    have hfmt : formatAtoms (.uint64 x) = [.int (x : Int)] := by
      have e : ((x : Int) % 2 ^ 64) = x := by omega
      simp only [formatAtoms, e]
    rw [hfmt]
    rcases hbt with hbt | hbt <;> subst hbt <;>
      simp [cellPieces, parseCellValue, parseAtom, btIsUint8, inRangeU_of_lt hv, csvNormS,
        btSint8, btSint16, btUint16, btUint16z, btSint32, btUint32, btUint32z, btSint64, btUint64, btUint64z, btEnum, btByte, btUint8, btUint8z]
  | float32 b =>
    simp only [scalarOK, Bool.and_eq_true, Bool.not_eq_eq_eq_not, Bool.not_true, decide_eq_true_eq, beq_iff_eq] at h
    obtain ⟨⟨⟨hb, hbt⟩, _⟩, _⟩ := h
    subst hb; subst hbt
    have hs := hf (Or.inl rfl)
    simp [formatAtoms, cellPieces, parseCellValue, parseAtom, csvNormS, hs, btFloat32, btSint32]
  | float64 b =>
    simp only [scalarOK, Bool.and_eq_true, Bool.not_eq_eq_eq_not, Bool.not_true, decide_eq_true_eq, beq_iff_eq] at h
    obtain ⟨⟨⟨hb, hbt⟩, _⟩, _⟩ := h
    subst hb; subst hbt
    have hs := hf (Or.inr rfl)
    simp [formatAtoms, cellPieces, parseCellValue, parseAtom, csvNormS, hs, btFloat32, btFloat64, btSint32]
  | string s =>
    simp only [scalarOK, Bool.and_eq_true, Bool.not_eq_eq_eq_not, Bool.not_true, beq_iff_eq] at h
    obtain ⟨⟨hb, hbt⟩, hs⟩ := h
    subst hb; subst hbt
    simp [formatAtoms, cellPieces, parseCellValue, parseAtom, csvNormS, fmtStr_safe s hs, splitBar_safe s hs, btString, btSint32]
  | _ => simp [scalarOK] at h

/-- what `fieldTableOK` says about one field of one profile message -/
theorem field_facts {m : PMesg} {f : PField} (hm : m ∈ profile) (hn : m.num < mfgRangeMin) (hf : f ∈ m.fields) :
    lookupFieldNum m.num (txt f.name) = some f.num ∧ pfield m.num f.num = some f ∧ (txt f.name).isEmpty = false ∧
    isPrefixOf' unknownTxt (txt f.name) = false ∧ ¬(txt f.units = degreesTxt ∧ f.bt = btSint32) ∧
    ((f.bt = btFloat32 ∨ f.bt = btFloat64) → isScaledField f.scale f.offset = false) := by
  have h := fieldTableOK_true
  simp only [fieldTableOK, List.all_eq_true, Bool.or_eq_true, decide_eq_true_eq, Bool.and_eq_true, beq_iff_eq,
    Bool.not_eq_eq_eq_not, Bool.not_true] at h
  rcases h m hm with h1 | h2
  · omega
  · obtain ⟨⟨⟨⟨⟨a, b⟩, c⟩, d⟩, e⟩, g⟩ := h2 f hf
    refine ⟨a, b, c, d, ?_, ?_⟩
    · intro ⟨hu, hb⟩
      simp [hu, hb] at e
    · intro hb
      cases hs : isScaledField f.scale f.offset
      · rfl
      · rcases hb with hb | hb <;> simp [hb, hs] at g

/-- **A known field survives the raw round trip through its cell** (raw mode or a field without scale/offset, no
position in degrees, no sub-field substitution, scalar value). -/
theorem field_rt (ar : Arith) (o : Opts) (ds : List Desc) (msg : Message) (fld : Field) (pm : PMesg) (p : PField)
    (hpm : pm ∈ profile) (hnum : pm.num = msg.num) (hn : msg.num < mfgRangeMin) (hp : p ∈ pm.fields)
    (hfn : fieldNumOf fld = p.num)
    (hdeg : o.degrees = false) (hraw : o.raw = true ∨ isScaledField p.scale p.offset = false)
    (hsub : substitute msg.fields p.subs = none) (harr : p.array = false)
    (hv : scalarOK p.bt p.isBool fld.value = true) :
    readCell ar ds msg.num (writeField o msg fld) = .ok (.field (mkField p.num p.bt (csvNormS fld.value))) := by
  obtain ⟨h1, h2, h3, h4, h5, hfl⟩ := field_facts hpm (hnum ▸ hn) hp
  rw [hnum] at h1 h2
  have hw : writeField o msg fld = ⟨txt p.name, cellPieces (formatAtoms fld.value), txt p.units⟩ := by
    simp only [writeField, hfn, h2, hsub, hdeg, Bool.false_and, Bool.false_eq_true, ↓reduceIte]
    congr 1
    simp only [fieldAtoms, hdeg, Bool.false_and, Bool.false_eq_true, ↓reduceIte]
    rcases hraw with hr | hs
    · simp [hr]
    · simp [hs]
  rw [hw]
  have := scalar_rt ar p.bt p.isBool p.scale p.offset (txt p.units) fld.value hv h5 hfl
  simp only [readCell, h3, Bool.false_eq_true, ↓reduceIte, h1, h2, harr]
  rw [this]
  simp

/-! ### messages whose fields are all plain scalar fields -/

/-- the conditions of `field_rt` for one field of a message -/
def PlainField (o : Opts) (msg : Message) (fld : Field) : Prop :=
  ∃ pm p, pm ∈ profile ∧ pm.num = msg.num ∧ p ∈ pm.fields ∧ fieldNumOf fld = p.num ∧
    (o.raw = true ∨ isScaledField p.scale p.offset = false) ∧ substitute msg.fields p.subs = none ∧ p.array = false ∧
    scalarOK p.bt p.isBool fld.value = true

/-- the field as it is expected back -/
def normField (fld : Field) : Field := mkField (fieldNumOf fld) (fieldBtOf fld) (csvNormS fld.value)

theorem parseCells_plain (ar : Arith) (o : Opts) (ds : List Desc) (msg : Message) (hn : msg.num < mfgRangeMin)
    (hdeg : o.degrees = false) :
    ∀ (fs : List Field), (∀ f ∈ fs, PlainField o msg f ∧ ∃ p, pfield msg.num (fieldNumOf f) = some p ∧ p.bt = fieldBtOf f) →
      parseCells ar ds msg.num (fs.map (writeField o msg)) = .ok (fs.map (fun f => Sum.inl (normField f)), [])
  | [], _ => rfl
  | f :: fs, h => by
    obtain ⟨⟨pm, p, hpm, hnum, hp, hfn, hraw, hsub, harr, hv⟩, ⟨p', hp', hbt⟩⟩ := h f (List.mem_cons_self ..)
    have hrt := field_rt ar o ds msg f pm p hpm hnum hn hp hfn hdeg hraw hsub harr hv
    have ih := parseCells_plain ar o ds msg hn hdeg fs (fun x hx => h x (List.mem_cons_of_mem _ hx))
    have hpp : p' = p := by
      have := (field_facts hpm (hnum ▸ hn) hp).2.1
      rw [hnum, ← hfn, hp'] at this
      exact Option.some.inj this
    subst hpp
    simp only [List.map_cons, parseCells, hrt, ih, normField, hfn, hbt]

end Fit.Csv
