import FitModel.Raw
import FitModel.FitFormat
import FitModel.Generated.Go_proto
import FitProps.Go2LeanLemmas
/-!
Agreement of the definitions GENERATED from proto/proto.go (`Go.proto.*`) with
the hand-written model: the record-header helpers (`Fit.Raw.localMesgNum`, the header predicates of the format
specification `Fit.FitFormat`) and the header masks the reader model reads from a regenerated constant file.
-/
namespace Fit.Go2Lean

/-- `proto.LocalMesgNum(header)` is the raw decoder model's `localMesgNum` and the format specification's `localNum`, for
every header byte -/
theorem proto_localMesgNum : ∀ h < 256, Go.proto.LocalMesgNum h = Fit.Raw.localMesgNum h ∧
    Go.proto.LocalMesgNum h = Fit.FitFormat.localNum h := by decide +kernel

/-- the result is a local message type: below 16 (and below 4 in a compressed-timestamp header) -/
theorem proto_localMesgNum_lt : ∀ h < 256, Go.proto.LocalMesgNum h < 16 ∧ (h ≥ 128 → Go.proto.LocalMesgNum h < 4) := by
  decide +kernel

/-- the header masks of the source (values computed by go/types) are the ones the reader model uses … -/
theorem proto_masks_reader :
    Go.proto.MesgDefinitionMask = Fit.Gen.Reader.mesgDefinitionMask ∧
    Go.proto.MesgCompressedHeaderMask = Fit.Gen.Reader.mesgCompressedHeaderMask ∧
    Go.proto.LocalMesgNumMask = Fit.Gen.Reader.localMesgNumMask ∧
    Go.proto.CompressedLocalMesgNumMask = Fit.Gen.Reader.compressedLocalMesgNumMask ∧
    Go.proto.CompressedBitShift = Fit.Gen.Reader.compressedBitShift ∧
    Go.proto.DevDataMask = Fit.Gen.Reader.devDataMask := by decide

/-- … and the ones the format specification is written with: bit 7 compressed timestamp, bit 6 definition, bit 5
developer data, bits 0–4 time offset, normal header = no bit -/
theorem proto_masks_format : ∀ h < 256,
    Fit.FitFormat.isCompressed h = ((h &&& Go.proto.MesgCompressedHeaderMask) == Go.proto.MesgCompressedHeaderMask) ∧
    Fit.FitFormat.isDefinition h = (!Fit.FitFormat.isCompressed h && (h &&& Go.proto.MesgDefinitionMask) == Go.proto.MesgDefinitionMask) ∧
    Fit.FitFormat.hasDevData h = ((h &&& Go.proto.DevDataMask) == Go.proto.DevDataMask) ∧
    h &&& Go.proto.CompressedTimeMask = h % 32 ∧ Go.proto.MesgNormalHeaderMask = 0 := by decide +kernel

end Fit.Go2Lean
