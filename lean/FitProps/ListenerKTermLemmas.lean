import FitProps.ListenerKLemmas
/-! Termination and mutual exclusion for the listener transition system with options (`FitModel/ListenerK.lean`; C14).
Core Lean only. -/
namespace Fit.ListenerK

section
variable {M σ κ : Type} (proc : κ → σ → M → σ) (init : σ)

/-! ### termination: a measure that every step of either thread decreases

`mu s` = cost of the calls still in the script (each call priced with the pool capacity it will run under: a `Reset`
changes it) + cost of the rest of the producer's current call + 3 per queued message + cost of the rest of the worker's
current iteration (+1 for the worker's exit, paid for in advance by whoever starts a worker). No invariant is needed: the
measure decreases on EVERY step from EVERY state. -/

/-- a `Reset` ends by starting a worker (`reset()`): it pays for that worker's exit step -/
def credit : After κ → Nat
  | .reset _ _ => 1
  | _ => 0

/-- capacity of the pool after the call that began with `Close()` -/
def pAfter (P : Nat) : After κ → Nat
  | .reset n _ => poolSize n
  | _ => P

/-- cost of the calls not yet begun, `P` = capacity of the pool when the first of them begins -/
def scriptCost : Nat → List (Cmd M κ) → Nat
  | _, [] => 0
  | P, .reset n _ :: cs => (3 * P + 6) + scriptCost (poolSize n) cs
  | P, .onMesg _ :: cs => 8 + scriptCost P cs
  | P, .file :: cs => (3 * P + 5) + scriptCost P cs
  | P, .close :: cs => (3 * P + 5) + scriptCost P cs

def pcCost (P : Nat) : PC M κ → Nat
  | .fin => 0
  | .idle => 1
  | .onTake _ => 6
  | .onSend _ _ => 5
  | .closing k a => 3 * (P - k) + 4 + credit a
  | .closingPut k _ a => 3 * (P - k) + 3 + credit a
  | .closeWait a => 2 + credit a

def wcCost : WC → Nat
  | .recv => 1
  | .proc _ => 3
  | .ret _ => 2
  | .exited => 0

/-- the pool capacity the next call of the script will find: a `Reset` in progress re-makes the pool before it returns -/
def pNext (s : St M σ κ) : Nat :=
  match afterOf s.p with
  | some a => pAfter s.P a
  | none => s.P

/-- **the termination measure** -/
def mu (s : St M σ κ) : Nat := scriptCost (pNext s) s.script + pcCost s.P s.p + 3 * s.queue.length + wcCost s.c

theorem resize_P (s : St M σ κ) (n : Nat) (k : κ) : (resize s n k).P = poolSize n := by
  unfold resize
  split
  · rename_i h; simp [h]
  · rfl

theorem resize_script (s : St M σ κ) (n : Nat) (k : κ) : (resize s n k).script = s.script := by
  unfold resize; split <;> rfl

theorem mu_finishClose (a : After κ) (s : St M σ κ) :
    mu (finishClose init a s) ≤ scriptCost (pAfter s.P a) s.script + 1 + credit a + 3 * s.queue.length + wcCost s.c := by
  cases a with
  | file => simp only [mu, finishClose, pNext, afterOf, pcCost, credit, pAfter]; omega
  | close => simp only [mu, finishClose, pNext, afterOf, pcCost, credit, pAfter]; omega
  | reset n k =>
    have hP := resize_P ({ s with active := false } : St M σ κ) n k
    have hS := resize_script ({ s with active := false } : St M σ κ) n k
    simp only [mu, finishClose, respawn, pNext, afterOf, pcCost, credit, pAfter, wcCost, List.length_nil, hP, hS]
    omega

theorem mu_startClose (a : After κ) (s : St M σ κ) :
    mu (startClose init a s) ≤ scriptCost (pAfter s.P a) s.script + 3 * s.P + 4 + credit a + 3 * s.queue.length + wcCost s.c := by
  unfold startClose
  split
  · split
    · simp only [mu, pNext, afterOf, pcCost]; omega
    · simp only [mu, pNext, afterOf, pcCost]; omega
  · have := mu_finishClose init a s
    omega

/-- every step of the producer decreases the measure -/
theorem mu_stepP {s s' : St M σ κ} (h : stepP init s = some s') : mu s' < mu s := by
  unfold stepP at h
  cases hp : s.p with
  | idle =>
    rw [hp] at h
    simp only at h
    cases hs : s.script with
    | nil =>
      rw [hs] at h
      injection h with h; subst h
      simp only [mu, pNext, afterOf, hp, hs, pcCost, scriptCost]; omega
    | cons c cs =>
      rw [hs] at h
      cases c with
      | onMesg m =>
        injection h with h; subst h
        by_cases ha : s.active = true
        · simp only [ha, if_true, mu, pNext, afterOf, hp, hs, pcCost, scriptCost]; omega
        · have ha' : s.active = false := by simpa using ha
          simp only [ha', Bool.false_eq_true, if_false, respawn, mu, pNext, afterOf, hp, hs, pcCost, scriptCost, wcCost,
            List.length_nil]
          omega
      | file =>
        injection h with h; subst h
        have := mu_startClose init (.file : After κ) ({ s with script := cs } : St M σ κ)
        simp only [pAfter, credit] at this
        simp only [mu, pNext, afterOf, hp, hs, pcCost, scriptCost] at this ⊢; omega
      | close =>
        injection h with h; subst h
        have := mu_startClose init (.close : After κ) ({ s with script := cs } : St M σ κ)
        simp only [pAfter, credit] at this
        simp only [mu, pNext, afterOf, hp, hs, pcCost, scriptCost] at this ⊢; omega
      | reset n k =>
        injection h with h; subst h
        have := mu_startClose init (.reset n k : After κ) ({ s with script := cs } : St M σ κ)
        simp only [pAfter, credit] at this
        simp only [mu, pNext, afterOf, hp, hs, pcCost, scriptCost] at this ⊢; omega
  | onTake m =>
    rw [hp] at h
    simp only at h
    cases hpool : s.pool with
    | nil => rw [hpool] at h; cases h
    | cons t pool' =>
      rw [hpool] at h
      injection h with h; subst h
      simp only [mu, pNext, afterOf, hp, pcCost]; omega
  | onSend m t =>
    rw [hp] at h
    simp only at h
    split at h
    · injection h with h; subst h
      simp only [mu, pNext, afterOf, hp, pcCost, List.length_append, List.length_cons, List.length_nil]; omega
    · split at h
      · rename_i hsync
        injection h with h; subst h
        simp only [mu, pNext, afterOf, hp, pcCost, hsync.2, wcCost]; omega
      · cases h
  | closing k a =>
    rw [hp] at h
    simp only at h
    cases hpool : s.pool with
    | nil => rw [hpool] at h; cases h
    | cons t pool' =>
      rw [hpool] at h
      injection h with h; subst h
      simp only [mu, pNext, afterOf, hp, pcCost]; omega
  | closingPut k t a =>
    rw [hp] at h
    simp only at h
    split at h
    · injection h with h; subst h
      by_cases hk : k + 1 < s.P
      · simp only [hk, if_true, mu, pNext, afterOf, hp, pcCost]; omega
      · simp only [hk, if_false, mu, pNext, afterOf, hp, pcCost]; omega
    · cases h
  | closeWait a =>
    rw [hp] at h
    simp only at h
    split at h
    · injection h with h; subst h
      have := mu_finishClose init a s
      simp only [mu, pNext, afterOf, hp, pcCost] at this ⊢; omega
    · cases h
  | fin => rw [hp] at h; cases h

/-- every step of the worker decreases the measure -/
theorem mu_stepC {s s' : St M σ κ} (h : stepC proc s = some s') : mu s' < mu s := by
  unfold stepC at h
  cases hc : s.c with
  | recv =>
    rw [hc] at h
    simp only at h
    cases hq : s.queue with
    | cons t q =>
      rw [hq] at h
      injection h with h; subst h
      simp only [mu, pNext, hc, hq, wcCost, List.length_cons]; omega
    | nil =>
      rw [hq] at h
      simp only at h
      split at h
      · injection h with h; subst h
        simp only [mu, pNext, hc, hq, wcCost]; omega
      · cases h
  | proc t =>
    rw [hc] at h
    injection h with h; subst h
    simp only [mu, pNext, hc, wcCost]; omega
  | ret t =>
    rw [hc] at h
    simp only at h
    split at h
    · injection h with h; subst h
      simp only [mu, pNext, hc, wcCost]; omega
    · cases h
  | exited => rw [hc] at h; cases h

theorem mu_step {s s' : St M σ κ} (h : Step proc init s s') : mu s' < mu s := by
  rcases h with h | h
  · exact mu_stepP init h
  · exact mu_stepC proc h

/-- `n` steps of the transition relation -/
inductive Steps : Nat → St M σ κ → St M σ κ → Prop where
  | refl (s) : Steps 0 s s
  | cons {n s s' s''} : Step proc init s s' → Steps n s' s'' → Steps (n + 1) s s''

/-- a run of `n` steps uses up at least `n` of the measure: no run from `s` is longer than `mu s` -/
theorem steps_bound {n : Nat} {s s' : St M σ κ} (h : Steps proc init n s s') : n + mu s' ≤ mu s := by
  induction h with
  | refl s => omega
  | cons hstep _ ih => have := mu_step proc init hstep; omega

/-- there is no infinite run, from any state -/
theorem no_infinite_run (f : Nat → St M σ κ) : ¬ ∀ i, Step proc init (f i) (f (i + 1)) := by
  intro h
  have hb : ∀ i, mu (f i) + i ≤ mu (f 0) := by
    intro i
    induction i with
    | zero => omega
    | succ i ih => have := mu_step proc init (h i); omega
  have := hb (mu (f 0) + 1)
  omega

theorem steps_reachable {N : Nat} {k0 : κ} {script : List (Cmd M κ)} {n : Nat} {s s' : St M σ κ}
    (hr : Reachable proc init N k0 script s) (h : Steps proc init n s s') : Reachable proc init N k0 script s' := by
  induction h with
  | refl s => exact hr
  | cons hstep _ ih => exact ih (Reachable.step hr hstep)

/-- from every reachable state some run ends with the producer finished (all calls made and returned) -/
theorem reaches_fin {N : Nat} {k0 : κ} {script : List (Cmd M κ)} :
    ∀ (b : Nat) (s : St M σ κ), mu s ≤ b → Reachable proc init N k0 script s →
      ∃ n s', Steps proc init n s s' ∧ isFin s'.p = true := by
  intro b
  induction b with
  | zero =>
    intro s hb hr
    cases hfin : isFin s.p with
    | true => exact ⟨0, s, Steps.refl s, hfin⟩
    | false =>
      rcases progress proc init (inv_reachable proc init hr) hfin with h | h
      · obtain ⟨s', hs'⟩ := Option.isSome_iff_exists.mp h
        have := mu_stepP init hs'; omega
      · obtain ⟨s', hs'⟩ := Option.isSome_iff_exists.mp h
        have := mu_stepC proc hs'; omega
  | succ b ih =>
    intro s hb hr
    cases hfin : isFin s.p with
    | true => exact ⟨0, s, Steps.refl s, hfin⟩
    | false =>
      have hstep : ∃ s', Step proc init s s' := by
        rcases progress proc init (inv_reachable proc init hr) hfin with h | h
        · obtain ⟨s', hs'⟩ := Option.isSome_iff_exists.mp h; exact ⟨s', Or.inl hs'⟩
        · obtain ⟨s', hs'⟩ := Option.isSome_iff_exists.mp h; exact ⟨s', Or.inr hs'⟩
      obtain ⟨s1, h1⟩ := hstep
      have hlt := mu_step proc init h1
      obtain ⟨n, s', hsteps, hf⟩ := ih s1 (by omega) (Reachable.step hr h1)
      exact ⟨n + 1, s', Steps.cons h1 hsteps, hf⟩

/-- the measure of the initial state, in terms of the script and the buffer size -/
theorem mu_initSt (N : Nat) (k0 : κ) (script : List (Cmd M κ)) :
    mu (initSt init N k0 script : St M σ κ) = scriptCost (poolSize N) script + 2 := by
  simp [mu, initSt, pNext, afterOf, pcCost, wcCost]

/-! ### mutual exclusion on the shared memory cells

The cells both threads can reach: `l.file`, `l.options` (`cfg`: the file sets; `Reset` assigns the whole `options` value)
and the memory of each pooled slice. (`l.active` is used by the producer only; channels are synchronisation, not data.)
`accP s` / `accC s` list what the NEXT step of the producer / the worker reads or writes, as the code does it — and are empty
when that step is not enabled (the thread is blocked in a channel operation that precedes the access). A data race is a
state in which both threads are about to access the same cell and one of the accesses is a write. -/

inductive Cell where
  | file
  | cfg
  | slice (t : Nat)
  deriving DecidableEq, Repr

structure Access where
  cell : Cell
  write : Bool
  deriving DecidableEq, Repr

/-- accesses of the tail of `File` / `Close` / `Reset` after `<-l.done` (or when the listener is not active):
`File` reads `l.file`; `Reset` assigns `l.options` and, in `reset()`, `l.file = nil` (it also reads `l.options.channelBuffer`) -/
def accAfter : After κ → List Access
  | .file => [⟨.file, false⟩]
  | .close => []
  | .reset _ _ => [⟨.cfg, true⟩, ⟨.file, true⟩]

/-- accesses of the producer's next step -/
def accP (s : St M σ κ) : List Access :=
  match s.p with
  | .idle =>
    match s.script with
    | [] => []
    | .onMesg _ :: _ => if s.active then [] else [⟨.cfg, false⟩, ⟨.file, true⟩]   -- `l.reset()`: channelBuffer read, `l.file = nil`
    | .file :: _ => if s.active then [] else accAfter (.file : After κ)
    | .close :: _ => if s.active then [] else accAfter (.close : After κ)
    | .reset n k :: _ => if s.active then [] else accAfter (.reset n k : After κ)
  | .onTake _ =>
    match s.pool with
    | t :: _ => [⟨.slice t, true⟩]        -- `append((<-l.poolc)[:0], mesg.Fields...)`
    | [] => []
  | .onSend _ _ => []
  | .closing _ _ =>
    match s.pool with
    | t :: _ => [⟨.slice t, true⟩]        -- `clear(fields[:cap(fields):cap(fields)])`
    | [] => []
  | .closingPut _ _ _ => []
  | .closeWait a => if s.done then accAfter a else []
  | .fin => []

/-- accesses of the worker's next step: `processMesg` reads the message through its slice, reads `l.options.fileSets`,
reads and writes `l.file` (`Add` mutates the file `l.file` points to) -/
def accC (s : St M σ κ) : List Access :=
  match s.c with
  | .proc t => [⟨.slice t, false⟩, ⟨.cfg, false⟩, ⟨.file, false⟩, ⟨.file, true⟩]
  | _ => []

def conflict (a b : Access) : Bool := a.cell == b.cell && (a.write || b.write)

/-- **No data race**: in a state satisfying the invariant, no access of the producer's next step conflicts with an
access of the worker's next step. Derived from the invariant: a slice the producer is about to write is in the pool
while the slice the worker reads is in the worker's hands (`nodup`); the producer touches `l.file` / `l.options` only
when the listener is inactive or `done` is closed, and then the worker has exited (`inactive`, `doneIff`). -/
theorem no_race {R : List σ} {s : St M σ κ} (inv : Inv proc init R s) :
    ∀ a ∈ accP s, ∀ b ∈ accC s, conflict a b = false := by
  intro a ha b hb
  cases hc : s.c with
  | recv => simp [accC, hc] at hb
  | ret t => simp [accC, hc] at hb
  | exited => simp [accC, hc] at hb
  | proc t =>
    have hnd := inv.nodup
    have hne : ∀ ha' : s.active = false, False := fun ha' => by
      have := (inv.inactive ha').2; rw [hc] at this; cases this
    have hnd' : s.done = true → False := fun hd => by
      have := inv.doneIff.mp hd; rw [hc] at this; cases this
    -- the slice in the worker's hands is not in the pool
    have hpool : t ∉ s.pool := by
      intro hmem
      simp only [tokens, holdC, hc] at hnd
      rw [List.nodup_append] at hnd
      exact hnd.2.2 t (by simp [hmem]) t (by simp) rfl
    simp only [accC, hc, List.mem_cons, List.not_mem_nil, or_false] at hb
    unfold accP at ha
    cases hp : s.p with
    | idle =>
      rw [hp] at ha
      simp only at ha
      cases hs : s.script with
      | nil => rw [hs] at ha; cases ha
      | cons c cs =>
        rw [hs] at ha
        cases hact : s.active with
        | false => exact (hne hact).elim
        | true => cases c <;> simp [hact] at ha
    | onTake m =>
      rw [hp] at ha
      simp only at ha
      cases hpl : s.pool with
      | nil => rw [hpl] at ha; cases ha
      | cons t' pool' =>
        rw [hpl] at ha
        simp only [List.mem_cons, List.not_mem_nil, or_false] at ha
        have htt : t' ≠ t := fun e => hpool (by rw [hpl, e]; exact List.mem_cons_self)
        subst ha
        rcases hb with rfl | rfl | rfl | rfl <;> simp [conflict, htt]
    | onSend m t' => rw [hp] at ha; cases ha
    | closing k a' =>
      rw [hp] at ha
      simp only at ha
      cases hpl : s.pool with
      | nil => rw [hpl] at ha; cases ha
      | cons t' pool' =>
        rw [hpl] at ha
        simp only [List.mem_cons, List.not_mem_nil, or_false] at ha
        have htt : t' ≠ t := fun e => hpool (by rw [hpl, e]; exact List.mem_cons_self)
        subst ha
        rcases hb with rfl | rfl | rfl | rfl <;> simp [conflict, htt]
    | closingPut k t' a' => rw [hp] at ha; cases ha
    | closeWait a' =>
      rw [hp] at ha
      simp only at ha
      cases hd : s.done with
      | true => exact (hnd' hd).elim
      | false => rw [hd] at ha; cases ha
    | fin => rw [hp] at ha; cases ha

/-- the access annotation accounts for every write of the producer: a step that changes `l.file`, `l.options` or the
content of a slice has the corresponding write in `accP` -/
theorem accP_frame {s s' : St M σ κ} (h : stepP init s = some s') :
    (s'.file ≠ s.file → ⟨.file, true⟩ ∈ accP s) ∧ (s'.cfg ≠ s.cfg → ⟨.cfg, true⟩ ∈ accP s) ∧
    (∀ t, s'.mem t ≠ s.mem t → ⟨.slice t, true⟩ ∈ accP s) := by
  have hfin : ∀ (a : After κ) (s0 : St M σ κ),
      ((finishClose init a s0).file ≠ s0.file → ⟨.file, true⟩ ∈ accAfter a) ∧
      ((finishClose init a s0).cfg ≠ s0.cfg → ⟨.cfg, true⟩ ∈ accAfter a) ∧
      (∀ t, (finishClose init a s0).mem t ≠ s0.mem t → (⟨.slice t, true⟩ : Access) ∈ accAfter a) := by
    intro a s0
    cases a with
    | file => simp [finishClose]
    | close => simp [finishClose]
    | reset n k =>
      refine ⟨fun _ => by simp [accAfter], fun _ => by simp [accAfter], ?_⟩
      intro t ht
      exfalso; apply ht
      simp only [finishClose, respawn, resize]
      split <;> rfl
  have hstart : ∀ (a : After κ) (s1 : St M σ κ),
      ((startClose init a s1).file ≠ s1.file → ⟨.file, true⟩ ∈ (if s1.active then [] else accAfter a)) ∧
      ((startClose init a s1).cfg ≠ s1.cfg → ⟨.cfg, true⟩ ∈ (if s1.active then [] else accAfter a)) ∧
      (∀ t, (startClose init a s1).mem t ≠ s1.mem t → (⟨.slice t, true⟩ : Access) ∈ (if s1.active then [] else accAfter a)) := by
    intro a s1
    unfold startClose
    cases hact : s1.active with
    | true => simp
    | false => simpa using hfin a s1
  unfold stepP at h
  unfold accP
  cases hp : s.p with
  | idle =>
    rw [hp] at h
    simp only at h ⊢
    cases hs : s.script with
    | nil => rw [hs] at h; injection h with h; subst h; simp
    | cons c cs =>
      rw [hs] at h
      cases c with
      | onMesg m =>
        injection h with h; subst h
        cases hact : s.active with
        | true => simp
        | false => simp [respawn]
      | file =>
        injection h with h; subst h
        have := hstart (.file) ({ s with script := cs } : St M σ κ)
        simp only [hp] at this
        exact this
      | close =>
        injection h with h; subst h
        have := hstart (.close) ({ s with script := cs } : St M σ κ)
        simp only [hp] at this
        exact this
      | reset n k =>
        injection h with h; subst h
        have := hstart (.reset n k) ({ s with script := cs } : St M σ κ)
        simp only [hp] at this
        exact this
  | onTake m =>
    rw [hp] at h
    simp only at h ⊢
    cases hpool : s.pool with
    | nil => rw [hpool] at h; cases h
    | cons t pool' =>
      rw [hpool] at h
      injection h with h; subst h
      refine ⟨by simp, by simp, ?_⟩
      intro x hx
      by_cases hxt : x = t
      · subst hxt; simp
      · exfalso; apply hx; simp [update, hxt]
  | onSend m t =>
    rw [hp] at h
    simp only at h ⊢
    split at h
    · injection h with h; subst h; simp
    · split at h
      · injection h with h; subst h; simp
      · cases h
  | closing k a =>
    rw [hp] at h
    simp only at h ⊢
    cases hpool : s.pool with
    | nil => rw [hpool] at h; cases h
    | cons t pool' =>
      rw [hpool] at h
      injection h with h; subst h
      refine ⟨by simp, by simp, ?_⟩
      intro x hx
      by_cases hxt : x = t
      · subst hxt; simp
      · exfalso; apply hx; simp [update, hxt]
  | closingPut k t a =>
    rw [hp] at h
    simp only at h ⊢
    split at h
    · injection h with h; subst h; split <;> simp
    · cases h
  | closeWait a =>
    rw [hp] at h
    simp only at h ⊢
    split at h
    · rename_i hd
      injection h with h; subst h
      simpa [hd] using hfin a s
    · cases h
  | fin => rw [hp] at h; cases h

/-- …and for every write of the worker: it writes `l.file` only (in its `proc` step), never `l.options`, never a slice -/
theorem accC_frame {s s' : St M σ κ} (h : stepC proc s = some s') :
    (s'.file ≠ s.file → ⟨.file, true⟩ ∈ accC s) ∧ s'.cfg = s.cfg ∧ (∀ t, s'.mem t = s.mem t) := by
  unfold stepC at h
  unfold accC
  cases hc : s.c with
  | recv =>
    rw [hc] at h
    simp only at h ⊢
    cases hq : s.queue with
    | cons t q => rw [hq] at h; injection h with h; subst h; simp
    | nil =>
      rw [hq] at h
      simp only at h
      split at h
      · injection h with h; subst h; simp
      · cases h
  | proc t => rw [hc] at h; injection h with h; subst h; simp
  | ret t =>
    rw [hc] at h
    simp only at h ⊢
    split at h
    · injection h with h; subst h; simp
    · cases h
  | exited => rw [hc] at h; cases h

end
end Fit.ListenerK
