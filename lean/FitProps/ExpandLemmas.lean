import FitModel.Expand
import Mathlib.Tactic.Linarith
import Mathlib.Tactic.SplitIfs
import Mathlib.Tactic.ByContra
/-!
Structural lemmas about the expansion model (`FitModel/Expand.lean`): expansion only ever (a) replaces the *value* of
an existing field whose number is the destination of a component, or (b) appends a field marked expanded.
-/
namespace Fit.Expand
open Fit.Msg Fit.PA

/-- destinations of the components a message of the profile can expand (fields and sub-fields) -/
def destsOf (p : Profile) (mesgNum : Nat) : List Nat :=
  match p.find? (·.1 == mesgNum) with
  | some (_, fs) => fs.flatMap fun f => (f.comps ++ f.subs.flatMap (·.comps)).map (·.fieldNum)
  | none => []

/-- what expansion may do to the field list: positions of `fs` keep base and flag, and keep their value unless their
number is in `D`; everything beyond is flagged expanded -/
def Inv (D : List Nat) (fs fs' : List Field) : Prop :=
  fs.length ≤ fs'.length ∧
  (∀ (i : Nat) (f : Field), fs[i]? = some f → ∃ f' : Field, fs'[i]? = some f' ∧ f'.base = f.base ∧ f'.isExpanded = f.isExpanded ∧
      ((∀ n, fieldNum f = some n → n ∉ D) → f' = f)) ∧
  (∀ (i : Nat) (f' : Field), fs.length ≤ i → fs'[i]? = some f' → f'.isExpanded = true)

theorem Inv.refl (D : List Nat) (fs : List Field) : Inv D fs fs := by
  refine ⟨Nat.le_refl _, fun i f h => ⟨f, h, rfl, rfl, fun _ => rfl⟩, fun i f' hi h => ?_⟩
  have : i < fs.length := by
    by_contra hc
    rw [List.getElem?_eq_none (by omega)] at h; cases h
  omega

theorem Inv.trans {D : List Nat} {a b c : List Field} (h1 : Inv D a b) (h2 : Inv D b c) : Inv D a c := by
  obtain ⟨l1, p1, e1⟩ := h1
  obtain ⟨l2, p2, e2⟩ := h2
  refine ⟨Nat.le_trans l1 l2, ?_, ?_⟩
  · intro i f h
    obtain ⟨f', hf', b1, x1, k1⟩ := p1 i f h
    obtain ⟨f'', hf'', b2, x2, k2⟩ := p2 i f' hf'
    refine ⟨f'', hf'', by rw [b2, b1], by rw [x2, x1], fun hn => ?_⟩
    have e := k1 hn
    subst e
    exact k2 hn
  · intro i f'' hi h
    by_cases hb : b.length ≤ i
    · exact e2 i f'' hb h
    · have hlt : i < b.length := by omega
      obtain ⟨f', hf'⟩ : ∃ f', b[i]? = some f' := ⟨b[i], by simp [hlt]⟩
      obtain ⟨g, hg, _, x2, _⟩ := p2 i f' hf'
      rw [h] at hg; cases hg
      rw [x2]; exact e1 i f' hi hf'

theorem lastIdx_go_spec (num : Nat) (fs : List Field) (i : Nat) (acc : Option Nat) (j : Nat)
    (h : lastIdx.go num fs i acc = some j) :
    (acc = some j) ∨ (i ≤ j ∧ ∃ f, fs[j - i]? = some f ∧ fieldNum f = some num) := by
  induction fs generalizing i acc with
  | nil => left; simpa [lastIdx.go] using h
  | cons f rest ih =>
    simp only [lastIdx.go] at h
    rcases ih (i + 1) _ h with hacc | ⟨hle, g, hg, hn⟩
    · split_ifs at hacc with hc
      · right
        have : j = i := by cases hacc; rfl
        subst this
        exact ⟨Nat.le_refl _, f, by simp, by simpa using hc⟩
      · left; exact hacc
    · right
      refine ⟨by omega, g, ?_, hn⟩
      have : j - i = (j - (i + 1)) + 1 := by omega
      rw [this]; simpa using hg

theorem lastIdx_spec (fs : List Field) (num j : Nat) (h : lastIdx fs num = some j) :
    ∃ f, fs[j]? = some f ∧ fieldNum f = some num := by
  unfold lastIdx at h
  rcases lastIdx_go_spec num fs 0 none j h with h' | ⟨_, f, hf, hn⟩
  · cases h'
  · exact ⟨f, by simpa using hf, hn⟩

/-- one destination update (the body of the component loop) respects `Inv` when the destination is in `D` -/
theorem step_inv (D : List Nat) (fs : List Field) (num : Nat) (hD : num ∈ D) (value : Value.Value) (cfb : FieldBase) :
    Inv D fs (match lastIdx fs num with
      | some j => fs.modify j fun f =>
          { f with value := if (f.base.map (·.array)).getD false then valueAppend f.value value else value }
      | none => fs ++ [{ base := some cfb, value := if cfb.array then valueAppend .invalid value else value,
                         isExpanded := true }]) := by
  cases hl : lastIdx fs num with
  | none =>
    simp only
    refine ⟨by simp, ?_, ?_⟩
    · intro i f h
      have hi : i < fs.length := by
        by_contra hc; rw [List.getElem?_eq_none (by omega)] at h; cases h
      exact ⟨f, by rw [List.getElem?_append_left hi]; exact h, rfl, rfl, fun _ => rfl⟩
    · intro i f' hi h
      have : i = fs.length := by
        by_contra hc
        have : fs.length + 1 ≤ i := by omega
        rw [List.getElem?_eq_none (by simp; omega)] at h; cases h
      subst this
      simp at h
      rw [← h]
  | some j =>
    simp only
    obtain ⟨fj, hfj, hnj⟩ := lastIdx_spec fs num j hl
    refine ⟨by simp, ?_, ?_⟩
    · intro i f h
      by_cases hij : j = i
      · subst hij
        rw [hfj] at h; cases h
        refine ⟨{ fj with value := if (fj.base.map (·.array)).getD false then valueAppend fj.value value else value },
          by rw [List.getElem?_modify_eq, hfj]; rfl, rfl, rfl, fun hn => ?_⟩
        exact absurd hD (hn num hnj)
      · exact ⟨f, by rw [List.getElem?_modify_ne _ _ hij]; exact h, rfl, rfl, fun _ => rfl⟩
    · intro i f' hi h
      rw [List.getElem?_eq_none (by simp; omega)] at h; cases h

/-- every component reachable in the message points into `D` -/
def Closed (p : Profile) (mesgNum : Nat) (D : List Nat) : Prop :=
  ∀ num, (∀ c ∈ (createField p mesgNum num).2.1, c.fieldNum ∈ D) ∧
    (∀ sf ∈ (createField p mesgNum num).2.2, ∀ c ∈ sf.comps, c.fieldNum ∈ D)

theorem subFieldSubst_mem (fields : List Field) (subs : List SubF) (sf : SubF)
    (h : subFieldSubst fields subs = some sf) : sf ∈ subs := by
  unfold subFieldSubst at h
  exact List.mem_of_find?_eq_some h

/-- shape of one iteration of the component loop: it stops, or it updates one destination numbered `c.fieldNum`,
expands that destination's own components, and goes on -/
theorem compLoop_cons (cv : CV) (p : Profile) (mesgNum fuel : Nat) (multi : Bool) (st : St) (bits : List Nat)
    (c : Comp) (rest : List Comp) :
    compLoop cv p mesgNum fuel multi st bits (c :: rest) = st ∨
    ∃ (acc' : Fit.Accum.Acc) (value : Value.Value) (bt : Nat) (bits' : List Nat) (fields' : List Field),
      fields' = (match lastIdx st.fields c.fieldNum with
        | some j => st.fields.modify j fun f =>
            { f with value := if (f.base.map (·.array)).getD false then valueAppend f.value value else value }
        | none => st.fields ++ [{ base := some (createField p mesgNum c.fieldNum).1,
                                  value := if (createField p mesgNum c.fieldNum).1.array then valueAppend .invalid value else value,
                                  isExpanded := true }]) ∧
      compLoop cv p mesgNum fuel multi st bits (c :: rest) =
        compLoop cv p mesgNum fuel multi
          (expandComponents cv p mesgNum fuel { acc := acc', fields := fields' } value bt
            (match subFieldSubst fields' (createField p mesgNum c.fieldNum).2.2 with
              | some sf => sf.comps
              | none => (createField p mesgNum c.fieldNum).2.1)) bits' rest := by
  by_cases hbrk : (Fit.Bits.pull bits c.bits).1 = 0 ∧ multi = true
  · left; rw [compLoop_cons_eq]; simp only [hbrk, and_self, if_true]
  · right
    let pr := Fit.Bits.pull bits c.bits
    let av := if c.accumulate then Fit.Accum.accumulate st.acc mesgNum c.fieldNum pr.1 c.bits else (pr.1, st.acc)
    let cf := createField p mesgNum c.fieldNum
    refine ⟨av.2, convertU32 (cv av.1 c.scale c.offset cf.1.scale cf.1.offset) cf.1.baseType, cf.1.baseType, pr.2, _, rfl, ?_⟩
    rw [compLoop_cons_eq]
    simp only [hbrk, if_false]
    rfl

theorem loop_of_expand (cv : CV) (p : Profile) (mesgNum : Nat) (D : List Nat) (hC : Closed p mesgNum D) (fuel : Nat)
    (hE : ∀ (st : St) (v : Value.Value) (bt : Nat) (comps : List Comp), (∀ c ∈ comps, c.fieldNum ∈ D) →
      Inv D st.fields (expandComponents cv p mesgNum fuel st v bt comps).fields) :
    ∀ (comps : List Comp) (multi : Bool) (st : St) (bits : List Nat), (∀ c ∈ comps, c.fieldNum ∈ D) →
      Inv D st.fields (compLoop cv p mesgNum fuel multi st bits comps).fields := by
  intro comps
  induction comps with
  | nil => intro multi st bits _; rw [compLoop_nil_eq]; exact Inv.refl _ _
  | cons c rest ih =>
    intro multi st bits hD
    have hc : c.fieldNum ∈ D := hD c (by simp)
    have hrest : ∀ c' ∈ rest, c'.fieldNum ∈ D := fun c' hc' => hD c' (by simp [hc'])
    rcases compLoop_cons cv p mesgNum fuel multi st bits c rest with h | ⟨acc', value, bt, bits', fields', hf, h⟩
    · rw [h]; exact Inv.refl _ _
    · rw [h]
      have h1 : Inv D st.fields fields' := by rw [hf]; exact step_inv D st.fields c.fieldNum hc value _
      refine Inv.trans h1 (Inv.trans ?_ (ih _ _ _ hrest))
      apply hE { acc := acc', fields := fields' }
      intro c' hc'
      obtain ⟨g1, g2⟩ := hC c.fieldNum
      split at hc'
      · rename_i sf hsf
        exact g2 sf (subFieldSubst_mem _ _ _ hsf) c' hc'
      · exact g1 c' hc'

theorem expand_of_loop (cv : CV) (p : Profile) (mesgNum : Nat) (D : List Nat) (fuel : Nat)
    (hL : ∀ (comps : List Comp) (multi : Bool) (st : St) (bits : List Nat), (∀ c ∈ comps, c.fieldNum ∈ D) →
      Inv D st.fields (compLoop cv p mesgNum fuel multi st bits comps).fields) :
    ∀ (st : St) (v : Value.Value) (bt : Nat) (comps : List Comp), (∀ c ∈ comps, c.fieldNum ∈ D) →
      Inv D st.fields (expandComponents cv p mesgNum (fuel + 1) st v bt comps).fields := by
  intro st v bt comps hD
  rw [expandComponents_succ_eq]
  split_ifs
  · exact Inv.refl _ _
  · exact Inv.refl _ _
  · split
    · exact Inv.refl _ _
    · exact hL _ _ _ _ hD

theorem expand_inv (cv : CV) (p : Profile) (mesgNum : Nat) (D : List Nat) (hC : Closed p mesgNum D) (fuel : Nat) :
    ∀ (st : St) (v : Value.Value) (bt : Nat) (comps : List Comp), (∀ c ∈ comps, c.fieldNum ∈ D) →
      Inv D st.fields (expandComponents cv p mesgNum fuel st v bt comps).fields := by
  induction fuel with
  | zero => intro st v bt comps _; rw [expandComponents_zero_eq]; exact Inv.refl _ _
  | succ f ih => exact expand_of_loop cv p mesgNum D f (loop_of_expand cv p mesgNum D hC f ih)

theorem closed_destsOf (p : Profile) (mesgNum : Nat) : Closed p mesgNum (destsOf p mesgNum) := by
  intro num
  unfold createField lookup destsOf
  cases hp : p.find? (·.1 == mesgNum) with
  | none => simp
  | some e =>
    obtain ⟨n, fs⟩ := e
    simp only
    cases hf : fs.find? (·.num == num) with
    | none => simp
    | some f =>
      have hmem : f ∈ fs := List.mem_of_find?_eq_some hf
      simp only
      constructor
      · intro c hc
        exact List.mem_flatMap.mpr ⟨f, hmem, List.mem_map.mpr ⟨c, List.mem_append_left _ hc, rfl⟩⟩
      · intro sf hsf c hc
        exact List.mem_flatMap.mpr ⟨f, hmem, List.mem_map.mpr
          ⟨c, List.mem_append_right _ (List.mem_flatMap.mpr ⟨sf, hsf, hc⟩), rfl⟩⟩

theorem fieldComps_dests (p : Profile) (mesgNum : Nat) (fields : List Field) (f : Field) :
    ∀ c ∈ fieldComps p mesgNum fields f, c.fieldNum ∈ destsOf p mesgNum := by
  intro c hc
  unfold fieldComps at hc
  cases hb : f.base with
  | none => simp [hb] at hc
  | some b =>
    simp only [hb] at hc
    have hcl := closed_destsOf p mesgNum b.num
    unfold createField at hcl
    cases hl : lookup p mesgNum b.num with
    | none => simp [hl] at hc
    | some fl =>
      simp only [hl] at hc hcl
      split at hc
      · rename_i sf hsf
        exact hcl.2 sf (subFieldSubst_mem _ _ _ hsf) c hc
      · exact hcl.1 c hc

theorem expandAll_inv (cv : CV) (p : Profile) (mesgNum : Nat) :
    ∀ (k i : Nat) (st : St), Inv (destsOf p mesgNum) st.fields (expandAll cv p mesgNum st k i).fields := by
  intro k
  induction k with
  | zero => intro i st; rw [expandAll]; exact Inv.refl _ _
  | succ k ih =>
    intro i st
    rw [expandAll]
    split
    · exact Inv.refl _ _
    · rename_i f hf
      refine Inv.trans ?_ (ih _ _)
      exact expand_inv cv p mesgNum _ (closed_destsOf p mesgNum) _ _ _ _ _ (fieldComps_dests p mesgNum _ f)

/-- the whole tail of `decodeFields` on one message -/
theorem decodeTail_inv (cv : CV) (p : Profile) (expand : Bool) (acc : Fit.Accum.Acc) (m : Message) :
    Inv (destsOf p m.num) m.fields (decodeTail cv p expand acc m).2.fields ∧
      (decodeTail cv p expand acc m).2.num = m.num ∧ (decodeTail cv p expand acc m).2.devFields = m.devFields := by
  unfold decodeTail
  split_ifs
  · exact ⟨Inv.refl _ _, rfl, rfl⟩
  · refine ⟨?_, rfl, rfl⟩
    simp only
    exact expandAll_inv cv p m.num m.fields.length 0 { acc := _, fields := m.fields }

/-! ### only the destinations of the components PRESENT in the message can change -/

theorem Inv.mono {D D' : List Nat} {a b : List Field} (h : ∀ n ∈ D, n ∈ D') (hi : Inv D a b) : Inv D' a b := by
  obtain ⟨l, k, e⟩ := hi
  refine ⟨l, ?_, e⟩
  intro i f hf
  obtain ⟨f', h1, h2, h3, h4⟩ := k i f hf
  exact ⟨f', h1, h2, h3, fun hn => h4 (fun n hnf hD => hn n hnf (h n hD))⟩

theorem reach_mono (p : Profile) (mesgNum k : Nat) (cs cs' : List Comp) (h : ∀ c ∈ cs, c ∈ cs') :
    ∀ n ∈ reach p mesgNum k cs, n ∈ reach p mesgNum k cs' := by
  cases k with
  | zero => intro n hn; simp [reach] at hn
  | succ k =>
    intro n hn
    simp only [reach, List.mem_flatMap] at hn ⊢
    obtain ⟨c, hc, hn⟩ := hn
    exact ⟨c, h c hc, hn⟩

theorem createField_comps_sub (p : Profile) (mesgNum num : Nat) :
    (∀ c ∈ (createField p mesgNum num).2.1, c ∈ compsOfNum p mesgNum num) ∧
      (∀ sf ∈ (createField p mesgNum num).2.2, ∀ c ∈ sf.comps, c ∈ compsOfNum p mesgNum num) := by
  unfold createField compsOfNum
  cases lookup p mesgNum num with
  | none => simp
  | some f =>
    simp only [compsAll]
    exact ⟨fun c hc => List.mem_append_left _ hc,
      fun sf hsf c hc => List.mem_append_right _ (List.mem_flatMap.mpr ⟨sf, hsf, hc⟩)⟩

theorem loop_reach (cv : CV) (p : Profile) (mesgNum k : Nat)
    (hE : ∀ (st : St) (v : Value.Value) (bt : Nat) (comps : List Comp),
      Inv (reach p mesgNum k comps) st.fields (expandComponents cv p mesgNum k st v bt comps).fields) :
    ∀ (comps : List Comp) (multi : Bool) (st : St) (bits : List Nat),
      Inv (reach p mesgNum (k + 1) comps) st.fields (compLoop cv p mesgNum k multi st bits comps).fields := by
  intro comps
  induction comps with
  | nil => intro multi st bits; rw [compLoop_nil_eq]; exact Inv.refl _ _
  | cons c rest ih =>
    intro multi st bits
    rcases compLoop_cons cv p mesgNum k multi st bits c rest with h | ⟨acc', value, bt, bits', fields', hf, h⟩
    · rw [h]; exact Inv.refl _ _
    · rw [h]
      have hD : reach p mesgNum (k + 1) (c :: rest) =
          (c.fieldNum :: reach p mesgNum k (compsOfNum p mesgNum c.fieldNum)) ++ reach p mesgNum (k + 1) rest := by
        simp [reach]
      rw [hD]
      have h1 : Inv ((c.fieldNum :: reach p mesgNum k (compsOfNum p mesgNum c.fieldNum)) ++ reach p mesgNum (k + 1) rest)
          st.fields fields' := by
        rw [hf]; exact step_inv _ st.fields c.fieldNum (by simp) value _
      refine Inv.trans h1 (Inv.trans ?_ (Inv.mono (fun n hn => List.mem_append_right _ hn) (ih _ _ _)))
      refine Inv.mono ?_ (hE { acc := acc', fields := fields' } value bt _)
      intro n hn
      apply List.mem_append_left
      apply List.mem_cons_of_mem
      refine reach_mono p mesgNum k _ _ ?_ n hn
      intro c' hc'
      obtain ⟨g1, g2⟩ := createField_comps_sub p mesgNum c.fieldNum
      split at hc'
      · rename_i sf hsf
        exact g2 sf (subFieldSubst_mem _ _ _ hsf) c' hc'
      · exact g1 c' hc'

theorem expand_reach (cv : CV) (p : Profile) (mesgNum : Nat) (fuel : Nat) :
    ∀ (st : St) (v : Value.Value) (bt : Nat) (comps : List Comp),
      Inv (reach p mesgNum fuel comps) st.fields (expandComponents cv p mesgNum fuel st v bt comps).fields := by
  induction fuel with
  | zero => intro st v bt comps; rw [expandComponents_zero_eq]; exact Inv.refl _ _
  | succ k ih =>
    intro st v bt comps
    rw [expandComponents_succ_eq]
    split_ifs
    · exact Inv.refl _ _
    · exact Inv.refl _ _
    · split
      · exact Inv.refl _ _
      · exact loop_reach cv p mesgNum k ih _ _ _ _

theorem fieldComps_sub (p : Profile) (mesgNum : Nat) (fields : List Field) (f : Field) (b : FieldBase)
    (hb : f.base = some b) : ∀ c ∈ fieldComps p mesgNum fields f, c ∈ compsOfNum p mesgNum b.num := by
  intro c hc
  unfold fieldComps at hc
  simp only [hb] at hc
  unfold compsOfNum
  cases hl : lookup p mesgNum b.num with
  | none => simp [hl] at hc
  | some fl =>
    simp only [hl] at hc ⊢
    split at hc
    · rename_i sf hsf
      exact List.mem_append_right _ (List.mem_flatMap.mpr ⟨sf, subFieldSubst_mem _ _ _ hsf, hc⟩)
    · exact List.mem_append_left _ hc

theorem expandAll_present (cv : CV) (p : Profile) (mesgNum : Nat) (orig : List Field) :
    ∀ (k i : Nat) (st : St), i + k ≤ orig.length → Inv (destsPresent p mesgNum orig) orig st.fields →
      Inv (destsPresent p mesgNum orig) orig (expandAll cv p mesgNum st k i).fields := by
  intro k
  induction k with
  | zero => intro i st _ h; rw [expandAll]; exact h
  | succ k ih =>
    intro i st hik h
    rw [expandAll]
    split
    · exact h
    · rename_i f hf
      refine ih (i + 1) _ (by omega) (Inv.trans h ?_)
      -- the field at a wire position still has the base it was read with
      have hi : i < orig.length := by omega
      obtain ⟨f', hf', hbase, _, _⟩ := h.2.1 i orig[i] (by simp [hi])
      rw [hf] at hf'; cases hf'
      cases hb : f.base with
      | none =>
        have : fieldComps p mesgNum st.fields f = [] := by unfold fieldComps; simp [hb]
        rw [this]
        cases expandFuel with
        | zero => rw [expandComponents_zero_eq]; exact Inv.refl _ _
        | succ n => rw [expandComponents_succ_eq]; simp; exact Inv.refl _ _
      | some b =>
        refine Inv.mono ?_ (expand_reach cv p mesgNum expandFuel st f.value _ (fieldComps p mesgNum st.fields f))
        intro n hn
        have hn' := reach_mono p mesgNum expandFuel _ _ (fieldComps_sub p mesgNum st.fields f b hb) n hn
        unfold destsPresent
        refine List.mem_flatMap.mpr ⟨orig[i], List.getElem_mem hi, ?_⟩
        rw [← hbase, hb]
        exact hn'

/-- the tail of `decodeFields` on one message: only destinations of components present in it can change -/
theorem decodeTail_present (cv : CV) (p : Profile) (expand : Bool) (acc : Fit.Accum.Acc) (m : Message) :
    Inv (destsPresent p m.num m.fields) m.fields (decodeTail cv p expand acc m).2.fields ∧
      (decodeTail cv p expand acc m).2.num = m.num ∧ (decodeTail cv p expand acc m).2.devFields = m.devFields := by
  unfold decodeTail
  split_ifs
  · exact ⟨Inv.refl _ _, rfl, rfl⟩
  · refine ⟨?_, rfl, rfl⟩
    simp only
    exact expandAll_present cv p m.num m.fields m.fields.length 0 { acc := _, fields := m.fields } (by omega) (Inv.refl _ _)

end Fit.Expand
