import FitModel.Writer
/-!
Helper lemmas about the writer model, part 7: THE SINGLE-FAULT RUN IS A CRASH PREFIX OF THE HEALTHY RUN.

Two facts are proved for every function of `FitModel/Writer.lean`, bottom-up (destination → write buffer → encoder →
`Encode` chain → stream encoder), with NO assumption on the state the function starts from:

* `…_ext` (any fault schedule): the destination afterwards is the destination before with some further logged operations
  replayed on it (`Ext`: content and position are a function of the operation log — `Dest.run`);
* `…_sim` (schedule `single k j` against `noFault`, started from the same state with at most `k` operations logged):
  either the two runs are still IN SYNC (identical results, at most `k` operations logged) or the faulted run has
  CRASHED: it reports failure, its log is `op.fail j :: pre` with `|pre| = k`, and the healthy run's log extends
  `op :: pre` (`Sim`). Sequencing is `Sim.bind`: in sync, both runs take the same branch; once crashed, the faulted
  run issues nothing more (every result is checked) and the healthy run only extends its log.
-/
namespace Fit.Writer
open Fit.Wire

/-! ### replay -/

theorem Dest.run_nil (d : Dest) : d.run [] = d := rfl
theorem Dest.run_cons (d : Dest) (op : DOp) (ops : List DOp) : d.run (op :: ops) = (d.apply op).run ops := rfl
theorem Dest.run_append (d : Dest) (a b : List DOp) : d.run (a ++ b) = (d.run a).run b := by
  simp [Dest.run, List.foldl_append]

theorem Dest.apply_log (d : Dest) (op : DOp) : (d.apply op).log = op :: d.log := by
  cases op with
  | write p t ok => rfl
  | writeAt p off t ok => rfl
  | seek delta ok => cases ok <;> rfl

theorem Dest.run_log (d : Dest) (ops : List DOp) : (d.run ops).log = ops.reverse ++ d.log := by
  induction ops generalizing d with
  | nil => rfl
  | cons op ops ih => rw [Dest.run_cons, ih, Dest.apply_log]; simp

/-- `d'` is `d` after some further operations -/
def Ext (d d' : Dest) : Prop := ∃ ops, d' = d.run ops

theorem Ext.refl (d : Dest) : Ext d d := ⟨[], rfl⟩
theorem Ext.trans {a b c : Dest} (h1 : Ext a b) (h2 : Ext b c) : Ext a c := by
  obtain ⟨o1, rfl⟩ := h1
  obtain ⟨o2, rfl⟩ := h2
  exact ⟨o1 ++ o2, (Dest.run_append _ _ _).symm⟩
theorem Ext.step (d : Dest) (op : DOp) : Ext d (d.apply op) := ⟨[op], rfl⟩
theorem Ext.log {d d' : Dest} (h : Ext d d') : d.log <:+ d'.log := by
  obtain ⟨ops, rfl⟩ := h
  rw [Dest.run_log]; exact List.suffix_append _ _
theorem Ext.of_eq {d d' : Dest} (h : d' = d) : Ext d d' := h ▸ Ext.refl d

/-! ### the three primitives are `apply` of what they log -/

theorem Dest.write_eq (F : Faults) (d : Dest) (p : Bytes) :
    (d.write F p).1 = d.apply (.write p (d.write F p).2.1 (d.write F p).2.2) := by
  unfold Dest.write
  cases F d.log.length <;> simp [Dest.apply]

theorem Dest.writeAt_eq (F : Faults) (d : Dest) (p : Bytes) (off : Nat) :
    (d.writeAt F p off).1 = d.apply (.writeAt p off (d.writeAt F p off).2.1 (d.writeAt F p off).2.2) := by
  unfold Dest.writeAt
  cases F d.log.length <;> simp [Dest.apply]

theorem Dest.seekCur_eq (F : Faults) (d : Dest) (delta : Int) :
    (d.seekCur F delta).1 = d.apply (.seek delta (d.seekCur F delta).2) := by
  unfold Dest.seekCur
  cases F d.log.length with
  | none => by_cases h : (d.pos : Int) + delta < 0 <;> simp [h, Dest.apply]
  | some j => simp [Dest.apply]

theorem Dest.write_ext (F : Faults) (d : Dest) (p : Bytes) : Ext d (d.write F p).1 := by
  rw [Dest.write_eq]; exact Ext.step _ _
theorem Dest.writeAt_ext (F : Faults) (d : Dest) (p : Bytes) (off : Nat) : Ext d (d.writeAt F p off).1 := by
  rw [Dest.writeAt_eq]; exact Ext.step _ _
theorem Dest.seekCur_ext (F : Faults) (d : Dest) (delta : Int) : Ext d (d.seekCur F delta).1 := by
  rw [Dest.seekCur_eq]; exact Ext.step _ _

/-! ### the relation between the faulted and the healthy run -/

/-- newest-first logs: `lf` is the crash state (k, j) of a run whose log is (or will be) `lh` -/
def CrashOf (k j : Nat) (lf lh : List DOp) : Prop :=
  ∃ op pre, (op :: pre) <:+ lh ∧ pre.length = k ∧ lf = op.fail j :: pre

theorem CrashOf.ext {k j : Nat} {lf lh lh' : List DOp} (h : CrashOf k j lf lh) (hs : lh <:+ lh') : CrashOf k j lf lh' := by
  obtain ⟨op, pre, h1, h2, h3⟩ := h
  exact ⟨op, pre, h1.trans hs, h2, h3⟩

/-- faulted result `rf` against healthy result `rh`: in sync, or crashed -/
def Sim {ρ : Type} (k j : Nat) (log : ρ → List DOp) (ok : ρ → Bool) (rf rh : ρ) : Prop :=
  (rf = rh ∧ (log rh).length ≤ k) ∨ (ok rf = false ∧ CrashOf k j (log rf) (log rh))

/-- sequencing: `cF` / `cH` are what the faulted / healthy run does with the result of the step before -/
theorem Sim.bind {ρ τ : Type} {k j : Nat} {lρ : ρ → List DOp} {oρ : ρ → Bool} {lτ : τ → List DOp} {oτ : τ → Bool}
    {rf rh : ρ} (cF cH : ρ → τ) (h : Sim k j lρ oρ rf rh)
    (hsync : ∀ r, (lρ r).length ≤ k → Sim k j lτ oτ (cF r) (cH r))
    (hstop : ∀ r, oρ r = false → lτ (cF r) = lρ r ∧ oτ (cF r) = false)
    (hext : ∀ r, lρ r <:+ lτ (cH r)) : Sim k j lτ oτ (cF rf) (cH rh) := by
  rcases h with ⟨rfl, hl⟩ | ⟨hf, hc⟩
  · exact hsync _ hl
  · obtain ⟨h1, h2⟩ := hstop rf hf
    exact Or.inr ⟨h2, by rw [h1]; exact hc.ext (hext rh)⟩

/-- a step that issues no operation and keeps the result -/
theorem Sim.map {ρ τ : Type} {k j : Nat} {lρ : ρ → List DOp} {oρ : ρ → Bool} {lτ : τ → List DOp} {oτ : τ → Bool}
    {rf rh : ρ} (c : ρ → τ) (h : Sim k j lρ oρ rf rh) (hl : ∀ r, lτ (c r) = lρ r) (ho : ∀ r, oρ r = false → oτ (c r) = false) :
    Sim k j lτ oτ (c rf) (c rh) := by
  rcases h with ⟨rfl, hlen⟩ | ⟨hf, hc⟩
  · exact Or.inl ⟨rfl, by rw [hl]; exact hlen⟩
  · exact Or.inr ⟨ho _ hf, by rw [hl, hl]; exact hc⟩

theorem Sim.same {ρ : Type} {k j : Nat} {log : ρ → List DOp} {ok : ρ → Bool} (r : ρ) (h : (log r).length ≤ k) :
    Sim k j log ok r r := Or.inl ⟨rfl, h⟩

/-! ### destination -/

theorem single_lt {k j i : Nat} (h : i < k) : single k j i = none := by
  simp [single]; omega
theorem single_self (k j : Nat) : single k j k = some j := by simp [single]

theorem Dest.write_sim (k j : Nat) (d : Dest) (p : Bytes) (hk : d.log.length ≤ k) :
    Sim k j (fun r : Dest × Nat × Bool => r.1.log) (fun r => r.2.2) (d.write (single k j) p) (d.write noFault p) := by
  by_cases h : d.log.length = k
  · right
    refine ⟨by simp [Dest.write, h, single_self], .write p p.length true, d.log, ?_, h, ?_⟩
    · simp [Dest.write, noFault]
    · simp [Dest.write, h, single_self, DOp.fail]
  · left
    have hlt : d.log.length < k := by omega
    refine ⟨by simp [Dest.write, single_lt hlt, noFault], ?_⟩
    simp [Dest.write, noFault]; omega

theorem Dest.writeAt_sim (k j : Nat) (d : Dest) (p : Bytes) (off : Nat) (hk : d.log.length ≤ k) :
    Sim k j (fun r : Dest × Nat × Bool => r.1.log) (fun r => r.2.2) (d.writeAt (single k j) p off) (d.writeAt noFault p off) := by
  by_cases h : d.log.length = k
  · right
    refine ⟨by simp [Dest.writeAt, h, single_self], .writeAt p off p.length true, d.log, ?_, h, ?_⟩
    · simp [Dest.writeAt, noFault]
    · simp [Dest.writeAt, h, single_self, DOp.fail]
  · left
    have hlt : d.log.length < k := by omega
    refine ⟨by simp [Dest.writeAt, single_lt hlt, noFault], ?_⟩
    simp [Dest.writeAt, noFault]; omega

theorem Dest.seekCur_sim (k j : Nat) (d : Dest) (delta : Int) (hk : d.log.length ≤ k) :
    Sim k j (fun r : Dest × Bool => r.1.log) (fun r => r.2) (d.seekCur (single k j) delta) (d.seekCur noFault delta) := by
  by_cases h : d.log.length = k
  · right
    refine ⟨by simp [Dest.seekCur, h, single_self], .seek delta ((d.seekCur noFault delta).2), d.log, ?_, h, ?_⟩
    · show _ <:+ (d.seekCur noFault delta).1.log
      rw [Dest.seekCur_eq, Dest.apply_log]; exact List.suffix_refl _
    · simp [Dest.seekCur, h, single_self, DOp.fail]
  · left
    have hlt : d.log.length < k := by omega
    refine ⟨by simp [Dest.seekCur, single_lt hlt, noFault], ?_⟩
    show (d.seekCur noFault delta).1.log.length ≤ k
    rw [Dest.seekCur_eq, Dest.apply_log]; simp; omega

/-! ### the write buffer -/

abbrev lW2 : W × Bool → List DOp := fun r => r.1.d.log
abbrev oW2 : W × Bool → Bool := fun r => r.2
abbrev lW3 : W × Nat × Bool → List DOp := fun r => r.1.d.log
abbrev oW3 : W × Nat × Bool → Bool := fun r => r.2.2

theorem W.bflush_ext (F : Faults) (w : W) : Ext w.d (w.bflush F).1.d := by
  unfold W.bflush
  split
  · exact Ext.refl _
  · split
    · exact Ext.refl _
    · dsimp only
      split <;> exact Dest.write_ext F w.d w.buf

theorem W.bflush_sim (k j : Nat) (w : W) (hk : w.d.log.length ≤ k) :
    Sim k j lW2 oW2 (w.bflush (single k j)) (w.bflush noFault) := by
  unfold W.bflush
  by_cases h1 : w.berr = true
  · rw [if_pos h1, if_pos h1]; exact Sim.same _ hk
  · rw [if_neg h1, if_neg h1]
    by_cases h2 : w.buf.isEmpty = true
    · rw [if_pos h2, if_pos h2]; exact Sim.same _ hk
    · rw [if_neg h2, if_neg h2]
      exact Sim.map (lτ := lW2) (oτ := oW2)
        (fun r : Dest × Nat × Bool => if r.2.2 = true then (({ w with d := r.1, buf := [] } : W), true)
          else (({ w with d := r.1, buf := w.buf.drop r.2.1, berr := true } : W), false))
        (Dest.write_sim k j w.d w.buf hk) (by intro r; split <;> rfl) (by intro r h; simp [h])

theorem W.writeRest_ext (F : Faults) (size n plen : Nat) (p' : Bytes) (f : W × Bool) :
    Ext f.1.d (W.writeRest F size n plen p' f).1.d := by
  unfold W.writeRest
  split
  · exact Ext.refl _
  · split
    · exact Ext.refl _
    · exact Dest.write_ext F f.1.d p'

theorem W.writeRest_sim (k j size n plen : Nat) (p' : Bytes) (f : W × Bool) (hk : f.1.d.log.length ≤ k) :
    Sim k j lW3 oW3 (W.writeRest (single k j) size n plen p' f) (W.writeRest noFault size n plen p' f) := by
  unfold W.writeRest
  by_cases h1 : (!f.2) = true
  · rw [if_pos h1, if_pos h1]; exact Sim.same _ hk
  · rw [if_neg h1, if_neg h1]
    by_cases h2 : p'.length ≤ size
    · rw [if_pos h2, if_pos h2]; exact Sim.same _ hk
    · rw [if_neg h2, if_neg h2]
      exact Sim.map (lτ := lW3) (oτ := oW3)
        (fun r : Dest × Nat × Bool => (({ f.1 with d := r.1, berr := !r.2.2 } : W), n + r.2.1, r.2.2))
        (Dest.write_sim k j f.1.d p' hk) (fun _ => rfl) (fun _ h => h)

theorem W.writeRest_stop (F : Faults) (size n plen : Nat) (p' : Bytes) (f : W × Bool) (h : f.2 = false) :
    W.writeRest F size n plen p' f = (f.1, n, false) := by
  unfold W.writeRest; simp [h]

theorem W.write_ext (F : Faults) (w : W) (p : Bytes) : Ext w.d (w.write F p).1.d := by
  unfold W.write
  split
  · exact Dest.write_ext F w.d p
  · split
    · exact Ext.refl _
    · split
      · exact Ext.refl _
      · split
        · exact Dest.write_ext F w.d p
        · exact (W.bflush_ext F { w with buf := w.buf ++ p.take (w.size - w.buf.length) }).trans (W.writeRest_ext F _ _ _ _ _)

theorem W.write_sim (k j : Nat) (w : W) (p : Bytes) (hk : w.d.log.length ≤ k) :
    Sim k j lW3 oW3 (w.write (single k j) p) (w.write noFault p) := by
  unfold W.write
  by_cases h0 : w.size = 0
  · rw [if_pos h0, if_pos h0]
    exact Sim.map (lτ := lW3) (oτ := oW3) (fun r : Dest × Nat × Bool => (({ w with d := r.1 } : W), r.2.1, r.2.2))
      (Dest.write_sim k j w.d p hk) (fun _ => rfl) (fun _ h => h)
  · rw [if_neg h0, if_neg h0]
    by_cases h1 : w.berr = true
    · rw [if_pos h1, if_pos h1]; exact Sim.same _ hk
    · rw [if_neg h1, if_neg h1]
      by_cases h2 : p.length ≤ w.size - w.buf.length
      · rw [if_pos h2, if_pos h2]; exact Sim.same _ hk
      · rw [if_neg h2, if_neg h2]
        by_cases h3 : w.buf.isEmpty = true
        · rw [if_pos h3, if_pos h3]
          exact Sim.map (lτ := lW3) (oτ := oW3)
            (fun r : Dest × Nat × Bool => (({ w with d := r.1, berr := !r.2.2 } : W), r.2.1, r.2.2))
            (Dest.write_sim k j w.d p hk) (fun _ => rfl) (fun _ h => h)
        · rw [if_neg h3, if_neg h3]
          exact Sim.bind (lτ := lW3) (oτ := oW3)
            (W.writeRest (single k j) w.size (w.size - w.buf.length) p.length (p.drop (w.size - w.buf.length)))
            (W.writeRest noFault w.size (w.size - w.buf.length) p.length (p.drop (w.size - w.buf.length)))
            (W.bflush_sim k j _ hk)
            (fun f hf => W.writeRest_sim k j _ _ _ _ f hf)
            (fun f hf => by rw [W.writeRest_stop _ _ _ _ _ f hf]; exact ⟨rfl, rfl⟩)
            (fun f => (W.writeRest_ext _ _ _ _ _ f).log)

theorem W.flush_ext (F : Faults) (w : W) : Ext w.d (w.flush F).1.d := by
  unfold W.flush
  split
  · exact Ext.refl _
  · exact W.bflush_ext F w

theorem W.flush_sim (k j : Nat) (w : W) (hk : w.d.log.length ≤ k) :
    Sim k j lW2 oW2 (w.flush (single k j)) (w.flush noFault) := by
  unfold W.flush
  by_cases h0 : w.size = 0
  · rw [if_pos h0, if_pos h0]; exact Sim.same _ hk
  · rw [if_neg h0, if_neg h0]; exact W.bflush_sim k j w hk

/-- what `W.seekCur` does with the result of its flush -/
def seekAfter (F : Faults) (delta : Int) (f : W × Bool) : W × Bool :=
  if !f.2 then f else (({ f.1 with d := (f.1.d.seekCur F delta).1 } : W), (f.1.d.seekCur F delta).2)

theorem W.seekCur_def (F : Faults) (w : W) (delta : Int) : w.seekCur F delta = seekAfter F delta (w.flush F) := rfl

theorem seekAfter_ext (F : Faults) (delta : Int) (f : W × Bool) : Ext f.1.d (seekAfter F delta f).1.d := by
  unfold seekAfter
  split
  · exact Ext.refl _
  · exact Dest.seekCur_ext F f.1.d delta

theorem seekAfter_sim (k j : Nat) (delta : Int) (f : W × Bool) (hk : f.1.d.log.length ≤ k) :
    Sim k j lW2 oW2 (seekAfter (single k j) delta f) (seekAfter noFault delta f) := by
  unfold seekAfter
  by_cases h1 : (!f.2) = true
  · rw [if_pos h1, if_pos h1]; exact Sim.same _ hk
  · rw [if_neg h1, if_neg h1]
    exact Sim.map (lτ := lW2) (oτ := oW2) (fun r : Dest × Bool => (({ f.1 with d := r.1 } : W), r.2))
      (Dest.seekCur_sim k j f.1.d delta hk) (fun _ => rfl) (fun _ h => h)

theorem seekAfter_stop (F : Faults) (delta : Int) (f : W × Bool) (h : f.2 = false) : seekAfter F delta f = f := by
  unfold seekAfter; simp [h]

theorem W.seekCur_ext (F : Faults) (w : W) (delta : Int) : Ext w.d (w.seekCur F delta).1.d := by
  rw [W.seekCur_def]; exact (W.flush_ext F w).trans (seekAfter_ext F delta _)

theorem W.seekCur_sim (k j : Nat) (w : W) (delta : Int) (hk : w.d.log.length ≤ k) :
    Sim k j lW2 oW2 (w.seekCur (single k j) delta) (w.seekCur noFault delta) := by
  rw [W.seekCur_def, W.seekCur_def]
  exact Sim.bind (lτ := lW2) (oτ := oW2) (seekAfter (single k j) delta) (seekAfter noFault delta) (W.flush_sim k j w hk)
    (fun f hf => seekAfter_sim k j delta f hf)
    (fun f hf => by rw [seekAfter_stop _ _ f hf]; exact ⟨rfl, hf⟩)
    (fun f => (seekAfter_ext _ _ f).log)

/-- what `W.writeAt` does with the result of its flush -/
def writeAtAfter (F : Faults) (p : Bytes) (off : Nat) (f : W × Bool) : W × Bool :=
  if !f.2 then f else (({ f.1 with d := (f.1.d.writeAt F p off).1 } : W), (f.1.d.writeAt F p off).2.2)

theorem W.writeAt_def (F : Faults) (w : W) (p : Bytes) (off : Nat) : w.writeAt F p off = writeAtAfter F p off (w.flush F) := rfl

theorem writeAtAfter_ext (F : Faults) (p : Bytes) (off : Nat) (f : W × Bool) : Ext f.1.d (writeAtAfter F p off f).1.d := by
  unfold writeAtAfter
  split
  · exact Ext.refl _
  · exact Dest.writeAt_ext F f.1.d p off

theorem writeAtAfter_sim (k j : Nat) (p : Bytes) (off : Nat) (f : W × Bool) (hk : f.1.d.log.length ≤ k) :
    Sim k j lW2 oW2 (writeAtAfter (single k j) p off f) (writeAtAfter noFault p off f) := by
  unfold writeAtAfter
  by_cases h1 : (!f.2) = true
  · rw [if_pos h1, if_pos h1]; exact Sim.same _ hk
  · rw [if_neg h1, if_neg h1]
    exact Sim.map (lτ := lW2) (oτ := oW2) (fun r : Dest × Nat × Bool => (({ f.1 with d := r.1 } : W), r.2.2))
      (Dest.writeAt_sim k j f.1.d p off hk) (fun _ => rfl) (fun _ h => h)

theorem writeAtAfter_stop (F : Faults) (p : Bytes) (off : Nat) (f : W × Bool) (h : f.2 = false) : writeAtAfter F p off f = f := by
  unfold writeAtAfter; simp [h]

theorem W.writeAt_ext (F : Faults) (w : W) (p : Bytes) (off : Nat) : Ext w.d (w.writeAt F p off).1.d := by
  rw [W.writeAt_def]; exact (W.flush_ext F w).trans (writeAtAfter_ext F p off _)

theorem W.writeAt_sim (k j : Nat) (w : W) (p : Bytes) (off : Nat) (hk : w.d.log.length ≤ k) :
    Sim k j lW2 oW2 (w.writeAt (single k j) p off) (w.writeAt noFault p off) := by
  rw [W.writeAt_def, W.writeAt_def]
  exact Sim.bind (lτ := lW2) (oτ := oW2) (writeAtAfter (single k j) p off) (writeAtAfter noFault p off) (W.flush_sim k j w hk)
    (fun f hf => writeAtAfter_sim k j p off f hf)
    (fun f hf => by rw [writeAtAfter_stop _ _ _ f hf]; exact ⟨rfl, hf⟩)
    (fun f => (writeAtAfter_ext _ _ _ f).log)

/-- `rewriteSeek` after the seek back: the header write, then the seek forward -/
def rewriteTail (F : Faults) (b : Bytes) (size : Int) (s1 : W × Bool) : W × Bool :=
  if !s1.2 then s1 else
    if !(s1.1.write F b).2.2 then ((s1.1.write F b).1, false)
    else (s1.1.write F b).1.seekCur F (size - (s1.1.write F b).2.1)

theorem W.rewriteSeek_def (F : Faults) (w : W) (b : Bytes) (size : Int) :
    w.rewriteSeek F b size = rewriteTail F b size (w.seekCur F (-size)) := rfl

/-- `rewriteSeek` after the header write: the seek forward -/
def rewriteFwd (F : Faults) (size : Int) (r : W × Nat × Bool) : W × Bool :=
  if !r.2.2 then (r.1, false) else r.1.seekCur F (size - r.2.1)

theorem rewriteFwd_ext (F : Faults) (size : Int) (r : W × Nat × Bool) : Ext r.1.d (rewriteFwd F size r).1.d := by
  unfold rewriteFwd
  split
  · exact Ext.refl _
  · exact W.seekCur_ext F _ _

theorem rewriteTail_ext (F : Faults) (b : Bytes) (size : Int) (s1 : W × Bool) : Ext s1.1.d (rewriteTail F b size s1).1.d := by
  unfold rewriteTail
  split
  · exact Ext.refl _
  · exact (W.write_ext F s1.1 b).trans (rewriteFwd_ext F size _)

theorem rewriteTail_sim (k j : Nat) (b : Bytes) (size : Int) (s1 : W × Bool) (hk : s1.1.d.log.length ≤ k) :
    Sim k j lW2 oW2 (rewriteTail (single k j) b size s1) (rewriteTail noFault b size s1) := by
  unfold rewriteTail
  by_cases h1 : (!s1.2) = true
  · rw [if_pos h1, if_pos h1]; exact Sim.same _ hk
  · rw [if_neg h1, if_neg h1]
    exact Sim.bind (lτ := lW2) (oτ := oW2) (rewriteFwd (single k j) size) (rewriteFwd noFault size) (W.write_sim k j s1.1 b hk)
      (fun r hr => by
        unfold rewriteFwd
        by_cases h2 : (!r.2.2) = true
        · rw [if_pos h2, if_pos h2]; exact Sim.same (log := lW2) (ok := oW2) _ hr
        · rw [if_neg h2, if_neg h2]; exact W.seekCur_sim k j r.1 _ hr)
      (fun r hr => by unfold rewriteFwd; simp [hr])
      (fun r => (rewriteFwd_ext _ _ r).log)

theorem rewriteTail_stop (F : Faults) (b : Bytes) (size : Int) (s1 : W × Bool) (h : s1.2 = false) : rewriteTail F b size s1 = s1 := by
  unfold rewriteTail; simp [h]

theorem W.rewriteSeek_ext (F : Faults) (w : W) (b : Bytes) (size : Int) : Ext w.d (w.rewriteSeek F b size).1.d := by
  rw [W.rewriteSeek_def]; exact (W.seekCur_ext F w _).trans (rewriteTail_ext F b size _)

theorem W.rewriteSeek_sim (k j : Nat) (w : W) (b : Bytes) (size : Int) (hk : w.d.log.length ≤ k) :
    Sim k j lW2 oW2 (w.rewriteSeek (single k j) b size) (w.rewriteSeek noFault b size) := by
  rw [W.rewriteSeek_def, W.rewriteSeek_def]
  exact Sim.bind (lτ := lW2) (oτ := oW2) (rewriteTail (single k j) b size) (rewriteTail noFault b size) (W.seekCur_sim k j w _ hk)
    (fun f hf => rewriteTail_sim k j b size f hf)
    (fun f hf => by rw [rewriteTail_stop _ _ _ f hf]; exact ⟨rfl, hf⟩)
    (fun f => (rewriteTail_ext _ _ _ f).log)

/-! ### sequencing combinators for `σ × Bool` results (`σ` = `Enc` or `Stream`) -/

theorem ext_andThen {σ : Type} (dst : σ → Dest) (g : σ → σ × Bool) (d : Dest) (r : σ × Bool)
    (h1 : Ext d (dst r.1)) (h2 : ∀ y, Ext (dst y) (dst (g y).1)) : Ext d (dst (if r.2 then g r.1 else r).1) := by
  split
  · exact h1.trans (h2 _)
  · exact h1

theorem ext_andThen' {σ : Type} (dst : σ → Dest) (g : σ → σ × Bool) (d : Dest) (r : σ × Bool)
    (h1 : Ext d (dst r.1)) (h2 : ∀ y, Ext (dst y) (dst (g y).1)) : Ext d (dst (if !r.2 then r else g r.1).1) := by
  split
  · exact h1
  · exact h1.trans (h2 _)

theorem Sim.andThen {σ : Type} (dst : σ → Dest) {k j : Nat} (gF gH : σ → σ × Bool) {rf rh : σ × Bool}
    (h : Sim k j (fun r : σ × Bool => (dst r.1).log) (fun r => r.2) rf rh)
    (hsim : ∀ x, (dst x).log.length ≤ k → Sim k j (fun r : σ × Bool => (dst r.1).log) (fun r => r.2) (gF x) (gH x))
    (hext : ∀ x, Ext (dst x) (dst (gH x).1)) :
    Sim k j (fun r : σ × Bool => (dst r.1).log) (fun r => r.2) (if rf.2 then gF rf.1 else rf) (if rh.2 then gH rh.1 else rh) := by
  refine Sim.bind (fun r => if r.2 then gF r.1 else r) (fun r => if r.2 then gH r.1 else r) h ?_ ?_ ?_
  · intro r hr
    by_cases h2 : r.2 = true
    · simp only [h2, if_true]; exact hsim _ hr
    · simp only [h2]; exact Sim.same _ hr
  · intro r hr; simp [hr]
  · intro r; exact (ext_andThen dst gH _ r (Ext.refl _) hext).log

theorem Sim.andThen' {σ : Type} (dst : σ → Dest) {k j : Nat} (gF gH : σ → σ × Bool) {rf rh : σ × Bool}
    (h : Sim k j (fun r : σ × Bool => (dst r.1).log) (fun r => r.2) rf rh)
    (hsim : ∀ x, (dst x).log.length ≤ k → Sim k j (fun r : σ × Bool => (dst r.1).log) (fun r => r.2) (gF x) (gH x))
    (hext : ∀ x, Ext (dst x) (dst (gH x).1)) :
    Sim k j (fun r : σ × Bool => (dst r.1).log) (fun r => r.2) (if !rf.2 then rf else gF rf.1) (if !rh.2 then rh else gH rh.1) := by
  refine Sim.bind (fun r => if !r.2 then r else gF r.1) (fun r => if !r.2 then r else gH r.1) h ?_ ?_ ?_
  · intro r hr
    by_cases h2 : r.2 = true
    · simp only [h2, Bool.not_true, Bool.false_eq_true, if_false]; exact hsim _ hr
    · have h3 : r.2 = false := by simpa using h2
      simp only [h3, Bool.not_false, if_true]; exact Sim.same _ hr
  · intro r hr; simp [hr]
  · intro r; exact (ext_andThen' dst gH _ r (Ext.refl _) hext).log

/-! ### the encoder -/

abbrev dE : Enc → Dest := fun e => e.w.d
abbrev lE2 : Enc × Bool → List DOp := fun r => r.1.w.d.log
abbrev oE2 : Enc × Bool → Bool := fun r => r.2
abbrev lE3 : Enc × Nat × Bool → List DOp := fun r => r.1.w.d.log
abbrev oE3 : Enc × Nat × Bool → Bool := fun r => r.2.2

theorem encodeFileHeader_ext (F : Faults) (e : Enc) (h : Hdr) (ds : Nat) : Ext e.w.d (encodeFileHeader F e h ds).1.w.d :=
  W.write_ext F e.w _

theorem encodeFileHeader_sim (k j : Nat) (e : Enc) (h : Hdr) (ds : Nat) (hk : e.w.d.log.length ≤ k) :
    Sim k j lE2 oE2 (encodeFileHeader (single k j) e h ds) (encodeFileHeader noFault e h ds) :=
  Sim.map (lτ := lE2) (oτ := oE2)
    (fun r : W × Nat × Bool => (({ e with lastHdrPos := e.n, w := r.1, n := e.n + r.2.1, crc := if h.size = 14 then 0 else e.crc } : Enc), r.2.2))
    (W.write_sim k j e.w _ hk) (fun _ => rfl) (fun _ h => h)

theorem writeRecord_ext (F : Faults) (e : Enc) (b : Bytes) : Ext e.w.d (writeRecord F e b).1.w.d := by
  unfold writeRecord
  dsimp only
  split <;> exact W.write_ext F e.w b

theorem writeRecord_sim (k j : Nat) (e : Enc) (b : Bytes) (hk : e.w.d.log.length ≤ k) :
    Sim k j lE2 oE2 (writeRecord (single k j) e b) (writeRecord noFault e b) :=
  Sim.map (lτ := lE2) (oτ := oE2)
    (fun r : W × Nat × Bool =>
      if r.2.2 = true then
        (({ e with w := r.1, n := e.n + r.2.1, dataSize := (e.dataSize + r.2.1) % 4294967296, crc := Fit.Crc.write e.crc b } : Enc), true)
      else (({ e with w := r.1, n := e.n + r.2.1, dataSize := (e.dataSize + r.2.1) % 4294967296 } : Enc), false))
    (W.write_sim k j e.w b hk) (by intro r; split <;> rfl) (by intro r h; simp [h])

theorem encodeMessage_ext (F : Faults) (o : Opts) (e : Enc) (m : WMsg) : Ext e.w.d (encodeMessage F o e m).1.w.d := by
  unfold encodeMessage
  dsimp only
  split
  · exact ext_andThen dE (fun e' => writeRecord F e' _) _ _ (writeRecord_ext F _ _) (fun y => writeRecord_ext F y _)
  · exact writeRecord_ext F _ _

theorem encodeMessage_sim (k j : Nat) (o : Opts) (e : Enc) (m : WMsg) (hk : e.w.d.log.length ≤ k) :
    Sim k j lE2 oE2 (encodeMessage (single k j) o e m) (encodeMessage noFault o e m) := by
  unfold encodeMessage
  dsimp only
  split
  · exact Sim.andThen dE (fun e' => writeRecord (single k j) e' _) (fun e' => writeRecord noFault e' _)
      (writeRecord_sim k j _ _ hk) (fun x hx => writeRecord_sim k j x _ hx) (fun x => writeRecord_ext _ x _)
  · exact writeRecord_sim k j _ _ hk

theorem encodeMessages_ext (F : Faults) (o : Opts) : ∀ (ms : List WMsg) (e : Enc), Ext e.w.d (encodeMessages F o e ms).1.w.d
  | [], e => Ext.refl _
  | m :: ms, e => by
    unfold encodeMessages
    exact ext_andThen dE (fun e' => encodeMessages F o e' ms) _ _ (encodeMessage_ext F o e m) (fun y => encodeMessages_ext F o ms y)

theorem encodeMessages_sim (k j : Nat) (o : Opts) : ∀ (ms : List WMsg) (e : Enc), e.w.d.log.length ≤ k →
    Sim k j lE2 oE2 (encodeMessages (single k j) o e ms) (encodeMessages noFault o e ms)
  | [], e, hk => Sim.same (log := lE2) (ok := oE2) _ hk
  | m :: ms, e, hk => by
    unfold encodeMessages
    exact Sim.andThen dE (fun e' => encodeMessages (single k j) o e' ms) (fun e' => encodeMessages noFault o e' ms)
      (encodeMessage_sim k j o e m hk) (fun x hx => encodeMessages_sim k j o ms x hx) (fun x => encodeMessages_ext _ o ms x)

theorem encodeCRC_ext (F : Faults) (e : Enc) : Ext e.w.d (encodeCRC F e).1.w.d := by
  unfold encodeCRC
  dsimp only
  split <;> exact W.write_ext F e.w _

theorem encodeCRC_sim (k j : Nat) (e : Enc) (hk : e.w.d.log.length ≤ k) :
    Sim k j lE2 oE2 (encodeCRC (single k j) e) (encodeCRC noFault e) :=
  Sim.map (lτ := lE2) (oτ := oE2)
    (fun r : W × Nat × Bool =>
      if r.2.2 = true then (({ e with w := r.1, n := e.n + r.2.1, crc := 0 } : Enc), true)
      else (({ e with w := r.1, n := e.n + r.2.1 } : Enc), false))
    (W.write_sim k j e.w _ hk) (by intro r; split <;> rfl) (by intro r h; simp [h])

theorem updateFileHeader_ext (F : Faults) (e : Enc) (h : Hdr) (hdrDs : Nat) : Ext e.w.d (updateFileHeader F e h hdrDs).1.w.d := by
  unfold updateFileHeader
  split
  · exact Ext.refl _
  · dsimp only
    split
    · exact W.rewriteSeek_ext F e.w _ _
    · split
      · exact W.writeAt_ext F e.w _ _
      · exact Ext.refl _

theorem updateFileHeader_sim (k j : Nat) (e : Enc) (h : Hdr) (hdrDs : Nat) (hk : e.w.d.log.length ≤ k) :
    Sim k j lE3 oE3 (updateFileHeader (single k j) e h hdrDs) (updateFileHeader noFault e h hdrDs) := by
  unfold updateFileHeader
  by_cases h0 : hdrDs = e.dataSize
  · rw [if_pos h0, if_pos h0]; exact Sim.same (log := lE3) (ok := oE3) _ hk
  · rw [if_neg h0, if_neg h0]
    dsimp only
    by_cases h1 : e.w.kind.seeker = true
    · rw [if_pos h1, if_pos h1]
      exact Sim.map (lτ := lE3) (oτ := oE3)
        (fun r : W × Bool => (({ e with crc := if h.size = 14 then 0 else e.crc, w := r.1 } : Enc), e.dataSize, r.2))
        (W.rewriteSeek_sim k j e.w _ _ hk) (fun _ => rfl) (fun _ h => h)
    · rw [if_neg h1, if_neg h1]
      by_cases h2 : e.w.kind = .at
      · rw [if_pos h2, if_pos h2]
        exact Sim.map (lτ := lE3) (oτ := oE3)
          (fun r : W × Bool => (({ e with crc := if h.size = 14 then 0 else e.crc, w := r.1 } : Enc), e.dataSize, r.2))
          (W.writeAt_sim k j e.w _ _ hk) (fun _ => rfl) (fun _ h => h)
      · rw [if_neg h2, if_neg h2]; exact Sim.same (log := lE3) (ok := oE3) _ hk

/-- `encodeBody` after the header -/
def bodyTail (F : Faults) (o : Opts) (ms : List WMsg) (e1 : Enc) : Enc × Bool :=
  if !(encodeMessages F o e1 ms).2 then encodeMessages F o e1 ms else encodeCRC F (encodeMessages F o e1 ms).1

theorem encodeBody_def (F : Faults) (o : Opts) (e : Enc) (h : Hdr) (ds : Nat) (ms : List WMsg) :
    encodeBody F o e h ds ms =
      if !(encodeFileHeader F e h ds).2 then encodeFileHeader F e h ds else bodyTail F o ms (encodeFileHeader F e h ds).1 := rfl

theorem bodyTail_ext (F : Faults) (o : Opts) (ms : List WMsg) (e1 : Enc) : Ext e1.w.d (bodyTail F o ms e1).1.w.d :=
  ext_andThen' dE (fun e' => encodeCRC F e') _ _ (encodeMessages_ext F o ms e1) (fun y => encodeCRC_ext F y)

theorem bodyTail_sim (k j : Nat) (o : Opts) (ms : List WMsg) (e1 : Enc) (hk : e1.w.d.log.length ≤ k) :
    Sim k j lE2 oE2 (bodyTail (single k j) o ms e1) (bodyTail noFault o ms e1) :=
  Sim.andThen' dE (fun e' => encodeCRC (single k j) e') (fun e' => encodeCRC noFault e')
    (encodeMessages_sim k j o ms e1 hk) (fun x hx => encodeCRC_sim k j x hx) (fun x => encodeCRC_ext _ x)

theorem encodeBody_ext (F : Faults) (o : Opts) (e : Enc) (h : Hdr) (ds : Nat) (ms : List WMsg) :
    Ext e.w.d (encodeBody F o e h ds ms).1.w.d := by
  rw [encodeBody_def]
  exact ext_andThen' dE (bodyTail F o ms) _ _ (encodeFileHeader_ext F e h ds) (fun y => bodyTail_ext F o ms y)

theorem encodeBody_sim (k j : Nat) (o : Opts) (e : Enc) (h : Hdr) (ds : Nat) (ms : List WMsg) (hk : e.w.d.log.length ≤ k) :
    Sim k j lE2 oE2 (encodeBody (single k j) o e h ds ms) (encodeBody noFault o e h ds ms) := by
  rw [encodeBody_def, encodeBody_def]
  exact Sim.andThen' dE (bodyTail (single k j) o ms) (bodyTail noFault o ms)
    (encodeFileHeader_sim k j e h ds hk) (fun x hx => bodyTail_sim k j o ms x hx) (fun x => bodyTail_ext _ o ms x)

/-- `encodeDirect` after the body -/
def directTail (F : Faults) (h : Hdr) (ds0 : Nat) (e3 : Enc) : Enc × Bool :=
  ((updateFileHeader F e3 h ds0).1, (updateFileHeader F e3 h ds0).2.2)

theorem encodeDirect_def (F : Faults) (o : Opts) (e : Enc) (h : Hdr) (ds0 : Nat) (ms : List WMsg) :
    encodeDirect F o e h ds0 ms =
      if !(encodeBody F o e h ds0 ms).2 then encodeBody F o e h ds0 ms else directTail F h ds0 (encodeBody F o e h ds0 ms).1 := rfl

theorem directTail_ext (F : Faults) (h : Hdr) (ds0 : Nat) (e3 : Enc) : Ext e3.w.d (directTail F h ds0 e3).1.w.d :=
  updateFileHeader_ext F e3 h ds0

theorem directTail_sim (k j : Nat) (h : Hdr) (ds0 : Nat) (e3 : Enc) (hk : e3.w.d.log.length ≤ k) :
    Sim k j lE2 oE2 (directTail (single k j) h ds0 e3) (directTail noFault h ds0 e3) :=
  Sim.map (lτ := lE2) (oτ := oE2) (fun r : Enc × Nat × Bool => (r.1, r.2.2)) (updateFileHeader_sim k j e3 h ds0 hk)
    (fun _ => rfl) (fun _ h => h)

theorem encodeDirect_ext (F : Faults) (o : Opts) (e : Enc) (h : Hdr) (ds0 : Nat) (ms : List WMsg) :
    Ext e.w.d (encodeDirect F o e h ds0 ms).1.w.d := by
  rw [encodeDirect_def]
  exact ext_andThen' dE (directTail F h ds0) _ _ (encodeBody_ext F o e h ds0 ms) (fun y => directTail_ext F h ds0 y)

theorem encodeDirect_sim (k j : Nat) (o : Opts) (e : Enc) (h : Hdr) (ds0 : Nat) (ms : List WMsg) (hk : e.w.d.log.length ≤ k) :
    Sim k j lE2 oE2 (encodeDirect (single k j) o e h ds0 ms) (encodeDirect noFault o e h ds0 ms) := by
  rw [encodeDirect_def, encodeDirect_def]
  exact Sim.andThen' dE (directTail (single k j) h ds0) (directTail noFault h ds0)
    (encodeBody_sim k j o e h ds0 ms hk) (fun x hx => directTail_sim k j h ds0 x hx) (fun x => directTail_ext _ h ds0 x)

theorem encodeEarly_ext (F : Faults) (o : Opts) (e : Enc) (h : Hdr) (ms : List WMsg) :
    Ext e.w.d (encodeEarly F o e h ms).1.w.d :=
  encodeBody_ext F o (e.reset o) h _ _

theorem encodeEarly_sim (k j : Nat) (o : Opts) (e : Enc) (h : Hdr) (ms : List WMsg) (hk : e.w.d.log.length ≤ k) :
    Sim k j lE2 oE2 (encodeEarly (single k j) o e h ms) (encodeEarly noFault o e h ms) :=
  encodeBody_sim k j o (e.reset o) h _ _ hk

/-- `Encode` after the strategy: `reset`, final flush -/
def encodeTail (F : Faults) (o : Opts) (r : Enc × Bool) : Enc × Bool :=
  if !r.2 then (r.1.reset o, false)
  else (({ r.1.reset o with w := ((r.1.reset o).w.flush F).1 } : Enc), ((r.1.reset o).w.flush F).2)

theorem encode_def (F : Faults) (o : Opts) (e : Enc) (f : FitIn) :
    encode F o e f = encodeTail F o
      (if e.w.kind.direct then encodeDirect F o e f.hdr f.ds0 f.msgs else encodeEarly F o e f.hdr f.msgs) := rfl

theorem encodeTail_ext (F : Faults) (o : Opts) (r : Enc × Bool) : Ext r.1.w.d (encodeTail F o r).1.w.d := by
  unfold encodeTail
  split
  · exact Ext.refl _
  · exact W.flush_ext F r.1.w

theorem encodeTail_sim (k j : Nat) (o : Opts) (r : Enc × Bool) (hk : r.1.w.d.log.length ≤ k) :
    Sim k j lE2 oE2 (encodeTail (single k j) o r) (encodeTail noFault o r) := by
  unfold encodeTail
  by_cases h1 : (!r.2) = true
  · rw [if_pos h1, if_pos h1]; exact Sim.same (log := lE2) (ok := oE2) _ hk
  · rw [if_neg h1, if_neg h1]
    exact Sim.map (lτ := lE2) (oτ := oE2) (fun fl : W × Bool => (({ r.1.reset o with w := fl.1 } : Enc), fl.2))
      (W.flush_sim k j r.1.w hk) (fun _ => rfl) (fun _ h => h)

theorem encodeTail_stop (F : Faults) (o : Opts) (r : Enc × Bool) (h : r.2 = false) : encodeTail F o r = (r.1.reset o, false) := by
  unfold encodeTail; simp [h]

theorem encode_ext (F : Faults) (o : Opts) (e : Enc) (f : FitIn) : Ext e.w.d (encode F o e f).1.w.d := by
  rw [encode_def]
  refine Ext.trans ?_ (encodeTail_ext F o _)
  split
  · exact encodeDirect_ext F o e _ _ _
  · exact encodeEarly_ext F o e _ _

theorem encode_sim (k j : Nat) (o : Opts) (e : Enc) (f : FitIn) (hk : e.w.d.log.length ≤ k) :
    Sim k j lE2 oE2 (encode (single k j) o e f) (encode noFault o e f) := by
  rw [encode_def, encode_def]
  refine Sim.bind (lτ := lE2) (oτ := oE2) (encodeTail (single k j) o) (encodeTail noFault o) ?_
    (fun r hr => encodeTail_sim k j o r hr)
    (fun r hr => by rw [encodeTail_stop _ o r hr]; exact ⟨rfl, rfl⟩)
    (fun r => (encodeTail_ext _ o r).log)
  by_cases hd : e.w.kind.direct = true
  · rw [if_pos hd, if_pos hd]; exact encodeDirect_sim k j o e _ _ _ hk
  · rw [if_neg hd, if_neg hd]; exact encodeEarly_sim k j o e _ _ hk

/-- the chaining loop after one `Encode` -/
def chainTail (rest : Enc → Enc × Nat × Bool) (r : Enc × Bool) : Enc × Nat × Bool :=
  if !r.2 then (r.1, 0, false) else ((rest r.1).1, (rest r.1).2.1 + 1, (rest r.1).2.2)

theorem encodeChainW_cons (F : Faults) (o : Opts) (e : Enc) (f : FitIn) (fs : List FitIn) :
    encodeChainW F o e (f :: fs) = chainTail (fun e' => encodeChainW F o e' fs) (encode F o e f) := rfl

theorem encodeChainW_ext (F : Faults) (o : Opts) : ∀ (fs : List FitIn) (e : Enc), Ext e.w.d (encodeChainW F o e fs).1.w.d
  | [], e => Ext.refl _
  | f :: fs, e => by
    rw [encodeChainW_cons]
    unfold chainTail
    split
    · exact encode_ext F o e f
    · exact (encode_ext F o e f).trans (encodeChainW_ext F o fs _)

theorem encodeChainW_sim (k j : Nat) (o : Opts) : ∀ (fs : List FitIn) (e : Enc), e.w.d.log.length ≤ k →
    Sim k j lE3 oE3 (encodeChainW (single k j) o e fs) (encodeChainW noFault o e fs)
  | [], e, hk => Sim.same (log := lE3) (ok := oE3) _ hk
  | f :: fs, e, hk => by
    rw [encodeChainW_cons, encodeChainW_cons]
    refine Sim.bind (lτ := lE3) (oτ := oE3) (chainTail fun e' => encodeChainW (single k j) o e' fs)
      (chainTail fun e' => encodeChainW noFault o e' fs) (encode_sim k j o e f hk) ?_ ?_ ?_
    · intro r hr
      unfold chainTail
      by_cases h1 : (!r.2) = true
      · rw [if_pos h1, if_pos h1]; exact Sim.same (log := lE3) (ok := oE3) _ hr
      · rw [if_neg h1, if_neg h1]
        exact Sim.map (lτ := lE3) (oτ := oE3) (fun t : Enc × Nat × Bool => (t.1, t.2.1 + 1, t.2.2))
          (encodeChainW_sim k j o fs r.1 hr) (fun _ => rfl) (fun _ h => h)
    · intro r hr; unfold chainTail; simp [hr]
    · intro r
      unfold chainTail
      split
      · exact List.suffix_refl _
      · exact (encodeChainW_ext noFault o fs r.1).log

/-! ### the stream encoder -/

abbrev dS : Stream → Dest := fun s => s.e.w.d
abbrev lS2 : Stream × Bool → List DOp := fun r => r.1.e.w.d.log
abbrev oS2 : Stream × Bool → Bool := fun r => r.2
abbrev lS3 : Stream × Nat × Bool → List DOp := fun r => r.1.e.w.d.log
abbrev oS3 : Stream × Nat × Bool → Bool := fun r => r.2.2

theorem ensureHeader_ext (F : Faults) (h : Hdr) (s : Stream) : Ext s.e.w.d (s.ensureHeader F h).1.e.w.d := by
  unfold Stream.ensureHeader
  split
  · exact Ext.refl _
  · exact encodeFileHeader_ext F s.e h s.hdrDs

theorem ensureHeader_sim (k j : Nat) (h : Hdr) (s : Stream) (hk : s.e.w.d.log.length ≤ k) :
    Sim k j lS2 oS2 (s.ensureHeader (single k j) h) (s.ensureHeader noFault h) := by
  unfold Stream.ensureHeader
  by_cases h1 : s.written = true
  · rw [if_pos h1, if_pos h1]; exact Sim.same (log := lS2) (ok := oS2) _ hk
  · rw [if_neg h1, if_neg h1]
    exact Sim.map (lτ := lS2) (oτ := oS2) (fun r : Enc × Bool => (({ s with e := r.1, written := r.2 } : Stream), r.2))
      (encodeFileHeader_sim k j s.e h s.hdrDs hk) (fun _ => rfl) (fun _ h => h)

/-- `WriteMessage` after the header -/
def messageTail (F : Faults) (o : Opts) (m : WMsg) (s1 : Stream) : Stream × Bool :=
  (({ s1 with e := (encodeMessage F o s1.e m).1 } : Stream), (encodeMessage F o s1.e m).2)

theorem writeMessage_def (F : Faults) (o : Opts) (h : Hdr) (s : Stream) (m : WMsg) :
    s.writeMessage F o h m = if !(s.ensureHeader F h).2 then s.ensureHeader F h else messageTail F o m (s.ensureHeader F h).1 := rfl

theorem messageTail_ext (F : Faults) (o : Opts) (m : WMsg) (s1 : Stream) : Ext s1.e.w.d (messageTail F o m s1).1.e.w.d :=
  encodeMessage_ext F o s1.e m

theorem messageTail_sim (k j : Nat) (o : Opts) (m : WMsg) (s1 : Stream) (hk : s1.e.w.d.log.length ≤ k) :
    Sim k j lS2 oS2 (messageTail (single k j) o m s1) (messageTail noFault o m s1) :=
  Sim.map (lτ := lS2) (oτ := oS2) (fun r : Enc × Bool => (({ s1 with e := r.1 } : Stream), r.2))
    (encodeMessage_sim k j o s1.e m hk) (fun _ => rfl) (fun _ h => h)

theorem writeMessage_ext (F : Faults) (o : Opts) (h : Hdr) (s : Stream) (m : WMsg) :
    Ext s.e.w.d (s.writeMessage F o h m).1.e.w.d := by
  rw [writeMessage_def]
  exact ext_andThen' dS (messageTail F o m) _ _ (ensureHeader_ext F h s) (fun y => messageTail_ext F o m y)

theorem writeMessage_sim (k j : Nat) (o : Opts) (h : Hdr) (s : Stream) (m : WMsg) (hk : s.e.w.d.log.length ≤ k) :
    Sim k j lS2 oS2 (s.writeMessage (single k j) o h m) (s.writeMessage noFault o h m) := by
  rw [writeMessage_def, writeMessage_def]
  exact Sim.andThen' dS (messageTail (single k j) o m) (messageTail noFault o m)
    (ensureHeader_sim k j h s hk) (fun x hx => messageTail_sim k j o m x hx) (fun x => messageTail_ext _ o m x)

/-- `SequenceCompleted` after the header update: `reset`, final flush -/
def completedFlush (F : Faults) (c : StreamCfg) (o : Opts) (s : Stream) (r2 : Enc × Nat × Bool) : Stream × Bool :=
  if !r2.2.2 then (({ s with e := r2.1, hdrDs := r2.2.1 } : Stream), false)
  else (({ e := { r2.1.reset o with w := ((r2.1.reset o).w.flush F).1 }, hdrDs := if c.clearsHeader then 0 else r2.2.1, written := false } : Stream),
    ((r2.1.reset o).w.flush F).2)

/-- `SequenceCompleted` after the CRC: header update, then `completedFlush` -/
def completedTail (F : Faults) (c : StreamCfg) (o : Opts) (h : Hdr) (s : Stream) (r1 : Enc × Bool) : Stream × Bool :=
  if !r1.2 then (({ s with e := r1.1 } : Stream), false)
  else completedFlush F c o s (updateFileHeader F r1.1 h s.hdrDs)

theorem sequenceCompleted_def (F : Faults) (c : StreamCfg) (o : Opts) (h : Hdr) (s : Stream) :
    s.sequenceCompleted F c o h = completedTail F c o h s (encodeCRC F s.e) := rfl

theorem completedFlush_ext (F : Faults) (c : StreamCfg) (o : Opts) (s : Stream) (r2 : Enc × Nat × Bool) :
    Ext r2.1.w.d (completedFlush F c o s r2).1.e.w.d := by
  unfold completedFlush
  split
  · exact Ext.refl _
  · exact W.flush_ext F r2.1.w

theorem completedFlush_sim (k j : Nat) (c : StreamCfg) (o : Opts) (s : Stream) (r2 : Enc × Nat × Bool)
    (hk : r2.1.w.d.log.length ≤ k) :
    Sim k j lS2 oS2 (completedFlush (single k j) c o s r2) (completedFlush noFault c o s r2) := by
  unfold completedFlush
  by_cases h1 : (!r2.2.2) = true
  · rw [if_pos h1, if_pos h1]; exact Sim.same (log := lS2) (ok := oS2) _ hk
  · rw [if_neg h1, if_neg h1]
    exact Sim.map (lτ := lS2) (oτ := oS2)
      (fun fl : W × Bool => (({ e := { r2.1.reset o with w := fl.1 }, hdrDs := if c.clearsHeader then 0 else r2.2.1, written := false } : Stream), fl.2))
      (W.flush_sim k j r2.1.w hk) (fun _ => rfl) (fun _ h => h)

theorem completedTail_ext (F : Faults) (c : StreamCfg) (o : Opts) (h : Hdr) (s : Stream) (r1 : Enc × Bool) :
    Ext r1.1.w.d (completedTail F c o h s r1).1.e.w.d := by
  unfold completedTail
  split
  · exact Ext.refl _
  · exact (updateFileHeader_ext F r1.1 h s.hdrDs).trans (completedFlush_ext F c o s _)

theorem completedTail_sim (k j : Nat) (c : StreamCfg) (o : Opts) (h : Hdr) (s : Stream) (r1 : Enc × Bool)
    (hk : r1.1.w.d.log.length ≤ k) :
    Sim k j lS2 oS2 (completedTail (single k j) c o h s r1) (completedTail noFault c o h s r1) := by
  unfold completedTail
  by_cases h1 : (!r1.2) = true
  · rw [if_pos h1, if_pos h1]; exact Sim.same (log := lS2) (ok := oS2) _ hk
  · rw [if_neg h1, if_neg h1]
    exact Sim.bind (lτ := lS2) (oτ := oS2) (completedFlush (single k j) c o s) (completedFlush noFault c o s)
      (updateFileHeader_sim k j r1.1 h s.hdrDs hk)
      (fun r hr => completedFlush_sim k j c o s r hr)
      (fun r hr => by unfold completedFlush; simp [hr])
      (fun r => (completedFlush_ext _ c o s r).log)

theorem sequenceCompleted_ext (F : Faults) (c : StreamCfg) (o : Opts) (h : Hdr) (s : Stream) :
    Ext s.e.w.d (s.sequenceCompleted F c o h).1.e.w.d := by
  rw [sequenceCompleted_def]
  exact (encodeCRC_ext F s.e).trans (completedTail_ext F c o h s _)

theorem sequenceCompleted_sim (k j : Nat) (c : StreamCfg) (o : Opts) (h : Hdr) (s : Stream) (hk : s.e.w.d.log.length ≤ k) :
    Sim k j lS2 oS2 (s.sequenceCompleted (single k j) c o h) (s.sequenceCompleted noFault c o h) := by
  rw [sequenceCompleted_def, sequenceCompleted_def]
  exact Sim.bind (lτ := lS2) (oτ := oS2) (completedTail (single k j) c o h s) (completedTail noFault c o h s)
    (encodeCRC_sim k j s.e hk)
    (fun r hr => completedTail_sim k j c o h s r hr)
    (fun r hr => by unfold completedTail; simp [hr])
    (fun r => (completedTail_ext _ c o h s r).log)

theorem writeAll_ext (F : Faults) (o : Opts) (h : Hdr) : ∀ (ms : List WMsg) (s : Stream), Ext s.e.w.d (Stream.writeAll F o h s ms).1.e.w.d
  | [], s => Ext.refl _
  | m :: ms, s => by
    unfold Stream.writeAll
    exact ext_andThen dS (fun s' => Stream.writeAll F o h s' ms) _ _ (writeMessage_ext F o h s m) (fun y => writeAll_ext F o h ms y)

theorem writeAll_sim (k j : Nat) (o : Opts) (h : Hdr) : ∀ (ms : List WMsg) (s : Stream), s.e.w.d.log.length ≤ k →
    Sim k j lS2 oS2 (Stream.writeAll (single k j) o h s ms) (Stream.writeAll noFault o h s ms)
  | [], s, hk => Sim.same (log := lS2) (ok := oS2) _ hk
  | m :: ms, s, hk => by
    unfold Stream.writeAll
    exact Sim.andThen dS (fun s' => Stream.writeAll (single k j) o h s' ms) (fun s' => Stream.writeAll noFault o h s' ms)
      (writeMessage_sim k j o h s m hk) (fun x hx => writeAll_sim k j o h ms x hx) (fun x => writeAll_ext _ o h ms x)

theorem sequence_ext (F : Faults) (c : StreamCfg) (o : Opts) (h : Hdr) (s : Stream) (ms : List WMsg) :
    Ext s.e.w.d (s.sequence F c o h ms).1.e.w.d :=
  ext_andThen dS (fun s' => s'.sequenceCompleted F c o h) _ _ (writeAll_ext F o h ms s) (fun y => sequenceCompleted_ext F c o h y)

theorem sequence_sim (k j : Nat) (c : StreamCfg) (o : Opts) (h : Hdr) (s : Stream) (ms : List WMsg) (hk : s.e.w.d.log.length ≤ k) :
    Sim k j lS2 oS2 (s.sequence (single k j) c o h ms) (s.sequence noFault c o h ms) :=
  Sim.andThen dS (fun s' => s'.sequenceCompleted (single k j) c o h) (fun s' => s'.sequenceCompleted noFault c o h)
    (writeAll_sim k j o h ms s hk) (fun x hx => sequenceCompleted_sim k j c o h x hx) (fun x => sequenceCompleted_ext _ c o h x)

/-- the stream chain after one sequence -/
def streamTail (rest : Stream → Stream × Nat × Bool) (r : Stream × Bool) : Stream × Nat × Bool :=
  if !r.2 then (r.1, 0, false) else ((rest r.1).1, (rest r.1).2.1 + 1, (rest r.1).2.2)

theorem stream_chain_cons (F : Faults) (c : StreamCfg) (o : Opts) (h : Hdr) (s : Stream) (ms : List WMsg) (rest : List (List WMsg)) :
    Stream.chain F c o h s (ms :: rest) = streamTail (fun s' => Stream.chain F c o h s' rest) (s.sequence F c o h ms) := rfl

theorem stream_chain_ext (F : Faults) (c : StreamCfg) (o : Opts) (h : Hdr) :
    ∀ (mss : List (List WMsg)) (s : Stream), Ext s.e.w.d (Stream.chain F c o h s mss).1.e.w.d
  | [], s => Ext.refl _
  | ms :: rest, s => by
    rw [stream_chain_cons]
    unfold streamTail
    split
    · exact sequence_ext F c o h s ms
    · exact (sequence_ext F c o h s ms).trans (stream_chain_ext F c o h rest _)

theorem stream_chain_sim (k j : Nat) (c : StreamCfg) (o : Opts) (h : Hdr) :
    ∀ (mss : List (List WMsg)) (s : Stream), s.e.w.d.log.length ≤ k →
    Sim k j lS3 oS3 (Stream.chain (single k j) c o h s mss) (Stream.chain noFault c o h s mss)
  | [], s, hk => Sim.same (log := lS3) (ok := oS3) _ hk
  | ms :: rest, s, hk => by
    rw [stream_chain_cons, stream_chain_cons]
    refine Sim.bind (lτ := lS3) (oτ := oS3) (streamTail fun s' => Stream.chain (single k j) c o h s' rest)
      (streamTail fun s' => Stream.chain noFault c o h s' rest) (sequence_sim k j c o h s ms hk) ?_ ?_ ?_
    · intro r hr
      unfold streamTail
      by_cases h1 : (!r.2) = true
      · rw [if_pos h1, if_pos h1]; exact Sim.same (log := lS3) (ok := oS3) _ hr
      · rw [if_neg h1, if_neg h1]
        exact Sim.map (lτ := lS3) (oτ := oS3) (fun t : Stream × Nat × Bool => (t.1, t.2.1 + 1, t.2.2))
          (stream_chain_sim k j c o h rest r.1 hr) (fun _ => rfl) (fun _ h => h)
    · intro r hr; unfold streamTail; simp [hr]
    · intro r
      unfold streamTail
      split
      · exact List.suffix_refl _
      · exact (stream_chain_ext noFault c o h rest r.1).log

/-! ### from the relation to the explicit crash state -/

theorem crashOps_none {k j : Nat} {ops : List DOp} (h : ops.length ≤ k) : crashOps k j ops = ops := by
  unfold crashOps
  rw [List.getElem?_eq_none h]

theorem crashOps_mid (j : Nat) (a : List DOp) (op : DOp) (b : List DOp) :
    crashOps a.length j (a ++ op :: b) = a ++ [op.fail j] := by
  unfold crashOps
  rw [List.getElem?_append_right (Nat.le_refl _)]
  simp

/-- THE EXPLICIT FORM: the healthy run is the replay of some operation sequence `ops` on the destination it started
with; the faulted run's destination is the replay of the crash state (k, j) of `ops` (`k` counted from the log the
destination started with); if `ops` reaches operation `k` the faulted run reports failure, otherwise the two runs are
identical. -/
theorem crash_of_sim {ρ : Type} {k j : Nat} {dst : ρ → Dest} {ok : ρ → Bool} {rf rh : ρ} (d₀ : Dest) (hk : d₀.log.length ≤ k)
    (hs : Sim k j (fun r => (dst r).log) ok rf rh) (hF : Ext d₀ (dst rf)) (hH : Ext d₀ (dst rh)) :
    ∃ ops, dst rh = d₀.run ops ∧ dst rf = d₀.run (crashOps (k - d₀.log.length) j ops) ∧
      (k - d₀.log.length < ops.length → ok rf = false) ∧ (ops.length ≤ k - d₀.log.length → rf = rh) := by
  obtain ⟨opsH, hH⟩ := hH
  obtain ⟨opsF, hF⟩ := hF
  refine ⟨opsH, hH, ?_⟩
  have e1 : (dst rh).log = opsH.reverse ++ d₀.log := by rw [hH, Dest.run_log]
  have e2 : (dst rf).log = opsF.reverse ++ d₀.log := by rw [hF, Dest.run_log]
  rcases hs with ⟨heq, hlen⟩ | ⟨hf, op, pre, ⟨t, ht⟩, hpre, hlf⟩
  · simp only [e1, List.length_append, List.length_reverse] at hlen
    have hle : opsH.length ≤ k - d₀.log.length := by omega
    refine ⟨?_, fun h => absurd h (by omega), fun _ => heq⟩
    rw [crashOps_none hle, heq, hH]
  · -- the healthy log, oldest first, is  d₀.log.reverse ++ opsH = pre.reverse ++ op :: t.reverse
    have hrev : pre.reverse ++ op :: t.reverse = d₀.log.reverse ++ opsH := by
      have := congrArg List.reverse (ht.trans e1)
      simpa [List.reverse_append] using this
    obtain ⟨c', hc1, hc2⟩ : ∃ c', pre.reverse = d₀.log.reverse ++ c' ∧ opsH = c' ++ op :: t.reverse := by
      rcases List.append_eq_append_iff.mp hrev with ⟨a', ha1, ha2⟩ | ⟨c', hc1, hc2⟩
      · have hl := congrArg List.length ha1
        simp only [List.length_append, List.length_reverse] at hl
        have ha0 : a' = [] := List.eq_nil_of_length_eq_zero (by omega)
        subst ha0
        exact ⟨[], by simpa using ha1.symm, by simpa using ha2.symm⟩
      · exact ⟨c', hc1, hc2⟩
    have hcl : c'.length = k - d₀.log.length := by
      have hl := congrArg List.length hc1
      simp only [List.length_append, List.length_reverse] at hl
      omega
    have hF' : opsF = c' ++ [op.fail j] := by
      have := congrArg List.reverse (hlf.symm.trans e2)
      simp only [List.reverse_cons, List.reverse_append, List.reverse_reverse, hc1, List.append_assoc] at this
      exact (List.append_cancel_left this).symm
    refine ⟨?_, fun _ => hf, fun h => ?_⟩
    · rw [← hcl, hc2, crashOps_mid, ← hF', hF]
    · rw [hc2] at h; simp only [List.length_append, List.length_cons] at h; omega

/-! ### the entry points with the validators in front (what the driver runs) -/

/-- the crash-prefix statement for a destination pair and a result flag (the conclusion of `crash_of_sim`) -/
def CrashPrefix (k j : Nat) (d₀ dF dH : Dest) (okF : Bool) (same : Prop) : Prop :=
  ∃ ops, dH = d₀.run ops ∧ dF = d₀.run (crashOps (k - d₀.log.length) j ops) ∧
    (k - d₀.log.length < ops.length → okF = false) ∧ (ops.length ≤ k - d₀.log.length → same)

theorem CrashPrefix.trivial {k j : Nat} {d₀ : Dest} {okF : Bool} {same : Prop} (h : same) : CrashPrefix k j d₀ d₀ d₀ okF same :=
  ⟨[], rfl, by simp [crashOps, Dest.run], fun h0 => by simp at h0, fun _ => h⟩

theorem encodeV_crash {σ : Type} (V : MsgValidator σ) (k j : Nat) (o : Opts) (e : Enc) (f : FitIn) (hk : e.w.d.log.length ≤ k) :
    CrashPrefix k j e.w.d (encodeV V (single k j) o e f).1.w.d (encodeV V noFault o e f).1.w.d
      (decide ((encodeV V (single k j) o e f).2 = .ok)) (encodeV V (single k j) o e f = encodeV V noFault o e f) := by
  unfold encodeV
  by_cases h1 : f.msgs.isEmpty = true
  · simp only [h1, if_true]; exact CrashPrefix.trivial trivial
  · simp only [h1, Bool.false_eq_true, if_false]
    by_cases h2 : (!f.msgs.all (protoOK f.hdr.protoVer)) = true
    · simp only [h2, if_true]; exact CrashPrefix.trivial trivial
    · simp only [h2, Bool.false_eq_true, if_false]
      cases hv : validateAll V V.init f.msgs with
      | none => exact CrashPrefix.trivial rfl
      | some ms' =>
        simp only
        obtain ⟨ops, a1, a2, a3, a4⟩ := crash_of_sim (dst := fun r : Enc × Bool => r.1.w.d) (ok := fun r => r.2) e.w.d hk
          (encode_sim k j o e { f with msgs := ms' } hk) (encode_ext _ o e _) (encode_ext _ o e _)
        refine ⟨ops, a1, a2, fun h => ?_, fun h => ?_⟩
        · have := a3 h; simp [this]
        · rw [a4 h]

/-- `WriteMessage` after the header: the two validators, then `encodeMessage` -/
def wmvTail {σ : Type} (V : MsgValidator σ) (F : Faults) (o : Opts) (h : Hdr) (vs : σ) (m : WMsg) (r : Stream × Bool) : Stream × σ × Res :=
  if !r.2 then (r.1, vs, .err)
  else if !protoOK h.protoVer m then (r.1, vs, .ep)
  else
    match V.step vs m with
    | (vs', none) => (r.1, vs', .ev)
    | (vs', some m') => (({ r.1 with e := (encodeMessage F o r.1.e m').1 } : Stream), vs', if (encodeMessage F o r.1.e m').2 then .ok else .err)

theorem writeMessageV_def {σ : Type} (V : MsgValidator σ) (F : Faults) (o : Opts) (h : Hdr) (s : Stream) (vs : σ) (m : WMsg) :
    s.writeMessageV V F o h vs m = wmvTail V F o h vs m (s.ensureHeader F h) := rfl

abbrev lSV {σ : Type} : Stream × σ × Res → List DOp := fun r => r.1.e.w.d.log
abbrev oSV {σ : Type} : Stream × σ × Res → Bool := fun r => decide (r.2.2 = .ok)

theorem wmvTail_ext {σ : Type} (V : MsgValidator σ) (F : Faults) (o : Opts) (h : Hdr) (vs : σ) (m : WMsg) (r : Stream × Bool) :
    Ext r.1.e.w.d (wmvTail V F o h vs m r).1.e.w.d := by
  unfold wmvTail
  split
  · exact Ext.refl _
  · split
    · exact Ext.refl _
    · split
      · exact Ext.refl _
      · exact encodeMessage_ext F o r.1.e _

theorem wmvTail_sim {σ : Type} (V : MsgValidator σ) (k j : Nat) (o : Opts) (h : Hdr) (vs : σ) (m : WMsg) (r : Stream × Bool)
    (hk : r.1.e.w.d.log.length ≤ k) :
    Sim k j lSV oSV (wmvTail V (single k j) o h vs m r) (wmvTail V noFault o h vs m r) := by
  unfold wmvTail
  by_cases h1 : (!r.2) = true
  · rw [if_pos h1, if_pos h1]; exact Sim.same (log := lSV) (ok := oSV) _ hk
  · rw [if_neg h1, if_neg h1]
    by_cases h2 : (!protoOK h.protoVer m) = true
    · rw [if_pos h2, if_pos h2]; exact Sim.same (log := lSV) (ok := oSV) _ hk
    · rw [if_neg h2, if_neg h2]
      rcases hstep : V.step vs m with ⟨vs', om⟩
      cases om with
      | none => exact Sim.same (log := lSV) (ok := oSV) _ hk
      | some m' =>
        exact Sim.map (lτ := lSV) (oτ := oSV)
          (fun r2 : Enc × Bool => (({ r.1 with e := r2.1 } : Stream), vs', if r2.2 then Res.ok else Res.err))
          (encodeMessage_sim k j o r.1.e m' hk) (fun _ => rfl) (fun r2 h2 => by simp [h2])

theorem writeMessageV_ext {σ : Type} (V : MsgValidator σ) (F : Faults) (o : Opts) (h : Hdr) (s : Stream) (vs : σ) (m : WMsg) :
    Ext s.e.w.d (s.writeMessageV V F o h vs m).1.e.w.d := by
  rw [writeMessageV_def]; exact (ensureHeader_ext F h s).trans (wmvTail_ext V F o h vs m _)

theorem writeMessageV_sim {σ : Type} (V : MsgValidator σ) (k j : Nat) (o : Opts) (h : Hdr) (s : Stream) (vs : σ) (m : WMsg)
    (hk : s.e.w.d.log.length ≤ k) :
    Sim k j lSV oSV (s.writeMessageV V (single k j) o h vs m) (s.writeMessageV V noFault o h vs m) := by
  rw [writeMessageV_def, writeMessageV_def]
  exact Sim.bind (lτ := lSV) (oτ := oSV) (wmvTail V (single k j) o h vs m) (wmvTail V noFault o h vs m) (ensureHeader_sim k j h s hk)
    (fun r hr => wmvTail_sim V k j o h vs m r hr)
    (fun r hr => by unfold wmvTail; simp [hr])
    (fun r => (wmvTail_ext V _ o h vs m r).log)

/-- `SequenceCompleted` with the validator state is `sequenceCompleted` as far as the stream encoder and the result go -/
theorem sequenceCompletedV_eq {σ : Type} (V : MsgValidator σ) (F : Faults) (c : StreamCfg) (o : Opts) (h : Hdr) (s : Stream) (vs : σ) :
    (s.sequenceCompletedV V F c o h vs).1 = (s.sequenceCompleted F c o h).1 ∧
    (s.sequenceCompletedV V F c o h vs).2.2 = (if (s.sequenceCompleted F c o h).2 then Res.ok else Res.err) := by
  unfold Stream.sequenceCompletedV
  by_cases h1 : (encodeCRC F s.e).2 = true
  · simp only [h1, Bool.not_true, Bool.false_eq_true, if_false]
    by_cases h2 : (updateFileHeader F (encodeCRC F s.e).1 h s.hdrDs).2.2 = true
    · simp only [h2, Bool.not_true, Bool.false_eq_true, if_false]
      exact ⟨trivial, trivial⟩
    · have h2' : (updateFileHeader F (encodeCRC F s.e).1 h s.hdrDs).2.2 = false := by simpa using h2
      unfold Stream.sequenceCompleted
      simp [h1, h2']
  · have h1' : (encodeCRC F s.e).2 = false := by simpa using h1
    unfold Stream.sequenceCompleted
    simp [h1']

end Fit.Writer
