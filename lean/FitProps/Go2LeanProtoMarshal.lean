import FitModel.Wire
import FitModel.Value
import FitModel.Generated.Go_protomarshal
import FitProps.Go2LeanLoopLemmas
/-!
Agreement of the definitions GENERATED from proto/proto_marshal.go, proto/proto.go (`NewMessageDefinition`) and
proto/value*.go (`Go.protomarshal.*`) with the hand-written models:

* `MessageDefinition.MarshalAppend` (the WHOLE function) — the bytes of a message definition, `Fit.Wire.defBytes` (the
  model the round-trip theorems of C01 are about);
* the first statement of `Message.MarshalAppend` — the header byte a data record starts with (`Fit.Wire.encodeMsg`: `hdr :: payload`);
* the developer-data flag `NewMessageDefinition` sets in the header;
* the clamping of `typedef.Bool` (`proto.Bool`, `Value.MarshalAppend` case `TypeBool`, `UnmarshalValue` on a bool array) —
  `Fit.Value.mkBool`, `boolByte`, `clampBool` (C06).
-/
set_option linter.unusedSimpArgs false
namespace Fit.Go2Lean
open Go.protomarshal

/-! ### MessageDefinition.MarshalAppend -/

/-- what `MessageDefinition.MarshalAppend` appends, read off the FIT format: header, reserved, architecture, the global
message number in that byte order, the number of fields as a byte and 3 bytes per field definition; when the header carries
the developer-data flag the number of developer fields as a byte and 3 bytes per developer field definition -/
def pmDefSpec (m : MessageDefinition) : List Nat :=
  [m.Header, m.Reserved, m.Architecture] ++ (if m.Architecture = 0 then Go.le16 m.MesgNum else Go.be16 m.MesgNum) ++
  [m.FieldDefinitions.length % 256] ++ m.FieldDefinitions.flatMap (fun f => [f.Num, f.Size, f.BaseType]) ++
  (if m.Header &&& 32 = 32 then
    [m.DeveloperFieldDefinitions.length % 256] ++
      m.DeveloperFieldDefinitions.flatMap (fun d => [d.Num, d.Size, d.DeveloperDataIndex])
   else [])

/-- the translated `MarshalAppend` never panics and appends exactly `pmDefSpec m`, for EVERY definition and buffer -/
theorem pm_def_marshal (m : MessageDefinition) (b : List Nat) :
    MessageDefinition.MarshalAppend m b = some (b ++ pmDefSpec m) := by
  have hl : ∀ n : Nat, (((n : Int) % 2 ^ 8).toNat) = n % 256 := by intro n; omega
  have hl' : ∀ n : Nat, (((n : Int) % 256).toNat) = n % 256 := by intro n; omega
  unfold MessageDefinition.MarshalAppend pmDefSpec
  by_cases ha : m.Architecture = 0 <;> rcases and_32_cases m.Header with hh | hh <;>
  ( simp [ha, hh, hl, hl', -List.append_assoc, -List.cons_append, -List.nil_append, -List.singleton_append]
    go_loop m.FieldDefinitions (fun f b => some (ForInStep.yield (b ++ [f.Num, f.Size, f.BaseType])))
    rw [forIn_some_yield, foldl_append_flatMap]
    try simp only [Option.bind_eq_bind, Option.bind_some, Option.pure_def, pure_bind, bind_pure]
    try (go_loop m.DeveloperFieldDefinitions (fun f b => some (ForInStep.yield (b ++ [f.Num, f.Size, f.DeveloperDataIndex])))
         rw [forIn_some_yield, foldl_append_flatMap])
    simp [ha, hh, hl, hl'] )

/-- the `proto.MessageDefinition` that `newMessageDefinition` / `NewMessageDefinition` build for a message of the wire
model: header `MesgDefinitionMask` (the translated constant), with the translated `mesgDef.Header |= DevDataMask` applied
when the message has developer fields; one definition per field with the value's size truncated to a byte -/
def pmDefOf (arch : Nat) (m : Fit.Wire.WMsg) : MessageDefinition where
  Header := if m.devs.isEmpty then MesgDefinitionMask else (NewMessageDefinition_devHeader MesgDefinitionMask).mesgDef_Header
  Reserved := 0
  Architecture := arch
  MesgNum := m.num
  FieldDefinitions := m.fields.map (fun f => ⟨f.num, f.data.length % 256, f.bt⟩)
  DeveloperFieldDefinitions := m.devs.map (fun d => ⟨d.num, d.data.length % 256, d.idx⟩)

/-- the translated `MarshalAppend`, applied to the definition of a message, appends `Fit.Wire.defBytes` — for every
message, byte order and buffer -/
theorem pm_def_wire (arch : Nat) (m : Fit.Wire.WMsg) (b : List Nat) :
    MessageDefinition.MarshalAppend (pmDefOf arch m) b = some (b ++ Fit.Wire.defBytes arch m) := by
  rw [pm_def_marshal]
  congr 2
  unfold pmDefSpec pmDefOf Fit.Wire.defBytes NewMessageDefinition_devHeader MesgDefinitionMask
  by_cases hd : m.devs.isEmpty = true <;> by_cases ha : arch = 0 <;>
    simp [hd, ha, Go.le16, Go.be16, List.flatMap_map, id_run] <;> exact ⟨rfl, rfl⟩

/-- the header constants: definition flag bit 6, developer-data flag bit 5 (the header of a definition with developer
fields is 0x60), architecture byte 0 = little-endian, 1 = big-endian -/
theorem pm_def_header :
    MesgDefinitionMask = 0x40 ∧ DevDataMask = 0x20 ∧ LittleEndian = 0 ∧ BigEndian = 1 ∧
    (∀ h, (NewMessageDefinition_devHeader h).mesgDef_Header = h ||| 0x20) ∧
    (NewMessageDefinition_devHeader MesgDefinitionMask).mesgDef_Header = 0x60 := by
  refine ⟨rfl, rfl, rfl, rfl, fun h => rfl, rfl⟩

/-- the size arithmetic: a definition record has 6 + 3·(fields) bytes, plus 1 + 3·(developer fields) with developer data -/
theorem pm_def_length (m : MessageDefinition) (b out : List Nat) (h : MessageDefinition.MarshalAppend m b = some out) :
    out.length = b.length + 6 + 3 * m.FieldDefinitions.length +
      (if m.Header &&& 32 = 32 then 1 + 3 * m.DeveloperFieldDefinitions.length else 0) := by
  rw [pm_def_marshal] at h
  cases h
  have e1 : ∀ l : List FieldDefinition, (l.flatMap (fun f => [f.Num, f.Size, f.BaseType])).length = 3 * l.length := by
    intro l; induction l with
    | nil => rfl
    | cons a l ih => simp [List.flatMap_cons, ih]; omega
  have e2 : ∀ l : List DeveloperFieldDefinition, (l.flatMap (fun f => [f.Num, f.Size, f.DeveloperDataIndex])).length = 3 * l.length := by
    intro l; induction l with
    | nil => rfl
    | cons a l ih => simp [List.flatMap_cons, ih]; omega
  unfold pmDefSpec
  by_cases ha : m.Architecture = 0 <;> by_cases hh : m.Header &&& 32 = 32 <;>
    simp [ha, hh, e1, e2, Go.le16, Go.be16] <;> omega

/-! ### Message.MarshalAppend: the header byte -/

/-- the first statement of `Message.MarshalAppend` appends the message's header byte: with the payload behind it this is the
data record `hdr :: payload m` of `Fit.Wire.encodeMsg` -/
theorem pm_data_header (b : List Nat) (hdr : Nat) (m : Fit.Wire.WMsg) :
    (Message_MarshalAppend_header b hdr).b = b ++ [hdr] ∧
    (Message_MarshalAppend_header [] hdr).b ++ Fit.Wire.payload m = hdr :: Fit.Wire.payload m := ⟨rfl, rfl⟩

/-! ### typedef.Bool -/

/-- `proto.Bool(v)`: the number stored is the model's (`Fit.Value.mkBool`: above 1 → `BoolInvalid` = 255) -/
theorem pm_bool_clamp (v : Nat) : Fit.Value.mkBool v = .bool (Bool_clamp v).num ∧ (Bool_clamp v).num = Fit.Value.clampBool v := by
  unfold Fit.Value.mkBool Fit.Value.clampBool Bool_clamp
  by_cases h : v > 1
  · have h2 : 2 ≤ v := h
    have h3 : ¬ v ≤ 1 := by omega
    have h4 : ¬ v < 2 := by omega
    simp [h, h2, h3, h4, id_run, Fit.Gen.boolInvalid] <;> exact ⟨rfl, rfl⟩
  · have h2 : ¬ 2 ≤ v := by omega
    have h3 : v ≤ 1 := by omega
    have h4 : v < 2 := by omega
    simp [h, h2, h3, h4, id_run, Fit.Gen.boolInvalid] <;> exact ⟨rfl, rfl⟩

/-- `Value.MarshalAppend`, case `TypeBool`: one byte, `Fit.Value.boolByte` (above 1 → 255), and the function returns there -/
theorem pm_bool_marshal (b : List Nat) (val : Nat) (hv : val < 256) :
    (Value_MarshalAppend_bool b val).ret = some (b ++ [Fit.Value.boolByte val]) := by
  unfold Value_MarshalAppend_bool Fit.Value.boolByte
  have e : val % 256 = val := Nat.mod_eq_of_lt hv
  by_cases h : val > 1
  · have h2 : 2 ≤ val := h
    have h3 : ¬ val ≤ 1 := by omega
    have h4 : ¬ val < 2 := by omega
    simp [h, h2, h3, h4, e, id_run] <;> rfl
  · have h2 : ¬ 2 ≤ val := by omega
    have h3 : val ≤ 1 := by omega
    have h4 : val < 2 := by omega
    simp [h, h2, h3, h4, e, id_run] <;> rfl

/-! ### Value.MarshalAppend: the fixed-width scalar cases and the bool array -/

/-- the eight fixed-width scalar cases of `Value.MarshalAppend` (`binary.LittleEndian/BigEndian.AppendUintN(b, uintN(v.num))`
chosen by `arch == LittleEndian`, then `return b, nil`) append `Fit.Value.enc w arch n` — the bytes `Fit.Value.marshal` gives
for `.int16 n` … `.float64 n` — for EVERY `v.num`, byte order byte and buffer -/
theorem pm_scalar_marshal (arch n : Nat) (b : List Nat) :
    (Value_MarshalAppend_int16 arch b n).ret = some (b ++ Fit.Value.enc 2 arch n) ∧
    (Value_MarshalAppend_uint16 arch b n).ret = some (b ++ Fit.Value.enc 2 arch n) ∧
    (Value_MarshalAppend_int32 arch b n).ret = some (b ++ Fit.Value.enc 4 arch n) ∧
    (Value_MarshalAppend_uint32 arch b n).ret = some (b ++ Fit.Value.enc 4 arch n) ∧
    (Value_MarshalAppend_float32 arch b n).ret = some (b ++ Fit.Value.enc 4 arch n) ∧
    (Value_MarshalAppend_int64 arch b n).ret = some (b ++ Fit.Value.enc 8 arch n) ∧
    (Value_MarshalAppend_uint64 arch b n).ret = some (b ++ Fit.Value.enc 8 arch n) ∧
    (Value_MarshalAppend_float64 arch b n).ret = some (b ++ Fit.Value.enc 8 arch n) := by
  have e16 : Go.le16 (n % 2 ^ 16) = Fit.Value.leBytes 2 n := by
    simp only [Go.le16, Fit.Value.leBytes, List.cons.injEq, and_true]; omega
  have e32 : Go.le32 (n % 2 ^ 32) = Fit.Value.leBytes 4 n := by
    simp only [Go.le32, Fit.Value.leBytes, List.cons.injEq, and_true]; omega
  have e64 : Go.le64 n = Fit.Value.leBytes 8 n := by
    simp only [Go.le64, Go.le32, Fit.Value.leBytes, List.cons_append, List.nil_append, List.cons.injEq, and_true]; omega
  have r16 : Go.be16 (n % 2 ^ 16) = (Fit.Value.leBytes 2 n).reverse := by
    rw [← e16]; simp [Go.le16, Go.be16]
  have r32 : Go.be32 (n % 2 ^ 32) = (Fit.Value.leBytes 4 n).reverse := by
    rw [← e32]; simp [Go.le32, Go.be32]
  have r64 : Go.be64 n = (Fit.Value.leBytes 8 n).reverse := by
    rw [← e64]; simp [Go.le64, Go.le32, Go.be64, Go.be32]
  unfold Value_MarshalAppend_int16 Value_MarshalAppend_uint16 Value_MarshalAppend_int32 Value_MarshalAppend_uint32
    Value_MarshalAppend_float32 Value_MarshalAppend_int64 Value_MarshalAppend_uint64 Value_MarshalAppend_float64 Fit.Value.enc
    Fit.Gen.littleEndian
  by_cases ha : arch = 0
  · simp [ha, e16, e32, e64, id_run, -List.append_assoc] <;> exact ⟨rfl, rfl, rfl, rfl, rfl, rfl, rfl, rfl⟩
  · simp [ha, r16, r32, r64, id_run, -List.append_assoc] <;> exact ⟨rfl, rfl, rfl, rfl, rfl, rfl, rfl, rfl⟩

/-- `Value.MarshalAppend`, case `TypeSliceBool`: one byte per element, `Fit.Value.boolByte` (above 1 → 255); the loop does not
panic and the function returns there — for every array of bytes and every buffer -/
theorem pm_sliceBool_marshal (b vals : List Nat) (hv : ∀ x ∈ vals, x < 256) :
    Value_MarshalAppend_sliceBool b vals =
      some { b := b ++ vals.map Fit.Value.boolByte, ret := some (b ++ vals.map Fit.Value.boolByte) } := by
  have hloop : forIn (Go.rangeI vals.length) b (fun i r => do
      let b : List Nat := r
      if (decide ((← Go.idxI vals i) > 1)) then
        let b := (b ++ [255])
        pure (ForInStep.yield b)
      else
        let b := (b ++ [(← Go.idxI vals i)])
        pure (ForInStep.yield b)) = some (b ++ vals.map Fit.Value.boolByte) := by
    rw [forIn_rangeI_congr _ _ (fun x b => some (ForInStep.yield (b ++ [if x > 1 then 255 else x])))
      (by intro k hk s; by_cases h : vals[k] > 1 <;> simp [idxI_natCast _ k hk, h])]
    rw [forIn_some_yield, foldl_append_flatMap]
    congr 2
    rw [List.flatMap_eq_foldl]
    suffices H : ∀ acc : List Nat, List.foldl (fun acc a => acc ++ [if a > 1 then 255 else a]) acc vals = acc ++ vals.map Fit.Value.boolByte by
      simpa using H []
    induction vals with
    | nil => intro acc; simp
    | cons a l ih =>
      intro acc
      have ha : a < 256 := hv a (by simp)
      have e : Fit.Value.boolByte a = if a > 1 then 255 else a := by
        unfold Fit.Value.boolByte; rw [Nat.mod_eq_of_lt ha]
      simp [ih (fun x hx => hv x (by simp [hx])), e]
  unfold Value_MarshalAppend_sliceBool
  simp only [hloop]
  rfl

/-- the unsigned fixed-width array cases of `Value.MarshalAppend` (`TypeSliceUint16/32/64`): every element in the byte order
chosen by `arch == LittleEndian`, i.e. `vals.flatMap (Fit.Value.enc w arch)` — what `Fit.Value.marshal` gives for
`.sliceUint16 / 32 / 64 vals` — for every array, architecture byte and buffer; the loops do not panic -/
theorem pm_sliceUint_marshal (arch : Nat) (b vals : List Nat) :
    Value_MarshalAppend_sliceUint16 arch b vals =
      some { b := b ++ vals.flatMap (Fit.Value.enc 2 arch), ret := some (b ++ vals.flatMap (Fit.Value.enc 2 arch)) } ∧
    Value_MarshalAppend_sliceUint32 arch b vals =
      some { b := b ++ vals.flatMap (Fit.Value.enc 4 arch), ret := some (b ++ vals.flatMap (Fit.Value.enc 4 arch)) } ∧
    Value_MarshalAppend_sliceUint64 arch b vals =
      some { b := b ++ vals.flatMap (Fit.Value.enc 8 arch), ret := some (b ++ vals.flatMap (Fit.Value.enc 8 arch)) } := by
  have e16 : ∀ n, Go.le16 n = Fit.Value.leBytes 2 n := by
    intro n; simp only [Go.le16, Fit.Value.leBytes]
  have e32 : ∀ n, Go.le32 n = Fit.Value.leBytes 4 n := by
    intro n; simp only [Go.le32, Fit.Value.leBytes, List.cons.injEq, and_true, true_and]; omega
  have e64 : ∀ n, Go.le64 n = Fit.Value.leBytes 8 n := by
    intro n
    simp only [Go.le64, Go.le32, Fit.Value.leBytes, List.cons_append, List.nil_append, List.cons.injEq, and_true, true_and]; omega
  have r16 : ∀ n, Go.be16 n = (Fit.Value.leBytes 2 n).reverse := by
    intro n; rw [← e16]; simp [Go.le16, Go.be16]
  have r32 : ∀ n, Go.be32 n = (Fit.Value.leBytes 4 n).reverse := by
    intro n; rw [← e32]; simp [Go.le32, Go.be32]
  have r64 : ∀ n, Go.be64 n = (Fit.Value.leBytes 8 n).reverse := by
    intro n; rw [← e64]; simp [Go.le64, Go.le32, Go.be64, Go.be32]
  unfold Value_MarshalAppend_sliceUint16 Value_MarshalAppend_sliceUint32 Value_MarshalAppend_sliceUint64 Fit.Value.enc
    Fit.Gen.littleEndian
  by_cases ha : arch = 0
  · refine ⟨?_, ?_, ?_⟩ <;> simp [ha, -List.append_assoc]
    · go_loop vals (fun x b => some (ForInStep.yield (b ++ Go.le16 x)))
      rw [forIn_some_yield, foldl_append_flatMap]; simp [funext e16]
    · go_loop vals (fun x b => some (ForInStep.yield (b ++ Go.le32 x)))
      rw [forIn_some_yield, foldl_append_flatMap]; simp [funext e32]
    · go_loop vals (fun x b => some (ForInStep.yield (b ++ Go.le64 x)))
      rw [forIn_some_yield, foldl_append_flatMap]; simp [funext e64]
  · refine ⟨?_, ?_, ?_⟩ <;> simp [ha, -List.append_assoc]
    · go_loop vals (fun x b => some (ForInStep.yield (b ++ Go.be16 x)))
      rw [forIn_some_yield, foldl_append_flatMap]; simp [funext r16]
    · go_loop vals (fun x b => some (ForInStep.yield (b ++ Go.be32 x)))
      rw [forIn_some_yield, foldl_append_flatMap]; simp [funext r32]
    · go_loop vals (fun x b => some (ForInStep.yield (b ++ Go.be64 x)))
      rw [forIn_some_yield, foldl_append_flatMap]; simp [funext r64]

/-- `UnmarshalValue` on a `typedef.Bool` array: the element appended for byte `i` is `Fit.Value.clampBool bs[i]`, and the
index expression does not panic for an index of the loop -/
theorem pm_bool_unmarshal (bs vals : List Nat) (i : Nat) (hi : i < bs.length) :
    UnmarshalValue_boolElem bs (i : Int) vals =
      some { vals := vals ++ [Fit.Value.clampBool bs[i]], v := Fit.Value.clampBool bs[i] } := by
  unfold UnmarshalValue_boolElem Fit.Value.clampBool
  rw [idxI_natCast bs i hi]
  by_cases h : bs[i] > 1 <;> simp [h, Fit.Gen.boolInvalid]

end Fit.Go2Lean
