import FitModel.Wire
import FitModel.Value
import FitModel.Generated.Go_protomarshal
import FitProps.Go2LeanLoopLemmas
/-!
Agreement of the definitions GENERATED from proto/proto_marshal.go, proto/proto.go (`NewMessageDefinition`) and
proto/value*.go (`Go.protomarshal.*`) with the hand-written models:

* `MessageDefinition.MarshalAppend` (the WHOLE function) — the bytes of a message definition, `Fit.Wire.defBytes` (the
  model the round-trip theorems of C01 are about);
* the first statement of `Message.MarshalAppend` — the header byte a data record starts with (`Fit.Wire.encodeMsg`: `hdr :: payload`);
* the developer-data flag `NewMessageDefinition` sets in the header;
* the clamping of `typedef.Bool` (`proto.Bool`, `Value.MarshalAppend` case `TypeBool`, `UnmarshalValue` on a bool array) —
  `Fit.Value.mkBool`, `boolByte`, `clampBool` (C06).
-/
set_option linter.unusedSimpArgs false
namespace Fit.Go2Lean
open Go.protomarshal

/-! ### MessageDefinition.MarshalAppend -/

/-- what `MessageDefinition.MarshalAppend` appends, read off the FIT format: header, reserved, architecture, the global
message number in that byte order, the number of fields as a byte and 3 bytes per field definition; when the header carries
the developer-data flag the number of developer fields as a byte and 3 bytes per developer field definition -/
def pmDefSpec (m : MessageDefinition) : List Nat :=
  [m.Header, m.Reserved, m.Architecture] ++ (if m.Architecture = 0 then Go.le16 m.MesgNum else Go.be16 m.MesgNum) ++
  [m.FieldDefinitions.length % 256] ++ m.FieldDefinitions.flatMap (fun f => [f.Num, f.Size, f.BaseType]) ++
  (if m.Header &&& 32 = 32 then
    [m.DeveloperFieldDefinitions.length % 256] ++
      m.DeveloperFieldDefinitions.flatMap (fun d => [d.Num, d.Size, d.DeveloperDataIndex])
   else [])

/-- the translated `MarshalAppend` never panics and appends exactly `pmDefSpec m`, for EVERY definition and buffer -/
theorem pm_def_marshal (m : MessageDefinition) (b : List Nat) :
    MessageDefinition.MarshalAppend m b = some (b ++ pmDefSpec m) := by
  have hf : ∀ b0 : List Nat, forIn (Go.rangeI m.FieldDefinitions.length) b0 (fun i r => do
      let b : List Nat := r
      let b := (b ++ [((← Go.idxI m.FieldDefinitions i)).Num, ((← Go.idxI m.FieldDefinitions i)).Size, ((← Go.idxI m.FieldDefinitions i)).BaseType])
      pure (ForInStep.yield b)) = some (b0 ++ m.FieldDefinitions.flatMap (fun f => [f.Num, f.Size, f.BaseType])) := by
    intro b0
    rw [forIn_rangeI_congr _ _ (fun f b => some (ForInStep.yield (b ++ [f.Num, f.Size, f.BaseType])))
      (by intro k hk s; simp [idxI_natCast _ k hk])]
    rw [forIn_some_yield, foldl_append_flatMap]
  have hd : ∀ b0 : List Nat, forIn (Go.rangeI m.DeveloperFieldDefinitions.length) b0 (fun i r => do
      let b : List Nat := r
      let b := (b ++ [((← Go.idxI m.DeveloperFieldDefinitions i)).Num, ((← Go.idxI m.DeveloperFieldDefinitions i)).Size, ((← Go.idxI m.DeveloperFieldDefinitions i)).DeveloperDataIndex])
      pure (ForInStep.yield b)) = some (b0 ++ m.DeveloperFieldDefinitions.flatMap (fun f => [f.Num, f.Size, f.DeveloperDataIndex])) := by
    intro b0
    rw [forIn_rangeI_congr _ _ (fun f b => some (ForInStep.yield (b ++ [f.Num, f.Size, f.DeveloperDataIndex])))
      (by intro k hk s; simp [idxI_natCast _ k hk])]
    rw [forIn_some_yield, foldl_append_flatMap]
  have hl : ∀ n : Nat, (((n : Int) % 2 ^ 8).toNat) = n % 256 := by intro n; omega
  unfold MessageDefinition.MarshalAppend pmDefSpec
  simp only [hf, hd, hl]
  by_cases ha : m.Architecture = 0 <;> by_cases hh : m.Header &&& 32 = 32 <;> simp [ha, hh, hf, hd]

/-- the `proto.MessageDefinition` that `newMessageDefinition` / `NewMessageDefinition` build for a message of the wire
model: header `MesgDefinitionMask` (the translated constant), with the translated `mesgDef.Header |= DevDataMask` applied
when the message has developer fields; one definition per field with the value's size truncated to a byte -/
def pmDefOf (arch : Nat) (m : Fit.Wire.WMsg) : MessageDefinition where
  Header := if m.devs.isEmpty then MesgDefinitionMask else (NewMessageDefinition_devHeader MesgDefinitionMask).mesgDef_Header
  Reserved := 0
  Architecture := arch
  MesgNum := m.num
  FieldDefinitions := m.fields.map (fun f => ⟨f.num, f.data.length % 256, f.bt⟩)
  DeveloperFieldDefinitions := m.devs.map (fun d => ⟨d.num, d.data.length % 256, d.idx⟩)

/-- the translated `MarshalAppend`, applied to the definition of a message, appends `Fit.Wire.defBytes` — for every
message, byte order and buffer -/
theorem pm_def_wire (arch : Nat) (m : Fit.Wire.WMsg) (b : List Nat) :
    MessageDefinition.MarshalAppend (pmDefOf arch m) b = some (b ++ Fit.Wire.defBytes arch m) := by
  rw [pm_def_marshal]
  congr 2
  unfold pmDefSpec pmDefOf Fit.Wire.defBytes NewMessageDefinition_devHeader MesgDefinitionMask
  by_cases hd : m.devs.isEmpty = true <;> by_cases ha : arch = 0 <;>
    simp [hd, ha, Go.le16, Go.be16, List.flatMap_map, id_run] <;> exact ⟨rfl, rfl⟩

/-- the header constants: definition flag bit 6, developer-data flag bit 5 (the header of a definition with developer
fields is 0x60), architecture byte 0 = little-endian, 1 = big-endian -/
theorem pm_def_header :
    MesgDefinitionMask = 0x40 ∧ DevDataMask = 0x20 ∧ LittleEndian = 0 ∧ BigEndian = 1 ∧
    (∀ h, (NewMessageDefinition_devHeader h).mesgDef_Header = h ||| 0x20) ∧
    (NewMessageDefinition_devHeader MesgDefinitionMask).mesgDef_Header = 0x60 := by
  refine ⟨rfl, rfl, rfl, rfl, fun h => rfl, rfl⟩

/-- the size arithmetic: a definition record has 6 + 3·(fields) bytes, plus 1 + 3·(developer fields) with developer data -/
theorem pm_def_length (m : MessageDefinition) (b out : List Nat) (h : MessageDefinition.MarshalAppend m b = some out) :
    out.length = b.length + 6 + 3 * m.FieldDefinitions.length +
      (if m.Header &&& 32 = 32 then 1 + 3 * m.DeveloperFieldDefinitions.length else 0) := by
  rw [pm_def_marshal] at h
  cases h
  have e1 : ∀ l : List FieldDefinition, (l.flatMap (fun f => [f.Num, f.Size, f.BaseType])).length = 3 * l.length := by
    intro l; induction l with
    | nil => rfl
    | cons a l ih => simp [List.flatMap_cons, ih]; omega
  have e2 : ∀ l : List DeveloperFieldDefinition, (l.flatMap (fun f => [f.Num, f.Size, f.DeveloperDataIndex])).length = 3 * l.length := by
    intro l; induction l with
    | nil => rfl
    | cons a l ih => simp [List.flatMap_cons, ih]; omega
  unfold pmDefSpec
  by_cases ha : m.Architecture = 0 <;> by_cases hh : m.Header &&& 32 = 32 <;>
    simp [ha, hh, e1, e2, Go.le16, Go.be16] <;> omega

/-! ### Message.MarshalAppend: the header byte -/

/-- the first statement of `Message.MarshalAppend` appends the message's header byte: with the payload behind it this is the
data record `hdr :: payload m` of `Fit.Wire.encodeMsg` -/
theorem pm_data_header (b : List Nat) (hdr : Nat) (m : Fit.Wire.WMsg) :
    (Message_MarshalAppend_header b hdr).b = b ++ [hdr] ∧
    (Message_MarshalAppend_header [] hdr).b ++ Fit.Wire.payload m = hdr :: Fit.Wire.payload m := ⟨rfl, rfl⟩

/-! ### typedef.Bool -/

/-- `proto.Bool(v)`: the number stored is the model's (`Fit.Value.mkBool`: above 1 → `BoolInvalid` = 255) -/
theorem pm_bool_clamp (v : Nat) : Fit.Value.mkBool v = .bool (Bool_clamp v).num ∧ (Bool_clamp v).num = Fit.Value.clampBool v := by
  unfold Fit.Value.mkBool Fit.Value.clampBool Bool_clamp
  by_cases h : v > 1 <;> simp [h, id_run, Fit.Gen.boolInvalid] <;> exact ⟨rfl, rfl⟩

/-- `Value.MarshalAppend`, case `TypeBool`: one byte, `Fit.Value.boolByte` (above 1 → 255), and the function returns there -/
theorem pm_bool_marshal (b : List Nat) (val : Nat) (hv : val < 256) :
    (Value_MarshalAppend_bool b val).ret = some (b ++ [Fit.Value.boolByte val]) := by
  unfold Value_MarshalAppend_bool Fit.Value.boolByte
  have e : val % 256 = val := Nat.mod_eq_of_lt hv
  by_cases h : val > 1 <;> simp [h, e, id_run] <;> rfl

/-- `UnmarshalValue` on a `typedef.Bool` array: the element appended for byte `i` is `Fit.Value.clampBool bs[i]`, and the
index expression does not panic for an index of the loop -/
theorem pm_bool_unmarshal (bs vals : List Nat) (i : Nat) (hi : i < bs.length) :
    UnmarshalValue_boolElem bs (i : Int) vals =
      some { vals := vals ++ [Fit.Value.clampBool bs[i]], v := Fit.Value.clampBool bs[i] } := by
  unfold UnmarshalValue_boolElem Fit.Value.clampBool
  rw [idxI_natCast bs i hi]
  by_cases h : bs[i] > 1 <;> simp [h, Fit.Gen.boolInvalid]

end Fit.Go2Lean
