import FitProps.LinkLemmasApi
/-!
LINK (C) ↔ (D), part 2: the record-level functions of (C) that read field values, split into "read `size` bytes" and a
pure function of those bytes — which makes them comparable with (D) (which only reads) and with `apiOf` (which only
interprets).
-/
set_option linter.unusedSimpArgs false
set_option linter.unusedVariables false

namespace Fit.Link
open Fit.DecApi Fit.Gen Fit.Gen.DecApi Fit.Crc Fit.Value

/-- the state after `readN k`: stream, byte counter, running checksum -/
def adv (s : St) (k : Nat) : St :=
  { s with rest := s.rest.drop k,
           q := { s.q with cur := (s.q.cur + k) % 4294967296,
                           crc16 := (if s.o.chk then write s.q.crc16 (s.rest.take k) else s.q.crc16) } }

theorem readN_adv (k : Nat) (s : St) (hk : k ≤ reservedbuf) :
    readN k s = if k ≤ s.rest.length then .ok (s.rest.take k, adv s k) else .err .eof :=
  readN_eq k s hk

/-- the value-level half of `decodeFields` for one field definition, given the bytes read for it -/
def fieldPure (fac : Factory) (d : MesgDef) (fd : FieldDef) (b : List Nat) : Res DField := do
  let info := fac.create d.mesgNum fd.num
  let (bt, isBoolF, arrayF, overrideStr) ← fieldShape info fd
  let rs := readShape fd.size bt isBoolF arrayF
  let isArray := if overrideStr ∧ rs.1 = btString then decide (strcount b > 1) else rs.2.2
  let v ← (match unmarshal b d.arch rs.1 rs.2.1 isArray with
    | .ok v => pure v
    | .err => .err .other
    | .panic => .panic : Res Value)
  let v := if rs.1 ≠ bt then undersizedValue arrayF (sliceUint8Of v) d.arch bt else v
  pure ⟨fd.num, bt, info.known, isBoolF, arrayF, v, false⟩

/-- what a decoded field does to the decoder state: active timestamp, accumulator -/
def fieldUpd (fac : Factory) (d : MesgDef) (fd : FieldDef) (f : DField) (s : St) : St :=
  noteAcc (fac.create d.mesgNum fd.num).accumulate d.mesgNum fd.num f.value (noteTs fd.num f.value s)

/-- `decodeField` = read `size` bytes, then a pure function of them -/
theorem decodeField_eq (d : MesgDef) (fd : FieldDef) (s : St) (hsz : fd.size ≤ reservedbuf) (h0 : fd.size ≠ 0)
    (hsh : ∃ sh, fieldShape (s.o.fac.create d.mesgNum fd.num) fd = .ok sh) :
    decodeField d fd s =
      if fd.size ≤ s.rest.length then
        match fieldPure s.o.fac d fd (s.rest.take fd.size) with
        | .ok f => .ok (some f, fieldUpd s.o.fac d fd f (adv s fd.size))
        | .err e => .err e
        | .panic => .panic
        | .hang => .hang
      else .err .eof := by
  obtain ⟨⟨bt, isBoolF, arrayF, ov⟩, hshape⟩ := hsh
  unfold decodeField fieldPure readValue
  simp only [hshape, Bind.bind, Res.bind, h0, if_false, readN_adv _ s hsz]
  by_cases hl : fd.size ≤ s.rest.length
  · simp only [hl, if_true]
    cases unmarshal (List.take fd.size s.rest) d.arch (readShape fd.size bt isBoolF arrayF).1 (readShape fd.size bt isBoolF arrayF).2.1
        (if ov = true ∧ (readShape fd.size bt isBoolF arrayF).1 = btString then decide (strcount (List.take fd.size s.rest) > 1)
          else (readShape fd.size bt isBoolF arrayF).2.2) with
    | ok v => rfl
    | err => rfl
    | panic => rfl
  · simp only [hl, if_false]

/-- the value-level half of `decodeDeveloperFields` for one developer field with its description, given the bytes -/
def devPure (d : MesgDef) (dd : DevDef) (fdsc : Desc) (b : List Nat) : Res DDev := do
  let bsz := btSize fdsc.bt
  let arr ← (if dd.size > bsz then do let r ← modP dd.size bsz; pure (decide (r = 0)) else pure false : Res Bool)
  let rs := readShape dd.size fdsc.bt (decide (fdsc.bt &&& baseTypeNumMask = profileBool)) arr
  let isArray := if decide (fdsc.bt = btString) = true ∧ rs.1 = btString then decide (strcount b > 1) else rs.2.2
  let v ← (match unmarshal b d.arch rs.1 rs.2.1 isArray with
    | .ok v => pure v
    | .err => .err .other
    | .panic => .panic : Res Value)
  let v := if rs.1 ≠ fdsc.bt then convertBytesToValue (sliceUint8Of v) d.arch fdsc.bt else v
  pure ⟨dd.num, dd.idx, v⟩

/-- `decodeDevField` (valid base type in the description, non-zero size) = read `size` bytes, then a pure function -/
theorem decodeDevField_eq (d : MesgDef) (dd : DevDef) (fdsc : Desc) (s : St) (hsz : dd.size ≤ reservedbuf) (h0 : dd.size ≠ 0)
    (hv : btValid fdsc.bt = true) :
    decodeDevField d dd fdsc s =
      if dd.size ≤ s.rest.length then
        match devPure d dd fdsc (s.rest.take dd.size) with
        | .ok f => .ok (some f, adv s dd.size)
        | .err e => .err e
        | .panic => .panic
        | .hang => .hang
      else .err .eof := by
  have hp := btValid_pos hv
  have hv' : (!validBaseType fdsc.bt) = false := by simp [validBaseType, hv]
  unfold decodeDevField devPure readValue
  simp only [hv', Bool.false_eq_true, if_false, Bind.bind, Res.bind, h0, readN_adv _ s hsz, modP, hp, Pure.pure]
  by_cases hgt : dd.size > btSize fdsc.bt
  · simp only [hgt, if_true]
    by_cases hl : dd.size ≤ s.rest.length
    · simp only [hl, if_true]
      generalize unmarshal _ _ _ _ _ = u
      cases u <;> rfl
    · simp only [hl, if_false]
  · simp only [hgt, if_false]
    by_cases hl : dd.size ≤ s.rest.length
    · simp only [hl, if_true]
      generalize unmarshal _ _ _ _ _ = u
      cases u <;> rfl
    · simp only [hl, if_false]

theorem fieldShape_ok (info : FieldInfo) (fd : FieldDef) (h : btValid fd.bt = true) :
    ∃ sh, fieldShape info fd = .ok sh ∧ (sh.1 = info.bt ∧ info.known = true ∨ sh.1 = fd.bt) := by
  have hp := btValid_pos h
  unfold fieldShape
  by_cases hk : info.known = true
  · rw [if_pos hk]; exact ⟨_, rfl, Or.inl ⟨rfl, hk⟩⟩
  · rw [if_neg hk]
    simp only [Bind.bind, Res.bind, modP, hp, if_false, Pure.pure]
    by_cases hgt : fd.size > btSize fd.bt
    · simp only [hgt, if_true]; exact ⟨_, rfl, Or.inr rfl⟩
    · simp only [hgt, if_false]; exact ⟨_, rfl, Or.inr rfl⟩

theorem create_bt_valid (fac : Factory) (h : facBtOK fac = true) (m n : Nat) (hk : (fac.create m n).known = true) :
    btValid (fac.create m n).bt = true := by
  unfold Factory.create at hk ⊢
  cases hf : fac.find? (fun e => e.mesgNum == m && e.num == n) with
  | none => rw [hf] at hk; simp [FieldInfo.unknown] at hk
  | some e =>
    have hm := List.mem_of_find?_eq_some hf
    simp only [facBtOK, List.all_eq_true] at h
    exact h e hm

theorem readShape_valid (size bt : Nat) (isBool isArray : Bool) (h : btValid bt = true) :
    btValid (readShape size bt isBool isArray).1 = true := by
  unfold readShape; split
  · decide
  · exact h

theorem unmarshal_ok (b : List Nat) (arch bt : Nat) (isBool isArray : Bool) (hv : btValid bt = true)
    (hnp : isArray = true ∨ bt = btString ∨ btSize bt ≤ b.length) : ∃ v, unmarshal b arch bt isBool isArray = .ok v := by
  cases hu : unmarshal b arch bt isBool isArray with
  | ok v => exact ⟨v, rfl⟩
  | err => have := (Fit.C06.C06_unmarshal_err_iff b arch bt isBool isArray).mp hu; rw [hv] at this; cases this
  | panic => exact absurd hu (Fit.C06.C06_unmarshal_no_panic b arch bt isBool isArray hnp)

/-- with valid base types (definition and factory) the value-level half never fails -/
theorem fieldPure_ok (fac : Factory) (d : MesgDef) (fd : FieldDef) (b : List Nat) (hv : btValid fd.bt = true)
    (hfac : facBtOK fac = true) (hlen : b.length = fd.size) : ∃ f, fieldPure fac d fd b = .ok f := by
  obtain ⟨⟨bt, isBoolF, arrayF, ov⟩, hsh, hbt⟩ := fieldShape_ok (fac.create d.mesgNum fd.num) fd hv
  have hbtv : btValid bt = true := by
    rcases hbt with ⟨h1, h2⟩ | h1
    · simp only at h1; rw [h1]; exact create_bt_valid fac hfac _ _ h2
    · simp only at h1; rw [h1]; exact hv
  unfold fieldPure
  simp only [hsh, Bind.bind, Res.bind]
  have hnp := readShape_np fd.size bt isBoolF arrayF
  obtain ⟨v, hu⟩ := unmarshal_ok b d.arch (readShape fd.size bt isBoolF arrayF).1 (readShape fd.size bt isBoolF arrayF).2.1
    (if ov = true ∧ (readShape fd.size bt isBoolF arrayF).1 = btString then decide (strcount b > 1) else (readShape fd.size bt isBoolF arrayF).2.2)
    (readShape_valid _ _ _ _ hbtv) (by
      split
      · rename_i h; exact Or.inr (Or.inl h.2)
      · rcases hnp with h | h | h
        · exact Or.inl h
        · exact Or.inr (Or.inl h)
        · exact Or.inr (Or.inr (by omega)))
  rw [hu]
  exact ⟨_, rfl⟩

theorem devPure_ok (d : MesgDef) (dd : DevDef) (fdsc : Desc) (b : List Nat) (hv : btValid fdsc.bt = true)
    (hlen : b.length = dd.size) : ∃ f, devPure d dd fdsc b = .ok f := by
  have hp := btValid_pos hv
  unfold devPure
  simp only [Bind.bind, Res.bind, modP, hp, if_false, Pure.pure]
  have key : ∀ arr : Bool, ∃ v, unmarshal b d.arch
      (readShape dd.size fdsc.bt (decide (fdsc.bt &&& baseTypeNumMask = profileBool)) arr).1
      (readShape dd.size fdsc.bt (decide (fdsc.bt &&& baseTypeNumMask = profileBool)) arr).2.1
      (if decide (fdsc.bt = btString) = true ∧ (readShape dd.size fdsc.bt (decide (fdsc.bt &&& baseTypeNumMask = profileBool)) arr).1 = btString
        then decide (strcount b > 1) else (readShape dd.size fdsc.bt (decide (fdsc.bt &&& baseTypeNumMask = profileBool)) arr).2.2) = .ok v := by
    intro arr
    have hnp := readShape_np dd.size fdsc.bt (decide (fdsc.bt &&& baseTypeNumMask = profileBool)) arr
    apply unmarshal_ok _ _ _ _ _ (readShape_valid _ _ _ _ hv)
    split
    · rename_i h; exact Or.inr (Or.inl h.2)
    · rcases hnp with h | h | h
      · exact Or.inl h
      · exact Or.inr (Or.inl h)
      · exact Or.inr (Or.inr (by omega))
  by_cases hgt : dd.size > btSize fdsc.bt
  · simp only [hgt, if_true]
    obtain ⟨v, hu⟩ := key (decide (dd.size % btSize fdsc.bt = 0))
    rw [hu]; exact ⟨_, rfl⟩
  · simp only [hgt, if_false]
    obtain ⟨v, hu⟩ := key false
    rw [hu]; exact ⟨_, rfl⟩

/-! ### the shadow state of `apiOf`: what values depend on -/

/-- `t` agrees with `s` on everything the value-level functions read or write: options, look-ups, active timestamp,
accumulator, messages, file id (NOT: stream, byte counter, running checksum, file header, error) -/
def normDef (p : Nat × MesgDef) : Nat × MesgDef := (p.1, { p.2 with reserved := 0 })

/-- the look-ups of the reconstruction against the decoder's: the same but for the reserved byte of the definitions, which
(D) does not observe (and no value depends on) -/
structure LookSh (l l' : Look) : Prop where
  descs : l'.descs = l.descs
  devIdx : l'.devIdx = l.devIdx
  defs : l'.defs = l.defs.map normDef

structure Shadow (s t : St) : Prop where
  o : t.o = s.o
  look : LookSh s.look t.look
  ts : t.q.ts = s.q.ts
  lastOff : t.q.lastOff = s.q.lastOff
  acc : t.q.acc = s.q.acc
  msgs : t.q.msgs = s.q.msgs
  fileId : t.q.fileId = s.q.fileId


theorem Shadow.adv {s t : St} (h : Shadow s t) (k k' : Nat) : Shadow (adv s k) (adv t k') :=
  ⟨h.o, h.look, h.ts, h.lastOff, h.acc, h.msgs, h.fileId⟩

theorem Shadow.rest {s t : St} (h : Shadow s t) (b : List Nat) : Shadow s { t with rest := b } :=
  ⟨h.o, h.look, h.ts, h.lastOff, h.acc, h.msgs, h.fileId⟩

theorem Shadow.noteTs {s t : St} (h : Shadow s t) (n : Nat) (v : Value) : Shadow (noteTs n v s) (noteTs n v t) := by
  unfold DecApi.noteTs
  split
  · split
    · exact ⟨h.o, h.look, rfl, rfl, h.acc, h.msgs, h.fileId⟩
    · exact h
  · exact h

theorem Shadow.noteAcc {s t : St} (h : Shadow s t) (a : Bool) (m n : Nat) (v : Value) :
    Shadow (noteAcc a m n v s) (noteAcc a m n v t) := by
  unfold DecApi.noteAcc
  by_cases hc : a = true ∧ s.o.exp = true
  · have hc' : a = true ∧ t.o.exp = true := by rw [h.o]; exact hc
    rw [if_pos hc, if_pos hc']
    exact ⟨h.o, h.look, h.ts, h.lastOff, by simp only [h.acc], h.msgs, h.fileId⟩
  · have hc' : ¬ (a = true ∧ t.o.exp = true) := by rw [h.o]; exact hc
    rw [if_neg hc, if_neg hc']
    exact h

theorem Shadow.fieldUpd {s t : St} (h : Shadow s t) (fac : Factory) (d : MesgDef) (fd : FieldDef) (f : DField) :
    Shadow (fieldUpd fac d fd f s) (fieldUpd fac d fd f t) := (h.noteTs _ _).noteAcc _ _ _ _

theorem fieldUpd_quiet (fac : Factory) (d : MesgDef) (fd : FieldDef) (f : DField) (s : St) : Quiet s (fieldUpd fac d fd f s) :=
  (noteTs_quiet _ _ _).trans (noteAcc_quiet _ _ _ _ _)

/-- `s'` is `s` after reading: look-ups, options and everything value-level untouched -/
structure Quiet' (s s' : St) : Prop where
  o : s'.o = s.o
  look : s'.look = s.look
  ts : s'.q.ts = s.q.ts
  lastOff : s'.q.lastOff = s.q.lastOff
  acc : s'.q.acc = s.q.acc
  msgs : s'.q.msgs = s.q.msgs
  fileId : s'.q.fileId = s.q.fileId
  hdr : s'.q.hdr = s.q.hdr

theorem Quiet'.refl (s : St) : Quiet' s s := ⟨rfl, rfl, rfl, rfl, rfl, rfl, rfl, rfl⟩
theorem Quiet'.trans {a b c : St} (h1 : Quiet' a b) (h2 : Quiet' b c) : Quiet' a c :=
  ⟨h2.o.trans h1.o, h2.look.trans h1.look, h2.ts.trans h1.ts, h2.lastOff.trans h1.lastOff, h2.acc.trans h1.acc,
   h2.msgs.trans h1.msgs, h2.fileId.trans h1.fileId, h2.hdr.trans h1.hdr⟩
theorem Quiet'.adv (s : St) (k : Nat) : Quiet' s (adv s k) := ⟨rfl, rfl, rfl, rfl, rfl, rfl, rfl, rfl⟩
theorem Quiet'.shadow {s s' t : St} (hq : Quiet' s s') (h : Shadow s t) : Shadow s' t :=
  ⟨h.o.trans hq.o.symm, hq.look ▸ h.look, h.ts.trans hq.ts.symm, h.lastOff.trans hq.lastOff.symm,
   h.acc.trans hq.acc.symm, h.msgs.trans hq.msgs.symm, h.fileId.trans hq.fileId.symm⟩

/-! ### (C)'s state against (D)'s -/

def tripF (fd : FieldDef) : DecProg.Triplet := (fd.num, fd.size, fd.bt)
def tripD (dd : DevDef) : DecProg.Triplet := (dd.num, dd.size, dd.idx)
def defD (d : MesgDef) : DecProg.Def := ⟨d.arch, d.mesgNum, d.fields.map tripF, d.devs.map tripD⟩
def descD (x : Desc) : DecProg.Triplet := (x.ddi, x.fdn, x.bt)

/-- byte counter and running checksum agree; the byte counter cannot wrap before the stream ends -/
structure CD (chk : Bool) (s : St) (st : DecProg.St) : Prop where
  chk : s.o.chk = chk
  cur : st.cur = s.q.cur
  crc : st.crc = s.q.crc16
  small : s.q.cur + s.rest.length < 4294967296
  bytes : IsBytes s.rest

theorem CD.of_quiet {chk : Bool} {s s' : St} {st : DecProg.St} (hq : Quiet s s') (h : CD chk s st) : CD chk s' st := by
  obtain ⟨h1, h2, _, h4, h5, _⟩ := hq
  exact ⟨by rw [h1]; exact h.chk, by rw [h4]; exact h.cur, by rw [h5]; exact h.crc, by rw [h4, h2]; exact h.small,
    by rw [h2]; exact h.bytes⟩

/-- error classes of (C) as (D) names them (`ctx`, `other` have no counterpart: never met on the common domain) -/
def errD : Err → DecProg.Err
  | .eof => .io .eof
  | .notFit => .notFit
  | .crc => .crc
  | .defMissing => .defMissing
  | .baseType => .invalidBaseType
  | .ctx => .io .eof
  | .other => .io .eof

theorem CD.adv {chk : Bool} {s : St} {st : DecProg.St} (h : CD chk s st) (k : Nat) (hl : k ≤ s.rest.length) :
    CD chk (adv s k) { st with cur := st.cur + k, crc := if chk = true then write st.crc (s.rest.take k) else st.crc } := by
  have hsm := h.small
  refine ⟨h.chk, ?_, ?_, ?_, ?_⟩
  · simp only [Link.adv]; rw [h.cur, Nat.mod_eq_of_lt (by omega)]
  · simp only [Link.adv, h.chk, h.crc]
  · simp only [Link.adv, List.length_drop]; rw [Nat.mod_eq_of_lt (by omega)]; omega
  · exact IsBytes.drop' h.bytes _

/-- the observable does not tell the two end-of-stream errors apart, and looks at the events only -/
def EofBlind {β : Type} (obs : DecProg.Out → β) : Prop :=
  ∀ (st st' : DecProg.St) (e e' : ReadBuffer.RErr), st'.evs = st.evs →
    obs (DecProg.fail st' (.io e)) = obs (DecProg.fail st (.io e'))

/-- what (D) collects for a field list: one entry per field of non-zero size, under its number, of that many bytes -/
inductive Aligned : List FieldDef → List (Nat × List Nat) → Prop
  | nil : Aligned [] []
  | skip (fd : FieldDef) (fds : List FieldDef) (new : List (Nat × List Nat)) : fd.size = 0 → Aligned fds new → Aligned (fd :: fds) new
  | take (fd : FieldDef) (fds : List FieldDef) (b : List Nat) (new : List (Nat × List Nat)) :
      fd.size ≠ 0 → b.length = fd.size → IsBytes b → Aligned fds new → Aligned (fd :: fds) ((fd.num, b) :: new)

theorem decodeField_zero (d : MesgDef) (fd : FieldDef) (s : St) (h0 : fd.size = 0)
    (hsh : ∃ sh, fieldShape (s.o.fac.create d.mesgNum fd.num) fd = .ok sh) : decodeField d fd s = .ok (none, s) := by
  obtain ⟨⟨bt, isBoolF, arrayF, ov⟩, hshape⟩ := hsh
  unfold decodeField
  simp only [hshape, Bind.bind, Res.bind, h0, if_true, Pure.pure]

open Fit.ReadBuffer in
/-- `decodeFields` of (C), `fields` of (D) on the exact-n reader, and `iFields` of `apiOf` on the bytes (D) collects -/
theorem fields_link {β : Type} (obs : DecProg.Out → β) (hobs : EofBlind obs) (chk : Bool) (d : MesgDef) :
    ∀ (fds : List FieldDef) (pre : List DField) (s : St) (st : DecProg.St) (accD : List (Nat × Bytes))
      (k : DecProg.St → List (Nat × Bytes) → DecProg.P) (R : β),
    CD chk s st → (∀ f ∈ fds, btValid f.bt = true ∧ f.size < 256) → facBtOK s.o.fac = true →
    (match decodeFields d fds pre s with
      | .ok (fs, s') => ∀ st' new, Same st st' → CD chk s' st' → Aligned fds new →
          (∀ t, Shadow s t → ∃ t', iFields d fds new pre t = .ok (fs, t') ∧ Shadow s' t') →
          obs (runExact (k st' (accD ++ new)) s'.rest) = R
      | .err e => errC (errD e) = e → R = obs (DecProg.fail st (errD e))
      | .panic => True
      | .hang => True) →
    obs (runExact (DecProg.fields chk (fds.map tripF) st accD k) s.rest) = R := by
  intro fds
  induction fds with
  | nil =>
    intro pre s st accD k R hcd _ _ h
    simp only [decodeFields] at h
    have := h st [] (Same.refl _) hcd Aligned.nil (fun t ht => ⟨t, rfl, ht⟩)
    simpa [DecProg.fields] using this
  | cons fd fds ih =>
    intro pre s st accD k R hcd hfds hfac h
    have hfd := hfds fd (by simp)
    have hfds' : ∀ f ∈ fds, btValid f.bt = true ∧ f.size < 256 := fun f hf => hfds f (by simp [hf])
    obtain ⟨sh, hsh, _⟩ := fieldShape_ok (s.o.fac.create d.mesgNum fd.num) fd hfd.1
    simp only [List.map_cons, tripF, DecProg.fields]
    unfold decodeFields at h
    by_cases h0 : fd.size = 0
    · simp only [h0, if_true]
      rw [decodeField_zero d fd s h0 ⟨sh, hsh⟩] at h
      simp only [Bind.bind, Res.bind] at h
      apply ih pre s st accD k R hcd hfds' hfac
      cases hd : decodeFields d fds pre s with
      | err e => rw [hd] at h; exact h
      | panic => trivial
      | hang => trivial
      | ok p =>
        obtain ⟨fs, s'⟩ := p
        rw [hd] at h
        simp only at h ⊢
        intro st' new hs hcd' hal hshadow
        apply h st' new hs hcd' (Aligned.skip fd fds new h0 hal)
        intro t ht
        obtain ⟨t', h1, h2⟩ := hshadow { t with rest := [] } (ht.rest [])
        refine ⟨t', ?_, h2⟩
        unfold iFields
        simp only [h0, if_true]
        rw [decodeField_zero d fd _ h0 (by
          show ∃ sh, fieldShape (t.o.fac.create d.mesgNum fd.num) fd = .ok sh
          rw [ht.o]; exact ⟨sh, hsh⟩)]
        exact h1
    · simp only [h0, if_false]
      have hszr : fd.size ≤ reservedbuf := by have := hfd.2; simp [reservedbuf]; omega
      rw [decodeField_eq d fd s hszr h0 ⟨sh, hsh⟩] at h
      unfold DecProg.rdN
      by_cases hl : fd.size ≤ s.rest.length
      · rw [runExact_read_ok _ _ _ hl]
        simp only [hl, if_true] at h
        obtain ⟨f, hf⟩ := fieldPure_ok s.o.fac d fd (s.rest.take fd.size) hfd.1 hfac (by simp; omega)
        rw [hf] at h
        simp only [Bind.bind, Res.bind] at h
        have hq := fieldUpd_quiet s.o.fac d fd f (adv s fd.size)
        have hcd1 : CD chk (fieldUpd s.o.fac d fd f (adv s fd.size))
            { st with cur := st.cur + fd.size, crc := if chk = true then write st.crc (s.rest.take fd.size) else st.crc } := by
          apply CD.of_quiet hq
          have hsm := hcd.small
          refine ⟨hcd.chk, ?_, ?_, ?_, ?_⟩
          · simp only [adv]; rw [hcd.cur, Nat.mod_eq_of_lt (by omega)]
          · simp only [adv, hcd.chk, hcd.crc]
          · simp only [adv, List.length_drop]; rw [Nat.mod_eq_of_lt (by omega)]; omega
          · exact IsBytes.drop' hcd.bytes _
        have hrest : (fieldUpd s.o.fac d fd f (adv s fd.size)).rest = s.rest.drop fd.size := hq.2.1
        have hfac1 : facBtOK (fieldUpd s.o.fac d fd f (adv s fd.size)).o.fac = true := by rw [hq.1]; exact hfac
        rw [← hrest]
        apply ih (pre ++ [f]) _ _ (accD ++ [(fd.num, s.rest.take fd.size)]) k R hcd1 hfds' hfac1
        cases hd : decodeFields d fds (pre ++ [f]) (fieldUpd s.o.fac d fd f (adv s fd.size)) with
        | err e => rw [hd] at h; exact h
        | panic => trivial
        | hang => trivial
        | ok p =>
          obtain ⟨fs, s'⟩ := p
          rw [hd] at h
          simp only at h ⊢
          intro st' new hs hcd' hal hshadow
          have := h st' ((fd.num, s.rest.take fd.size) :: new) ⟨hs.evs, hs.defs, hs.descs, hs.msgs⟩ hcd'
            (Aligned.take fd fds _ new h0 (by simp; omega) (IsBytes.take' hcd.bytes _) hal) (by
            intro t ht
            have hb : ({ t with rest := s.rest.take fd.size } : St).rest.length = fd.size := by simp; omega
            obtain ⟨t', h1, h2⟩ := hshadow (fieldUpd s.o.fac d fd f (adv { t with rest := s.rest.take fd.size } fd.size))
              ((ht.rest _).adv _ _ |>.fieldUpd _ _ _ _)
            refine ⟨t', ?_, h2⟩
            unfold iFields
            simp only [h0, if_false, List.head?_cons, Option.map_some, Option.getD_some, List.tail_cons]
            rw [decodeField_eq d fd _ hszr h0 (by
              show ∃ sh, fieldShape (t.o.fac.create d.mesgNum fd.num) fd = .ok sh
              rw [ht.o]; exact ⟨sh, hsh⟩)]
            simp only [hb, Nat.le_refl, if_true]
            have htk : List.take fd.size (List.take fd.size s.rest) = List.take fd.size s.rest := by
              rw [List.take_take, Nat.min_self]
            simp only [htk, ht.o, hf] at h1 ⊢
            exact h1)
          simpa [List.append_assoc] using this
      · rw [runExact_read_short _ _ _ (by omega)]
        simp only [hl, if_false] at h
        rw [h rfl]
        simp only [runExact]
        exact hobs _ _ _ _ rfl

theorem validBaseType_eq (b : Nat) : DecProg.validBaseType b = btValid b := by
  by_cases h : b < 256
  · have : ∀ b, b < 256 → DecProg.validBaseType b = btValid b := by decide +kernel
    exact this b h
  · have h1 : DecProg.validBaseType b = false := by
      simp only [DecProg.validBaseType, Fit.Gen.Integ.validBaseTypes, List.contains_eq_mem, List.mem_cons, List.not_mem_nil,
        or_false, decide_eq_false_iff_not]
      omega
    have hl : baseTypeSizes.length = 256 := by decide +kernel
    have h2 : btValid b = false := by
      unfold btValid btSize
      rw [List.getD_eq_getElem?_getD, List.getElem?_eq_none (by omega)]; rfl
    rw [h1, h2]

theorem decodeDevField_zero (d : MesgDef) (dd : DevDef) (fdsc : Desc) (s : St) (h0 : dd.size = 0)
    (hv : btValid fdsc.bt = true) : decodeDevField d dd fdsc s = .ok (none, s) := by
  have hv' : (!validBaseType fdsc.bt) = false := by simp [validBaseType, hv]
  unfold decodeDevField
  simp only [hv', Bool.false_eq_true, if_false, h0, Nat.not_lt_zero, gt_iff_lt, Bind.bind, Res.bind, Pure.pure, if_true]

theorem find_descs (descs : List Desc) (ddi num : Nat) :
    (descs.map descD).find? (fun d => decide (d.1 = ddi ∧ d.2.1 = num)) =
      (descs.find? (fun f => f.ddi == ddi && f.fdn == num)).map descD := by
  rw [List.find?_map]
  congr 1
  apply congrArg (fun p => List.find? p descs)
  funext x
  simp only [descD, Function.comp]
  rw [Bool.eq_iff_iff]; simp only [Bool.and_eq_true, beq_iff_eq]
  exact decide_eq_true_iff

open Fit.ReadBuffer in
/-- `decodeDevFields` of (C), `devFields` of (D) on the exact-n reader, `iDevs` of `apiOf` on what (D) collects -/
theorem devs_link {β : Type} (obs : DecProg.Out → β) (hobs : EofBlind obs) (chk : Bool) (d : MesgDef) :
    ∀ (dds : List DevDef) (accC : List DDev) (s : St) (st : DecProg.St) (accD : List (Nat × Nat × Bytes))
      (k : DecProg.St → List (Nat × Nat × Bytes) → DecProg.P) (R : β),
    CD chk s st → (∀ f ∈ dds, f.size < 256) →
    (match decodeDevFields d dds accC s with
      | .ok (dv, s') => ∀ st' new, Same st st' → CD chk s' st' → Quiet' s s' →
          (∀ t, Shadow s t → ∃ t', iDevs d new accC t = .ok (dv, t') ∧ Shadow s' t') →
          obs (runExact (k st' (accD ++ new)) s'.rest) = R
      | .err e => errC (errD e) = e → R = obs (DecProg.fail st (errD e))
      | .panic => True
      | .hang => True) →
    obs (runExact (DecProg.devFields chk (s.look.descs.map descD) (dds.map tripD) st accD k) s.rest) = R := by
  intro dds
  induction dds with
  | nil =>
    intro accC s st accD k R hcd _ h
    simp only [decodeDevFields] at h
    have := h st [] (Same.refl _) hcd (Quiet'.refl s) (fun t ht => ⟨t, rfl, ht⟩)
    simpa [DecProg.devFields] using this
  | cons dd dds ih =>
    intro accC s st accD k R hcd hdds h
    have hdd := hdds dd (by simp)
    have hdds' : ∀ f ∈ dds, f.size < 256 := fun f hf => hdds f (by simp [hf])
    have hszr : dd.size ≤ reservedbuf := by simp [reservedbuf]; omega
    simp only [List.map_cons, tripD, DecProg.devFields]
    unfold decodeDevFields at h
    rw [find_descs]
    -- the state after reading `dd.size` bytes
    have hcd1 : dd.size ≤ s.rest.length → CD chk (adv s dd.size)
        { st with cur := st.cur + dd.size, crc := if chk = true then write st.crc (s.rest.take dd.size) else st.crc } := by
      intro hl
      have hsm := hcd.small
      refine ⟨hcd.chk, ?_, ?_, ?_, ?_⟩
      · simp only [adv]; rw [hcd.cur, Nat.mod_eq_of_lt (by omega)]
      · simp only [adv, hcd.chk, hcd.crc]
      · simp only [adv, List.length_drop]; rw [Nat.mod_eq_of_lt (by omega)]; omega
      · exact IsBytes.drop' hcd.bytes _
    cases hfd : s.look.descs.find? (fun f => f.ddi == dd.idx && f.fdn == dd.num) with
    | none =>
      rw [hfd] at h
      simp only [Option.map_none] at h ⊢
      rw [readN_adv _ s hszr] at h
      unfold DecProg.rdN
      by_cases hl : dd.size ≤ s.rest.length
      · rw [runExact_read_ok _ _ _ hl]
        simp only [hl, if_true, Bind.bind, Res.bind] at h
        have := ih accC (adv s dd.size) _ accD k R (hcd1 hl) hdds'
        apply this
        cases hd : decodeDevFields d dds accC (adv s dd.size) with
        | err e => rw [hd] at h; exact h
        | panic => trivial
        | hang => trivial
        | ok p =>
          obtain ⟨dv, s'⟩ := p
          rw [hd] at h
          simp only at h ⊢
          intro st' new hs hcd' hq hshadow
          apply h st' new ⟨hs.evs, hs.defs, hs.descs, hs.msgs⟩ hcd' (Quiet'.trans (Quiet'.adv s dd.size) hq)
          intro t ht
          exact hshadow t ((Quiet'.adv s dd.size).shadow ht)
      · rw [runExact_read_short _ _ _ (by omega)]
        simp only [hl, if_false, Bind.bind, Res.bind] at h
        rw [h rfl]; simp only [runExact]; exact hobs _ _ _ _ rfl
    | some fdsc =>
      rw [hfd] at h
      simp only [Option.map_some, descD] at h ⊢
      rw [validBaseType_eq]
      by_cases hv : btValid fdsc.bt = true
      · simp only [hv, Bool.not_true, Bool.false_eq_true, if_false]
        by_cases h0 : dd.size = 0
        · simp only [h0, if_true]
          rw [decodeDevField_zero d dd fdsc s h0 hv] at h
          simp only [Bind.bind, Res.bind] at h
          apply ih accC s st accD k R hcd hdds'
          cases hd : decodeDevFields d dds accC s with
          | err e => rw [hd] at h; exact h
          | panic => trivial
          | hang => trivial
          | ok p =>
            obtain ⟨dv, s'⟩ := p
            rw [hd] at h
            simp only at h ⊢
            exact h
        · simp only [h0, if_false]
          rw [decodeDevField_eq d dd fdsc s hszr h0 hv] at h
          unfold DecProg.rdN
          by_cases hl : dd.size ≤ s.rest.length
          · rw [runExact_read_ok _ _ _ hl]
            simp only [hl, if_true] at h
            have hblen : (s.rest.take dd.size).length = dd.size := by simp; omega
            obtain ⟨f, hf⟩ := devPure_ok d dd fdsc (s.rest.take dd.size) hv hblen
            rw [hf] at h
            simp only [Bind.bind, Res.bind] at h
            apply ih (accC ++ [f]) (adv s dd.size) _ (accD ++ [(dd.num, dd.idx, s.rest.take dd.size)]) k R (hcd1 hl) hdds'
            cases hd : decodeDevFields d dds (accC ++ [f]) (adv s dd.size) with
            | err e => rw [hd] at h; exact h
            | panic => trivial
            | hang => trivial
            | ok p =>
              obtain ⟨dv, s'⟩ := p
              rw [hd] at h
              simp only at h ⊢
              intro st' new hs hcd' hq hshadow
              have := h st' ((dd.num, dd.idx, s.rest.take dd.size) :: new) ⟨hs.evs, hs.defs, hs.descs, hs.msgs⟩ hcd'
                (Quiet'.trans (Quiet'.adv s dd.size) hq) (by
                intro t ht
                obtain ⟨t', h1, h2⟩ := hshadow (adv { t with rest := s.rest.take dd.size } dd.size) ((ht.rest _).adv _ _)
                refine ⟨t', ?_, h2⟩
                unfold iDevs
                have hdd : (⟨dd.num, (s.rest.take dd.size).length, dd.idx⟩ : DevDef) = dd := by
                  cases dd; simp only [hblen]
                simp only [ht.look.descs, hfd, hdd]
                rw [decodeDevField_eq d dd fdsc _ hszr h0 hv]
                have htk : List.take dd.size (List.take dd.size s.rest) = List.take dd.size s.rest := by
                  rw [List.take_take, Nat.min_self]
                simp only [hblen, Nat.le_refl, if_true, htk, hf]
                exact h1)
              simpa [List.append_assoc] using this
          · rw [runExact_read_short _ _ _ (by omega)]
            simp only [hl, if_false] at h
            rw [h rfl]; simp only [runExact]; exact hobs _ _ _ _ rfl
      · have hv' : (!validBaseType fdsc.bt) = true := by simp [validBaseType, hv]
        have hv2 : btValid fdsc.bt = false := by simpa using hv
        simp only [hv2, Bool.not_false, if_true, runExact]
        unfold decodeDevField at h
        simp only [hv', if_true, Bind.bind, Res.bind] at h
        rw [h rfl]; rfl

end Fit.Link
