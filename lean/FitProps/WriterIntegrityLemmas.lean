import FitProps.WriterOutcomeLemmas
import FitProps.C04
import FitProps.WriterStreamLemmas
/-!
Helper lemmas about the writer model, part 6: what `CheckIntegrity` (model of C04) says about the destination
contents an encode can leave behind (`Reach`): with a placeholder header of data size 0, nothing but a chain of
completed sequences is accepted.
-/
namespace Fit.Writer
open Fit.Wire Fit.Crc Fit.Integrity

/-- accepted by the integrity check as a complete stream -/
def Acc (c : Bytes) : Prop := ∃ n, checkIntegrity c = .ok n

theorem acc_header {x : Bytes} (h : Acc x) : ∃ hd rest, decodeFileHeader true x = .ok (hd, rest) := by
  obtain ⟨n, hn⟩ := h
  unfold checkIntegrity checkLoop at hn
  cases hd : decodeFileHeader true x with
  | error e => simp [hd] at hn
  | ok p => exact ⟨p.1, p.2, rfl⟩

theorem acc_append_iff (base x : Bytes) (hb : Acc base) (hx : x ≠ []) : Acc (base ++ x) ↔ Acc x := by
  obtain ⟨n, hn⟩ := hb
  unfold Acc
  rw [Fit.C04.C04_append base x n hn hx]
  cases checkIntegrity x with
  | ok k => simp [bump]
  | err e k => simp [bump]

theorem acc_append {a b : Bytes} (ha : a = [] ∨ Acc a) (hb : Acc b) : Acc (a ++ b) := by
  rcases ha with rfl | ha
  · simpa using hb
  · have hne : b ≠ [] := by
      intro h; subst h
      obtain ⟨n, hn⟩ := hb
      simp [checkIntegrity, checkLoop, decodeFileHeader] at hn
    exact (acc_append_iff a b ha hne).mpr hb

/-! ### the 14-byte header, byte by byte -/

def H12 (pv prof ds : Nat) : Bytes :=
  [14, pv, prof % 256, prof / 256 % 256, ds % 256, ds / 256 % 256, ds / 65536 % 256, ds / 16777216 % 256, 0x2E, 0x46, 0x49, 0x54]

/-- the header CRC of a 14-byte header with data size `ds` -/
def HK (pv prof ds : Nat) : Nat := crcSpec 0 (H12 pv prof ds)

theorem H12_bytes (pv prof ds : Nat) (hpv : pv < 256) : Fit.Crc.Bytes (H12 pv prof ds) := by
  intro b hb
  simp only [H12, List.mem_cons, List.not_mem_nil, or_false] at hb
  rcases hb with rfl | rfl | rfl | rfl | rfl | rfl | rfl | rfl | rfl | rfl | rfl | rfl <;> omega

theorem HK_lt (pv prof ds : Nat) (hpv : pv < 256) : HK pv prof ds < 65536 :=
  crcSpec_lt _ (H12_bytes pv prof ds hpv) 0 (by decide)

theorem hdrBytes14 (pv prof ds : Nat) (hpv : pv < 256) :
    hdrBytes ⟨14, pv, prof⟩ ds = H12 pv prof ds ++ [HK pv prof ds % 256, HK pv prof ds / 256 % 256] := by
  have hw : write 0 (H12 pv prof ds) = HK pv prof ds := Fit.C18.C18_write_eq_spec _ (H12_bytes pv prof ds hpv) 0 (by decide)
  unfold hdrBytes
  simp only [if_true, Wire.le16, Wire.le32]
  show H12 pv prof ds ++ [write 0 (H12 pv prof ds) % 256, write 0 (H12 pv prof ds) / 256 % 256] = _
  rw [hw]

/-- a data size below 2^16 other than 0 gives a header CRC different from the placeholder's (a 16-bit burst) -/
theorem HK_ne_of_small (pv prof v : Nat) (h0 : 0 < v) (hv : v < 65536) : HK pv prof v ≠ HK pv prof 0 := by
  have he : Fit.Crc.Bytes [0, 0, 0, 0, v % 256, v / 256 % 256, 0, 0, 0, 0, 0, 0] := by
    intro b hb
    simp only [List.mem_cons, List.not_mem_nil, or_false] at hb
    rcases hb with rfl | rfl | rfl | rfl | rfl | rfl | rfl | rfl | rfl | rfl | rfl | rfl <;> omega
  have hburst : BurstWithin16 [0, 0, 0, 0, v % 256, v / 256 % 256, 0, 0, 0, 0, 0, 0] := by
    refine ⟨32, v, ?_, h0, hv⟩
    simp only [leVal]
    omega
  have := burst_detected (H12 pv prof 0) _ he rfl hburst 0
  have hx : xorL (H12 pv prof 0) [0, 0, 0, 0, v % 256, v / 256 % 256, 0, 0, 0, 0, 0, 0] = H12 pv prof v := by
    have h3 : v / 65536 % 256 = 0 := by omega
    have h4 : v / 16777216 % 256 = 0 := by omega
    simp [xorL, H12, h3, h4]
  rw [hx] at this
  exact this

theorem mix_eq (pv prof D t : Nat) (hpv : pv < 256) (ht : t ≤ 14) :
    (hdrBytes ⟨14, pv, prof⟩ D).take t ++ (hdrBytes ⟨14, pv, prof⟩ 0).drop t =
    [14, pv, prof % 256, prof / 256 % 256,
      (if 4 < t then D % 256 else 0), (if 5 < t then D / 256 % 256 else 0),
      (if 6 < t then D / 65536 % 256 else 0), (if 7 < t then D / 16777216 % 256 else 0),
      0x2E, 0x46, 0x49, 0x54,
      (if 12 < t then HK pv prof D % 256 else HK pv prof 0 % 256),
      (if 13 < t then HK pv prof D / 256 % 256 else HK pv prof 0 / 256 % 256)] := by
  rw [hdrBytes14 _ _ _ hpv, hdrBytes14 _ _ _ hpv]
  unfold H12
  have : t = 0 ∨ t = 1 ∨ t = 2 ∨ t = 3 ∨ t = 4 ∨ t = 5 ∨ t = 6 ∨ t = 7 ∨ t = 8 ∨ t = 9 ∨ t = 10 ∨ t = 11 ∨ t = 12 ∨
      t = 13 ∨ t = 14 := by omega
  rcases this with rfl | rfl | rfl | rfl | rfl | rfl | rfl | rfl | rfl | rfl | rfl | rfl | rfl | rfl | rfl <;> simp

/-- a header `[14, pv, p0, p1, e0..e3, .FIT, c0, c1]` whose CRC field is non-zero is accepted by the decoder only with a
non-zero data size and the CRC of its first twelve bytes in the field -/
theorem header_ok_facts (pv p0 p1 e0 e1 e2 e3 c0 c1 : Nat) (tail : Bytes) (hd : Integrity.Hdr) (rest : Bytes)
    (hb : Fit.Crc.Bytes [14, pv, p0, p1, e0, e1, e2, e3, 0x2E, 0x46, 0x49, 0x54]) (hc : c0 + 256 * c1 ≠ 0)
    (h : decodeFileHeader true (14 :: pv :: p0 :: p1 :: e0 :: e1 :: e2 :: e3 :: 0x2E :: 0x46 :: 0x49 :: 0x54 :: c0 :: c1 :: tail) = .ok (hd, rest)) :
    e0 + 256 * e1 + 65536 * e2 + 16777216 * e3 ≠ 0 ∧
    crcSpec 0 [14, pv, p0, p1, e0, e1, e2, e3, 0x2E, 0x46, 0x49, 0x54] = c0 + 256 * c1 := by
  rw [header14_eval pv p0 p1 e0 e1 e2 e3 c0 c1 tail hb] at h
  by_cases h1 : e0 + 256 * e1 + 65536 * e2 + 16777216 * e3 = 0
  · rw [if_pos h1] at h; cases h
  · rw [if_neg h1, if_neg hc] at h
    by_cases h2 : crcSpec 0 [14, pv, p0, p1, e0, e1, e2, e3, 0x2E, 0x46, 0x49, 0x54] ≠ c0 + 256 * c1
    · rw [if_pos h2] at h; cases h
    · exact ⟨h1, by simpa using h2⟩

/-- DURING THE HEADER REWRITE: if the integrity check's header step accepts the mixed header, the mixed header already
IS the new header (placeholder data size 0, records below 2^24 bytes, high byte of the placeholder's CRC non-zero) -/
theorem rewrite_header_acc (pv prof D t : Nat) (tail : Bytes) (hpv : pv < 256) (hD : D < 16777216) (ht : t ≤ 14)
    (hk : HK pv prof 0 / 256 % 256 ≠ 0)
    (hacc : ∃ hd rest, decodeFileHeader true
      (((hdrBytes ⟨14, pv, prof⟩ D).take t ++ (hdrBytes ⟨14, pv, prof⟩ 0).drop t) ++ tail) = .ok (hd, rest)) :
    (hdrBytes ⟨14, pv, prof⟩ D).take t ++ (hdrBytes ⟨14, pv, prof⟩ 0).drop t = hdrBytes ⟨14, pv, prof⟩ D := by
  by_cases h14 : t = 14
  · subst h14
    have hl : (hdrBytes ⟨14, pv, prof⟩ D).length = 14 := by rw [hdrBytes_length]; rfl
    have hl0 : (hdrBytes ⟨14, pv, prof⟩ 0).length = 14 := by rw [hdrBytes_length]; rfl
    rw [List.take_of_length_le (by omega), List.drop_eq_nil_of_le (by omega), List.append_nil]
  · obtain ⟨hd, rest, hdec⟩ := hacc
    have hK0 := HK_lt pv prof 0 hpv
    have hK1 := HK_lt pv prof D hpv
    rw [mix_eq pv prof D t hpv ht] at hdec ⊢
    rw [hdrBytes14 pv prof D hpv]
    simp only [List.cons_append, List.nil_append] at hdec
    have hbytes : Fit.Crc.Bytes [14, pv, prof % 256, prof / 256 % 256,
        (if 4 < t then D % 256 else 0), (if 5 < t then D / 256 % 256 else 0),
        (if 6 < t then D / 65536 % 256 else 0), (if 7 < t then D / 16777216 % 256 else 0), 0x2E, 0x46, 0x49, 0x54] := by
      intro b hb
      simp only [List.mem_cons, List.not_mem_nil, or_false] at hb
      rcases hb with rfl | rfl | rfl | rfl | rfl | rfl | rfl | rfl | rfl | rfl | rfl | rfl <;> (try split) <;> omega
    have hcne : (if 12 < t then HK pv prof D % 256 else HK pv prof 0 % 256) +
        256 * (if 13 < t then HK pv prof D / 256 % 256 else HK pv prof 0 / 256 % 256) ≠ 0 := by
      have h13 : ¬ 13 < t := by omega
      rw [if_neg h13]
      split <;> omega
    obtain ⟨f1, f2⟩ := header_ok_facts _ _ _ _ _ _ _ _ _ _ hd rest hbytes hcne hdec
    -- the twelve bytes are the header bytes of the data size they spell
    have hspell : ∀ v, v < 4294967296 →
        [14, pv, prof % 256, prof / 256 % 256, v % 256, v / 256 % 256, v / 65536 % 256, v / 16777216 % 256, 0x2E, 0x46, 0x49, 0x54] =
        H12 pv prof v := fun v _ => rfl
    by_cases ht4 : t ≤ 4
    · exfalso; apply f1
      rw [if_neg (by omega), if_neg (by omega), if_neg (by omega), if_neg (by omega)]
    · by_cases ht13 : t = 13
      · subst ht13
        simp only [show (4 < 13) = True by simp, show (5 < 13) = True by simp, show (6 < 13) = True by simp,
          show (7 < 13) = True by simp, show (12 < 13) = True by simp, show (13 < 13) = False by simp, if_true, if_false] at f2 ⊢
        have hh : HK pv prof D = HK pv prof D % 256 + 256 * (HK pv prof 0 / 256 % 256) := f2
        have : HK pv prof D / 256 % 256 = HK pv prof 0 / 256 % 256 := by omega
        simp [H12, this]
      · -- 5 ≤ t ≤ 12: the CRC field still holds the placeholder's CRC
        have hc0 : (if 12 < t then HK pv prof D % 256 else HK pv prof 0 % 256) = HK pv prof 0 % 256 := if_neg (by omega)
        have hc1 : (if 13 < t then HK pv prof D / 256 % 256 else HK pv prof 0 / 256 % 256) = HK pv prof 0 / 256 % 256 := if_neg (by omega)
        rw [hc0, hc1] at f2 ⊢
        have hK0eq : HK pv prof 0 % 256 + 256 * (HK pv prof 0 / 256 % 256) = HK pv prof 0 := by omega
        rw [hK0eq] at f2
        -- the data size the first t bytes spell
        let v := (if 4 < t then D % 256 else 0) + 256 * (if 5 < t then D / 256 % 256 else 0) +
          65536 * (if 6 < t then D / 65536 % 256 else 0) + 16777216 * (if 7 < t then D / 16777216 % 256 else 0)
        have hv0 : v ≠ 0 := f1
        have hvb : v < 4294967296 := by
          show (if 4 < t then D % 256 else 0) + 256 * (if 5 < t then D / 256 % 256 else 0) +
            65536 * (if 6 < t then D / 65536 % 256 else 0) + 16777216 * (if 7 < t then D / 16777216 % 256 else 0) < 4294967296
          split <;> split <;> split <;> split <;> omega
        have hvK : HK pv prof v = HK pv prof 0 := by
          have e0 : v % 256 = (if 4 < t then D % 256 else 0) := by
            show ((if 4 < t then D % 256 else 0) + 256 * (if 5 < t then D / 256 % 256 else 0) +
              65536 * (if 6 < t then D / 65536 % 256 else 0) + 16777216 * (if 7 < t then D / 16777216 % 256 else 0)) % 256 = _
            split <;> split <;> split <;> split <;> omega
          have e1 : v / 256 % 256 = (if 5 < t then D / 256 % 256 else 0) := by
            show ((if 4 < t then D % 256 else 0) + 256 * (if 5 < t then D / 256 % 256 else 0) +
              65536 * (if 6 < t then D / 65536 % 256 else 0) + 16777216 * (if 7 < t then D / 16777216 % 256 else 0)) / 256 % 256 = _
            split <;> split <;> split <;> split <;> omega
          have e2 : v / 65536 % 256 = (if 6 < t then D / 65536 % 256 else 0) := by
            show ((if 4 < t then D % 256 else 0) + 256 * (if 5 < t then D / 256 % 256 else 0) +
              65536 * (if 6 < t then D / 65536 % 256 else 0) + 16777216 * (if 7 < t then D / 16777216 % 256 else 0)) / 65536 % 256 = _
            split <;> split <;> split <;> split <;> omega
          have e3 : v / 16777216 % 256 = (if 7 < t then D / 16777216 % 256 else 0) := by
            show ((if 4 < t then D % 256 else 0) + 256 * (if 5 < t then D / 256 % 256 else 0) +
              65536 * (if 6 < t then D / 65536 % 256 else 0) + 16777216 * (if 7 < t then D / 16777216 % 256 else 0)) / 16777216 % 256 = _
            split <;> split <;> split <;> split <;> omega
          rw [← f2]; unfold HK H12
          rw [e0, e1, e2, e3]
        have hvbig : 65536 ≤ v := by
          apply Nat.le_of_not_lt; intro hlt
          exact HK_ne_of_small pv prof v (Nat.pos_of_ne_zero hv0) hlt hvK
        -- so at least three bytes have been replaced and v = D
        have ht7 : 6 < t := by
          apply Nat.lt_of_not_le; intro hle
          have : v < 65536 := by
            show (if 4 < t then D % 256 else 0) + 256 * (if 5 < t then D / 256 % 256 else 0) +
              65536 * (if 6 < t then D / 65536 % 256 else 0) + 16777216 * (if 7 < t then D / 16777216 % 256 else 0) < 65536
            rw [if_neg (by omega : ¬ 6 < t), if_neg (by omega : ¬ 7 < t)]
            split <;> split <;> omega
          omega
        have hvD : v = D := by
          show (if 4 < t then D % 256 else 0) + 256 * (if 5 < t then D / 256 % 256 else 0) +
            65536 * (if 6 < t then D / 65536 % 256 else 0) + 16777216 * (if 7 < t then D / 16777216 % 256 else 0) = D
          rw [if_pos (by omega : 4 < t), if_pos (by omega : 5 < t), if_pos ht7]
          split <;> omega
        rw [hvD] at hvK
        rw [if_pos (by omega : 4 < t), if_pos (by omega : 5 < t), if_pos ht7, hvK]
        have : (if 7 < t then D / 16777216 % 256 else 0) = D / 16777216 % 256 := by split <;> omega
        rw [this]; rfl

theorem decode_hdr14 (pv prof D : Nat) (tail : Bytes) (hpv : pv < 256) (hD0 : D ≠ 0) (hD : D < 4294967296) :
    decodeFileHeader true (hdrBytes ⟨14, pv, prof⟩ D ++ tail) = .ok (⟨14, D, HK pv prof D⟩, tail) := by
  rw [hdrBytes14 pv prof D hpv]
  have hK := HK_lt pv prof D hpv
  have := header14_decode true pv (prof % 256) (prof / 256 % 256) (D % 256) (D / 256 % 256) (D / 65536 % 256) (D / 16777216 % 256)
    (HK pv prof D % 256) (HK pv prof D / 256 % 256) tail (H12_bytes pv prof D hpv) (by show _ = HK pv prof D; omega) (by omega)
  have e1 : D % 256 + 256 * (D / 256 % 256) + 65536 * (D / 65536 % 256) + 16777216 * (D / 16777216 % 256) = D := by omega
  have e2 : HK pv prof D % 256 + 256 * (HK pv prof D / 256 % 256) = HK pv prof D := by omega
  rw [e1, e2] at this
  exact this

/-- fewer than 14 bytes of a stream that starts with the byte 14: the header step fails -/
theorem short_header_rejected (x : Bytes) (hl : x.length < 14) (hhead : x.head? = some 14) :
    ∀ hd rest, decodeFileHeader true x ≠ .ok (hd, rest) := by
  intro hd rest h
  cases x with
  | nil => simp at hhead
  | cons a t =>
    simp only [List.head?_cons, Option.some.injEq] at hhead
    subst hhead
    unfold decodeFileHeader at h
    have : (!hasN t (14 - 1)) = true := by rw [not_hasN]; simp at hl; omega
    simp [this] at h

theorem hdrBytes14_head (pv prof ds : Nat) (tail : Bytes) : (hdrBytes ⟨14, pv, prof⟩ ds ++ tail).head? = some 14 := by
  simp [hdrBytes]

theorem prefix_head {x y : Bytes} (h : x <+: y) (hx : x ≠ []) : x.head? = y.head? := by
  obtain ⟨t, rfl⟩ := h
  cases x with
  | nil => exact absurd rfl hx
  | cons a x => rfl

/-- PLACEHOLDER: no non-empty prefix of a sequence whose header carries data size 0 gets past the header step -/
theorem placeholder_prefix_rejected (pv prof : Nat) (tail x : Bytes) (hpv : pv < 256)
    (hp : x <+: hdrBytes ⟨14, pv, prof⟩ 0 ++ tail) (hx : x ≠ []) : ¬ Acc x := by
  intro hacc
  obtain ⟨hd, rest, hdec⟩ := acc_header hacc
  by_cases hl : x.length < 14
  · exact short_header_rejected x hl (by rw [prefix_head hp hx, hdrBytes14_head]) hd rest hdec
  · have hlen : (hdrBytes ⟨14, pv, prof⟩ 0).length = 14 := by rw [hdrBytes_length]; rfl
    have hpre : hdrBytes ⟨14, pv, prof⟩ 0 <+: x :=
      List.prefix_of_prefix_length_le (List.prefix_append _ _) hp (by omega)
    obtain ⟨y, rfl⟩ := hpre
    rw [hdrBytes14 pv prof 0 hpv] at hdec
    have := header14_eval pv (prof % 256) (prof / 256 % 256) (0 % 256) (0 / 256 % 256) (0 / 65536 % 256) (0 / 16777216 % 256)
      (HK pv prof 0 % 256) (HK pv prof 0 / 256 % 256) y (H12_bytes pv prof 0 hpv)
    simp only [H12, List.cons_append, List.nil_append] at hdec
    rw [this] at hdec
    simp at hdec

/-- COMPLETE SEQUENCE accepted -/
theorem complete_acc (pv prof : Nat) (recs : Bytes) (hpv : pv < 256) (hr0 : recs ≠ []) (hr : recs.length < 4294967296) :
    checkIntegrity (hdrBytes ⟨14, pv, prof⟩ recs.length ++ recs ++ Wire.le16 (write 0 recs)) = .ok 1 := by
  have hD0 : recs.length ≠ 0 := by simpa using hr0
  have hh := decode_hdr14 pv prof recs.length (recs ++ Wire.le16 (write 0 recs)) hpv hD0 hr
  unfold checkIntegrity
  rw [List.append_assoc, checkLoop_step _ _ _ _ _ hh]
  simp only
  have hw : write 0 recs < 65536 := write_lt 0 (by decide) recs
  rw [if_neg (by simp [Wire.le16])]
  rw [List.take_left' rfl, List.drop_left' rfl]
  rw [if_neg (by simp [Wire.le16, Integrity.le16]; omega)]
  have : (recs ++ Wire.le16 (write 0 recs)).drop (recs.length + 2) = [] := by
    apply List.drop_eq_nil_of_le; simp [Wire.le16]
  rw [this]
  simp only [List.length_append]
  exact checkLoop_nil _ _ (by decide)

/-- PLAIN WRITER: a non-empty prefix of a complete sequence that the check accepts is the complete sequence -/
theorem final_prefix_acc (pv prof : Nat) (recs x : Bytes) (hpv : pv < 256) (hr0 : recs ≠ []) (hr : recs.length < 4294967296)
    (hp : x <+: hdrBytes ⟨14, pv, prof⟩ recs.length ++ recs ++ Wire.le16 (write 0 recs)) (hx : x ≠ []) (hacc : Acc x) :
    x = hdrBytes ⟨14, pv, prof⟩ recs.length ++ recs ++ Wire.le16 (write 0 recs) := by
  have hD0 : recs.length ≠ 0 := by simpa using hr0
  rw [List.append_assoc] at hp ⊢
  by_cases hl : x.length < 14
  · obtain ⟨hd, rest, hdec⟩ := acc_header hacc
    exact absurd hdec (short_header_rejected x hl (by rw [prefix_head hp hx, hdrBytes14_head]) hd rest)
  · have hlen : (hdrBytes ⟨14, pv, prof⟩ recs.length).length = 14 := by rw [hdrBytes_length]; rfl
    have hpre : hdrBytes ⟨14, pv, prof⟩ recs.length <+: x :=
      List.prefix_of_prefix_length_le (List.prefix_append _ _) hp (by omega)
    obtain ⟨y, rfl⟩ := hpre
    have hy : y <+: recs ++ Wire.le16 (write 0 recs) := (List.prefix_append_right_inj _).mp hp
    have hh := decode_hdr14 pv prof recs.length y hpv hD0 hr
    obtain ⟨n, hn⟩ := hacc
    unfold checkIntegrity at hn
    rw [checkLoop_step _ _ _ _ _ hh] at hn
    simp only at hn
    by_cases hshort : y.length < recs.length + 2
    · rw [if_pos hshort] at hn; cases hn
    · have : y = recs ++ Wire.le16 (write 0 recs) :=
        List.IsPrefix.eq_of_length_le hy (by simp [Wire.le16]; omega)
      rw [this]

/-- "default (zero) file header" and the side conditions of the never-valid clause -/
structure ZeroHdr (o : Opts) (f : FitIn) : Prop where
  size : f.hdr.size = 14
  ds0 : f.ds0 = 0
  pv : f.hdr.protoVer < 256
  nonempty : f.msgs ≠ []
  /-- records below 16 MiB: a partially rewritten data size then never spells a different non-zero size with the same header CRC -/
  small : (encodeMsgs o (freshEnc o) f.msgs).length < 16777216
  /-- the high byte of the placeholder header's CRC is not 0 (a CRC field of 0 switches the header check off) -/
  hk : HK f.hdr.protoVer f.hdr.profileVer 0 / 256 % 256 ≠ 0

theorem prefix_split {base c S : Bytes} (h1 : base <+: c) (h2 : c <+: base ++ S) : ∃ x, c = base ++ x ∧ x <+: S := by
  obtain ⟨x, rfl⟩ := h1
  exact ⟨x, rfl, (List.prefix_append_right_inj _).mp h2⟩

theorem acc_tail {base x : Bytes} (hb : base = [] ∨ Acc base) (hx : x ≠ []) (h : Acc (base ++ x)) : Acc x := by
  rcases hb with rfl | hb
  · simpa using h
  · exact (acc_append_iff base x hb hx).mp h

/-- ONE CALL: of everything an encode of a zero-header FIT value can leave on the destination (`Reach`), the integrity
check accepts only "nothing of it" and "all of it" -/
theorem reach_acc (o : Opts) (kind : Kind) (f : FitIn) (base c : Bytes) (hz : ZeroHdr o f) (hb : base = [] ∨ Acc base)
    (hr : Reach base (firstPass o kind f) (finalHdr o f) c) (hacc : Acc c) :
    c = base ∨ c = base ++ encodeFit o f.hdr f.msgs := by
  obtain ⟨hdr, ds0, msgs⟩ := f
  obtain ⟨sz, pv, prof⟩ := hdr
  have hsz : sz = 14 := hz.size
  subst hsz
  have hds0 : ds0 = 0 := hz.ds0
  subst hds0
  have hpv : pv < 256 := hz.pv
  have hsmall := hz.small
  simp only at hsmall
  have hrecs0 : encodeMsgs o (freshEnc o) msgs ≠ [] := by
    intro h; have := encodeMsgs_pos o (freshEnc o) msgs hz.nonempty; rw [h] at this; simp at this
  have hmod : (encodeMsgs o (freshEnc o) msgs).length % 4294967296 = (encodeMsgs o (freshEnc o) msgs).length := by omega
  have hfin : encodeFit o ⟨14, pv, prof⟩ msgs = hdrBytes ⟨14, pv, prof⟩ (encodeMsgs o (freshEnc o) msgs).length ++
      encodeMsgs o (freshEnc o) msgs ++ Wire.le16 (write 0 (encodeMsgs o (freshEnc o) msgs)) := by
    unfold encodeFit; simp only [hmod]
  have hlen : ∀ ds, (hdrBytes ⟨14, pv, prof⟩ ds).length = 14 := fun ds => by rw [hdrBytes_length]; rfl
  simp only [finalHdr, hmod] at hr
  by_cases hdir : kind.direct = true
  · -- placeholder header, possibly rewritten
    simp only [firstPass, hdir, if_true, seqBytes] at hr
    rcases hr with ⟨h1, h2⟩ | ⟨t, ht, hc⟩
    · obtain ⟨x, rfl, hx⟩ := prefix_split h1 h2
      by_cases hx0 : x = []
      · left; rw [hx0, List.append_nil]
      · exfalso
        rw [List.append_assoc] at hx
        exact placeholder_prefix_rejected pv prof _ x hpv hx hx0 (acc_tail hb hx0 hacc)
    · right
      rw [hlen] at ht
      have hdrop : (hdrBytes ⟨14, pv, prof⟩ 0 ++ encodeMsgs o (freshEnc o) msgs ++ Wire.le16 (write 0 (encodeMsgs o (freshEnc o) msgs))).drop t =
          (hdrBytes ⟨14, pv, prof⟩ 0).drop t ++ (encodeMsgs o (freshEnc o) msgs ++ Wire.le16 (write 0 (encodeMsgs o (freshEnc o) msgs))) := by
        rw [List.append_assoc, List.drop_append_of_le_length (by rw [hlen]; exact ht)]
      rw [hdrop, List.append_assoc, ← List.append_assoc ((hdrBytes ⟨14, pv, prof⟩ _).take t)] at hc
      have hx0 : ((hdrBytes ⟨14, pv, prof⟩ (encodeMsgs o (freshEnc o) msgs).length).take t ++ (hdrBytes ⟨14, pv, prof⟩ 0).drop t) ++
          (encodeMsgs o (freshEnc o) msgs ++ Wire.le16 (write 0 (encodeMsgs o (freshEnc o) msgs))) ≠ [] := by
        simp [hrecs0]
      rw [hc] at hacc
      have hax := acc_tail hb hx0 hacc
      have hmix := rewrite_header_acc pv prof _ t _ hpv hsmall ht hz.hk (acc_header hax)
      rw [hc, hmix, hfin, List.append_assoc]
  · -- plain writer: the header is final from the start
    simp only [firstPass, hdir, Bool.false_eq_true, if_false] at hr
    rw [hfin] at hr ⊢
    rcases hr with ⟨h1, h2⟩ | ⟨t, ht, hc⟩
    · obtain ⟨x, rfl, hx⟩ := prefix_split h1 h2
      by_cases hx0 : x = []
      · left; rw [hx0, List.append_nil]
      · right
        rw [final_prefix_acc pv prof _ x hpv hrecs0 (by omega) hx hx0 (acc_tail hb hx0 hacc)]
    · right
      rw [hc]
      simp only [List.append_assoc]
      congr 1
      rw [List.drop_append_of_le_length ht, ← List.append_assoc, List.take_append_drop]

theorem zero_complete_acc (o : Opts) (f : FitIn) (hz : ZeroHdr o f) : Acc (encodeFit o f.hdr f.msgs) := by
  obtain ⟨hdr, ds0, msgs⟩ := f
  obtain ⟨sz, pv, prof⟩ := hdr
  have hsz : sz = 14 := hz.size
  subst hsz
  have hsmall := hz.small
  simp only at hsmall
  have hrecs0 : encodeMsgs o (freshEnc o) msgs ≠ [] := by
    intro h; have := encodeMsgs_pos o (freshEnc o) msgs hz.nonempty; rw [h] at this; simp at this
  have hmod : (encodeMsgs o (freshEnc o) msgs).length % 4294967296 = (encodeMsgs o (freshEnc o) msgs).length := by omega
  refine ⟨1, ?_⟩
  unfold encodeFit
  simp only [hmod]
  exact complete_acc pv prof _ hz.pv hrecs0 (by omega)

theorem chain_base_ok (o : Opts) : ∀ (fs : List FitIn) (k : Nat) (base : Bytes), (∀ f ∈ fs, ZeroHdr o f) →
    (base = [] ∨ Acc base) →
    (base ++ encodeChain o (fitsOf (fs.take k)) = [] ∨ Acc (base ++ encodeChain o (fitsOf (fs.take k))))
  | [], k, base, _, hb => by simpa [fitsOf, encodeChain] using hb
  | f :: fs, 0, base, _, hb => by simpa [fitsOf, encodeChain] using hb
  | f :: fs, k + 1, base, hz, hb => by
    rw [List.take_succ_cons, chain_fitsOf_cons, ← List.append_assoc]
    exact chain_base_ok o fs k _ (fun g hg => hz g (by simp [hg]))
      (Or.inr (acc_append hb (zero_complete_acc o f (hz f (by simp)))))

theorem chain_take_succ (o : Opts) (fs : List FitIn) (k : Nat) (f : FitIn) (hk : fs[k]? = some f) :
    encodeChain o (fitsOf (fs.take (k + 1))) = encodeChain o (fitsOf (fs.take k)) ++ encodeFit o f.hdr f.msgs := by
  rw [List.take_add_one, hk]
  simp [fitsOf, encodeChain]

/-- A CHAIN: whatever the chaining loop leaves on the destination (`ChainReach`), the integrity check accepts it only if it
is `base` followed by the first `m` complete sequences -/
theorem chainReach_acc (o : Opts) (kind : Kind) (base : Bytes) (fs : List FitIn) (c : Bytes)
    (hz : ∀ f ∈ fs, ZeroHdr o f) (hb : base = [] ∨ Acc base) (hr : ChainReach o kind base fs c) (hacc : Acc c) :
    ∃ m, m ≤ fs.length ∧ c = base ++ encodeChain o (fitsOf (fs.take m)) := by
  rcases hr with h | ⟨k, f, hk, hreach⟩
  · exact ⟨fs.length, Nat.le_refl _, by rw [List.take_length]; exact h⟩
  · have hklt : k < fs.length := by
      apply Nat.lt_of_not_le; intro hle
      rw [List.getElem?_eq_none hle] at hk; cases hk
    have hf : f ∈ fs := List.mem_of_getElem? hk
    rcases reach_acc o kind f _ c (hz f hf) (chain_base_ok o fs k base hz hb) hreach hacc with h | h
    · exact ⟨k, Nat.le_of_lt hklt, h⟩
    · exact ⟨k + 1, hklt, by rw [h, chain_take_succ o fs k f hk, List.append_assoc]⟩

theorem streamFits_zero (c : StreamCfg) (o : Opts) (h : Wire.Hdr) : ∀ (mss : List (List WMsg)) (d : Nat), d = 0 →
    (c.clearsHeader = true ∨ mss.length ≤ 1) →
    (∀ ms ∈ mss, ZeroHdr o ⟨h, 0, ms⟩) → ∀ f ∈ streamFits c o h d mss, ZeroHdr o f
  | [], _, _, _, _ => by simp [streamFits]
  | ms :: rest, d, hd, hc, hz => by
    subst hd
    intro f hf
    simp only [streamFits, List.mem_cons] at hf
    rcases hf with rfl | hf
    · exact hz ms (by simp)
    · rcases hc with hc | hc
      · exact streamFits_zero c o h rest _ (by simp [nextHdrDs, hc]) (Or.inl hc) (fun x hx => hz x (by simp [hx])) f hf
      · have : rest = [] := by
          cases rest with
          | nil => rfl
          | cons _ _ => simp at hc
        subst this
        simp [streamFits] at hf

end Fit.Writer
