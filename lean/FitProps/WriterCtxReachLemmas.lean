import FitProps.WriterOutcomeLemmas
import FitProps.WriterCtxCrashLemmas
/-!
Where the destination content can be after a (possibly cancelled) `EncodeWithContext`: the same `Reach` set as after `Encode` —
a cancelled call has written a prefix of the first pass (placeholder header, records) and never rewrites the header.
-/
namespace Fit.Writer
open Fit.Wire Fit.Crc

theorem encodeMsgs_take_prefix (o : Opts) : ∀ (ms : List WMsg) (k : Nat) (s : EncState),
    encodeMsgs o s (ms.take k) <+: encodeMsgs o s ms
  | [], _, _ => by simp [encodeMsgs]
  | m :: ms, 0, s => by simp [encodeMsgs]
  | m :: ms, k + 1, s => by
    simp only [List.take_succ_cons, encodeMsgs]
    exact (List.prefix_append_right_inj _).mpr (encodeMsgs_take_prefix o ms k _)

/-- a loop that ends with `ctx.Err()` has encoded a prefix of the messages, all of them successfully -/
theorem encodeMessagesCtx_ec (F : Faults) (o : Opts) : ∀ (ms : List WMsg) (c : Ctx) (e : Enc),
    (encodeMessagesCtx F o c e ms).2.2 = .ec →
    ∃ k, (encodeMessagesCtx F o c e ms).1 = (encodeMessages F o e (ms.take k)).1 ∧ (encodeMessages F o e (ms.take k)).2 = true
  | [], _, _, h => by simp [encodeMessagesCtx] at h
  | m :: ms, c, e, h => by
    unfold encodeMessagesCtx at h ⊢
    by_cases hc : c.cancelled = true
    · rw [if_pos hc]
      exact ⟨0, rfl, rfl⟩
    · rw [if_neg hc] at h ⊢
      by_cases h1 : (encodeMessage F o e m).2 = true
      · simp only [h1, if_true] at h ⊢
        obtain ⟨k, a, b⟩ := encodeMessagesCtx_ec F o ms c.tick _ h
        refine ⟨k + 1, ?_, ?_⟩
        · simp only [List.take_succ_cons, encodeMessages, h1, if_true]; exact a
        · simp only [List.take_succ_cons, encodeMessages, h1, if_true]; exact b
      · simp [h1] at h

/-- a body that ends with `ctx.Err()`: the destination has grown, and everything the writer accepted is a prefix of the first
pass (header with data size `ds`, records) -/
theorem encodeBodyCtx_pref (F : Faults) (o : Opts) (c : Ctx) (e : Enc) (h : Hdr) (ds : Nat) (ms : List WMsg)
    (hg : e.w.Good) (hf : e.Fresh o) (hec : (encodeBodyCtx F o c e h ds ms).2.2 = .ec) :
    e.w.d.content <+: (encodeBodyCtx F o c e h ds ms).1.w.d.content ∧
    (encodeBodyCtx F o c e h ds ms).1.w.acc <+: e.w.acc ++ seqBytes o h ds ms ∧
    (encodeBodyCtx F o c e h ds ms).1.w.acc.length + 2 ≤ (e.w.acc ++ seqBytes o h ds ms).length := by
  obtain ⟨h1, _, _, _, h1d, h1e⟩ := encodeFileHeader_spec F e h ds hg
  rw [hf.crc, hdrBytesFrom_zero] at h1
  unfold encodeBodyCtx at hec ⊢
  by_cases hok1 : (encodeFileHeader F e h ds).2 = true
  · rw [hok1] at h1
    simp only [hok1, Bool.not_true, Bool.false_eq_true, if_false] at hec ⊢
    by_cases h2 : (encodeMessagesCtx F o c (encodeFileHeader F e h ds).1 ms).2.2 = .ok
    · simp only [h2, bne_self_eq_false, Bool.false_eq_true, if_false] at hec
      split at hec <;> cases hec
    · have hne : ((encodeMessagesCtx F o c (encodeFileHeader F e h ds).1 ms).2.2 != Res.ok) = true := by simp [h2]
      simp only [hne, if_true] at hec ⊢
      obtain ⟨k, a, b⟩ := encodeMessagesCtx_ec F o ms c _ hec
      have w2 := encodeMessages_wrote F o (encodeFileHeader F e h ds).1 (ms.take k) h1.good (by rw [h1d, hf.ds]; decide)
      rw [h1e, hf.es, b] at w2
      have app := h1.trans w2.app
      rw [a]
      refine ⟨app.grow, app.pref.trans ?_, ?_⟩
      · unfold seqBytes
        rw [List.append_assoc]
        exact (List.prefix_append_right_inj _).mpr
          ((List.prefix_append_right_inj _).mpr ((encodeMsgs_take_prefix o ms k _).trans (List.prefix_append _ _)))
      · have l1 := app.pref.length_le
        have l2 := (encodeMsgs_take_prefix o ms k (freshEnc o)).length_le
        unfold seqBytes
        simp only [List.length_append, Wire.le16, List.length_cons, List.length_nil] at l1 ⊢
        omega
  · simp [hok1] at hec

theorem content_prefix_acc (w : W) : w.d.content <+: w.acc := List.prefix_append _ _

/-- EVERYTHING A (POSSIBLY CANCELLED) `EncodeWithContext` CAN LEAVE on the destination of a ready encoder lies in the `Reach`
set of `Encode` on the same input -/
theorem encodeCtx_reach (cc : CtxCfg) (F : Faults) (o : Opts) (c : Ctx) (e : Enc) (f : FitIn) (hr : e.Ready o) :
    Reach e.w.d.content (firstPass o e.w.kind f) (finalHdr o f) (encodeCtx cc F o c ⟨e, false⟩ f).1.e.w.d.content := by
  have hplain := (encode_outcome F o e f hr.idle hr.fresh hr.own).reach
  have hacc0 : e.w.acc = e.w.d.content := by simp [W.acc, hr.idle.buf]
  unfold encodeCtx
  unfold encode at hplain
  simp only [Bool.false_eq_true, if_false]
  by_cases hk : e.w.kind.direct = true
  · simp only [hk, if_true] at hplain ⊢
    have hfp : firstPass o e.w.kind f = seqBytes o f.hdr f.ds0 f.msgs := by unfold firstPass; rw [if_pos hk]
    rcases encodeDirectCtx_step F o c e f.hdr f.ds0 f.msgs with ⟨a1, a2⟩ | ⟨a1, _⟩
    · simp only at a1 a2
      by_cases h2 : (encodeDirect F o e f.hdr f.ds0 f.msgs).2 = true
      · have hok : (encodeDirectCtx F o c e f.hdr f.ds0 f.msgs).2.2 = .ok := by rw [a2, h2]; rfl
        simp only [hok, bne_self_eq_false, Bool.false_eq_true, if_false]
        simp only [h2, Bool.not_true, Bool.false_eq_true, if_false] at hplain
        rw [a1]; exact hplain
      · have hne : ((encodeDirectCtx F o c e f.hdr f.ds0 f.msgs).2.2 != Res.ok) = true := by rw [a2]; simp [resOf, h2]
        simp only [hne, if_true]
        simp only [h2, Bool.not_false, if_true] at hplain
        rw [a1]; exact hplain
    · simp only at a1
      have hne : ((encodeDirectCtx F o c e f.hdr f.ds0 f.msgs).2.2 != Res.ok) = true := by rw [a1]; rfl
      simp only [hne, if_true]
      -- the direct strategy returned ctx.Err(): it is the body's
      have hb : (encodeBodyCtx F o c e f.hdr f.ds0 f.msgs).2.2 = .ec ∧
          (encodeDirectCtx F o c e f.hdr f.ds0 f.msgs).1 = (encodeBodyCtx F o c e f.hdr f.ds0 f.msgs).1 := by
        unfold encodeDirectCtx at a1 ⊢
        by_cases h3 : (encodeBodyCtx F o c e f.hdr f.ds0 f.msgs).2.2 = .ok
        · simp only [h3, bne_self_eq_false, Bool.false_eq_true, if_false] at a1
          split at a1 <;> cases a1
        · have hne3 : ((encodeBodyCtx F o c e f.hdr f.ds0 f.msgs).2.2 != Res.ok) = true := by simp [h3]
          simp only [hne3, if_true] at a1 ⊢
          exact ⟨a1, trivial⟩
      obtain ⟨p1, p2, _⟩ := encodeBodyCtx_pref F o c e f.hdr f.ds0 f.msgs hr.idle.good hr.fresh hb.1
      rw [hacc0] at p2
      left
      show e.w.d.content <+: ((encodeDirectCtx F o c e f.hdr f.ds0 f.msgs).1.reset o).w.d.content ∧ _
      rw [show ((encodeDirectCtx F o c e f.hdr f.ds0 f.msgs).1.reset o).w = (encodeDirectCtx F o c e f.hdr f.ds0 f.msgs).1.w from rfl,
        hb.2, hfp]
      exact ⟨p1, (content_prefix_acc _).trans p2⟩
  · simp only [hk, Bool.false_eq_true, if_false] at hplain ⊢
    have hfp : firstPass o e.w.kind f = encodeFit o f.hdr f.msgs := by unfold firstPass; rw [if_neg hk]
    rcases encodeEarlyCtx_step cc F o c e f.hdr f.msgs with ⟨a1, a2⟩ | ⟨a1, _⟩
    · simp only at a1 a2
      by_cases h2 : (encodeEarly F o e f.hdr f.msgs).2 = true
      · have hok : (encodeEarlyCtx cc F o c e f.hdr f.msgs).2.2.1 = .ok := by rw [a2, h2]; rfl
        simp only [hok, bne_self_eq_false, Bool.false_eq_true, if_false]
        simp only [h2, Bool.not_true, Bool.false_eq_true, if_false] at hplain
        rw [a1]; exact hplain
      · have hne : ((encodeEarlyCtx cc F o c e f.hdr f.msgs).2.2.1 != Res.ok) = true := by rw [a2]; simp [resOf, h2]
        simp only [hne, if_true]
        simp only [h2, Bool.not_false, if_true] at hplain
        rw [a1]; exact hplain
    · simp only at a1
      have hne : ((encodeEarlyCtx cc F o c e f.hdr f.msgs).2.2.1 != Res.ok) = true := by rw [a1]; rfl
      simp only [hne, if_true]
      left
      show e.w.d.content <+: ((encodeEarlyCtx cc F o c e f.hdr f.msgs).1.reset o).w.d.content ∧ _
      rw [show ((encodeEarlyCtx cc F o c e f.hdr f.msgs).1.reset o).w = (encodeEarlyCtx cc F o c e f.hdr f.msgs).1.w from rfl, hfp]
      unfold encodeEarlyCtx at a1 ⊢
      cases hd : dryPassCtx o c e.es e.dataSize f.msgs with
      | mk c' r =>
        cases r with
        | none => exact ⟨List.prefix_refl _, List.prefix_append _ _⟩
        | some dry =>
          have hdry := dryPassCtx_some o f.msgs c e.es e.dataSize dry (by rw [hd])
          rw [hr.fresh.es, hr.fresh.ds, dryPass_eq o _ _ _ (by decide)] at hdry
          simp only [Nat.zero_add] at hdry
          subst hdry
          rw [hd] at a1
          simp only at a1 ⊢
          obtain ⟨p1, p2, _⟩ := encodeBodyCtx_pref F o c' (e.reset o) f.hdr _ f.msgs hr.idle.good (reset_fresh o e) a1
          rw [show (e.reset o).w = e.w from rfl, hacc0, seqBytes_final] at p2
          exact ⟨p1, (content_prefix_acc _).trans p2⟩

/-- A CALL THAT RETURNS `ctx.Err()` HAS NOT WRITTEN THE WHOLE SEQUENCE: at least the two CRC bytes are missing from what the
writer accepted (a fortiori from the destination) -/
theorem encodeCtx_ec_short (cc : CtxCfg) (F : Faults) (o : Opts) (c : Ctx) (e : Enc) (f : FitIn) (hr : e.Ready o)
    (hec : (encodeCtx cc F o c ⟨e, false⟩ f).2 = .ec) :
    (encodeCtx cc F o c ⟨e, false⟩ f).1.e.w.d.content.length + 2 ≤ e.w.d.content.length + (encodeFit o f.hdr f.msgs).length := by
  have hacc0 : e.w.acc = e.w.d.content := by simp [W.acc, hr.idle.buf]
  have hlenfit : ∀ ds, (seqBytes o f.hdr ds f.msgs).length = (encodeFit o f.hdr f.msgs).length := by
    intro ds
    unfold seqBytes encodeFit
    simp only [List.length_append, hdrBytes_length]
  have clen : ∀ w : W, w.d.content.length ≤ w.acc.length := fun w => (content_prefix_acc w).length_le
  unfold encodeCtx at hec ⊢
  simp only [Bool.false_eq_true, if_false] at hec ⊢
  by_cases hk : e.w.kind.direct = true
  · simp only [hk, if_true] at hec ⊢
    by_cases h2 : (encodeDirectCtx F o c e f.hdr f.ds0 f.msgs).2.2 = .ok
    · simp only [h2, bne_self_eq_false, Bool.false_eq_true, if_false] at hec
      split at hec <;> cases hec
    · have hne : ((encodeDirectCtx F o c e f.hdr f.ds0 f.msgs).2.2 != Res.ok) = true := by simp [h2]
      simp only [hne, if_true] at hec ⊢
      have hb : (encodeBodyCtx F o c e f.hdr f.ds0 f.msgs).2.2 = .ec ∧
          (encodeDirectCtx F o c e f.hdr f.ds0 f.msgs).1 = (encodeBodyCtx F o c e f.hdr f.ds0 f.msgs).1 := by
        unfold encodeDirectCtx at hec ⊢
        by_cases h3 : (encodeBodyCtx F o c e f.hdr f.ds0 f.msgs).2.2 = .ok
        · simp only [h3, bne_self_eq_false, Bool.false_eq_true, if_false] at hec
          split at hec <;> cases hec
        · have hne3 : ((encodeBodyCtx F o c e f.hdr f.ds0 f.msgs).2.2 != Res.ok) = true := by simp [h3]
          simp only [hne3, if_true] at hec ⊢
          exact ⟨hec, trivial⟩
      obtain ⟨_, _, p3⟩ := encodeBodyCtx_pref F o c e f.hdr f.ds0 f.msgs hr.idle.good hr.fresh hb.1
      rw [hacc0, List.length_append, hlenfit] at p3
      show ((encodeDirectCtx F o c e f.hdr f.ds0 f.msgs).1.reset o).w.d.content.length + 2 ≤ _
      rw [show ((encodeDirectCtx F o c e f.hdr f.ds0 f.msgs).1.reset o).w = (encodeDirectCtx F o c e f.hdr f.ds0 f.msgs).1.w from rfl, hb.2]
      have := clen (encodeBodyCtx F o c e f.hdr f.ds0 f.msgs).1.w
      omega
  · simp only [hk, Bool.false_eq_true, if_false] at hec ⊢
    by_cases h2 : (encodeEarlyCtx cc F o c e f.hdr f.msgs).2.2.1 = .ok
    · simp only [h2, bne_self_eq_false, Bool.false_eq_true, if_false] at hec
      split at hec <;> cases hec
    · have hne : ((encodeEarlyCtx cc F o c e f.hdr f.msgs).2.2.1 != Res.ok) = true := by simp [h2]
      simp only [hne, if_true] at hec ⊢
      show ((encodeEarlyCtx cc F o c e f.hdr f.msgs).1.reset o).w.d.content.length + 2 ≤ _
      rw [show ((encodeEarlyCtx cc F o c e f.hdr f.msgs).1.reset o).w = (encodeEarlyCtx cc F o c e f.hdr f.msgs).1.w from rfl]
      unfold encodeEarlyCtx at hec ⊢
      cases hd : dryPassCtx o c e.es e.dataSize f.msgs with
      | mk c' r =>
        cases r with
        | none =>
          simp only
          have : 2 ≤ (encodeFit o f.hdr f.msgs).length := by
            unfold encodeFit; simp only [List.length_append, Wire.le16, List.length_cons, List.length_nil]; omega
          omega
        | some dry =>
          rw [hd] at hec
          simp only at hec ⊢
          obtain ⟨_, _, p3⟩ := encodeBodyCtx_pref F o c' (e.reset o) f.hdr dry.1 dry.2 hr.idle.good (reset_fresh o e) hec
          have hdry := dryPassCtx_some o f.msgs c e.es e.dataSize dry (by rw [hd])
          rw [hr.fresh.es, hr.fresh.ds, dryPass_eq o _ _ _ (by decide)] at hdry
          subst hdry
          rw [show (e.reset o).w = e.w from rfl, hacc0, List.length_append, hlenfit] at p3
          have := clen (encodeBodyCtx F o c' (e.reset o) f.hdr ((0 + (encodeMsgs o (freshEnc o) f.msgs).length) % 4294967296) f.msgs).1.w
          simp only at this p3 ⊢
          omega

end Fit.Writer
