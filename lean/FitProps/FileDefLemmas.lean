import FitModel.FileDef
/-! Lemmas about the file-type model (C14, first half): the stable sort, the build fold, the emission. Core Lean only. -/
namespace Fit.FileDef

/-! ### the order on keys -/

theorem keyLe_refl (a : Option Nat) : keyLe a a = true := by
  cases a <;> simp [keyLe]

theorem keyLe_total (a b : Option Nat) : keyLe a b = true ∨ keyLe b a = true := by
  cases a <;> cases b <;> simp [keyLe]; omega

theorem keyLe_trans {a b c : Option Nat} (h1 : keyLe a b = true) (h2 : keyLe b c = true) : keyLe a c = true := by
  cases a <;> cases b <;> cases c <;> simp_all [keyLe]; omega

theorem keyLe_antisymm {a b : Option Nat} (h1 : keyLe a b = true) (h2 : keyLe b a = true) : a = b := by
  cases a <;> cases b <;> simp_all [keyLe]; omega

/-- timestamp-less keys are least -/
theorem keyLe_none_right {a : Option Nat} (h : keyLe a none = true) : a = none := by
  cases a <;> simp_all [keyLe]

theorem le_refl (a : Msg) : le a a = true := keyLe_refl _
theorem le_total (a b : Msg) : le a b = true ∨ le b a = true := keyLe_total _ _
theorem le_trans {a b c : Msg} (h1 : le a b = true) (h2 : le b c = true) : le a c = true := keyLe_trans h1 h2

/-! ### insertion sort: permutation, sortedness, stability, uniqueness -/

def Sorted (l : List Msg) : Prop := l.Pairwise (fun a b => le a b = true)

theorem insertSorted_perm (x : Msg) (l : List Msg) : (insertSorted x l).Perm (x :: l) := by
  induction l with
  | nil => simp [insertSorted]
  | cons y ys ih =>
    simp only [insertSorted]
    split
    · exact List.Perm.refl _
    · exact (List.Perm.cons y ih).trans (List.Perm.swap x y ys)

theorem sortStable_perm (l : List Msg) : (sortStable l).Perm l := by
  induction l with
  | nil => simp [sortStable]
  | cons x xs ih =>
    have : sortStable (x :: xs) = insertSorted x (sortStable xs) := rfl
    rw [this]
    exact (insertSorted_perm x _).trans (List.Perm.cons x ih)

theorem insertSorted_sorted (x : Msg) (l : List Msg) (h : Sorted l) : Sorted (insertSorted x l) := by
  induction l with
  | nil => simp [insertSorted, Sorted]
  | cons y ys ih =>
    simp only [insertSorted]
    have hy := List.pairwise_cons.mp h
    split
    · rename_i hxy
      refine List.pairwise_cons.mpr ⟨?_, h⟩
      intro z hz
      rcases List.mem_cons.mp hz with rfl | hz
      · exact hxy
      · exact le_trans hxy (hy.1 z hz)
    · rename_i hxy
      have hyx : le y x = true := by
        rcases le_total x y with h1 | h1
        · exact absurd h1 hxy
        · exact h1
      refine List.pairwise_cons.mpr ⟨?_, ih hy.2⟩
      intro z hz
      have := (insertSorted_perm x ys).mem_iff.mp hz
      rcases List.mem_cons.mp this with rfl | hz
      · exact hyx
      · exact hy.1 z hz

theorem sortStable_sorted (l : List Msg) : Sorted (sortStable l) := by
  induction l with
  | nil => simp [sortStable, Sorted]
  | cons x xs ih => exact insertSorted_sorted x _ ih

/-- the messages with key `k`, in the order in which they stand in `l` -/
def withKey (k : Option Nat) (l : List Msg) : List Msg := l.filter (fun m => decide (key m = k))

theorem insertSorted_withKey (k : Option Nat) (x : Msg) (l : List Msg) :
    withKey k (insertSorted x l) = withKey k (x :: l) := by
  induction l with
  | nil => simp [insertSorted]
  | cons y ys ih =>
    simp only [insertSorted]
    split
    · rfl
    · rename_i hxy
      have hne : ¬ (key x = k ∧ key y = k) := by
        intro ⟨h1, h2⟩
        apply hxy
        simp [le, h1, h2, keyLe_refl]
      simp only [withKey, List.filter_cons] at ih ⊢
      rw [ih]
      by_cases h1 : key x = k <;> by_cases h2 : key y = k <;> simp_all

/-- stability: messages with equal keys keep their relative order -/
theorem sortStable_withKey (k : Option Nat) (l : List Msg) : withKey k (sortStable l) = withKey k l := by
  induction l with
  | nil => simp [sortStable]
  | cons x xs ih =>
    have : sortStable (x :: xs) = insertSorted x (sortStable xs) := rfl
    rw [this, insertSorted_withKey]
    simp only [withKey, List.filter_cons] at ih ⊢
    rw [ih]

/-- a sorted list is determined by its per-key subsequences: two sorted lists that agree on `withKey k` for
every `k` are equal. Hence the stable sorted permutation of a list is unique, and ANY stable sorting
algorithm (`slices.SortStableFunc`) returns `sortStable l`. -/
theorem sorted_ext : ∀ (l1 l2 : List Msg), Sorted l1 → Sorted l2 → (∀ k, withKey k l1 = withKey k l2) → l1 = l2
  | [], [], _, _, _ => rfl
  | [], b :: t2, _, _, h => by
    have := h (key b); simp [withKey] at this
  | a :: t1, [], _, _, h => by
    have := h (key a); simp [withKey] at this
  | a :: t1, b :: t2, s1, s2, h => by
    have ha := List.pairwise_cons.mp s1
    have hb := List.pairwise_cons.mp s2
    -- b occurs in a :: t1 and a occurs in b :: t2
    have hb_mem : b ∈ a :: t1 := by
      have : b ∈ withKey (key b) (a :: t1) := by rw [h]; simp [withKey]
      exact (List.mem_filter.mp this).1
    have ha_mem : a ∈ b :: t2 := by
      have : a ∈ withKey (key a) (b :: t2) := by rw [← h]; simp [withKey]
      exact (List.mem_filter.mp this).1
    have hab : le a b = true := by
      rcases List.mem_cons.mp hb_mem with rfl | hm
      · exact le_refl _
      · exact ha.1 b hm
    have hba : le b a = true := by
      rcases List.mem_cons.mp ha_mem with rfl | hm
      · exact le_refl _
      · exact hb.1 a hm
    have hk : key a = key b := keyLe_antisymm hab hba
    have h0 := h (key a)
    simp only [withKey, List.filter_cons, hk, decide_true, if_true] at h0
    have hab' : a = b := (List.cons.inj h0).1
    subst hab'
    have htail : ∀ k, withKey k t1 = withKey k t2 := by
      intro k
      have hk' := h k
      simp only [withKey, List.filter_cons] at hk' ⊢
      by_cases hka : key a = k
      · simp only [hka, decide_true, if_true] at hk'
        exact (List.cons.inj hk').2
      · simp only [hka, decide_false] at hk'
        exact hk'
    rw [sorted_ext t1 t2 ha.2 hb.2 htail]

theorem sortStable_unique (l l' : List Msg) (hs : Sorted l') (hst : ∀ k, withKey k l' = withKey k l) :
    l' = sortStable l :=
  sorted_ext l' (sortStable l) hs (sortStable_sorted l) (fun k => by rw [hst k, sortStable_withKey])

/-! ### the build fold -/


/-- what a file keeps of a message list, dropped numbers included (`keepLast` = the same without dropped numbers) -/
def survivors (T : FileType) : List Msg → List Msg
  | [] => []
  | m :: rest =>
    if isDropped T m.num then survivors T rest
    else if isSingle T m.num && rest.any (fun x => x.num == m.num) then survivors T rest
    else m :: survivors T rest

theorem isSingle_of_isDropped {T : FileType} {n : Nat} (h : isDropped T n = true) : isSingle T n = false := by
  unfold isDropped at h; unfold isSingle
  split <;> simp_all

theorem foldl_addN (T : FileType) (msgs : List Msg) : ∀ acc : File,
    msgs.foldl (addN T) acc =
      acc.filter (fun a => !(isSingle T a.num && msgs.any (fun x => x.num == a.num))) ++ survivors T msgs := by
  induction msgs with
  | nil =>
    intro acc
    simp only [survivors, List.foldl_nil, List.any_nil, Bool.and_false, Bool.not_false, List.append_nil]
    exact (List.filter_eq_self.mpr (fun _ _ => rfl)).symm
  | cons m rest ih =>
    intro acc
    rw [List.foldl_cons, ih]
    by_cases hd : isDropped T m.num = true
    · have hs := isSingle_of_isDropped hd
      simp only [addN, hd, if_true, survivors]
      congr 1
      apply List.filter_congr
      intro a _
      by_cases ham : m.num = a.num
      · simp [← ham, hs]
      · have hb : (m.num == a.num) = false := beq_eq_false_iff_ne.mpr ham
        simp [hb]
    · by_cases hs : isSingle T m.num = true
      · simp only [addN, hd, hs, survivors, Bool.false_eq_true, if_false, if_true, List.filter_append, List.filter_filter, Bool.true_and]
        rw [List.append_assoc]
        congr 1
        · apply List.filter_congr
          intro a _
          by_cases ham : m.num = a.num
          · have : a.num = m.num := ham.symm
            simp [this, hs]
          · have hb : (m.num == a.num) = false := beq_eq_false_iff_ne.mpr ham
            have hb' : (a.num != m.num) = true := by simp [bne_iff_ne]; exact fun h => ham h.symm
            simp [hb, hb']
        · by_cases hany : rest.any (fun x => x.num == m.num) = true
          · simp [hany, hs]
          · simp [hany, hs]
      · simp only [addN, hd, hs, survivors, Bool.false_eq_true, if_false, List.filter_append, Bool.false_and]
        rw [List.append_assoc]
        congr 1
        · apply List.filter_congr
          intro a _
          by_cases ham : m.num = a.num
          · simp [← ham, hs]
          · have hb : (m.num == a.num) = false := beq_eq_false_iff_ne.mpr ham
            simp [hb]
        · simp [hs]


/-! ### table obligations; build = keepLast -/
section
open Generated


/-- the first three slots are file_id (a value), developer_data_id and field_description (lists); no other value slot -/
def prefixOK : List Slot → Bool
  | s0 :: s1 :: s2 :: rest =>
    s0.num == mesgNumFileId && s0.kind == .value && s1.num == mesgNumDeveloperDataId && s1.kind == .list &&
    s2.num == mesgNumFieldDescription && s2.kind == .list && rest.all (fun s => s.kind != .value)
  | _ => false

/-- what the theorems need of a (regenerated) table; decidable, re-checked by the kernel on every run -/
def TableOK (T : FileType) : Prop :=
  (T.slots.map (·.num)).Nodup ∧ T.slots.all (fun s => s.kind != .dropped) = true ∧ T.dropped = [] ∧
  prefixOK T.slots = true ∧ 3 ≤ T.sortFrom ∧ T.slots.all (fun s => s.kind == s.decl) = true

instance (T : FileType) : Decidable (TableOK T) := by unfold TableOK; infer_instance

theorem slotOf_mem {T : FileType} {n : Nat} {s : Slot} (h : slotOf T n = some s) : s ∈ T.slots ∧ s.num = n := by
  unfold slotOf at h
  exact ⟨List.mem_of_find?_eq_some h, by simpa using List.find?_some h⟩

theorem noDrop {T : FileType} (h : TableOK T) (n : Nat) : isDropped T n = false := by
  obtain ⟨_, hk, hd, _, _, _⟩ := h
  unfold isDropped
  split
  · rename_i s hs
    have := List.all_eq_true.mp hk s (slotOf_mem hs).1
    simpa using this
  · simp [hd]

theorem survivors_eq_keepLast {T : FileType} (h : TableOK T) (l : List Msg) : survivors T l = keepLast T l := by
  induction l with
  | nil => rfl
  | cons m rest ih => simp only [survivors, keepLast, noDrop h, ih, Bool.false_eq_true, if_false]

theorem build_eq_survivors (T : FileType) (msgs : List Msg) : build T msgs = survivors T (msgs.map (normT T)) := by
  have h := foldl_addN T (msgs.map (normT T)) []
  rw [List.foldl_map] at h
  simp only [List.filter_nil, List.nil_append] at h
  exact h

theorem isSingleDecl_eq {T : FileType} (h : TableOK T) (n : Nat) : isSingleDecl T n = isSingle T n := by
  unfold isSingleDecl isSingle
  split
  · rename_i s hs
    have := List.all_eq_true.mp h.2.2.2.2.2 s (slotOf_mem hs).1
    rw [← (beq_iff_eq.mp this)]
  · rfl

theorem keepLastDecl_eq {T : FileType} (h : TableOK T) (l : List Msg) : keepLastDecl T l = keepLast T l := by
  induction l with
  | nil => rfl
  | cons m rest ih => simp only [keepLastDecl, keepLast, isSingleDecl_eq h, ih]

/-- the file keeps exactly: every message (normalised by its typed struct), except that of the messages of a
single-valued slot only the last survives — in arrival order -/
theorem build_eq_keepLast {T : FileType} (h : TableOK T) (msgs : List Msg) :
    build T msgs = keepLast T (msgs.map (normT T)) := by
  rw [build_eq_survivors, survivors_eq_keepLast h]


end
/-! ### emission: a partition of the stored messages -/
section
open Generated


def inSlots (ss : List Slot) (n : Nat) : Bool := ss.any (fun s => s.num == n)

theorem slotOf_isNone (T : FileType) (n : Nat) : (slotOf T n).isNone = !inSlots T.slots n := by
  unfold slotOf inSlots
  induction T.slots with
  | nil => rfl
  | cons s ss ih =>
    simp only [List.find?_cons, List.any_cons]
    cases h : (s.num == n) <;> simp [ih]

/-- splitting a list by the number of a duplicate-free slot list, plus the rest, is a permutation of it -/
theorem partition_perm : ∀ (ss : List Slot), (ss.map (·.num)).Nodup → ∀ f : List Msg,
    ((ss.map (fun s => f.filter (fun m => m.num == s.num))).flatten ++ f.filter (fun m => !inSlots ss m.num)).Perm f
  | [], _, f => by
    simp only [List.map_nil, List.flatten_nil, List.nil_append, inSlots, List.any_nil, Bool.not_false]
    rw [List.filter_eq_self.mpr (fun _ _ => rfl)]
  | s :: ss, hnd, f => by
    have hnd' : s.num ∉ ss.map (·.num) ∧ (ss.map (·.num)).Nodup := List.nodup_cons.mp hnd
    let g := f.filter (fun m => m.num != s.num)
    have ih := partition_perm ss hnd'.2 g
    have e1 : ss.map (fun s' => f.filter (fun m => m.num == s'.num)) = ss.map (fun s' => g.filter (fun m => m.num == s'.num)) := by
      apply List.map_congr_left
      intro s' hs'
      simp only [g, List.filter_filter]
      apply List.filter_congr
      intro m _
      by_cases h : m.num = s'.num
      · have : m.num ≠ s.num := by
          intro h2; apply hnd'.1; rw [← h2, h]; exact List.mem_map_of_mem hs'
        simp [h, bne_iff_ne]; rw [← h]; exact this
      · simp [h]
    have e2 : f.filter (fun m => !inSlots (s :: ss) m.num) = g.filter (fun m => !inSlots ss m.num) := by
      simp only [g, List.filter_filter, inSlots, List.any_cons]
      apply List.filter_congr
      intro m _
      by_cases h : s.num = m.num
      · simp [h]
      · have : (s.num == m.num) = false := beq_eq_false_iff_ne.mpr h
        have h2 : (m.num != s.num) = true := by simp [bne_iff_ne]; exact fun e => h e.symm
        simp [this, h2]
    simp only [List.map_cons, List.flatten_cons, List.append_assoc]
    rw [e1, e2]
    refine (List.Perm.append_left _ ih).trans ?_
    have := List.filter_append_perm (fun m : Msg => m.num == s.num) f
    refine List.Perm.trans ?_ this
    apply List.Perm.append_left
    simp only [g]
    apply List.Perm.of_eq
    apply List.filter_congr
    intro m _
    simp [bne]


end
/-! ### emission and toFIT as permutations -/
section
open Generated


theorem normT_num (T : FileType) (m : Msg) : (normT T m).num = m.num := by
  unfold normT; split <;> rfl

theorem keepLast_any (T : FileType) (n : Nat) (l : List Msg) :
    (keepLast T l).any (fun m => m.num == n) = l.any (fun m => m.num == n) := by
  induction l with
  | nil => rfl
  | cons m rest ih =>
    simp only [keepLast]
    split
    · rename_i h
      simp only [Bool.and_eq_true] at h
      rw [ih, List.any_cons]
      by_cases hn : m.num = n
      · subst hn; simp [h.2]
      · simp [hn]
    · simp [List.any_cons, ih]

theorem keepLast_single_le_one (T : FileType) (n : Nat) (hs : isSingle T n = true) (l : List Msg) :
    ((keepLast T l).filter (fun m => m.num == n)).length ≤ 1 := by
  induction l with
  | nil => simp [keepLast]
  | cons m rest ih =>
    simp only [keepLast]
    split
    · exact ih
    · rename_i h
      by_cases hn : m.num = n
      · subst hn
        have hnone : rest.any (fun x => x.num == m.num) = false := by
          simpa [hs] using h
        have : (keepLast T rest).filter (fun x => x.num == m.num) = [] := by
          rw [List.filter_eq_nil_iff]
          intro a ha
          have h2 := keepLast_any T m.num rest
          rw [hnone] at h2
          have := List.any_eq_false.mp h2 a ha
          simpa using this
        simp [this]
      · have : (m.num == n) = false := beq_eq_false_iff_ne.mpr hn
        simp [this]; exact ih

theorem slotMsgs_of_not_value (T : FileType) (f : File) (s : Slot) (h : s.kind ≠ .value) :
    slotMsgs T f s = f.filter (fun m => m.num == s.num) := by
  unfold slotMsgs
  have : (s.kind == Kind.value) = false := by cases hk : s.kind <;> simp_all
  simp [this]

theorem slotMsgs_of_any (T : FileType) (f : File) (s : Slot) (h : f.any (fun m => m.num == s.num) = true) :
    slotMsgs T f s = f.filter (fun m => m.num == s.num) := by
  unfold slotMsgs
  have : (f.filter (fun m => m.num == s.num)).isEmpty = false := by
    obtain ⟨a, ha, hp⟩ := List.any_eq_true.mp h
    have : a ∈ f.filter (fun m => m.num == s.num) := List.mem_filter.mpr ⟨ha, hp⟩
    cases hl : f.filter (fun m => m.num == s.num) with
    | nil => rw [hl] at this; cases this
    | cons _ _ => rfl
  simp [this]

theorem slotMsgs_default (T : FileType) (f : File) (s : Slot) (hk : s.kind = .value)
    (h : f.any (fun m => m.num == s.num) = false) :
    slotMsgs T f s = [defaultMsg T s.num] ∧ f.filter (fun m => m.num == s.num) = [] := by
  have hnil : f.filter (fun m => m.num == s.num) = [] := by
    rw [List.filter_eq_nil_iff]
    intro a ha
    have := List.any_eq_false.mp h a ha
    simpa using this
  refine ⟨?_, hnil⟩
  unfold slotMsgs
  simp [hk, hnil]

/-- shape of the slot list of a table that satisfies `TableOK` -/
theorem tableOK_slots {T : FileType} (h : TableOK T) : ∃ s0 s1 s2 rest, T.slots = s0 :: s1 :: s2 :: rest ∧
    s0.num = mesgNumFileId ∧ s0.kind = .value ∧ s1.num = mesgNumDeveloperDataId ∧ s1.kind = .list ∧
    s2.num = mesgNumFieldDescription ∧ s2.kind = .list ∧ ∀ s ∈ rest, s.kind ≠ .value := by
  obtain ⟨_, _, _, hp, _, _⟩ := h
  match hs : T.slots with
  | [] => rw [hs] at hp; simp [prefixOK] at hp
  | [_] => rw [hs] at hp; simp [prefixOK] at hp
  | [_, _] => rw [hs] at hp; simp [prefixOK] at hp
  | s0 :: s1 :: s2 :: rest =>
    rw [hs] at hp
    simp only [prefixOK, Bool.and_eq_true, beq_iff_eq, List.all_eq_true, bne_iff_ne] at hp
    obtain ⟨⟨⟨⟨⟨⟨a, b⟩, c⟩, d⟩, e⟩, g⟩, r⟩ := hp
    exact ⟨s0, s1, s2, rest, rfl, a, b, c, d, e, g, r⟩

/-- the emission is a permutation of the stored messages, plus the zero-valued file_id if none was added -/
theorem emission_perm {T : FileType} (h : TableOK T) (f : File) :
    (emission T f).Perm
      ((if f.any (fun m => m.num == mesgNumFileId) then [] else [defaultMsg T mesgNumFileId]) ++ f) := by
  obtain ⟨s0, s1, s2, rest, hsl, h0n, h0k, _, h1k, _, h2k, hrest⟩ := tableOK_slots h
  have hnd := h.1
  have hun : unrelated T f = f.filter (fun m => !inSlots T.slots m.num) := by
    unfold unrelated
    apply List.filter_congr
    intro m _
    exact slotOf_isNone T m.num
  have hothers : ∀ s ∈ s1 :: s2 :: rest, slotMsgs T f s = f.filter (fun m => m.num == s.num) := by
    intro s hs
    apply slotMsgs_of_not_value
    rcases List.mem_cons.mp hs with rfl | hs
    · rw [h1k]; decide
    · rcases List.mem_cons.mp hs with rfl | hs
      · rw [h2k]; decide
      · exact hrest s hs
  have hpart := partition_perm T.slots hnd f
  unfold emission groups
  rw [List.flatten_append, hun]
  simp only [List.flatten_cons, List.flatten_nil, List.append_nil]
  rw [hsl] at hpart ⊢
  rw [List.map_cons, List.map_congr_left hothers]
  rw [List.map_cons] at hpart
  by_cases hany : f.any (fun m => m.num == mesgNumFileId) = true
  · rw [if_pos hany, List.nil_append]
    rw [slotMsgs_of_any T f s0 (by rw [h0n]; exact hany)]
    exact hpart
  · have hany' : f.any (fun m => m.num == s0.num) = false := by rw [h0n]; simpa using hany
    obtain ⟨hd, hnil⟩ := slotMsgs_default T f s0 h0k hany'
    rw [if_neg hany, hd, h0n]
    rw [hnil] at hpart
    simp only [List.flatten_cons, List.nil_append, List.cons_append] at hpart ⊢
    exact List.Perm.cons _ hpart

theorem toFIT_perm_emission (T : FileType) (f : File) : (toFIT T f).Perm (emission T f) := by
  unfold toFIT emission
  have : (groups T f).flatten = ((groups T f).take T.sortFrom).flatten ++ ((groups T f).drop T.sortFrom).flatten := by
    rw [← List.flatten_append, List.take_append_drop]
  rw [this]
  exact List.Perm.append_left _ (sortStable_perm _)


end
/-! ### shape of the output -/
section
open Generated


/-- the groups after the three prefix groups -/
def restGroups (T : FileType) (f : File) : List (List Msg) := (groups T f).drop 3

/-- `toFIT` of a table with the prefix shape: three prefix groups, then the rest, of which a suffix is sorted -/
theorem toFIT_split {T : FileType} (h : TableOK T) (f : File) :
    ∃ s0 s1 s2 rest, T.slots = s0 :: s1 :: s2 :: rest ∧
    toFIT T f = slotMsgs T f s0 ++ (slotMsgs T f s1 ++ (slotMsgs T f s2 ++
      (((restGroups T f).take (T.sortFrom - 3)).flatten ++ sortStable ((restGroups T f).drop (T.sortFrom - 3)).flatten))) := by
  obtain ⟨s0, s1, s2, rest, hsl, _⟩ := tableOK_slots h
  refine ⟨s0, s1, s2, rest, hsl, ?_⟩
  obtain ⟨k, hk⟩ : ∃ k, T.sortFrom = k + 3 := ⟨T.sortFrom - 3, by have := h.2.2.2.2.1; omega⟩
  unfold toFIT restGroups
  have hg : groups T f = slotMsgs T f s0 :: slotMsgs T f s1 :: slotMsgs T f s2 :: (rest.map (slotMsgs T f) ++ [unrelated T f]) := by
    unfold groups; rw [hsl]; rfl
  rw [hg, hk]
  simp [List.take_succ_cons, List.drop_succ_cons]

theorem mem_restGroups {T : FileType} (h : TableOK T) (f : File) (m : Msg) (hm : m ∈ (restGroups T f).flatten) :
    isPrefixNum m.num = false := by
  obtain ⟨s0, s1, s2, rest, hsl, h0n, _, h1n, _, h2n, _, hrest⟩ := tableOK_slots h
  have hnd : (T.slots.map (·.num)).Nodup := h.1
  rw [hsl] at hnd
  simp only [List.map_cons, List.nodup_cons, List.mem_cons, List.mem_map, not_or, not_exists, not_and] at hnd
  obtain ⟨⟨n01, n02, n0r⟩, ⟨n12, n1r⟩, n2r, _⟩ := hnd
  have hg : restGroups T f = rest.map (slotMsgs T f) ++ [unrelated T f] := by
    unfold restGroups groups; rw [hsl]; rfl
  rw [hg, List.flatten_append, List.mem_append] at hm
  have key : m.num ≠ s0.num ∧ m.num ≠ s1.num ∧ m.num ≠ s2.num := by
    rcases hm with hm | hm
    · obtain ⟨l, hl, hml⟩ := List.mem_flatten.mp hm
      obtain ⟨s, hs, rfl⟩ := List.mem_map.mp hl
      rw [slotMsgs_of_not_value T f s (hrest s hs)] at hml
      have hn : m.num = s.num := by simpa using (List.mem_filter.mp hml).2
      rw [hn]
      exact ⟨fun e => n0r s hs e, fun e => n1r s hs e, fun e => n2r s hs e⟩
    · simp only [List.flatten_cons, List.flatten_nil, List.append_nil] at hm
      have hnone := (List.mem_filter.mp hm).2
      rw [slotOf_isNone, hsl] at hnone
      simp only [inSlots, List.any_cons, Bool.not_or, Bool.and_eq_true, Bool.not_eq_true', beq_eq_false_iff_ne] at hnone
      exact ⟨fun e => hnone.1 e.symm, fun e => hnone.2.1 e.symm, fun e => hnone.2.2.1 e.symm⟩
  rw [h0n, h1n, h2n] at key
  simp [isPrefixNum, key.1, key.2.1, key.2.2]

theorem isSingle_fileId {T : FileType} (h : TableOK T) : isSingle T mesgNumFileId = true := by
  obtain ⟨s0, s1, s2, rest, hsl, h0n, h0k, _⟩ := tableOK_slots h
  unfold isSingle slotOf
  rw [hsl]
  simp [h0n, h0k]


end
/-! ### the shape of `toFIT (build …)` (used by the C14 theorems) -/
section
open Generated

def hasFileId (msgs : List Msg) : Bool := msgs.any (fun m => m.num == mesgNumFileId)

/-- shape of the output: exactly one file_id, the developer_data_id messages, the field_description messages, the rest -/
def OutputShape (T : FileType) (msgs : List Msg) (fid : Msg) (rest : List Msg) : Prop :=
  toFIT T (build T msgs) =
    fid :: ((build T msgs).filter (fun m => m.num == mesgNumDeveloperDataId) ++
      ((build T msgs).filter (fun m => m.num == mesgNumFieldDescription) ++ rest))

/-- the part of the emission that follows the prefix (typed slots in table order, each in arrival order, then the
unrelated messages in arrival order) -/
def restEmission (T : FileType) (msgs : List Msg) : List Msg := (restGroups T (build T msgs)).flatten

theorem output_shape {T : FileType} (hok : TableOK T) (msgs : List Msg) :
    ∃ fid, fid.num = mesgNumFileId ∧ OutputShape T msgs fid
      (((restGroups T (build T msgs)).take (T.sortFrom - 3)).flatten ++
        sortStable ((restGroups T (build T msgs)).drop (T.sortFrom - 3)).flatten) := by
  obtain ⟨s0, s1, s2, rest, hsl, hsplit⟩ := toFIT_split hok (build T msgs)
  obtain ⟨s0', s1', s2', rest', hsl', h0n, h0k, h1n, h1k, h2n, h2k, _⟩ := tableOK_slots hok
  rw [hsl] at hsl'
  obtain ⟨rfl, rfl, rfl, rfl⟩ : s0 = s0' ∧ s1 = s1' ∧ s2 = s2' ∧ rest = rest' := by
    simp only [List.cons.injEq] at hsl'; exact ⟨hsl'.1, hsl'.2.1, hsl'.2.2.1, hsl'.2.2.2⟩
  have e1 : slotMsgs T (build T msgs) s1 = (build T msgs).filter (fun m => m.num == mesgNumDeveloperDataId) := by
    rw [slotMsgs_of_not_value _ _ _ (by rw [h1k]; decide), h1n]
  have e2 : slotMsgs T (build T msgs) s2 = (build T msgs).filter (fun m => m.num == mesgNumFieldDescription) := by
    rw [slotMsgs_of_not_value _ _ _ (by rw [h2k]; decide), h2n]
  -- the file_id group has exactly one element
  have e0 : ∃ fid, fid.num = mesgNumFileId ∧ slotMsgs T (build T msgs) s0 = [fid] := by
    by_cases hany : (build T msgs).any (fun m => m.num == s0.num) = true
    · rw [slotMsgs_of_any _ _ _ hany]
      have hle := keepLast_single_le_one T mesgNumFileId (isSingle_fileId hok) (msgs.map (normT T))
      rw [← build_eq_keepLast hok, ← h0n] at hle
      obtain ⟨a, ha, hp⟩ := List.any_eq_true.mp hany
      have hmem : a ∈ (build T msgs).filter (fun m => m.num == s0.num) := List.mem_filter.mpr ⟨ha, hp⟩
      match hl : (build T msgs).filter (fun m => m.num == s0.num) with
      | [] => rw [hl] at hmem; cases hmem
      | [x] =>
        refine ⟨x, ?_, hl⟩
        have : x ∈ (build T msgs).filter (fun m => m.num == s0.num) := by rw [hl]; simp
        rw [← h0n]; simpa using (List.mem_filter.mp this).2
      | _ :: _ :: _ => rw [hl] at hle; simp at hle
    · have hany' : (build T msgs).any (fun m => m.num == s0.num) = false := by simpa using hany
      obtain ⟨hd, _⟩ := slotMsgs_default T _ s0 h0k hany'
      exact ⟨defaultMsg T s0.num, h0n, hd⟩
  obtain ⟨fid, hfn, hf⟩ := e0
  refine ⟨fid, hfn, ?_⟩
  unfold OutputShape
  rw [hsplit, hf, e1, e2]
  rfl


end
end Fit.FileDef
