import FitModel.FileDef
/-! Lemmas about the file-type model (C14, first half): the stable sort, the build fold, the emission. Core Lean only. -/
namespace Fit.FileDef

/-! ### the order on keys -/

theorem keyLe_refl (a : Option Nat) : keyLe a a = true := by
  cases a <;> simp [keyLe]

theorem keyLe_total (a b : Option Nat) : keyLe a b = true ∨ keyLe b a = true := by
  cases a <;> cases b <;> simp [keyLe]; omega

theorem keyLe_trans {a b c : Option Nat} (h1 : keyLe a b = true) (h2 : keyLe b c = true) : keyLe a c = true := by
  cases a <;> cases b <;> cases c <;> simp_all [keyLe]; omega

theorem keyLe_antisymm {a b : Option Nat} (h1 : keyLe a b = true) (h2 : keyLe b a = true) : a = b := by
  cases a <;> cases b <;> simp_all [keyLe]; omega

/-- timestamp-less keys are least -/
theorem keyLe_none_right {a : Option Nat} (h : keyLe a none = true) : a = none := by
  cases a <;> simp_all [keyLe]

/-! Everything below is generic in the representation of a message (`Carrier`). -/
namespace G
variable {μ : Type} (C : Carrier μ)

theorem le_refl (a : μ) : le C a a = true := keyLe_refl _
theorem le_total (a b : μ) : le C a b = true ∨ le C b a = true := keyLe_total _ _
theorem le_trans {a b c : μ} (h1 : le C a b = true) (h2 : le C b c = true) : le C a c = true := keyLe_trans h1 h2

/-! ### insertion sort: permutation, sortedness, stability, uniqueness -/

def Sorted (l : List μ) : Prop := l.Pairwise (fun a b => le C a b = true)

theorem insertSorted_perm (x : μ) (l : List μ) : (insertSorted C x l).Perm (x :: l) := by
  induction l with
  | nil => simp [insertSorted]
  | cons y ys ih =>
    simp only [insertSorted]
    split
    · exact List.Perm.refl _
    · exact (List.Perm.cons y ih).trans (List.Perm.swap x y ys)

theorem sortStable_perm (l : List μ) : (sortStable C l).Perm l := by
  induction l with
  | nil => simp [sortStable]
  | cons x xs ih =>
    have : sortStable C (x :: xs) = insertSorted C x (sortStable C xs) := rfl
    rw [this]
    exact (insertSorted_perm C x _).trans (List.Perm.cons x ih)

theorem insertSorted_sorted (x : μ) (l : List μ) (h : Sorted C l) : Sorted C (insertSorted C x l) := by
  induction l with
  | nil => simp [insertSorted, Sorted]
  | cons y ys ih =>
    simp only [insertSorted]
    have hy := List.pairwise_cons.mp h
    split
    · rename_i hxy
      refine List.pairwise_cons.mpr ⟨?_, h⟩
      intro z hz
      rcases List.mem_cons.mp hz with rfl | hz
      · exact hxy
      · exact le_trans C hxy (hy.1 z hz)
    · rename_i hxy
      have hyx : le C y x = true := by
        rcases le_total C x y with h1 | h1
        · exact absurd h1 hxy
        · exact h1
      refine List.pairwise_cons.mpr ⟨?_, ih hy.2⟩
      intro z hz
      have := (insertSorted_perm C x ys).mem_iff.mp hz
      rcases List.mem_cons.mp this with rfl | hz
      · exact hyx
      · exact hy.1 z hz

theorem sortStable_sorted (l : List μ) : Sorted C (sortStable C l) := by
  induction l with
  | nil => simp [sortStable, Sorted]
  | cons x xs ih => exact insertSorted_sorted C x _ ih

/-- the messages with key `k`, in the order in which they stand in `l` -/
def withKey (k : Option Nat) (l : List μ) : List μ := l.filter (fun m => decide ((C.key m) = k))

theorem insertSorted_withKey (k : Option Nat) (x : μ) (l : List μ) :
    withKey C k (insertSorted C x l) = withKey C k (x :: l) := by
  induction l with
  | nil => simp [insertSorted]
  | cons y ys ih =>
    simp only [insertSorted]
    split
    · rfl
    · rename_i hxy
      have hne : ¬ ((C.key x) = k ∧ (C.key y) = k) := by
        intro ⟨h1, h2⟩
        apply hxy
        simp [le, h1, h2, keyLe_refl]
      simp only [withKey, List.filter_cons] at ih ⊢
      rw [ih]
      by_cases h1 : (C.key x) = k <;> by_cases h2 : (C.key y) = k <;> simp_all

/-- stability: messages with equal keys keep their relative order -/
theorem sortStable_withKey (k : Option Nat) (l : List μ) : withKey C k (sortStable C l) = withKey C k l := by
  induction l with
  | nil => simp [sortStable]
  | cons x xs ih =>
    have : sortStable C (x :: xs) = insertSorted C x (sortStable C xs) := rfl
    rw [this, insertSorted_withKey]
    simp only [withKey, List.filter_cons] at ih ⊢
    rw [ih]

/-- a sorted list is determined by its per-key subsequences: two sorted lists that agree on `withKey C k` for
every `k` are equal. Hence the stable sorted permutation of a list is unique, and ANY stable sorting
algorithm (`slices.SortStableFunc`) returns `sortStable C l`. -/
theorem sorted_ext : ∀ (l1 l2 : List μ), Sorted C l1 → Sorted C l2 → (∀ k, withKey C k l1 = withKey C k l2) → l1 = l2
  | [], [], _, _, _ => rfl
  | [], b :: t2, _, _, h => by
    have := h ((C.key b)); simp [withKey] at this
  | a :: t1, [], _, _, h => by
    have := h ((C.key a)); simp [withKey] at this
  | a :: t1, b :: t2, s1, s2, h => by
    have ha := List.pairwise_cons.mp s1
    have hb := List.pairwise_cons.mp s2
    -- b occurs in a :: t1 and a occurs in b :: t2
    have hb_mem : b ∈ a :: t1 := by
      have : b ∈ withKey C ((C.key b)) (a :: t1) := by rw [h]; simp [withKey]
      exact (List.mem_filter.mp this).1
    have ha_mem : a ∈ b :: t2 := by
      have : a ∈ withKey C ((C.key a)) (b :: t2) := by rw [← h]; simp [withKey]
      exact (List.mem_filter.mp this).1
    have hab : le C a b = true := by
      rcases List.mem_cons.mp hb_mem with rfl | hm
      · exact le_refl C _
      · exact ha.1 b hm
    have hba : le C b a = true := by
      rcases List.mem_cons.mp ha_mem with rfl | hm
      · exact le_refl C _
      · exact hb.1 a hm
    have hk : (C.key a) = (C.key b) := keyLe_antisymm hab hba
    have h0 := h ((C.key a))
    simp only [withKey, List.filter_cons, hk, decide_true, if_true] at h0
    have hab' : a = b := (List.cons.inj h0).1
    subst hab'
    have htail : ∀ k, withKey C k t1 = withKey C k t2 := by
      intro k
      have hk' := h k
      simp only [withKey, List.filter_cons] at hk' ⊢
      by_cases hka : (C.key a) = k
      · simp only [hka, decide_true, if_true] at hk'
        exact (List.cons.inj hk').2
      · simp only [hka, decide_false] at hk'
        exact hk'
    rw [sorted_ext t1 t2 ha.2 hb.2 htail]

theorem sortStable_unique (l l' : List μ) (hs : Sorted C l') (hst : ∀ k, withKey C k l' = withKey C k l) :
    l' = sortStable C l :=
  sorted_ext C l' (sortStable C l) hs (sortStable_sorted C l) (fun k => by rw [hst k, sortStable_withKey])

/-! ### the build fold -/


/-- what a file keeps of a message list, dropped numbers included (`keepLast` = the same without dropped numbers) -/
def survivors (T : FileType) : List μ → List μ
  | [] => []
  | m :: rest =>
    if isDropped T (C.num m) then survivors T rest
    else if isSingle T (C.num m) && rest.any (fun x => (C.num x) == (C.num m)) then survivors T rest
    else m :: survivors T rest

theorem isSingle_of_isDropped {T : FileType} {n : Nat} (h : isDropped T n = true) : isSingle T n = false := by
  unfold isDropped at h; unfold isSingle
  split <;> simp_all

theorem foldl_addN (T : FileType) (msgs : List μ) : ∀ acc : List μ,
    msgs.foldl (addN C T) acc =
      acc.filter (fun a => !(isSingle T (C.num a) && msgs.any (fun x => (C.num x) == (C.num a)))) ++ survivors C T msgs := by
  induction msgs with
  | nil =>
    intro acc
    simp only [survivors, List.foldl_nil, List.any_nil, Bool.and_false, Bool.not_false, List.append_nil]
    exact (List.filter_eq_self.mpr (fun _ _ => rfl)).symm
  | cons m rest ih =>
    intro acc
    rw [List.foldl_cons, ih]
    by_cases hd : isDropped T (C.num m) = true
    · have hs := isSingle_of_isDropped hd
      simp only [addN, hd, if_true, survivors]
      congr 1
      apply List.filter_congr
      intro a _
      by_cases ham : (C.num m) = (C.num a)
      · simp [← ham, hs]
      · have hb : ((C.num m) == (C.num a)) = false := beq_eq_false_iff_ne.mpr ham
        simp [hb]
    · by_cases hs : isSingle T (C.num m) = true
      · simp only [addN, hd, hs, survivors, Bool.false_eq_true, if_false, if_true, List.filter_append, List.filter_filter, Bool.true_and]
        rw [List.append_assoc]
        congr 1
        · apply List.filter_congr
          intro a _
          by_cases ham : (C.num m) = (C.num a)
          · have : (C.num a) = (C.num m) := ham.symm
            simp [this, hs]
          · have hb : ((C.num m) == (C.num a)) = false := beq_eq_false_iff_ne.mpr ham
            have hb' : ((C.num a) != (C.num m)) = true := by simp [bne_iff_ne]; exact fun h => ham h.symm
            simp [hb, hb']
        · by_cases hany : rest.any (fun x => (C.num x) == (C.num m)) = true
          · simp [hany, hs]
          · simp [hany, hs]
      · simp only [addN, hd, hs, survivors, Bool.false_eq_true, if_false, List.filter_append, Bool.false_and]
        rw [List.append_assoc]
        congr 1
        · apply List.filter_congr
          intro a _
          by_cases ham : (C.num m) = (C.num a)
          · simp [← ham, hs]
          · have hb : ((C.num m) == (C.num a)) = false := beq_eq_false_iff_ne.mpr ham
            simp [hb]
        · simp [hs]


/-! ### table obligations; build = keepLast -/
section
open Generated


/-- the first three slots are file_id (a value), developer_data_id and field_description (lists); no other value slot -/
def prefixOK : List Slot → Bool
  | s0 :: s1 :: s2 :: rest =>
    s0.num == mesgNumFileId && s0.kind == .value && s1.num == mesgNumDeveloperDataId && s1.kind == .list &&
    s2.num == mesgNumFieldDescription && s2.kind == .list && rest.all (fun s => s.kind != .value)
  | _ => false

/-- what the theorems need of a (regenerated) table; decidable, re-checked by the kernel on every run -/
def TableOK (T : FileType) : Prop :=
  (T.slots.map (·.num)).Nodup ∧ T.slots.all (fun s => s.kind != .dropped) = true ∧ T.dropped = [] ∧
  prefixOK T.slots = true ∧ 3 ≤ T.sortFrom ∧ T.slots.all (fun s => s.kind == s.decl) = true ∧ T.declOnly = []

instance (T : FileType) : Decidable (TableOK T) := by unfold TableOK; infer_instance

theorem slotOf_mem {T : FileType} {n : Nat} {s : Slot} (h : slotOf T n = some s) : s ∈ T.slots ∧ s.num = n := by
  unfold slotOf at h
  exact ⟨List.mem_of_find?_eq_some h, by simpa using List.find?_some h⟩

theorem noDrop {T : FileType} (h : TableOK T) (n : Nat) : isDropped T n = false := by
  obtain ⟨_, hk, hd, _, _, _, _⟩ := h
  unfold isDropped
  split
  · rename_i s hs
    have := List.all_eq_true.mp hk s (slotOf_mem hs).1
    simpa using this
  · simp [hd]

theorem survivors_eq_keepLast {T : FileType} (h : TableOK T) (l : List μ) : survivors C T l = keepLast C T l := by
  induction l with
  | nil => rfl
  | cons m rest ih => simp only [survivors, keepLast, noDrop h, ih, Bool.false_eq_true, if_false]

theorem build_eq_survivors (T : FileType) (msgs : List μ) : build C T msgs = survivors C T (msgs.map (C.norm T)) := by
  have h := foldl_addN C T (msgs.map (C.norm T)) []
  rw [List.foldl_map] at h
  simp only [List.filter_nil, List.nil_append] at h
  exact h

theorem isSingleDecl_eq {T : FileType} (h : TableOK T) (n : Nat) : isSingleDecl T n = isSingle T n := by
  unfold isSingleDecl isSingle
  split
  · rename_i s hs
    have := List.all_eq_true.mp h.2.2.2.2.2.1 s (slotOf_mem hs).1
    rw [← (beq_iff_eq.mp this)]
  · rfl

theorem keepLastDecl_eq {T : FileType} (h : TableOK T) (l : List μ) : keepLastDecl C T l = keepLast C T l := by
  induction l with
  | nil => rfl
  | cons m rest ih => simp only [keepLastDecl, keepLast, isSingleDecl_eq h, ih]

/-- the file keeps exactly: every message (normalised by its typed struct), except that of the messages of a
single-valued slot only the last survives — in arrival order -/
theorem build_eq_keepLast {T : FileType} (h : TableOK T) (msgs : List μ) :
    build C T msgs = keepLast C T (msgs.map (C.norm T)) := by
  rw [build_eq_survivors, survivors_eq_keepLast C h]


end
/-! ### emission: a partition of the stored messages -/
section
open Generated


def inSlots (ss : List Slot) (n : Nat) : Bool := ss.any (fun s => s.num == n)

theorem slotOf_isNone (T : FileType) (n : Nat) : (slotOf T n).isNone = !inSlots T.slots n := by
  unfold slotOf inSlots
  induction T.slots with
  | nil => rfl
  | cons s ss ih =>
    simp only [List.find?_cons, List.any_cons]
    cases h : (s.num == n) <;> simp [ih]

/-- splitting a list by the number of a duplicate-free slot list, plus the rest, is a permutation of it -/
theorem partition_perm : ∀ (ss : List Slot), (ss.map (·.num)).Nodup → ∀ f : List μ,
    ((ss.map (fun s => f.filter (fun m => (C.num m) == s.num))).flatten ++ f.filter (fun m => !inSlots ss (C.num m))).Perm f
  | [], _, f => by
    simp only [List.map_nil, List.flatten_nil, List.nil_append, inSlots, List.any_nil, Bool.not_false]
    rw [List.filter_eq_self.mpr (fun _ _ => rfl)]
  | s :: ss, hnd, f => by
    have hnd' : s.num ∉ ss.map (·.num) ∧ (ss.map (·.num)).Nodup := List.nodup_cons.mp hnd
    let g := f.filter (fun m => (C.num m) != s.num)
    have ih := partition_perm ss hnd'.2 g
    have e1 : ss.map (fun s' => f.filter (fun m => (C.num m) == s'.num)) = ss.map (fun s' => g.filter (fun m => (C.num m) == s'.num)) := by
      apply List.map_congr_left
      intro s' hs'
      simp only [g, List.filter_filter]
      apply List.filter_congr
      intro m _
      by_cases h : (C.num m) = s'.num
      · have : (C.num m) ≠ s.num := by
          intro h2; apply hnd'.1; rw [← h2, h]; exact List.mem_map_of_mem hs'
        simp [h, bne_iff_ne]; rw [← h]; exact this
      · simp [h]
    have e2 : f.filter (fun m => !inSlots (s :: ss) (C.num m)) = g.filter (fun m => !inSlots ss (C.num m)) := by
      simp only [g, List.filter_filter, inSlots, List.any_cons]
      apply List.filter_congr
      intro m _
      by_cases h : s.num = (C.num m)
      · simp [h]
      · have : (s.num == (C.num m)) = false := beq_eq_false_iff_ne.mpr h
        have h2 : ((C.num m) != s.num) = true := by simp [bne_iff_ne]; exact fun e => h e.symm
        simp [this, h2]
    simp only [List.map_cons, List.flatten_cons, List.append_assoc]
    rw [e1, e2]
    refine (List.Perm.append_left _ ih).trans ?_
    have := List.filter_append_perm (fun m : μ => (C.num m) == s.num) f
    refine List.Perm.trans ?_ this
    apply List.Perm.append_left
    simp only [g]
    apply List.Perm.of_eq
    apply List.filter_congr
    intro m _
    simp [bne]


end
/-! ### emission and toFIT as permutations -/
section
open Generated


theorem keepLast_any (T : FileType) (n : Nat) (l : List μ) :
    (keepLast C T l).any (fun m => (C.num m) == n) = l.any (fun m => (C.num m) == n) := by
  induction l with
  | nil => rfl
  | cons m rest ih =>
    simp only [keepLast]
    split
    · rename_i h
      simp only [Bool.and_eq_true] at h
      rw [ih, List.any_cons]
      by_cases hn : (C.num m) = n
      · subst hn; simp [h.2]
      · simp [hn]
    · simp [List.any_cons, ih]

theorem keepLast_single_le_one (T : FileType) (n : Nat) (hs : isSingle T n = true) (l : List μ) :
    ((keepLast C T l).filter (fun m => (C.num m) == n)).length ≤ 1 := by
  induction l with
  | nil => simp [keepLast]
  | cons m rest ih =>
    simp only [keepLast]
    split
    · exact ih
    · rename_i h
      by_cases hn : (C.num m) = n
      · subst hn
        have hnone : rest.any (fun x => (C.num x) == (C.num m)) = false := by
          simpa [hs] using h
        have : (keepLast C T rest).filter (fun x => (C.num x) == (C.num m)) = [] := by
          rw [List.filter_eq_nil_iff]
          intro a ha
          have h2 := keepLast_any C T (C.num m) rest
          rw [hnone] at h2
          have := List.any_eq_false.mp h2 a ha
          simpa using this
        simp [this]
      · have : ((C.num m) == n) = false := beq_eq_false_iff_ne.mpr hn
        simp [this]; exact ih

theorem slotMsgs_of_not_value (T : FileType) (f : List μ) (s : Slot) (h : s.kind ≠ .value) :
    slotMsgs C T f s = f.filter (fun m => (C.num m) == s.num) := by
  unfold slotMsgs
  have : (s.kind == Kind.value) = false := by cases hk : s.kind <;> simp_all
  simp [this]

theorem slotMsgs_of_any (T : FileType) (f : List μ) (s : Slot) (h : f.any (fun m => (C.num m) == s.num) = true) :
    slotMsgs C T f s = f.filter (fun m => (C.num m) == s.num) := by
  unfold slotMsgs
  have : (f.filter (fun m => (C.num m) == s.num)).isEmpty = false := by
    obtain ⟨a, ha, hp⟩ := List.any_eq_true.mp h
    have : a ∈ f.filter (fun m => (C.num m) == s.num) := List.mem_filter.mpr ⟨ha, hp⟩
    cases hl : f.filter (fun m => (C.num m) == s.num) with
    | nil => rw [hl] at this; cases this
    | cons _ _ => rfl
  simp [this]

theorem slotMsgs_default (T : FileType) (f : List μ) (s : Slot) (hk : s.kind = .value)
    (h : f.any (fun m => (C.num m) == s.num) = false) :
    slotMsgs C T f s = [C.dflt T s.num] ∧ f.filter (fun m => (C.num m) == s.num) = [] := by
  have hnil : f.filter (fun m => (C.num m) == s.num) = [] := by
    rw [List.filter_eq_nil_iff]
    intro a ha
    have := List.any_eq_false.mp h a ha
    simpa using this
  refine ⟨?_, hnil⟩
  unfold slotMsgs
  simp [hk, hnil]

/-- shape of the slot list of a table that satisfies `TableOK` -/
theorem tableOK_slots {T : FileType} (h : TableOK T) : ∃ s0 s1 s2 rest, T.slots = s0 :: s1 :: s2 :: rest ∧
    s0.num = mesgNumFileId ∧ s0.kind = .value ∧ s1.num = mesgNumDeveloperDataId ∧ s1.kind = .list ∧
    s2.num = mesgNumFieldDescription ∧ s2.kind = .list ∧ ∀ s ∈ rest, s.kind ≠ .value := by
  obtain ⟨_, _, _, hp, _, _, _⟩ := h
  match hs : T.slots with
  | [] => rw [hs] at hp; simp [prefixOK] at hp
  | [_] => rw [hs] at hp; simp [prefixOK] at hp
  | [_, _] => rw [hs] at hp; simp [prefixOK] at hp
  | s0 :: s1 :: s2 :: rest =>
    rw [hs] at hp
    simp only [prefixOK, Bool.and_eq_true, beq_iff_eq, List.all_eq_true, bne_iff_ne] at hp
    obtain ⟨⟨⟨⟨⟨⟨a, b⟩, c⟩, d⟩, e⟩, g⟩, r⟩ := hp
    exact ⟨s0, s1, s2, rest, rfl, a, b, c, d, e, g, r⟩

/-- the emission is a permutation of the stored messages, plus the zero-valued file_id if none was added -/
theorem emission_perm {T : FileType} (h : TableOK T) (f : List μ) :
    (emission C T f).Perm
      ((if f.any (fun m => (C.num m) == mesgNumFileId) then [] else [C.dflt T mesgNumFileId]) ++ f) := by
  obtain ⟨s0, s1, s2, rest, hsl, h0n, h0k, _, h1k, _, h2k, hrest⟩ := tableOK_slots h
  have hnd := h.1
  have hun : unrelated C T f = f.filter (fun m => !inSlots T.slots (C.num m)) := by
    unfold unrelated
    apply List.filter_congr
    intro m _
    exact slotOf_isNone T (C.num m)
  have hothers : ∀ s ∈ s1 :: s2 :: rest, slotMsgs C T f s = f.filter (fun m => (C.num m) == s.num) := by
    intro s hs
    apply slotMsgs_of_not_value
    rcases List.mem_cons.mp hs with rfl | hs
    · rw [h1k]; decide
    · rcases List.mem_cons.mp hs with rfl | hs
      · rw [h2k]; decide
      · exact hrest s hs
  have hpart := partition_perm C T.slots hnd f
  unfold emission groups
  rw [List.flatten_append, hun]
  simp only [List.flatten_cons, List.flatten_nil, List.append_nil]
  rw [hsl] at hpart ⊢
  rw [List.map_cons, List.map_congr_left hothers]
  rw [List.map_cons] at hpart
  by_cases hany : f.any (fun m => (C.num m) == mesgNumFileId) = true
  · rw [if_pos hany, List.nil_append]
    rw [slotMsgs_of_any C T f s0 (by rw [h0n]; exact hany)]
    exact hpart
  · have hany' : f.any (fun m => (C.num m) == s0.num) = false := by rw [h0n]; simpa using hany
    obtain ⟨hd, hnil⟩ := slotMsgs_default C T f s0 h0k hany'
    rw [if_neg hany, hd, h0n]
    rw [hnil] at hpart
    simp only [List.flatten_cons, List.nil_append, List.cons_append] at hpart ⊢
    exact List.Perm.cons _ hpart

theorem toFIT_perm_emission (T : FileType) (f : List μ) : (toFIT C T f).Perm (emission C T f) := by
  unfold toFIT emission
  have : (groups C T f).flatten = ((groups C T f).take T.sortFrom).flatten ++ ((groups C T f).drop T.sortFrom).flatten := by
    rw [← List.flatten_append, List.take_append_drop]
  rw [this]
  exact List.Perm.append_left _ (sortStable_perm C _)


end
/-! ### shape of the output -/
section
open Generated


/-- the groups after the three prefix groups -/
def restGroups (T : FileType) (f : List μ) : List (List μ) := (groups C T f).drop 3

/-- `toFIT` of a table with the prefix shape: three prefix groups, then the rest, of which a suffix is sorted -/
theorem toFIT_split {T : FileType} (h : TableOK T) (f : List μ) :
    ∃ s0 s1 s2 rest, T.slots = s0 :: s1 :: s2 :: rest ∧
    toFIT C T f = slotMsgs C T f s0 ++ (slotMsgs C T f s1 ++ (slotMsgs C T f s2 ++
      (((restGroups C T f).take (T.sortFrom - 3)).flatten ++ sortStable C ((restGroups C T f).drop (T.sortFrom - 3)).flatten))) := by
  obtain ⟨s0, s1, s2, rest, hsl, _⟩ := tableOK_slots h
  refine ⟨s0, s1, s2, rest, hsl, ?_⟩
  obtain ⟨k, hk⟩ : ∃ k, T.sortFrom = k + 3 := ⟨T.sortFrom - 3, by have := h.2.2.2.2.1; omega⟩
  unfold toFIT restGroups
  have hg : groups C T f = slotMsgs C T f s0 :: slotMsgs C T f s1 :: slotMsgs C T f s2 :: (rest.map (slotMsgs C T f) ++ [unrelated C T f]) := by
    unfold groups; rw [hsl]; rfl
  rw [hg, hk]
  simp [List.take_succ_cons, List.drop_succ_cons]

theorem mem_restGroups {T : FileType} (h : TableOK T) (f : List μ) (m : μ) (hm : m ∈ (restGroups C T f).flatten) :
    isPrefixNum (C.num m) = false := by
  obtain ⟨s0, s1, s2, rest, hsl, h0n, _, h1n, _, h2n, _, hrest⟩ := tableOK_slots h
  have hnd : (T.slots.map (·.num)).Nodup := h.1
  rw [hsl] at hnd
  simp only [List.map_cons, List.nodup_cons, List.mem_cons, List.mem_map, not_or, not_exists, not_and] at hnd
  obtain ⟨⟨n01, n02, n0r⟩, ⟨n12, n1r⟩, n2r, _⟩ := hnd
  have hg : restGroups C T f = rest.map (slotMsgs C T f) ++ [unrelated C T f] := by
    unfold restGroups groups; rw [hsl]; rfl
  rw [hg, List.flatten_append, List.mem_append] at hm
  have hkey : (C.num m) ≠ s0.num ∧ (C.num m) ≠ s1.num ∧ (C.num m) ≠ s2.num := by
    rcases hm with hm | hm
    · obtain ⟨l, hl, hml⟩ := List.mem_flatten.mp hm
      obtain ⟨s, hs, rfl⟩ := List.mem_map.mp hl
      rw [slotMsgs_of_not_value C T f s (hrest s hs)] at hml
      have hn : (C.num m) = s.num := by simpa using (List.mem_filter.mp hml).2
      rw [hn]
      exact ⟨fun e => n0r s hs e, fun e => n1r s hs e, fun e => n2r s hs e⟩
    · simp only [List.flatten_cons, List.flatten_nil, List.append_nil] at hm
      have hnone := (List.mem_filter.mp hm).2
      rw [slotOf_isNone, hsl] at hnone
      simp only [inSlots, List.any_cons, Bool.not_or, Bool.and_eq_true, Bool.not_eq_true', beq_eq_false_iff_ne] at hnone
      exact ⟨fun e => hnone.1 e.symm, fun e => hnone.2.1 e.symm, fun e => hnone.2.2.1 e.symm⟩
  rw [h0n, h1n, h2n] at hkey
  simp [isPrefixNum, hkey.1, hkey.2.1, hkey.2.2]

theorem isSingle_fileId {T : FileType} (h : TableOK T) : isSingle T mesgNumFileId = true := by
  obtain ⟨s0, s1, s2, rest, hsl, h0n, h0k, _⟩ := tableOK_slots h
  unfold isSingle slotOf
  rw [hsl]
  simp [h0n, h0k]


end
/-! ### the shape of `toFIT (build …)` (used by the C14 theorems) -/
section
open Generated

def hasFileId (msgs : List μ) : Bool := msgs.any (fun m => (C.num m) == mesgNumFileId)

/-- shape of the output: exactly one file_id, the developer_data_id messages, the field_description messages, the rest -/
def OutputShape (T : FileType) (msgs : List μ) (fid : μ) (rest : List μ) : Prop :=
  toFIT C T (build C T msgs) =
    fid :: ((build C T msgs).filter (fun m => (C.num m) == mesgNumDeveloperDataId) ++
      ((build C T msgs).filter (fun m => (C.num m) == mesgNumFieldDescription) ++ rest))

/-- the part of the emission that follows the prefix (typed slots in table order, each in arrival order, then the
unrelated messages in arrival order) -/
def restEmission (T : FileType) (msgs : List μ) : List μ := (restGroups C T (build C T msgs)).flatten

theorem output_shape (hC : C.Lawful) {T : FileType} (hok : TableOK T) (msgs : List μ) :
    ∃ fid, (C.num fid) = mesgNumFileId ∧ OutputShape C T msgs fid
      (((restGroups C T (build C T msgs)).take (T.sortFrom - 3)).flatten ++
        sortStable C ((restGroups C T (build C T msgs)).drop (T.sortFrom - 3)).flatten) := by
  obtain ⟨s0, s1, s2, rest, hsl, hsplit⟩ := toFIT_split C hok (build C T msgs)
  obtain ⟨s0', s1', s2', rest', hsl', h0n, h0k, h1n, h1k, h2n, h2k, _⟩ := tableOK_slots hok
  rw [hsl] at hsl'
  obtain ⟨rfl, rfl, rfl, rfl⟩ : s0 = s0' ∧ s1 = s1' ∧ s2 = s2' ∧ rest = rest' := by
    simp only [List.cons.injEq] at hsl'; exact ⟨hsl'.1, hsl'.2.1, hsl'.2.2.1, hsl'.2.2.2⟩
  have e1 : slotMsgs C T (build C T msgs) s1 = (build C T msgs).filter (fun m => (C.num m) == mesgNumDeveloperDataId) := by
    rw [slotMsgs_of_not_value C _ _ _ (by rw [h1k]; decide), h1n]
  have e2 : slotMsgs C T (build C T msgs) s2 = (build C T msgs).filter (fun m => (C.num m) == mesgNumFieldDescription) := by
    rw [slotMsgs_of_not_value C _ _ _ (by rw [h2k]; decide), h2n]
  -- the file_id group has exactly one element
  have e0 : ∃ fid, (C.num fid) = mesgNumFileId ∧ slotMsgs C T (build C T msgs) s0 = [fid] := by
    by_cases hany : (build C T msgs).any (fun m => (C.num m) == s0.num) = true
    · rw [slotMsgs_of_any C _ _ _ hany]
      have hle := keepLast_single_le_one C T mesgNumFileId (isSingle_fileId hok) (msgs.map (C.norm T))
      rw [← build_eq_keepLast C hok, ← h0n] at hle
      obtain ⟨a, ha, hp⟩ := List.any_eq_true.mp hany
      have hmem : a ∈ (build C T msgs).filter (fun m => (C.num m) == s0.num) := List.mem_filter.mpr ⟨ha, hp⟩
      match hl : (build C T msgs).filter (fun m => (C.num m) == s0.num) with
      | [] => rw [hl] at hmem; cases hmem
      | [x] =>
        refine ⟨x, ?_, rfl⟩
        have : x ∈ (build C T msgs).filter (fun m => (C.num m) == s0.num) := by rw [hl]; simp
        rw [← h0n]; simpa using (List.mem_filter.mp this).2
      | _ :: _ :: _ => rw [hl] at hle; simp at hle
    · have hany' : (build C T msgs).any (fun m => (C.num m) == s0.num) = false := by simpa using hany
      obtain ⟨hd, _⟩ := slotMsgs_default C T _ s0 h0k hany'
      exact ⟨C.dflt T s0.num, by rw [hC.dflt_num, h0n], hd⟩
  obtain ⟨fid, hfn, hf⟩ := e0
  refine ⟨fid, hfn, ?_⟩
  unfold OutputShape
  rw [hsplit, hf, e1, e2]
  rfl


end
/-! ### the statements of C14 (first half), for any carrier -/
section
open Generated

theorem hasFileId_keepLast (hC : C.Lawful) (T : FileType) (msgs : List μ) :
    (keepLast C T (msgs.map (C.norm T))).any (fun m => C.num m == mesgNumFileId) = hasFileId C msgs := by
  rw [keepLast_any, List.any_map]
  simp [hasFileId, Function.comp_def, hC.norm_num]

theorem build_keeps_last {T : FileType} (hok : TableOK T) (msgs : List μ) :
    build C T msgs = keepLastDecl C T (msgs.map (C.norm T)) := by
  rw [keepLastDecl_eq C hok]; exact build_eq_keepLast C hok msgs

theorem conservation (hC : C.Lawful) {T : FileType} (hok : TableOK T) (msgs : List μ) (hfid : hasFileId C msgs = true) :
    (toFIT C T (build C T msgs)).Perm (keepLastDecl C T (msgs.map (C.norm T))) := by
  rw [keepLastDecl_eq C hok]
  have h1 := (toFIT_perm_emission C T (build C T msgs)).trans (emission_perm C hok (build C T msgs))
  rw [build_eq_keepLast C hok] at h1 ⊢
  rw [hasFileId_keepLast C hC, hfid] at h1
  simpa using h1

theorem conservation_no_file_id (hC : C.Lawful) {T : FileType} (hok : TableOK T) (msgs : List μ)
    (hfid : hasFileId C msgs = false) :
    (toFIT C T (build C T msgs)).Perm (C.dflt T mesgNumFileId :: keepLastDecl C T (msgs.map (C.norm T))) := by
  rw [keepLastDecl_eq C hok]
  have h1 := (toFIT_perm_emission C T (build C T msgs)).trans (emission_perm C hok (build C T msgs))
  rw [build_eq_keepLast C hok] at h1 ⊢
  rw [hasFileId_keepLast C hC, hfid] at h1
  simpa using h1

theorem prefix_order (hC : C.Lawful) {T : FileType} (hok : TableOK T) (msgs : List μ) :
    ∃ fid rest, C.num fid = mesgNumFileId ∧ OutputShape C T msgs fid rest ∧ ∀ m ∈ rest, isPrefixNum (C.num m) = false := by
  obtain ⟨fid, hfn, hshape⟩ := output_shape C hC hok msgs
  refine ⟨fid, _, hfn, hshape, ?_⟩
  intro m hm
  apply mem_restGroups C hok (build C T msgs) m
  have hperm : (((restGroups C T (build C T msgs)).take (T.sortFrom - 3)).flatten ++
      sortStable C ((restGroups C T (build C T msgs)).drop (T.sortFrom - 3)).flatten).Perm
        (restGroups C T (build C T msgs)).flatten := by
    have : (restGroups C T (build C T msgs)).flatten = ((restGroups C T (build C T msgs)).take (T.sortFrom - 3)).flatten ++
        ((restGroups C T (build C T msgs)).drop (T.sortFrom - 3)).flatten := by
      rw [← List.flatten_append, List.take_append_drop]
    rw [this]
    exact List.Perm.append_left _ (sortStable_perm C _)
  exact hperm.mem_iff.mp hm

theorem timestampless_first (a c : List μ) (b : μ) (hs : Sorted C (a ++ b :: c)) (hb : C.key b = none) :
    ∀ x ∈ a, C.key x = none := by
  intro x hx
  have := (List.pairwise_append.mp hs).2.2 x hx b (List.mem_cons_self)
  unfold le at this
  rw [hb] at this
  exact keyLe_none_right this

theorem sorted_stable_of_sortFrom3 (hC : C.Lawful) {T : FileType} (hok : TableOK T) (h3 : T.sortFrom = 3) (msgs : List μ) :
    ∃ fid, OutputShape C T msgs fid (sortStable C (restEmission C T msgs)) ∧
      Sorted C (sortStable C (restEmission C T msgs)) ∧
      (∀ k, withKey C k (sortStable C (restEmission C T msgs)) = withKey C k (restEmission C T msgs)) := by
  obtain ⟨fid, _, hshape⟩ := output_shape C hC hok msgs
  rw [h3] at hshape
  simp only [Nat.sub_self, List.take_zero, List.flatten_nil, List.nil_append, List.drop_zero] at hshape
  exact ⟨fid, hshape, sortStable_sorted C _, fun k => sortStable_withKey C k _⟩

end

end G

/-! ### the abstract messages -/

theorem normT_num (T : FileType) (m : Msg) : (normT T m).num = m.num := by
  unfold normT; split <;> rfl

export G (TableOK prefixOK)

theorem absC_lawful : absC.Lawful := ⟨normT_num, fun _ _ => rfl⟩

end Fit.FileDef
