import FitProps.C17Defs
import FitModel.Generated.GenDigest
import FitModel.Generated.TreeDigest
/-! Kernel evaluation for `FitProps/C17.lean` (the statement and what it means are documented there): the two digest tables
of the byte-for-byte clause meet here and nowhere else. -/
namespace Fit.C17.Lemmas
open Fit.ProfileSpec Fit.Gen Fit.C17

theorem bytes_tables :
    Digest.generatorRan = true ∧ Digest.files ≠ [] ∧
    filesMatch otherGenerators fitgenProgram Tree.files Digest.files = true ∧
    nodupNat (Tree.files.map (·.path)) = true := by
  decide +kernel

end Fit.C17.Lemmas
