import FitProps.WireLemmas
import FitProps.C04
/-!
Helper lemmas for `C02_integrity_accepts`: the model of `Decoder.CheckIntegrity` (FitModel/Integrity.lean) on what the
wire-level encoder model writes. No byte hypothesis is needed: the check compares the table-form CRC with the table-form
CRC the encoder stored, for 12- and 14-byte headers alike (the code's checksum restarts after the header, which is
exactly what the encoder's does).
-/
namespace Fit.C02
open Fit.Wire
open Fit.Crc (write)

theorem le16_back (w : Nat) (hw : w < 65536) : w % 256 + 256 * (w / 256 % 256) = w := by omega

/-- the decoder's header step on a 14-byte header that carries the table-form CRC of its first twelve bytes -/
theorem header14_own_crc (pv p0 p1 d0 d1 d2 d3 : Nat) (x : List Nat)
    (hD : d0 + 256 * d1 + 65536 * d2 + 16777216 * d3 ≠ 0) :
    Integrity.decodeFileHeader true (14 :: pv :: p0 :: p1 :: d0 :: d1 :: d2 :: d3 :: 0x2E :: 0x46 :: 0x49 :: 0x54 ::
        (write 0 [14, pv, p0, p1, d0, d1, d2, d3, 0x2E, 0x46, 0x49, 0x54] % 256) ::
        (write 0 [14, pv, p0, p1, d0, d1, d2, d3, 0x2E, 0x46, 0x49, 0x54] / 256 % 256) :: x) =
      .ok (⟨14, d0 + 256 * d1 + 65536 * d2 + 16777216 * d3, write 0 [14, pv, p0, p1, d0, d1, d2, d3, 0x2E, 0x46, 0x49, 0x54]⟩, x) := by
  have hlt : write 0 [14, pv, p0, p1, d0, d1, d2, d3, 0x2E, 0x46, 0x49, 0x54] < 65536 := Fit.Crc.write_lt 0 (by decide) _
  have hw : write (write 0 [14]) [pv, p0, p1, d0, d1, d2, d3, 0x2E, 0x46, 0x49, 0x54] =
      write 0 [14, pv, p0, p1, d0, d1, d2, d3, 0x2E, 0x46, 0x49, 0x54] := rfl
  unfold Integrity.decodeFileHeader
  simp only [Integrity.hasN, List.take, List.drop, Integrity.le32, Integrity.le16, Integrity.dataTypeFIT_eq, hw,
    le16_back _ hlt]
  simp
  omega

/-- the decoder's header step accepts the header the encoder writes, for both header sizes -/
theorem decodeFileHeader_hdrBytes (h : Hdr) (ds : Nat) (x : Bytes) (hs : h.size = 12 ∨ h.size = 14)
    (hds0 : ds ≠ 0) (hds : ds < 4294967296) :
    ∃ hd, Integrity.decodeFileHeader true (hdrBytes h ds ++ x) = .ok (hd, x) ∧ hd.dataSize = ds := by
  have hD : ds % 256 + 256 * (ds / 256 % 256) + 65536 * (ds / 65536 % 256) + 16777216 * (ds / 16777216 % 256) = ds := by omega
  rcases hs with hs | hs
  · have hb : hdrBytes h ds ++ x = 12 :: h.protoVer :: (h.profileVer % 256) :: (h.profileVer / 256 % 256) ::
        (ds % 256) :: (ds / 256 % 256) :: (ds / 65536 % 256) :: (ds / 16777216 % 256) :: 0x2E :: 0x46 :: 0x49 :: 0x54 :: x := by
      simp [hdrBytes, hs, Wire.le16, Wire.le32]
    rw [hb, Integrity.header12_eval, hD, if_neg hds0]
    exact ⟨_, rfl, rfl⟩
  · have hb : hdrBytes h ds ++ x = 14 :: h.protoVer :: (h.profileVer % 256) :: (h.profileVer / 256 % 256) ::
        (ds % 256) :: (ds / 256 % 256) :: (ds / 65536 % 256) :: (ds / 16777216 % 256) :: 0x2E :: 0x46 :: 0x49 :: 0x54 ::
        (write 0 [14, h.protoVer, h.profileVer % 256, h.profileVer / 256 % 256, ds % 256, ds / 256 % 256, ds / 65536 % 256,
          ds / 16777216 % 256, 0x2E, 0x46, 0x49, 0x54] % 256) ::
        (write 0 [14, h.protoVer, h.profileVer % 256, h.profileVer / 256 % 256, ds % 256, ds / 256 % 256, ds / 65536 % 256,
          ds / 16777216 % 256, 0x2E, 0x46, 0x49, 0x54] / 256 % 256) :: x := by
      simp [hdrBytes, hs, Wire.le16, Wire.le32]
    rw [hb, header14_own_crc _ _ _ _ _ _ _ _ (by rw [hD]; exact hds0), hD]
    exact ⟨_, rfl, rfl⟩

/-- ONE SEQUENCE: the check accepts what `encodeFit` writes and counts one sequence -/
theorem checkIntegrity_encodeFit (o : Opts) (h : Hdr) (ms : List WMsg) (hf : FitOK o h ms) :
    Integrity.checkIntegrity (encodeFit o h ms) = .ok 1 := by
  have hpos := encodeMsgs_pos o (freshEnc o) ms hf.nonempty
  have hsmall := hf.small
  generalize hR : encodeMsgs o (freshEnc o) ms = R at *
  have hE : encodeFit o h ms = hdrBytes h R.length ++ (R ++ Wire.le16 (write 0 R)) := by
    simp only [encodeFit, hR, Nat.mod_eq_of_lt hsmall, List.append_assoc]
  obtain ⟨hd, hdec, hds⟩ := decodeFileHeader_hdrBytes h R.length (R ++ Wire.le16 (write 0 R)) hf.size (by omega) hsmall
  have hlt : write 0 R < 65536 := Fit.Crc.write_lt 0 (by decide) R
  unfold Integrity.checkIntegrity
  rw [hE, Integrity.checkLoop_step _ _ _ _ _ hdec, hds]
  have hlen : (R ++ Wire.le16 (write 0 R)).length = R.length + 2 := by simp [Wire.le16]
  rw [if_neg (by omega), List.take_left' rfl, List.drop_left' rfl]
  rw [if_neg (by simp [Wire.le16, Integrity.le16, le16_back _ hlt])]
  have : (R ++ Wire.le16 (write 0 R)).drop (R.length + 2) = [] := by
    apply List.eq_nil_of_length_eq_zero; rw [List.length_drop, hlen]; omega
  rw [this]
  simp only [List.length_append]
  exact Integrity.checkLoop_nil _ _ (by decide)

/-- CHAINS: one count per FIT value -/
theorem checkIntegrity_encodeChain (o : Opts) : ∀ (fits : List (Hdr × List WMsg)), fits ≠ [] →
    (∀ f ∈ fits, FitOK o f.1 f.2) → Integrity.checkIntegrity (encodeChain o fits) = .ok fits.length
  | [], hne, _ => absurd rfl hne
  | [f], _, hall => by
    have : encodeChain o [f] = encodeFit o f.1 f.2 := by simp [encodeChain]
    rw [this]; exact checkIntegrity_encodeFit o f.1 f.2 (hall f (by simp))
  | f :: g :: fs, _, hall => by
    have h1 := checkIntegrity_encodeFit o f.1 f.2 (hall f (by simp))
    have h2 := checkIntegrity_encodeChain o (g :: fs) (by simp) (fun x hx => hall x (by simp [hx]))
    have : encodeChain o (f :: g :: fs) = encodeFit o f.1 f.2 ++ encodeChain o (g :: fs) := by simp [encodeChain]
    rw [this, Fit.C04.C04_suffix_complete _ _ 1 _ h1 h2]
    simp

end Fit.C02
