import FitModel.Wire
import FitModel.DecoderApi
import FitModel.FitFormat
import FitModel.Generated.Go_decoder
import FitModel.Generated.Go_encoder
import FitProps.Go2LeanLemmas
/-!
Agreement of the compressed-timestamp arithmetic GENERATED from the current source — the statement blocks of
decoder/decoder.go (`decodeMessageData`: header time offset → `d.timestamp`, `d.lastTimeOffset`; `decodeFields`: a decoded
timestamp field → the same two variables) and of encoder/encoder.go (`compressTimestampIntoHeader`: decision, roll-over of
`e.timestampReference`, header byte) — with the functions of the hand-written models that C01's theorems are about
(`Fit.DecApi.compressedTs` / `setTs`, `Fit.Wire.decompressHdr` / `trackTs`' step, `Fit.Wire.compressTs`).
-/
set_option linter.unusedSimpArgs false  -- spare lemmas keep the proofs stable under harmless rewrites of the source
namespace Fit.Go2Lean

theorem and31 (x : Nat) : x &&& 31 = x % 32 := Nat.and_two_pow_sub_one_eq_mod x 5

/-- decoder, compressed-timestamp header: the block of `decodeMessageData` is the decoder model's `compressedTs` as far as
`d.timestamp` and `d.lastTimeOffset` go — for every header, state and definition (no range hypothesis) -/
theorem ts_dec_header (header : Nat) (d : Fit.DecApi.MesgDef) (s : Fit.DecApi.St) :
    let o := Go.decoder.decodeMessageData_timestamp s.q.lastOff s.q.ts header
    (Fit.DecApi.compressedTs header d s).1.q.ts = o.d_timestamp ∧
    (Fit.DecApi.compressedTs header d s).1.q.lastOff = o.d_lastTimeOffset := by
  simp [Go.decoder.decodeMessageData_timestamp, Fit.DecApi.compressedTs, Fit.Gen.DecApi.compressedTimeMask, id_run, id_pure, id_bind]

/-- the same block against the wire-level decoder model `decompressHdr` (5-bit arithmetic), for a last offset that is a
5-bit value (it always is: it is only ever assigned `x & 0x1F`) -/
theorem ts_dec_header_wire (h : Nat) (s : Fit.Wire.DecState) (hl : s.lastOff < 32) :
    let o := Go.decoder.decodeMessageData_timestamp s.lastOff s.timestamp h
    (Fit.Wire.decompressHdr s h).1.timestamp = o.d_timestamp ∧ (Fit.Wire.decompressHdr s h).1.lastOff = o.d_lastTimeOffset ∧
    (Fit.Wire.decompressHdr s h).2 = o.d_timestamp := by
  have h31 : h &&& 31 < 32 := and_31_lt h
  simp only [Go.decoder.decodeMessageData_timestamp, Fit.Wire.decompressHdr, id_run, id_pure, id_bind, and31] at *
  refine ⟨?_, trivial, ?_⟩ <;> omega

/-- decoder, a decoded timestamp field: the block of `decodeFields` is the decoder model's `setTs` … -/
theorem ts_dec_field (t : Nat) (s : Fit.DecApi.St) (ht : t < 2 ^ 32) :
    let o := Go.decoder.decodeFields_timestamp s.q.lastOff s.q.ts t
    (Fit.DecApi.setTs t s).q.ts = o.d_timestamp ∧ (Fit.DecApi.setTs t s).q.lastOff = o.d_lastTimeOffset := by
  have : t % 32 % 256 = t % 32 := by omega
  simp [Go.decoder.decodeFields_timestamp, Fit.DecApi.setTs, Fit.Gen.DecApi.compressedTimeMask, id_run, id_pure, id_bind, and31, this]

/-- … and the step of the wire-level model's `trackTs` (`lastOff := t % 32`) -/
theorem ts_dec_field_wire (t lo ts : Nat) :
    (Go.decoder.decodeFields_timestamp lo ts t).d_timestamp = t ∧ (Go.decoder.decodeFields_timestamp lo ts t).d_lastTimeOffset = t % 32 := by
  have : t % 32 % 256 = t % 32 := by omega
  simp [Go.decoder.decodeFields_timestamp, id_run, id_pure, id_bind, and31, this]

/-- the decoder tests "compressed timestamp header" as the format specification does -/
theorem ts_dec_isCompressed : ∀ h < 256, Go.decoder.decodeMessageData_isCompressed h = Fit.FitFormat.isCompressed h := by
  decide +kernel

/-- encoder: the block of `compressTimestampIntoHeader` after the loop over the fields (`timestamp` = the model's
`encTsOf`, `lastTimestamp` = `e.lastTimestamp` before the loop) is the model's `compressTs`: new timestamp reference; `return
false` with the header untouched exactly when the model compresses nothing; otherwise control reaches the end of the block
with `mesg.Header = 0x80 | offset` for the model's offset. For every message, reference and last timestamp below 2^32. -/
theorem ts_enc_decide (arch tsRef tsLast hdr : Nat) (m : Fit.Wire.WMsg) :
    let o := Go.encoder.compressTimestampIntoHeader_decide tsRef tsLast hdr (Fit.Wire.encTsOf arch m)
    o.e_timestampReference = (Fit.Wire.compressTs arch tsRef tsLast m).1 ∧
    (match (Fit.Wire.compressTs arch tsRef tsLast m).2.2 with
     | none => o.ret = some false ∧ o.mesg_Header = hdr
     | some off => o.ret = none ∧ o.mesg_Header = 0x80 ||| off) := by
  have h32 : ∀ t : Nat, t % 32 % 256 = t % 32 := by intro t; omega
  simp only [Go.encoder.compressTimestampIntoHeader_decide, Fit.Wire.compressTs, Fit.Wire.u32Invalid, Fit.Wire.dateTimeMin, id_run, id_pure, id_bind, and31, h32]
  generalize Fit.Wire.encTsOf arch m = ts
  by_cases h1 : ts = 4294967295 <;> by_cases h2 : ts < 268435456 <;>
    by_cases h3 : (ts + 2 ^ 32 - tsRef) % 2 ^ 32 > 31 <;> by_cases h4 : (ts + 2 ^ 32 - tsLast) % 2 ^ 32 > 31 <;>
    first
    | omega
    | (simp [h1, h2, h3, h4, Nat.or_comm]; done)
    | (subst h1; simp [h3, h4, Nat.or_comm]; done)

end Fit.Go2Lean
