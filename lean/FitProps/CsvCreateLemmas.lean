import FitProps.CsvMesgLemmas
/-! `createMesg` on the line of one message within scope: the message comes back with every written field — sub-field
substitutions reverted, component targets removed — and its developer fields. -/
set_option linter.unusedSimpArgs false
set_option linter.unusedVariables false
namespace Fit.Csv
open Fit.Value Fit.Msg Fit.Gen Fit.Gen.Csv

/-- the fields of `m` as they are expected back (`expectedMesg`): the written ones (not flagged expanded), the unknown
ones only with the verbose option -/
def backFields (o : Opts) (m : Message) : List Field :=
  m.fields.filter fun f => !f.isExpanded && (o.verbose || !isUnknownField m f)

theorem flatMap_filter_nil {α β : Type} (k : α → Bool) (g : α → List β) : ∀ l : List α, (∀ a ∈ l, k a = false → g a = []) →
    (l.filter k).flatMap g = l.flatMap g
  | [], _ => rfl
  | a :: l, h => by
    have ih := flatMap_filter_nil k g l (fun x hx => h x (List.mem_cons_of_mem _ hx))
    rw [List.filter_cons]
    cases hk : k a
    · simp only [Bool.false_eq_true, ↓reduceIte, List.flatMap_cons, h a (List.mem_cons_self ..) hk, List.nil_append, ih]
    · simp only [↓reduceIte, List.flatMap_cons, ih]

theorem targetsOf_unknown {n : Nat} {f : Field} (h : pfield n (fieldNumOf f) = none) : targetsOf n f = [] := by
  simp [targetsOf, h]

/-- **what is left after `removeExpandedComponents`**: the reader removes exactly the fields flagged expanded -/
theorem removeExpanded_scope (o : Opts) (m : Message) (hm : MesgScope m) :
    removeExpanded m.num ((m.fields.filter (keptB o m)).map unflag) = backFields o m := by
  have hb : ∀ g ∈ (m.fields.filter (keptB o m)).map unflag, g.base.isSome = true := by
    intro g hg
    obtain ⟨f, _, rfl⟩ := List.mem_map.mp hg
    rfl
  have hnd : (((m.fields.filter (keptB o m)).map unflag).map fieldNumOf).Nodup := by
    have e : ((m.fields.filter (keptB o m)).map unflag).map fieldNumOf = (m.fields.filter (keptB o m)).map fieldNumOf := by
      simp [List.map_map, Function.comp_def, fieldNumOf_unflag]
    rw [e]
    exact List.Pairwise.sublist (List.Sublist.map _ List.filter_sublist) hm.nodup
  rw [removeExpanded_filter _ _ hb hnd]
  have hT : ((m.fields.filter (keptB o m)).map unflag).flatMap (targetsOf m.num) = m.fields.flatMap (targetsOf m.num) := by
    rw [List.flatMap_map]
    have e : (fun f => targetsOf m.num (unflag f)) = targetsOf m.num := by funext f; rfl
    rw [e]
    apply flatMap_filter_nil
    intro f _ hk
    apply targetsOf_unknown
    simp only [keptB, isUnknownField, Bool.or_eq_false_iff, Bool.not_eq_false', Option.isNone_iff_eq_none] at hk
    exact hk.2
  rw [hT, List.filter_map]
  have hF : (m.fields.filter (keptB o m)).filter ((fun x => !(m.fields.flatMap (targetsOf m.num)).contains (fieldNumOf x)) ∘ unflag) =
      (m.fields.filter (keptB o m)).filter (fun f => !f.isExpanded) := by
    apply List.filter_congr
    intro f hf
    have hfm := (List.mem_filter.mp hf).1
    simp only [Function.comp, fieldNumOf_unflag, hm.exact f hfm]
  rw [hF, List.filter_filter]
  have hI : ∀ f ∈ m.fields.filter (fun a => (!a.isExpanded) && keptB o m a), unflag f = f := by
    intro f hf
    obtain ⟨hfm, hc⟩ := List.mem_filter.mp hf
    simp only [Bool.and_eq_true, Bool.not_eq_true'] at hc
    exact unflag_eq (hm.fields f hfm) hc.1
  rw [List.map_congr_left hI, List.map_id']
  rfl

/-- the message as the reader creates it from the line of `m` -/
def backMesgOf (o : Opts) (m : Message) : Message := { num := m.num, fields := backFields o m, devFields := m.devFields }

/-- **`createMesg` on the cells of a message within scope** — any number of fields written under a sub-field's name, any
number of developer fields (each read back as itself: `hdev`, see `dev_cell_rt`) -/
theorem createMesg_scope (o : Opts) (ds W : List Desc) (hds : NoSubNames ds) (m : Message)
    (hm : MesgScope m)
    (hdev : ∀ dv ∈ m.devFields, readCell Arith.so ds m.num (writeDev o W dv) = .ok (.dev dv)) :
    createMesg Arith.so ds m.num (m.fields.map (writeField o m) ++ m.devFields.map (writeDev o W)) = .ok (backMesgOf o m) := by
  have hpc := parseCells_fields o ds hds m _ _ (parseCells_devs Arith.so o ds W m.num m.devFields hdev) m.fields hm.fields
  rw [filterMap_slotOf] at hpc
  -- the reversal
  have h255 : 255 ∉ refNums m.num := fun h => (refNums_facts h).1 rfl
  have hgs : ([] : List Field) ++ (((m.fields.filter (keptB o m)).map (pendOf o m)).map (·.1)) =
      (m.fields.filter (keptB o m)).map unflag := by
    simp only [List.nil_append, pendOf_fst]
  have hbase : ∀ f ∈ m.fields, f.base.isSome = true := fun f hf => base_isSome (hm.fields f hf)
  have hrev := revertAll_pending Arith.so m.num ((m.fields.filter (keptB o m)).map unflag) h255
    ((m.fields.filter (keptB o m)).map (pendOf o m)) [] (((m.fields.filter (keptB o m)).map (pendOf o m)).map toSlot).length hgs
    (by simp) (by
      intro q hq nv hnv
      obtain ⟨f, hf, rfl⟩ := List.mem_map.mp hq
      have hfm := (List.mem_filter.mp hf).1
      have hfs := hm.fields f hfm
      unfold pendOf at hnv
      simp only at hnv
      cases hp : pfield m.num (fieldNumOf f) with
      | none => rw [hp] at hnv; cases hnv
      | some p =>
        rw [hp] at hnv
        simp only at hnv
        cases hsub : substitute m.fields p.subs with
        | none => rw [hsub] at hnv; cases hnv
        | some s =>
          rw [hsub] at hnv
          simp only [Option.some.injEq] at hnv
          subst hnv
          have hs : s ∈ p.subs := List.mem_of_find?_eq_some hsub
          have hlow := pfield_low hp
          have hpm' : ∃ pm, pmesg m.num = some pm ∧ p ∈ pm.fields ∧ p.num = fieldNumOf f := by
            unfold pfield at hp
            cases hpm : pmesg m.num with
            | none => rw [hpm] at hp; cases hp
            | some pm =>
              rw [hpm] at hp
              exact ⟨pm, rfl, List.mem_of_find?_eq_some hp, by simpa using List.find?_some hp⟩
          obtain ⟨pm, hpm, hpf, hpn⟩ := hpm'
          obtain ⟨hmem, hnum⟩ := pmesg_mem hpm
          obtain ⟨_, hne, _, _⟩ := sub_facts hmem (hnum ▸ hlow) hpf hs
          have hok := hfs.ok
          unfold fieldOK at hok
          rw [hp] at hok
          simp only [Bool.and_eq_true, beq_iff_eq] at hok
          obtain ⟨⟨hbt, hv⟩, harr⟩ := hok
          have hsubs : p.subs ≠ [] := by intro h0; rw [h0] at hs; cases hs
          have hna := (sub_refs hmem hpf).1 hsubs
          rw [hna] at harr
          refine ⟨hne, ?_, ?_⟩
          · intro r hr
            show hasNum r (unflag f) = false
            rw [hasNum_iff (by rfl)]
            simp only [fieldNumOf_unflag, beq_eq_false_iff_ne, ne_eq]
            intro heq
            obtain ⟨_, q', hq', hqs⟩ := refNums_facts hr
            rw [← heq, hp] at hq'
            cases hq'
            exact hsubs hqs
          · intro fields' hag
            show revert Arith.so m.num fields' (txt s.name) (fieldAtoms o (txt p.units) p.scale p.offset f.value) = .ok (some (unflag f))
            -- a map of the sub-field matches the message as written, hence as read
            have hany := List.find?_some hsub
            obtain ⟨mp, hmp, hmm⟩ := List.any_eq_true.mp hany
            have hmv := mapMatches_fval hmm
            have hr : mp.1 ∈ refNums m.num := by
              unfold refNums
              rw [hpm]
              simp only [List.mem_flatMap, List.mem_map]
              exact ⟨p, hpf, s, hs, mp, hmp, rfl⟩
            obtain ⟨_, q', hq', _⟩ := refNums_facts hr
            have hfv : fvalFirst fields' mp.1 = fvalFirst m.fields mp.1 := by
              rw [hag _ hr]
              apply fvalFirst_filter_unflag _ _ _ hbase
              intro g hg hh
              rw [hasNum_iff (hbase g hg)] at hh
              have : fieldNumOf g = mp.1 := by simpa using hh
              simp only [keptB, isUnknownField, this, hq', Option.isNone_some, Bool.not_false, Bool.or_true]
            obtain ⟨a, ha, hpa⟩ := subst_atom o hmem (hnum ▸ hlow) hpf hsubs f.value hv harr hfs.norm
            rw [ha]
            have := subfield_revert Arith.so m.num pm p s hpm hlow hpf hs fields' mp hmp (by rw [hfv]; exact hmv) a f.value hpa
            rw [this, unflag, ← hpn, hbt])
  simp only [List.map_nil, List.nil_append] at hrev
  simp only [createMesg, hpc, hrev, filterMap_inl, removeExpanded_scope o m hm, backMesgOf]

end Fit.Csv
