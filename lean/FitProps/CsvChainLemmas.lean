import FitProps.CsvCreateLemmas
/-! Lines and chains of files: the description list carried along by writer and reader, developer fields read back through
it, the reader's state after each line, sequences. -/
set_option linter.unusedSimpArgs false
set_option linter.unusedVariables false
namespace Fit.Csv
open Fit.Value Fit.Msg Fit.Gen Fit.Gen.Csv

/-! ### developer fields through the description lists -/

theorem writeDev_congr (o : Opts) (W ds : List Desc) (dv : DevField)
    (h : findDesc W dv.devIdx dv.num = findDesc ds dv.devIdx dv.num) : writeDev o W dv = writeDev o ds dv := by
  unfold writeDev; rw [h]

theorem nodup_map_inj {α β : Type} (f : α → β) : ∀ l : List α, (l.map f).Nodup → ∀ x ∈ l, ∀ y ∈ l, f x = f y → x = y
  | [], _, _, hx, _, _, _ => by cases hx
  | a :: l, h, x, hx, y, hy, he => by
    simp only [List.map_cons, List.nodup_cons, List.mem_map, not_exists, not_and] at h
    rcases List.mem_cons.mp hx with rfl | hx' <;> rcases List.mem_cons.mp hy with rfl | hy'
    · rfl
    · exact absurd he.symm (h.1 y hy')
    · exact absurd he (h.1 x hx')
    · exact nodup_map_inj f l h.2 x hx' y hy' he

/-- searching from the most recent description: a match in the current file's part hides everything before it -/
theorem find_rev_append {P C : List Desc} {q : Desc → Bool} {d : Desc} (h : C.reverse.find? q = some d) :
    (P ++ C).reverse.find? q = some d := by
  rw [List.reverse_append, List.find?_append, h]; rfl

theorem find_rev_unique {C : List Desc} {q : Desc → Bool} {d : Desc} (hd : d ∈ C) (hq : q d = true)
    (hu : ∀ x ∈ C, q x = true → x = d) : C.reverse.find? q = some d := by
  cases hf : C.reverse.find? q with
  | none =>
    have := List.find?_eq_none.mp hf d (List.mem_reverse.mpr hd)
    rw [hq] at this; exact absurd rfl this
  | some x =>
    have hx := List.mem_reverse.mp (List.mem_of_find?_eq_some hf)
    have hqx := List.find?_some hf
    rw [hu x hx hqx]

/-- **a developer field within scope is read back as itself**: `C` = the descriptions of the same file seen so far
(the field is described there: `d`), `self` = the description the message itself may be, `P` = everything described in
earlier files; pairs and names are distinct within the file -/
theorem dev_cell_rt (o : Opts) (P C self : List Desc) (m : Message) (dv : DevField)
    (hpairs : ((C ++ self).map fun d => (d.devIdx, d.num)).Nodup) (hnames : (C.map (·.name)).Nodup)
    (hdesc : ∀ d ∈ C, descScopeB d = true) (hdv : devFieldScopeB C m dv = true) :
    readCell Arith.so (P ++ C) m.num (writeDev o (P ++ C ++ self) dv) = .ok (.dev dv) := by
  unfold devFieldScopeB at hdv
  cases hf : findDesc C dv.devIdx dv.num with
  | none => rw [hf] at hdv; cases hdv
  | some d =>
    rw [hf] at hdv
    simp only [Bool.and_eq_true, Option.isNone_iff_eq_none, Bool.not_eq_true', beq_iff_eq] at hdv
    obtain ⟨⟨⟨⟨hnat, hv⟩, hone⟩, hdeg⟩, hnorm⟩ := hdv
    unfold findDesc at hf
    have hdC : d ∈ C := List.mem_reverse.mp (List.mem_of_find?_eq_some hf)
    have hkey := List.find?_some hf
    simp only [Bool.and_eq_true, beq_iff_eq] at hkey
    have hds := hdesc d hdC
    simp only [descScopeB, Bool.and_eq_true, Bool.not_eq_true', beq_iff_eq] at hds
    obtain ⟨⟨⟨⟨hne, hunk⟩, _⟩, _⟩, _⟩ := hds
    -- the writer finds d (most recent of the pair, in P ++ C ++ self)
    have hW : findDesc (P ++ C ++ self) dv.devIdx dv.num = some d := by
      unfold findDesc
      rw [List.append_assoc]
      apply find_rev_append
      apply find_rev_unique (List.mem_append_left _ hdC)
      · simp [hkey.1, hkey.2]
      · intro x hx hqx
        simp only [Bool.and_eq_true, beq_iff_eq] at hqx
        exact nodup_map_inj _ _ hpairs x hx d (List.mem_append_left _ hdC) (by simp [hqx.1, hqx.2, hkey.1, hkey.2])
    have hR : findDesc (P ++ C) dv.devIdx dv.num = some d := by
      unfold findDesc
      exact find_rev_append hf
    -- the reader finds d by its name
    have hN : (P ++ C).reverse.find? (fun x => x.name == d.name) = some d := by
      apply find_rev_append
      apply find_rev_unique hdC (by simp)
      intro x hx hqx
      exact nodup_map_inj _ _ hnames x hx d hdC (by simpa using hqx)
    rw [writeDev_congr o _ (P ++ C) dv (by rw [hW, hR])]
    have hshape : (elemsOf dv.value).2 = true → (elemsOf dv.value).1.length ≠ 1 := by
      intro h1 h2
      simp [oneElemArray, h1, h2] at hone
    have := dev_field_rt Arith.so o (P ++ C) m.num dv d hR hN hnat hne hunk hv
      (by intro ⟨h1, h2⟩; simp [h1, h2] at hdeg) hshape
    rw [hnorm] at this
    exact this

/-! ### one line -/

/-- the reader's state after the line of message `m` -/
def stepX (o : Opts) (s : RState) (m : Message) : RState :=
  if !o.verbose && isUnknownMesg m.num then s else
  let s1 := if m.num == mnFileId then
      (if s.seq != 0 then { s with done := s.cur.reverse :: s.done, cur := [], seq := s.seq + 1 } else { s with seq := s.seq + 1 })
    else s
  if (backFields o m).isEmpty && m.devFields.isEmpty then s1
  else { s1 with ds := (writeMesg o s.ds m).2, cur := backMesgOf o m :: s1.cur }

theorem expectedMesg_eq (o : Opts) (m : Message) :
    expectedMesg o m = if !o.verbose && isUnknownMesg m.num then none else
      if (backFields o m).isEmpty && m.devFields.isEmpty then none else some (backMesgOf o m) := rfl

/-- the name the writer prints resolves to the message number (by the table, or by the digits of `unknown(N)`) -/
theorem name_resolves (o : Opts) (n : Nat) (hd : (!o.verbose && isUnknownMesg n) = false) (hsmall : n < 65536) :
    lookupMesgNum (mesgNameOf o n) = some n ∨
    (lookupMesgNum (mesgNameOf o n) = none ∧ (digitsOf (mesgNameOf o n)).isEmpty = false ∧
      natOfDigits (digitsOf (mesgNameOf o n)) = n ∧ n < 65536) := by
  simp only [isUnknownMesg, Bool.and_eq_false_iff, Bool.not_eq_false', Bool.or_eq_false_iff, decide_eq_false_iff_not,
    Option.isNone_eq_false_iff, Option.isSome_iff_exists] at hd
  by_cases hk : ¬ (n ≥ mfgRangeMin) ∧ ∃ s, mesgNames.lookup n = some s
  · obtain ⟨hlow, s, hs⟩ := hk
    left
    have : mesgNameOf o n = txt s := by simp [mesgNameOf, hlow, hs]
    rw [this]
    exact mesg_facts hs (by omega)
  · have hverb : o.verbose = true := by
      rcases hd with h1 | h1
      · exact h1
      · exact absurd h1 hk
    right
    have hname : mesgNameOf o n = formatUnknown n := by
      unfold mesgNameOf
      by_cases hge : n ≥ mfgRangeMin
      · simp [hge, hverb]
      · have : mesgNames.lookup n = none := by
          cases hl : mesgNames.lookup n with
          | none => rfl
          | some s => exact absurd ⟨hge, s, hl⟩ hk
        simp [hge, this, hverb]
    rw [hname, digitsOf_formatUnknown]
    obtain ⟨d1, _, d3⟩ := natDigits_spec n
    refine ⟨lookupMesgNum_unknown _ (prefix_formatUnknown _), ?_, d1, hsmall⟩
    cases hh : natDigits n with
    | nil => exact absurd hh d3
    | cons _ _ => rfl

theorem name_dropped (o : Opts) (n : Nat) (hd : (!o.verbose && isUnknownMesg n) = true) :
    lookupMesgNum (mesgNameOf o n) = none ∧ (digitsOf (mesgNameOf o n)).isEmpty = true := by
  simp only [isUnknownMesg, Bool.and_eq_true, Bool.not_eq_true', Bool.or_eq_true, decide_eq_true_eq, Option.isNone_iff_eq_none] at hd
  obtain ⟨hverb, hk⟩ := hd
  have hname : mesgNameOf o n = unknownTxt := by
    unfold mesgNameOf
    rcases hk with hge | hl
    · simp [hge, hverb]
    · by_cases hge : n ≥ mfgRangeMin
      · simp [hge, hverb]
      · simp [hge, hl, hverb]
  rw [hname]
  exact ⟨lookupMesgNum_unknown _ (by decide +kernel), by decide +kernel⟩

/-- what one line needs: the message within scope, no description named like a sub-field, every developer field read
back through the reader's list `ds` as written through the writer's list, and a field_description message comes back
with the same description -/
structure LineOK (o : Opts) (ds : List Desc) (m : Message) : Prop where
  scope : MesgScope m
  nosub : NoSubNames ds
  devs : ∀ dv ∈ m.devFields, readCell Arith.so ds m.num (writeDev o (writeMesg o ds m).2 dv) = .ok (.dev dv)
  desc : m.num = mnFieldDescription →
    (!o.verbose && isUnknownMesg m.num) = false ∧ ((backFields o m).isEmpty && m.devFields.isEmpty) = false ∧
    descOf (backMesgOf o m) = descOf m

theorem writeMesg_ds (o : Opts) (ds : List Desc) (m : Message) (h : m.num ≠ mnFieldDescription) : (writeMesg o ds m).2 = ds := by
  have : (m.num == mnFieldDescription) = false := by simpa using h
  simp [writeMesg, this]

theorem stepX_ds (o : Opts) (s : RState) (m : Message) (h : LineOK o s.ds m) : (stepX o s m).ds = (writeMesg o s.ds m).2 := by
  by_cases hd : m.num = mnFieldDescription
  · obtain ⟨h1, h2, _⟩ := h.desc hd
    have hfid : (m.num == mnFileId) = false := by rw [hd]; decide
    simp only [stepX, h1, h2, Bool.false_eq_true, ↓reduceIte, hfid]
  · rw [writeMesg_ds o s.ds m hd]
    unfold stepX
    split
    · rfl
    · simp only [writeMesg_ds o s.ds m hd]
      split <;> split <;> (try split) <;> rfl

/-- **reading the line of a message within scope** -/
theorem readLine_scope (o : Opts) (s : RState) (m : Message) (h : LineOK o s.ds m) :
    readLine Arith.so s (writeMesg o s.ds m).1 = .ok (stepX o s m) := by
  have hline : (writeMesg o s.ds m).1 =
      .data (mesgNameOf o m.num) (m.fields.map (writeField o m) ++ m.devFields.map (writeDev o (writeMesg o s.ds m).2)) := rfl
  rw [hline]
  cases hdrop : (!o.verbose && isUnknownMesg m.num)
  · -- the message comes back (or is empty)
    have hc : ∀ s1 : RState, s1.ds = s.ds →
        createMesg Arith.so s1.ds m.num (m.fields.map (writeField o m) ++ m.devFields.map (writeDev o (writeMesg o s.ds m).2)) =
          .ok (backMesgOf o m) := by
      intro s1 hs1
      rw [hs1]
      exact createMesg_scope o s.ds _ h.nosub m h.scope h.devs
    have hemp : (m.fields.map (writeField o m) ++ m.devFields.map (writeDev o (writeMesg o s.ds m).2)).isEmpty = true →
        ((backFields o m).isEmpty && m.devFields.isEmpty) = true := by
      intro he
      simp only [List.isEmpty_iff, List.append_eq_nil_iff, List.map_eq_nil_iff] at he
      simp [backFields, he.1, he.2]
    have hds' : (if m.num == mnFieldDescription then s.ds ++ [descOf (backMesgOf o m)] else s.ds) = (writeMesg o s.ds m).2 := by
      by_cases hd : m.num = mnFieldDescription
      · rw [(h.desc hd).2.2]; rfl
      · rw [writeMesg_ds o s.ds m hd]
        have : (m.num == mnFieldDescription) = false := by simpa using hd
        simp [this]
    have hbm : ((backMesgOf o m).fields.isEmpty && (backMesgOf o m).devFields.isEmpty) = ((backFields o m).isEmpty && m.devFields.isEmpty) := rfl
    cases hce : (m.fields.map (writeField o m) ++ m.devFields.map (writeDev o (writeMesg o s.ds m).2)).isEmpty
    · cases hbe : ((backFields o m).isEmpty && m.devFields.isEmpty)
      · -- comes back
        rcases name_resolves o m.num hdrop h.scope.small with h1 | ⟨h1, h2, h3, h4⟩
        · simp only [readLine, h1, hce, Bool.false_eq_true, ↓reduceIte, stepX, hdrop, hbe]
          by_cases hfid : (m.num == mnFileId) = true
          · by_cases hseq : (s.seq != 0) = true
            · simp only [hfid, hseq, ↓reduceIte, hc _ rfl, hbm, hbe, Bool.false_eq_true, hds']
            · simp only [hfid, hseq, ↓reduceIte, hc _ rfl, hbm, hbe, Bool.false_eq_true, hds']
          · simp only [hfid, ↓reduceIte, hc _ rfl, hbm, hbe, Bool.false_eq_true, hds']
        · simp only [readLine, h1, h2, h3, h4, hce, Bool.false_eq_true, ↓reduceIte, stepX, hdrop, hbe]
          by_cases hfid : (m.num == mnFileId) = true
          · by_cases hseq : (s.seq != 0) = true
            · simp only [hfid, hseq, ↓reduceIte, hc _ rfl, hbm, hbe, Bool.false_eq_true, hds']
            · simp only [hfid, hseq, ↓reduceIte, hc _ rfl, hbm, hbe, Bool.false_eq_true, hds']
          · simp only [hfid, ↓reduceIte, hc _ rfl, hbm, hbe, Bool.false_eq_true, hds']
      · -- every field was passed over or removed: nothing is handed on
        rcases name_resolves o m.num hdrop h.scope.small with h1 | ⟨h1, h2, h3, h4⟩
        · simp only [readLine, h1, hce, Bool.false_eq_true, ↓reduceIte, stepX, hdrop, hbe]
          by_cases hfid : (m.num == mnFileId) = true
          · by_cases hseq : (s.seq != 0) = true
            · simp only [hfid, hseq, ↓reduceIte, hc _ rfl, hbm, hbe, Bool.false_eq_true]
            · simp only [hfid, hseq, ↓reduceIte, hc _ rfl, hbm, hbe, Bool.false_eq_true]
          · simp only [hfid, ↓reduceIte, hc _ rfl, hbm, hbe, Bool.false_eq_true]
        · simp only [readLine, h1, h2, h3, h4, hce, Bool.false_eq_true, ↓reduceIte, stepX, hdrop, hbe]
          by_cases hfid : (m.num == mnFileId) = true
          · by_cases hseq : (s.seq != 0) = true
            · simp only [hfid, hseq, ↓reduceIte, hc _ rfl, hbm, hbe, Bool.false_eq_true]
            · simp only [hfid, hseq, ↓reduceIte, hc _ rfl, hbm, hbe, Bool.false_eq_true]
          · simp only [hfid, ↓reduceIte, hc _ rfl, hbm, hbe, Bool.false_eq_true]
    · have hbe := hemp hce
      rcases name_resolves o m.num hdrop h.scope.small with h1 | ⟨h1, h2, h3, h4⟩
      · simp only [readLine, h1, hce, ↓reduceIte, stepX, hdrop, hbe, Bool.false_eq_true]
      · simp only [readLine, h1, h2, h3, h4, hce, ↓reduceIte, stepX, hdrop, hbe, Bool.false_eq_true]
  · -- an unknown message without the verbose option: the name "unknown" has no number
    obtain ⟨h1, h2⟩ := name_dropped o m.num hdrop
    simp only [readLine, h1, h2, ↓reduceIte, stepX, hdrop]

/-! ### chains -/

/-- the writer's description list after the messages `ms` -/
def dsAfter (o : Opts) : List Desc → List Message → List Desc
  | ds, [] => ds
  | ds, m :: ms => dsAfter o (writeMesg o ds m).2 ms

def ChainOK (o : Opts) : List Desc → List Message → Prop
  | _, [] => True
  | ds, m :: ms => LineOK o ds m ∧ ChainOK o (writeMesg o ds m).2 ms

theorem chainOK_append (o : Opts) : ∀ (A B : List Message) (ds : List Desc),
    ChainOK o ds A → ChainOK o (dsAfter o ds A) B → ChainOK o ds (A ++ B)
  | [], _, _, _, hB => hB
  | a :: A, B, ds, hA, hB => ⟨hA.1, chainOK_append o A B _ hA.2 hB⟩

theorem dsAfter_append (o : Opts) : ∀ (A B : List Message) (ds : List Desc), dsAfter o ds (A ++ B) = dsAfter o (dsAfter o ds A) B
  | [], _, _ => rfl
  | a :: A, B, ds => dsAfter_append o A B _

theorem readLines_scope (o : Opts) : ∀ (ms : List Message) (s : RState), ChainOK o s.ds ms →
    readLines Arith.so s (writeMesgs o s.ds ms) = .ok (ms.foldl (stepX o) s)
  | [], _, _ => rfl
  | m :: ms, s, h => by
    have h1 := readLine_scope o s m h.1
    have h2 := stepX_ds o s m h.1
    have ih := readLines_scope o ms (stepX o s m) (by rw [h2]; exact h.2)
    simp only [writeMesgs, readLines, h1, List.foldl_cons]
    rw [h2] at ih
    exact ih

end Fit.Csv
