import FitProps.CsvChainLemmas
/-! From the decidable scope predicate `csvUnambiguousB` to the full round trip: what the predicate gives line by line
(`ChainOK`), and the sequences the reader ends with. -/
set_option linter.unusedSimpArgs false
set_option linter.unusedVariables false
namespace Fit.Csv
open Fit.Value Fit.Msg Fit.Gen Fit.Gen.Csv

/-! ### a field_description message comes back with the same description -/

theorem descMesg_facts : isUnknownMesg mnFieldDescription = false ∧
    ∀ p, pfield mnFieldDescription p.num = some p → p.comps ++ p.subs.flatMap (·.comps) = [] := by
  have ht := descMesgOK_true
  unfold descMesgOK at ht
  simp only [Bool.and_eq_true, decide_eq_true_eq] at ht
  obtain ⟨⟨h1, h2⟩, h3⟩ := ht
  refine ⟨?_, ?_⟩
  · simp only [isUnknownMesg, Bool.or_eq_false_iff, decide_eq_false_iff_not, Option.isNone_eq_false_iff]
    exact ⟨by omega, h1⟩
  · intro p hp
    unfold pfield at hp
    cases hpm : pmesg mnFieldDescription with
    | none => rw [hpm] at hp; cases hp
    | some pm =>
      rw [hpm] at hp h3
      simp only [List.all_eq_true, Bool.and_eq_true, List.isEmpty_iff] at h3
      obtain ⟨c1, c2⟩ := h3 p (List.mem_of_find?_eq_some hp)
      rw [c1, List.nil_append]
      apply List.flatMap_eq_nil_iff.mpr
      intro s hs
      exact c2 s hs

theorem desc_keeps (o : Opts) (m : Message) (hm : MesgScope m) (hnum : m.num = mnFieldDescription)
    (hd : descScopeB (descOf m) = true) :
    (!o.verbose && isUnknownMesg m.num) = false ∧ ((backFields o m).isEmpty && m.devFields.isEmpty) = false ∧
    descOf (backMesgOf o m) = descOf m := by
  obtain ⟨t1, t2⟩ := descMesg_facts
  -- nothing is flagged expanded: no field of the message has components
  have hT : m.fields.flatMap (targetsOf m.num) = [] := by
    apply List.flatMap_eq_nil_iff.mpr
    intro f _
    unfold targetsOf
    cases hp : pfield m.num (fieldNumOf f) with
    | none => rfl
    | some p =>
      simp only
      rw [hnum] at hp
      have hpn : p.num = fieldNumOf f := (pfield_mem hp).choose_spec.2.2.2
      rw [← hpn] at hp
      exact t2 p hp
  have hnx : ∀ f ∈ m.fields, f.isExpanded = false := by
    intro f hf
    rw [hm.exact f hf, hT]; rfl
  -- known fields are kept
  have hkn : ∀ f ∈ m.fields, (match f.base with | some b => (pfield m.num b.num).isSome | none => false) = true →
      ((!f.isExpanded) && (o.verbose || !isUnknownField m f)) = true := by
    intro f hf hk
    rw [hnx f hf]
    have hpl := (hm.fields f hf).plain
    rw [hpl] at hk
    simp only at hk
    simp only [Bool.not_false, Bool.true_and, Bool.or_eq_true, isUnknownField, Bool.not_eq_true', Option.isNone_eq_false_iff]
    exact Or.inr hk
  have hK : knownFieldsOnly (backMesgOf o m) = knownFieldsOnly m := by
    unfold knownFieldsOnly backMesgOf backFields
    simp only [List.filter_filter]
    congr 1
    apply List.filter_congr
    intro f hf
    have h' := hkn f hf
    cases f with
    | mk base value isExp =>
      cases base with
      | none => rfl
      | some b =>
        dsimp only at h' ⊢
        cases hk : (pfield m.num b.num).isSome
        · rfl
        · rw [hk] at h'; rw [h' rfl]; rfl
  refine ⟨by rw [hnum, t1]; simp, ?_, ?_⟩
  · -- the name is not empty: a known field 3 is there
    simp only [descScopeB, Bool.and_eq_true, Bool.not_eq_true'] at hd
    have hne := hd.1.1.1.1
    have hf3 : ∃ f, (knownFieldsOnly m).fields.reverse.find? (hasNum fnFieldDescName) = some f := by
      cases hf : (knownFieldsOnly m).fields.reverse.find? (hasNum fnFieldDescName) with
      | some f => exact ⟨f, rfl⟩
      | none =>
        exfalso
        have : (descOf m).name = [] := by
          simp only [descOf, fvalOf, hf, sliceStringOf, joinBar]
        rw [this] at hne; cases hne
    obtain ⟨f, hf⟩ := hf3
    have hmem := List.mem_reverse.mp (List.mem_of_find?_eq_some hf)
    unfold knownFieldsOnly at hmem
    simp only at hmem
    obtain ⟨hfm, hk⟩ := List.mem_filter.mp hmem
    have hb : f ∈ backFields o m := List.mem_filter.mpr ⟨hfm, hkn f hfm hk⟩
    cases hbf : backFields o m with
    | nil => rw [hbf] at hb; cases hb
    | cons _ _ => rfl
  · unfold descOf
    rw [hK]

/-! ### what the predicate says about one file -/

theorem descsOf_append (A B : List Message) : descsOf (A ++ B) = descsOf A ++ descsOf B := by
  simp [descsOf, List.filter_append]

theorem descsOf_single (m : Message) : descsOf [m] = if m.num == mnFieldDescription then [descOf m] else [] := by
  unfold descsOf
  cases h : m.num == mnFieldDescription <;> simp [List.filter_cons, h]

theorem writeMesg_snd (o : Opts) (ds : List Desc) (m : Message) : (writeMesg o ds m).2 = ds ++ descsOf [m] := by
  rw [descsOf_single]
  unfold writeMesg
  cases h : m.num == mnFieldDescription <;> simp [h]

structure FileScope (file : List Message) : Prop where
  shape : FileShape file
  mesgs : ∀ m ∈ file, MesgScope m
  descs : ∀ d ∈ descsOf file, descScopeB d = true
  names : ((descsOf file).map (·.name)).Nodup
  pairs : ((descsOf file).map fun d => (d.devIdx, d.num)).Nodup
  walk : devsWalk [] file = true

theorem fileScope_of {o : Opts} {files : List (List Message)} (h : csvUnambiguousB o files = true) :
    ∀ f ∈ files, FileScope f := by
  simp only [csvUnambiguousB, Bool.and_eq_true, List.all_eq_true] at h
  intro f hf
  obtain ⟨⟨⟨hshape, hm⟩, hdev⟩, _⟩ := h f hf
  simp only [devsOK, Bool.and_eq_true, List.all_eq_true] at hdev
  obtain ⟨⟨⟨d1, d2⟩, d3⟩, d4⟩ := hdev
  refine ⟨?_, fun m hmem => mesgScope_of (hm m hmem), d1, nodupB_nodup _ d2, nodupB_nodup _ d3, d4⟩
  cases f with
  | nil => cases hshape
  | cons fid rest =>
    simp only [Bool.and_eq_true, beq_iff_eq, List.all_eq_true, bne_iff_ne, ne_eq] at hshape
    exact ⟨fid, rest, rfl, hshape.1, hshape.2⟩

theorem noSubNames_append {A B : List Desc} (hA : NoSubNames A) (hB : ∀ d ∈ B, descScopeB d = true) : NoSubNames (A ++ B) := by
  intro d hd
  rcases List.mem_append.mp hd with h | h
  · exact hA d h
  · have := hB d h
    simp only [descScopeB, Bool.and_eq_true, Bool.not_eq_true'] at this
    exact this.1.1.2

/-- **every line of a file within scope reads back**, whatever was described in earlier files (`P`) -/
theorem chainOK_file (o : Opts) (P : List Desc) (hP : NoSubNames P) (file : List Message) (hf : FileScope file) :
    ∀ (post pre : List Message), pre ++ post = file → devsWalk (descsOf pre) post = true →
      ChainOK o (P ++ descsOf pre) post ∧ dsAfter o (P ++ descsOf pre) post = P ++ descsOf file
  | [], pre, hsplit, _ => by
    simp only [List.append_nil] at hsplit
    subst hsplit
    exact ⟨trivial, rfl⟩
  | m :: post, pre, hsplit, hwalk => by
    have hmem : m ∈ file := by rw [← hsplit]; simp
    have hdf : descsOf file = descsOf pre ++ descsOf [m] ++ descsOf post := by
      rw [← hsplit, descsOf_append, ← List.singleton_append (l := post), descsOf_append, List.append_assoc]
    simp only [devsWalk, Bool.and_eq_true, List.all_eq_true] at hwalk
    obtain ⟨hdvs, hwalk'⟩ := hwalk
    have hsub1 : ∀ d ∈ descsOf pre ++ descsOf [m], d ∈ descsOf file := by
      intro d hd; rw [hdf]; exact List.mem_append_left _ hd
    have hline : LineOK o (P ++ descsOf pre) m := by
      refine ⟨hf.mesgs m hmem, noSubNames_append hP (fun d hd => hf.descs d (hsub1 d (List.mem_append_left _ hd))), ?_, ?_⟩
      · intro dv hdv
        rw [writeMesg_snd]
        apply dev_cell_rt o P (descsOf pre) (descsOf [m]) m dv
        · have := hf.pairs
          rw [hdf, List.map_append] at this
          exact (List.nodup_append.mp this).1
        · have := hf.names
          rw [hdf, List.append_assoc, List.map_append] at this
          exact (List.nodup_append.mp this).1
        · intro d hd; exact hf.descs d (hsub1 d (List.mem_append_left _ hd))
        · exact hdvs dv hdv
      · intro hnum
        apply desc_keeps o m (hf.mesgs m hmem) hnum
        apply hf.descs
        apply hsub1
        apply List.mem_append_right
        rw [descsOf_single]
        simp [hnum]
    have hpre' : descsOf (pre ++ [m]) = descsOf pre ++ descsOf [m] := descsOf_append pre [m]
    have hw2 : devsWalk (descsOf (pre ++ [m])) post = true := by
      rw [hpre', descsOf_single]
      cases h : m.num == mnFieldDescription
      · simpa [h] using hwalk'
      · simpa [h] using hwalk'
    have ih := chainOK_file o P hP file hf post (pre ++ [m]) (by rw [← hsplit]; simp) hw2
    have hnext : (writeMesg o (P ++ descsOf pre) m).2 = P ++ descsOf (pre ++ [m]) := by
      rw [writeMesg_snd, hpre', List.append_assoc]
    refine ⟨⟨hline, ?_⟩, ?_⟩
    · rw [hnext]; exact ih.1
    · show dsAfter o (writeMesg o (P ++ descsOf pre) m).2 post = _
      rw [hnext]; exact ih.2

theorem chainOK_files (o : Opts) : ∀ (files : List (List Message)) (P : List Desc), NoSubNames P →
    (∀ f ∈ files, FileScope f) → ChainOK o P files.flatten
  | [], _, _, _ => trivial
  | f :: files, P, hP, h => by
    have hf := h f (List.mem_cons_self ..)
    have h1 := chainOK_file o P hP f hf f [] rfl hf.walk
    simp only [descsOf, List.filter_nil, List.map_nil, List.append_nil] at h1
    rw [List.flatten_cons]
    apply chainOK_append o f files.flatten P h1.1
    have h2 : dsAfter o P f = P ++ descsOf f := h1.2
    rw [h2]
    exact chainOK_files o files _ (noSubNames_append hP hf.descs) (fun x hx => h x (List.mem_cons_of_mem _ hx))

/-! ### sequences -/

theorem stepX_noFid (o : Opts) (s : RState) (m : Message) (h : m.num ≠ mnFileId) :
    (stepX o s m).seq = s.seq ∧ (stepX o s m).done = s.done ∧
    (stepX o s m).cur = (match expectedMesg o m with | some m' => m' :: s.cur | none => s.cur) := by
  have hf : (m.num == mnFileId) = false := by simpa using h
  rw [expectedMesg_eq]
  unfold stepX
  cases (!o.verbose && isUnknownMesg m.num)
  · simp only [Bool.false_eq_true, ↓reduceIte, hf]
    cases ((backFields o m).isEmpty && m.devFields.isEmpty)
    · simp
    · simp
  · simp

theorem foldl_stepX_noFid (o : Opts) : ∀ (rest : List Message) (s : RState), (∀ m ∈ rest, m.num ≠ mnFileId) →
    (rest.foldl (stepX o) s).seq = s.seq ∧ (rest.foldl (stepX o) s).done = s.done ∧
    (rest.foldl (stepX o) s).cur = (rest.filterMap (expectedMesg o)).reverse ++ s.cur
  | [], s, _ => by simp
  | m :: rest, s, h => by
    obtain ⟨a, b, c⟩ := stepX_noFid o s m (h m (List.mem_cons_self ..))
    obtain ⟨a', b', c'⟩ := foldl_stepX_noFid o rest (stepX o s m) (fun x hx => h x (List.mem_cons_of_mem _ hx))
    simp only [List.foldl_cons]
    refine ⟨by rw [a', a], by rw [b', b], ?_⟩
    rw [c', c, List.filterMap_cons]
    cases expectedMesg o m <;> simp

theorem fileId_notUnknown : isUnknownMesg mnFileId = false := by
  simp only [isUnknownMesg, Bool.or_eq_false_iff, decide_eq_false_iff_not, Option.isNone_eq_false_iff]
  exact ⟨by have := fileId_known.2; omega, by rw [fileId_known.1]; rfl⟩

theorem foldl_fileX (o : Opts) (f : List Message) (hf : FileShape f) (s : RState) :
    (f.foldl (stepX o) s).seq = s.seq + 1 ∧
    (s.seq = 0 → s.cur = [] → s.done = [] → seqsOf (f.foldl (stepX o) s) = [f.filterMap (expectedMesg o)]) ∧
    (s.seq ≠ 0 → seqsOf (f.foldl (stepX o) s) = seqsOf s ++ [f.filterMap (expectedMesg o)]) := by
  obtain ⟨fid, rest, rfl, hnum, hrest⟩ := hf
  have hb : (fid.num == mnFileId) = true := by simp [hnum]
  have hu : (!o.verbose && isUnknownMesg fid.num) = false := by rw [hnum, fileId_notUnknown]; simp
  simp only [List.foldl_cons]
  obtain ⟨a, b, c⟩ := foldl_stepX_noFid o rest (stepX o s fid) hrest
  have hexp : expectedMesg o fid = if (backFields o fid).isEmpty && fid.devFields.isEmpty then none else some (backMesgOf o fid) := by
    rw [expectedMesg_eq, hu]; rfl
  by_cases hseq : s.seq = 0
  · have hs : (s.seq != 0) = false := by simp [hseq]
    refine ⟨?_, ?_, fun h => absurd hseq h⟩
    · rw [a]; unfold stepX
      simp only [hu, Bool.false_eq_true, ↓reduceIte, hb, hs]
      split <;> rfl
    · intro _ hc hd
      simp only [seqsOf, b, c, List.filterMap_cons, hexp]
      unfold stepX
      simp only [hu, Bool.false_eq_true, ↓reduceIte, hb, hs]
      cases ((backFields o fid).isEmpty && fid.devFields.isEmpty) <;> simp [hc, hd]
  · have hs : (s.seq != 0) = true := by simp [hseq]
    refine ⟨?_, fun h => absurd h hseq, ?_⟩
    · rw [a]; unfold stepX
      simp only [hu, Bool.false_eq_true, ↓reduceIte, hb, hs]
      split <;> rfl
    · intro _
      simp only [seqsOf, b, c, List.filterMap_cons, hexp]
      unfold stepX
      simp only [hu, Bool.false_eq_true, ↓reduceIte, hb, hs]
      cases ((backFields o fid).isEmpty && fid.devFields.isEmpty) <;> simp

theorem foldl_filesX (o : Opts) : ∀ (files : List (List Message)) (s : RState), (∀ f ∈ files, FileShape f) → s.seq ≠ 0 →
    (files.flatten.foldl (stepX o) s).seq = s.seq + files.length ∧
    seqsOf (files.flatten.foldl (stepX o) s) = seqsOf s ++ files.map (·.filterMap (expectedMesg o))
  | [], s, _, _ => by simp
  | f :: files, s, h, hs => by
    have h1 := foldl_fileX o f (h f (List.mem_cons_self ..)) s
    simp only [List.flatten_cons, List.foldl_append]
    have hne : (f.foldl (stepX o) s).seq ≠ 0 := by rw [h1.1]; omega
    have ih := foldl_filesX o files (f.foldl (stepX o) s) (fun x hx => h x (List.mem_cons_of_mem _ hx)) hne
    refine ⟨?_, ?_⟩
    · rw [ih.1, h1.1]; simp only [List.length_cons]; omega
    · rw [ih.2, h1.2.2 hs]; simp

/-- **FIT → CSV → FIT for every chain of files within `CsvUnambiguous`** -/
theorem roundtrip_full (o : Opts) (files : List (List Message)) (hne : files ≠ []) (h : csvUnambiguousB o files = true) :
    fromCsvPre Arith.so (toCsv o files) = .ok ⟨expected o files, files.length⟩ := by
  have hfs := fileScope_of h
  have hchain := chainOK_files o files [] (fun d hd => by cases hd) hfs
  have hrl := readLines_scope o files.flatten {} hchain
  have hshape : ∀ f ∈ files, FileShape f := fun f hf => (hfs f hf).shape
  simp only [fromCsvPre, toCsv]
  have e0 : ({} : RState).ds = [] := rfl
  rw [e0] at hrl
  rw [hrl]
  cases files with
  | nil => exact absurd rfl hne
  | cons f rest =>
    have h1 := foldl_fileX o f (hshape f (List.mem_cons_self ..)) {}
    simp only [List.flatten_cons, List.foldl_append]
    have hne1 : (f.foldl (stepX o) {}).seq ≠ 0 := by rw [h1.1]; decide
    have h2 := foldl_filesX o rest (f.foldl (stepX o) {}) (fun x hx => hshape x (List.mem_cons_of_mem _ hx)) hne1
    have hs1 := h1.2.1 rfl rfl rfl
    have e1 : (rest.flatten.foldl (stepX o) (f.foldl (stepX o) {})).seq = (f :: rest).length := by
      rw [h2.1, h1.1]; simp only [List.length_cons]; show 0 + 1 + rest.length = rest.length + 1; omega
    have e2 : seqsOf (rest.flatten.foldl (stepX o) (f.foldl (stepX o) {})) = expected o (f :: rest) := by
      rw [h2.2, hs1]; simp [expected]
    simp only [seqsOf] at e2
    rw [e1, e2]

end Fit.Csv
