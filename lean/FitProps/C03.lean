import FitProps.DecoderApiLemmas
/-!
# C03 — Decoding arbitrary bytes never panics, hangs or fakes success

PROPERTY THEOREMS (audited by ./check): see `theorem C03_*` below.
-/
namespace Fit.C03
open Fit.DecApi

/-- the answer a dead decoder (sticky error `e`) gives to an operation -/
def stickyOut (e : Err) : Op → Out
  | .next => .bool false
  | .checkIntegrity => .integrity 0 (some e)
  | _ => .err e

/-- **Sticky error.** Once `d.err` is set, every entry point other than `Reset` returns that error (`Next`: false,
`CheckIntegrity`: 0 sequences and the error), calls no listener and leaves the decoder's state as it is. -/
theorem C03_sticky (a : Api) (e : Err) (h : a.d.q.err = some e) (op : Op) (hop : ∀ o b, op ≠ .reset o b) :
    (step a op).2 = (stickyOut e op, []) ∧ (step a op).1.d = a.d := by
  cases op <;>
    simp_all [step, stickyOut, stepDecode, stepDecodeCtx, stepPeekHeader, stepPeekFileId, stepDiscard, stepNext,
      stepCheckIntegrity, Api.advance]

/-- Non-vacuity of `C03_sticky`: a decoder that met a truncated header is dead, and stays so. -/
example : let a := (step (Api.fresh {} [14, 32]) .decode).1
    a.d.q.err = some .eof ∧ (run a [.decode, .next, .peekFileId, .checkIntegrity]).map (·.1) =
      [.err .eof, .bool false, .err .eof, .integrity 0 (some .eof)] := by decide

end Fit.C03
